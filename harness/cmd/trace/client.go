package main

// The client-side recovery of a request from its id (client/utils/query.go
// QueryRequestByTxQuery, an anchor of C18): `query via=client kind=request`.
//
// The client is served by a stub node built from the simulator: the gRPC query
// for the request context is answered by the module's own query server on the
// current state, and BlockResults(h) returns the end-of-block events that the
// real EndBlocker emitted at height h during this history. The recovered request
// is printed like the answer of the other two interfaces, so it is compared with
// the same ground truth (the stored request).
//
// The comparison is made only while the request record is stored (afterwards the
// client may still rebuild it from the events, the module answers "empty"), and
// only for contexts all of whose providers have 20-byte addresses (the issue
// event carries bech32 text that the SDK's JSON decoder rejects for other
// lengths: recorded finding D11); otherwise the op is answered like via=grpc.

import (
	"fmt"

	"github.com/gogo/protobuf/proto"
	abci "github.com/tendermint/tendermint/abci/types"
	tmbytes "github.com/tendermint/tendermint/libs/bytes"
	rpcclient "github.com/tendermint/tendermint/rpc/client"
	ctypes "github.com/tendermint/tendermint/rpc/core/types"

	"github.com/cosmos/cosmos-sdk/client"
	sdk "github.com/cosmos/cosmos-sdk/types"

	"github.com/irismod/service/client/utils"
	"github.com/irismod/service/types"
)

type stubNode struct {
	rpcclient.Client
	s *Sim
}

func (n stubNode) ABCIQueryWithOptions(path string, data tmbytes.HexBytes, _ rpcclient.ABCIQueryOptions) (*ctypes.ResultABCIQuery, error) {
	if path != "/irismod.service.Query/RequestContext" {
		return nil, fmt.Errorf("stub node: unexpected query %s", path)
	}
	var req types.QueryRequestContextRequest
	if err := proto.Unmarshal(data, &req); err != nil {
		return nil, err
	}
	res, err := n.s.k.RequestContext(sdk.WrapSDKContext(n.s.ctx), &req)
	if err != nil {
		return nil, err
	}
	bz, err := proto.Marshal(res)
	if err != nil {
		return nil, err
	}
	return &ctypes.ResultABCIQuery{Response: abci.ResponseQuery{Value: bz, Height: n.s.ctx.BlockHeight()}}, nil
}

func (n stubNode) BlockResults(height *int64) (*ctypes.ResultBlockResults, error) {
	return &ctypes.ResultBlockResults{Height: *height, EndBlockEvents: n.s.endEvents[*height]}, nil
}

// queryClient answers `query via=client kind=request req=…`.
func (s *Sim) queryClient(kind string, a queryArgs) (*queryAnswer, string) {
	if kind != "request" || len(a.req) != types.RequestIDLen {
		return s.queryGRPC(kind, a)
	}
	stored, found := s.k.GetRequest(s.ctx, a.req)
	if !found {
		return s.queryGRPC(kind, a)
	}
	if rc, ok := s.k.GetRequestContext(s.ctx, stored.RequestContextId); ok {
		for _, p := range rc.Providers {
			if len(p) != sdk.AddrLen {
				return s.queryGRPC(kind, a)
			}
		}
	}
	cliCtx := client.Context{}.WithClient(stubNode{s: s})
	req, err := utils.QueryRequestByTxQuery(cliCtx, types.QuerierRoute, a.req)
	if err != nil {
		return nil, "client:" + errName(err)
	}
	return &queryAnswer{reqs: []types.Request{req}}, ""
}
