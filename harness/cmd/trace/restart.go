package main

// The non-terminal genesis op `restart` (SPEC.md §4.2): what a zero-height
// restart of the chain does to the module. PrepForZeroHeightGenesis and
// ExportGenesis on the running app, ValidateGenesis, InitGenesis into the
// service store of a FRESH simapp; the balances and accounts (the bank and auth
// modules' own genesis, outside the service module) are copied from the old
// app as the preparation left them. On success the trace continues on the new
// app at the same height and time. Any panic (or an invalid exported genesis)
// is `R panic …` and the old app stays in place, unchanged.

import (
	abci "github.com/tendermint/tendermint/abci/types"
	tmproto "github.com/tendermint/tendermint/proto/tendermint/types"

	sdk "github.com/cosmos/cosmos-sdk/types"
	authtypes "github.com/cosmos/cosmos-sdk/x/auth/types"
	banktypes "github.com/cosmos/cosmos-sdk/x/bank/types"
	simapp "github.com/irismod/service/app"

	service "github.com/irismod/service"
	"github.com/irismod/service/types"
)

func copyStore(dst, src sdk.KVStore) {
	var stale [][]byte
	it := dst.Iterator(nil, nil)
	for ; it.Valid(); it.Next() {
		stale = append(stale, append([]byte{}, it.Key()...))
	}
	it.Close()
	for _, k := range stale {
		dst.Delete(k)
	}
	it = src.Iterator(nil, nil)
	defer it.Close()
	for ; it.Valid(); it.Next() {
		dst.Set(append([]byte{}, it.Key()...), append([]byte{}, it.Value()...))
	}
}

func (s *Sim) restart(res *StepResult) (events []abci.Event) {
	defer func() {
		if r := recover(); r != nil {
			res.Class, res.Detail = classPanic, panicText(r)
			events = nil
		}
	}()
	// preparation and export on a cached context of the old app: nothing is written back
	cctx, _ := s.ctx.CacheContext()
	cctx = cctx.WithEventManager(sdk.NewEventManager())
	service.PrepForZeroHeightGenesis(cctx, s.k)
	gs := service.ExportGenesis(cctx, s.k)
	if err := types.ValidateGenesis(*gs); err != nil {
		debugf("restart: %v", err)
		res.Class, res.Detail = classPanic, "invalid-genesis"
		return nil
	}

	app := simapp.Setup(false)
	ctx := app.BaseApp.NewContext(false, tmproto.Header{Height: s.ctx.BlockHeight(), Time: s.ctx.BlockTime()})
	k := app.ServiceKeeper
	if err := registerModules(k, s.modules, s.modsvc); err != nil {
		panic(err)
	}
	service.InitGenesis(ctx, k, *gs)
	copyStore(ctx.KVStore(app.GetKey(banktypes.StoreKey)), cctx.KVStore(s.app.GetKey(banktypes.StoreKey)))
	copyStore(ctx.KVStore(app.GetKey(authtypes.StoreKey)), cctx.KVStore(s.app.GetKey(authtypes.StoreKey)))

	s.app, s.ctx, s.k = app, ctx, k
	s.handler = service.NewHandler(k)
	res.Class = classOK
	return cctx.EventManager().ABCIEvents()
}
