package main

import (
	"fmt"

	sdkerrors "github.com/cosmos/cosmos-sdk/types/errors"
)

// serviceErrNames maps the ABCI code of every error registered by
// github.com/irismod/service/types/errors.go (codespace "service") to the name
// of the Go variable holding it.
var serviceErrNames = map[uint32]string{
	2:  "ErrInvalidServiceName",
	3:  "ErrInvalidDescription",
	4:  "ErrInvalidTags",
	5:  "ErrInvalidSchemas",
	6:  "ErrUnknownServiceDefinition",
	7:  "ErrServiceDefinitionExists",
	8:  "ErrInvalidDeposit",
	9:  "ErrInvalidPricing",
	10: "ErrInvalidQoS",
	11: "ErrInvalidOptions",
	12: "ErrServiceBindingExists",
	13: "ErrUnknownServiceBinding",
	14: "ErrServiceBindingUnavailable",
	15: "ErrServiceBindingAvailable",
	16: "ErrIncorrectRefundTime",
	17: "ErrInvalidServiceFee",
	18: "ErrInvalidProviders",
	19: "ErrInvalidTimeout",
	20: "ErrInvalidRepeatedFreq",
	21: "ErrInvalidRepeatedTotal",
	22: "ErrInvalidResponseThreshold",
	23: "ErrInvalidResponse",
	24: "ErrInvalidRequestID",
	25: "ErrUnknownRequest",
	26: "ErrUnknownResponse",
	27: "ErrUnknownRequestContext",
	28: "ErrInvalidRequestContextID",
	29: "ErrRequestContextNonRepeated",
	30: "ErrRequestContextNotRunning",
	31: "ErrRequestContextNotPaused",
	32: "ErrRequestContextCompleted",
	33: "ErrCallbackRegistered",
	34: "ErrCallbackNotRegistered",
	35: "ErrNoEarnedFees",
	36: "ErrInvalidRequestInput",
	37: "ErrInvalidResponseOutput",
	38: "ErrInvalidResponseResult",
	39: "ErrInvalidSchemaName",
	40: "ErrNotAuthorized",
	41: "ErrModuleServiceRegistered",
	42: "ErrInvalidModuleService",
	43: "ErrBindModuleService",
	44: "ErrInvalidRequestInputBody",
	45: "ErrInvalidResponseOutputBody",
}

// sdkErrNames lists the cosmos-sdk root errors (codespace "sdk") that SPEC.md
// names explicitly. Everything else is rendered as ErrOther:<codespace>:<code>.
var sdkErrNames = map[uint32]string{
	4:  "ErrUnauthorized",
	5:  "ErrInsufficientFunds",
	6:  "ErrUnknownRequest",
	7:  "ErrInvalidAddress",
	10: "ErrInvalidCoins",
	18: "ErrInvalidRequest",
}

// errName returns the wire name of the registered root error behind err,
// matched by (codespace, code) and never by message text.
func errName(err error) string {
	codespace, code, _ := sdkerrors.ABCIInfo(err, false)
	switch codespace {
	case "service":
		if n, ok := serviceErrNames[code]; ok {
			return n
		}
	case sdkerrors.RootCodespace:
		if n, ok := sdkErrNames[code]; ok {
			return n
		}
	}
	return fmt.Sprintf("ErrOther:%s:%d", codespace, code)
}
