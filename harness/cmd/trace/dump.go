package main

import (
	"bytes"
	"crypto/sha256"
	"encoding/binary"
	"encoding/hex"
	"encoding/json"
	"fmt"
	"math/big"
	"sort"
	"strings"
	"time"

	gogotypes "github.com/gogo/protobuf/types"

	"github.com/cosmos/cosmos-sdk/codec"
	sdk "github.com/cosmos/cosmos-sdk/types"
	"github.com/cosmos/cosmos-sdk/types/bech32"

	banktypes "github.com/cosmos/cosmos-sdk/x/bank/types"

	"github.com/irismod/service/types"
)

// dumpState prints the state lines of SPEC.md §2: block header, bank facts and
// a raw scan of the whole `service` KVStore, sorted bytewise.
func (s *Sim) dumpState() []string {
	lines := []string{
		fmt.Sprintf("H %d %s", s.ctx.BlockHeight(), timeNs(s.ctx.BlockTime())),
	}

	// A: accounts with a non-zero stake balance that held nothing at baseline
	s.iterateBalances(func(addr sdk.AccAddress, coin sdk.Coin) {
		if coin.Denom == stakeDenom && !coin.Amount.IsZero() && !s.baseline[string(addr)] {
			lines = append(lines, fmt.Sprintf("A %s %s", hexOrDash(addr), coin.Amount))
		}
	})

	supply := s.app.BankKeeper.GetSupply(s.ctx).GetTotal().AmountOf(stakeDenom)
	lines = append(lines, "S "+supply.Sub(s.baseSupply).String())

	for _, kv := range s.scanStore() {
		lines = append(lines, decodeKV(s.app.AppCodec(), kv.key, kv.value))
	}
	sort.Strings(lines)
	return lines
}

// iterateBalances scans the raw bank store. The bank keeper's own iterator assumes
// 20-byte addresses when it cuts the address out of the key (balances|addr|denom); the
// service module pays to addresses of any length, so the address is recovered here as
// the key without the trailing denom of the stored coin.
func (s *Sim) iterateBalances(fn func(addr sdk.AccAddress, coin sdk.Coin)) {
	store := s.ctx.KVStore(s.app.GetKey(banktypes.StoreKey))
	it := sdk.KVStorePrefixIterator(store, banktypes.BalancesPrefix)
	defer it.Close()
	for ; it.Valid(); it.Next() {
		var coin sdk.Coin
		s.app.AppCodec().MustUnmarshalBinaryBare(it.Value(), &coin)
		key := it.Key()[len(banktypes.BalancesPrefix):]
		if len(key) < len(coin.Denom) {
			continue
		}
		fn(sdk.AccAddress(append([]byte{}, key[:len(key)-len(coin.Denom)]...)), coin)
	}
}

type kvPair struct{ key, value []byte }

// scanStore returns every pair of the service store (full iterator).
func (s *Sim) scanStore() []kvPair {
	store := s.ctx.KVStore(s.app.GetKey(types.StoreKey))
	it := store.Iterator(nil, nil)
	defer it.Close()
	var out []kvPair
	for ; it.Valid(); it.Next() {
		out = append(out, kvPair{append([]byte{}, it.Key()...), append([]byte{}, it.Value()...)})
	}
	return out
}

// storeDigest is the SHA-256 of every raw key/value pair of the service store (length-prefixed, in store order): the
// decoded state lines do not carry every stored byte (texts such as a response's result message are reduced to their
// kind), the digest does — "byte-identical module state" of C20 is decided on it.
func (s *Sim) storeDigest() string {
	h := sha256.New()
	var n [8]byte
	for _, kv := range s.scanStore() {
		binary.BigEndian.PutUint64(n[:], uint64(len(kv.key)))
		h.Write(n[:])
		h.Write(kv.key)
		binary.BigEndian.PutUint64(n[:], uint64(len(kv.value)))
		h.Write(n[:])
		h.Write(kv.value)
	}
	return hex.EncodeToString(h.Sum(nil))
}

// decodeKV renders one store entry; whatever does not decode becomes a garbage line.
func decodeKV(cdc codec.Marshaler, key, value []byte) (line string) {
	garbage := fmt.Sprintf("garbage %s %s", hexOrDash(key), hexOrDash(value))
	defer func() {
		if r := recover(); r != nil {
			line = garbage
		}
	}()
	if len(key) == 0 {
		return garbage
	}
	if l, ok := decodeEntry(cdc, key[0], key[1:], value); ok {
		return l
	}
	return garbage
}

func decodeEntry(cdc codec.Marshaler, prefix byte, k, v []byte) (string, bool) {
	switch prefix {
	case 0x01: // definition: name -> ServiceDefinition
		var d types.ServiceDefinition
		if cdc.UnmarshalBinaryBare(v, &d) != nil || d.Name != string(k) || !plainWord(d.Name) {
			return "", false
		}
		return recDefinition(d), true

	case 0x02: // binding: svc 0x00 bech32(prov) -> ServiceBinding
		svc, prov, ok := splitSvcBech32(k)
		var b types.ServiceBinding
		if !ok || cdc.UnmarshalBinaryBare(v, &b) != nil || b.ServiceName != svc || !bytes.Equal(b.Provider, prov) {
			return "", false
		}
		return recBinding(b)

	case 0x03: // owner binding: owner(20) svc 0x00 prov -> {}
		if len(k) < sdk.AddrLen || len(v) != 0 {
			return "", false
		}
		owner, rest := k[:sdk.AddrLen], k[sdk.AddrLen:]
		i := bytes.IndexByte(rest, 0x00)
		if i < 0 || !wordOrEmpty(string(rest[:i])) {
			return "", false
		}
		return fmt.Sprintf("OB %s %s %s", hex.EncodeToString(owner), wordOrDash(string(rest[:i])), hexOrDash(rest[i+1:])), true

	case 0x04: // owner of provider: prov -> BytesValue(owner)
		var o gogotypes.BytesValue
		if cdc.UnmarshalBinaryBare(v, &o) != nil {
			return "", false
		}
		return fmt.Sprintf("OW %s %s", hexOrDash(k), hexOrDash(o.Value)), true

	case 0x05: // owner provider: owner(20) prov -> {}
		// printed as PO (not OP) so that it cannot be confused with the `OP <op line>` block header
		if len(k) < sdk.AddrLen || len(v) != 0 {
			return "", false
		}
		return fmt.Sprintf("PO %s %s", hex.EncodeToString(k[:sdk.AddrLen]), hexOrDash(k[sdk.AddrLen:])), true

	case 0x06: // pricing: svc 0x00 bech32(prov) -> Pricing
		svc, prov, ok := splitSvcBech32(k)
		var p types.Pricing
		if !ok || cdc.UnmarshalBinaryBare(v, &p) != nil {
			return "", false
		}
		// the stored price is one coin of the base denomination — `0stake` for a free service (ParsePricing keeps the
		// explicit zero coin); anything else (an empty list, two coins) does not decode to price terms
		if len(p.Price) != 1 || p.Price[0].Denom != stakeDenom {
			return "", false
		}
		return fmt.Sprintf("PR %s %s %s %s %s", wordOrDash(svc), hexOrDash(prov), p.Price.AmountOf(stakeDenom),
			promTText(p.PromotionsByTime), promVText(p.PromotionsByVolume)), true

	case 0x07: // withdraw address: owner -> raw address bytes
		return recWithdrawAddr(k, v), true

	case 0x08: // request context: id -> RequestContext
		var rc types.RequestContext
		if cdc.UnmarshalBinaryBare(v, &rc) != nil {
			return "", false
		}
		return recContext(k, rc)

	case 0x09, 0x10: // expired / new batch queue: BE64(h) id -> BytesValue(id)
		var id gogotypes.BytesValue
		if len(k) < 8 || cdc.UnmarshalBinaryBare(v, &id) != nil || !bytes.Equal(id.Value, k[8:]) {
			return "", false
		}
		tag := "XQ"
		if prefix == 0x10 {
			tag = "NQ"
		}
		return fmt.Sprintf("%s %d %s", tag, int64(binary.BigEndian.Uint64(k[:8])), hexOrDash(k[8:])), true

	case 0x11, 0x12: // expired / new batch height: id -> Int64Value
		var h gogotypes.Int64Value
		if cdc.UnmarshalBinaryBare(v, &h) != nil {
			return "", false
		}
		tag := "XH"
		if prefix == 0x12 {
			tag = "NH"
		}
		return fmt.Sprintf("%s %s %d", tag, hexOrDash(k), h.Value), true

	case 0x13: // request: id -> CompactRequest
		var r types.CompactRequest
		if cdc.UnmarshalBinaryBare(v, &r) != nil {
			return "", false
		}
		return fmt.Sprintf("RQ %s %s %d %s %s %d %d", hexOrDash(k), hexOrDash(r.RequestContextId),
			r.RequestContextBatchCounter, hexOrDash(r.Provider), coinsOrDash(r.ServiceFee),
			r.RequestHeight, r.ExpirationHeight), true

	case 0x14: // active request by binding: svc 0x00 bech32(prov) 0x00 BE64(expH) id -> BytesValue(id)
		i := bytes.IndexByte(k, 0x00)
		if i < 0 {
			return "", false
		}
		j := bytes.IndexByte(k[i+1:], 0x00)
		if j < 0 {
			return "", false
		}
		svc, addr, rest := string(k[:i]), string(k[i+1:i+1+j]), k[i+1+j+1:]
		prov, ok := decodeBech32(addr)
		var id gogotypes.BytesValue
		if !ok || !wordOrEmpty(svc) || len(rest) < 8 || cdc.UnmarshalBinaryBare(v, &id) != nil || !bytes.Equal(id.Value, rest[8:]) {
			return "", false
		}
		return fmt.Sprintf("AB %s %s %d %s", wordOrDash(svc), hexOrDash(prov), int64(binary.BigEndian.Uint64(rest[:8])), hexOrDash(rest[8:])), true

	case 0x15: // active request by id: id -> BytesValue(id)
		var id gogotypes.BytesValue
		if cdc.UnmarshalBinaryBare(v, &id) != nil || !bytes.Equal(id.Value, k) {
			return "", false
		}
		return "AI " + hexOrDash(k), true

	case 0x16: // response: id -> Response
		var r types.Response
		if cdc.UnmarshalBinaryBare(v, &r) != nil {
			return "", false
		}
		return recResponse(k, r)

	case 0x17: // request volume: bech32(cons) 0x00 svc 0x00 bech32(prov) 0x00 -> UInt64Value
		parts := bytes.Split(k, []byte{0x00})
		var n gogotypes.UInt64Value
		if len(parts) != 4 || len(parts[3]) != 0 || cdc.UnmarshalBinaryBare(v, &n) != nil || !wordOrEmpty(string(parts[1])) {
			return "", false
		}
		cons, ok1 := decodeBech32(string(parts[0]))
		prov, ok2 := decodeBech32(string(parts[2]))
		if !ok1 || !ok2 {
			return "", false
		}
		return fmt.Sprintf("VO %s %s %s %d", hexOrDash(cons), wordOrDash(string(parts[1])), hexOrDash(prov), n.Value), true

	case 0x18: // provider earned fees: prov denom -> Coin
		var c sdk.Coin
		if cdc.UnmarshalBinaryBare(v, &c) != nil || c.Denom != stakeDenom || !bytes.HasSuffix(k, []byte(c.Denom)) || c.Amount.IsNil() {
			return "", false
		}
		return fmt.Sprintf("EF %s %s", hexOrDash(k[:len(k)-len(c.Denom)]), c.Amount), true

	case 0x19: // owner earned fees: owner -> Coin
		var c sdk.Coin
		if cdc.UnmarshalBinaryBare(v, &c) != nil || c.Denom != stakeDenom || c.Amount.IsNil() {
			return "", false
		}
		return fmt.Sprintf("OE %s %s", hexOrDash(k), c.Amount), true
	}
	return "", false
}

// ---------------------------------------------------------------------------
// record layouts shared by the state lines (§2), the Q lines (§4.1) and the G
// lines (§4.2). The functions returning a bool report false when some field
// cannot be rendered; the state scan then prints a garbage line, whereas the
// Q/G lines keep the record with `-` in the place of that field.

func recDefinition(d types.ServiceDefinition) string {
	return fmt.Sprintf("D %s %s", wordOrDash(d.Name), hexOrDash(d.Author))
}

// recBinding renders a binding; ok is false (the caller prints a garbage line) when the pricing text does not parse or
// the stored deposit is not a canonical coin list (e.g. a zero-amount coin instead of the empty list).
func recBinding(b types.ServiceBinding) (string, bool) {
	price, promT, promV, ok := parsePricingText(b.Pricing)
	if !ok {
		price, promT, promV = "-", "-", "-"
	}
	return fmt.Sprintf("B %s %s %s %s %s %s %d %s %s %s",
		wordOrDash(b.ServiceName), hexOrDash(b.Provider), hexOrDash(b.Owner), b.Deposit.AmountOf(stakeDenom), bit(b.Available),
		timeNs(b.DisabledTime), b.QoS, price, promT, promV), ok && b.Deposit.IsValid()
}

func recWithdrawAddr(owner, addr []byte) string {
	return fmt.Sprintf("WD %s %s", hexOrDash(owner), hexOrDash(addr))
}

func recContext(id []byte, rc types.RequestContext) (string, bool) {
	provs := make([]string, len(rc.Providers))
	for i, p := range rc.Providers {
		provs[i] = hexOrDash(p)
	}
	bstate, ok1 := types.RequestContextBatchStateToStringMap[rc.BatchState]
	state, ok2 := types.RequestContextStateToStringMap[rc.State]
	if !ok1 {
		bstate = "-"
	}
	if !ok2 {
		state = "-"
	}
	return fmt.Sprintf("CX %s %s %s %s %s %d %s %s %d %d %d %d %d %d %s %s %d %s",
		hexOrDash(id), wordOrDash(rc.ServiceName), listOrDash(provs), hexOrDash(rc.Consumer), coinsOrDash(rc.ServiceFeeCap),
		rc.Timeout, bit(rc.SuperMode), bit(rc.Repeated), rc.RepeatedFrequency, rc.RepeatedTotal,
		rc.BatchCounter, rc.BatchRequestCount, rc.BatchResponseCount, rc.BatchResponseThreshold,
		bstate, state, rc.ResponseThreshold, wordOrDash(rc.ModuleName)), ok1 && ok2
}

func recResponse(id []byte, r types.Response) (string, bool) {
	var result struct {
		Code *uint16 `json:"code"`
	}
	code, ok := "-", false
	if json.Unmarshal([]byte(r.Result), &result) == nil && result.Code != nil {
		code, ok = fmt.Sprint(*result.Code), true
	}
	return fmt.Sprintf("RS %s %s %s %s %s %s %d", hexOrDash(id), hexOrDash(r.Provider), hexOrDash(r.Consumer),
		code, classifyOutput(r.Output), hexOrDash(r.RequestContextId), r.RequestContextBatchCounter), ok
}

// recRequest is the REQ layout of §4.1 (a full Request as the queries return it).
func recRequest(r types.Request) string {
	return fmt.Sprintf("REQ %s %s %s %s %s %s %d %d %s %d", hexOrDash(r.Id), wordOrDash(r.ServiceName), hexOrDash(r.Provider),
		hexOrDash(r.Consumer), coinsOrDash(r.ServiceFee), bit(r.SuperMode), r.RequestHeight, r.ExpirationHeight,
		hexOrDash(r.RequestContextId), r.RequestContextBatchCounter)
}

func recEarnedFees(prov []byte, fees sdk.Coins) string {
	return fmt.Sprintf("EF %s %s", hexOrDash(prov), fees.AmountOf(stakeDenom))
}

func recParams(p types.Params) string {
	return fmt.Sprintf("PARAMS %d %d %s %s %s %d %d", p.MaxRequestTimeout, p.MinDepositMultiple, coinsOrDash(p.MinDeposit),
		decText(p.ServiceFeeTax), decText(p.SlashFraction), int64(p.ComplaintRetrospect), int64(p.ArbitrationTimeLimit))
}

// genesisLines renders a GenesisState as the G lines of §4.2, sorted bytewise.
// A withdraw-address key that is not bech32, or a context key that is not hex,
// is printed as `-`.
func genesisLines(gs *types.GenesisState) []string {
	lines := []string{"G " + recParams(gs.Params)}
	for _, d := range gs.Definitions {
		lines = append(lines, "G "+recDefinition(d))
	}
	for _, b := range gs.Bindings {
		l, _ := recBinding(b)
		lines = append(lines, "G "+l)
	}
	for owner, addr := range gs.WithdrawAddresses {
		ownerBz, _ := decodeBech32(owner)
		lines = append(lines, "G "+recWithdrawAddr(ownerBz, addr))
	}
	for id, rc := range gs.RequestContexts {
		idBz, _ := hex.DecodeString(id)
		var l string
		if rc == nil {
			l = "CX " + hexOrDash(idBz) + " nil"
		} else {
			l, _ = recContext(idBz, *rc)
		}
		lines = append(lines, "G "+l)
	}
	sort.Strings(lines)
	return lines
}

// serviceStoreLines is the raw scan of the service store of any app, decoded as in dumpState.
func serviceStoreLines(cdc codec.Marshaler, ctx sdk.Context, key sdk.StoreKey) []string {
	it := ctx.KVStore(key).Iterator(nil, nil)
	defer it.Close()
	var lines []string
	for ; it.Valid(); it.Next() {
		lines = append(lines, decodeKV(cdc, append([]byte{}, it.Key()...), append([]byte{}, it.Value()...)))
	}
	return lines
}

// splitSvcBech32 splits `svc 0x00 bech32(addr)` and decodes the address.
func splitSvcBech32(k []byte) (svc string, addr []byte, ok bool) {
	i := bytes.IndexByte(k, 0x00)
	if i < 0 {
		return "", nil, false
	}
	addr, ok = decodeBech32(string(k[i+1:]))
	if !ok || !wordOrEmpty(string(k[:i])) {
		return "", nil, false
	}
	return string(k[:i]), addr, true
}

// decodeBech32 inverts AccAddress.String() for addresses of any length; the
// empty address is rendered by the SDK as the empty string.
func decodeBech32(s string) ([]byte, bool) {
	if s == "" {
		return []byte{}, true
	}
	_, bz, err := bech32.DecodeAndConvert(s)
	if err != nil {
		return nil, false
	}
	return bz, true
}

// wordOrEmpty reports whether s is empty or printable as one field.
func wordOrEmpty(s string) bool { return s == "" || plainWord(s) }

// parsePricingText re-parses a binding's Pricing TEXT with encoding/json,
// independently of the parsed Pricing stored under 0x06.
func parsePricingText(text string) (price, promT, promV string, ok bool) {
	var raw struct {
		Price            string `json:"price"`
		PromotionsByTime []struct {
			StartTime string `json:"start_time"`
			EndTime   string `json:"end_time"`
			Discount  string `json:"discount"`
		} `json:"promotions_by_time"`
		PromotionsByVolume []struct {
			Volume   uint64 `json:"volume"`
			Discount string `json:"discount"`
		} `json:"promotions_by_volume"`
	}
	if json.Unmarshal([]byte(text), &raw) != nil || !plainWord(raw.Price) {
		return "", "", "", false
	}
	var ts, vs []string
	for _, p := range raw.PromotionsByTime {
		s, err1 := time.Parse(time.RFC3339Nano, p.StartTime)
		e, err2 := time.Parse(time.RFC3339Nano, p.EndTime)
		d, err3 := sdk.NewDecFromStr(p.Discount)
		if err1 != nil || err2 != nil || err3 != nil {
			return "", "", "", false
		}
		ts = append(ts, fmt.Sprintf("%s:%s:%s", timeNs(s), timeNs(e), d.BigInt()))
	}
	for _, p := range raw.PromotionsByVolume {
		d, err := sdk.NewDecFromStr(p.Discount)
		if err != nil {
			return "", "", "", false
		}
		vs = append(vs, fmt.Sprintf("%d:%s", p.Volume, d.BigInt()))
	}
	return raw.Price, semiOrDash(ts), semiOrDash(vs), true
}

func promTText(ps []types.PromotionByTime) string {
	var out []string
	for _, p := range ps {
		out = append(out, fmt.Sprintf("%s:%s:%s", timeNs(p.StartTime), timeNs(p.EndTime), decText(p.Discount)))
	}
	return semiOrDash(out)
}

func promVText(ps []types.PromotionByVolume) string {
	var out []string
	for _, p := range ps {
		out = append(out, fmt.Sprintf("%d:%s", p.Volume, decText(p.Discount)))
	}
	return semiOrDash(out)
}

func decText(d sdk.Dec) string {
	if d.IsNil() {
		return "-"
	}
	return d.BigInt().String()
}

func semiOrDash(items []string) string {
	if len(items) == 0 {
		return "-"
	}
	return strings.Join(items, ";")
}

// timeNs renders a time as integer nanoseconds since the Unix epoch; Go's zero
// time.Time{} is `-`. Computed with big integers so that far-away instants do
// not wrap.
func timeNs(t time.Time) string {
	if t.IsZero() {
		return "-"
	}
	ns := new(big.Int).Mul(big.NewInt(t.Unix()), big.NewInt(1000000000))
	return ns.Add(ns, big.NewInt(int64(t.Nanosecond()))).String()
}

func hexOrDash(bz []byte) string {
	if len(bz) == 0 {
		return "-"
	}
	return hex.EncodeToString(bz)
}

func wordOrDash(s string) string {
	if s == "" {
		return "-"
	}
	return s
}

// plainWord reports whether s can be printed as one field of a record.
func plainWord(s string) bool {
	return s != "" && !strings.ContainsAny(s, " \n\r\t")
}

// coinsOrDash renders a fee/cap: `-` when the coins are empty/nil, else the stake amount.
func coinsOrDash(c sdk.Coins) string {
	if len(c) == 0 {
		return "-"
	}
	return c.AmountOf(stakeDenom).String()
}

func bit(b bool) string {
	if b {
		return "1"
	}
	return "0"
}
