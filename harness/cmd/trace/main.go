// Command trace drives the real github.com/irismod/service code in-process
// according to the wire format of ../../SPEC.md.
//
//	trace run  <opsfile|->
//	trace gen  -seed N -profile P -histories K -ops M [-out DIR]
//	trace addrs
//	trace ids  [file|-]
package main

import (
	"bufio"
	"flag"
	"fmt"
	"io"
	"os"
	"strings"
)

func usage() {
	fmt.Fprintln(os.Stderr, `usage:
  trace run  <opsfile|->                                    execute op lines, print step blocks
  trace gen  -seed N -profile P -histories K -ops M [-out DIR]  generate K random histories into DIR/h<i>.trace
  trace addrs                                               print the hex addresses: escrow deposit collector
  trace ids  [file|-]                                       identifier lines (SPEC.md 4.3) from stdin, one answer line each
profiles: `+strings.Join(profileNames(), " "))
	os.Exit(2)
}

func main() {
	if len(os.Args) < 2 {
		usage()
	}
	if err := selfTest(); err != nil {
		fmt.Fprintln(os.Stderr, "trace: payload self-test failed:", err)
		os.Exit(1)
	}
	switch os.Args[1] {
	case "run":
		if len(os.Args) != 3 {
			usage()
		}
		os.Exit(cmdRun(os.Args[2]))
	case "gen":
		os.Exit(cmdGen(os.Args[2:]))
	case "ids":
		path := "-"
		if len(os.Args) == 3 {
			path = os.Args[2]
		} else if len(os.Args) != 2 {
			usage()
		}
		os.Exit(cmdIDs(path))
	case "keys", "keygen", "keysearch": // C18, see keys.go
		switch {
		case os.Args[1] == "keygen":
			os.Exit(cmdKeygen(os.Args[2:]))
		case os.Args[1] == "keysearch":
			os.Exit(cmdKeysearch(os.Args[2:]))
		case len(os.Args) == 3:
			os.Exit(cmdKeys(os.Args[2]))
		default:
			os.Exit(cmdKeys("-"))
		}
	case "addrs":
		escrow, deposit, collector := moduleAddrs()
		fmt.Printf("%x %x %x\n", []byte(escrow), []byte(deposit), []byte(collector))
	default:
		usage()
	}
}

// cmdRun executes the op lines of a file (or stdin) and prints one step block
// per line, flushing after every step.
func cmdRun(path string) int {
	var in io.Reader = os.Stdin
	if path != "-" {
		f, err := os.Open(path)
		if err != nil {
			fmt.Fprintln(os.Stderr, "trace:", err)
			return 1
		}
		defer f.Close()
		in = f
	}
	out := bufio.NewWriter(os.Stdout)
	defer out.Flush()

	sim := NewSim()
	sc := bufio.NewScanner(in)
	sc.Buffer(make([]byte, 1<<20), 1<<24)
	for n := 1; sc.Scan(); n++ {
		line := strings.TrimRight(sc.Text(), "\r")
		if strings.TrimSpace(line) == "" || strings.HasPrefix(line, "#") {
			continue
		}
		res, err := sim.Step(line)
		if err != nil {
			out.Flush()
			fmt.Fprintf(os.Stderr, "trace: line %d: %v\n", n, err)
			return 2
		}
		if err := res.WriteBlock(out); err != nil {
			return 1
		}
		out.Flush()
		if sim.Stopped {
			break // R panic on endblock, or reimport, ends the trace
		}
	}
	if err := sc.Err(); err != nil {
		fmt.Fprintln(os.Stderr, "trace:", err)
		return 1
	}
	return 0
}

// cmdGen parses the flags of `trace gen` and runs the generator.
func cmdGen(args []string) int {
	fs := flag.NewFlagSet("gen", flag.ExitOnError)
	seed := fs.Int64("seed", 1, "PRNG seed")
	profile := fs.String("profile", "mixed", "one of: "+strings.Join(profileNames(), " "))
	histories := fs.Int("histories", 1, "number of histories")
	ops := fs.Int("ops", 100, "op lines per history (after the genesis/funding prelude)")
	outDir := fs.String("out", ".", "output directory")
	_ = fs.Parse(args)
	if fs.NArg() != 0 {
		usage()
	}
	if err := generate(*seed, *profile, *histories, *ops, *outDir); err != nil {
		fmt.Fprintln(os.Stderr, "trace gen:", err)
		return 1
	}
	return 0
}
