package main

// Execution of the ops of SPEC.md §4: `query` through both query interfaces of
// the module (§4.1), the genesis ops prep / export / validate / jsonrt /
// reimport (§4.2) and the identifier lines of `trace ids` (§4.3).

import (
	"bufio"
	"crypto/sha256"
	"fmt"
	"io"
	"os"
	"sort"
	"strings"

	"google.golang.org/grpc/status"

	abci "github.com/tendermint/tendermint/abci/types"
	tmbytes "github.com/tendermint/tendermint/libs/bytes"
	tmproto "github.com/tendermint/tendermint/proto/tendermint/types"

	sdk "github.com/cosmos/cosmos-sdk/types"

	service "github.com/irismod/service"
	simapp "github.com/irismod/service/app"
	"github.com/irismod/service/keeper"
	"github.com/irismod/service/types"
)

// ---------------------------------------------------------------------------
// §4.1 queries

// queryArgs are the arguments of a query op, whatever its kind.
type queryArgs struct {
	svc   string // name= of `definition`, svc= of the others
	prov  sdk.AccAddress
	owner sdk.AccAddress
	ctx   tmbytes.HexBytes
	req   tmbytes.HexBytes
	batch uint64
}

// queryAnswer is what either interface answered, in the module's own types, so
// that one formatter serves both.
type queryAnswer struct {
	defs     []types.ServiceDefinition
	bindings []types.ServiceBinding
	wd       []sdk.AccAddress
	ctxs     []types.RequestContext
	reqs     []types.Request
	resps    []types.Response
	fees     []sdk.Coins
	params   []types.Params
	schemas  []string
}

// query runs one query op on the main context (a query that wrote to the store
// would show in the state lines) and fills the R and Q lines.
func (s *Sim) query(res *StepResult, op *Op) error {
	via, kind := op.enum("via", "grpc", "legacy", "client"), op.raw("kind")
	var a queryArgs
	for _, f := range queryFields[kind] {
		switch f {
		case "name", "svc":
			a.svc = op.str(f)
		case "prov":
			a.prov = op.addr(f)
		case "owner":
			a.owner = op.addr(f)
		case "ctx":
			a.ctx = op.bytes(f)
		case "req":
			a.req = op.bytes(f)
		case "batch":
			a.batch = op.uint64(f)
		}
	}
	if op.err != nil {
		return op.err
	}

	defer func() {
		if r := recover(); r != nil {
			res.Class, res.Detail, res.Answers = classPanic, panicText(r), nil
		}
	}()
	var ans *queryAnswer
	var name string // error name, empty on success
	if via == "grpc" {
		ans, name = s.queryGRPC(kind, a)
	} else if via == "client" {
		ans, name = s.queryClient(kind, a)
	} else {
		ans, name = s.queryLegacy(kind, a)
	}
	if name != "" {
		res.Class, res.Detail = classErr, name
		return nil
	}
	res.Class = classOK
	res.Answers = s.answerLines(kind, a, ans)
	return nil
}

// grpcErrName names the error of a gRPC query method: the code of a gRPC
// status error (NotFound, InvalidArgument, Internal, …); an error that carries
// no gRPC status (the methods of this module return registered SDK errors) is
// named like the error of a message.
func grpcErrName(err error) string {
	if st, ok := status.FromError(err); ok {
		return st.Code().String()
	}
	return errName(err)
}

// queryGRPC calls the method of keeper.Keeper as types.QueryServer.
func (s *Sim) queryGRPC(kind string, a queryArgs) (*queryAnswer, string) {
	var srv types.QueryServer = s.k
	c := sdk.WrapSDKContext(s.ctx)
	ans := &queryAnswer{}
	var err error
	switch kind {
	case "definition":
		var r *types.QueryDefinitionResponse
		if r, err = srv.Definition(c, &types.QueryDefinitionRequest{ServiceName: a.svc}); err == nil && r.ServiceDefinition != nil {
			ans.defs = append(ans.defs, *r.ServiceDefinition)
		}
	case "binding":
		var r *types.QueryBindingResponse
		if r, err = srv.Binding(c, &types.QueryBindingRequest{ServiceName: a.svc, Provider: a.prov}); err == nil && r.ServiceBinding != nil {
			ans.bindings = append(ans.bindings, *r.ServiceBinding)
		}
	case "bindings":
		var r *types.QueryBindingsResponse
		if r, err = srv.Bindings(c, &types.QueryBindingsRequest{ServiceName: a.svc, Owner: a.owner}); err == nil {
			for _, b := range r.ServiceBindings {
				if b != nil {
					ans.bindings = append(ans.bindings, *b)
				}
			}
		}
	case "withdraw":
		var r *types.QueryWithdrawAddressResponse
		if r, err = srv.WithdrawAddress(c, &types.QueryWithdrawAddressRequest{Owner: a.owner}); err == nil {
			ans.wd = append(ans.wd, r.WithdrawAddress)
		}
	case "context":
		var r *types.QueryRequestContextResponse
		if r, err = srv.RequestContext(c, &types.QueryRequestContextRequest{RequestContextId: a.ctx}); err == nil && r.RequestContext != nil {
			ans.ctxs = append(ans.ctxs, *r.RequestContext)
		}
	case "request":
		var r *types.QueryRequestResponse
		if r, err = srv.Request(c, &types.QueryRequestRequest{RequestId: a.req}); err == nil && r.Request != nil {
			ans.reqs = append(ans.reqs, *r.Request)
		}
	case "requests":
		var r *types.QueryRequestsResponse
		if r, err = srv.Requests(c, &types.QueryRequestsRequest{ServiceName: a.svc, Provider: a.prov}); err == nil {
			ans.reqs = derefRequests(r.Requests)
		}
	case "requests_by_ctx":
		var r *types.QueryRequestsByReqCtxResponse
		if r, err = srv.RequestsByReqCtx(c, &types.QueryRequestsByReqCtxRequest{RequestContextId: a.ctx, BatchCounter: a.batch}); err == nil {
			ans.reqs = derefRequests(r.Requests)
		}
	case "response":
		var r *types.QueryResponseResponse
		if r, err = srv.Response(c, &types.QueryResponseRequest{RequestId: a.req}); err == nil && r.Response != nil {
			ans.resps = append(ans.resps, *r.Response)
		}
	case "responses":
		var r *types.QueryResponsesResponse
		if r, err = srv.Responses(c, &types.QueryResponsesRequest{RequestContextId: a.ctx, BatchCounter: a.batch}); err == nil {
			for _, x := range r.Responses {
				if x != nil {
					ans.resps = append(ans.resps, *x)
				}
			}
		}
	case "fees":
		var r *types.QueryEarnedFeesResponse
		if r, err = srv.EarnedFees(c, &types.QueryEarnedFeesRequest{Provider: a.prov}); err == nil {
			ans.fees = append(ans.fees, r.Fees)
		}
	case "params":
		var r *types.QueryParamsResponse
		if r, err = srv.Params(c, &types.QueryParamsRequest{}); err == nil {
			ans.params = append(ans.params, r.Params)
		}
	case "schema":
		var r *types.QuerySchemaResponse
		if r, err = srv.Schema(c, &types.QuerySchemaRequest{SchemaName: a.svc}); err == nil {
			ans.schemas = append(ans.schemas, r.Schema)
		}
	}
	if err != nil {
		return nil, grpcErrName(err)
	}
	return ans, ""
}

func derefRequests(in []*types.Request) (out []types.Request) {
	for _, r := range in {
		if r != nil {
			out = append(out, *r)
		}
	}
	return out
}

// errLegacyDecode is the R err name when the JSON answer of the legacy querier
// cannot be decoded by the codec that produced it (never seen; a finding if it is).
const errLegacyDecode = "legacy-json-decode"

// queryLegacy goes through keeper.NewQuerier with the route and the amino-JSON
// params of the REST/CLI clients, and decodes the amino-JSON answer.
func (s *Sim) queryLegacy(kind string, a queryArgs) (*queryAnswer, string) {
	amino := s.app.LegacyAmino()
	querier := keeper.NewQuerier(s.k, amino)

	var route string
	var params interface{}
	switch kind {
	case "definition":
		route, params = types.QueryDefinition, types.QueryDefinitionParams{ServiceName: a.svc}
	case "binding":
		route, params = types.QueryBinding, types.QueryBindingParams{ServiceName: a.svc, Provider: a.prov}
	case "bindings":
		route, params = types.QueryBindings, types.QueryBindingsParams{ServiceName: a.svc, Owner: a.owner}
	case "withdraw":
		route, params = types.QueryWithdrawAddress, types.QueryWithdrawAddressParams{Owner: a.owner}
	case "context":
		route, params = types.QueryRequestContext, types.QueryRequestContextParams{RequestContextID: a.ctx}
	case "request":
		route, params = types.QueryRequest, types.QueryRequestParams{RequestID: a.req}
	case "requests":
		route, params = types.QueryRequests, types.QueryRequestsParams{ServiceName: a.svc, Provider: a.prov}
	case "requests_by_ctx":
		route, params = types.QueryRequestsByReqCtx, types.QueryRequestsByReqCtxParams{RequestContextID: a.ctx, BatchCounter: a.batch}
	case "response":
		route, params = types.QueryResponse, types.QueryResponseParams{RequestID: a.req}
	case "responses":
		route, params = types.QueryResponses, types.QueryResponsesParams{RequestContextID: a.ctx, BatchCounter: a.batch}
	case "fees":
		route, params = types.QueryEarnedFees, types.QueryEarnedFeesParams{Provider: a.prov}
	case "params":
		route = types.QueryParameters
	case "schema":
		route, params = types.QuerySchema, types.QuerySchemaParams{SchemaName: a.svc}
	}
	var data []byte
	if params != nil {
		data = amino.MustMarshalJSON(params)
	}
	bz, err := querier(s.ctx, []string{route}, abci.RequestQuery{Data: data})
	if err != nil {
		return nil, errName(err)
	}

	ans := &queryAnswer{}
	switch kind {
	case "definition":
		var d types.ServiceDefinition
		err = amino.UnmarshalJSON(bz, &d)
		ans.defs = append(ans.defs, d)
	case "binding":
		var b types.ServiceBinding
		err = amino.UnmarshalJSON(bz, &b)
		ans.bindings = append(ans.bindings, b)
	case "bindings":
		err = amino.UnmarshalJSON(bz, &ans.bindings)
	case "withdraw":
		var addr sdk.AccAddress
		err = amino.UnmarshalJSON(bz, &addr)
		ans.wd = append(ans.wd, addr)
	case "context":
		var rc types.RequestContext
		err = amino.UnmarshalJSON(bz, &rc)
		ans.ctxs = append(ans.ctxs, rc)
	case "request":
		var r types.Request
		err = amino.UnmarshalJSON(bz, &r)
		ans.reqs = append(ans.reqs, r)
	case "requests", "requests_by_ctx":
		err = amino.UnmarshalJSON(bz, &ans.reqs)
	case "response":
		var r types.Response
		err = amino.UnmarshalJSON(bz, &r)
		ans.resps = append(ans.resps, r)
	case "responses":
		err = amino.UnmarshalJSON(bz, &ans.resps)
	case "fees":
		var fees sdk.Coins
		err = amino.UnmarshalJSON(bz, &fees)
		ans.fees = append(ans.fees, fees)
	case "params":
		var p types.Params
		err = amino.UnmarshalJSON(bz, &p)
		ans.params = append(ans.params, p)
	case "schema":
		var sch string
		err = amino.UnmarshalJSON(bz, &sch)
		ans.schemas = append(ans.schemas, sch)
	}
	if err != nil {
		debugf("legacy %s: answer %s does not decode: %v", kind, bz, err)
		return nil, errLegacyDecode
	}
	return ans, ""
}

// debugf prints a diagnostic on stderr when TRACE_DEBUG is set: the reasons
// behind the coarse classes legacy-json-decode, invalid-genesis and json:….
func debugf(format string, args ...interface{}) {
	if os.Getenv("TRACE_DEBUG") != "" {
		fmt.Fprintf(os.Stderr, "trace: debug: "+format+"\n", args...)
	}
}

// answerLines renders an answer as the sorted Q lines of §4.1.
//
// Three record layouts start with an id that the answers of the module do not
// carry: for `withdraw`, `context` and `response` it is the argument of the
// query; for `responses` the i-th record gets the request id of the i-th key of
// keeper.ResponsesIteratorByReqCtx (the iterator both interfaces answer from),
// `-` if there is no such key.
func (s *Sim) answerLines(kind string, a queryArgs, ans *queryAnswer) []string {
	var lines []string
	add := func(rec string) { lines = append(lines, "Q "+rec) }
	for _, d := range ans.defs {
		add(recDefinition(d))
	}
	for _, b := range ans.bindings {
		l, _ := recBinding(b)
		add(l)
	}
	for _, w := range ans.wd {
		add(recWithdrawAddr(a.owner, w))
	}
	for _, rc := range ans.ctxs {
		l, _ := recContext(a.ctx, rc)
		add(l)
	}
	for _, r := range ans.reqs {
		add(recRequest(r))
	}
	var respIDs [][]byte
	if kind == "responses" {
		it := s.k.ResponsesIteratorByReqCtx(s.ctx, a.ctx, a.batch)
		for ; it.Valid(); it.Next() {
			respIDs = append(respIDs, append([]byte{}, it.Key()[1:]...))
		}
		it.Close()
	}
	for i, r := range ans.resps {
		id := []byte(a.req)
		if kind == "responses" {
			id = nil
			if i < len(respIDs) {
				id = respIDs[i]
			}
		}
		l, _ := recResponse(id, r)
		add(l)
	}
	for _, f := range ans.fees {
		add(recEarnedFees(a.prov, f))
	}
	for _, p := range ans.params {
		add(recParams(p))
	}
	for _, sch := range ans.schemas {
		// the two system schemas are constants of the module: the answer is named by the constant it equals
		switch sch {
		case types.PricingSchema:
			add("SCH pricing")
		case types.ResultSchema:
			add("SCH result")
		default:
			add(fmt.Sprintf("SCH other:%x", sha256.Sum256([]byte(sch))))
		}
	}
	sort.Strings(lines)
	return lines
}

// ---------------------------------------------------------------------------
// §4.2 genesis ops

// prepZeroHeight runs PrepForZeroHeightGenesis on a cache context that is
// committed unless it panics; the bank events become E lines.
func (s *Sim) prepZeroHeight(res *StepResult) (events []abci.Event) {
	defer func() {
		if r := recover(); r != nil {
			res.Class, res.Detail = classPanic, panicText(r)
			events = nil
		}
	}()
	cctx, write := s.ctx.CacheContext()
	cctx = cctx.WithEventManager(sdk.NewEventManager())
	service.PrepForZeroHeightGenesis(cctx, s.k)
	write()
	res.Class = classOK
	return cctx.EventManager().ABCIEvents()
}

// export calls ExportGenesis on the current state; a panic ends up in res.
func (s *Sim) export(res *StepResult) (gs *types.GenesisState) {
	defer func() {
		if r := recover(); r != nil {
			res.Class, res.Detail = classPanic, panicText(r)
			gs = nil
		}
	}()
	return service.ExportGenesis(s.ctx, s.k)
}

func (s *Sim) exportGenesis(res *StepResult) {
	if gs := s.export(res); gs != nil {
		res.Class, res.Answers = classOK, genesisLines(gs)
	}
}

func (s *Sim) validateGenesis(res *StepResult) {
	gs := s.export(res)
	if gs == nil {
		return
	}
	defer func() {
		if r := recover(); r != nil {
			res.Class, res.Detail = classPanic, panicText(r)
		}
	}()
	if err := types.ValidateGenesis(*gs); err != nil {
		debugf("validate: %v", err)
		res.Class, res.Detail = classErr, "invalid-genesis"
		return
	}
	res.Class = classOK
}

// jsonRoundTrip marshals the exported genesis with the app codec, unmarshals it
// into a fresh GenesisState and compares the G lines of the two.
func (s *Sim) jsonRoundTrip(res *StepResult) {
	gs := s.export(res)
	if gs == nil {
		return
	}
	cdc := s.app.AppCodec()
	var bz []byte
	func() {
		defer func() {
			if r := recover(); r != nil {
				bz = nil
			}
		}()
		bz = cdc.MustMarshalJSON(gs)
	}()
	if bz == nil {
		res.Class, res.Detail = classErr, "json:marshal"
		return
	}
	var back types.GenesisState
	failed := false
	func() {
		defer func() {
			if r := recover(); r != nil {
				failed = true
			}
		}()
		err := cdc.UnmarshalJSON(bz, &back)
		if failed = err != nil; failed {
			debugf("jsonrt: %v", err)
		}
	}()
	if failed {
		res.Class, res.Detail = classErr, "json:unmarshal"
		return
	}
	if strings.Join(genesisLines(gs), "\n") != strings.Join(genesisLines(&back), "\n") {
		res.Class, res.Detail = classErr, "json:mismatch"
		return
	}
	res.Class = classOK
}

// reimport feeds the exported genesis to InitGenesis of a fresh app that has
// the same callbacks and module service registered, and fills the block from
// the NEW app: its exported genesis as G lines and the raw scan of its service
// store as state lines (H keeps the old height and time; no A/S lines). After
// a panic the state lines show whatever the new store holds by then.
//
// InitGenesis panics with the error text of ValidateGenesis, which names
// whichever offending context Go's map iteration meets first; to keep traces
// reproducible that panic is printed as `R panic invalid-genesis`.
func (s *Sim) reimport(res *StepResult) error {
	gs := s.export(res)
	if gs == nil {
		res.State = s.dumpState()
		return nil
	}
	app := simapp.Setup(false)
	ctx := app.BaseApp.NewContext(false, tmproto.Header{Height: s.ctx.BlockHeight(), Time: s.ctx.BlockTime()})
	k := app.ServiceKeeper
	if err := registerModules(k, s.modules, s.modsvc); err != nil {
		return err
	}
	invalid := func() (bad bool) {
		defer func() {
			if r := recover(); r != nil {
				bad = true
			}
		}()
		return types.ValidateGenesis(*gs) != nil
	}()
	func() {
		defer func() {
			if r := recover(); r != nil {
				res.Class, res.Detail, res.Answers = classPanic, panicText(r), nil
				if invalid {
					debugf("reimport: %s", res.Detail)
					res.Detail = "invalid-genesis"
				}
			}
		}()
		service.InitGenesis(ctx, k, *gs)
		res.Answers = genesisLines(service.ExportGenesis(ctx, k))
		res.Class = classOK
	}()
	lines := append([]string{fmt.Sprintf("H %d %s", ctx.BlockHeight(), timeNs(ctx.BlockTime()))},
		serviceStoreLines(app.AppCodec(), ctx, app.GetKey(types.StoreKey))...)
	sort.Strings(lines)
	res.State = lines
	return nil
}

// ---------------------------------------------------------------------------
// §4.3 identifiers

// idsAnswer computes the answer line of one line of `trace ids`.
func idsAnswer(line string) (string, error) {
	op, err := parseLine(idFields, line)
	if err != nil {
		return "", err
	}
	var out string
	switch op.Name {
	case "ctxid":
		tx, idx := op.bytes("tx"), op.int64("idx")
		if op.err == nil {
			out = hexOrDash(types.GenerateRequestContextID(tx, idx))
		}
	case "splitctx":
		id := op.bytes("id")
		if op.err == nil {
			if tx, idx, err := types.SplitRequestContextID(id); err != nil {
				out = "error"
			} else {
				out = fmt.Sprintf("%s %d", hexOrDash(tx), idx)
			}
		}
	case "reqid":
		ctx, batch, height, index := op.bytes("ctx"), op.uint64("batch"), op.int64("height"), op.int16("index")
		if op.err == nil {
			out = hexOrDash(types.GenerateRequestID(ctx, batch, height, index))
		}
	case "splitreq":
		id := op.bytes("id")
		if op.err == nil {
			if ctx, batch, height, index, err := types.SplitRequestID(id); err != nil {
				out = "error"
			} else {
				out = fmt.Sprintf("%s %d %d %d", hexOrDash(ctx), batch, height, index)
			}
		}
	}
	return out, op.err
}

// cmdIDs reads identifier lines (stdin, or the file given) and prints one
// answer line each; blank lines and lines starting with # are skipped.
func cmdIDs(path string) int {
	var in io.Reader = os.Stdin
	if path != "-" {
		f, err := os.Open(path)
		if err != nil {
			fmt.Fprintln(os.Stderr, "trace:", err)
			return 1
		}
		defer f.Close()
		in = f
	}
	out := bufio.NewWriter(os.Stdout)
	defer out.Flush()
	sc := bufio.NewScanner(in)
	sc.Buffer(make([]byte, 1<<20), 1<<24)
	for n := 1; sc.Scan(); n++ {
		line := strings.TrimRight(sc.Text(), "\r")
		if strings.TrimSpace(line) == "" || strings.HasPrefix(line, "#") {
			continue
		}
		ans, err := idsAnswer(line)
		if err != nil {
			out.Flush()
			fmt.Fprintf(os.Stderr, "trace: line %d: %v\n", n, err)
			return 2
		}
		fmt.Fprintln(out, ans)
	}
	if err := sc.Err(); err != nil {
		fmt.Fprintln(os.Stderr, "trace:", err)
		return 1
	}
	return 0
}
