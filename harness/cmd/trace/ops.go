package main

import (
	"encoding/hex"
	"fmt"
	"math/big"
	"strconv"
	"strings"
	"time"

	sdk "github.com/cosmos/cosmos-sdk/types"
)

// opFields is the wire grammar of SPEC.md §1: for every op name the keys that
// must follow it, in this order.
var opFields = map[string][]string{
	"genesis":   {"height", "time", "maxTimeout", "mult", "minDep", "tax", "slash", "complaint", "arbitration", "modules", "modsvc", "escrow", "deposit", "collector"},
	"fund":      {"acct", "amt"},
	"xfer":      {"from", "to", "amt"},
	"define":    {"name", "author", "schema"},
	"bind":      {"svc", "prov", "owner", "dep", "price", "promT", "promV", "qos"},
	"update":    {"svc", "prov", "owner", "dep", "price", "promT", "promV", "qos"},
	"setwd":     {"owner", "addr"},
	"disable":   {"svc", "prov", "owner"},
	"enable":    {"svc", "prov", "owner", "dep"},
	"refund":    {"svc", "prov", "owner"},
	"call":      {"tx", "idx", "svc", "provs", "cons", "cap", "timeout", "super", "rep", "freq", "total", "input"},
	"modcall":   {"tx", "idx", "svc", "provs", "cons", "cap", "timeout", "super", "rep", "freq", "total", "input", "mscode", "msout"},
	"modbind":   {"svc", "prov", "owner", "dep", "price", "promT", "promV", "qos"},
	"modcreate": {"tx", "idx", "mod", "svc", "provs", "cons", "cap", "timeout", "super", "rep", "freq", "total", "input", "state", "thr"},
	"respond":   {"req", "prov", "code", "out"},
	"pause":     {"ctx", "cons"},
	"start":     {"ctx", "cons"},
	"kill":      {"ctx", "cons"},
	"updatectx": {"ctx", "cons", "provs", "cap", "timeout", "freq", "total"},
	"modpause":  {"ctx", "cons"},
	"modstart":  {"ctx", "cons"},
	"modkill":   {"ctx", "cons"},
	"modupdate": {"ctx", "cons", "provs", "thr", "cap", "timeout", "freq", "total"},
	"withdraw":  {"owner", "prov"},
	"endblock":  {"dt"},

	// SPEC.md §4: queries and genesis ops. The fields of `query` that follow
	// via= and kind= depend on the kind (queryFields).
	"query":    {"via", "kind"},
	"prep":     {},
	"export":   {},
	"validate": {},
	"jsonrt":   {},
	"reimport": {},
	"restart":  {},
}

// queryFields is the grammar of SPEC.md §4.1: for every query kind the keys
// that follow `query via=… kind=…`, in this order.
var queryFields = map[string][]string{
	"definition":      {"name"},
	"binding":         {"svc", "prov"},
	"bindings":        {"svc", "owner"},
	"withdraw":        {"owner"},
	"context":         {"ctx"},
	"request":         {"req"},
	"requests":        {"svc", "prov"},
	"requests_by_ctx": {"ctx", "batch"},
	"response":        {"req"},
	"responses":       {"ctx", "batch"},
	"fees":            {"prov"},
	"params":          {},
	"schema":          {"name"},
}

// queryKinds lists the kinds in the order of the table of SPEC.md §4.1.
var queryKinds = []string{"definition", "binding", "bindings", "withdraw", "context", "request", "requests",
	"requests_by_ctx", "response", "responses", "fees", "params", "schema"}

// idFields is the grammar of the lines read by `trace ids` (SPEC.md §4.3).
var idFields = map[string][]string{
	"ctxid":    {"tx", "idx"},
	"splitctx": {"id"},
	"reqid":    {"ctx", "batch", "height", "index"},
	"splitreq": {"id"},
}

// fieldsOf returns the full field list of an op: the table entry, extended for
// `query` by the fields of its kind (kind is only looked at for `query`).
func fieldsOf(name, kind string) ([]string, bool) {
	fields, ok := opFields[name]
	if !ok {
		return nil, false
	}
	if name == "query" {
		extra, ok := queryFields[kind]
		if !ok {
			return nil, false
		}
		fields = append(append([]string{}, fields...), extra...)
	}
	return fields, true
}

// Op is one parsed op line. Values are kept as text and converted by the typed
// accessors; the first conversion failure is remembered in err and reported as
// a syntax error by the caller.
type Op struct {
	Name string
	Line string
	kv   map[string]string
	err  error
}

// parseOp splits an op line into its key=value pairs and checks them against
// the grammar table (names and order).
func parseOp(line string) (*Op, error) { return parseLine(opFields, line) }

// parseLine is parseOp over an arbitrary grammar table (`trace ids` has its own).
func parseLine(table map[string][]string, line string) (*Op, error) {
	parts := strings.Split(line, " ")
	fields, ok := table[parts[0]]
	if !ok {
		return nil, fmt.Errorf("unknown op %q", parts[0])
	}
	if parts[0] == "query" && len(parts) >= 3 && strings.HasPrefix(parts[2], "kind=") {
		kind := parts[2][len("kind="):]
		if fields, ok = fieldsOf("query", kind); !ok {
			return nil, fmt.Errorf("op query: unknown kind %q (have: %s)", kind, strings.Join(queryKinds, " "))
		}
	}
	if len(parts)-1 != len(fields) {
		return nil, fmt.Errorf("op %s: expected %d fields, got %d", parts[0], len(fields), len(parts)-1)
	}
	op := &Op{Name: parts[0], Line: line, kv: make(map[string]string, len(fields))}
	for i, f := range fields {
		p := parts[i+1]
		if !strings.HasPrefix(p, f+"=") {
			return nil, fmt.Errorf("op %s: field %d must be %s=…, got %q", parts[0], i+1, f, p)
		}
		v := p[len(f)+1:]
		if v == "" {
			return nil, fmt.Errorf("op %s: field %s is empty (use - for absent)", parts[0], f)
		}
		op.kv[f] = v
	}
	return op, nil
}

func (o *Op) fail(key, what string) {
	if o.err == nil {
		o.err = fmt.Errorf("op %s: field %s=%q is not %s", o.Name, key, o.kv[key], what)
	}
}

// raw returns the literal text of a field.
func (o *Op) raw(key string) string { return o.kv[key] }

// str returns a text field, with `-` standing for the empty string.
func (o *Op) str(key string) string {
	if v := o.kv[key]; v != "-" {
		return v
	}
	return ""
}

// bytes decodes a hex field; `-` is the empty byte string.
func (o *Op) bytes(key string) []byte {
	v := o.kv[key]
	if v == "-" {
		return []byte{}
	}
	bz, err := hex.DecodeString(v)
	if err != nil || v != strings.ToLower(v) {
		o.fail(key, "lower-case hex")
		return []byte{}
	}
	return bz
}

func (o *Op) addr(key string) sdk.AccAddress { return sdk.AccAddress(o.bytes(key)) }

// addrs decodes a comma-separated list of hex addresses; `-` is the empty list.
func (o *Op) addrs(key string) []sdk.AccAddress {
	v := o.kv[key]
	if v == "-" {
		return nil
	}
	var out []sdk.AccAddress
	for _, h := range strings.Split(v, ",") {
		bz, err := hex.DecodeString(h)
		if err != nil || h == "" || h != strings.ToLower(h) {
			o.fail(key, "a comma list of lower-case hex")
			return nil
		}
		out = append(out, sdk.AccAddress(bz))
	}
	return out
}

func (o *Op) int64(key string) int64 {
	n, err := strconv.ParseInt(o.kv[key], 10, 64)
	if err != nil {
		o.fail(key, "a decimal int64")
	}
	return n
}

func (o *Op) uint64(key string) uint64 {
	n, err := strconv.ParseUint(o.kv[key], 10, 64)
	if err != nil {
		o.fail(key, "a decimal uint64")
	}
	return n
}

func (o *Op) int16(key string) int16 {
	n, err := strconv.ParseInt(o.kv[key], 10, 16)
	if err != nil {
		o.fail(key, "a decimal int16")
	}
	return int16(n)
}

func (o *Op) uint32(key string) uint32 {
	n, err := strconv.ParseUint(o.kv[key], 10, 32)
	if err != nil {
		o.fail(key, "a decimal uint32")
	}
	return uint32(n)
}

func (o *Op) bool01(key string) bool {
	switch o.kv[key] {
	case "0":
		return false
	case "1":
		return true
	}
	o.fail(key, "0 or 1")
	return false
}

// enum checks that the field is one of the allowed words and returns it.
func (o *Op) enum(key string, allowed ...string) string {
	v := o.kv[key]
	for _, a := range allowed {
		if v == a {
			return v
		}
	}
	o.fail(key, "one of "+strings.Join(allowed, "|"))
	return allowed[0]
}

// amount parses a non-negative decimal integer of arbitrary size.
func (o *Op) amount(key string) sdk.Int {
	v := o.kv[key]
	n, ok := new(big.Int).SetString(v, 10)
	if !ok || n.Sign() < 0 || n.BitLen() > 255 || strings.HasPrefix(v, "+") {
		o.fail(key, "a non-negative decimal integer")
		return sdk.ZeroInt()
	}
	return sdk.NewIntFromBigInt(n)
}

// coins renders `-` as the empty sdk.Coins{} and n as exactly one stake coin
// (n may be 0, which yields the invalid Coins{0stake} on purpose).
func (o *Op) coins(key string) sdk.Coins {
	if o.kv[key] == "-" {
		return sdk.Coins{}
	}
	return sdk.Coins{sdk.Coin{Denom: stakeDenom, Amount: o.amount(key)}}
}

// dec18 parses a decimal given as an integer scaled by 10^18.
func (o *Op) dec18(key string) sdk.Dec {
	n, ok := new(big.Int).SetString(o.kv[key], 10)
	if !ok || n.BitLen() > 255 {
		o.fail(key, "a dec18 integer")
		return sdk.ZeroDec()
	}
	return sdk.NewDecFromBigIntWithPrec(n, 18)
}

// names parses a comma list of plain words; `-` is the empty list.
func (o *Op) names(key string) []string {
	if o.kv[key] == "-" {
		return nil
	}
	return strings.Split(o.kv[key], ",")
}

// pricing renders the pricing TEXT of bind/update from price, promT and promV
// exactly as SPEC.md prescribes. price=- is the empty pricing string.
func (o *Op) pricing() string {
	price := o.kv["price"]
	if price == "-" {
		return ""
	}
	var b strings.Builder
	b.WriteString(`{"price":"` + price + `"`)
	if v := o.kv["promT"]; v != "-" {
		b.WriteString(`,"promotions_by_time":[`)
		for i, item := range strings.Split(v, ";") {
			f := strings.Split(item, ":")
			if len(f) != 3 {
				o.fail("promT", "a list of s:e:d")
				return ""
			}
			s, err1 := strconv.ParseInt(f[0], 10, 64)
			e, err2 := strconv.ParseInt(f[1], 10, 64)
			d, ok := new(big.Int).SetString(f[2], 10)
			if err1 != nil || err2 != nil || !ok {
				o.fail("promT", "a list of ns:ns:dec18")
				return ""
			}
			if i > 0 {
				b.WriteString(",")
			}
			fmt.Fprintf(&b, `{"start_time":"%s","end_time":"%s","discount":"%s"}`, rfc3339ns(s), rfc3339ns(e), dec18Text(d))
		}
		b.WriteString("]")
	}
	if v := o.kv["promV"]; v != "-" {
		b.WriteString(`,"promotions_by_volume":[`)
		for i, item := range strings.Split(v, ";") {
			f := strings.Split(item, ":")
			if len(f) != 2 {
				o.fail("promV", "a list of v:d")
				return ""
			}
			vol, err := strconv.ParseUint(f[0], 10, 64)
			d, ok := new(big.Int).SetString(f[1], 10)
			if err != nil || !ok {
				o.fail("promV", "a list of uint:dec18")
				return ""
			}
			if i > 0 {
				b.WriteString(",")
			}
			fmt.Fprintf(&b, `{"volume":%d,"discount":"%s"}`, vol, dec18Text(d))
		}
		b.WriteString("]")
	}
	b.WriteString("}")
	return b.String()
}

func rfc3339ns(ns int64) string { return time.Unix(0, ns).UTC().Format(time.RFC3339Nano) }

var ten18 = new(big.Int).Exp(big.NewInt(10), big.NewInt(18), nil)

// dec18Text renders an integer scaled by 10^18 as a decimal string without
// trailing zeros: 500000000000000000 -> "0.5", 10^18 -> "1", 0 -> "0".
func dec18Text(d *big.Int) string {
	neg := d.Sign() < 0
	q, r := new(big.Int).QuoRem(new(big.Int).Abs(d), ten18, new(big.Int))
	s := q.String()
	if r.Sign() != 0 {
		s += "." + strings.TrimRight(fmt.Sprintf("%018s", r.String()), "0")
	}
	if neg {
		s = "-" + s
	}
	return s
}
