package main

import (
	"crypto/sha256"
	"encoding/hex"
	"encoding/json"
	"fmt"
	"io"
	"reflect"
	"strconv"
	"strings"
	"time"

	abci "github.com/tendermint/tendermint/abci/types"
	tmbytes "github.com/tendermint/tendermint/libs/bytes"
	tmproto "github.com/tendermint/tendermint/proto/tendermint/types"

	sdk "github.com/cosmos/cosmos-sdk/types"
	"github.com/cosmos/cosmos-sdk/types/bech32"
	authtypes "github.com/cosmos/cosmos-sdk/x/auth/types"

	service "github.com/irismod/service"
	simapp "github.com/irismod/service/app"
	"github.com/irismod/service/keeper"
	"github.com/irismod/service/types"
)

const (
	stakeDenom = "stake"

	// payloads rendered by the harness (SPEC.md §1)
	schemaOK     = `{"input":{"type":"object"},"output":{"type":"object"}}`
	schemaBad    = `{"input":1}`
	inputOK      = `{"header":{}}`
	inputBad     = `{"header":1,"body":2}`
	outValid     = `{"header":{}}`
	outMalformed = `{"header":1,"body":2}` // two schema violations at once: any dependence on which one a validator reports first shows
	optionsText  = `{}`

	// synthetic events emitted by the recording callbacks so that their
	// position relative to the real events is preserved
	evRespCB  = "verif_respcb"
	evStateCB = "verif_statecb"

	modSvcModule = "modsvc_mod"
	feeCollector = "fee_collector"
)

var modSvcProvider = sdk.AccAddress(repeatByte(0xee, 20))

// modSvcReply is what the registered module service answers (result, output); set by the op `modcall`
var modSvcReply = [2]string{`{"code":200,"message":""}`, outValid}

// result classes of a step
const (
	classOK      = "ok"
	classInvalid = "invalid"
	classErr     = "err"
	classPanic   = "panic"
)

// StepResult is everything printed for one op line.
type StepResult struct {
	Line    string
	Class   string   // ok | invalid | err | panic
	Detail  string   // error name or panic text
	Effects []string // E lines (only when Class == ok)
	Answers []string // Q / G lines of the query and genesis ops (SPEC.md §4), sorted
	Digest  string   // SHA-256 of the raw service store after the step (printed after END as a `# digest` line)
	State   []string // sorted state lines
}

// ResultLine renders the R line of the block.
func (r *StepResult) ResultLine() string {
	switch r.Class {
	case classErr:
		return "R err " + r.Detail
	case classPanic:
		return "R panic " + r.Detail
	}
	return "R " + r.Class
}

// Key is the result class used in the statistics ("ok", "err ErrX", "invalid", "panic").
func (r *StepResult) Key() string {
	if r.Class == classErr {
		return "err " + r.Detail
	}
	return r.Class
}

// WriteTo prints the step block.
func (r *StepResult) WriteBlock(w io.Writer) error {
	var b strings.Builder
	b.WriteString("OP " + r.Line + "\n")
	b.WriteString(r.ResultLine() + "\n")
	for _, e := range r.Effects {
		b.WriteString(e + "\n")
	}
	for _, a := range r.Answers {
		b.WriteString(a + "\n")
	}
	for _, s := range r.State {
		b.WriteString(s + "\n")
	}
	b.WriteString("END\n")
	if r.Digest != "" {
		b.WriteString("# digest " + r.Digest + "\n")
	}
	_, err := io.WriteString(w, b.String())
	return err
}

// Sim owns one in-process chain (one simapp.Setup) and executes op lines on it.
type Sim struct {
	app     *simapp.SimApp
	ctx     sdk.Context
	k       keeper.Keeper
	handler sdk.Handler

	baseline   map[string]bool // addresses holding any balance right after setup
	baseSupply sdk.Int         // total stake supply right after setup

	escrow, deposit, collector sdk.AccAddress

	endEvents map[int64][]abci.Event // end-of-block events by height (served to the client stub, client.go)

	modules []string // names on the genesis line, registered again on the app of `reimport`
	modsvc  string

	txCounter  uint64
	started    bool
	Stopped    bool // set after a panic in endblock, and after reimport: the trace ends
	Reimported bool // the trace was ended by the terminal op reimport
}

func NewSim() *Sim { return &Sim{} }

// moduleAddrs returns the three module account addresses named on the genesis line.
func moduleAddrs() (escrow, deposit, collector sdk.AccAddress) {
	return authtypes.NewModuleAddress(types.RequestAccName),
		authtypes.NewModuleAddress(types.DepositAccName),
		authtypes.NewModuleAddress(feeCollector)
}

// selfTest asserts the payload conventions of SPEC.md against the real validators.
func selfTest() error {
	if err := types.ValidateResponseOutput(outValid); err != nil {
		return fmt.Errorf("out=valid payload rejected: %v", err)
	}
	if types.ValidateResponseOutput(outMalformed) == nil {
		return fmt.Errorf("out=malformed payload accepted")
	}
	if err := types.ValidateRequestInput(inputOK); err != nil {
		return fmt.Errorf("input=ok payload rejected: %v", err)
	}
	if types.ValidateRequestInput(inputBad) == nil {
		return fmt.Errorf("input=bad payload accepted")
	}
	if err := types.ValidateServiceSchemas(schemaOK); err != nil {
		return fmt.Errorf("schema=ok payload rejected: %v", err)
	}
	if types.ValidateServiceSchemas(schemaBad) == nil {
		return fmt.Errorf("schema=bad payload accepted")
	}
	return nil
}

// Step executes one op line. A non-nil error means the harness itself failed
// (syntax error, genesis mismatch, …); outcomes of the code under test are
// reported in the StepResult.
func (s *Sim) Step(line string) (*StepResult, error) {
	op, err := parseOp(line)
	if err != nil {
		return nil, err
	}
	if s.Stopped {
		return nil, fmt.Errorf("trace already stopped (panic in endblock, or reimport)")
	}
	if (op.Name == "genesis") == s.started {
		if s.started {
			return nil, fmt.Errorf("genesis must appear exactly once, as the first line")
		}
		return nil, fmt.Errorf("the first op line must be genesis, got %s", op.Name)
	}

	res := &StepResult{Line: line}
	var events []abci.Event

	switch op.Name {
	case "genesis":
		if err := s.genesis(op); err != nil {
			return nil, err
		}
		res.Class = classOK

	case "fund":
		acct, amt := op.addr("acct"), op.amount("amt")
		if op.err != nil {
			return nil, op.err
		}
		s.runCached(res, nil, 0, func(ctx sdk.Context) error {
			coins := sdk.NewCoins(sdk.NewCoin(stakeDenom, amt))
			if err := s.app.BankKeeper.MintCoins(ctx, "mint", coins); err != nil {
				return err
			}
			return s.app.BankKeeper.SendCoinsFromModuleToAccount(ctx, "mint", acct, coins)
		})

	case "xfer":
		from, to, amt := op.addr("from"), op.addr("to"), op.amount("amt")
		if op.err != nil {
			return nil, op.err
		}
		s.runCached(res, nil, 0, func(ctx sdk.Context) error {
			return s.app.BankKeeper.SendCoins(ctx, from, to, sdk.Coins{sdk.NewCoin(stakeDenom, amt)})
		})

	case "modcreate":
		tx, idx := op.bytes("tx"), op.int64("idx")
		mod, svc, provs, cons := op.str("mod"), op.str("svc"), op.addrs("provs"), op.addr("cons")
		capCoins, timeout := op.coins("cap"), op.int64("timeout")
		super, rep, freq, total := op.bool01("super"), op.bool01("rep"), op.uint64("freq"), op.int64("total")
		input := payload(op.enum("input", "ok", "bad"), inputOK, inputBad)
		state := types.RUNNING
		if op.enum("state", "running", "paused") == "paused" {
			state = types.PAUSED
		}
		thr := op.uint32("thr")
		if op.err == nil && len(tx) != 32 {
			op.fail("tx", "32 bytes of hex")
		}
		if op.err != nil {
			return nil, op.err
		}
		s.runCached(res, tx, idx, func(ctx sdk.Context) error {
			_, err := s.k.CreateRequestContext(ctx, svc, provs, cons, input, capCoins, timeout, super, rep, freq, total, state, thr, mod)
			return err
		})

	case "modbind":
		// another module (or the genesis of the application) binds the provider of its module service through the
		// keeper: the reservation of the service name is a check of the message handler only
		svc, prov, owner := op.str("svc"), op.addr("prov"), op.addr("owner")
		dep, pricing, qos := op.coins("dep"), op.pricing(), op.uint64("qos")
		if op.err != nil {
			return nil, op.err
		}
		s.runCached(res, s.freshTxHash(), 0, func(ctx sdk.Context) error {
			err := s.k.AddServiceBinding(ctx, svc, prov, dep, pricing, qos, optionsText, owner)
			events = ctx.EventManager().ABCIEvents() // the deposit transfer
			return err
		})

	case "modpause", "modstart", "modkill":
		id, cons := tmbytes.HexBytes(op.bytes("ctx")), op.addr("cons")
		if op.err != nil {
			return nil, op.err
		}
		s.runCached(res, s.freshTxHash(), 0, func(ctx sdk.Context) error {
			switch op.Name {
			case "modpause":
				return s.k.PauseRequestContext(ctx, id, cons)
			case "modstart":
				return s.k.StartRequestContext(ctx, id, cons)
			default:
				return s.k.KillRequestContext(ctx, id, cons)
			}
		})

	case "modupdate":
		id, cons := tmbytes.HexBytes(op.bytes("ctx")), op.addr("cons")
		provs, thr, capCoins := op.addrs("provs"), op.uint32("thr"), op.coins("cap")
		timeout, freq, total := op.int64("timeout"), op.uint64("freq"), op.int64("total")
		if op.err != nil {
			return nil, op.err
		}
		s.runCached(res, s.freshTxHash(), 0, func(ctx sdk.Context) error {
			return s.k.UpdateRequestContext(ctx, id, provs, thr, capCoins, timeout, freq, total, cons)
		})

	case "endblock":
		dt := op.int64("dt")
		if op.err != nil {
			return nil, op.err
		}
		events = s.endBlock(res, dt)

	case "query":
		if err := s.query(res, op); err != nil {
			return nil, err
		}

	case "prep":
		events = s.prepZeroHeight(res)

	case "export":
		s.exportGenesis(res)

	case "validate":
		s.validateGenesis(res)

	case "jsonrt":
		s.jsonRoundTrip(res)

	case "restart":
		events = s.restart(res)

	case "reimport":
		// terminal: the block shows the NEW app, and the trace ends
		if err := s.reimport(res); err != nil {
			return nil, err
		}
		s.Stopped, s.Reimported = true, true
		return res, nil

	default: // the 14 messages
		msg, tx, idx, err := buildMsg(op)
		if err != nil {
			return nil, err
		}
		if tx == nil {
			tx = s.freshTxHash()
		}
		events = s.deliver(res, msg, tx, idx)
	}

	if res.Class == classOK {
		res.Effects = translateEvents(events, s.issueOrderOK)
	}
	res.State = s.dumpState()
	res.Digest = s.storeDigest()
	return res, nil
}

func payload(sel, first, second string) string {
	if sel == "bad" || sel == "malformed" {
		return second
	}
	return first
}

// buildMsg renders one of the 14 messages from its op line. tx is nil unless
// the op carries its own tx hash (call).
func buildMsg(op *Op) (msg sdk.Msg, tx []byte, idx int64, err error) {
	switch op.Name {
	case "define":
		schemas := payload(op.enum("schema", "ok", "bad"), schemaOK, schemaBad)
		msg = types.NewMsgDefineService(op.str("name"), "", nil, op.addr("author"), "", schemas)
	case "bind":
		msg = types.NewMsgBindService(op.str("svc"), op.addr("prov"), op.coins("dep"), op.pricing(), op.uint64("qos"), optionsText, op.addr("owner"))
	case "update":
		msg = types.NewMsgUpdateServiceBinding(op.str("svc"), op.addr("prov"), op.coins("dep"), op.pricing(), op.uint64("qos"), optionsText, op.addr("owner"))
	case "setwd":
		msg = types.NewMsgSetWithdrawAddress(op.addr("owner"), op.addr("addr"))
	case "disable":
		msg = types.NewMsgDisableServiceBinding(op.str("svc"), op.addr("prov"), op.addr("owner"))
	case "enable":
		msg = types.NewMsgEnableServiceBinding(op.str("svc"), op.addr("prov"), op.coins("dep"), op.addr("owner"))
	case "refund":
		msg = types.NewMsgRefundServiceDeposit(op.str("svc"), op.addr("prov"), op.addr("owner"))
	case "call":
		tx, idx = op.bytes("tx"), op.int64("idx")
		if op.err == nil && len(tx) != 32 {
			op.fail("tx", "32 bytes of hex")
		}
		input := payload(op.enum("input", "ok", "bad"), inputOK, inputBad)
		msg = types.NewMsgCallService(op.str("svc"), op.addrs("provs"), op.addr("cons"), input, op.coins("cap"),
			op.int64("timeout"), op.bool01("super"), op.bool01("rep"), op.uint64("freq"), op.int64("total"))
	case "modcall":
		// MsgCallService for the service name reserved by the module service: the handler takes the provider from
		// the registration and invokes the service in the same transaction (keeper/module_service.go)
		tx, idx = op.bytes("tx"), op.int64("idx")
		if op.err == nil && len(tx) != 32 {
			op.fail("tx", "32 bytes of hex")
		}
		input := payload(op.enum("input", "ok", "bad"), inputOK, inputBad)
		mscode := op.enum("mscode", "200", "400", "500")
		var msout string
		switch op.enum("msout", "valid", "malformed", "absent") {
		case "valid":
			msout = outValid
		case "malformed":
			msout = outMalformed
		}
		modSvcReply = [2]string{`{"code":` + mscode + `,"message":""}`, msout}
		msg = types.NewMsgCallService(op.str("svc"), op.addrs("provs"), op.addr("cons"), input, op.coins("cap"),
			op.int64("timeout"), op.bool01("super"), op.bool01("rep"), op.uint64("freq"), op.int64("total"))
	case "respond":
		code := op.enum("code", "200", "400", "500")
		var output string
		switch op.enum("out", "valid", "malformed", "absent") {
		case "valid":
			output = outValid
		case "malformed":
			output = outMalformed
		}
		result := `{"code":` + code + `,"message":""}`
		msg = types.NewMsgRespondService(op.bytes("req"), op.addr("prov"), result, output)
	case "pause":
		msg = types.NewMsgPauseRequestContext(op.bytes("ctx"), op.addr("cons"))
	case "start":
		msg = types.NewMsgStartRequestContext(op.bytes("ctx"), op.addr("cons"))
	case "kill":
		msg = types.NewMsgKillRequestContext(op.bytes("ctx"), op.addr("cons"))
	case "updatectx":
		msg = types.NewMsgUpdateRequestContext(op.bytes("ctx"), op.addrs("provs"), op.coins("cap"),
			op.int64("timeout"), op.uint64("freq"), op.int64("total"), op.addr("cons"))
	case "withdraw":
		msg = types.NewMsgWithdrawEarnedFees(op.addr("owner"), op.addr("prov"))
	default:
		return nil, nil, 0, fmt.Errorf("unhandled op %s", op.Name)
	}
	return msg, tx, idx, op.err
}

// genesis sets up the chain as described on the genesis line.
func (s *Sim) genesis(op *Op) error {
	height, timeNs := op.int64("height"), op.int64("time")
	params := types.NewParams(
		op.int64("maxTimeout"), op.int64("mult"), op.coins("minDep"),
		op.dec18("tax"), op.dec18("slash"),
		time.Duration(op.int64("complaint")), time.Duration(op.int64("arbitration")),
		4000, stakeDenom,
	)
	modules, modsvc := op.names("modules"), op.str("modsvc")
	wantEscrow, wantDeposit, wantCollector := op.addr("escrow"), op.addr("deposit"), op.addr("collector")
	if op.err != nil {
		return op.err
	}

	s.escrow, s.deposit, s.collector = moduleAddrs()
	for _, c := range []struct {
		name      string
		got, want sdk.AccAddress
	}{{"escrow", wantEscrow, s.escrow}, {"deposit", wantDeposit, s.deposit}, {"collector", wantCollector, s.collector}} {
		if !c.got.Equals(c.want) {
			return fmt.Errorf("genesis: %s=%x but authtypes.NewModuleAddress gives %x", c.name, []byte(c.got), []byte(c.want))
		}
	}
	// a legal parameter set is what the chain itself admits: the per-parameter validators that the params subspace
	// applies on every update (not types.Params.Validate, which only the genesis validation calls — whether that one
	// accepts every such set is part of C19 and is observed by the `validate` op)
	for _, pair := range params.ParamSetPairs() {
		v := reflect.Indirect(reflect.ValueOf(pair.Value)).Interface()
		if err := pair.ValidatorFn(v); err != nil {
			return fmt.Errorf("genesis: invalid params: %s: %v", pair.Key, err)
		}
	}

	s.app = simapp.Setup(false)
	s.ctx = s.app.BaseApp.NewContext(false, tmproto.Header{Height: height, Time: time.Unix(0, timeNs).UTC()})
	s.k = s.app.ServiceKeeper
	s.k.SetParams(s.ctx, params)
	s.handler = service.NewHandler(s.k)

	s.modules, s.modsvc = modules, modsvc
	if err := registerModules(s.k, modules, modsvc); err != nil {
		return err
	}

	// baseline: every existing balance and the total stake supply right after setup
	s.baseline = make(map[string]bool)
	s.iterateBalances(func(addr sdk.AccAddress, _ sdk.Coin) {
		s.baseline[string(addr)] = true
	})
	s.baseSupply = s.app.BankKeeper.GetSupply(s.ctx).GetTotal().AmountOf(stakeDenom)
	s.started = true
	return nil
}

// registerModules registers on a keeper what the genesis line asks for: the
// recording callbacks for every module name, and the module service. Used for
// the app of the genesis line and for the fresh app of `reimport`.
func registerModules(k keeper.Keeper, modules []string, modsvc string) error {
	for _, m := range modules {
		if err := k.RegisterResponseCallback(m, recordRespCallback); err != nil {
			return err
		}
		if err := k.RegisterStateCallback(m, recordStateCallback); err != nil {
			return err
		}
	}
	if modsvc != "" {
		err := k.RegisterModuleService(modSvcModule, &types.ModuleService{
			ServiceName: modsvc,
			Provider:    modSvcProvider,
			// the answer of the module service is chosen by the op line (`modcall … mscode= msout=`)
			ReuquestService: func(ctx sdk.Context, input string) (string, string) {
				return modSvcReply[0], modSvcReply[1]
			},
		})
		if err != nil {
			return err
		}
	}
	return nil
}

// recordRespCallback is the recording response callback: it leaves a synthetic
// event on the context it is given, so that its position among the real
// events of the step is kept.
func recordRespCallback(ctx sdk.Context, requestContextID tmbytes.HexBytes, responses []string, err error) {
	outs := make([]string, len(responses))
	for i, o := range responses {
		outs[i] = classifyOutput(o)
	}
	flag := "0"
	if err != nil {
		flag = "1"
	}
	ctx.EventManager().EmitEvent(sdk.NewEvent(evRespCB,
		sdk.NewAttribute("ctx", hex.EncodeToString(requestContextID)),
		sdk.NewAttribute("outs", listOrDash(outs)),
		sdk.NewAttribute("err", flag),
	))
}

func recordStateCallback(ctx sdk.Context, requestContextID tmbytes.HexBytes, cause string) {
	ctx.EventManager().EmitEvent(sdk.NewEvent(evStateCB,
		sdk.NewAttribute("ctx", hex.EncodeToString(requestContextID)),
	))
}

// classifyOutput maps a stored response output to valid|malformed|absent.
func classifyOutput(output string) string {
	switch {
	case output == "":
		return "absent"
	case types.ValidateResponseOutput(output) == nil:
		return "valid"
	}
	return "malformed"
}

func listOrDash(items []string) string {
	if len(items) == 0 {
		return "-"
	}
	return strings.Join(items, ",")
}

// freshTxHash returns 32 bytes never used before in this trace.
func (s *Sim) freshTxHash() []byte {
	s.txCounter++
	h := sha256.Sum256([]byte(fmt.Sprintf("verif/harness tx %d", s.txCounter)))
	return h[:]
}

func panicText(r interface{}) string {
	t := strings.NewReplacer("\r\n", " ", "\n", " ", "\r", " ").Replace(fmt.Sprint(r))
	if t == "" {
		t = "-"
	}
	return t
}

// setError fills the result from an error returned by the code under test.
func setError(res *StepResult, err error) {
	res.Class, res.Detail = classErr, errName(err)
}

// deliver runs one message with baseapp's discipline: ValidateBasic, then the
// module handler on a cache context that is written only on success.
func (s *Sim) deliver(res *StepResult, msg sdk.Msg, tx []byte, idx int64) (events []abci.Event) {
	defer func() {
		if r := recover(); r != nil {
			res.Class, res.Detail = classPanic, panicText(r)
			events = nil
		}
	}()
	if err := msg.ValidateBasic(); err != nil {
		res.Class = classInvalid
		return nil
	}
	cctx, write := s.ctx.CacheContext()
	cctx = cctx.WithValue(types.TxHash, tx).WithValue(types.MsgIndex, idx)
	result, err := s.handler(cctx, msg)
	if err != nil {
		setError(res, err)
		return nil
	}
	write()
	res.Class = classOK
	return result.Events
}

// runCached runs a direct keeper/bank call in a cache context (carrying
// TxHash/MsgIndex when tx != nil) that is committed on success.
func (s *Sim) runCached(res *StepResult, tx []byte, idx int64, f func(ctx sdk.Context) error) {
	defer func() {
		if r := recover(); r != nil {
			res.Class, res.Detail = classPanic, panicText(r)
		}
	}()
	cctx, write := s.ctx.CacheContext()
	cctx = cctx.WithEventManager(sdk.NewEventManager())
	if tx != nil {
		cctx = cctx.WithValue(types.TxHash, tx).WithValue(types.MsgIndex, idx)
	}
	if err := f(cctx); err != nil {
		setError(res, err)
		return
	}
	write()
	res.Class = classOK
}

// endBlock runs the module's EndBlocker directly on the main context and then
// advances height and time. A panic is recovered only to be printed.
func (s *Sim) endBlock(res *StepResult, dt int64) (events []abci.Event) {
	s.ctx = s.ctx.WithEventManager(sdk.NewEventManager())
	func() {
		defer func() {
			if r := recover(); r != nil {
				res.Class, res.Detail = classPanic, panicText(r)
			}
		}()
		service.EndBlocker(s.ctx, s.k)
		res.Class = classOK
	}()
	if res.Class == classPanic {
		s.Stopped = true
		return nil
	}
	events = s.ctx.EventManager().ABCIEvents()
	if s.endEvents == nil {
		s.endEvents = map[int64][]abci.Event{}
	}
	s.endEvents[s.ctx.BlockHeight()] = events
	s.ctx = s.ctx.WithBlockHeight(s.ctx.BlockHeight() + 1).
		WithBlockTime(s.ctx.BlockTime().Add(time.Duration(dt))).
		WithEventManager(sdk.NewEventManager())
	return events
}

// ---------------------------------------------------------------------------
// events -> E lines

func attr(ev abci.Event, key string) (string, bool) {
	for _, a := range ev.Attributes {
		if string(a.Key) == key {
			return string(a.Value), true
		}
	}
	return "", false
}

// bech32ToHex decodes a bech32 address of any length back to hex.
func bech32ToHex(s string) string {
	_, bz, err := bech32.DecodeAndConvert(s)
	if err != nil || len(bz) == 0 {
		return "-"
	}
	return hex.EncodeToString(bz)
}

func lowerHexOrDash(s string) string {
	if s == "" {
		return "-"
	}
	return strings.ToLower(s)
}

// stakeOfCoinsText returns the stake amount inside a coins string ("5stake"), 0 if none.
func stakeOfCoinsText(s string) sdk.Int {
	if strings.TrimSpace(s) == "" {
		return sdk.ZeroInt()
	}
	coins, err := sdk.ParseCoins(s)
	if err != nil {
		return sdk.ZeroInt()
	}
	return coins.AmountOf(stakeDenom)
}

// translateEvents turns the ABCI events of a step into E lines, in order.
// issueOrderOK reports whether the k-th entry of a new_batch_request event is the stored request whose id carries
// index k (same provider, fee and heights): off-chain clients find a request as requests[index] of that event.
func (s *Sim) issueOrderOK(ctxHex string, arr []json.RawMessage) bool {
	ctxID, err := hex.DecodeString(ctxHex)
	if err != nil {
		return false
	}
	// decoded leniently: the provider stays bech32 text (its JSON form cannot be parsed back for addresses that are
	// not 20 bytes long, known finding D11, which is not what is checked here)
	type eventRequest struct {
		Batch      uint64    `json:"request_context_batch_counter"`
		Provider   string    `json:"provider"`
		ServiceFee sdk.Coins `json:"service_fee"`
		Height     int64     `json:"request_height"`
		Expiration int64     `json:"expiration_height"`
	}
	for k, raw := range arr {
		var cr eventRequest
		if json.Unmarshal(raw, &cr) != nil {
			return false
		}
		id := types.GenerateRequestID(ctxID, cr.Batch, cr.Height, int16(k))
		stored, found := s.k.GetCompactRequest(s.ctx, id)
		if !found || stored.Provider.String() != cr.Provider || stored.ServiceFee.String() != cr.ServiceFee.String() ||
			stored.ExpirationHeight != cr.Expiration {
			return false
		}
	}
	return true
}

func translateEvents(events []abci.Event, issueOrderOK func(string, []json.RawMessage) bool) []string {
	var out []string
	for i, ev := range events {
		switch ev.Type {
		case "transfer":
			amt, _ := attr(ev, "amount")
			n := stakeOfCoinsText(amt)
			if n.IsZero() {
				continue
			}
			to, _ := attr(ev, "recipient")
			from, ok := attr(ev, "sender")
			if !ok {
				// some bank paths put the sender on the `message` event that follows
				for _, next := range events[i+1:] {
					if next.Type == "transfer" {
						break
					}
					if v, ok := attr(next, "sender"); ok && next.Type == sdk.EventTypeMessage {
						from = v
						break
					}
				}
			}
			out = append(out, fmt.Sprintf("E transfer %s %s %s", bech32ToHex(from), bech32ToHex(to), n))

		case types.EventTypeServiceSlash:
			req, _ := attr(ev, types.AttributeKeyRequestID)
			prov, _ := attr(ev, types.AttributeKeyProvider)
			coins, _ := attr(ev, types.AttributeKeySlashedCoins)
			out = append(out, fmt.Sprintf("E slash %s %s %s", lowerHexOrDash(req), bech32ToHex(prov), stakeOfCoinsText(coins)))

		case types.EventTypeNewBatch, types.EventTypeCompleteBatch, types.EventTypeCompleteContext, types.EventTypePauseContext:
			id, _ := attr(ev, types.AttributeKeyRequestContextID)
			out = append(out, fmt.Sprintf("E ev %s %s", ev.Type, lowerHexOrDash(id)))

		case types.EventTypeNewBatchRequest:
			id, _ := attr(ev, types.AttributeKeyRequestContextID)
			reqs, _ := attr(ev, types.AttributeKeyRequests)
			var arr []json.RawMessage
			_ = json.Unmarshal([]byte(reqs), &arr)
			line := fmt.Sprintf("E ev %s %s %d", ev.Type, lowerHexOrDash(id), len(arr))
			if issueOrderOK != nil && !issueOrderOK(id, arr) {
				line += " misordered" // entry k of the event is not the stored request with index k
			}
			out = append(out, line)

		case evRespCB:
			id, _ := attr(ev, "ctx")
			outs, _ := attr(ev, "outs")
			flag, _ := attr(ev, "err")
			out = append(out, fmt.Sprintf("E respcb %s %s %s", id, outs, flag))

		case evStateCB:
			id, _ := attr(ev, "ctx")
			out = append(out, "E statecb "+id)
		}
	}
	return out
}

func repeatByte(b byte, n int) []byte {
	out := make([]byte, n)
	for i := range out {
		out[i] = b
	}
	return out
}

func itoa(n int64) string { return strconv.FormatInt(n, 10) }
