package main

// State-aware random generator of op histories (`trace gen`).
//
// Every history is produced by one math/rand PRNG seeded from (-seed, history
// index); each op is chosen by looking at the CURRENT REAL STATE of the chain
// (through the keeper), executed at once on the same in-process chain, and the
// resulting step block is appended to DIR/h<i>.trace. Replaying the OP lines
// of a trace with `trace run` reproduces the trace byte for byte.
//
// Layout of this file:
//   1. universes and value tables        (what values ops are built from)
//   2. profiles                          (weights; tune here)
//   3. view                              (snapshot of the real state)
//   4. op builders, one per op kind      (valid + adversarial variants)
//   5. driver, statistics

import (
	"bufio"
	"encoding/binary"
	"encoding/hex"
	"encoding/json"
	"fmt"
	"math/big"
	"math/rand"
	"os"
	"path/filepath"
	"sort"
	"strings"
	"time"

	tmbytes "github.com/tendermint/tendermint/libs/bytes"

	sdk "github.com/cosmos/cosmos-sdk/types"

	"github.com/irismod/service/types"
)

// ---------------------------------------------------------------------------
// 1. universes and value tables

var (
	// one name is a prefix of two others
	svcNames = []string{"a", "a-b", "a_b", "svc"}

	ownerAddrs    = [][]byte{repeatByte(0x01, 20), repeatByte(0x0a, 20), repeatByte(0x0b, 20), repeatByte(0x0c, 20)}
	consumerAddrs = [][]byte{repeatByte(0x03, 20), repeatByte(0x04, 20), repeatByte(0x09, 20)}

	// providers: some are not 20 bytes long, and 19×22 and 5×22 are byte-prefixes
	// of 20×22, which is itself a prefix of 20×22‖01
	providerAddrs = [][]byte{
		repeatByte(0x22, 19),
		repeatByte(0x22, 20),
		append(repeatByte(0x22, 20), 0x01),
		repeatByte(0x33, 20),
		zeroByteAddr, // 20 bytes with 0x00 inside and at the end (key separators are 0x00)
		repeatByte(0x22, 5),
	}

	zeroByteAddr = append(append([]byte{0x44, 0x00}, repeatByte(0x44, 17)...), 0x00)

	strangerAddr = repeatByte(0x7f, 20) // never funded, never registered

	reservedSvc = "reserved" // service name of the module service when modsvc is on
	moduleName  = "oracle"   // module registered by `modules=oracle`
)

const (
	ownerFunds = 10000000
	nsPerSec   = int64(time.Second)
	hugePrice  = "57896044618658097711785492504343953926634992332820282019728792003956564819967stake" // 2^255-1
)

// wInt / wStr are weighted value tables.
type wInt struct {
	v int64
	w int
}
type wStr struct {
	v string
	w int
}

func (g *gen) pickInt(t []wInt) int64 {
	total := 0
	for _, e := range t {
		total += e.w
	}
	n := g.r.Intn(total)
	for _, e := range t {
		if n -= e.w; n < 0 {
			return e.v
		}
	}
	return t[len(t)-1].v
}

func (g *gen) pickStr(t []wStr) string {
	total := 0
	for _, e := range t {
		total += e.w
	}
	n := g.r.Intn(total)
	for _, e := range t {
		if n -= e.w; n < 0 {
			return e.v
		}
	}
	return t[len(t)-1].v
}

var (
	pricesNormal = []wStr{{"0stake", 6}, {"0.5stake", 8}, {"1stake", 16}, {"2stake", 18}, {"5stake", 22}, {"30stake", 14},
		{"1000000000000stake", 1}, {hugePrice, 1}, {"7atom", 2}}
	pricesMoney = []wStr{{"0stake", 10}, {"0.5stake", 16}, {"0.999999999999999999stake", 4}, {"1stake", 18}, {"2stake", 16},
		{"5stake", 16}, {"30stake", 8}, {"1.5stake", 6}, {"7atom", 1}}

	discounts = []string{"100000000000000000", "500000000000000000", "900000000000000000", "1", "999999999999999999"}

	consumerBalancesNormal = []int64{0, 3, 40, 10000}
	consumerBalancesPoor   = []int64{0, 3, 7, 40}

	repeatedTotals = []wInt{{1, 3}, {2, 3}, {3, 3}, {-1, 2}}

	respondOutcomes = []wStr{{"200 valid", 60}, {"200 malformed", 12}, {"400 absent", 14}, {"500 absent", 14}}

	// genesis parameter tables (drawn once per history)
	genMaxTimeout = []int64{1, 4, 100}
	genMult       = []int64{1, 200}
	genMinDep     = []string{"-", "1", "1000", "6000"}
	genTax        = []string{"0", "1", "1000000000000000", "100000000000000000", "500000000000000000", "999999999999999999"}
	genSlash      = []string{"0", "1", "1000000000000000", "100000000000000000", "500000000000000000", "1000000000000000000"}
	genPeriods    = [][2]int64{{1, 1}, {10 * nsPerSec, 10 * nsPerSec}, {15 * 24 * 3600 * nsPerSec, 5 * 24 * 3600 * nsPerSec}, {1 << 62, 1 << 62}} // complaint, arbitration (the last pair: each legal, their sum beyond int64 nanoseconds)
)

// ---------------------------------------------------------------------------
// 2. profiles

type profile struct {
	name       string
	weights    map[string]int // op kind -> weight (mod* kinds are dropped when modules are off)
	advPct     int            // share of adversarial choices, in percent
	signerPct  int            // extra share of ops whose signer is replaced by a random account
	repPct     int            // share of repeated contexts among calls
	promoPct   int            // share of bindings with promotions
	modulesPct int            // share of histories with modules=oracle
	modsvcPct  int            // share of histories with modsvc=reserved
	freqTight  bool           // prefer freq == timeout
	poor       bool           // poor consumers
	prices     []wStr
	taxEdge    bool   // prefer edge values of the tax
	dtTable    []wInt // endblock dt: 1ns, 1s, 5s; 0 stands for "arbitration+complaint"

	// SPEC.md §4 (zero in the profiles that predate it, which draw exactly as before)
	queryPct    int  // share of `query` ops among the ops, in percent
	genesisTail bool // end the history with [prep] export validate jsonrt reimport
	modsvcBind  bool // prelude: define the reserved service, fund the module's provider and bind it through the keeper
	restartPct  int  // share of histories with one or two zero-height restarts (op `restart`) somewhere inside
	std20Pct    int  // share of histories in which every address is 20 bytes long (what standard clients can produce)
}

var dtNormal = []wInt{{1, 2}, {nsPerSec, 3}, {5 * nsPerSec, 4}, {0, 2}}

var profiles = map[string]*profile{
	"mixed": {
		name: "mixed",
		weights: map[string]int{
			"define": 4, "bind": 9, "update": 4, "setwd": 2, "disable": 3, "enable": 3, "refund": 4,
			"call": 10, "respond": 14, "pause": 3, "start": 3, "kill": 2, "updatectx": 3, "withdraw": 5,
			"modcreate": 5, "modpause": 2, "modstart": 2, "modkill": 1, "modupdate": 2,
			"fund": 1, "xfer": 1, "endblock": 27,
		},
		advPct: 20, repPct: 55, promoPct: 30, modulesPct: 40, modsvcPct: 15, prices: pricesNormal, dtTable: dtNormal,
	},
	"money": {
		name: "money",
		weights: map[string]int{
			"define": 3, "bind": 8, "update": 3, "setwd": 3, "disable": 1, "enable": 1, "refund": 1,
			"call": 14, "respond": 22, "pause": 1, "start": 3, "kill": 1, "updatectx": 2, "withdraw": 10,
			"modcreate": 2, "modstart": 1, "modupdate": 1,
			"fund": 3, "xfer": 3, "endblock": 24,
		},
		advPct: 15, repPct: 60, promoPct: 40, modulesPct: 25, modsvcPct: 5, poor: true, prices: pricesMoney, taxEdge: true, dtTable: dtNormal,
	},
	"bindings": {
		name: "bindings",
		weights: map[string]int{
			"define": 5, "bind": 14, "update": 10, "setwd": 1, "disable": 9, "enable": 8, "refund": 11,
			"call": 6, "respond": 8, "kill": 1, "withdraw": 2,
			"fund": 1, "endblock": 24,
		},
		advPct: 20, repPct: 40, promoPct: 35, modulesPct: 10, modsvcPct: 25, prices: pricesNormal,
		dtTable: []wInt{{1, 3}, {nsPerSec, 2}, {5 * nsPerSec, 2}, {0, 5}},
	},
	"lifecycle": {
		name: "lifecycle",
		weights: map[string]int{
			"define": 3, "bind": 7, "update": 1, "disable": 2, "enable": 2,
			"call": 12, "respond": 12, "pause": 8, "start": 8, "kill": 5, "updatectx": 7, "withdraw": 2,
			"modcreate": 3, "modpause": 2, "modstart": 2, "modkill": 1, "modupdate": 2,
			"fund": 1, "endblock": 34,
		},
		advPct: 15, repPct: 90, promoPct: 10, modulesPct: 40, modsvcPct: 5, freqTight: true, prices: pricesNormal, dtTable: dtNormal,
	},
	"authority": {
		name: "authority",
		weights: map[string]int{
			"define": 5, "bind": 8, "update": 6, "setwd": 5, "disable": 5, "enable": 5, "refund": 5,
			"call": 8, "respond": 10, "pause": 5, "start": 5, "kill": 4, "updatectx": 5, "withdraw": 7,
			"modcreate": 3, "modpause": 2, "modstart": 2, "modkill": 2, "modupdate": 2,
			"xfer": 1, "endblock": 22,
		},
		advPct: 15, signerPct: 40, repPct: 60, promoPct: 15, modulesPct: 50, modsvcPct: 15, prices: pricesNormal, dtTable: dtNormal,
	},
	"modules": {
		name: "modules",
		weights: map[string]int{
			"define": 3, "bind": 8, "update": 1, "disable": 2, "enable": 2,
			"call": 4, "respond": 16, "pause": 1, "start": 1, "kill": 1, "updatectx": 1, "withdraw": 2,
			"modcreate": 12, "modpause": 5, "modstart": 6, "modkill": 3, "modupdate": 7,
			"fund": 1, "endblock": 28,
		},
		advPct: 20, repPct: 70, promoPct: 10, modulesPct: 100, modsvcPct: 20, prices: pricesNormal, dtTable: dtNormal,
	},
}

// The two profiles of SPEC.md §4 are `mixed` histories with queries mixed in, resp.
// with more withdraw addresses and the genesis tail.
func init() {
	mixed := profiles["mixed"]

	queries := *mixed
	queries.name, queries.queryPct, queries.std20Pct = "queries", 20, 40 // with the twins that follow, about 30% of the ops
	profiles["queries"] = &queries

	// `modsvc`: the `money` profile on a chain whose application registers a module service, binds its provider
	// through the keeper (what the application's genesis does) and whose users call it (op `modcall`)
	money := profiles["money"]
	modsvc := *money
	modsvc.name, modsvc.modsvcPct, modsvc.modsvcBind = "modsvc", 100, true
	modsvc.weights = map[string]int{}
	for k, w := range money.weights {
		modsvc.weights[k] = w
	}
	modsvc.weights["modcall"] = 16
	profiles["modsvc"] = &modsvc

	genesis := *mixed
	genesis.name, genesis.genesisTail, genesis.std20Pct = "genesis", true, 60
	genesis.restartPct = 60
	genesis.weights = map[string]int{}
	for k, w := range mixed.weights {
		genesis.weights[k] = w
	}
	genesis.weights["setwd"] = 6
	profiles["genesis"] = &genesis
}

func profileNames() []string {
	names := make([]string, 0, len(profiles))
	for n := range profiles {
		names = append(names, n)
	}
	sort.Strings(names)
	return names
}

// ---------------------------------------------------------------------------
// 3. view: a snapshot of the real state, taken before every generated op

type ctxEntry struct {
	id     []byte
	rc     types.RequestContext
	queued bool // present in the new-batch or expiration queue
}

type reqEntry struct {
	id        []byte
	r         types.CompactRequest
	active    bool
	responded bool
}

type view struct {
	height    int64
	now       time.Time
	defs      []string
	bindings  []types.ServiceBinding
	ctxs      []ctxEntry
	reqs      []reqEntry
	ownerFees map[string]sdk.Int // owner -> earned fees
}

func (g *gen) refreshView() {
	s := g.sim
	v := &view{height: s.ctx.BlockHeight(), now: s.ctx.BlockTime(), ownerFees: map[string]sdk.Int{}}
	s.k.IterateServiceDefinitions(s.ctx, func(d types.ServiceDefinition) bool {
		v.defs = append(v.defs, d.Name)
		return false
	})
	s.k.IterateServiceBindings(s.ctx, func(b types.ServiceBinding) bool {
		v.bindings = append(v.bindings, b)
		return false
	})
	s.k.IterateRequestContexts(s.ctx, func(id tmbytes.HexBytes, rc types.RequestContext) bool {
		cid := append([]byte{}, id...)
		v.ctxs = append(v.ctxs, ctxEntry{id: cid, rc: rc,
			queued: s.k.HasNewRequestBatch(s.ctx, cid) || s.k.HasRequestBatchExpiration(s.ctx, cid)})
		g.rememberCtx(cid)
		return false
	})
	s.k.IterateRequests(s.ctx, func(id tmbytes.HexBytes, r types.CompactRequest) bool {
		rid := append([]byte{}, id...)
		_, responded := s.k.GetResponse(s.ctx, rid)
		v.reqs = append(v.reqs, reqEntry{id: rid, r: r, active: s.k.IsRequestActive(s.ctx, rid), responded: responded})
		g.rememberReq(rid, r.Provider)
		return false
	})
	for _, o := range ownerAddrs {
		fees, _ := s.k.GetOwnerEarnedFees(s.ctx, o)
		if amt := fees.AmountOf(stakeDenom); amt.IsPositive() {
			v.ownerFees[string(o)] = amt
		}
	}
	g.v = v
}

func (v *view) defined(name string) bool {
	for _, d := range v.defs {
		if d == name {
			return true
		}
	}
	return false
}

func (v *view) binding(svc string, prov []byte) (types.ServiceBinding, bool) {
	for _, b := range v.bindings {
		if b.ServiceName == svc && string(b.Provider) == string(prov) {
			return b, true
		}
	}
	return types.ServiceBinding{}, false
}

func (v *view) bindingsOf(svc string) (out []types.ServiceBinding) {
	for _, b := range v.bindings {
		if b.ServiceName == svc {
			out = append(out, b)
		}
	}
	return out
}

func (v *view) filterBindings(keep func(types.ServiceBinding) bool) (out []types.ServiceBinding) {
	for _, b := range v.bindings {
		if keep(b) {
			out = append(out, b)
		}
	}
	return out
}

func (v *view) filterCtxs(keep func(ctxEntry) bool) (out []ctxEntry) {
	for _, c := range v.ctxs {
		if keep(c) {
			out = append(out, c)
		}
	}
	return out
}

// ---------------------------------------------------------------------------
// generator state

type historyParams struct {
	maxTimeout, mult       int64
	minDep                 string
	tax, slash             string
	complaint, arbitration int64
	modules, modsvc        bool
}

type seenReq struct{ id, prov []byte }

type gen struct {
	r    *rand.Rand
	r2   *rand.Rand // side decisions added later, so that the main stream of choices stays what it was
	sim  *Sim
	prof *profile
	hp   historyParams
	v    *view

	hist     int
	txCount  uint64
	seenReqs []seenReq
	seenCtxs [][]byte
	seenSet  map[string]bool

	pending []string // op lines to emit before drawing again (the twin of a query)
	std20   bool     // this history only uses 20-byte addresses
}

// std20Line replaces, in an op line, every address that is neither empty nor 20
// bytes long by a 20-byte one derived from it (cut, or padded with 0x66).
func std20Line(line string) string {
	toks := strings.Split(line, " ")
	for i, tok := range toks {
		kv := strings.SplitN(tok, "=", 2)
		if len(kv) != 2 {
			continue
		}
		switch kv[0] {
		case "prov", "provs", "owner", "addr", "acct", "cons", "from", "to", "author":
		default:
			continue
		}
		parts := strings.Split(kv[1], ",")
		for j, a := range parts {
			if a == "-" || len(a) == 40 || len(a)%2 != 0 {
				continue
			}
			if len(a) > 40 {
				a = a[:38] + "66"
			}
			for len(a) < 40 {
				a += "66"
			}
			parts[j] = a
		}
		toks[i] = kv[0] + "=" + strings.Join(parts, ",")
	}
	return strings.Join(toks, " ")
}

func (g *gen) rememberReq(id, prov []byte) {
	if !g.seenSet["r"+string(id)] {
		g.seenSet["r"+string(id)] = true
		g.seenReqs = append(g.seenReqs, seenReq{id, append([]byte{}, prov...)})
	}
}

func (g *gen) rememberCtx(id []byte) {
	if !g.seenSet["c"+string(id)] {
		g.seenSet["c"+string(id)] = true
		g.seenCtxs = append(g.seenCtxs, id)
	}
}

func (g *gen) pct(p int) bool { return g.r.Intn(100) < p }

func (g *gen) oneOf(list [][]byte) []byte { return list[g.r.Intn(len(list))] }

func (g *gen) randBytes(n int) []byte {
	b := make([]byte, n)
	g.r.Read(b)
	return b
}

// allAccounts is the pool used for "any account as signer".
func allAccounts() [][]byte {
	out := append([][]byte{}, ownerAddrs...)
	out = append(out, consumerAddrs...)
	out = append(out, providerAddrs[1], providerAddrs[3], providerAddrs[4], strangerAddr)
	return out
}

// otherThan picks an account of the pool different from x.
func (g *gen) otherThan(pool [][]byte, x []byte) []byte {
	for i := 0; i < 16; i++ {
		if c := g.oneOf(pool); string(c) != string(x) {
			return c
		}
	}
	return strangerAddr
}

// draft is an op line under construction: fields by name, rendered in wire order.
type draft struct {
	name string
	f    map[string]string
}

func newDraft(name string, kv ...string) *draft {
	d := &draft{name: name, f: map[string]string{}}
	for i := 0; i+1 < len(kv); i += 2 {
		d.f[kv[i]] = kv[i+1]
	}
	return d
}

func (d *draft) set(k, v string) *draft { d.f[k] = v; return d }

func (d *draft) line() string {
	parts := []string{d.name}
	fields, ok := fieldsOf(d.name, d.f["kind"])
	if !ok {
		panic(fmt.Sprintf("generator bug: op %s kind %q has no grammar", d.name, d.f["kind"]))
	}
	for _, k := range fields {
		v, ok := d.f[k]
		if !ok || v == "" {
			panic(fmt.Sprintf("generator bug: op %s lacks field %s", d.name, k))
		}
		parts = append(parts, k+"="+v)
	}
	return strings.Join(parts, " ")
}

func hx(b []byte) string { return hexOrDash(b) }

func hxList(list [][]byte) string {
	if len(list) == 0 {
		return "-"
	}
	out := make([]string, len(list))
	for i, b := range list {
		out[i] = hx(b)
	}
	return strings.Join(out, ",")
}

// signerField names the field holding the signer of each op kind.
var signerField = map[string]string{
	"define": "author", "bind": "owner", "update": "owner", "setwd": "owner", "disable": "owner", "enable": "owner",
	"refund": "owner", "withdraw": "owner", "call": "cons", "respond": "prov", "pause": "cons", "start": "cons",
	"kill": "cons", "updatectx": "cons", "modcreate": "cons", "modpause": "cons", "modstart": "cons", "modkill": "cons",
	"modupdate": "cons",
}

// wrongSigner replaces the signer of a draft by some other account.
func (g *gen) wrongSigner(d *draft) *draft {
	if f, ok := signerField[d.name]; ok {
		cur, _ := hex.DecodeString(d.f[f])
		d.f[f] = hx(g.otherThan(allAccounts(), cur))
	}
	return d
}

// ---------------------------------------------------------------------------
// pricing helpers

// priceUnits returns the integer number of stake a price string parses to
// (fractions truncate), or nil for a foreign denom.
func priceUnits(price string) *big.Int {
	if !strings.HasSuffix(price, stakeDenom) {
		return nil
	}
	num := strings.TrimSuffix(price, stakeDenom)
	if i := strings.IndexByte(num, '.'); i >= 0 {
		num = num[:i]
	}
	n, ok := new(big.Int).SetString(num, 10)
	if !ok {
		return nil
	}
	return n
}

// minDeposit mirrors keeper.getMinDeposit for a price: max(price×mult, minDep).
func (g *gen) minDeposit(units *big.Int) *big.Int {
	m := new(big.Int).Mul(units, big.NewInt(g.hp.mult))
	if g.hp.minDep != "-" {
		p, _ := new(big.Int).SetString(g.hp.minDep, 10)
		if m.Cmp(p) < 0 {
			m = p
		}
	}
	return m
}

func (g *gen) bindingMinDeposit(b types.ServiceBinding) *big.Int {
	p := g.sim.k.GetPricing(g.sim.ctx, b.ServiceName, b.Provider)
	return g.minDeposit(p.Price.AmountOf(stakeDenom).BigInt())
}

func depText(n *big.Int) string {
	if n.Sign() <= 0 {
		return "-"
	}
	if n.BitLen() > 255 { // an sdk.Int cannot carry more (the message could not be built)
		n = new(big.Int).Sub(new(big.Int).Lsh(big.NewInt(1), 255), big.NewInt(1))
	}
	return n.String()
}

// promotions draws promT / promV fields (valid ones unless bad is set).
func (g *gen) promotions(bad bool) (promT, promV string) {
	promT, promV = "-", "-"
	now := g.v.now.UnixNano()
	if g.pct(60) {
		// windows around the current block time
		starts := []int64{now - 10*nsPerSec, now - 1, now, now + 1, now + 5*nsPerSec}
		s := starts[g.r.Intn(len(starts))]
		e := s + []int64{1, nsPerSec, 5 * nsPerSec, 60 * nsPerSec}[g.r.Intn(4)]
		if bad && g.pct(50) {
			e = s // end must be after start
		}
		promT = fmt.Sprintf("%d:%d:%s", s, e, discounts[g.r.Intn(len(discounts))])
		if g.pct(30) {
			s2 := e + []int64{0, 1, 5 * nsPerSec}[g.r.Intn(3)]
			if bad {
				s2 = e - 1 // overlapping windows
			}
			promT += fmt.Sprintf(";%d:%d:%s", s2, s2+5*nsPerSec, discounts[g.r.Intn(len(discounts))])
		}
	}
	if promT == "-" || g.pct(40) {
		v1 := 1 + g.r.Int63n(3)
		promV = fmt.Sprintf("%d:%s", v1, discounts[g.r.Intn(len(discounts))])
		if g.pct(35) {
			v2 := v1 + g.r.Int63n(3) // equal volumes are accepted by the keeper
			if bad {
				v2 = v1 - 1
				if v2 < 1 {
					v2 = 1
					promV = fmt.Sprintf("2:%s", discounts[0])
				}
			}
			promV += fmt.Sprintf(";%d:%s", v2, discounts[g.r.Intn(len(discounts))])
		}
		if bad && g.pct(30) {
			promV = "1:1000000000000000000" // discount 1.0 is rejected by the pricing schema
		}
	}
	return promT, promV
}

func (g *gen) qos() int64 {
	switch n := g.r.Intn(100); {
	case n < 55:
		return 1
	case n < 80:
		return 2
	case n < 92:
		return 1 + g.r.Int63n(4)
	case n < 97:
		return g.hp.maxTimeout
	default:
		return 1 + g.r.Int63n(g.hp.maxTimeout+1) // up to maxTimeout+1 (rejected)
	}
}

// ---------------------------------------------------------------------------
// 4. op builders. Each returns (draft, true) or (nil, false) when the current
// state offers nothing to build the op from. adv selects an adversarial variant.

type opKind struct {
	name    string
	module  bool // only in histories with modules=oracle
	builder func(g *gen, adv bool) (*draft, bool)
}

var opKinds = []opKind{
	{"define", false, (*gen).opDefine},
	{"bind", false, (*gen).opBind},
	{"update", false, (*gen).opUpdate},
	{"setwd", false, (*gen).opSetWD},
	{"disable", false, (*gen).opDisable},
	{"enable", false, (*gen).opEnable},
	{"refund", false, (*gen).opRefund},
	{"call", false, (*gen).opCall},
	{"modcall", false, (*gen).opModCall},
	{"respond", false, (*gen).opRespond},
	{"pause", false, (*gen).opPause},
	{"start", false, (*gen).opStart},
	{"kill", false, (*gen).opKill},
	{"updatectx", false, (*gen).opUpdateCtx},
	{"withdraw", false, (*gen).opWithdraw},
	{"modcreate", true, (*gen).opModCreate},
	{"modpause", true, (*gen).opModPause},
	{"modstart", true, (*gen).opModStart},
	{"modkill", true, (*gen).opModKill},
	{"modupdate", true, (*gen).opModUpdate},
	{"fund", false, (*gen).opFund},
	{"xfer", false, (*gen).opXfer},
	{"endblock", false, (*gen).opEndBlock},
}

func (g *gen) opDefine(adv bool) (*draft, bool) {
	var free []string
	for _, n := range svcNames {
		if !g.v.defined(n) {
			free = append(free, n)
		}
	}
	// the name reserved by a module can be defined like any other (only binding it is refused): with it defined, a
	// bind of the reserved service is stopped by the reservation alone
	if g.hp.modsvc && !g.v.defined(reservedSvc) {
		free = append(free, reservedSvc)
	}
	author := g.oneOf(append(append([][]byte{}, ownerAddrs...), consumerAddrs...))
	d := newDraft("define", "author", hx(author), "schema", "ok")
	if adv {
		switch g.r.Intn(4) {
		case 0: // re-define
			if len(g.v.defs) > 0 {
				return d.set("name", g.v.defs[g.r.Intn(len(g.v.defs))]), true
			}
		case 1: // rejected by ValidateBasic: bad schema
			d.set("schema", "bad")
		case 2: // rejected by ValidateBasic: bad name
			return d.set("name", []string{"9x", "-", "a.b", strings.Repeat("x", 71)}[g.r.Intn(4)]), true
		case 3: // longest legal name
			n := strings.Repeat("z", 70)
			if !g.v.defined(n) {
				return d.set("name", n), true
			}
		}
	}
	if len(free) == 0 {
		return nil, false
	}
	return d.set("name", free[g.r.Intn(len(free))]), true
}

// bindTarget picks a (svc, provider, owner) for a new binding that the keeper would accept.
func (g *gen) bindTarget() (svc string, prov, owner []byte, ok bool) {
	if len(g.v.defs) == 0 {
		return "", nil, nil, false
	}
	for try := 0; try < 12; try++ {
		svc = g.v.defs[g.r.Intn(len(g.v.defs))]
		if !plainSvc(svc) {
			continue
		}
		prov = g.oneOf(providerAddrs)
		// the ordinary deployment: an owner that is its own provider (and may own other providers as well)
		self := g.r2 != nil && g.r2.Intn(100) < 12
		if self {
			prov = ownerAddrs[g.r2.Intn(2)]
		}
		if _, bound := g.v.binding(svc, prov); bound {
			continue
		}
		if cur, found := g.sim.k.GetOwner(g.sim.ctx, prov); found {
			owner = cur
		} else if self && g.r2.Intn(100) < 85 {
			owner = prov
		} else {
			owner = g.oneOf(ownerAddrs)
		}
		return svc, prov, owner, true
	}
	return "", nil, nil, false
}

// plainSvc excludes names outside the small universe (e.g. the 70-letter name).
func plainSvc(name string) bool {
	for _, n := range svcNames {
		if n == name {
			return true
		}
	}
	return false
}

func (g *gen) opBind(adv bool) (*draft, bool) {
	svc, prov, owner, ok := g.bindTarget()
	if !ok {
		if adv && g.pct(50) { // bind to an undefined service
			svc, prov, owner = svcNames[g.r.Intn(len(svcNames))], g.oneOf(providerAddrs), g.oneOf(ownerAddrs)
		} else {
			return nil, false
		}
	}
	price := g.pickStr(g.prof.prices)
	units := priceUnits(price)
	min := big.NewInt(0)
	if units != nil && units.BitLen() < 200 {
		min = g.minDeposit(units)
	} else {
		min = g.minDeposit(big.NewInt(0))
	}
	// deposits around the minimum
	dep := new(big.Int).Add(min, big.NewInt([]int64{0, 0, 0, 1, 1, 1000, 50000}[g.r.Intn(7)]))
	if dep.Sign() == 0 {
		dep = big.NewInt(1)
	}
	promT, promV := "-", "-"
	if g.pct(g.prof.promoPct) {
		promT, promV = g.promotions(false)
	}
	d := newDraft("bind", "svc", svc, "prov", hx(prov), "owner", hx(owner), "dep", depText(dep), "price", price,
		"promT", promT, "promV", promV, "qos", itoa(g.qos()))
	if !adv {
		return d, true
	}
	switch g.r.Intn(11) {
	case 0: // re-bind an existing binding
		if len(g.v.bindings) > 0 {
			b := g.v.bindings[g.r.Intn(len(g.v.bindings))]
			d.set("svc", b.ServiceName).set("prov", hx(b.Provider)).set("owner", hx(b.Owner))
		}
	case 1: // a provider that already belongs to someone else
		g.wrongSigner(d)
	case 2: // undefined service
		d.set("svc", []string{"nosvc", "a-", "sv"}[g.r.Intn(3)])
	case 3: // one below the minimum
		if min.Sign() > 0 {
			d.set("dep", depText(new(big.Int).Sub(min, big.NewInt(1))))
		} else {
			d.set("dep", "-")
		}
	case 4: // empty deposit (passes ValidateBasic)
		d.set("dep", "-")
	case 5: // zero deposit (rejected by ValidateBasic)
		d.set("dep", "0")
	case 6: // qos boundary
		d.set("qos", itoa([]int64{0, g.hp.maxTimeout, g.hp.maxTimeout + 1}[g.r.Intn(3)]))
	case 7: // the module service name can not be bound
		if g.hp.modsvc {
			d.set("svc", reservedSvc)
		} else {
			d.set("price", "7atom")
		}
	case 8: // bad promotions
		pt, pv := g.promotions(true)
		d.set("promT", pt).set("promV", pv)
	case 9: // owner cannot pay
		d.set("owner", hx(g.oneOf(consumerAddrs)))
	case 10: // provider address shapes
		d.set("prov", hx([][]byte{{0x22}, repeatByte(0x22, 32), append(repeatByte(0x33, 20), 0x00)}[g.r.Intn(3)]))
	}
	return d, true
}

func (g *gen) opUpdate(adv bool) (*draft, bool) {
	if len(g.v.bindings) == 0 {
		return nil, false
	}
	b := g.v.bindings[g.r.Intn(len(g.v.bindings))]
	d := newDraft("update", "svc", b.ServiceName, "prov", hx(b.Provider), "owner", hx(b.Owner),
		"dep", "-", "price", "-", "promT", "-", "promV", "-", "qos", "0")
	deposit := b.Deposit.AmountOf(stakeDenom).BigInt()
	switch g.r.Intn(4) {
	case 0: // top up
		d.set("dep", itoa([]int64{1, 1, 10, 1000}[g.r.Intn(4)]))
	case 1: // new qos
		d.set("qos", itoa(g.qos()))
	case 2, 3: // new pricing, topping up when the new minimum asks for it
		price := g.pickStr(g.prof.prices)
		d.set("price", price)
		if g.pct(g.prof.promoPct) {
			pt, pv := g.promotions(false)
			d.set("promT", pt).set("promV", pv)
		}
		if units := priceUnits(price); units != nil && units.BitLen() < 200 {
			if need := new(big.Int).Sub(g.minDeposit(units), deposit); need.Sign() > 0 && g.pct(70) {
				d.set("dep", need.String())
			}
		}
		if g.pct(30) {
			d.set("qos", itoa(g.qos()))
		}
	}
	if !adv {
		return d, true
	}
	switch g.r.Intn(6) {
	case 0:
		g.wrongSigner(d)
	case 1: // unknown binding
		d.set("prov", hx(g.otherThan(providerAddrs, b.Provider))).set("svc", svcNames[g.r.Intn(len(svcNames))])
	case 2:
		d.set("qos", itoa(g.hp.maxTimeout+1))
	case 3: // raise the price without topping up
		d.set("price", []string{"30stake", "1000stake", "100000stake"}[g.r.Intn(3)]).set("dep", "-")
	case 4: // nothing to update
		d.set("dep", "-").set("price", "-").set("promT", "-").set("promV", "-").set("qos", "0")
	case 5:
		d.set("dep", "0")
	}
	return d, true
}

func (g *gen) opSetWD(adv bool) (*draft, bool) {
	escrow, deposit, collector := moduleAddrs()
	targets := [][]byte{ownerAddrs[0], ownerAddrs[1], consumerAddrs[0], consumerAddrs[1], strangerAddr, providerAddrs[1]}
	odd := [][]byte{escrow, deposit, collector, repeatByte(0x55, 19), repeatByte(0x55, 21), {0x55}}
	addr := g.oneOf(targets)
	if adv || g.pct(15) {
		addr = g.oneOf(odd)
	}
	owner := g.oneOf(ownerAddrs)
	if adv && g.pct(30) {
		owner = g.oneOf(allAccounts())
	}
	d := newDraft("setwd", "owner", hx(owner), "addr", hx(addr))
	if adv && g.pct(10) {
		d.set("addr", "-") // rejected by ValidateBasic
	}
	return d, true
}

func (g *gen) opDisable(adv bool) (*draft, bool) {
	avail := g.v.filterBindings(func(b types.ServiceBinding) bool { return b.Available })
	if adv {
		if pool := g.v.bindings; len(pool) > 0 {
			b := pool[g.r.Intn(len(pool))] // possibly already disabled
			d := newDraft("disable", "svc", b.ServiceName, "prov", hx(b.Provider), "owner", hx(b.Owner))
			switch g.r.Intn(3) {
			case 0:
				g.wrongSigner(d)
			case 1:
				d.set("prov", hx(g.otherThan(providerAddrs, b.Provider)))
			}
			return d, true
		}
	}
	if len(avail) == 0 {
		return nil, false
	}
	b := avail[g.r.Intn(len(avail))]
	return newDraft("disable", "svc", b.ServiceName, "prov", hx(b.Provider), "owner", hx(b.Owner)), true
}

func (g *gen) opEnable(adv bool) (*draft, bool) {
	off := g.v.filterBindings(func(b types.ServiceBinding) bool { return !b.Available })
	pool := off
	if adv && g.pct(30) {
		pool = g.v.bindings // possibly an available one
	}
	if len(pool) == 0 {
		return nil, false
	}
	b := pool[g.r.Intn(len(pool))]
	need := new(big.Int).Sub(g.bindingMinDeposit(b), b.Deposit.AmountOf(stakeDenom).BigInt())
	dep := "-"
	if need.Sign() > 0 {
		dep = depText(new(big.Int).Add(need, big.NewInt([]int64{0, 0, 1, 100}[g.r.Intn(4)])))
	} else if g.pct(25) {
		dep = itoa([]int64{1, 5, 1000}[g.r.Intn(3)])
	}
	d := newDraft("enable", "svc", b.ServiceName, "prov", hx(b.Provider), "owner", hx(b.Owner), "dep", dep)
	if adv {
		switch g.r.Intn(4) {
		case 0:
			g.wrongSigner(d)
		case 1: // one short of the minimum
			if need.Sign() > 0 {
				d.set("dep", depText(new(big.Int).Sub(need, big.NewInt(1))))
			}
		case 2:
			d.set("dep", "0")
		}
	}
	return d, true
}

// refundableAt is the instant from which the deposit of a disabled binding can be refunded.
func (g *gen) refundableAt(b types.ServiceBinding) time.Time {
	return b.DisabledTime.Add(time.Duration(g.hp.arbitration)).Add(time.Duration(g.hp.complaint))
}

func (g *gen) opRefund(adv bool) (*draft, bool) {
	off := g.v.filterBindings(func(b types.ServiceBinding) bool { return !b.Available && !b.Deposit.IsZero() })
	ripe := g.v.filterBindings(func(b types.ServiceBinding) bool {
		return !b.Available && !b.Deposit.IsZero() && !g.v.now.Before(g.refundableAt(b))
	})
	pool := ripe
	switch {
	case adv && len(g.v.bindings) > 0 && g.pct(40):
		pool = g.v.bindings // available, or already refunded
	case adv || len(ripe) == 0 || g.pct(15):
		pool = off // possibly too early
	}
	if len(pool) == 0 {
		return nil, false
	}
	b := pool[g.r.Intn(len(pool))]
	d := newDraft("refund", "svc", b.ServiceName, "prov", hx(b.Provider), "owner", hx(b.Owner))
	if adv && g.pct(35) {
		g.wrongSigner(d)
	}
	return d, true
}

// nextTx returns a tx hash never used before in this history.
func (g *gen) nextTx() []byte {
	g.txCount++
	tx := make([]byte, 32)
	binary.BigEndian.PutUint64(tx[24:], g.txCount)
	return tx
}

func (g *gen) pickConsumer() []byte {
	return g.oneOf(consumerAddrs)
}

// callFields draws the request-context fields shared by call and modcreate.
func (g *gen) callFields(d *draft, adv bool) bool {
	var candidates []string
	for _, n := range g.v.defs {
		if plainSvc(n) && n != reservedSvc && len(g.v.bindingsOf(n)) > 0 {
			candidates = append(candidates, n)
		}
	}
	if len(candidates) == 0 {
		return false
	}
	svc := candidates[g.r.Intn(len(candidates))]
	bound := g.v.bindingsOf(svc)
	g.r.Shuffle(len(bound), func(i, j int) { bound[i], bound[j] = bound[j], bound[i] })
	n := 1 + g.r.Intn(3)
	if n > len(bound) {
		n = len(bound)
	}
	var provs [][]byte
	maxPrice, maxQoS := big.NewInt(1), uint64(1)
	for _, b := range bound[:n] {
		provs = append(provs, b.Provider)
		if p := g.sim.k.GetPricing(g.sim.ctx, svc, b.Provider).Price.AmountOf(stakeDenom).BigInt(); p.Cmp(maxPrice) > 0 && p.BitLen() < 62 {
			maxPrice = p
		}
		if b.QoS > maxQoS {
			maxQoS = b.QoS
		}
	}
	if g.pct(12) { // a provider without a binding for this service
		extra := g.oneOf(providerAddrs)
		if _, ok := g.v.binding(svc, extra); !ok {
			provs = append(provs, extra)
		}
	}

	maxT := int64(4)
	if g.hp.maxTimeout < maxT {
		maxT = g.hp.maxTimeout
	}
	timeout := 1 + g.r.Int63n(maxT)
	if int64(maxQoS) <= maxT && timeout < int64(maxQoS) && g.pct(75) {
		timeout = int64(maxQoS)
	}

	capAmt := new(big.Int).Set(maxPrice)
	switch g.r.Intn(6) {
	case 0:
		capAmt = big.NewInt([]int64{1, 2, 5, 10}[g.r.Intn(4)]) // may exclude some providers
	case 1:
		capAmt.Mul(capAmt, big.NewInt(2))
	case 2:
		capAmt = big.NewInt(100)
	}

	rep := g.pct(g.prof.repPct)
	freq, total := int64(0), int64(0)
	if rep {
		total = g.pickInt(repeatedTotals)
		switch {
		case g.prof.freqTight && g.pct(70):
			freq = timeout
		case g.pct(20):
			freq = 0 // defaults to the timeout
		default:
			freq = timeout + g.r.Int63n(4)
		}
	} else if g.pct(20) { // ignored when not repeated
		freq, total = g.r.Int63n(3), g.r.Int63n(3)-1
	}

	d.set("tx", hx(g.nextTx())).set("idx", itoa([]int64{0, 0, 0, 1, 2}[g.r.Intn(5)])).
		set("svc", svc).set("provs", hxList(provs)).set("cons", hx(g.pickConsumer())).
		set("cap", capAmt.String()).set("timeout", itoa(timeout)).
		set("super", bit(g.pct(10))).set("rep", bit(rep)).set("freq", itoa(freq)).set("total", itoa(total)).
		set("input", "ok")
	if !adv {
		return true
	}
	switch g.r.Intn(16) {
	case 12, 13: // boundary shapes of C20: the maximal provider list (10) and one more (rejected statelessly)
		list := append([][]byte{}, provs...)
		want := 10 + g.r.Intn(2)
		for i := 0; len(list) < want; i++ {
			list = append(list, repeatByte(byte(0x70+i), 20))
		}
		d.set("provs", hxList(list))
	case 14: // maximal numeric fields inside the numeric domain E6
		d.set("rep", "1").set("total", "9223372036854775807").set("freq", "4611686018427387904")
	case 15: // a fee cap far beyond any balance
		d.set("cap", "1606938044258990275541962092341162602522202993782792835301376")
	case 0:
		d.set("svc", []string{"nosvc", "sv", "a-"}[g.r.Intn(3)])
	case 1:
		d.set("provs", "-")
	case 2: // duplicate providers
		d.set("provs", hx(provs[0])+","+hx(provs[0]))
	case 3:
		d.set("timeout", itoa([]int64{0, -1, g.hp.maxTimeout + 1, g.hp.maxTimeout}[g.r.Intn(4)]))
	case 4: // frequency below the timeout
		d.set("rep", "1").set("timeout", "3").set("freq", itoa(1+g.r.Int63n(2))).set("total", "2")
	case 5:
		d.set("rep", "1").set("total", itoa([]int64{0, -2}[g.r.Intn(2)]))
	case 6:
		d.set("cap", []string{"0", "-"}[g.r.Intn(2)])
	case 7:
		d.set("input", "bad")
	case 8: // consumer without funds
		d.set("cons", hx(strangerAddr))
	case 9: // (context ids are never reused: E7 of DESIGN.md; a repeated (tx hash, index) is outside the domain)
		d.set("input", "bad")
	case 10: // only unbound providers
		d.set("provs", hx(repeatByte(0x66, 20)))
	case 11: // cap below every price
		d.set("cap", "1")
	}
	return true
}

func (g *gen) opCall(adv bool) (*draft, bool) {
	d := newDraft("call")
	if !g.callFields(d, adv) {
		return nil, false
	}
	return d, true
}

// opModCall: MsgCallService for the service name reserved by the registered module service (profile `modsvc` only).
// The handler ignores the providers, timeout and repetition fields of the message (they only have to pass
// ValidateBasic); what matters is the consumer, its funds, the fee cap against the price of the module's binding,
// the state of that binding, and what the module answers.
func (g *gen) opModCall(adv bool) (*draft, bool) {
	if !g.hp.modsvc || !g.v.defined(reservedSvc) {
		return nil, false
	}
	price := big.NewInt(1)
	if _, ok := g.v.binding(reservedSvc, modSvcProvider); ok {
		if p := g.sim.k.GetPricing(g.sim.ctx, reservedSvc, modSvcProvider).Price.AmountOf(stakeDenom).BigInt(); p.Sign() > 0 && p.BitLen() < 62 {
			price = p
		}
	}
	capAmt := new(big.Int).Set(price)
	switch g.r.Intn(7) {
	case 0:
		capAmt = big.NewInt([]int64{1, 2, 5, 10}[g.r.Intn(4)])
	case 1:
		capAmt.Mul(capAmt, big.NewInt(2))
	case 2:
		capAmt = big.NewInt(100)
	case 3:
		if capAmt.Cmp(big.NewInt(1)) > 0 {
			capAmt.Sub(capAmt, big.NewInt(1)) // just below the price: the module's provider is not eligible
		}
	}
	outcome := strings.Split(g.pickStr(respondOutcomes), " ")
	d := newDraft("modcall")
	d.set("tx", hx(g.nextTx())).set("idx", itoa([]int64{0, 0, 1}[g.r.Intn(3)])).
		set("svc", reservedSvc).set("provs", hx(g.oneOf(providerAddrs))).set("cons", hx(g.pickConsumer())).
		set("cap", capAmt.String()).set("timeout", itoa(1+g.r.Int63n(3))).
		set("super", bit(g.pct(10))).set("rep", "0").set("freq", "0").set("total", "0").
		set("input", "ok").set("mscode", outcome[0]).set("msout", outcome[1])
	if adv {
		switch g.r.Intn(5) {
		case 0:
			d.set("input", "bad")
		case 1:
			d.set("cons", hx(strangerAddr)) // a consumer without funds
		case 2:
			d.set("cap", []string{"0", "-"}[g.r.Intn(2)])
		case 3:
			d.set("timeout", "0") // rejected statelessly although the handler would ignore it
		case 4:
			d.set("mscode", "200").set("msout", "absent") // an answer a provider could not send as a message
		}
	}
	return d, true
}

func (g *gen) opModCreate(adv bool) (*draft, bool) {
	d := newDraft("modcreate")
	if !g.callFields(d, adv && g.pct(50)) {
		return nil, false
	}
	nProvs := int64(len(strings.Split(d.f["provs"], ",")))
	if d.f["provs"] == "-" {
		nProvs = 0
	}
	thr := int64(1)
	if nProvs > 1 {
		thr = 1 + g.r.Int63n(nProvs)
	}
	state := "running"
	if g.pct(25) {
		state = "paused"
	}
	d.set("mod", moduleName).set("state", state).set("thr", itoa(thr))
	if adv {
		switch g.r.Intn(5) {
		case 0:
			d.set("thr", "0")
		case 1:
			d.set("thr", itoa(nProvs+1))
		case 2:
			d.set("mod", "nomod") // callbacks not registered
		case 3:
			d.set("thr", "0") // (a module always passes its own name; mod=- is outside the domain)
		}
	}
	return d, true
}

func (g *gen) opRespond(adv bool) (*draft, bool) {
	var active []reqEntry
	for _, r := range g.v.reqs {
		if r.active {
			active = append(active, r)
		}
	}
	outcome := strings.Split(g.pickStr(respondOutcomes), " ")
	d := newDraft("respond", "code", outcome[0], "out", outcome[1])
	if adv {
		switch g.r.Intn(7) {
		case 0: // second response to the same request
			for _, r := range g.v.reqs {
				if r.responded {
					return d.set("req", hx(r.id)).set("prov", hx(r.r.Provider)), true
				}
			}
		case 1: // a request seen earlier (expired, responded or cleaned up)
			if len(g.seenReqs) > 0 {
				s := g.seenReqs[g.r.Intn(len(g.seenReqs))]
				return d.set("req", hx(s.id)).set("prov", hx(s.prov)), true
			}
		case 2: // unknown request
			return d.set("req", hx(g.randBytes(types.RequestIDLen))).set("prov", hx(g.oneOf(providerAddrs))), true
		case 3: // malformed id (rejected by ValidateBasic)
			return d.set("req", hx(g.randBytes(40))).set("prov", hx(g.oneOf(providerAddrs))), true
		case 4: // wrong provider
			if len(active) > 0 {
				r := active[g.r.Intn(len(active))]
				return d.set("req", hx(r.id)).set("prov", hx(g.otherThan(providerAddrs, r.r.Provider))), true
			}
		case 5: // code/output combinations rejected by ValidateBasic
			if len(active) > 0 {
				r := active[g.r.Intn(len(active))]
				bad := [][2]string{{"200", "absent"}, {"400", "valid"}, {"500", "malformed"}}[g.r.Intn(3)]
				return d.set("req", hx(r.id)).set("prov", hx(r.r.Provider)).set("code", bad[0]).set("out", bad[1]), true
			}
		}
	}
	if len(active) == 0 {
		return nil, false
	}
	r := active[g.r.Intn(len(active))]
	return d.set("req", hx(r.id)).set("prov", hx(r.r.Provider)), true
}

// ctxOp builds pause/start/kill and their module twins: want selects the
// contexts on which the op is expected to succeed.
func (g *gen) ctxOp(name string, adv, module bool, want func(types.RequestContext) bool) (*draft, bool) {
	sameKind := func(c ctxEntry) bool { return (c.rc.ModuleName != "") == module }
	good := g.v.filterCtxs(func(c ctxEntry) bool { return sameKind(c) && want(c.rc) })
	if adv {
		d := newDraft(name)
		switch g.r.Intn(4) {
		case 0: // any context at all (wrong state, wrong kind)
			if len(g.v.ctxs) > 0 {
				c := g.v.ctxs[g.r.Intn(len(g.v.ctxs))]
				return d.set("ctx", hx(c.id)).set("cons", hx(c.rc.Consumer)), true
			}
		case 1: // wrong consumer
			if len(good) > 0 {
				c := good[g.r.Intn(len(good))]
				return g.wrongSigner(d.set("ctx", hx(c.id)).set("cons", hx(c.rc.Consumer))), true
			}
		case 2: // a context that no longer exists, or never did
			id := g.randBytes(types.ContextIDLen)
			if len(g.seenCtxs) > 0 && g.pct(70) {
				id = g.seenCtxs[g.r.Intn(len(g.seenCtxs))]
			}
			return d.set("ctx", hx(id)).set("cons", hx(g.pickConsumer())), true
		case 3: // malformed id (rejected by ValidateBasic of the messages)
			return d.set("ctx", hx(g.randBytes(32))).set("cons", hx(g.pickConsumer())), true
		}
	}
	if len(good) == 0 {
		return nil, false
	}
	c := good[g.r.Intn(len(good))]
	return newDraft(name, "ctx", hx(c.id), "cons", hx(c.rc.Consumer)), true
}

func canPause(rc types.RequestContext) bool { return rc.Repeated && rc.State == types.RUNNING }
func canStart(rc types.RequestContext) bool { return rc.State == types.PAUSED }
func canKill(rc types.RequestContext) bool  { return rc.Repeated && rc.State != types.COMPLETED }

func (g *gen) opPause(adv bool) (*draft, bool) { return g.ctxOp("pause", adv, false, canPause) }
func (g *gen) opStart(adv bool) (*draft, bool) { return g.ctxOp("start", adv, false, canStart) }
func (g *gen) opKill(adv bool) (*draft, bool)  { return g.ctxOp("kill", adv, false, canKill) }
func (g *gen) opModPause(adv bool) (*draft, bool) {
	return g.ctxOp("modpause", adv, true, canPause)
}
func (g *gen) opModStart(adv bool) (*draft, bool) {
	return g.ctxOp("modstart", adv, true, canStart)
}
func (g *gen) opModKill(adv bool) (*draft, bool) { return g.ctxOp("modkill", adv, true, canKill) }

// updateFields draws the fields shared by updatectx and modupdate for context c.
func (g *gen) updateFields(d *draft, c ctxEntry, adv bool) {
	rc := c.rc
	d.set("ctx", hx(c.id)).set("cons", hx(rc.Consumer)).set("provs", "-").set("cap", "-").
		set("timeout", "0").set("freq", "0").set("total", "0")
	maxT := int64(4)
	if g.hp.maxTimeout < maxT {
		maxT = g.hp.maxTimeout
	}
	timeout := rc.Timeout
	if g.pct(45) {
		timeout = 1 + g.r.Int63n(maxT)
		d.set("timeout", itoa(timeout))
	}
	// the keeper wants the effective frequency ≥ the effective timeout
	if uint64(timeout) > rc.RepeatedFrequency || g.pct(35) {
		d.set("freq", itoa(timeout+g.r.Int63n(3)))
	}
	if g.pct(35) {
		bound := g.v.bindingsOf(rc.ServiceName)
		if len(bound) > 0 {
			g.r.Shuffle(len(bound), func(i, j int) { bound[i], bound[j] = bound[j], bound[i] })
			n := 1 + g.r.Intn(len(bound))
			if n > 3 {
				n = 3
			}
			var provs [][]byte
			for _, b := range bound[:n] {
				provs = append(provs, b.Provider)
			}
			d.set("provs", hxList(provs))
		}
	}
	if g.pct(35) {
		d.set("cap", itoa([]int64{1, 5, 30, 100}[g.r.Intn(4)]))
	}
	if g.pct(40) {
		d.set("total", itoa([]int64{-1, int64(rc.BatchCounter), int64(rc.BatchCounter) + 1, int64(rc.BatchCounter) + 2}[g.r.Intn(4)]))
		if d.f["total"] == "0" {
			d.set("total", "1")
		}
	}
	if !adv {
		return
	}
	switch g.r.Intn(7) {
	case 0:
		g.wrongSigner(d)
	case 1: // frequency below the timeout
		d.set("timeout", itoa(maxT)).set("freq", itoa(maxT-1))
		if maxT == 1 {
			d.set("timeout", "2").set("freq", "1")
		}
	case 2: // total below the batch counter
		if rc.BatchCounter > 1 {
			d.set("total", itoa(int64(rc.BatchCounter)-1))
		} else {
			d.set("total", "-2")
		}
	case 3:
		d.set("timeout", itoa([]int64{-1, g.hp.maxTimeout + 1}[g.r.Intn(2)]))
	case 4:
		d.set("cap", "0")
	case 5: // duplicate providers
		d.set("provs", hx(providerAddrs[1])+","+hx(providerAddrs[1]))
	case 6: // a context that no longer exists
		if len(g.seenCtxs) > 0 {
			d.set("ctx", hx(g.seenCtxs[g.r.Intn(len(g.seenCtxs))]))
		} else {
			d.set("ctx", hx(g.randBytes(types.ContextIDLen)))
		}
	}
}

func (g *gen) opUpdateCtx(adv bool) (*draft, bool) {
	pool := g.v.filterCtxs(func(c ctxEntry) bool { return c.rc.ModuleName == "" && c.rc.State != types.COMPLETED })
	if adv && g.pct(30) {
		pool = g.v.ctxs // module-owned or completed ones too
	}
	if len(pool) == 0 {
		return nil, false
	}
	d := newDraft("updatectx")
	g.updateFields(d, pool[g.r.Intn(len(pool))], adv)
	return d, true
}

func (g *gen) opModUpdate(adv bool) (*draft, bool) {
	pool := g.v.filterCtxs(func(c ctxEntry) bool { return c.rc.ModuleName != "" && c.rc.State != types.COMPLETED })
	if adv && g.pct(30) {
		pool = g.v.ctxs
	}
	if len(pool) == 0 {
		return nil, false
	}
	c := pool[g.r.Intn(len(pool))]
	d := newDraft("modupdate")
	g.updateFields(d, c, adv)
	nProvs := int64(len(c.rc.Providers))
	if d.f["provs"] != "-" {
		nProvs = int64(len(strings.Split(d.f["provs"], ",")))
	}
	thr := int64(0)
	if g.pct(50) && nProvs > 0 {
		thr = 1 + g.r.Int63n(nProvs)
	}
	if adv && g.pct(30) {
		thr = nProvs + 1
	}
	if thr == 0 && int64(c.rc.ResponseThreshold) > nProvs && !adv {
		thr = nProvs // keep the inherited threshold within the new provider list
	}
	return d.set("thr", itoa(thr)), true
}

func (g *gen) opWithdraw(adv bool) (*draft, bool) {
	var rich [][]byte
	for _, o := range ownerAddrs {
		if _, ok := g.v.ownerFees[string(o)]; ok {
			rich = append(rich, o)
		}
	}
	if adv {
		d := newDraft("withdraw", "owner", hx(g.oneOf(ownerAddrs)), "prov", "-")
		switch g.r.Intn(4) {
		case 0: // an owner who may have earned nothing
		case 1: // somebody else's provider, or a provider nobody owns
			d.set("prov", hx(g.oneOf(providerAddrs)))
		case 2: // not an owner at all
			d.set("owner", hx(g.oneOf(consumerAddrs)))
		case 3:
			d.set("owner", "-")
		}
		return d, true
	}
	if len(rich) == 0 {
		return nil, false
	}
	owner := g.oneOf(rich)
	d := newDraft("withdraw", "owner", hx(owner), "prov", "-")
	if g.pct(45) { // one provider of this owner
		var mine [][]byte
		for _, p := range providerAddrs {
			if o, ok := g.sim.k.GetOwner(g.sim.ctx, p); ok && string(o) == string(owner) {
				mine = append(mine, p)
			}
		}
		if len(mine) > 0 {
			d.set("prov", hx(g.oneOf(mine)))
		}
	}
	return d, true
}

func (g *gen) opFund(adv bool) (*draft, bool) {
	return newDraft("fund", "acct", hx(g.oneOf(consumerAddrs)), "amt", itoa([]int64{1, 2, 5, 30, 100}[g.r.Intn(5)])), true
}

func (g *gen) opXfer(adv bool) (*draft, bool) {
	pool := append(append([][]byte{}, consumerAddrs...), ownerAddrs[0], strangerAddr)
	from := g.oneOf(consumerAddrs)
	to := g.otherThan(pool, from)
	bal := g.sim.app.BankKeeper.GetBalance(g.sim.ctx, from, stakeDenom).Amount
	amt := big.NewInt([]int64{1, 2, 5}[g.r.Intn(3)])
	if bal.IsPositive() && g.pct(50) {
		amt = bal.BigInt() // drain
	}
	if adv {
		amt = new(big.Int).Add(bal.BigInt(), big.NewInt(1)) // one more than there is
	}
	return newDraft("xfer", "from", hx(from), "to", hx(to), "amt", amt.String()), true
}

func (g *gen) opEndBlock(adv bool) (*draft, bool) {
	dt := g.pickInt(g.prof.dtTable)
	if dt == 0 {
		dt = g.hp.arbitration + g.hp.complaint
	}
	// a block never jumps further than about three weeks (the periods themselves may be far larger — up to 2^62 ns each,
	// their sum beyond int64 —: then no history waits for them)
	const maxDt = 2000000000000000
	if dt <= 0 || dt > maxDt {
		dt = 5 * nsPerSec
	}
	// time boundaries around the instant a disabled binding becomes refundable
	var waits []int64
	for _, b := range g.v.bindings {
		if !b.Available && !b.Deposit.IsZero() {
			if w := g.refundableAt(b).Sub(g.v.now); w > 0 && int64(w) <= maxDt {
				waits = append(waits, int64(w))
			}
		}
	}
	if len(waits) > 0 && g.pct(45) {
		w := waits[g.r.Intn(len(waits))] + []int64{-1, 0, 0, 1}[g.r.Intn(4)]
		if w > 0 {
			dt = w
		}
	}
	return newDraft("endblock", "dt", itoa(dt)), true
}

// ---------------------------------------------------------------------------
// 4b. queries (SPEC.md §4.1): every kind, through both interfaces, with arguments
// drawn from what exists in the current state and from what does not.

// service names for queries: the universe (where `a` is a prefix of `a-b` and
// `a_b`), proper prefixes and extensions of its names, unknown and reserved names
var queryNames = []string{"a", "a-b", "a_b", "svc", "sv", "a-", "ab", "svcs", "nosvc", reservedSvc}

func (g *gen) qName() string {
	if len(g.v.defs) > 0 && g.pct(50) {
		return g.v.defs[g.r.Intn(len(g.v.defs))] // includes the 70-letter name when defined
	}
	return queryNames[g.r.Intn(len(queryNames))]
}

// qProvider: a provider of the universe (bound or not, of any length), the module
// service provider, a stranger, an extension of a provider, or the empty address.
func (g *gen) qProvider() string {
	switch n := g.r.Intn(100); {
	case n < 80:
		return hx(g.oneOf(providerAddrs))
	case n < 86:
		return hx(modSvcProvider)
	case n < 92:
		return hx(strangerAddr)
	case n < 97:
		return hx(append(append([]byte{}, providerAddrs[3]...), 0x00))
	}
	return "-"
}

// qBinding: an existing binding in most cases, else any name with any provider.
func (g *gen) qBinding() (svc, prov string) {
	if len(g.v.bindings) > 0 && g.pct(65) {
		b := g.v.bindings[g.r.Intn(len(g.v.bindings))]
		if g.pct(85) {
			return b.ServiceName, hx(b.Provider)
		}
		return g.qName(), hx(b.Provider) // a bound provider under another name
	}
	return g.qName(), g.qProvider()
}

func (g *gen) qOwner() string {
	switch n := g.r.Intn(100); {
	case n < 70:
		return hx(g.oneOf(ownerAddrs))
	case n < 85:
		return hx(g.oneOf(consumerAddrs))
	case n < 95:
		return hx(strangerAddr)
	}
	return hx(repeatByte(0x01, 19)) // not 20 bytes long
}

// qCtx: a live context, one seen earlier (possibly removed since), an unknown id,
// or an id of the wrong length.
func (g *gen) qCtx() (id string, rc *types.RequestContext) {
	switch n := g.r.Intn(100); {
	case n < 55 && len(g.v.ctxs) > 0:
		c := g.v.ctxs[g.r.Intn(len(g.v.ctxs))]
		return hx(c.id), &c.rc
	case n < 75 && len(g.seenCtxs) > 0:
		return hx(g.seenCtxs[g.r.Intn(len(g.seenCtxs))]), nil
	case n < 90:
		return hx(g.randBytes(types.ContextIDLen)), nil
	case n < 95:
		return hx(g.randBytes([]int{1, 32, 39, 41}[g.r.Intn(4)])), nil
	case len(g.v.ctxs) > 0: // a prefix of a live id
		c := g.v.ctxs[g.r.Intn(len(g.v.ctxs))]
		return hx(c.id[:32]), nil
	}
	return "-", nil
}

// qBatch: the current batch of the context, its neighbours, 0, and a far one.
func (g *gen) qBatch(rc *types.RequestContext) string {
	cur := uint64(1)
	if rc != nil {
		cur = rc.BatchCounter
	}
	switch n := g.r.Intn(100); {
	case n < 55:
		return fmt.Sprint(cur)
	case n < 70 && cur > 0:
		return fmt.Sprint(cur - 1)
	case n < 85:
		return fmt.Sprint(cur + 1)
	case n < 93:
		return "0"
	}
	return "18446744073709551615"
}

// qReq: a stored request (responded or not), one seen earlier, an unknown id, or
// an id of the wrong length (a context id among them).
func (g *gen) qReq(wantResponded bool) string {
	var pool []reqEntry
	for _, r := range g.v.reqs {
		if !wantResponded || r.responded {
			pool = append(pool, r)
		}
	}
	switch n := g.r.Intn(100); {
	case n < 50 && len(pool) > 0:
		return hx(pool[g.r.Intn(len(pool))].id)
	case n < 60 && len(g.v.reqs) > 0:
		return hx(g.v.reqs[g.r.Intn(len(g.v.reqs))].id)
	case n < 78 && len(g.seenReqs) > 0:
		return hx(g.seenReqs[g.r.Intn(len(g.seenReqs))].id)
	case n < 90:
		return hx(g.randBytes(types.RequestIDLen))
	case n < 95 && len(g.v.ctxs) > 0:
		return hx(g.v.ctxs[g.r.Intn(len(g.v.ctxs))].id)
	case n < 98:
		return hx(g.randBytes([]int{1, 40, 57, 59}[g.r.Intn(4)]))
	}
	return "-"
}

// queryDraft draws a query of the given kind (via is set by the caller).
func (g *gen) queryDraft(kind string) *draft {
	d := newDraft("query", "kind", kind)
	switch kind {
	case "definition":
		d.set("name", g.qName())
	case "binding":
		svc, prov := g.qBinding()
		d.set("svc", svc).set("prov", prov)
	case "bindings":
		d.set("svc", g.qName()).set("owner", "-")
		if g.pct(55) {
			d.set("owner", g.qOwner())
			if len(g.v.bindings) > 0 && g.pct(60) { // an owner who has a binding of this service
				b := g.v.bindings[g.r.Intn(len(g.v.bindings))]
				d.set("svc", b.ServiceName).set("owner", hx(b.Owner))
			}
		}
	case "withdraw":
		d.set("owner", g.qOwner())
	case "context":
		id, _ := g.qCtx()
		d.set("ctx", id)
	case "request":
		d.set("req", g.qReq(false))
	case "requests":
		var active []reqEntry
		for _, r := range g.v.reqs {
			if r.active {
				active = append(active, r)
			}
		}
		if len(active) > 0 && g.pct(60) { // a binding with pending requests
			r := active[g.r.Intn(len(active))]
			svc := ""
			for _, c := range g.v.ctxs {
				if string(c.id) == string(r.r.RequestContextId) {
					svc = c.rc.ServiceName
				}
			}
			if svc != "" {
				return d.set("svc", svc).set("prov", hx(r.r.Provider))
			}
		}
		svc, prov := g.qBinding()
		d.set("svc", svc).set("prov", prov)
	case "requests_by_ctx", "responses":
		id, rc := g.qCtx()
		d.set("ctx", id).set("batch", g.qBatch(rc))
	case "response":
		d.set("req", g.qReq(true))
	case "fees":
		d.set("prov", g.qProvider())
	case "params":
	case "schema":
		names := []string{"pricing", "result", "Pricing", "RESULT", "pRiCiNg", "schema", "results", "-", "input"}
		d.set("name", names[g.r.Intn(len(names))])
	}
	return d
}

// opQuery draws one query; in most cases the same query through the other
// interface follows at once, on the same state.
func (g *gen) opQuery() string {
	d := g.queryDraft(queryKinds[g.r.Intn(len(queryKinds))])
	vias := []string{"grpc", "legacy"}
	first := g.r.Intn(2)
	line := d.set("via", vias[first]).line()
	if g.pct(70) {
		g.pending = append(g.pending, d.set("via", vias[1-first]).line())
	}
	// the client-side recovery of a request from its id (client.go) on the same state
	if d.f["kind"] == "request" && g.pct(60) {
		g.pending = append(g.pending, d.set("via", "client").line())
	}
	return line
}

// ---------------------------------------------------------------------------
// 5. driver and statistics

// histStats counts ops by name × result class, and effect lines by op × kind.
type histStats struct {
	Index   int                       `json:"index"`
	Genesis string                    `json:"genesis"`
	Ops     map[string]map[string]int `json:"ops"`
	Effects map[string]int            `json:"effects"`
	Stopped bool                      `json:"stopped_by_endblock_panic,omitempty"`
}

func newHistStats(i int) *histStats {
	return &histStats{Index: i, Ops: map[string]map[string]int{}, Effects: map[string]int{}}
}

func (h *histStats) record(res *StepResult) {
	name := strings.SplitN(res.Line, " ", 2)[0]
	if h.Ops[name] == nil {
		h.Ops[name] = map[string]int{}
	}
	key := res.Key()
	if res.Class == classPanic {
		key = "panic"
	}
	h.Ops[name][key]++
	for _, e := range res.Effects {
		f := strings.Split(e, " ")
		kind := f[1]
		if kind == "ev" {
			kind = f[2]
		}
		h.Effects[name+":"+kind]++
		if kind == types.EventTypeNewBatchRequest {
			var n int
			fmt.Sscan(f[len(f)-1], &n)
			h.Effects[name+":requests_issued"] += n
		}
	}
}

func (h *histStats) addTo(total *histStats) {
	for op, m := range h.Ops {
		if total.Ops[op] == nil {
			total.Ops[op] = map[string]int{}
		}
		for k, n := range m {
			total.Ops[op][k] += n
		}
	}
	for k, n := range h.Effects {
		total.Effects[k] += n
	}
}

type genStats struct {
	Seed      int64        `json:"seed"`
	Profile   string       `json:"profile"`
	OpsPer    int          `json:"ops_per_history"`
	Total     *histStats   `json:"total"`
	Histories []*histStats `json:"histories"`
}

// generate writes K histories (DIR/h<i>.trace) and DIR/stats.json.
func generate(seed int64, profName string, histories, nOps int, outDir string) error {
	prof, ok := profiles[profName]
	if !ok {
		return fmt.Errorf("unknown profile %q (have: %s)", profName, strings.Join(profileNames(), " "))
	}
	if err := os.MkdirAll(outDir, 0o755); err != nil {
		return err
	}
	stats := &genStats{Seed: seed, Profile: profName, OpsPer: nOps, Total: newHistStats(-1)}
	for i := 0; i < histories; i++ {
		hs, err := generateHistory(seed, i, prof, nOps, filepath.Join(outDir, fmt.Sprintf("h%d.trace", i)))
		if err != nil {
			return fmt.Errorf("history %d: %v", i, err)
		}
		hs.addTo(stats.Total)
		stats.Histories = append(stats.Histories, hs)
	}
	bz, err := json.MarshalIndent(stats, "", "  ")
	if err != nil {
		return err
	}
	return os.WriteFile(filepath.Join(outDir, "stats.json"), append(bz, '\n'), 0o644)
}

// drawHistoryParams draws the genesis parameters of one history.
func (g *gen) drawHistoryParams() {
	p := g.prof
	g.hp.maxTimeout = genMaxTimeout[g.r.Intn(len(genMaxTimeout))]
	g.hp.mult = genMult[g.r.Intn(len(genMult))]
	g.hp.minDep = genMinDep[g.r.Intn(len(genMinDep))]
	g.hp.tax = genTax[g.r.Intn(len(genTax))]
	if p.taxEdge && g.pct(60) {
		g.hp.tax = []string{"0", "1", "999999999999999999", "500000000000000000"}[g.r.Intn(4)]
	}
	g.hp.slash = genSlash[g.r.Intn(len(genSlash))]
	periods := genPeriods[g.r.Intn(len(genPeriods))]
	g.hp.complaint, g.hp.arbitration = periods[0], periods[1]
	g.hp.modules = g.pct(p.modulesPct)
	g.hp.modsvc = g.pct(p.modsvcPct)
}

func (g *gen) genesisLine() string {
	escrow, deposit, collector := moduleAddrs()
	modules, modsvc := "-", "-"
	if g.hp.modules {
		modules = moduleName
	}
	if g.hp.modsvc {
		modsvc = reservedSvc
	}
	height := []int64{1, 1, 7, 1000}[g.r.Intn(4)]
	startNs := []int64{1000000000000, 1600000000000000000}[g.r.Intn(2)]
	return fmt.Sprintf("genesis height=%d time=%d maxTimeout=%d mult=%d minDep=%s tax=%s slash=%s complaint=%d arbitration=%d modules=%s modsvc=%s escrow=%s deposit=%s collector=%s",
		height, startNs, g.hp.maxTimeout, g.hp.mult, g.hp.minDep, g.hp.tax, g.hp.slash, g.hp.complaint, g.hp.arbitration,
		modules, modsvc, hx(escrow), hx(deposit), hx(collector))
}

// nextOp draws one op line from the current state.
func (g *gen) nextOp() string {
	if len(g.pending) > 0 {
		line := g.pending[0]
		g.pending = g.pending[1:]
		return line
	}
	g.refreshView()
	if g.prof.queryPct > 0 && g.pct(g.prof.queryPct) {
		return g.opQuery()
	}
	var kinds []opKind
	total := 0
	for _, k := range opKinds {
		if w := g.prof.weights[k.name]; w > 0 && (!k.module || g.hp.modules) {
			kinds = append(kinds, k)
			total += w
		}
	}
	for try := 0; try < 12; try++ {
		n := g.r.Intn(total)
		var kind opKind
		for _, k := range kinds {
			if n -= g.prof.weights[k.name]; n < 0 {
				kind = k
				break
			}
		}
		adv := g.pct(g.prof.advPct)
		d, ok := kind.builder(g, adv)
		if !ok {
			continue
		}
		if g.pct(g.prof.signerPct) {
			g.wrongSigner(d) // authority profile: any account as signer
		}
		return d.line()
	}
	d, _ := g.opEndBlock(false)
	return d.line()
}

func generateHistory(seed int64, index int, prof *profile, nOps int, path string) (*histStats, error) {
	g := &gen{
		r:       rand.New(rand.NewSource(seed*1000003 + int64(index))),
		r2:      rand.New(rand.NewSource(seed*1000033 + int64(index)*17 + 3)),
		sim:     NewSim(),
		prof:    prof,
		hist:    index,
		seenSet: map[string]bool{},
	}
	f, err := os.Create(path)
	if err != nil {
		return nil, err
	}
	defer f.Close()
	w := bufio.NewWriter(f)
	defer w.Flush()

	hs := newHistStats(index)
	step := func(line string) error {
		res, err := g.sim.Step(line)
		if err != nil {
			return fmt.Errorf("%v (line: %s)", err, line)
		}
		hs.record(res)
		return res.WriteBlock(w)
	}

	// prelude: genesis, generous owners, consumers whose balances straddle batch totals
	g.drawHistoryParams()
	hs.Genesis = g.genesisLine()
	if err := step(hs.Genesis); err != nil {
		return nil, err
	}
	for _, o := range ownerAddrs {
		if err := step(fmt.Sprintf("fund acct=%s amt=%d", hx(o), ownerFunds)); err != nil {
			return nil, err
		}
	}
	// in about a third of the histories the 20-byte provider accounts hold funds too, so that a
	// provider (or a stranger) acting as a signer is not stopped merely by an empty account
	if g.pct(35) {
		for _, p := range append([][]byte{strangerAddr}, providerAddrs...) {
			if len(p) == 20 {
				if err := step(fmt.Sprintf("fund acct=%s amt=%d", hx(p), ownerFunds)); err != nil {
					return nil, err
				}
			}
		}
	}
	balances := consumerBalancesNormal
	if prof.poor {
		balances = consumerBalancesPoor
	}
	perm := g.r.Perm(len(balances))
	for i, c := range consumerAddrs {
		if amt := balances[perm[i]]; amt > 0 {
			if err := step(fmt.Sprintf("fund acct=%s amt=%d", hx(c), amt)); err != nil {
				return nil, err
			}
		}
	}

	if prof.modsvcBind && g.hp.modsvc {
		mp := hx(modSvcProvider)
		price := []string{"1stake", "2stake", "5stake", "9stake", "30stake"}[g.r.Intn(5)]
		// in half of the histories the module's binding has promotions: the price then depends on the block time and
		// on how often this very consumer has been served
		promT, promV := "-", "-"
		if g.pct(50) {
			g.refreshView()
			promT, promV = g.promotions(false)
		}
		for _, line := range []string{
			fmt.Sprintf("fund acct=%s amt=%d", mp, ownerFunds),
			fmt.Sprintf("define name=%s author=%s schema=ok", reservedSvc, hx(ownerAddrs[0])),
			fmt.Sprintf("modbind svc=%s prov=%s owner=%s dep=%d price=%s promT=%s promV=%s qos=1", reservedSvc, mp, mp, ownerFunds/2, price, promT, promV),
		} {
			if err := step(line); err != nil {
				return nil, err
			}
		}
	}

	g.std20 = prof.std20Pct > 0 && g.pct(prof.std20Pct)
	fix := func(line string) string {
		if g.std20 {
			return std20Line(line)
		}
		return line
	}
	// drawing an op reads the simulator's state; on a state that is internally inconsistent (which only a broken
	// implementation produces) a draw can fail: the history then ends here, and what was generated so far is kept —
	// the monitors see the inconsistent state in it
	draw := func() (line string, ok bool) {
		defer func() {
			if r := recover(); r != nil {
				fmt.Fprintf(os.Stderr, "generator: history %d ends early, cannot draw from this state: %v\n", index, r)
				line, ok = "", false
			}
		}()
		return g.nextOp(), true
	}
	// zero-height restarts inside the history: the positions come from a PRNG of their own, so that the op stream
	// of a history is the same with and without them
	restartAt := map[int]bool{}
	if prof.restartPct > 0 {
		rr := rand.New(rand.NewSource(seed*999983 + int64(index)*31 + 7))
		if rr.Intn(100) < prof.restartPct {
			restartAt[nOps/4+rr.Intn(nOps/2+1)] = true
			if rr.Intn(100) < 40 {
				restartAt[nOps/2+rr.Intn(nOps/2+1)] = true
			}
		}
	}
	for n := 0; n < nOps && !g.sim.Stopped; n++ {
		if restartAt[n] {
			if err := step("restart"); err != nil {
				return nil, err
			}
		}
		line, ok := draw()
		if !ok {
			return hs, nil
		}
		if err := step(fix(line)); err != nil {
			return nil, err
		}
	}
	if prof.genesisTail && !g.sim.Stopped {
		for _, line := range g.genesisTail() {
			if err := step(fix(line)); err != nil {
				return nil, err
			}
		}
	}
	hs.Stopped = g.sim.Stopped && !g.sim.Reimported
	return hs, nil
}

// genesisTail is the end of a `genesis` history: in most histories one more
// withdraw address, then (in half of them) prep, and export validate jsonrt
// reimport. Without prep, validate is expected to fail unless every context
// happens to be paused with a completed batch.
func (g *gen) genesisTail() []string {
	var tail []string
	if g.pct(80) {
		g.refreshView()
		d, _ := g.opSetWD(false)
		tail = append(tail, d.line())
	}
	if g.pct(50) {
		tail = append(tail, "prep")
	}
	return append(tail, "export", "validate", "jsonrt", "reimport")
}
