package main

// C18: store keys and identifiers.
//
//	trace keys [file|-]                       `key fn=<GoFunction> <param>=<value> …` → hex of the key the REAL function returns
//	trace keygen -kind keys|ids -seed N -n K  generator of such lines (boundary values, related names and addresses)
//	trace keysearch                           failing-input search: collisions of real keys, inexact real prefix scans,
//	                                          id round trips; prints COLLISION / SCAN / ID findings, exit 1 if any
//
// Values: addresses and ids lower-case hex (`-` = empty), integers decimal, strings
// plain (`-` = empty, `0x<hex>` = arbitrary bytes).  The parameter labels are for the
// reader; values are taken by position.

import (
	"bufio"
	"bytes"
	"encoding/hex"
	"flag"
	"fmt"
	"io"
	"math"
	"math/rand"
	"os"
	"regexp"
	"sort"
	"strconv"
	"strings"

	tmproto "github.com/tendermint/tendermint/proto/tendermint/types"

	sdk "github.com/cosmos/cosmos-sdk/types"

	simapp "github.com/irismod/service/app"
	"github.com/irismod/service/types"
)

// ---------------------------------------------------------------------------
// the real functions, by name

type keyArgs struct {
	fn   string
	vals []string
	err  error
}

func (a *keyArgs) get(i int) string {
	if i >= len(a.vals) {
		if a.err == nil {
			a.err = fmt.Errorf("%s: argument %d missing", a.fn, i+1)
		}
		return "-"
	}
	return a.vals[i]
}

func (a *keyArgs) str(i int) string {
	v := a.get(i)
	if v == "-" {
		return ""
	}
	if strings.HasPrefix(v, "0x") {
		bz, err := hex.DecodeString(v[2:])
		if err != nil && a.err == nil {
			a.err = fmt.Errorf("%s: argument %d: bad 0x string", a.fn, i+1)
		}
		return string(bz)
	}
	return v
}

func (a *keyArgs) bz(i int) []byte {
	v := a.get(i)
	if v == "-" {
		return []byte{}
	}
	bz, err := hex.DecodeString(v)
	if (err != nil || v != strings.ToLower(v)) && a.err == nil {
		a.err = fmt.Errorf("%s: argument %d is not lower-case hex", a.fn, i+1)
	}
	return bz
}

func (a *keyArgs) addr(i int) sdk.AccAddress { return sdk.AccAddress(a.bz(i)) }

func (a *keyArgs) i64(i int) int64 {
	n, err := strconv.ParseInt(a.get(i), 10, 64)
	if err != nil && a.err == nil {
		a.err = fmt.Errorf("%s: argument %d is not an int64", a.fn, i+1)
	}
	return n
}

func (a *keyArgs) u64(i int) uint64 {
	n, err := strconv.ParseUint(a.get(i), 10, 64)
	if err != nil && a.err == nil {
		a.err = fmt.Errorf("%s: argument %d is not a uint64", a.fn, i+1)
	}
	return n
}

// keyFuncs lists every function and prefix variable of types/keys.go with its
// parameter kinds: s string, a address, b bytes, i int64, u uint64.
var keyFuncs = []struct {
	name  string
	kinds string
	call  func(a *keyArgs) []byte
}{
	{"GetServiceDefinitionKey", "s", func(a *keyArgs) []byte { return types.GetServiceDefinitionKey(a.str(0)) }},
	{"GetServiceBindingKey", "sa", func(a *keyArgs) []byte { return types.GetServiceBindingKey(a.str(0), a.addr(1)) }},
	{"GetOwnerServiceBindingKey", "asa", func(a *keyArgs) []byte {
		return types.GetOwnerServiceBindingKey(a.addr(0), a.str(1), a.addr(2))
	}},
	{"GetOwnerKey", "a", func(a *keyArgs) []byte { return types.GetOwnerKey(a.addr(0)) }},
	{"GetOwnerProviderKey", "aa", func(a *keyArgs) []byte { return types.GetOwnerProviderKey(a.addr(0), a.addr(1)) }},
	{"GetPricingKey", "sa", func(a *keyArgs) []byte { return types.GetPricingKey(a.str(0), a.addr(1)) }},
	{"GetWithdrawAddrKey", "a", func(a *keyArgs) []byte { return types.GetWithdrawAddrKey(a.addr(0)) }},
	{"GetBindingsSubspace", "s", func(a *keyArgs) []byte { return types.GetBindingsSubspace(a.str(0)) }},
	{"GetOwnerBindingsSubspace", "as", func(a *keyArgs) []byte { return types.GetOwnerBindingsSubspace(a.addr(0), a.str(1)) }},
	{"GetOwnerProvidersSubspace", "a", func(a *keyArgs) []byte { return types.GetOwnerProvidersSubspace(a.addr(0)) }},
	{"GetRequestContextKey", "b", func(a *keyArgs) []byte { return types.GetRequestContextKey(a.bz(0)) }},
	{"GetExpiredRequestBatchKey", "bi", func(a *keyArgs) []byte { return types.GetExpiredRequestBatchKey(a.bz(0), a.i64(1)) }},
	{"GetNewRequestBatchKey", "bi", func(a *keyArgs) []byte { return types.GetNewRequestBatchKey(a.bz(0), a.i64(1)) }},
	{"GetExpiredRequestBatchSubspace", "i", func(a *keyArgs) []byte { return types.GetExpiredRequestBatchSubspace(a.i64(0)) }},
	{"GetNewRequestBatchSubspace", "i", func(a *keyArgs) []byte { return types.GetNewRequestBatchSubspace(a.i64(0)) }},
	{"GetExpiredRequestBatchHeightKey", "b", func(a *keyArgs) []byte { return types.GetExpiredRequestBatchHeightKey(a.bz(0)) }},
	{"GetNewRequestBatchHeightKey", "b", func(a *keyArgs) []byte { return types.GetNewRequestBatchHeightKey(a.bz(0)) }},
	{"GetRequestKey", "b", func(a *keyArgs) []byte { return types.GetRequestKey(a.bz(0)) }},
	{"GetRequestSubspaceByReqCtx", "bu", func(a *keyArgs) []byte { return types.GetRequestSubspaceByReqCtx(a.bz(0), a.u64(1)) }},
	{"GetActiveRequestKey", "saib", func(a *keyArgs) []byte {
		return types.GetActiveRequestKey(a.str(0), a.addr(1), a.i64(2), a.bz(3))
	}},
	{"GetActiveRequestSubspace", "sa", func(a *keyArgs) []byte { return types.GetActiveRequestSubspace(a.str(0), a.addr(1)) }},
	{"GetActiveRequestKeyByID", "b", func(a *keyArgs) []byte { return types.GetActiveRequestKeyByID(a.bz(0)) }},
	{"GetActiveRequestSubspaceByReqCtx", "bu", func(a *keyArgs) []byte {
		return types.GetActiveRequestSubspaceByReqCtx(a.bz(0), a.u64(1))
	}},
	{"GetRequestVolumeKey", "asa", func(a *keyArgs) []byte { return types.GetRequestVolumeKey(a.addr(0), a.str(1), a.addr(2)) }},
	{"GetResponseKey", "b", func(a *keyArgs) []byte { return types.GetResponseKey(a.bz(0)) }},
	{"GetResponseSubspaceByReqCtx", "bu", func(a *keyArgs) []byte { return types.GetResponseSubspaceByReqCtx(a.bz(0), a.u64(1)) }},
	{"GetEarnedFeesKey", "as", func(a *keyArgs) []byte { return types.GetEarnedFeesKey(a.addr(0), a.str(1)) }},
	{"GetEarnedFeesSubspace", "a", func(a *keyArgs) []byte { return types.GetEarnedFeesSubspace(a.addr(0)) }},
	{"GetOwnerEarnedFeesKey", "as", func(a *keyArgs) []byte { return types.GetOwnerEarnedFeesKey(a.addr(0), a.str(1)) }},
	{"GetOwnerEarnedFeesSubspace", "a", func(a *keyArgs) []byte { return types.GetOwnerEarnedFeesSubspace(a.addr(0)) }},
	// prefix variables
	{"ServiceDefinitionKey", "", func(*keyArgs) []byte { return types.ServiceDefinitionKey }},
	{"ServiceBindingKey", "", func(*keyArgs) []byte { return types.ServiceBindingKey }},
	{"OwnerServiceBindingKey", "", func(*keyArgs) []byte { return types.OwnerServiceBindingKey }},
	{"OwnerKey", "", func(*keyArgs) []byte { return types.OwnerKey }},
	{"OwnerProviderKey", "", func(*keyArgs) []byte { return types.OwnerProviderKey }},
	{"PricingKey", "", func(*keyArgs) []byte { return types.PricingKey }},
	{"WithdrawAddrKey", "", func(*keyArgs) []byte { return types.WithdrawAddrKey }},
	{"RequestContextKey", "", func(*keyArgs) []byte { return types.RequestContextKey }},
	{"ExpiredRequestBatchKey", "", func(*keyArgs) []byte { return types.ExpiredRequestBatchKey }},
	{"NewRequestBatchKey", "", func(*keyArgs) []byte { return types.NewRequestBatchKey }},
	{"ExpiredRequestBatchHeightKey", "", func(*keyArgs) []byte { return types.ExpiredRequestBatchHeightKey }},
	{"NewRequestBatchHeightKey", "", func(*keyArgs) []byte { return types.NewRequestBatchHeightKey }},
	{"RequestKey", "", func(*keyArgs) []byte { return types.RequestKey }},
	{"ActiveRequestKey", "", func(*keyArgs) []byte { return types.ActiveRequestKey }},
	{"ActiveRequestByIDKey", "", func(*keyArgs) []byte { return types.ActiveRequestByIDKey }},
	{"ResponseKey", "", func(*keyArgs) []byte { return types.ResponseKey }},
	{"RequestVolumeKey", "", func(*keyArgs) []byte { return types.RequestVolumeKey }},
	{"EarnedFeesKey", "", func(*keyArgs) []byte { return types.EarnedFeesKey }},
	{"OwnerEarnedFeesKey", "", func(*keyArgs) []byte { return types.OwnerEarnedFeesKey }},
}

// keyAnswer computes the answer of one `key fn=… …` line.
func keyAnswer(line string) (string, error) {
	parts := strings.Split(line, " ")
	if len(parts) < 2 || parts[0] != "key" || !strings.HasPrefix(parts[1], "fn=") {
		return "", fmt.Errorf("not a `key fn=…` line: %q", line)
	}
	a := &keyArgs{fn: parts[1][3:]}
	for _, p := range parts[2:] {
		i := strings.IndexByte(p, '=')
		if i < 0 || p[i+1:] == "" {
			return "", fmt.Errorf("%s: %q is not <param>=<value> (use - for empty)", a.fn, p)
		}
		a.vals = append(a.vals, p[i+1:])
	}
	for _, f := range keyFuncs {
		if f.name == a.fn {
			if len(a.vals) != len(f.kinds) {
				return "", fmt.Errorf("%s: expected %d arguments, got %d", a.fn, len(f.kinds), len(a.vals))
			}
			out := f.call(a)
			return hexOrDash(out), a.err
		}
	}
	return "", fmt.Errorf("unknown function %q", a.fn)
}

func cmdKeys(path string) int {
	var in io.Reader = os.Stdin
	if path != "-" {
		f, err := os.Open(path)
		if err != nil {
			fmt.Fprintln(os.Stderr, "trace:", err)
			return 1
		}
		defer f.Close()
		in = f
	}
	out := bufio.NewWriter(os.Stdout)
	defer out.Flush()
	sc := bufio.NewScanner(in)
	sc.Buffer(make([]byte, 1<<20), 1<<24)
	for n := 1; sc.Scan(); n++ {
		line := strings.TrimRight(sc.Text(), "\r")
		if strings.TrimSpace(line) == "" || strings.HasPrefix(line, "#") {
			continue
		}
		ans, err := keyAnswer(line)
		if err != nil {
			out.Flush()
			fmt.Fprintf(os.Stderr, "trace: line %d: %v\n", n, err)
			return 2
		}
		fmt.Fprintln(out, ans)
	}
	if err := sc.Err(); err != nil {
		fmt.Fprintln(os.Stderr, "trace:", err)
		return 1
	}
	return 0
}

// ---------------------------------------------------------------------------
// formatting of values

var plainStr = regexp.MustCompile(`^[A-Za-z0-9_/-]+$`)

func fmtStr(s string) string {
	if s == "" {
		return "-"
	}
	if s != "-" && !strings.HasPrefix(s, "0x") && plainStr.MatchString(s) {
		return s
	}
	return "0x" + hex.EncodeToString([]byte(s))
}

func fmtBz(b []byte) string { return hexOrDash(b) }

// ---------------------------------------------------------------------------
// generator

type keyGen struct {
	r     *rand.Rand
	base  []byte // addresses that are prefixes of each other are prefixes of base
	base2 []byte
	stats map[string]int
}

func newKeyGen(seed int64) *keyGen {
	g := &keyGen{r: rand.New(rand.NewSource(seed)), stats: map[string]int{}}
	g.base = make([]byte, 64)
	g.base2 = make([]byte, 64)
	g.r.Read(g.base)
	g.r.Read(g.base2)
	return g
}

var (
	fixedNames  = []string{"a", "ab", "a-b", "a_b", "abc", "abcd", "A", "Ab", "b", "svc", "svc-1", "svc_1", "svc1", "s", "stake", "take"}
	fixedDenoms = []string{"stake", "take", "ake", "stak", "stakee", "iris", "atom", "s", "ibc/abc", "a"}
	i64Bounds   = []int64{0, 1, -1, math.MaxInt64, math.MinInt64, 255, 256, 65535, 65536, 1 << 32, -(1 << 32), math.MaxInt64 - 1, math.MinInt64 + 1}
	u64Bounds   = []uint64{0, 1, math.MaxUint64, 1 << 63, 1<<63 - 1, 255, 256, 65535, 65536, 1 << 32, math.MaxUint64 - 1}
	i16Bounds   = []int16{0, 1, -1, math.MaxInt16, math.MinInt16, 255, 256, -256, 127, 128}
)

const nameChars = "abcdefghijklmnopqrstuvwxyzABCDEFGHIJKLMNOPQRSTUVWXYZ0123456789-_"

func (g *keyGen) name() string {
	switch g.r.Intn(10) {
	case 0, 1, 2, 3:
		return fixedNames[g.r.Intn(len(fixedNames))]
	case 4: // a prefix or an extension of a fixed name
		n := fixedNames[g.r.Intn(len(fixedNames))]
		if g.r.Intn(2) == 0 {
			return n[:1+g.r.Intn(len(n))]
		}
		return n + string(nameChars[g.r.Intn(len(nameChars))])
	case 5: // maximal length
		b := make([]byte, 70)
		for i := range b {
			b[i] = nameChars[g.r.Intn(len(nameChars))]
		}
		b[0] = 'a'
		return string(b)
	case 6: // not a valid name: arbitrary bytes, 0x00 included (the key functions do not validate)
		b := make([]byte, g.r.Intn(6))
		g.r.Read(b)
		if len(b) > 0 && g.r.Intn(2) == 0 {
			b[g.r.Intn(len(b))] = 0
		}
		g.stats["name:arbitrary-bytes"]++
		return string(b)
	default:
		b := make([]byte, 1+g.r.Intn(12))
		for i := range b {
			b[i] = nameChars[g.r.Intn(len(nameChars))]
		}
		b[0] = nameChars[g.r.Intn(52)]
		return string(b)
	}
}

func (g *keyGen) denom() string {
	if g.r.Intn(4) > 0 {
		return fixedDenoms[g.r.Intn(len(fixedDenoms))]
	}
	b := make([]byte, 3+g.r.Intn(8))
	for i := range b {
		b[i] = nameChars[g.r.Intn(26)]
	}
	return string(b)
}

// addr returns an address of length 0..40: prefixes of a common base, addresses that
// end in the bytes of a denomination or a name or in 0x00, and random ones.
func (g *keyGen) addr() []byte {
	n := g.r.Intn(41)
	if g.r.Intn(3) == 0 {
		n = 20
	}
	var out []byte
	switch g.r.Intn(8) {
	case 0, 1, 2:
		out = append([]byte{}, g.base[:n]...)
	case 3:
		out = append([]byte{}, g.base2[:n]...)
	case 4: // a prefix of base followed by the bytes of a denom or a name (or a proper part)
		tail := fixedDenoms[g.r.Intn(len(fixedDenoms))]
		if g.r.Intn(2) == 0 {
			tail = fixedNames[g.r.Intn(len(fixedNames))]
		}
		tail = tail[:1+g.r.Intn(len(tail))]
		if n < len(tail) {
			n = len(tail)
		}
		out = append(append([]byte{}, g.base[:n-len(tail)]...), tail...)
	case 5: // ends in 0x00 / starts with 0x00 / all 0x00 / all 0xff
		out = append([]byte{}, g.base[:n]...)
		if n > 0 {
			switch g.r.Intn(4) {
			case 0:
				out[n-1] = 0
			case 1:
				out[0] = 0
			case 2:
				for i := range out {
					out[i] = 0
				}
			default:
				for i := range out {
					out[i] = 0xff
				}
			}
		}
	default:
		out = make([]byte, n)
		g.r.Read(out)
	}
	g.stats[fmt.Sprintf("addrlen:%02d", len(out))]++
	return out
}

func (g *keyGen) i64() int64 {
	if g.r.Intn(2) == 0 {
		g.stats["int:boundary"]++
		return i64Bounds[g.r.Intn(len(i64Bounds))]
	}
	g.stats["int:random"]++
	if g.r.Intn(2) == 0 {
		return int64(g.r.Intn(100000))
	}
	return int64(g.r.Uint64())
}

func (g *keyGen) u64() uint64 {
	if g.r.Intn(2) == 0 {
		g.stats["int:boundary"]++
		return u64Bounds[g.r.Intn(len(u64Bounds))]
	}
	g.stats["int:random"]++
	if g.r.Intn(2) == 0 {
		return uint64(g.r.Intn(100000))
	}
	return g.r.Uint64()
}

func (g *keyGen) i16() int16 {
	if g.r.Intn(2) == 0 {
		return i16Bounds[g.r.Intn(len(i16Bounds))]
	}
	return int16(g.r.Intn(1 << 16))
}

// idBytes returns a byte string of the wanted length (mostly), related to base.
func (g *keyGen) idBytes(want int) []byte {
	n := want
	if g.r.Intn(10) == 0 {
		n = []int{0, 1, want - 1, want + 1, want + 8, 2 * want}[g.r.Intn(6)]
		g.stats["id:odd-length"]++
	}
	out := make([]byte, n)
	switch g.r.Intn(3) {
	case 0:
		g.r.Read(out)
	case 1:
		copy(out, g.base)
		if n > 0 {
			out[n-1] ^= byte(g.r.Intn(4))
		}
	default:
		copy(out, g.base)
		// boundary patterns in the integer part
		for i := want - 18; i >= 0 && i < n; i++ {
			out[i] = []byte{0x00, 0xff, 0x7f, 0x80}[g.r.Intn(4)]
		}
	}
	return out
}

func (g *keyGen) keyLine() string {
	f := keyFuncs[g.r.Intn(len(keyFuncs))]
	if f.kinds == "" && g.r.Intn(4) > 0 { // fewer lines for the constants
		f = keyFuncs[g.r.Intn(30)]
	}
	g.stats["fn:"+f.name]++
	var sb strings.Builder
	sb.WriteString("key fn=" + f.name)
	for i, k := range f.kinds {
		var v string
		switch k {
		case 's':
			if strings.Contains(f.name, "EarnedFees") {
				v = fmtStr(g.denom())
			} else {
				v = fmtStr(g.name())
			}
		case 'a':
			v = fmtBz(g.addr())
		case 'b':
			if strings.Contains(f.name, "ByReqCtx") || strings.Contains(f.name, "Batch") || f.name == "GetRequestContextKey" {
				v = fmtBz(g.idBytes(40))
			} else {
				v = fmtBz(g.idBytes(58))
			}
		case 'i':
			v = strconv.FormatInt(g.i64(), 10)
		case 'u':
			v = strconv.FormatUint(g.u64(), 10)
		}
		fmt.Fprintf(&sb, " p%d=%s", i, v)
	}
	return sb.String()
}

func (g *keyGen) idLine() string {
	switch g.r.Intn(4) {
	case 0:
		g.stats["ids:ctxid"]++
		return fmt.Sprintf("ctxid tx=%s idx=%d", fmtBz(g.idBytes(32)), g.i64())
	case 1:
		g.stats["ids:splitctx"]++
		if g.r.Intn(2) == 0 {
			return "splitctx id=" + fmtBz(genCtx(g.idBytes(32), g.i64()))
		}
		return "splitctx id=" + fmtBz(g.idBytes(40))
	case 2:
		g.stats["ids:reqid"]++
		return fmt.Sprintf("reqid ctx=%s batch=%d height=%d index=%d", fmtBz(g.idBytes(40)), g.u64(), g.i64(), g.i16())
	default:
		g.stats["ids:splitreq"]++
		if g.r.Intn(2) == 0 {
			return "splitreq id=" + fmtBz(genReq(g.idBytes(40), g.u64(), g.i64(), g.i16()))
		}
		return "splitreq id=" + fmtBz(g.idBytes(58))
	}
}

func cmdKeygen(args []string) int {
	fs := flag.NewFlagSet("keygen", flag.ExitOnError)
	seed := fs.Int64("seed", 1, "PRNG seed")
	n := fs.Int("n", 1000, "number of lines")
	kind := fs.String("kind", "keys", "keys or ids")
	stats := fs.Bool("stats", false, "print the input distribution to stderr")
	_ = fs.Parse(args)
	if fs.NArg() != 0 || (*kind != "keys" && *kind != "ids") {
		usage()
	}
	g := newKeyGen(*seed)
	out := bufio.NewWriter(os.Stdout)
	defer out.Flush()
	for i := 0; i < *n; i++ {
		if *kind == "keys" {
			fmt.Fprintln(out, g.keyLine())
		} else {
			fmt.Fprintln(out, g.idLine())
		}
	}
	if *stats {
		var ks []string
		for k := range g.stats {
			ks = append(ks, k)
		}
		sort.Strings(ks)
		for _, k := range ks {
			fmt.Fprintf(os.Stderr, "%s %d\n", k, g.stats[k])
		}
	}
	return 0
}

// ---------------------------------------------------------------------------
// failing-input search

// rec is one record of the store: which key builder, and the values of its fields.
type rec struct {
	kind     string // name of the key builder
	name     string
	denom    string
	owner    []byte
	provider []byte
	consumer []byte
	ctx      []byte // request context id
	height   int64  // queue height / expiration height
	// request id and the tuple it was generated from
	reqID  []byte
	rBatch uint64
	rH     int64
	rIdx   int16
	inHyp  bool   // within the hypotheses of the theorems (20-byte owner/consumer, the one denomination)
	line   string // replay line
}

type finding struct {
	class  string // findings are counted and truncated per class
	head   string
	replay []string
}

type searchOut struct {
	inside, outside []finding
}

func (o *searchOut) add(in bool, class, head string, replay ...string) {
	f := finding{class, head, replay}
	if in {
		o.inside = append(o.inside, f)
	} else {
		o.outside = append(o.outside, f)
	}
}

func cat(parts ...[]byte) []byte {
	var out []byte
	for _, p := range parts {
		out = append(out, p...)
	}
	return out
}

// genCtx and genReq call the real generators on private copies of the inputs and copy the
// result: GenerateRequestContextID returns append(txHash, …), which shares the backing array
// of txHash whenever cap(txHash) > len(txHash).
func genCtx(hash []byte, idx int64) []byte {
	h := make([]byte, len(hash))
	copy(h, hash)
	return append([]byte{}, types.GenerateRequestContextID(h, idx)...)
}

func genReq(ctx []byte, batch uint64, height int64, index int16) []byte {
	return append([]byte{}, types.GenerateRequestID(ctx, batch, height, index)...)
}

func seqBytes(start byte, n int) []byte {
	out := make([]byte, n)
	for i := range out {
		out[i] = start + byte(i)
	}
	return out
}

// searchUniverse enumerates the structured sets of field values.
type universe struct {
	names               []string
	denoms              []string
	providers           [][]byte
	owners, consumers   [][]byte // 20 bytes first, then others
	ctxs                [][]byte
	heights             []int64
	batches             []uint64
	indexes             []int16
	reqs                []rec // generated request ids
	ownerOK, consumerOK map[string]bool
}

func newUniverse() *universe {
	u := &universe{ownerOK: map[string]bool{}, consumerOK: map[string]bool{}}
	u.names = []string{"a", "ab", "a-b", "a_b", "abc", "b"}
	u.denoms = []string{stakeDenom, "take", "ake", "stakes"}
	base := seqBytes(0x01, 24)
	seen := map[string]bool{}
	addP := func(b []byte) {
		if len(b) > 0 && !seen[string(b)] {
			seen[string(b)] = true
			u.providers = append(u.providers, b)
		}
	}
	for n := 1; n <= 22; n++ { // prefixes of each other
		addP(append([]byte{}, base[:n]...))
	}
	for _, n := range []int{1, 5, 19, 20} {
		p := base[:n]
		addP(cat(p, []byte("stake")))
		addP(cat(p, []byte("s")))
		addP(cat(p, []byte("st")))
		addP(cat(p, []byte{0x00}))
		addP(cat(p, []byte{0x00, 0x00}))
		addP(cat(p, []byte("a")))
		addP(cat(p, []byte("a"), []byte{0x00}))
		addP(cat(p, []byte("ab"), []byte{0x00}, base[:2]))
	}
	addP([]byte{0x00})
	addP([]byte("a"))
	addP([]byte("stake"))
	addP(seqBytes(0xa0, 20))

	o1 := seqBytes(0x01, 20)
	o2 := append(append([]byte{}, o1[:19]...), 0x61) // shares 19 bytes with o1, ends in 'a'
	o3 := seqBytes(0xb0, 20)
	o4 := append(append([]byte{}, o1[:19]...), 0x00)
	u.owners = [][]byte{o1, o2, o3, o4}
	for _, o := range u.owners {
		u.ownerOK[string(o)] = true
	}
	// outside E1: lengths 1, 19, 21, 22, prefixes of each other and of the 20-byte owners
	u.owners = append(u.owners, o1[:1], o1[:19], cat(o1, []byte{0x15}), cat(o1, []byte("a")), cat(o1[:19], []byte("a"), []byte("b")), []byte("a"))
	c1 := seqBytes(0x41, 20)
	c2 := seqBytes(0xc0, 20)
	u.consumers = [][]byte{c1, c2}
	for _, c := range u.consumers {
		u.consumerOK[string(c)] = true
	}
	u.consumers = append(u.consumers, c1[:19], cat(c1, []byte{0x55}))

	h1 := seqBytes(0x10, 32)
	h2 := append(append([]byte{}, h1[:31]...), 0xff)
	u.ctxs = [][]byte{genCtx(h1, 0), genCtx(h1, 1), genCtx(h1, math.MaxInt64), genCtx(h2, 0)}
	u.heights = []int64{0, 1, 2, 256, math.MaxInt64}
	u.batches = []uint64{0, 1, 2, 256, 1 << 63, math.MaxUint64}
	u.indexes = []int16{0, 1, 2, 255, 256, math.MaxInt16}
	for _, c := range u.ctxs[:3] {
		for _, b := range u.batches {
			for _, h := range u.heights[:4] {
				for _, i := range u.indexes[:4] {
					u.reqs = append(u.reqs, rec{ctx: c, rBatch: b, rH: h, rIdx: i, reqID: genReq(c, b, h, i)})
				}
			}
		}
	}
	return u
}

func (u *universe) records() []rec {
	var out []rec
	add := func(r rec, in bool, format string, args ...interface{}) {
		r.inHyp = in
		r.line = "key fn=" + r.kind + fmt.Sprintf(format, args...)
		out = append(out, r)
	}
	for _, n := range u.names {
		add(rec{kind: "GetServiceDefinitionKey", name: n}, true, " serviceName=%s", fmtStr(n))
		for _, p := range u.providers {
			add(rec{kind: "GetServiceBindingKey", name: n, provider: p}, true, " serviceName=%s provider=%x", fmtStr(n), p)
			add(rec{kind: "GetPricingKey", name: n, provider: p}, true, " serviceName=%s provider=%x", fmtStr(n), p)
			for _, o := range u.owners {
				add(rec{kind: "GetOwnerServiceBindingKey", owner: o, name: n, provider: p}, u.ownerOK[string(o)],
					" owner=%x serviceName=%s provider=%x", o, fmtStr(n), p)
			}
			for _, c := range u.consumers {
				add(rec{kind: "GetRequestVolumeKey", consumer: c, name: n, provider: p}, u.consumerOK[string(c)],
					" consumer=%x serviceName=%s provider=%x", c, fmtStr(n), p)
			}
		}
	}
	for _, p := range u.providers {
		add(rec{kind: "GetOwnerKey", provider: p}, true, " provider=%x", p)
		for _, o := range u.owners {
			add(rec{kind: "GetOwnerProviderKey", owner: o, provider: p}, u.ownerOK[string(o)], " owner=%x provider=%x", o, p)
		}
		for _, d := range u.denoms {
			add(rec{kind: "GetEarnedFeesKey", provider: p, denom: d}, d == stakeDenom, " provider=%x denom=%s", p, fmtStr(d))
		}
	}
	for _, o := range u.owners {
		// GetWithdrawAddrKey is called with the owner
		add(rec{kind: "GetWithdrawAddrKey", provider: o}, u.ownerOK[string(o)], " provider=%x", o)
		for _, d := range u.denoms {
			add(rec{kind: "GetOwnerEarnedFeesKey", owner: o, denom: d}, u.ownerOK[string(o)] && d == stakeDenom, " owner=%x denom=%s", o, fmtStr(d))
		}
	}
	for _, c := range u.ctxs {
		add(rec{kind: "GetRequestContextKey", ctx: c}, true, " requestContextID=%x", c)
		add(rec{kind: "GetExpiredRequestBatchHeightKey", ctx: c}, true, " requestContextID=%x", c)
		add(rec{kind: "GetNewRequestBatchHeightKey", ctx: c}, true, " requestContextID=%x", c)
		for _, h := range u.heights {
			add(rec{kind: "GetExpiredRequestBatchKey", ctx: c, height: h}, true, " requestContextID=%x batchExpirationHeight=%d", c, h)
			add(rec{kind: "GetNewRequestBatchKey", ctx: c, height: h}, true, " requestContextID=%x requestBatchHeight=%d", c, h)
		}
	}
	for _, q := range u.reqs {
		for _, k := range []string{"GetRequestKey", "GetActiveRequestKeyByID", "GetResponseKey"} {
			r := q
			r.kind = k
			add(r, true, " requestID=%x", q.reqID)
		}
	}
	// active requests: a thinner product
	for _, n := range u.names[:4] {
		for pi, p := range u.providers {
			if pi%3 != 0 && len(p) != 20 && len(p) != 19 && len(p) != 21 {
				continue
			}
			for _, h := range u.heights[:3] {
				for qi, q := range u.reqs {
					if qi%37 != 0 {
						continue
					}
					r := q
					r.kind, r.name, r.provider, r.height = "GetActiveRequestKey", n, p, h
					add(r, true, " serviceName=%s provider=%x expirationHeight=%d requestID=%x", fmtStr(n), p, h, q.reqID)
				}
			}
		}
	}
	return out
}

// realKey calls the real key builder for a record.
func realKey(r rec) []byte {
	switch r.kind {
	case "GetServiceDefinitionKey":
		return types.GetServiceDefinitionKey(r.name)
	case "GetServiceBindingKey":
		return types.GetServiceBindingKey(r.name, r.provider)
	case "GetOwnerServiceBindingKey":
		return types.GetOwnerServiceBindingKey(r.owner, r.name, r.provider)
	case "GetOwnerKey":
		return types.GetOwnerKey(r.provider)
	case "GetOwnerProviderKey":
		return types.GetOwnerProviderKey(r.owner, r.provider)
	case "GetPricingKey":
		return types.GetPricingKey(r.name, r.provider)
	case "GetWithdrawAddrKey":
		return types.GetWithdrawAddrKey(r.provider)
	case "GetRequestContextKey":
		return types.GetRequestContextKey(r.ctx)
	case "GetExpiredRequestBatchKey":
		return types.GetExpiredRequestBatchKey(r.ctx, r.height)
	case "GetNewRequestBatchKey":
		return types.GetNewRequestBatchKey(r.ctx, r.height)
	case "GetExpiredRequestBatchHeightKey":
		return types.GetExpiredRequestBatchHeightKey(r.ctx)
	case "GetNewRequestBatchHeightKey":
		return types.GetNewRequestBatchHeightKey(r.ctx)
	case "GetRequestKey":
		return types.GetRequestKey(r.reqID)
	case "GetActiveRequestKey":
		return types.GetActiveRequestKey(r.name, r.provider, r.height, r.reqID)
	case "GetActiveRequestKeyByID":
		return types.GetActiveRequestKeyByID(r.reqID)
	case "GetResponseKey":
		return types.GetResponseKey(r.reqID)
	case "GetRequestVolumeKey":
		return types.GetRequestVolumeKey(r.consumer, r.name, r.provider)
	case "GetEarnedFeesKey":
		return types.GetEarnedFeesKey(r.provider, r.denom)
	case "GetOwnerEarnedFeesKey":
		return types.GetOwnerEarnedFeesKey(r.owner, r.denom)
	}
	panic("realKey: " + r.kind)
}

// scanDef is one prefix scan of the keeper: the real prefix of a subject, the
// builder whose records it is meant to return, and the records that belong to it.
type scanDef struct {
	name     string
	keyKind  string
	subjects func(u *universe) []rec // subjects expressed as partial records
	prefix   func(s rec) []byte
	belongs  func(s, r rec) bool
	line     func(s rec) string
}

func wholeScan(varName, keyKind string, prefix []byte) scanDef {
	return scanDef{
		name: varName, keyKind: keyKind,
		subjects: func(*universe) []rec { return []rec{{inHyp: true}} },
		prefix:   func(rec) []byte { return prefix },
		belongs:  func(rec, rec) bool { return true },
		line:     func(rec) string { return "key fn=" + varName },
	}
}

func scanDefs() []scanDef {
	byCtxSubjects := func(u *universe) []rec {
		var out []rec
		for _, c := range u.ctxs {
			for _, b := range u.batches {
				out = append(out, rec{ctx: c, rBatch: b, inHyp: true})
			}
		}
		return out
	}
	byCtxBelongs := func(s, r rec) bool { return bytes.Equal(s.ctx, r.ctx) && s.rBatch == r.rBatch }
	byCtxLine := func(fn string) func(rec) string {
		return func(s rec) string {
			return fmt.Sprintf("key fn=%s requestContextID=%x batchCounter=%d", fn, s.ctx, s.rBatch)
		}
	}
	heightSubjects := func(u *universe) []rec {
		var out []rec
		for _, h := range u.heights {
			out = append(out, rec{height: h, inHyp: true})
		}
		return out
	}
	ownerSubjects := func(u *universe) []rec {
		var out []rec
		for _, o := range u.owners {
			out = append(out, rec{owner: o, inHyp: u.ownerOK[string(o)]})
		}
		return out
	}
	return []scanDef{
		{
			name: "GetOwnerBindingsSubspace", keyKind: "GetOwnerServiceBindingKey",
			subjects: func(u *universe) []rec {
				var out []rec
				for _, o := range u.owners {
					for _, n := range u.names {
						out = append(out, rec{owner: o, name: n, inHyp: u.ownerOK[string(o)]})
					}
				}
				return out
			},
			prefix:  func(s rec) []byte { return types.GetOwnerBindingsSubspace(s.owner, s.name) },
			belongs: func(s, r rec) bool { return bytes.Equal(s.owner, r.owner) && s.name == r.name },
			line: func(s rec) string {
				return fmt.Sprintf("key fn=GetOwnerBindingsSubspace owner=%x serviceName=%s", s.owner, fmtStr(s.name))
			},
		},
		{
			name: "GetOwnerProvidersSubspace", keyKind: "GetOwnerProviderKey",
			subjects: ownerSubjects,
			prefix:   func(s rec) []byte { return types.GetOwnerProvidersSubspace(s.owner) },
			belongs:  func(s, r rec) bool { return bytes.Equal(s.owner, r.owner) },
			line:     func(s rec) string { return fmt.Sprintf("key fn=GetOwnerProvidersSubspace owner=%x", s.owner) },
		},
		wholeScan("WithdrawAddrKey", "GetWithdrawAddrKey", types.WithdrawAddrKey),
		{
			name: "GetBindingsSubspace", keyKind: "GetServiceBindingKey",
			subjects: func(u *universe) []rec {
				var out []rec
				for _, n := range u.names {
					out = append(out, rec{name: n, inHyp: true})
				}
				return out
			},
			prefix:  func(s rec) []byte { return types.GetBindingsSubspace(s.name) },
			belongs: func(s, r rec) bool { return s.name == r.name },
			line:    func(s rec) string { return "key fn=GetBindingsSubspace serviceName=" + fmtStr(s.name) },
		},
		wholeScan("ServiceBindingKey", "GetServiceBindingKey", types.ServiceBindingKey),
		wholeScan("ServiceDefinitionKey", "GetServiceDefinitionKey", types.ServiceDefinitionKey),
		// GetEarnedFeesSubspace: through the real keeper, see earnedFeesSearch
		{
			name: "GetOwnerEarnedFeesSubspace", keyKind: "GetOwnerEarnedFeesKey",
			subjects: ownerSubjects,
			prefix:   func(s rec) []byte { return types.GetOwnerEarnedFeesSubspace(s.owner) },
			belongs:  func(s, r rec) bool { return bytes.Equal(s.owner, r.owner) },
			line:     func(s rec) string { return fmt.Sprintf("key fn=GetOwnerEarnedFeesSubspace owner=%x", s.owner) },
		},
		wholeScan("EarnedFeesKey", "GetEarnedFeesKey", types.EarnedFeesKey),
		wholeScan("RequestContextKey", "GetRequestContextKey", types.RequestContextKey),
		wholeScan("RequestKey", "GetRequestKey", types.RequestKey),
		{
			name: "GetRequestSubspaceByReqCtx", keyKind: "GetRequestKey", subjects: byCtxSubjects,
			prefix:  func(s rec) []byte { return types.GetRequestSubspaceByReqCtx(s.ctx, s.rBatch) },
			belongs: byCtxBelongs, line: byCtxLine("GetRequestSubspaceByReqCtx"),
		},
		{
			name: "GetExpiredRequestBatchSubspace", keyKind: "GetExpiredRequestBatchKey", subjects: heightSubjects,
			prefix:  func(s rec) []byte { return types.GetExpiredRequestBatchSubspace(s.height) },
			belongs: func(s, r rec) bool { return s.height == r.height },
			line: func(s rec) string {
				return fmt.Sprintf("key fn=GetExpiredRequestBatchSubspace batchExpirationHeight=%d", s.height)
			},
		},
		{
			name: "GetNewRequestBatchSubspace", keyKind: "GetNewRequestBatchKey", subjects: heightSubjects,
			prefix:  func(s rec) []byte { return types.GetNewRequestBatchSubspace(s.height) },
			belongs: func(s, r rec) bool { return s.height == r.height },
			line: func(s rec) string {
				return fmt.Sprintf("key fn=GetNewRequestBatchSubspace requestBatchHeight=%d", s.height)
			},
		},
		{
			name: "GetActiveRequestSubspace", keyKind: "GetActiveRequestKey",
			subjects: func(u *universe) []rec {
				var out []rec
				for _, n := range u.names {
					for _, p := range u.providers {
						out = append(out, rec{name: n, provider: p, inHyp: true})
					}
				}
				return out
			},
			prefix:  func(s rec) []byte { return types.GetActiveRequestSubspace(s.name, s.provider) },
			belongs: func(s, r rec) bool { return s.name == r.name && bytes.Equal(s.provider, r.provider) },
			line: func(s rec) string {
				return fmt.Sprintf("key fn=GetActiveRequestSubspace serviceName=%s provider=%x", fmtStr(s.name), s.provider)
			},
		},
		{
			name: "GetActiveRequestSubspaceByReqCtx", keyKind: "GetActiveRequestKeyByID", subjects: byCtxSubjects,
			prefix:  func(s rec) []byte { return types.GetActiveRequestSubspaceByReqCtx(s.ctx, s.rBatch) },
			belongs: byCtxBelongs, line: byCtxLine("GetActiveRequestSubspaceByReqCtx"),
		},
		wholeScan("ActiveRequestKey", "GetActiveRequestKey", types.ActiveRequestKey),
		wholeScan("ResponseKey", "GetResponseKey", types.ResponseKey),
		{
			name: "GetResponseSubspaceByReqCtx", keyKind: "GetResponseKey", subjects: byCtxSubjects,
			prefix:  func(s rec) []byte { return types.GetResponseSubspaceByReqCtx(s.ctx, s.rBatch) },
			belongs: byCtxBelongs, line: byCtxLine("GetResponseSubspaceByReqCtx"),
		},
	}
}

// earnedFeesSearch exercises the only filtered scan through the REAL keeper on a real
// store: every provider of the universe earns a distinct amount (SetEarnedFees), then
// GetEarnedFees(p) must return exactly p's own amount, and DeleteEarnedFees(p) must remove
// exactly p's record.
func earnedFeesSearch(u *universe, out *searchOut) {
	app := simapp.Setup(false)
	ctx := app.BaseApp.NewContext(false, tmproto.Header{Height: 1})
	k := app.ServiceKeeper
	amount := map[string]int64{}
	for i, p := range u.providers {
		amount[string(p)] = int64(1000 + i)
		k.SetEarnedFees(ctx, p, sdk.NewCoins(sdk.NewInt64Coin(stakeDenom, amount[string(p)])))
	}
	replay := func(p []byte) []string {
		lines := []string{fmt.Sprintf("key fn=GetEarnedFeesSubspace provider=%x", p)}
		lines = append(lines, fmt.Sprintf("key fn=GetEarnedFeesKey provider=%x denom=%s", p, stakeDenom))
		for _, q := range u.providers { // the first records of other providers under the same prefix
			if !bytes.Equal(p, q) && len(lines) < 4 && bytes.HasPrefix(types.GetEarnedFeesKey(q, stakeDenom), types.GetEarnedFeesSubspace(p)) {
				lines = append(lines, fmt.Sprintf("key fn=GetEarnedFeesKey provider=%x denom=%s", q, stakeDenom))
			}
		}
		return lines
	}
	for _, p := range u.providers {
		fees, _ := k.GetEarnedFees(ctx, p)
		want := sdk.NewCoins(sdk.NewInt64Coin(stakeDenom, amount[string(p)]))
		if !fees.IsEqual(want) {
			out.add(true, "SCAN GetEarnedFeesSubspace(keeper.GetEarnedFees)", fmt.Sprintf("SCAN keeper.GetEarnedFees(provider=%x) returned %s, the provider earned %s: records of other providers are returned by the scan of GetEarnedFeesSubspace", p, fees, want),
				replay(p)...)
		}
	}
	// deletion: on a branch of the store per provider
	for _, p := range u.providers {
		cctx, _ := ctx.CacheContext()
		k.DeleteEarnedFees(cctx, p)
		for _, q := range u.providers {
			fees, _ := k.GetEarnedFees(cctx, q)
			gone := fees.IsZero()
			if gone != bytes.Equal(p, q) {
				// use the raw store to tell a deleted record from a scan that does not see it
				has := cctx.KVStore(app.GetKey(types.StoreKey)).Has(types.GetEarnedFeesKey(q, stakeDenom))
				if has == bytes.Equal(p, q) {
					out.add(true, "SCAN GetEarnedFeesSubspace(keeper.DeleteEarnedFees)", fmt.Sprintf("SCAN keeper.DeleteEarnedFees(provider=%x): record of provider=%x present-after=%v", p, q, has), replay(p)...)
				}
			}
		}
	}
}

// idSearch checks the identifier functions on the universe: fixed length, round trip, injectivity.
func idSearch(u *universe, out *searchOut) {
	hashes := [][]byte{seqBytes(0x10, 32), append(seqBytes(0x10, 31), 0xff), make([]byte, 32), bytes.Repeat([]byte{0xff}, 32)}
	idxs := []int64{0, 1, 2, 255, 256, -1, math.MaxInt64, math.MinInt64, 1 << 32}
	seen := map[string]string{}
	var ctxs [][]byte
	for _, h := range hashes {
		for _, i := range idxs {
			line := fmt.Sprintf("ctxid tx=%x idx=%d", h, i)
			id := genCtx(h, i)
			if len(id) != types.ContextIDLen {
				out.add(true, "ID length ctx", fmt.Sprintf("ID length: GenerateRequestContextID gives %d bytes, ContextIDLen is %d", len(id), types.ContextIDLen), line)
			}
			h2, i2, err := types.SplitRequestContextID(id)
			if err != nil || !bytes.Equal(h2, h) || i2 != i {
				out.add(true, "ID roundtrip ctx", fmt.Sprintf("ID roundtrip: SplitRequestContextID(GenerateRequestContextID(%x, %d)) = (%x, %d, err=%v)", h, i, []byte(h2), i2, err),
					line, fmt.Sprintf("splitctx id=%s", fmtBz(id)))
			}
			if prev, dup := seen[string(id)]; dup {
				out.add(true, "COLLISION ctx id", fmt.Sprintf("COLLISION id=%x: two different (hash, index) give the same context id", []byte(id)), prev, line)
			}
			seen[string(id)] = line
			ctxs = append(ctxs, id)
		}
	}
	batches := []uint64{0, 1, 2, 256, 1 << 63, math.MaxUint64}
	heights := []int64{0, 1, 2, 256, -1, math.MaxInt64, math.MinInt64}
	indexes := []int16{0, 1, 2, 255, 256, -1, math.MaxInt16, math.MinInt16}
	seen = map[string]string{}
	for ci, c := range ctxs {
		if ci%5 != 0 || len(c) != 40 {
			continue
		}
		for _, b := range batches {
			for _, h := range heights {
				for _, i := range indexes {
					line := fmt.Sprintf("reqid ctx=%x batch=%d height=%d index=%d", c, b, h, i)
					id := genReq(c, b, h, i)
					if len(id) != types.RequestIDLen {
						out.add(true, "ID length req", fmt.Sprintf("ID length: GenerateRequestID gives %d bytes, RequestIDLen is %d", len(id), types.RequestIDLen), line)
					}
					c2, b2, h2, i2, err := types.SplitRequestID(id)
					if err != nil || !bytes.Equal(c2, c) || b2 != b || h2 != h || i2 != i {
						out.add(true, "ID roundtrip req", fmt.Sprintf("ID roundtrip: SplitRequestID(GenerateRequestID(ctx, %d, %d, %d)) = (%x, %d, %d, %d, err=%v)", b, h, i, []byte(c2), b2, h2, i2, err),
							line, fmt.Sprintf("splitreq id=%s", fmtBz(id)))
					}
					if prev, dup := seen[string(id)]; dup {
						out.add(true, "COLLISION req id", fmt.Sprintf("COLLISION id=%x: two different (context, batch, height, index) give the same request id", []byte(id)), prev, line)
					}
					seen[string(id)] = line
				}
			}
		}
	}
	// order: ids of one context sort by (batch, height, index) for non-negative heights and indexes
	type tup struct {
		b  uint64
		h  int64
		i  int16
		id []byte
	}
	var ts []tup
	c := ctxs[0]
	for _, b := range batches {
		for _, h := range []int64{0, 1, 256, math.MaxInt64} {
			for _, i := range []int16{0, 1, 255, 256, math.MaxInt16} {
				ts = append(ts, tup{b, h, i, genReq(c, b, h, i)})
			}
		}
	}
	for x := range ts {
		for y := range ts {
			a, b := ts[x], ts[y]
			tupleLess := a.b < b.b || (a.b == b.b && (a.h < b.h || (a.h == b.h && a.i < b.i)))
			if tupleLess != (bytes.Compare(a.id, b.id) < 0) {
				out.add(true, "ID order", fmt.Sprintf("ID order: byte order of request ids differs from (batch, height, index) order"),
					fmt.Sprintf("reqid ctx=%x batch=%d height=%d index=%d", c, a.b, a.h, a.i),
					fmt.Sprintf("reqid ctx=%x batch=%d height=%d index=%d", c, b.b, b.h, b.i))
			}
		}
	}
}

// searchIDLengths: ids have FIXED length - the splitters must refuse every other length
// (a longer byte string must not be decoded from its prefix, a request id must not pass as a context id).
func searchIDLengths(out *searchOut) {
	for n := 0; n <= 2*types.RequestIDLen; n++ {
		id := make([]byte, n)
		for i := range id {
			id[i] = byte(i + 1)
		}
		if n != types.ContextIDLen {
			if _, _, err := types.SplitRequestContextID(id); err == nil {
				out.add(true, "ID fixed length ctx", fmt.Sprintf("ID length: SplitRequestContextID accepts %d bytes, ContextIDLen is %d", n, types.ContextIDLen),
					fmt.Sprintf("splitctx id=%x", id))
			}
		}
		if n != types.RequestIDLen {
			if _, _, _, _, err := types.SplitRequestID(id); err == nil {
				out.add(true, "ID fixed length req", fmt.Sprintf("ID length: SplitRequestID accepts %d bytes, RequestIDLen is %d", n, types.RequestIDLen),
					fmt.Sprintf("splitreq id=%x", id))
			}
		}
	}
}

func cmdKeysearch(args []string) int {
	fs := flag.NewFlagSet("keysearch", flag.ExitOnError)
	maxPer := fs.Int("max", 5, "findings printed per class")
	_ = fs.Parse(args)
	u := newUniverse()
	recs := u.records()
	out := &searchOut{}

	// (i) two different records with the same key
	keys := make([][]byte, len(recs))
	byKey := map[string]int{}
	for i, r := range recs {
		keys[i] = realKey(r)
		if j, dup := byKey[string(keys[i])]; dup {
			out.add(r.inHyp && recs[j].inHyp, "COLLISION "+recs[j].kind+"/"+r.kind, fmt.Sprintf("COLLISION key=%x: %s and %s build the same key for different records", keys[i], recs[j].kind, r.kind),
				recs[j].line, r.line)
		} else {
			byKey[string(keys[i])] = i
		}
	}

	// (ii) prefix scans on the real prefixes
	for _, sd := range scanDefs() {
		for _, s := range sd.subjects(u) {
			prefix := sd.prefix(s)
			for i, r := range recs {
				got := bytes.HasPrefix(keys[i], prefix)
				want := r.kind == sd.keyKind && sd.belongs(s, r)
				if got == want {
					continue
				}
				what := "returns a record that does not belong to the subject"
				if want {
					what = "misses a record of the subject"
				}
				out.add(s.inHyp && r.inHyp, "SCAN "+sd.name+" "+what, fmt.Sprintf("SCAN %s %s (record built by %s)", sd.name, what, r.kind), sd.line(s), r.line)
			}
		}
	}
	earnedFeesSearch(u, out)
	idSearch(u, out)
	searchIDLengths(out)

	w := bufio.NewWriter(os.Stdout)
	defer w.Flush()
	printSome := func(tag string, fsx []finding) {
		count := map[string]int{}
		for _, f := range fsx {
			key := f.class
			count[key]++
			if count[key] > *maxPer {
				continue
			}
			fmt.Fprintf(w, "%s%s\n", tag, f.head)
			for _, l := range f.replay {
				fmt.Fprintf(w, "  REPLAY %s\n", l)
			}
		}
		var ks []string
		for k := range count {
			ks = append(ks, k)
		}
		sort.Strings(ks)
		for _, k := range ks {
			fmt.Fprintf(w, "%sCOUNT %s: %d\n", tag, k, count[k])
		}
	}
	printSome("", out.inside)
	printSome("OUTSIDE-HYPOTHESES ", out.outside)
	fmt.Fprintf(w, "DONE records=%d findings=%d outside-hypotheses=%d\n", len(recs), len(out.inside), len(out.outside))
	if len(out.inside) > 0 {
		return 1
	}
	return 0
}
