// Command factgen translates the key builders of types/keys.go, the identifier
// functions of types/invocation.go and the prefix-scan sites of keeper/*.go of the
// service module into Lean data (lean/ServiceModel/Keys/Generated.lean).
//
//	factgen -repo /repo -out /verif/lean/ServiceModel
//
// It works on syntax only (go/ast).  The source language it accepts is deliberately
// small; anything it does not recognise makes it exit with status 1 and a message, so
// that a change of the Go code it cannot account for is reported as a broken tie and
// never silently ignored.  The output file is rewritten only when its content changes.
package main

import (
	"bytes"
	"flag"
	"fmt"
	"go/ast"
	"go/parser"
	"go/printer"
	"go/token"
	"io/ioutil"
	"os"
	"path/filepath"
	"sort"
	"strconv"
	"strings"
)

// ---------------------------------------------------------------------------
// failure

type failure struct{ msg string }

func failf(fset *token.FileSet, pos token.Pos, format string, args ...interface{}) {
	where := ""
	if fset != nil && pos.IsValid() {
		where = fset.Position(pos).String() + ": "
	}
	panic(failure{where + fmt.Sprintf(format, args...)})
}

// ---------------------------------------------------------------------------
// the target language

// seg is one piece of a key: lit(byte) raw(field) bech(field) be(width, field)
type seg struct {
	kind  string // "lit" "raw" "bech" "be"
	b     byte   // lit
	w     int    // be
	field string // raw bech be
}

func (s seg) lean() string {
	switch s.kind {
	case "lit":
		return fmt.Sprintf(".lit 0x%02x", s.b)
	case "raw":
		return ".raw F." + s.field
	case "bech":
		return ".bech F." + s.field
	case "be":
		return fmt.Sprintf(".be %d F.%s", s.w, s.field)
	}
	panic("seg kind")
}

func leanSegs(ss []seg) string {
	parts := make([]string, len(ss))
	for i, s := range ss {
		parts[i] = s.lean()
	}
	return "[" + strings.Join(parts, ", ") + "]"
}

type param struct {
	name string
	ty   string // str addr bytes i64 u64 i16
}

type fn struct {
	name    string
	sig     string
	params  []param
	layout  []seg
	ignored []string
}

// ---------------------------------------------------------------------------
// helpers on syntax

func src(fset *token.FileSet, n ast.Node) string {
	var buf bytes.Buffer
	if err := printer.Fprint(&buf, fset, n); err != nil {
		return "<unprintable>"
	}
	return buf.String()
}

// typeName maps a parameter type to the small set of types the translator knows.
func typeName(fset *token.FileSet, e ast.Expr) string {
	switch src(fset, e) {
	case "string":
		return "str"
	case "sdk.AccAddress":
		return "addr"
	case "[]byte", "tmbytes.HexBytes":
		return "bytes"
	case "int64":
		return "i64"
	case "uint64":
		return "u64"
	case "int16":
		return "i16"
	}
	failf(fset, e.Pos(), "parameter type %s is not in the translator's language", src(fset, e))
	return ""
}

func paramsOf(fset *token.FileSet, fd *ast.FuncDecl) []param {
	var ps []param
	for _, f := range fd.Type.Params.List {
		ty := typeName(fset, f.Type)
		if len(f.Names) == 0 {
			failf(fset, f.Pos(), "unnamed parameter in %s", fd.Name.Name)
		}
		for _, n := range f.Names {
			ps = append(ps, param{n.Name, ty})
		}
	}
	return ps
}

func isIdent(e ast.Expr, name string) bool {
	id, ok := e.(*ast.Ident)
	return ok && id.Name == name
}

// selector "a.b" → ("a","b")
func selector(e ast.Expr) (string, string, bool) {
	se, ok := e.(*ast.SelectorExpr)
	if !ok {
		return "", "", false
	}
	x, ok := se.X.(*ast.Ident)
	if !ok {
		return "", "", false
	}
	return x.Name, se.Sel.Name, true
}

// ---------------------------------------------------------------------------
// keys.go

const wantGetStringsKey = `func getStringsKey(ss []string) (result []byte) {
	for _, s := range ss {
		result = append(append(result, []byte(s)...), EmptyByte...)
	}

	if len(result) > 0 {
		return result[0 : len(result)-1]
	}

	return
}`

type keysTranslator struct {
	fset     *token.FileSet
	prefixes map[string]byte // one-byte []byte variables, EmptyByte included
	order    []string        // prefix variables in source order (EmptyByte excluded)
}

// byteVar recognises `Name = []byte{0xNN}`.
func (t *keysTranslator) byteVar(vs *ast.ValueSpec) {
	if len(vs.Names) != 1 || len(vs.Values) != 1 {
		failf(t.fset, vs.Pos(), "variable declaration is not of the form Name = []byte{0xNN}")
	}
	cl, ok := vs.Values[0].(*ast.CompositeLit)
	if !ok || src(t.fset, cl.Type) != "[]byte" || len(cl.Elts) != 1 {
		failf(t.fset, vs.Pos(), "variable %s is not a one-byte []byte literal", vs.Names[0].Name)
	}
	lit, ok := cl.Elts[0].(*ast.BasicLit)
	if !ok || lit.Kind != token.INT {
		failf(t.fset, vs.Pos(), "variable %s: element is not an integer literal", vs.Names[0].Name)
	}
	v, err := strconv.ParseUint(lit.Value, 0, 8)
	if err != nil {
		failf(t.fset, vs.Pos(), "variable %s: %v", vs.Names[0].Name, err)
	}
	name := vs.Names[0].Name
	t.prefixes[name] = byte(v)
	if name != "EmptyByte" {
		t.order = append(t.order, name)
	}
}

type scope struct {
	fn     *ast.FuncDecl
	params map[string]string // name → type
	locals map[string][]seg
}

// str translates an expression of type string into pieces.
func (t *keysTranslator) str(sc *scope, e ast.Expr) []seg {
	switch x := e.(type) {
	case *ast.Ident:
		if sc.params[x.Name] == "str" {
			return []seg{{kind: "raw", field: x.Name}}
		}
	case *ast.CallExpr:
		// addr.String()
		if recv, sel, ok := selector(x.Fun); ok && sel == "String" && len(x.Args) == 0 && sc.params[recv] == "addr" {
			return []seg{{kind: "bech", field: recv}}
		}
	}
	failf(t.fset, e.Pos(), "%s: string expression %s is not in the translator's language", sc.fn.Name.Name, src(t.fset, e))
	return nil
}

// bytes translates an expression of type []byte into pieces.
func (t *keysTranslator) bytes(sc *scope, e ast.Expr) []seg {
	switch x := e.(type) {
	case *ast.ParenExpr:
		return t.bytes(sc, x.X)
	case *ast.Ident:
		if ss, ok := sc.locals[x.Name]; ok {
			return append([]seg{}, ss...)
		}
		if ty, ok := sc.params[x.Name]; ok {
			if ty == "bytes" || ty == "addr" {
				return []seg{{kind: "raw", field: x.Name}}
			}
			failf(t.fset, e.Pos(), "%s: parameter %s of type %s used as bytes", sc.fn.Name.Name, x.Name, ty)
		}
		if b, ok := t.prefixes[x.Name]; ok {
			return []seg{{kind: "lit", b: b}}
		}
	case *ast.CallExpr:
		// append(a, b...)
		if isIdent(x.Fun, "append") {
			if len(x.Args) != 2 || !x.Ellipsis.IsValid() {
				failf(t.fset, e.Pos(), "%s: only append(a, b...) is in the translator's language, got %s", sc.fn.Name.Name, src(t.fset, e))
			}
			return append(t.bytes(sc, x.Args[0]), t.bytes(sc, x.Args[1])...)
		}
		// []byte(s)
		if at, ok := x.Fun.(*ast.ArrayType); ok && at.Len == nil && isIdent(at.Elt, "byte") && len(x.Args) == 1 {
			return t.str(sc, x.Args[0])
		}
		// addr.Bytes()
		if recv, sel, ok := selector(x.Fun); ok && sel == "Bytes" && len(x.Args) == 0 && sc.params[recv] == "addr" {
			return []seg{{kind: "raw", field: recv}}
		}
		// sdk.Uint64ToBigEndian(uint64(p)) / sdk.Uint64ToBigEndian(p)
		if pkg, sel, ok := selector(x.Fun); ok && pkg == "sdk" && sel == "Uint64ToBigEndian" && len(x.Args) == 1 {
			return []seg{{kind: "be", w: 8, field: t.u64(sc, x.Args[0])}}
		}
		// getStringsKey([]string{a, b, ...}): joined with one 0x00, no trailing 0x00
		if isIdent(x.Fun, "getStringsKey") && len(x.Args) == 1 {
			cl, ok := x.Args[0].(*ast.CompositeLit)
			if !ok || src(t.fset, cl.Type) != "[]string" || len(cl.Elts) == 0 {
				failf(t.fset, e.Pos(), "%s: getStringsKey argument is not a non-empty []string literal", sc.fn.Name.Name)
			}
			var out []seg
			for i, el := range cl.Elts {
				if i > 0 {
					out = append(out, seg{kind: "lit", b: t.prefixes["EmptyByte"]})
				}
				out = append(out, t.str(sc, el)...)
			}
			return out
		}
	}
	failf(t.fset, e.Pos(), "%s: byte expression %s is not in the translator's language", sc.fn.Name.Name, src(t.fset, e))
	return nil
}

// u64 recognises `uint64(p)` for an int64 parameter and `p` for a uint64 parameter.
func (t *keysTranslator) u64(sc *scope, e ast.Expr) string {
	switch x := e.(type) {
	case *ast.Ident:
		if sc.params[x.Name] == "u64" {
			return x.Name
		}
	case *ast.CallExpr:
		if isIdent(x.Fun, "uint64") && len(x.Args) == 1 {
			if id, ok := x.Args[0].(*ast.Ident); ok && (sc.params[id.Name] == "i64" || sc.params[id.Name] == "u64") {
				return id.Name
			}
		}
	}
	failf(t.fset, e.Pos(), "%s: integer expression %s is not in the translator's language", sc.fn.Name.Name, src(t.fset, e))
	return ""
}

func (t *keysTranslator) function(fd *ast.FuncDecl) fn {
	if fd.Recv != nil {
		failf(t.fset, fd.Pos(), "method %s in keys.go", fd.Name.Name)
	}
	if fd.Type.Results == nil || len(fd.Type.Results.List) != 1 || src(t.fset, fd.Type.Results.List[0].Type) != "[]byte" ||
		len(fd.Type.Results.List[0].Names) != 0 {
		failf(t.fset, fd.Pos(), "%s does not return one unnamed []byte", fd.Name.Name)
	}
	ps := paramsOf(t.fset, fd)
	sc := &scope{fn: fd, params: map[string]string{}, locals: map[string][]seg{}}
	for _, p := range ps {
		if _, dup := sc.params[p.name]; dup {
			failf(t.fset, fd.Pos(), "%s: duplicate parameter %s", fd.Name.Name, p.name)
		}
		if _, clash := t.prefixes[p.name]; clash {
			failf(t.fset, fd.Pos(), "%s: parameter %s shadows a prefix variable", fd.Name.Name, p.name)
		}
		sc.params[p.name] = p.ty
	}
	var layout []seg
	returned := false
	for i, st := range fd.Body.List {
		switch s := st.(type) {
		case *ast.AssignStmt:
			if s.Tok != token.DEFINE || len(s.Lhs) != 1 || len(s.Rhs) != 1 {
				failf(t.fset, s.Pos(), "%s: only `x := expr` statements are in the translator's language", fd.Name.Name)
			}
			id, ok := s.Lhs[0].(*ast.Ident)
			if !ok {
				failf(t.fset, s.Pos(), "%s: assignment target is not a name", fd.Name.Name)
			}
			if _, clash := sc.params[id.Name]; clash {
				failf(t.fset, s.Pos(), "%s: local %s shadows a parameter", fd.Name.Name, id.Name)
			}
			if _, clash := sc.locals[id.Name]; clash {
				failf(t.fset, s.Pos(), "%s: local %s defined twice", fd.Name.Name, id.Name)
			}
			if _, clash := t.prefixes[id.Name]; clash {
				failf(t.fset, s.Pos(), "%s: local %s shadows a prefix variable", fd.Name.Name, id.Name)
			}
			sc.locals[id.Name] = t.bytes(sc, s.Rhs[0])
		case *ast.ReturnStmt:
			if i != len(fd.Body.List)-1 || len(s.Results) != 1 {
				failf(t.fset, s.Pos(), "%s: return is not the last statement with one result", fd.Name.Name)
			}
			layout = t.bytes(sc, s.Results[0])
			returned = true
		default:
			failf(t.fset, st.Pos(), "%s: statement %s is not in the translator's language", fd.Name.Name, src(t.fset, st))
		}
	}
	if !returned {
		failf(t.fset, fd.Pos(), "%s: no return statement", fd.Name.Name)
	}
	used := map[string]bool{}
	for _, s := range layout {
		used[s.field] = true
	}
	var ignored []string
	for _, p := range ps {
		if !used[p.name] {
			ignored = append(ignored, p.name)
		}
	}
	fd2 := *fd
	fd2.Body = nil
	fd2.Doc = nil
	return fn{name: fd.Name.Name, sig: src(t.fset, &fd2), params: ps, layout: layout, ignored: ignored}
}

func translateKeys(path string) (fns []fn, prefixes []string, prefixByte map[string]byte) {
	fset := token.NewFileSet()
	f, err := parser.ParseFile(fset, path, nil, parser.ParseComments)
	if err != nil {
		failf(nil, token.NoPos, "%v", err)
	}
	t := &keysTranslator{fset: fset, prefixes: map[string]byte{}}
	var funcs []*ast.FuncDecl
	for _, d := range f.Decls {
		switch x := d.(type) {
		case *ast.GenDecl:
			if x.Tok != token.VAR {
				continue // imports, string constants
			}
			for _, sp := range x.Specs {
				t.byteVar(sp.(*ast.ValueSpec))
			}
		case *ast.FuncDecl:
			if x.Name.Name == "getStringsKey" {
				x.Doc = nil
				if got := src(fset, x); got != wantGetStringsKey {
					failf(fset, x.Pos(), "getStringsKey changed; the translator treats it as `join with 0x00` and must be revisited:\n%s", got)
				}
				continue
			}
			funcs = append(funcs, x)
		}
	}
	if b, ok := t.prefixes["EmptyByte"]; !ok || b != 0 {
		failf(fset, f.Pos(), "EmptyByte is not []byte{0x00}")
	}
	for _, fd := range funcs {
		fns = append(fns, t.function(fd))
	}
	return fns, t.order, t.prefixes
}

// ---------------------------------------------------------------------------
// invocation.go: constants, Generate*ID, Split*ID

type part struct {
	kind string // bytes uint sint
	a, b int
}

type splitSpec struct {
	name   string
	lenC   string // name of the length constant
	parts  []part
	params []param
}

type idsResult struct {
	consts map[string]int
	gens   []fn
	splits []splitSpec
}

// tryIntConst evaluates an integer constant expression without failing.
func tryIntConst(consts map[string]int, e ast.Expr) (int, bool) {
	switch x := e.(type) {
	case *ast.BasicLit:
		if x.Kind == token.INT {
			if v, err := strconv.Atoi(x.Value); err == nil {
				return v, true
			}
		}
	case *ast.Ident:
		v, ok := consts[x.Name]
		return v, ok
	case *ast.ParenExpr:
		return tryIntConst(consts, x.X)
	case *ast.BinaryExpr:
		a, ok1 := tryIntConst(consts, x.X)
		b, ok2 := tryIntConst(consts, x.Y)
		if ok1 && ok2 {
			switch x.Op {
			case token.ADD:
				return a + b, true
			case token.SUB:
				return a - b, true
			case token.MUL:
				return a * b, true
			}
		}
	}
	return 0, false
}

func intConst(fset *token.FileSet, consts map[string]int, e ast.Expr) int {
	switch x := e.(type) {
	case *ast.BasicLit:
		if x.Kind == token.INT {
			v, err := strconv.Atoi(x.Value)
			if err == nil {
				return v
			}
		}
	case *ast.Ident:
		if v, ok := consts[x.Name]; ok {
			return v
		}
	case *ast.ParenExpr:
		return intConst(fset, consts, x.X)
	case *ast.BinaryExpr: // constant arithmetic over named constants (e.g. ContextIDLen = txHashLen + msgIndexLen)
		a, b := intConst(fset, consts, x.X), intConst(fset, consts, x.Y)
		switch x.Op {
		case token.ADD:
			return a + b
		case token.SUB:
			return a - b
		case token.MUL:
			return a * b
		}
	}
	failf(fset, e.Pos(), "integer constant expected, got %s", src(fset, e))
	return 0
}

// generator translates GenerateRequestContextID / GenerateRequestID:
//
//	v := make([]byte, N)                    buffer of N bytes
//	v := make([]byte, len(p)); copy(v, p)   copy of the byte parameter p
//	binary.BigEndian.PutUint64(v[off:], X)  X is a uint64 parameter or uint64(int64 parameter)
//	binary.BigEndian.PutUint16(v[off:], uint16(int16 parameter))
//	return append(A, B...)                  A, B parameters or buffers (buffers must be fully written)
func generator(fset *token.FileSet, consts map[string]int, fd *ast.FuncDecl) fn {
	name := fd.Name.Name
	ps := paramsOf(fset, fd)
	ptype := map[string]string{}
	for _, p := range ps {
		ptype[p.name] = p.ty
	}
	type slot struct {
		off int
		s   seg
	}
	type buffer struct {
		size   int
		slots  []slot
		copyOf string // pending or completed copy of a parameter
		copied bool
	}
	bufs := map[string]*buffer{}
	var layout []seg
	returned := false

	operand := func(e ast.Expr) []seg {
		id, ok := e.(*ast.Ident)
		if !ok {
			failf(fset, e.Pos(), "%s: operand %s of append is not a name", name, src(fset, e))
		}
		if ty, ok := ptype[id.Name]; ok {
			if ty != "bytes" {
				failf(fset, e.Pos(), "%s: parameter %s is not bytes", name, id.Name)
			}
			return []seg{{kind: "raw", field: id.Name}}
		}
		b, ok := bufs[id.Name]
		if !ok {
			failf(fset, e.Pos(), "%s: unknown name %s", name, id.Name)
		}
		if b.copyOf != "" {
			if !b.copied {
				failf(fset, e.Pos(), "%s: buffer %s was sized for %s but never filled by copy", name, id.Name, b.copyOf)
			}
			return []seg{{kind: "raw", field: b.copyOf}}
		}
		sort.Slice(b.slots, func(i, j int) bool { return b.slots[i].off < b.slots[j].off })
		pos := 0
		var out []seg
		for _, sl := range b.slots {
			if sl.off != pos {
				failf(fset, e.Pos(), "%s: buffer %s has a gap or an overlap at byte %d", name, id.Name, pos)
			}
			pos += sl.s.w
			out = append(out, sl.s)
		}
		if pos != b.size {
			failf(fset, e.Pos(), "%s: buffer %s has %d bytes but %d are written", name, id.Name, b.size, pos)
		}
		return out
	}

	for i, st := range fd.Body.List {
		switch s := st.(type) {
		case *ast.AssignStmt:
			if s.Tok != token.DEFINE || len(s.Lhs) != 1 || len(s.Rhs) != 1 {
				failf(fset, s.Pos(), "%s: statement %s is not in the translator's language", name, src(fset, s))
			}
			id, ok1 := s.Lhs[0].(*ast.Ident)
			call, ok2 := s.Rhs[0].(*ast.CallExpr)
			if !ok1 || !ok2 || !isIdent(call.Fun, "make") || len(call.Args) != 2 || src(fset, call.Args[0]) != "[]byte" {
				failf(fset, s.Pos(), "%s: statement %s is not `v := make([]byte, n)`", name, src(fset, s))
			}
			if _, dup := bufs[id.Name]; dup || ptype[id.Name] != "" {
				failf(fset, s.Pos(), "%s: name %s reused", name, id.Name)
			}
			if lc, ok := call.Args[1].(*ast.CallExpr); ok && isIdent(lc.Fun, "len") && len(lc.Args) == 1 {
				p, ok := lc.Args[0].(*ast.Ident)
				if !ok || ptype[p.Name] != "bytes" {
					failf(fset, s.Pos(), "%s: make([]byte, len(x)) with x not a byte parameter", name)
				}
				bufs[id.Name] = &buffer{copyOf: p.Name}
			} else {
				bufs[id.Name] = &buffer{size: intConst(fset, consts, call.Args[1])}
			}
		case *ast.ExprStmt:
			call, ok := s.X.(*ast.CallExpr)
			if !ok {
				failf(fset, s.Pos(), "%s: statement %s is not in the translator's language", name, src(fset, s))
			}
			if isIdent(call.Fun, "copy") && len(call.Args) == 2 {
				dst, ok1 := call.Args[0].(*ast.Ident)
				srcp, ok2 := call.Args[1].(*ast.Ident)
				if !ok1 || !ok2 || bufs[dst.Name] == nil || bufs[dst.Name].copyOf != srcp.Name || bufs[dst.Name].copied {
					failf(fset, s.Pos(), "%s: %s is not the copy that fills a buffer made with len of the same parameter", name, src(fset, s))
				}
				bufs[dst.Name].copied = true
				continue
			}
			fun := src(fset, call.Fun)
			if (fun != "binary.BigEndian.PutUint64" && fun != "binary.BigEndian.PutUint16") || len(call.Args) != 2 {
				failf(fset, s.Pos(), "%s: statement %s is not in the translator's language", name, src(fset, s))
			}
			w := 8
			castName, fromTy := "uint64", "i64"
			if fun == "binary.BigEndian.PutUint16" {
				w, castName, fromTy = 2, "uint16", "i16"
			}
			// destination v or v[off:]
			var bufName string
			off := 0
			switch d := call.Args[0].(type) {
			case *ast.Ident:
				bufName = d.Name
			case *ast.SliceExpr:
				id, ok := d.X.(*ast.Ident)
				if !ok || d.High != nil || d.Max != nil || d.Low == nil {
					failf(fset, s.Pos(), "%s: destination %s is not v[off:]", name, src(fset, d))
				}
				bufName = id.Name
				off = intConst(fset, consts, d.Low)
			default:
				failf(fset, s.Pos(), "%s: destination %s is not v or v[off:]", name, src(fset, call.Args[0]))
			}
			b := bufs[bufName]
			if b == nil || b.copyOf != "" {
				failf(fset, s.Pos(), "%s: %s is not a buffer made with a constant size", name, bufName)
			}
			// value
			var field string
			switch v := call.Args[1].(type) {
			case *ast.Ident:
				if w == 8 && ptype[v.Name] == "u64" {
					field = v.Name
				}
			case *ast.CallExpr:
				if isIdent(v.Fun, castName) && len(v.Args) == 1 {
					if id, ok := v.Args[0].(*ast.Ident); ok && ptype[id.Name] == fromTy {
						field = id.Name
					}
				}
			}
			if field == "" {
				failf(fset, s.Pos(), "%s: value %s is not a parameter of the matching width", name, src(fset, call.Args[1]))
			}
			if off+w > b.size {
				failf(fset, s.Pos(), "%s: write of %d bytes at %d exceeds buffer %s of %d bytes", name, w, off, bufName, b.size)
			}
			b.slots = append(b.slots, slot{off, seg{kind: "be", w: w, field: field}})
		case *ast.ReturnStmt:
			if i != len(fd.Body.List)-1 || len(s.Results) != 1 {
				failf(fset, s.Pos(), "%s: return is not the last statement with one result", name)
			}
			call, ok := s.Results[0].(*ast.CallExpr)
			if !ok || !isIdent(call.Fun, "append") || len(call.Args) != 2 || !call.Ellipsis.IsValid() {
				failf(fset, s.Pos(), "%s: result %s is not append(a, b...)", name, src(fset, s.Results[0]))
			}
			layout = append(operand(call.Args[0]), operand(call.Args[1])...)
			returned = true
		default:
			failf(fset, st.Pos(), "%s: statement %s is not in the translator's language", name, src(fset, st))
		}
	}
	if !returned {
		failf(fset, fd.Pos(), "%s: no return", name)
	}
	used := map[string]bool{}
	for _, s := range layout {
		if used[s.field] {
			failf(fset, fd.Pos(), "%s: parameter %s written twice", name, s.field)
		}
		used[s.field] = true
	}
	var ignored []string
	for _, p := range ps {
		if !used[p.name] {
			ignored = append(ignored, p.name)
		}
	}
	fd2 := *fd
	fd2.Body, fd2.Doc = nil, nil
	return fn{name: name, sig: src(fset, &fd2), params: ps, layout: layout, ignored: ignored}
}

// splitter translates SplitRequestContextID / SplitRequestID:
//
//	if len(p) != CONST { return ..., errors.New(...) }
//	x := p[a:b]
//	x := binary.BigEndian.Uint64(p[a:b])
//	x := int64(binary.BigEndian.Uint64(p[a:b]))
//	x := int16(binary.BigEndian.Uint16(p[a:]))
//	return x1, ..., xn, nil
func splitter(fset *token.FileSet, consts map[string]int, fd *ast.FuncDecl) splitSpec {
	name := fd.Name.Name
	ps := paramsOf(fset, fd)
	if len(ps) != 1 || ps[0].ty != "bytes" {
		failf(fset, fd.Pos(), "%s: expected one byte parameter", name)
	}
	p := ps[0].name
	sp := splitSpec{name: name, params: ps}
	total := -1
	vars := map[string]part{}
	slice := func(e ast.Expr) (int, int) {
		se, ok := e.(*ast.SliceExpr)
		if !ok || !isIdent(se.X, p) || se.Max != nil {
			failf(fset, e.Pos(), "%s: %s is not a slice of %s", name, src(fset, e), p)
		}
		a, b := 0, total
		if se.Low != nil {
			a = intConst(fset, consts, se.Low)
		}
		if se.High != nil {
			b = intConst(fset, consts, se.High)
		}
		if total < 0 || a < 0 || b > total || a > b {
			failf(fset, e.Pos(), "%s: slice %s outside the checked length", name, src(fset, e))
		}
		return a, b
	}
	returned := false
	for i, st := range fd.Body.List {
		switch s := st.(type) {
		case *ast.IfStmt:
			be, ok := s.Cond.(*ast.BinaryExpr)
			if !ok || s.Init != nil || s.Else != nil || be.Op != token.NEQ || src(fset, be.X) != "len("+p+")" || total >= 0 || i != 0 {
				failf(fset, s.Pos(), "%s: first statement is not `if len(%s) != CONST`", name, p)
			}
			id, ok := be.Y.(*ast.Ident)
			if !ok {
				failf(fset, s.Pos(), "%s: length is not compared with a named constant", name)
			}
			sp.lenC = id.Name
			total = intConst(fset, consts, be.Y)
			if len(s.Body.List) != 1 {
				failf(fset, s.Pos(), "%s: length guard does not just return", name)
			}
			rs, ok := s.Body.List[0].(*ast.ReturnStmt)
			if !ok || len(rs.Results) == 0 || !strings.HasPrefix(src(fset, rs.Results[len(rs.Results)-1]), "errors.New(") {
				failf(fset, s.Pos(), "%s: length guard does not return an error", name)
			}
		case *ast.AssignStmt:
			if s.Tok != token.DEFINE || len(s.Lhs) != 1 || len(s.Rhs) != 1 {
				failf(fset, s.Pos(), "%s: statement %s is not in the translator's language", name, src(fset, s))
			}
			id, ok := s.Lhs[0].(*ast.Ident)
			if !ok {
				failf(fset, s.Pos(), "%s: assignment target is not a name", name)
			}
			if _, dup := vars[id.Name]; dup {
				failf(fset, s.Pos(), "%s: %s defined twice", name, id.Name)
			}
			rhs := s.Rhs[0]
			signed := false
			var castW int
			if c, ok := rhs.(*ast.CallExpr); ok && len(c.Args) == 1 && (isIdent(c.Fun, "int64") || isIdent(c.Fun, "int16")) {
				signed = true
				castW = 8
				if isIdent(c.Fun, "int16") {
					castW = 2
				}
				rhs = c.Args[0]
			}
			if c, ok := rhs.(*ast.CallExpr); ok {
				fun := src(fset, c.Fun)
				w := 0
				switch fun {
				case "binary.BigEndian.Uint64":
					w = 8
				case "binary.BigEndian.Uint16":
					w = 2
				}
				if w == 0 || len(c.Args) != 1 || (signed && castW != w) {
					failf(fset, s.Pos(), "%s: %s is not in the translator's language", name, src(fset, s))
				}
				a, b := slice(c.Args[0])
				if b-a != w {
					failf(fset, s.Pos(), "%s: %s reads %d bytes from a slice of %d", name, fun, w, b-a)
				}
				k := "uint"
				if signed {
					k = "sint"
				}
				vars[id.Name] = part{k, a, b}
			} else {
				if signed {
					failf(fset, s.Pos(), "%s: %s is not in the translator's language", name, src(fset, s))
				}
				a, b := slice(rhs)
				vars[id.Name] = part{"bytes", a, b}
			}
		case *ast.ReturnStmt:
			if i != len(fd.Body.List)-1 || len(s.Results) < 2 || !isIdent(s.Results[len(s.Results)-1], "nil") {
				failf(fset, s.Pos(), "%s: final return is not `return x1, ..., xn, nil`", name)
			}
			for _, r := range s.Results[:len(s.Results)-1] {
				id, ok := r.(*ast.Ident)
				if !ok {
					failf(fset, r.Pos(), "%s: result %s is not a name", name, src(fset, r))
				}
				pt, ok := vars[id.Name]
				if !ok {
					failf(fset, r.Pos(), "%s: result %s is not a decoded part", name, id.Name)
				}
				sp.parts = append(sp.parts, pt)
			}
			returned = true
		default:
			failf(fset, st.Pos(), "%s: statement %s is not in the translator's language", name, src(fset, st))
		}
	}
	if !returned || total < 0 {
		failf(fset, fd.Pos(), "%s: no length guard or no return", name)
	}
	return sp
}

func translateIDs(path string) idsResult {
	fset := token.NewFileSet()
	f, err := parser.ParseFile(fset, path, nil, 0)
	if err != nil {
		failf(nil, token.NoPos, "%v", err)
	}
	res := idsResult{consts: map[string]int{}}
	for _, d := range f.Decls {
		gd, ok := d.(*ast.GenDecl)
		if !ok || gd.Tok != token.CONST {
			continue
		}
		for _, sp := range gd.Specs {
			vs := sp.(*ast.ValueSpec)
			for i, n := range vs.Names {
				if i >= len(vs.Values) {
					if n.Name == "RequestIDLen" || n.Name == "ContextIDLen" {
						failf(fset, vs.Pos(), "constant %s has no literal value", n.Name)
					}
					continue
				}
				// every integer constant of the file, in declaration order, may be used by later ones and by the
				// id functions (named offsets); non-integer constants are skipped
				if v, ok := tryIntConst(res.consts, vs.Values[i]); ok {
					res.consts[n.Name] = v
				} else if n.Name == "RequestIDLen" || n.Name == "ContextIDLen" {
					res.consts[n.Name] = intConst(fset, res.consts, vs.Values[i])
				}
			}
		}
	}
	for _, c := range []string{"RequestIDLen", "ContextIDLen"} {
		if _, ok := res.consts[c]; !ok {
			failf(fset, f.Pos(), "constant %s not found", c)
		}
	}
	found := map[string]bool{}
	for _, d := range f.Decls {
		fd, ok := d.(*ast.FuncDecl)
		if !ok || fd.Recv != nil {
			continue
		}
		switch fd.Name.Name {
		case "GenerateRequestContextID", "GenerateRequestID":
			res.gens = append(res.gens, generator(fset, res.consts, fd))
			found[fd.Name.Name] = true
		case "SplitRequestContextID", "SplitRequestID":
			res.splits = append(res.splits, splitter(fset, res.consts, fd))
			found[fd.Name.Name] = true
		}
	}
	for _, n := range []string{"GenerateRequestContextID", "GenerateRequestID", "SplitRequestContextID", "SplitRequestID"} {
		if !found[n] {
			failf(fset, f.Pos(), "function %s not found", n)
		}
	}
	return res
}

// ---------------------------------------------------------------------------
// keeper/*.go: prefix scans

type scanSite struct {
	file, fn string
	line     int
	sub      string // name of the subspace function or prefix variable
	filtered bool   // the loop keeps a record only if key[len(prefix):] equals the stored coin's denom
}

// prefixExpr resolves the second argument of KVStorePrefixIterator to the name of a
// subspace function or a prefix variable of package types.
func prefixExpr(fset *token.FileSet, fd *ast.FuncDecl, e ast.Expr, known map[string]bool) (name string, local string) {
	switch x := e.(type) {
	case *ast.Ident:
		// local variable: find its single definition in the function
		var def ast.Expr
		n := 0
		ast.Inspect(fd.Body, func(nd ast.Node) bool {
			if as, ok := nd.(*ast.AssignStmt); ok {
				for i, l := range as.Lhs {
					if isIdent(l, x.Name) && len(as.Lhs) == len(as.Rhs) {
						def = as.Rhs[i]
						n++
					}
				}
			}
			return true
		})
		if n != 1 {
			failf(fset, e.Pos(), "%s: scan prefix %s is not a local variable with one definition", fd.Name.Name, x.Name)
		}
		nm, _ := prefixExpr(fset, fd, def, known)
		return nm, x.Name
	case *ast.SelectorExpr:
		if pkg, sel, ok := selector(x); ok && pkg == "types" && known[sel] {
			return sel, ""
		}
	case *ast.CallExpr:
		if pkg, sel, ok := selector(x.Fun); ok && pkg == "types" && known[sel] {
			return sel, ""
		}
	}
	failf(fset, e.Pos(), "%s: scan prefix %s is not a prefix variable or a subspace function of package types", fd.Name.Name, src(fset, e))
	return "", ""
}

// hasDenomFilter reports whether the function contains, inside a for loop,
//
//	if string(<it>.Key()[len(<prefix>):]) != <x>.Denom { continue }
func hasDenomFilter(fset *token.FileSet, fd *ast.FuncDecl, it, prefix string) bool {
	found := false
	ast.Inspect(fd.Body, func(nd ast.Node) bool {
		loop, ok := nd.(*ast.ForStmt)
		if !ok {
			return true
		}
		for _, st := range loop.Body.List {
			is, ok := st.(*ast.IfStmt)
			if !ok || is.Init != nil || is.Else != nil || len(is.Body.List) != 1 {
				continue
			}
			br, ok := is.Body.List[0].(*ast.BranchStmt)
			if !ok || br.Tok != token.CONTINUE || br.Label != nil {
				continue
			}
			be, ok := is.Cond.(*ast.BinaryExpr)
			if !ok || be.Op != token.NEQ {
				continue
			}
			if src(fset, be.X) != fmt.Sprintf("string(%s.Key()[len(%s):])", it, prefix) {
				continue
			}
			if _, sel, ok := selector(be.Y); ok && sel == "Denom" {
				found = true
			}
		}
		return true
	})
	return found
}

func scanSites(dir string, known map[string]bool) []scanSite {
	files, err := filepath.Glob(filepath.Join(dir, "*.go"))
	if err != nil || len(files) == 0 {
		failf(nil, token.NoPos, "no Go files in %s", dir)
	}
	sort.Strings(files)
	var out []scanSite
	for _, path := range files {
		if strings.HasSuffix(path, "_test.go") {
			continue
		}
		fset := token.NewFileSet()
		f, err := parser.ParseFile(fset, path, nil, 0)
		if err != nil {
			failf(nil, token.NoPos, "%v", err)
		}
		for _, d := range f.Decls {
			fd, ok := d.(*ast.FuncDecl)
			if !ok || fd.Body == nil {
				continue
			}
			// the variable an iterator is assigned to, for the filter pattern
			itVar := map[*ast.CallExpr]string{}
			ast.Inspect(fd.Body, func(nd ast.Node) bool {
				if as, ok := nd.(*ast.AssignStmt); ok && len(as.Lhs) == 1 && len(as.Rhs) == 1 {
					if c, ok := as.Rhs[0].(*ast.CallExpr); ok {
						if id, ok := as.Lhs[0].(*ast.Ident); ok {
							itVar[c] = id.Name
						}
					}
				}
				return true
			})
			ast.Inspect(fd.Body, func(nd ast.Node) bool {
				c, ok := nd.(*ast.CallExpr)
				if !ok {
					return true
				}
				_, sel, isSel := selector(c.Fun)
				if !isSel {
					return true
				}
				switch sel {
				case "KVStorePrefixIterator":
					if len(c.Args) != 2 {
						failf(fset, c.Pos(), "%s: KVStorePrefixIterator with %d arguments", fd.Name.Name, len(c.Args))
					}
					name, local := prefixExpr(fset, fd, c.Args[1], known)
					site := scanSite{file: "keeper/" + filepath.Base(path), fn: fd.Name.Name, line: fset.Position(c.Pos()).Line, sub: name}
					if it, ok := itVar[c]; ok && local != "" {
						site.filtered = hasDenomFilter(fset, fd, it, local)
					}
					out = append(out, site)
				case "KVStoreReversePrefixIterator", "Iterator", "ReverseIterator":
					// range scans are outside the language of the scan table
					if sel == "Iterator" || sel == "ReverseIterator" {
						if len(c.Args) != 2 {
							return true // not a store iterator
						}
					}
					failf(fset, c.Pos(), "%s: scan %s is not a KVStorePrefixIterator; the scan table does not cover it", fd.Name.Name, src(fset, c))
				}
				return true
			})
		}
	}
	return out
}

// ---------------------------------------------------------------------------
// output

func emit(fns []fn, prefixOrder []string, prefixByte map[string]byte, ids idsResult, sites []scanSite) string {
	var w strings.Builder
	p := func(format string, args ...interface{}) { fmt.Fprintf(&w, format, args...) }

	// fields: one number per parameter name; the Go type must be the same everywhere
	ftype := map[string]string{}
	var all []fn
	all = append(all, fns...)
	all = append(all, ids.gens...)
	for _, f := range all {
		for _, pa := range f.params {
			if old, ok := ftype[pa.name]; ok && old != pa.ty {
				failf(nil, token.NoPos, "parameter name %s has type %s in %s and %s elsewhere; fields are identified by name", pa.name, pa.ty, f.name, old)
			}
			ftype[pa.name] = pa.ty
		}
	}
	for _, s := range ids.splits {
		for _, pa := range s.params {
			if old, ok := ftype[pa.name]; ok && old != pa.ty {
				failf(nil, token.NoPos, "parameter name %s has type %s in %s and %s elsewhere", pa.name, pa.ty, s.name, old)
			}
			ftype[pa.name] = pa.ty
		}
	}
	var names []string
	for n := range ftype {
		names = append(names, n)
	}
	sort.Strings(names)

	p("-- GENERATED by harness/cmd/factgen from types/keys.go, types/invocation.go and keeper/*.go.\n")
	p("-- DO NOT EDIT: the file is rewritten on every run of the check pipeline.\n")
	p("import ServiceModel.Keys.Layout\n")
	p("namespace SM.Keys.Generated\nopen SM.Keys\n\n")
	p("/-! ## fields: one number per Go parameter name -/\nnamespace F\n")
	for i, n := range names {
		p("abbrev %s : Nat := %d\n", n, i)
	}
	p("end F\n\n")
	p("/-- name, number and Go type of every field -/\ndef fields : List (String × Nat × GoTy) := [\n")
	for i, n := range names {
		sep := ","
		if i == len(names)-1 {
			sep = ""
		}
		p("  (%q, F.%s, .%s)%s\n", n, n, ftype[n], sep)
	}
	p("]\n\n")

	p("/-! ## prefix bytes (types/keys.go `var` block) -/\n")
	for _, n := range prefixOrder {
		p("def %s : List Seg := [.lit 0x%02x]\n", n, prefixByte[n])
	}
	p("\ndef prefixes : List (String × List Seg) := [\n")
	for i, n := range prefixOrder {
		sep := ","
		if i == len(prefixOrder)-1 {
			sep = ""
		}
		p("  (%q, %s)%s\n", n, n, sep)
	}
	p("]\n\n")

	fnRecord := func(f fn) string {
		ps := make([]string, len(f.params))
		for i, pa := range f.params {
			ps[i] = "F." + pa.name
		}
		ig := make([]string, len(f.ignored))
		for i, n := range f.ignored {
			ig[i] = "F." + n
		}
		return fmt.Sprintf("{ name := %q, params := [%s], ignored := [%s], layout := %s }", f.name, strings.Join(ps, ", "), strings.Join(ig, ", "), f.name)
	}

	p("/-! ## key builders and subspace functions (types/keys.go) -/\n")
	var builders, subspaces []fn
	for _, f := range fns {
		p("/-- `%s`", f.sig)
		if len(f.ignored) > 0 {
			p("; ignores %s", strings.Join(f.ignored, ", "))
		}
		p(" -/\n")
		p("def %s : List Seg := %s\n", f.name, leanSegs(f.layout))
		if strings.Contains(f.name, "Subspace") {
			subspaces = append(subspaces, f)
		} else {
			builders = append(builders, f)
		}
	}
	p("\n/-- the functions that build the key of a record -/\ndef keyBuilders : List Fn := [\n")
	for i, f := range builders {
		sep := ","
		if i == len(builders)-1 {
			sep = ""
		}
		p("  %s%s\n", fnRecord(f), sep)
	}
	p("]\n\n/-- the functions that build the prefix of a scan -/\ndef subspaces : List Fn := [\n")
	for i, f := range subspaces {
		sep := ","
		if i == len(subspaces)-1 {
			sep = ""
		}
		p("  %s%s\n", fnRecord(f), sep)
	}
	p("]\n\n")

	p("/-! ## identifiers (types/invocation.go) -/\n")
	p("def ContextIDLen : Nat := %d\n", ids.consts["ContextIDLen"])
	p("def RequestIDLen : Nat := %d\n", ids.consts["RequestIDLen"])
	for _, f := range ids.gens {
		p("/-- `%s` -/\n", f.sig)
		p("def %s : List Seg := %s\n", f.name, leanSegs(f.layout))
	}
	for _, s := range ids.splits {
		parts := make([]string, len(s.parts))
		for i, pt := range s.parts {
			parts[i] = fmt.Sprintf(".%s %d %d", pt.kind, pt.a, pt.b)
		}
		p("/-- `%s`: length guard `%s`, then the slices returned in order -/\n", s.name, s.lenC)
		p("def %s : SplitSpec := { len := %s, parts := [%s] }\n", s.name, s.lenC, strings.Join(parts, ", "))
	}
	p("\ndef idFunctions : List Fn := [\n")
	for i, f := range ids.gens {
		sep := ","
		if i == len(ids.gens)-1 {
			sep = ""
		}
		p("  %s%s\n", fnRecord(f), sep)
	}
	p("]\n\n")

	p("/-! ## every `sdk.KVStorePrefixIterator` call of keeper/*.go -/\n")
	p("def scanSites : List ScanSite := [\n")
	for i, s := range sites {
		sep := ","
		if i == len(sites)-1 {
			sep = ""
		}
		p("  { site := \"%s:%s\", subName := %q, sub := %s, filtered := %v }%s\n", s.file, s.fn, s.sub, s.sub, s.filtered, sep)
	}
	p("]\n\nend SM.Keys.Generated\n")
	return w.String()
}

func run(repo, out string) {
	fns, prefixOrder, prefixByte := translateKeys(filepath.Join(repo, "types", "keys.go"))
	ids := translateIDs(filepath.Join(repo, "types", "invocation.go"))
	known := map[string]bool{}
	for _, n := range prefixOrder {
		known[n] = true
	}
	for _, f := range fns {
		if strings.Contains(f.name, "Subspace") {
			known[f.name] = true
		}
	}
	sites := scanSites(filepath.Join(repo, "keeper"), known)
	text := emit(fns, prefixOrder, prefixByte, ids, sites)

	dir := filepath.Join(out, "Keys")
	if err := os.MkdirAll(dir, 0o755); err != nil {
		failf(nil, token.NoPos, "%v", err)
	}
	path := filepath.Join(dir, "Generated.lean")
	if old, err := ioutil.ReadFile(path); err == nil && string(old) == text {
		fmt.Printf("factgen: %s unchanged (%d functions, %d scan sites)\n", path, len(fns)+len(ids.gens)+len(ids.splits), len(sites))
		return
	}
	if err := ioutil.WriteFile(path, []byte(text), 0o644); err != nil {
		failf(nil, token.NoPos, "%v", err)
	}
	fmt.Printf("factgen: wrote %s (%d functions, %d scan sites)\n", path, len(fns)+len(ids.gens)+len(ids.splits), len(sites))
}

func main() {
	repo := flag.String("repo", "/repo", "root of the service module")
	out := flag.String("out", "/verif/lean/ServiceModel", "directory that contains Keys/")
	flag.Parse()
	defer func() {
		if r := recover(); r != nil {
			if f, ok := r.(failure); ok {
				fmt.Fprintln(os.Stderr, "factgen: UNTRANSLATABLE:", f.msg)
				os.Exit(1)
			}
			panic(r)
		}
	}()
	run(*repo, *out)
}
