module verif/harness

go 1.14

require (
	github.com/cosmos/cosmos-sdk v0.34.4-0.20200914022129-c26ef79ed0a2
	github.com/gogo/protobuf v1.3.1
	github.com/irismod/service v0.0.0
	github.com/tendermint/tendermint v0.34.0-rc3.0.20200907055413-3359e0bf2f84
	google.golang.org/grpc v1.32.0
)

replace (
	github.com/gogo/protobuf => github.com/regen-network/protobuf v1.3.2-alpha.regen.4
	github.com/irismod/service => /repo
	github.com/keybase/go-keychain => github.com/99designs/go-keychain v0.0.0-20191008050251-8e49817e8af4
)
