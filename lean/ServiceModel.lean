import ServiceModel.Basic.Map
import ServiceModel.Model.Step
