import ServiceModel.Basic.Map
import ServiceModel.Model.Step
import ServiceModel.Driver.Wire
import ServiceModel.Inv.Defs
import ServiceModel.Inv.Monitors
import ServiceModel.Proofs.BWorld
import ServiceModel.Proofs.XNewBatch
