import ServiceModel.Keys.IdDefs
import ServiceModel.Keys.Generated
import ServiceModel.Keys.Bech32
/-!
# `driver ids` and `driver keys` (C18 differential; core Lean only)

`ids`: the four identifier lines of harness/SPEC.md §4.3, answered from `Keys/Ids.lean`.
`keys`: `key fn=<GoFunction> <param>=<value> …`, answered from the GENERATED layouts of
`Keys/Generated.lean` (values are taken by position; their types come from the generated
parameter lists), with bech32 computed by `Keys/Bech32.lean`.
-/
namespace SM.KeysMode
open SM.Keys SM.Keys.Generated

def hexDigit (c : Char) : Option Nat :=
  if '0' ≤ c ∧ c ≤ '9' then some (c.toNat - '0'.toNat)
  else if 'a' ≤ c ∧ c ≤ 'f' then some (c.toNat - 'a'.toNat + 10)
  else none

/-- lower-case hex, `-` is the empty byte string -/
def parseHex (s : String) : Option Bytes :=
  if s = "-" then some []
  else
    let rec go : List Char → Option Bytes
      | [] => some []
      | [_] => none
      | a :: b :: r => do
        let x ← hexDigit a
        let y ← hexDigit b
        let t ← go r
        pure (UInt8.ofNat (x * 16 + y) :: t)
    go s.toList

def hexChar (n : Nat) : Char := if n < 10 then Char.ofNat (n + 48) else Char.ofNat (n + 87)

def toHex (b : Bytes) : String :=
  if b.isEmpty then "-"
  else String.ofList (b.flatMap (fun x => [hexChar (x.toNat / 16), hexChar (x.toNat % 16)]))

def parseInt (s : String) : Option Int := s.toInt?

/-- a string value: `-` empty, `0x<hex>` arbitrary bytes, otherwise its UTF-8 bytes -/
def parseStr (s : String) : Option Bytes :=
  if s = "-" then some []
  else if s.startsWith "0x" then parseHex (String.ofList (s.toList.drop 2))
  else some s.toUTF8.data.toList

/-- the values of `k=v` tokens, by position -/
def values (toks : List String) : Option (List String) :=
  toks.mapM (fun t =>
    match t.splitOn "=" with
    | _ :: v :: rest => some (String.intercalate "=" (v :: rest))
    | _ => none)

def strip (l : String) : String := String.ofList (l.toList.reverse.dropWhile (fun c => c = '\n' || c = '\r')).reverse

/-! ## ids -/

def inI64 (x : Int) : Bool := decide (-2 ^ 63 ≤ x) && decide (x < 2 ^ 63)
def inU64 (x : Int) : Bool := decide (0 ≤ x) && decide (x < 2 ^ 64)
def inI16 (x : Int) : Bool := decide (-2 ^ 15 ≤ x) && decide (x < 2 ^ 15)

/-- answer of one line of `ids`; `none` = malformed line -/
def idsAnswer (line : String) : Option String :=
  match line.splitOn " " with
  | "ctxid" :: rest => do
    let [tx, idx] ← values rest | none
    let tx ← parseHex tx
    let idx ← parseInt idx
    if !inI64 idx then none else
    pure (toHex (genCtxId tx idx))
  | "splitctx" :: rest => do
    let [id] ← values rest | none
    let id ← parseHex id
    match splitCtxId id with
    | none => pure "error"
    | some (h, i) => pure s!"{toHex h} {i}"
  | "reqid" :: rest => do
    let [ctx, batch, height, index] ← values rest | none
    let ctx ← parseHex ctx
    let batch ← parseInt batch
    let height ← parseInt height
    let index ← parseInt index
    if !(inU64 batch && inI64 height && inI16 index) then none else
    pure (toHex (genReqId ctx batch.toNat height index))
  | "splitreq" :: rest => do
    let [id] ← values rest | none
    let id ← parseHex id
    match splitReqId id with
    | none => pure "error"
    | some (c, b, h, i) => pure s!"{toHex c} {b} {h} {i}"
  | _ => none

/-! ## keys -/

def lookupFn (name : String) : Option Fn :=
  match (keyBuilders ++ subspaces).find? (fun f => f.name = name) with
  | some f => some f
  | none => (prefixes.find? (fun p => p.1 = name)).map (fun p => { name := p.1, params := [], ignored := [], layout := p.2 })

def fieldTy (f : Nat) : Option GoTy := (fields.find? (fun x => x.2.1 = f)).map (·.2.2)

/-- bind the positional values to the parameters of the function -/
def bindArgs : List Nat → List String → Env → Option Env
  | [], [], e => some e
  | f :: fs, v :: vs, e => do
    let ty ← fieldTy f
    let e ← match ty with
      | .str => (parseStr v).map (e.setB f)
      | .addr | .bytes => (parseHex v).map (e.setB f)
      | .i64 => do
        let x ← parseInt v
        if !inI64 x then none else pure (e.setN f (u64 x))
      | .u64 => do
        let x ← parseInt v
        if !inU64 x then none else pure (e.setN f x.toNat)
      | .i16 => do
        let x ← parseInt v
        if !inI16 x then none else pure (e.setN f (u16 x))
    bindArgs fs vs e
  | _, _, _ => none

def keyAnswer (line : String) : Option String :=
  match line.splitOn " " with
  | "key" :: fn :: rest => do
    let [name] ← values [fn] | none
    let f ← lookupFn name
    let vs ← values rest
    let e ← bindArgs f.params vs { b := fun _ => [], n := fun _ => 0 }
    pure (toHex (encode Bech32.bech32Acc f.layout e))
  | _ => none

partial def loop (answer : String → Option String) (h out : IO.FS.Stream) (n : Nat) : IO UInt32 := do
  let line ← h.getLine
  if line.isEmpty then
    out.flush
    return 0
  let l := strip line
  if l.toList.all (· = ' ') || l.startsWith "#" then loop answer h out (n + 1)
  else match answer l with
    | some a => do
      out.putStrLn a
      loop answer h out (n + 1)
    | none => do
      out.flush
      IO.eprintln s!"driver: line {n}: malformed line: {l}"
      return 2

def idsLoop (h out : IO.FS.Stream) : IO UInt32 := loop idsAnswer h out 1
def keysLoop (h out : IO.FS.Stream) : IO UInt32 := loop keyAnswer h out 1

end SM.KeysMode
