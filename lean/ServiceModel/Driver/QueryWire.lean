import ServiceModel.Driver.Wire
import ServiceModel.Model.Genesis
import ServiceModel.Model.Restart
import ServiceModel.Model.ModSvc
/-!
# Wire format of the query ops (harness/SPEC.md §4.1)

`query via=grpc|legacy kind=<kind> <args>` → `R ok` / `R err <Name>` and sorted `Q …` lines.
Identifiers of the wrong length cannot be turned into the model's structured ids; what the
code does with them is reproduced here at the byte (hex) level and is not part of the model:
a lookup finds nothing, `request`/`response` refuse them, a scan matches by byte prefix.
-/
namespace SM.Wire
open SM

inductive QueryW
  | q (q : Query)
  | badReqId                                   -- `request` / `response` with an id that is not 58 bytes
  | ctxRaw (hex : String)                      -- `context` with an id that is not 40 bytes: the zero value
  | reqScanRaw (hex : String) (batch : Nat)    -- `requests_by_ctx` with such an id: scan by byte prefix
  | respScanRaw (hex : String) (batch : Nat)

def parseQuery (f : Fields) : Option QueryW := do
  match ← fld f "kind" with
  | "definition" => pure (.q (.definition (← afld f "name")))
  | "binding" => pure (.q (.binding (← afld f "svc") (← afld f "prov")))
  | "bindings" => pure (.q (.bindings (← afld f "svc") (← afld f "owner")))
  | "withdraw" => pure (.q (.withdraw (← afld f "owner")))
  | "context" =>
    let h ← afld f "ctx"
    match ctxIdOfHex h with
    | some c => pure (.q (.context c))
    | none => pure (.ctxRaw h)
  | "request" =>
    match reqIdOfHex (← afld f "req") with
    | some r => pure (.q (.request r))
    | none => pure .badReqId
  | "response" =>
    match reqIdOfHex (← afld f "req") with
    | some r => pure (.q (.response r))
    | none => pure .badReqId
  | "requests" => pure (.q (.requests (← afld f "svc") (← afld f "prov")))
  | "requests_by_ctx" =>
    let h ← afld f "ctx"; let b ← parseNat (← fld f "batch")
    match ctxIdOfHex h with
    | some c => pure (.q (.requestsByCtx c b))
    | none => pure (.reqScanRaw h b)
  | "responses" =>
    let h ← afld f "ctx"; let b ← parseNat (← fld f "batch")
    match ctxIdOfHex h with
    | some c => pure (.q (.responses c b))
    | none => pure (.respScanRaw h b)
  | "fees" => pure (.q (.fees (← afld f "prov")))
  | "params" => pure (.q .params)
  | "schema" => pure (.q (.schema (← afld f "name")))
  | _ => none

def bindingRec (k : SvcName × Addr) (b : Binding) : String :=
  s!"B {k.1} {k.2} {b.owner} {b.deposit} {boolStr b.avail} {timeStr b.disabledAt} {b.qos} {b.text.price} {promTStr b.text.promT} {promVStr b.text.promV}"

def ctxRec (idHex : String) : Option Ctx → String
  | some x =>
    s!"CX {idHex} {x.svc} {dash (",".intercalate x.provs)} {x.cons} {x.cap} {x.timeout} {boolStr x.super} {boolStr x.rep} {x.freq} {x.total} {x.batch} {x.reqN} {x.respN} {x.bthr} {batchStateStr x.bstate} {ctxStateStr x.state} {x.thr} {dash x.mod}"
  | none => s!"CX {dash idHex} - - - - 0 0 0 0 0 0 0 0 0 running running 0 -"

def reqRec : Option ReqView → String
  | some v =>
    s!"REQ {hexOfReqId v.id} {v.svc} {dash v.prov} {dash v.cons} {feeStr v.fee} {boolStr v.super} {v.reqH} {v.expH} {hexOfCtxId v.id.ctx} {v.id.batch}"
  | none => "REQ - - - - - 0 0 0 - 0"

def respRec (idHex : String) : Option Resp → String
  | some x => s!"RS {idHex} {dash x.prov} {dash x.cons} {x.code} {outStr x.out} {String.ofList (idHex.toList.take 80)} {(natOfHex ((idHex.toList.drop 80).take 16)).getD 0}"
  | none => s!"RS {dash idHex} - - - absent - 0"

def paramsRec (p : Params) : String :=
  s!"PARAMS {p.maxTimeout} {p.mult} {feeStr p.minDep} {p.tax} {p.slash} {p.complaint} {p.arbitration}"

def answerRecs : Answer → List String
  | .defn name d => [s!"D {name} {d.author}"]
  | .bindings l => l.map (fun e => bindingRec e.1 e.2)
  | .withdraw o a => [s!"WD {dash o} {dash a}"]
  | .context c x => [ctxRec (hexOfCtxId c) x]
  | .requests l => l.map reqRec
  | .response r x => [respRec (hexOfReqId r) x]
  | .responses l => l.map (fun e => respRec (hexOfReqId e.1) (some e.2))
  | .fees p n => [s!"EF {dash p} {n}"]
  | .params p => [paramsRec p]
  | .schema .pricing => ["SCH pricing"]
  | .schema .result => ["SCH result"]

def be64Hex (n : Nat) : String := hexOfNat n 16

/-- addresses outside what standard clients can produce (neither empty nor 20 bytes): the legacy querier and the
    JSON codec cannot carry them (known finding D11); reported with a violation so that it can be attributed -/
def oddAddr (a : Addr) : Bool := a.length ≠ 0 && a.length ≠ 40

def queryOdd (s : State) : QueryW → Bool
  | .q q =>
    (match q with
      | .binding _ p => oddAddr p | .bindings _ o => oddAddr o | .withdraw o => oddAddr o
      | .requests _ p => oddAddr p | .fees p => oddAddr p | _ => false)
    || (match query s q with
      | .ok (.defn _ d) => oddAddr d.author
      | .ok (.bindings l) => l.any (fun e => oddAddr e.1.2 || oddAddr e.2.owner)
      | .ok (.withdraw o a) => oddAddr o || oddAddr a
      | .ok (.context _ (some x)) => x.provs.any oddAddr || oddAddr x.cons
      | .ok (.requests l) => l.any (fun v => match v with | some v => oddAddr v.prov || oddAddr v.cons | none => false)
      | .ok (.response _ (some x)) => oddAddr x.prov || oddAddr x.cons
      | .ok (.responses l) => l.any (fun e => oddAddr e.2.prov || oddAddr e.2.cons)
      | _ => false)
  | .reqScanRaw _ _ | .respScanRaw _ _ => true     -- scans by raw prefix: answers may carry any address
  | _ => false

def genesisOdd (g : GenesisState) : Bool :=
  g.defs.any (fun e => oddAddr e.2.author) || g.bindings.any (fun e => oddAddr e.1.2 || oddAddr e.2.owner)
  || g.withdraw.any (fun e => oddAddr e.1 || oddAddr e.2) || g.ctxs.any (fun e => e.2.provs.any oddAddr || oddAddr e.2.cons)

/-- the answer a listing must give according to the PRIMARY records alone (not through an index): used by the monitor
    next to `runQuery`, so that a wrong index shows as a wrong answer (in reachable states of the unchanged code the two
    coincide: `C17.bindings_of_owner_exact`, `C17.pending_requests_exact`) -/
def querySpecRecs (s : State) : Query → Option (List String)
  | .bindings svc owner =>
    if owner = "" then none
    else some (sortLines (((Map.entries s.bindings).filter (fun e => e.1.1 = svc ∧ e.2.owner = owner)).map (fun e => bindingRec e.1 e.2)))
  | .requests svc prov =>
    some (sortLines (((FSet.elems s.activeI).filterMap (fun r =>
      match reqView s r with
      | some v => if v.svc = svc ∧ v.prov = prov then some (reqRec (some v)) else none
      | none => none))))
  | _ => none

/-- result line and sorted answer records (without the `Q `/`G ` tag) -/
def runQuery (s : State) : QueryW → String × List String
  | .badReqId => ("R err ErrInvalidRequestID", [])
  | .ctxRaw h => ("R ok", [ctxRec h none])
  | .reqScanRaw h b =>
    let pre := h ++ be64Hex b
    ("R ok", sortLines ((s.reqs.filter (fun e => (hexOfReqId e.1).startsWith pre)).map (fun e => reqRec (reqView s e.1))))
  | .respScanRaw h b =>
    let pre := h ++ be64Hex b
    ("R ok", sortLines ((s.resps.filter (fun e => (hexOfReqId e.1).startsWith pre)).map (fun e => respRec (hexOfReqId e.1) (some e.2))))
  | .q q =>
    match query s q with
    | .error .unknownDefinition => ("R err ErrUnknownServiceDefinition", [])
    | .error .unknownBinding => ("R err ErrUnknownServiceBinding", [])
    | .error .invalidSchemaName => ("R err ErrInvalidSchemaName", [])
    | .ok a => ("R ok", sortLines (answerRecs a))

end SM.Wire

/-! ### genesis ops (harness/SPEC.md §4.2) -/
namespace SM.Wire
open SM

def genesisRecs (g : GenesisState) : List String :=
  [paramsRec g.params]
  ++ g.defs.map (fun e => s!"D {e.1} {e.2.author}")
  ++ g.bindings.map (fun e => bindingRec e.1 e.2)
  ++ g.withdraw.map (fun e => s!"WD {dash e.1} {dash e.2}")
  ++ g.ctxs.map (fun e => ctxRec (hexOfCtxId e.1) (some e.2))

/-- the state lines of the service store alone (no balances, no supply): what `reimport` prints -/
def storeLines (s : State) : List String :=
  (stateLines s).filter (fun l => !(l.startsWith "A " || l.startsWith "S "))

inductive GenOp | prep | export | validate | jsonrt | reimport | restart
deriving DecidableEq

def genOpOf (name : String) : Option GenOp :=
  match name with
  | "prep" => some .prep | "export" => some .export | "validate" => some .validate
  | "jsonrt" => some .jsonrt | "reimport" => some .reimport | "restart" => some .restart | _ => none

/-- run a genesis op on the model: new state, and the lines of the block after the `OP` line
    (result, effects or `G` records, state lines), without `END` -/
def runGenOp (s : State) : GenOp → State × List String
  | .prep =>
    let r := prep s
    match r.panic with
    | some m => (s, ["R panic " ++ m] ++ sortLines (stateLines s))
    | none => (r.s, ["R ok"] ++ sortLines (r.effs.map effStr) ++ sortLines (stateLines r.s))
  | .export => (s, ["R ok"] ++ sortLines ((genesisRecs (exportG s)).map ("G " ++ ·)) ++ sortLines (stateLines s))
  | .validate =>
    (s, [if validateG (exportG s) then "R ok" else "R err invalid-genesis"] ++ sortLines (stateLines s))
  | .jsonrt => (s, ["R ok"] ++ sortLines (stateLines s))
  | .reimport =>
    match importG s.cfg (exportG s) s.height s.time with
    | none => (s, ["R panic invalid-genesis"] ++ sortLines (storeLines (genesis s.cfg s.params s.height s.time)))
    | some s' => (s', ["R ok"] ++ sortLines ((genesisRecs (exportG s')).map ("G " ++ ·)) ++ sortLines (storeLines s'))
  | .restart =>
    -- the zero-height restart (Model/Restart.lean): the chain goes on from the imported state, same height and time
    match restart s s.height s.time with
    | none => (s, ["R panic restart"] ++ sortLines (stateLines s))
    | some s' => (s', ["R ok"] ++ sortLines ((prep s).effs.map effStr) ++ sortLines (stateLines s'))

/-! ### the module-service ops `modcall` / `modbind` (SPEC.md §3): outside `Op`, run by `Model/ModSvc.lean` -/
/-- the provider the harness registers its module service with (`modSvcProvider` of cmd/trace/exec.go) -/
def modSvcProvider : Addr := String.ofList (List.replicate 40 'e')

inductive ModOp
  | call (op : Op) (code : Nat) (out : OutKind)       -- `op` is the `call` the message would be for an ordinary service
  | bind (svc : SvcName) (prov owner : Addr) (dep : Option Nat) (text : Option PricingText) (qos : Nat)

def parseModOp (l : String) : Option ModOp :=
  let (name, f) := parseLine l
  match name with
  | "modcall" =>
    match parseOp "call" f, (fld f "mscode").bind parseNat, (fld f "msout").bind outOf with
    | some (.op o), some code, some out => some (.call o code out)
    | _, _, _ => none
  | "modbind" =>
    match parseOp "bind" f with
    | some (.op (.bind svc prov owner dep text qos)) => some (.bind svc prov owner dep text qos)
    | _ => none
  | _ => none

def runModOp (s : State) : ModOp → Out
  | .call o code out =>
    if !validateBasic o then (s, .invalid, [])
    else match o with
      | .call id svc _ cons cap _ _ _ _ _ inputOk => callMod s id svc modSvcProvider cons cap inputOk code out
      | _ => (s, .invalid, [])
  | .bind svc prov owner dep text qos =>
    match text with
    | some t => modBind s svc prov owner dep t qos
    | none => fail s .invalidPricing

end SM.Wire
