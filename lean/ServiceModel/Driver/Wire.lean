import ServiceModel.Model.Step
/-!
# Wire format (harness/SPEC.md): parsing op lines, printing step blocks, parsing state dumps
-/
namespace SM.Wire
open SM

/-! ### hex and numbers -/
def hexDigit (n : Nat) : Char :=
  if n < 10 then Char.ofNat (48 + n) else Char.ofNat (87 + n)

def hexVal (c : Char) : Option Nat :=
  if '0' ≤ c ∧ c ≤ '9' then some (c.toNat - 48)
  else if 'a' ≤ c ∧ c ≤ 'f' then some (c.toNat - 87)
  else none

def natOfHex (cs : List Char) : Option Nat :=
  cs.foldlM (fun n c => (hexVal c).map (fun d => n * 16 + d)) 0

/-- fixed-width lower-case hex of `n` (`w` digits, most significant first) -/
def hexOfNat (n w : Nat) : String :=
  String.ofList ((List.range w).reverse.map (fun i => hexDigit ((n / 16 ^ i) % 16)))

def isHex (s : String) : Bool := s.toList.all (fun c => (hexVal c).isSome) && s.length % 2 = 0

def parseNat (s : String) : Option Nat := s.toNat?
def parseInt (s : String) : Option Int := s.toInt?

def ctxIdOfHex (s : String) : Option CtxId :=
  let cs := s.toList
  if cs.length ≠ 80 then none
  else do
    let h ← natOfHex (cs.take 64)
    let i ← natOfHex (cs.drop 64)
    pure { hash := h, idx := i }

def hexOfCtxId (c : CtxId) : String := hexOfNat c.hash 64 ++ hexOfNat c.idx 16

def reqIdOfHex (s : String) : Option ReqId :=
  let cs := s.toList
  if cs.length ≠ 116 then none
  else do
    let c ← ctxIdOfHex (String.ofList (cs.take 80))
    let b ← natOfHex ((cs.drop 80).take 16)
    let h ← natOfHex ((cs.drop 96).take 16)
    let i ← natOfHex (cs.drop 112)
    pure { ctx := c, batch := b, height := h, index := i }

def hexOfReqId (r : ReqId) : String :=
  hexOfCtxId r.ctx ++ hexOfNat r.batch 16 ++ hexOfNat r.height 16 ++ hexOfNat r.index 4

/-! ### fields -/
abbrev Fields := List (String × String)

def splitKV (tok : String) : String × String :=
  match tok.splitOn "=" with
  | k :: rest => (k, "=".intercalate rest)
  | [] => ("", "")

def parseLine (line : String) : String × Fields :=
  match (line.splitOn " ").filter (· ≠ "") with
  | [] => ("", [])
  | op :: toks => (op, toks.map splitKV)

def fld (f : Fields) (k : String) : Option String := (f.find? (·.1 = k)).map (·.2)

/-- an address / name field: `-` is the empty string -/
def afld (f : Fields) (k : String) : Option String := (fld f k).map (fun v => if v = "-" then "" else v)

def optNat (s : String) : Option (Option Nat) := if s = "-" then some none else (parseNat s).map some

def listOf (s : String) : List String := if s = "-" then [] else s.splitOn ","

def dash (s : String) : String := if s = "" then "-" else s

def timeOf (s : String) : Option Int := if s = "-" then some zeroTime else parseInt s
def timeStr (t : Int) : String := if t = zeroTime then "-" else toString t

def parsePromT (s : String) : Option (List PromT) :=
  (if s = "-" then [] else s.splitOn ";").mapM (fun e =>
    match e.splitOn ":" with
    | [a, b, d] => do
      let a ← parseInt a; let b ← parseInt b; let d ← parseNat d
      pure { start := a, stop := b, disc := d }
    | _ => none)

def parsePromV (s : String) : Option (List PromV) :=
  (if s = "-" then [] else s.splitOn ";").mapM (fun e =>
    match e.splitOn ":" with
    | [v, d] => do
      let v ← parseNat v; let d ← parseNat d
      pure { vol := v, disc := d }
    | _ => none)

def promTStr (l : List PromT) : String :=
  dash (";".intercalate (l.map (fun p => s!"{p.start}:{p.stop}:{p.disc}")))
def promVStr (l : List PromV) : String :=
  dash (";".intercalate (l.map (fun p => s!"{p.vol}:{p.disc}")))

def boolOf (s : String) : Option Bool := if s = "1" then some true else if s = "0" then some false else none
def boolStr (b : Bool) : String := if b then "1" else "0"

def outOf (s : String) : Option OutKind :=
  match s with
  | "valid" => some .valid | "malformed" => some .malformed | "absent" => some .absent | _ => none
def outStr : OutKind → String
  | .valid => "valid" | .malformed => "malformed" | .absent => "absent"

def ctxStateStr : CtxState → String
  | .running => "running" | .paused => "paused" | .completed => "completed"
def ctxStateOf (s : String) : Option CtxState :=
  match s with
  | "running" => some .running | "paused" => some .paused | "completed" => some .completed | _ => none
def batchStateStr : BatchState → String
  | .running => "running" | .completed => "completed"
def batchStateOf (s : String) : Option BatchState :=
  match s with
  | "running" => some .running | "completed" => some .completed | _ => none

/-- `price=` with the promotions: `none` = the empty pricing string -/
def textOf (f : Fields) : Option (Option PricingText) := do
  let p ← fld f "price"
  if p = "-" then pure none
  else
    let t ← parsePromT (← fld f "promT")
    let v ← parsePromV (← fld f "promV")
    pure (some { price := p, promT := t, promV := v })

/-! ### ops -/
/-- result of reading an op line: an op, a line the model treats as stateless-invalid
    (identifier of the wrong length), the genesis line, or a syntax error -/
inductive Parsed
  | op (o : Op)
  | invalid
  | unknownCtx        -- keeper API called with an id of the wrong length: no such context can exist
  | genesis (cfg : Config) (params : Params) (height time : Int)
  | bad (msg : String)

def parseOp (name : String) (f : Fields) : Option Parsed :=
  match name with
  | "genesis" => do
    let h ← parseInt (← fld f "height"); let t ← parseInt (← fld f "time")
    let mt ← parseInt (← fld f "maxTimeout"); let mult ← parseNat (← fld f "mult")
    let md ← optNat (← fld f "minDep")
    let tax ← parseNat (← fld f "tax"); let sl ← parseNat (← fld f "slash")
    let co ← parseInt (← fld f "complaint"); let ar ← parseInt (← fld f "arbitration")
    let mods := listOf (← fld f "modules")
    let ms ← fld f "modsvc"
    pure (.genesis
      { escrow := ← fld f "escrow", deposit := ← fld f "deposit", collector := ← fld f "collector",
        modules := mods, modsvc := if ms = "-" then none else some ms }
      { maxTimeout := mt, mult := mult, minDep := md.getD 0, tax := tax, slash := sl,
        complaint := co, arbitration := ar } h t)
  | "fund" => do pure (.op (.fund (← afld f "acct") (← parseNat (← fld f "amt"))))
  | "xfer" => do pure (.op (.xfer (← afld f "from") (← afld f "to") (← parseNat (← fld f "amt"))))
  | "define" => do pure (.op (.define (← afld f "name") (← afld f "author") ((← fld f "schema") = "ok")))
  | "bind" => do
    pure (.op (.bind (← afld f "svc") (← afld f "prov") (← afld f "owner") (← optNat (← fld f "dep"))
      (← textOf f) (← parseNat (← fld f "qos"))))
  | "update" => do
    pure (.op (.update (← afld f "svc") (← afld f "prov") (← afld f "owner") (← optNat (← fld f "dep"))
      (← textOf f) (← parseNat (← fld f "qos"))))
  | "setwd" => do pure (.op (.setwd (← afld f "owner") (← afld f "addr")))
  | "disable" => do pure (.op (.disable (← afld f "svc") (← afld f "prov") (← afld f "owner")))
  | "enable" => do pure (.op (.enable (← afld f "svc") (← afld f "prov") (← afld f "owner") (← optNat (← fld f "dep"))))
  | "refund" => do pure (.op (.refund (← afld f "svc") (← afld f "prov") (← afld f "owner")))
  | "call" => do
    let tx ← fld f "tx"; let idx ← parseNat (← fld f "idx")
    let h ← natOfHex tx.toList
    if tx.length ≠ 64 then none
    pure (.op (.call { hash := h, idx := idx } (← afld f "svc") (listOf (← fld f "provs")) (← afld f "cons")
      (← optNat (← fld f "cap")) (← parseInt (← fld f "timeout")) (← boolOf (← fld f "super"))
      (← boolOf (← fld f "rep")) (← parseNat (← fld f "freq")) (← parseInt (← fld f "total"))
      ((← fld f "input") = "ok")))
  | "modcreate" => do
    let tx ← fld f "tx"; let idx ← parseNat (← fld f "idx")
    let h ← natOfHex tx.toList
    if tx.length ≠ 64 then none
    pure (.op (.modcreate { hash := h, idx := idx } (← afld f "mod") (← afld f "svc") (listOf (← fld f "provs"))
      (← afld f "cons") (← optNat (← fld f "cap")) (← parseInt (← fld f "timeout")) (← boolOf (← fld f "super"))
      (← boolOf (← fld f "rep")) (← parseNat (← fld f "freq")) (← parseInt (← fld f "total"))
      ((← fld f "input") = "ok") ((← fld f "state") = "running") (← parseNat (← fld f "thr"))))
  | "respond" => do
    let prov ← afld f "prov"; let code ← parseNat (← fld f "code"); let out ← outOf (← fld f "out")
    match reqIdOfHex (← fld f "req") with
    | some r => pure (.op (.respond r prov code out))
    | none => pure .invalid
  | "pause" | "start" | "kill" | "modpause" | "modstart" | "modkill" => do
    let cons ← afld f "cons"
    match ctxIdOfHex (← fld f "ctx") with
    | none => pure (if name.startsWith "mod" then .unknownCtx else .invalid)
    | some c =>
      pure (.op (match name with
        | "pause" => .pause c cons | "start" => .start c cons | "kill" => .kill c cons
        | "modpause" => .modpause c cons | "modstart" => .modstart c cons | _ => .modkill c cons))
  | "updatectx" => do
    let cons ← afld f "cons"
    let provs := listOf (← fld f "provs"); let cap ← optNat (← fld f "cap")
    let timeout ← parseInt (← fld f "timeout"); let freq ← parseNat (← fld f "freq"); let total ← parseInt (← fld f "total")
    match ctxIdOfHex (← fld f "ctx") with
    | none => pure .invalid
    | some c => pure (.op (.updatectx c cons provs cap timeout freq total))
  | "modupdate" => do
    let cons ← afld f "cons"
    let provs := listOf (← fld f "provs"); let cap ← optNat (← fld f "cap"); let thr ← parseNat (← fld f "thr")
    let timeout ← parseInt (← fld f "timeout"); let freq ← parseNat (← fld f "freq"); let total ← parseInt (← fld f "total")
    match ctxIdOfHex (← fld f "ctx") with
    | none => pure .unknownCtx
    | some c => pure (.op (.modupdate c cons provs thr cap timeout freq total))
  | "withdraw" => do
    pure (.op (.withdraw (← afld f "owner") (← afld f "prov")))
  | "endblock" => do pure (.op (.endblock (← parseInt (← fld f "dt"))))
  | _ => none

def parseOpLine (line : String) : Parsed :=
  let (name, f) := parseLine line
  match parseOp name f with
  | some p => p
  | none => .bad s!"cannot parse op line: {line}"

/-! ### printing -/
def errName : Err → String
  | .definitionExists => "ErrServiceDefinitionExists" | .unknownDefinition => "ErrUnknownServiceDefinition"
  | .bindingExists => "ErrServiceBindingExists" | .unknownBinding => "ErrUnknownServiceBinding"
  | .notAuthorized => "ErrNotAuthorized" | .invalidDeposit => "ErrInvalidDeposit"
  | .invalidPricing => "ErrInvalidPricing" | .invalidQoS => "ErrInvalidQoS"
  | .bindingUnavailable => "ErrServiceBindingUnavailable" | .bindingAvailable => "ErrServiceBindingAvailable"
  | .incorrectRefundTime => "ErrIncorrectRefundTime" | .bindModuleService => "ErrBindModuleService"
  | .invalidRequestInput => "ErrInvalidRequestInput" | .invalidTimeout => "ErrInvalidTimeout"
  | .invalidRepeatedFreq => "ErrInvalidRepeatedFreq" | .invalidRepeatedTotal => "ErrInvalidRepeatedTotal"
  | .invalidResponseThreshold => "ErrInvalidResponseThreshold" | .invalidProviders => "ErrInvalidProviders"
  | .callbackNotRegistered => "ErrCallbackNotRegistered" | .unknownRequestContext => "ErrUnknownRequestContext"
  | .requestContextNonRepeated => "ErrRequestContextNonRepeated" | .requestContextNotRunning => "ErrRequestContextNotRunning"
  | .requestContextNotPaused => "ErrRequestContextNotPaused" | .requestContextCompleted => "ErrRequestContextCompleted"
  | .unknownRequest => "ErrUnknownRequest" | .invalidResponse => "ErrInvalidResponse"
  | .insufficientFunds => "ErrInsufficientFunds" | .invalidWithdrawAddress => "ErrInvalidWithdrawAddress"
  | .invalidServiceName => "ErrInvalidServiceName" | .invalidRequest => "ErrInvalidRequest"
  | .invalidCoins => "ErrInvalidCoins" | .invalidAddress => "ErrInvalidAddress" | .unauthorized => "ErrUnauthorized"
  | .invalidModuleService => "ErrInvalidModuleService"

def resStr : Res → String
  | .ok => "R ok"
  | .err e => "R err " ++ errName e
  | .invalid => "R invalid"
  | .panic m => "R panic " ++ m

def effStr : Effect → String
  | .transfer a b n => s!"E transfer {a} {b} {n}"
  | .xferFail a b n => s!"E transfer {a} {b} {n}"
  | .slash r p n => s!"E slash {hexOfReqId r} {p} {n}"
  | .ev k c => s!"E ev {k} {hexOfCtxId c}"
  | .evReqs c n => s!"E ev new_batch_request {hexOfCtxId c} {n}"
  | .respcb c outs f => s!"E respcb {hexOfCtxId c} {dash (",".intercalate (outs.map outStr))} {boolStr f}"
  | .statecb c => s!"E statecb {hexOfCtxId c}"

def feeStr (n : Nat) : String := if n = 0 then "-" else toString n

def stateLines (s : State) : List String :=
  [s!"H {s.height} {s.time}", s!"S {s.bank.supply}"]
  ++ (s.bank.bal.filter (·.2 ≠ 0)).map (fun p => s!"A {p.1} {p.2}")
  ++ s.defs.map (fun p => s!"D {p.1} {p.2.author}")
  ++ s.bindings.map (fun p =>
      let b := p.2
      s!"B {p.1.1} {p.1.2} {b.owner} {b.deposit} {boolStr b.avail} {timeStr b.disabledAt} {b.qos} {b.text.price} {promTStr b.text.promT} {promVStr b.text.promV}")
  ++ s.ownerBind.map (fun p => s!"OB {p.1} {p.2.1} {p.2.2}")
  ++ s.owner.map (fun p => s!"OW {p.1} {p.2}")
  ++ s.ownerProv.map (fun p => s!"PO {p.1} {p.2}")
  ++ s.pricing.map (fun p => s!"PR {p.1.1} {p.1.2} {p.2.base} {promTStr p.2.promT} {promVStr p.2.promV}")
  ++ s.withdraw.map (fun p => s!"WD {p.1} {p.2}")
  ++ s.ctxs.map (fun p =>
      let x := p.2
      s!"CX {hexOfCtxId p.1} {x.svc} {dash (",".intercalate x.provs)} {x.cons} {x.cap} {x.timeout} {boolStr x.super} {boolStr x.rep} {x.freq} {x.total} {x.batch} {x.reqN} {x.respN} {x.bthr} {batchStateStr x.bstate} {ctxStateStr x.state} {x.thr} {dash x.mod}")
  ++ s.expQ.map (fun p => s!"XQ {p.1} {hexOfCtxId p.2}")
  ++ s.newQ.map (fun p => s!"NQ {p.1} {hexOfCtxId p.2}")
  ++ s.expH.map (fun p => s!"XH {hexOfCtxId p.1} {p.2}")
  ++ s.newH.map (fun p => s!"NH {hexOfCtxId p.1} {p.2}")
  ++ s.reqs.map (fun p => s!"RQ {hexOfReqId p.1} {hexOfCtxId p.1.ctx} {p.1.batch} {p.2.prov} {feeStr p.2.fee} {p.2.reqH} {p.2.expH}")
  ++ s.activeB.map (fun p => s!"AB {p.1} {p.2.1} {p.2.2.1} {hexOfReqId p.2.2.2}")
  ++ s.activeI.map (fun r => s!"AI {hexOfReqId r}")
  ++ s.resps.map (fun p => s!"RS {hexOfReqId p.1} {p.2.prov} {p.2.cons} {p.2.code} {outStr p.2.out} {hexOfCtxId p.1.ctx} {p.1.batch}")
  ++ s.volume.map (fun p => s!"VO {p.1.1} {p.1.2.1} {p.1.2.2} {p.2}")
  ++ s.earned.map (fun p => s!"EF {p.1} {p.2}")
  ++ s.ownerEarned.map (fun p => s!"OE {p.1} {p.2}")

def sortLines (l : List String) : List String := l.mergeSort (fun a b => decide (a ≤ b))

def blockLines (opLine : String) (r : Res) (effs : List Effect) (s : State) : List String :=
  ["OP " ++ opLine, resStr r] ++ effs.map effStr ++ sortLines (stateLines s) ++ ["END"]

end SM.Wire

/-! ### parsing a state dump back into a `State` (monitor mode) -/
namespace SM.Wire
open SM

def unDash (s : String) : String := if s = "-" then "" else s

def feeOfStr (s : String) : Option Nat := if s = "-" then some 0 else parseNat s

/-- add one state line to a state under construction; `none` = the line does not parse -/
def addStateLine (s : State) (line : String) : Option State :=
  match (line.splitOn " ") with
  | ["H", h, t] => do pure { s with height := ← parseInt h, time := ← parseInt t }
  | ["S", n] => do pure { s with bank := { s.bank with supply := ← parseInt n } }
  | ["A", a, n] => do pure { s with bank := { s.bank with bal := s.bank.bal ++ [(unDash a, ← parseNat n)] } }
  | ["D", name, author] => pure { s with defs := s.defs ++ [(name, { author := unDash author })] }
  | ["B", svc, prov, owner, dep, avail, dis, qos, price, pt, pv] => do
    let b : Binding := {
      owner := unDash owner, deposit := ← parseNat dep, avail := ← boolOf avail,
      disabledAt := ← timeOf dis, qos := ← parseNat qos,
      text := { price := price, promT := ← parsePromT pt, promV := ← parsePromV pv } }
    pure { s with bindings := s.bindings ++ [((svc, unDash prov), b)] }
  | ["OB", o, svc, p] => pure { s with ownerBind := s.ownerBind ++ [(unDash o, svc, unDash p)] }
  | ["OW", p, o] => pure { s with owner := s.owner ++ [(unDash p, unDash o)] }
  | ["PO", o, p] => pure { s with ownerProv := s.ownerProv ++ [(unDash o, unDash p)] }
  | ["PR", svc, p, base, pt, pv] => do
    pure { s with pricing := s.pricing ++ [((svc, unDash p), { base := ← parseNat base, promT := ← parsePromT pt, promV := ← parsePromV pv })] }
  | ["WD", o, a] => pure { s with withdraw := s.withdraw ++ [(unDash o, unDash a)] }
  | ["CX", id, svc, provs, cons, cap, timeout, sup, rep, freq, total, batch, reqN, respN, bthr, bst, st, thr, mod] => do
    let x : Ctx := {
      svc := unDash svc, provs := listOf provs, cons := unDash cons, cap := ← feeOfStr cap,
      timeout := ← parseInt timeout, super := ← boolOf sup, rep := ← boolOf rep, freq := ← parseNat freq,
      total := ← parseInt total, batch := ← parseNat batch, reqN := ← parseNat reqN, respN := ← parseNat respN,
      bthr := ← parseNat bthr, bstate := ← batchStateOf bst, state := ← ctxStateOf st,
      thr := ← parseNat thr, mod := unDash mod }
    pure { s with ctxs := s.ctxs ++ [(← ctxIdOfHex id, x)] }
  | ["XQ", h, id] => do pure { s with expQ := s.expQ ++ [(← parseInt h, ← ctxIdOfHex id)] }
  | ["NQ", h, id] => do pure { s with newQ := s.newQ ++ [(← parseInt h, ← ctxIdOfHex id)] }
  | ["XH", id, h] => do pure { s with expH := s.expH ++ [(← ctxIdOfHex id, ← parseInt h)] }
  | ["NH", id, h] => do pure { s with newH := s.newH ++ [(← ctxIdOfHex id, ← parseInt h)] }
  | ["RQ", id, ctx, batch, prov, fee, reqH, expH] => do
    let r ← reqIdOfHex id
    -- the record's own context / batch fields must agree with the id (else the dump is inconsistent)
    if hexOfCtxId r.ctx ≠ ctx ∨ toString r.batch ≠ batch then none
    pure { s with reqs := s.reqs ++ [(r, { prov := unDash prov, fee := ← feeOfStr fee, reqH := ← parseInt reqH, expH := ← parseInt expH })] }
  | ["AB", svc, prov, expH, id] => do
    pure { s with activeB := s.activeB ++ [(svc, unDash prov, ← parseInt expH, ← reqIdOfHex id)] }
  | ["AI", id] => do pure { s with activeI := s.activeI ++ [← reqIdOfHex id] }
  | ["RS", id, prov, cons, code, out, ctx, batch] => do
    let r ← reqIdOfHex id
    if hexOfCtxId r.ctx ≠ ctx ∨ toString r.batch ≠ batch then none
    pure { s with resps := s.resps ++ [(r, { prov := unDash prov, cons := unDash cons, code := ← parseNat code, out := ← outOf out })] }
  | ["VO", cons, svc, prov, n] => do
    pure { s with volume := s.volume ++ [((unDash cons, svc, unDash prov), ← parseNat n)] }
  | ["EF", p, n] => do pure { s with earned := s.earned ++ [(unDash p, ← parseNat n)] }
  | ["OE", o, n] => do pure { s with ownerEarned := s.ownerEarned ++ [(unDash o, ← parseNat n)] }
  | _ => none

/-- an empty state carrying the configuration -/
def emptyState (cfg : Config) (params : Params) : State := genesis cfg params 0 0

/-- parse the state lines of one block; returns the state and the lines that did not parse -/
def parseState (cfg : Config) (params : Params) (lines : List String) : State × List String :=
  lines.foldl (fun (acc : State × List String) l =>
    match addStateLine acc.1 l with
    | some s' => (s', acc.2)
    | none => (acc.1, acc.2 ++ [l])) (emptyState cfg params, [])

/-- parse an effect line (`E …`) -/
def parseEffect (line : String) : Option Effect :=
  match line.splitOn " " with
  | ["E", "transfer", a, b, n] => do pure (.transfer (unDash a) (unDash b) (← parseNat n))
  | ["E", "slash", r, p, n] => do pure (.slash (← reqIdOfHex r) (unDash p) (← parseNat n))
  | ["E", "ev", "new_batch_request", c, n] => do pure (.evReqs (← ctxIdOfHex c) (← parseNat n))
  | ["E", "ev", "new_batch_request", c, _, "misordered"] => do pure (.ev "new_batch_request_misordered" (← ctxIdOfHex c))
  | ["E", "ev", k, c] => do pure (.ev k (← ctxIdOfHex c))
  | ["E", "respcb", c, outs, f] => do
    pure (.respcb (← ctxIdOfHex c) (← (listOf outs).mapM outOf) (← boolOf f))
  | ["E", "statecb", c] => do pure (.statecb (← ctxIdOfHex c))
  | _ => none

def parseRes (line : String) : Option Res :=
  match line.splitOn " " with
  | ["R", "ok"] => some .ok
  | ["R", "invalid"] => some .invalid
  | "R" :: "err" :: _ => some (.err .invalidRequest)      -- the class only; the name is compared by the diff
  | "R" :: "panic" :: rest => some (.panic (" ".intercalate rest))
  | _ => none

end SM.Wire
