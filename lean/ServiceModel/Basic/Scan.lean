import ServiceModel.Basic.Map
/-!
# A store scan as the model sees it

The KV store holds one value per key; a prefix scan returns each matching key once. The
model's maps are association lists with first-match lookup, so a scan is the list of first
occurrences: `entries`. `(k, v) ∈ entries m ↔ get m k = some v` holds unconditionally, and
`entries m = m` when the keys are already duplicate-free. `FSet.elems` does the same for sets.
-/
namespace SM

namespace FSet
variable {α : Type} [DecidableEq α]

def elems : FSet α → List α
  | [] => []
  | a :: t => a :: (elems t).filter (· ≠ a)

@[simp] theorem mem_elems (s : FSet α) (a : α) : a ∈ elems s ↔ a ∈ s := by
  induction s with
  | nil => simp [elems]
  | cons b t ih =>
    simp only [elems, List.mem_cons, List.mem_filter, ih, ne_eq, decide_eq_true_eq]
    constructor
    · rintro (h | ⟨h, _⟩)
      · exact Or.inl h
      · exact Or.inr h
    · rintro (h | h)
      · exact Or.inl h
      · by_cases e : a = b
        · exact Or.inl e
        · exact Or.inr ⟨h, e⟩

theorem nodup_elems (s : FSet α) : (elems s).Nodup := by
  induction s with
  | nil => simp [elems]
  | cons b t ih =>
    simp only [elems, List.nodup_cons, List.mem_filter, ne_eq, not_true_eq_false, decide_false,
      Bool.false_eq_true, and_false, not_false_eq_true, true_and]
    exact List.Nodup.sublist List.filter_sublist ih

end FSet

namespace Map
variable {κ ν : Type} [DecidableEq κ]

def entries : Map κ ν → Map κ ν
  | [] => []
  | (k, v) :: t => (k, v) :: (entries t).filter (fun e => e.1 ≠ k)

theorem mem_entries (m : Map κ ν) (k : κ) (v : ν) : (k, v) ∈ entries m ↔ get m k = some v := by
  induction m with
  | nil => simp [entries, get]
  | cons hd t ih =>
    obtain ⟨k', v'⟩ := hd
    simp only [entries, List.mem_cons, List.mem_filter, ih, get, ne_eq, decide_eq_true_eq, Prod.mk.injEq]
    by_cases hk : k' = k
    · subst hk
      simp only [if_true, Option.some.injEq, not_true_eq_false, and_false, or_false, true_and]
      exact eq_comm
    · have hk' : ¬ k = k' := fun e => hk e.symm
      simp [hk, hk']

theorem nodupKeys_entries (m : Map κ ν) : NodupKeys (entries m) := by
  unfold NodupKeys keys
  induction m with
  | nil => simp [entries]
  | cons hd t ih =>
    obtain ⟨k', v'⟩ := hd
    simp only [entries, List.map_cons, List.nodup_cons, List.mem_map, List.mem_filter, ne_eq, decide_eq_true_eq]
    refine ⟨?_, ?_⟩
    · rintro ⟨e, ⟨_, hne⟩, he⟩
      exact hne he
    · exact List.Nodup.sublist (List.Sublist.map _ List.filter_sublist) ih

theorem entries_of_nodupKeys (m : Map κ ν) (h : NodupKeys m) : entries m = m := by
  unfold NodupKeys keys at h
  induction m with
  | nil => rfl
  | cons hd t ih =>
    obtain ⟨k', v'⟩ := hd
    simp only [List.map_cons, List.nodup_cons, List.mem_map] at h
    simp only [entries, ih h.2]
    congr 1
    apply List.filter_eq_self.mpr
    intro e he
    simp only [ne_eq, decide_eq_true_eq]
    intro e1
    exact h.1 ⟨e, he, e1⟩

end Map
end SM
