set_option linter.unusedSectionVars false
set_option linter.unusedSimpArgs false
/-!
# Association-list maps and sets (core Lean only)

`Map κ ν` is a list of pairs with first-match lookup. `set` replaces the first match in
place (or appends), `del` removes every match. `get_set`/`get_del` hold unconditionally;
`total_set` holds unconditionally; `total_del` needs duplicate-free keys (`NodupKeys`),
which `set`/`del` preserve.
-/
namespace SM

abbrev Map (κ ν : Type) := List (κ × ν)

namespace Map
variable {κ ν : Type} [DecidableEq κ]

def get (m : Map κ ν) (k : κ) : Option ν :=
  match m with
  | [] => none
  | (k', v) :: t => if k' = k then some v else get t k

def set (m : Map κ ν) (k : κ) (v : ν) : Map κ ν :=
  match m with
  | [] => [(k, v)]
  | (k', v') :: t => if k' = k then (k, v) :: t else (k', v') :: set t k v

def del (m : Map κ ν) (k : κ) : Map κ ν :=
  match m with
  | [] => []
  | (k', v') :: t => if k' = k then del t k else (k', v') :: del t k

def has (m : Map κ ν) (k : κ) : Bool := (get m k).isSome

def keys (m : Map κ ν) : List κ := m.map (·.1)

@[simp] theorem get_nil (k : κ) : get ([] : Map κ ν) k = none := rfl

@[simp] theorem get_set_same (m : Map κ ν) (k : κ) (v : ν) : get (set m k v) k = some v := by
  induction m with
  | nil => simp [set, get]
  | cons h t ih => obtain ⟨k', v'⟩ := h; by_cases hk : k' = k <;> simp [set, get, hk, ih]

theorem get_set_other (m : Map κ ν) (k k2 : κ) (v : ν) (h : k ≠ k2) :
    get (set m k v) k2 = get m k2 := by
  induction m with
  | nil => simp [set, get, h]
  | cons hd t ih =>
    obtain ⟨k', v'⟩ := hd
    by_cases hk : k' = k
    · subst hk; simp [set, get, h]
    · by_cases hk2 : k' = k2
      · subst hk2; simp [set, get, hk]
      · simp [set, get, hk, hk2, ih]

@[simp] theorem get_del_same (m : Map κ ν) (k : κ) : get (del m k) k = none := by
  induction m with
  | nil => simp [del, get]
  | cons h t ih => obtain ⟨k', v'⟩ := h; by_cases hk : k' = k <;> simp [del, get, hk, ih]

theorem get_del_other (m : Map κ ν) (k k2 : κ) (h : k ≠ k2) : get (del m k) k2 = get m k2 := by
  induction m with
  | nil => simp [del, get]
  | cons hd t ih =>
    obtain ⟨k', v'⟩ := hd
    by_cases hk : k' = k
    · subst hk; simp [del, get, h, ih]
    · by_cases hk2 : k' = k2
      · subst hk2; simp [del, get, hk]
      · simp [del, get, hk, hk2, ih]

theorem get_set (m : Map κ ν) (k k2 : κ) (v : ν) :
    get (set m k v) k2 = if k = k2 then some v else get m k2 := by
  by_cases h : k = k2
  · subst h; simp
  · simp [h, get_set_other _ _ _ _ h]

theorem get_del (m : Map κ ν) (k k2 : κ) :
    get (del m k) k2 = if k = k2 then none else get m k2 := by
  by_cases h : k = k2
  · subst h; simp
  · simp [h, get_del_other _ _ _ h]

/-- lookup after `set`: either the new value at the key, or an old value -/
theorem get_set_cases {m : Map κ ν} {k k2 : κ} {v w : ν}
    (h : get (set m k v) k2 = some w) : (k = k2 ∧ w = v) ∨ get m k2 = some w := by
  rw [get_set] at h
  split at h
  · left; exact ⟨by assumption, by simpa using h.symm⟩
  · right; exact h

theorem get_del_some {m : Map κ ν} {k k2 : κ} {w : ν}
    (h : get (del m k) k2 = some w) : k ≠ k2 ∧ get m k2 = some w := by
  rw [get_del] at h
  split at h
  · simp at h
  · exact ⟨by assumption, h⟩

/-- membership of a pair, related to lookup -/
theorem get_of_mem_head (m : Map κ ν) (k : κ) (v : ν) (h : get m k = some v) : (k, v) ∈ m := by
  induction m with
  | nil => simp [get] at h
  | cons hd t ih =>
    obtain ⟨k', v'⟩ := hd
    by_cases hk : k' = k
    · subst hk; simp [get] at h; subst h; simp
    · simp [get, hk] at h; exact List.mem_cons_of_mem _ (ih h)

theorem get_isSome_iff_mem_keys (m : Map κ ν) (k : κ) : (get m k).isSome ↔ k ∈ keys m := by
  induction m with
  | nil => simp [get, keys]
  | cons hd t ih =>
    obtain ⟨k', v'⟩ := hd
    by_cases hk : k' = k
    · subst hk; simp [get, keys]
    · simp only [keys] at ih
      simp [get, keys, hk, ih]
      intro h; exact absurd h.symm hk |> False.elim

theorem get_none_iff (m : Map κ ν) (k : κ) : get m k = none ↔ k ∉ keys m := by
  rw [← get_isSome_iff_mem_keys]; cases get m k <;> simp

/-! ### duplicate-free keys -/
def NodupKeys (m : Map κ ν) : Prop := (keys m).Nodup

@[simp] theorem nodupKeys_nil : NodupKeys ([] : Map κ ν) := by simp [NodupKeys, keys]

theorem keys_set_of_mem (m : Map κ ν) (k : κ) (v : ν) (h : k ∈ keys m) : keys (set m k v) = keys m := by
  induction m with
  | nil => simp [keys] at h
  | cons hd t ih =>
    obtain ⟨k', v'⟩ := hd
    by_cases hk : k' = k
    · subst hk; simp [set, keys]
    · have : k ∈ keys t := by
        simp only [keys, List.map_cons, List.mem_cons] at h
        rcases h with h | h
        · exact absurd h.symm hk
        · exact h
      simp only [keys] at ih
      simp [set, keys, hk, ih this]

theorem keys_set_of_not_mem (m : Map κ ν) (k : κ) (v : ν) (h : k ∉ keys m) :
    keys (set m k v) = keys m ++ [k] := by
  induction m with
  | nil => simp [set, keys]
  | cons hd t ih =>
    obtain ⟨k', v'⟩ := hd
    have hk : k' ≠ k := by intro e; apply h; simp [keys, e]
    have : k ∉ keys t := by intro e; apply h; simp only [keys, List.map_cons, List.mem_cons]; right; exact e
    simp only [keys] at ih
    simp [set, keys, hk, ih this]

theorem nodupKeys_set (m : Map κ ν) (k : κ) (v : ν) (h : NodupKeys m) : NodupKeys (set m k v) := by
  unfold NodupKeys at *
  by_cases hk : k ∈ keys m
  · rw [keys_set_of_mem _ _ _ hk]; exact h
  · rw [keys_set_of_not_mem _ _ _ hk]
    rw [List.nodup_append]
    refine ⟨h, by simp, ?_⟩
    intro a ha b hb
    simp at hb; subst hb
    intro e; subst e; exact hk ha

theorem keys_del (m : Map κ ν) (k : κ) : keys (del m k) = (keys m).filter (· ≠ k) := by
  induction m with
  | nil => simp [del, keys]
  | cons hd t ih =>
    obtain ⟨k', v'⟩ := hd
    simp only [keys] at ih
    by_cases hk : k' = k
    · subst hk; simp [del, keys, ih]
    · simp [del, keys, hk, ih]

theorem nodupKeys_del (m : Map κ ν) (k : κ) (h : NodupKeys m) : NodupKeys (del m k) := by
  unfold NodupKeys at *
  rw [keys_del]
  exact List.Nodup.sublist List.filter_sublist h

/-! ### sums -/
def total (f : ν → Nat) (m : Map κ ν) : Nat :=
  match m with
  | [] => 0
  | (_, v) :: t => f v + total f t

@[simp] theorem total_nil (f : ν → Nat) : total f ([] : Map κ ν) = 0 := rfl

/-- value of `f` at a key (0 when absent) -/
def valAt (f : ν → Nat) (m : Map κ ν) (k : κ) : Nat :=
  match get m k with
  | some v => f v
  | none => 0

theorem total_set (f : ν → Nat) (m : Map κ ν) (k : κ) (v : ν) :
    total f (set m k v) + valAt f m k = total f m + f v := by
  induction m with
  | nil => simp [set, total, valAt, get]
  | cons hd t ih =>
    obtain ⟨k', v'⟩ := hd
    by_cases hk : k' = k
    · subst hk; simp [set, total, valAt, get]; omega
    · simp only [valAt] at ih
      simp only [set, hk, if_false, total, valAt, get]
      omega

theorem valAt_le_total (f : ν → Nat) (m : Map κ ν) (k : κ) : valAt f m k ≤ total f m := by
  induction m with
  | nil => simp [valAt, get]
  | cons hd t ih =>
    obtain ⟨k', v'⟩ := hd
    by_cases hk : k' = k
    · subst hk; simp [total, valAt, get]
    · simp only [valAt] at ih
      simp only [total, valAt, get, hk, if_false]
      omega

theorem total_del_of_not_mem (f : ν → Nat) (m : Map κ ν) (k : κ) (h : k ∉ keys m) :
    total f (del m k) = total f m := by
  induction m with
  | nil => simp [del]
  | cons hd t ih =>
    obtain ⟨k', v'⟩ := hd
    have hk : k' ≠ k := by intro e; apply h; simp [keys, e]
    have : k ∉ keys t := by intro e; apply h; simp only [keys, List.map_cons, List.mem_cons]; right; exact e
    simp [del, hk, total, ih this]

theorem total_del (f : ν → Nat) (m : Map κ ν) (k : κ) (h : NodupKeys m) :
    total f (del m k) + valAt f m k = total f m := by
  induction m with
  | nil => simp [del, total, valAt, get]
  | cons hd t ih =>
    obtain ⟨k', v'⟩ := hd
    have hnd : NodupKeys t := by
      unfold NodupKeys keys at *; simp only [List.map_cons] at h; exact (List.nodup_cons.mp h).2
    by_cases hk : k' = k
    · subst hk
      have hnot : k' ∉ keys t := by
        unfold NodupKeys keys at h; simp only [List.map_cons] at h; exact (List.nodup_cons.mp h).1
      simp [del, total, valAt, get, total_del_of_not_mem f t k' hnot]; omega
    · have := ih hnd
      simp only [valAt] at this
      simp only [del, hk, if_false, total, valAt, get]
      omega

end Map

/-! ### finite sets as lists -/
abbrev FSet (α : Type) := List α

namespace FSet
variable {α : Type} [DecidableEq α]

def ins (s : FSet α) (a : α) : FSet α := if a ∈ s then s else s ++ [a]
def rem (s : FSet α) (a : α) : FSet α := s.filter (· ≠ a)

@[simp] theorem mem_ins (s : FSet α) (a b : α) : b ∈ ins s a ↔ b = a ∨ b ∈ s := by
  unfold ins; split
  · constructor
    · intro h; exact Or.inr h
    · rintro (h | h)
      · subst h; assumption
      · exact h
  · simp [or_comm]

@[simp] theorem mem_rem (s : FSet α) (a b : α) : b ∈ rem s a ↔ b ∈ s ∧ b ≠ a := by
  simp [rem]

theorem nodup_ins (s : FSet α) (a : α) (h : s.Nodup) : (ins s a).Nodup := by
  unfold ins; split
  · exact h
  · rename_i hna
    rw [List.nodup_append]
    refine ⟨h, by simp, ?_⟩
    intro x hx y hy; simp at hy; subst hy; intro e; subst e; exact hna hx

theorem nodup_rem (s : FSet α) (a : α) (h : s.Nodup) : (rem s a).Nodup := List.Nodup.sublist List.filter_sublist h

end FSet
end SM
