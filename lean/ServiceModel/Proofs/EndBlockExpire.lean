import ServiceModel.Proofs.EndBlockInner
/-!
# End of block, phase 1: `expireBatch` preserves every invariant
-/
namespace SM
open Map

theorem get_foldl_del {κ ν} [DecidableEq κ] (m : Map κ ν) (ids : List κ) (k : κ) :
    Map.get (ids.foldl (fun m r => Map.del m r) m) k = if k ∈ ids then none else Map.get m k := by
  induction ids generalizing m with
  | nil => simp
  | cons a t ih =>
    simp only [List.foldl_cons, List.mem_cons]
    rw [ih, Map.get_del]
    by_cases h1 : k ∈ t
    · simp [h1]
    · by_cases h2 : a = k
      · subst h2; simp
      · have : ¬ k = a := fun e => h2 e.symm
        simp [h1, h2, this]

theorem mem_filter_keys {ν} (m : Map ReqId ν) (P : ReqId → Bool) (r : ReqId) :
    r ∈ (m.filter (fun p => P p.1)).map (·.1) ↔ (Map.get m r).isSome ∧ P r = true := by
  rw [Map.get_isSome_iff_mem_keys]
  unfold Map.keys
  constructor
  · intro h
    obtain ⟨⟨k, v⟩, hm, hk⟩ := List.mem_map.mp h
    simp only at hk; subst hk
    have := List.mem_filter.mp hm
    exact ⟨List.mem_map.mpr ⟨(k, v), this.1, rfl⟩, this.2⟩
  · rintro ⟨h1, h2⟩
    obtain ⟨⟨k, v⟩, hm, hk⟩ := List.mem_map.mp h1
    simp only at hk; subst hk
    exact List.mem_map.mpr ⟨(k, v), List.mem_filter.mpr ⟨hm, h2⟩, rfl⟩

/-- request records after `cleanBatch` -/
theorem cleanBatch_reqs (s : State) (c : CtxId) (b : Nat) (r : ReqId) :
    Map.get (cleanBatch s c b).reqs r = if r.ctx = c ∧ r.batch = b then none else Map.get s.reqs r := by
  unfold cleanBatch; dsimp only
  rw [get_foldl_del]
  have := mem_filter_keys s.reqs (fun r => decide (r.ctx = c ∧ r.batch = b)) r
  simp only [decide_eq_true_eq] at this
  by_cases hm : r.ctx = c ∧ r.batch = b
  · rw [if_pos hm]
    cases hq : Map.get s.reqs r with
    | none => simp
    | some q => rw [if_pos (this.mpr ⟨by rw [hq]; rfl, hm⟩)]
  · rw [if_neg hm, if_neg (fun hh => hm (this.mp hh).2)]

/-- response records after `cleanBatch`: those whose request record is removed -/
theorem cleanBatch_resps (s : State) (c : CtxId) (b : Nat) (r : ReqId) :
    Map.get (cleanBatch s c b).resps r =
      if (Map.get s.reqs r).isSome ∧ r.ctx = c ∧ r.batch = b then none else Map.get s.resps r := by
  unfold cleanBatch; dsimp only
  rw [get_foldl_del]
  have := mem_filter_keys s.reqs (fun r => decide (r.ctx = c ∧ r.batch = b)) r
  simp only [decide_eq_true_eq] at this
  by_cases hm : (Map.get s.reqs r).isSome ∧ r.ctx = c ∧ r.batch = b
  · rw [if_pos hm, if_pos (this.mpr hm)]
  · rw [if_neg hm, if_neg (fun hh => hm (this.mp hh))]

theorem cleanBatch_frame (s : State) (c : CtxId) (b : Nat) :
    cleanBatch s c b = { s with reqs := (cleanBatch s c b).reqs, resps := (cleanBatch s c b).resps } := rfl

theorem Map.del_set {κ ν} [DecidableEq κ] (m : Map κ ν) (k : κ) (v : ν) (h : (Map.get m k).isSome) :
    Map.del (Map.set m k v) k = Map.del m k := by
  induction m with
  | nil => simp [Map.get] at h
  | cons hd t ih =>
    obtain ⟨k', v'⟩ := hd
    by_cases hk : k' = k
    · subst hk; simp [Map.set, Map.del]
    · simp only [Map.get, hk, if_false] at h
      simp [Map.set, Map.del, hk, ih h]

theorem mem_sortReqIds (l : List ReqId) (r : ReqId) : r ∈ sortReqIds l ↔ r ∈ l := by
  unfold sortReqIds; exact (isort_perm _ l).mem_iff

theorem nodup_sortReqIds (l : List ReqId) (h : l.Nodup) : (sortReqIds l).Nodup := by
  unfold sortReqIds
  exact (isort_perm _ l).nodup_iff.mpr h

end SM

namespace SM
open Map

/-- the context record with which a batch's expiry ends: the stored one with its batch completed -/
structure Completed (x x1 : Ctx) : Prop where
  cons : x1.cons = x.cons
  svc : x1.svc = x.svc
  batch : x1.batch = x.batch
  super : x1.super = x.super
  timeout : x1.timeout = x.timeout
  rep : x1.rep = x.rep
  freq : x1.freq = x.freq
  bstate : x1.bstate = .completed
  provs : x1.provs = x.provs
  cap : x1.cap = x.cap

set_option maxHeartbeats 1600000 in
/-- second half of the expiry of a batch: every invariant holds again -/
theorem expireTail_inv (s : State) (c : CtxId) (x x1 : Ctx) (h : Inv s)
    (hx : Map.get s.ctxs c = some x) (hexp : Map.get s.expH c = some s.height)
    (hnoact : ∀ r, r ∈ s.activeI → r.ctx ≠ c) (hc : Completed x x1) :
    Inv (expireTail s c x1).1 := by
  have hwfx := h.x.ctxWF c x hx
  have hwf1 : ctxOK x1 := by unfold ctxOK; rw [hc.timeout, hc.rep, hc.freq]; exact hwfx
  -- request / response records of the context all belong to the batch being cleaned
  have hreqb : ∀ r q, Map.get s.reqs r = some q → r.ctx = c → r.batch = x1.batch := by
    intro r q hq hrc
    obtain ⟨y, hy, hb, _⟩ := h.x.reqCtx r q hq
    rw [hrc, hx] at hy; injection hy with hy; subst hy
    rw [hc.batch]; exact hb
  -- what `cleanBatch` leaves, in the form the invocation-world lemma wants
  have hreqs : ∀ (s' : State), s'.reqs = s.reqs → ∀ r,
      Map.get (cleanBatch s' c x1.batch).reqs r = if r.ctx = c then none else Map.get s.reqs r := by
    intro s' he r
    rw [cleanBatch_reqs, he]
    by_cases hrc : r.ctx = c
    · rw [if_pos hrc]
      cases hq : Map.get s.reqs r with
      | none => simp
      | some q => rw [if_pos ⟨hrc, hreqb r q hq hrc⟩]
    · rw [if_neg hrc, if_neg (fun hh => hrc hh.1)]
  have hresps : ∀ (s' : State), s'.reqs = s.reqs → s'.resps = s.resps → ∀ r,
      Map.get (cleanBatch s' c x1.batch).resps r = if r.ctx = c then none else Map.get s.resps r := by
    intro s' he he2 r
    rw [cleanBatch_resps, he, he2]
    by_cases hrc : r.ctx = c
    · rw [if_pos hrc]
      cases hp : Map.get s.resps r with
      | none => simp
      | some p =>
        have := (h.x.respReq r (by rw [hp]; rfl)).1
        cases hq : Map.get s.reqs r with
        | none => rw [hq] at this; simp at this
        | some q => rw [if_pos ⟨by rfl, hrc, hreqb r q hq hrc⟩]
    · rw [if_neg hrc, if_neg (fun hh => hrc hh.2.1)]
  -- the invocation world with the context parked (not running)
  have hcore : ∀ (xp : Ctx) (s' : State), s'.reqs = s.reqs → s'.resps = s.resps →
      xp.cons = x.cons → xp.svc = x.svc → xp.batch = x.batch → ctxOK xp → xp.bstate = .completed → xp.state ≠ .running →
      XInv s.cfg s.height (Map.set s.ctxs c xp) (FSet.rem s.expQ (s.height, c)) s.newQ (Map.del s.expH c) s.newH s.usedIds
        (cleanBatch s' c x1.batch).reqs s.activeB s.activeI (cleanBatch s' c x1.batch).resps := by
    intro xp s' he he2 p1 p2 p3 p4 p5 p6
    refine XInv.expireCore h.x hx hexp p1 p2 p3 p4 p5 p6 ?_ ?_ h.x.activeNodup (fun _ _ => rfl) (hreqs s' he) (hresps s' he he2)
    · intro r; exact ⟨fun hr => ⟨hr, hnoact r hr⟩, fun hr => hr.1⟩
    · intro t
      refine ⟨fun ht => ⟨ht, ?_⟩, fun ht => ht.1⟩
      obtain ⟨sv, p, e, r⟩ := t
      exact hnoact r ((h.x.activeMirror sv p e r).mp ht).1
  have hnewnone : Map.get s.newH c = none := by
    rcases h.x.single c with hn | he
    · exact hn
    · rw [he] at hexp; simp at hexp
  -- money and bound worlds after cleaning
  have hM : ∀ (s' : State), s'.reqs = s.reqs → MInv (balOf s.bank.bal s.cfg.escrow) (cleanBatch s' c x1.batch).reqs
      s.activeI s.earned s.ownerEarned s.owner := by
    intro s' he
    refine MInv.reqsIrrelevant h.m ?_
    intro r hr
    rw [hreqs s' he r, if_neg (hnoact r hr)]
  have hsub : ∀ (s' : State), s'.reqs = s.reqs → ∀ r q, Map.get (cleanBatch s' c x1.batch).reqs r = some q →
      Map.get s.reqs r = some q ∧ r.ctx ≠ c := by
    intro s' he r q hq
    rw [hreqs s' he r] at hq
    split at hq
    · simp at hq
    · exact ⟨hq, by assumption⟩
  unfold expireTail
  dsimp only
  cases hst : x1.state with
  | paused =>
    dsimp only
    refine { static := h.static, b := h.b, x := ?_, m := hM _ rfl, bound := ?_ }
    · exact hcore x1 _ rfl rfl hc.cons hc.svc hc.batch hwf1 hc.bstate (by rw [hst]; simp)
    · refine BoundInv.setCtx (BoundInv.reqsSub h.bound (fun r q hq => (hsub _ rfl r q hq).1)) hx ⟨hc.svc, hc.super⟩
  | completed =>
    dsimp only
    have hX0 := hcore { x1 with state := .paused } (delCtx (setCtx (delExpQ s c s.height) c x1) c) rfl rfl
      hc.cons hc.svc hc.batch hwf1 hc.bstate (by simp)
    have hX1 := XInv.delCtx (c := c) hX0 hnewnone (Map.get_del_same _ _) (fun r q hq => (hsub _ rfl r q hq).2)
    rw [Map.del_set _ _ _ (by rw [hx]; rfl)] at hX1
    refine { static := h.static, b := h.b, x := ?_, m := hM _ rfl, bound := ?_ }
    · have : Map.del (Map.set s.ctxs c x1) c = Map.del s.ctxs c := Map.del_set _ _ _ (by rw [hx]; rfl)
      show XInv _ _ (Map.del (Map.set s.ctxs c x1) c) _ _ _ _ _ _ _ _ _
      rw [this]; exact hX1
    · refine BoundInv.ctxsOther (c := c) (BoundInv.reqsSub h.bound (fun r q hq => (hsub _ rfl r q hq).1)) ?_ ?_
      · intro r q hq; exact (hsub _ rfl r q hq).2
      · intro c2 hc2
        show Map.get (Map.del (Map.set s.ctxs c x1) c) c2 = _
        rw [Map.get_del_other _ _ _ (fun e => hc2 e.symm), Map.get_set_other _ _ _ _ (fun e => hc2 e.symm)]
  | running =>
    dsimp only
    split
    · -- next batch queued
      rename_i hmore
      have hX0 := hcore { x1 with state := .paused } (addNewQ (setCtx (delExpQ s c s.height) c x1) c (s.height - x1.timeout + x1.freq)) rfl rfl
        hc.cons hc.svc hc.batch hwf1 hc.bstate (by simp)
      have hfut : s.height ≤ s.height - x1.timeout + (x1.freq : Int) := by
        have := hwf1.2 hmore.1; omega
      have hX1 := XInv.setCtxAddNew (c := c) (x' := x1) (hh := s.height - x1.timeout + x1.freq) hX0
        (Map.get_set_same _ _ _) ⟨rfl, rfl, rfl, rfl, rfl, rfl⟩ hwf1 hfut hnewnone (Map.get_del_same _ _)
      rw [Map.set_set] at hX1
      refine { static := h.static, b := h.b, x := hX1, m := hM _ rfl, bound := ?_ }
      refine BoundInv.setCtx (BoundInv.reqsSub h.bound (fun r q hq => (hsub _ rfl r q hq).1)) hx ⟨hc.svc, hc.super⟩
    · -- finished: removed
      have hX0 := hcore { x1 with state := .paused } (delCtx (setCtx (delExpQ s c s.height) c x1) c) rfl rfl
        hc.cons hc.svc hc.batch hwf1 hc.bstate (by simp)
      have hX1 := XInv.delCtx (c := c) hX0 hnewnone (Map.get_del_same _ _) (fun r q hq => (hsub _ rfl r q hq).2)
      rw [Map.del_set _ _ _ (by rw [hx]; rfl)] at hX1
      refine { static := h.static, b := h.b, x := ?_, m := hM _ rfl, bound := ?_ }
      · have : Map.del (Map.set s.ctxs c x1) c = Map.del s.ctxs c := Map.del_set _ _ _ (by rw [hx]; rfl)
        show XInv _ _ (Map.del (Map.set s.ctxs c x1) c) _ _ _ _ _ _ _ _ _
        rw [this]; exact hX1
      · refine BoundInv.ctxsOther (c := c) (BoundInv.reqsSub h.bound (fun r q hq => (hsub _ rfl r q hq).1)) ?_ ?_
        · intro r q hq; exact (hsub _ rfl r q hq).2
        · intro c2 hc2
          show Map.get (Map.del (Map.set s.ctxs c x1) c) c2 = _
          rw [Map.get_del_other _ _ _ (fun e => hc2 e.symm), Map.get_set_other _ _ _ _ (fun e => hc2 e.symm)]

end SM

namespace SM
open Map

/-- first half of the expiry of a batch -/
theorem expirePending_spec (s : State) (c : CtxId) (x : Ctx) (h : Inv s) (hx : Map.get s.ctxs c = some x)
    (hnp : (expirePending s c x).1.panic = none) :
    Inv (expirePending s c x).1.s ∧ EFrame s (expirePending s c x).1.s ∧
    (∀ r, r ∈ (expirePending s c x).1.s.activeI → r.ctx ≠ c) ∧ Completed x (expirePending s c x).2 ∧
    (expirePending s c x).2.state = x.state ∧ (expirePending s c x).2.total = x.total ∧ (expirePending s c x).2.mod = x.mod := by
  unfold expirePending at hnp ⊢
  split
  · rename_i hb
    rw [if_pos hb] at hnp
    dsimp only at hnp ⊢
    have hids : ∀ r, r ∈ sortReqIds (s.activeI.filter (fun r => r.ctx = c ∧ r.batch = x.batch)) → r ∈ s.activeI ∧ r.ctx = c := by
      intro r hr
      rw [mem_sortReqIds] at hr
      have := List.mem_filter.mp hr
      simp only [decide_eq_true_eq] at this
      exact ⟨this.1, this.2.1⟩
    have hnd := nodup_sortReqIds _ (List.Nodup.sublist (List.filter_sublist (p := fun r => decide (r.ctx = c ∧ r.batch = x.batch))) h.x.activeNodup)
    obtain ⟨i1, i2, i3⟩ := expireFold_inv x c _ s h hx hids hnd hnp
    refine ⟨i1, i2, ?_, ⟨rfl, rfl, rfl, rfl, rfl, rfl, rfl, rfl, rfl, rfl⟩, rfl, rfl, rfl⟩
    intro r hr hrc
    obtain ⟨hr1, hr2⟩ := (i3 r).mp hr
    apply hr2
    rw [mem_sortReqIds]
    refine List.mem_filter.mpr ⟨hr1, ?_⟩
    simp only [decide_eq_true_eq]
    refine ⟨hrc, ?_⟩
    obtain ⟨q, hq⟩ : ∃ q, Map.get s.reqs r = some q := by
      cases hh : Map.get s.reqs r with
      | none => have := h.x.activeReq r hr1; rw [hh] at this; simp at this
      | some q => exact ⟨q, rfl⟩
    obtain ⟨y, hy, hbb, _⟩ := h.x.reqCtx r q hq
    rw [hrc, hx] at hy; injection hy with hy; subst hy; exact hbb
  · rename_i hb
    have hbc : x.bstate = .completed := by
      cases hh : x.bstate with
      | completed => rfl
      | running => rw [hh] at hb; simp at hb
    refine ⟨h, ⟨rfl, rfl, rfl, rfl, rfl, rfl, rfl, rfl, rfl, rfl, rfl, rfl⟩, ?_, ⟨rfl, rfl, rfl, rfl, rfl, rfl, rfl, hbc, rfl, rfl⟩, rfl, rfl, rfl⟩
    intro r hr hrc
    obtain ⟨y, hy, hyb⟩ := h.x.activeRunning r hr
    rw [hrc, hx] at hy; injection hy with hy; subst hy
    rw [hbc] at hyb; cases hyb

/-- the expiry handler of one queue entry preserves every invariant -/
theorem expireBatch_inv (s : State) (c : CtxId) (h : Inv s) (hnp : (expireBatch s c).panic = none) :
    Inv (expireBatch s c).s := by
  unfold expireBatch at hnp ⊢
  split
  · exact h
  · rename_i hq
    rw [if_neg hq] at hnp
    have hmem : (s.height, c) ∈ s.expQ := by simpa using hq
    have hexp := (h.x.expMirror s.height c).mp hmem
    cases hx : Map.get s.ctxs c with
    | none => have := (h.x.expFuture c s.height hexp).2; rw [hx] at this; simp at this
    | some x =>
      rw [hx] at hnp
      dsimp only at hnp ⊢
      rcases Option.eq_none_or_eq_some (expirePending s c x).1.panic with hp | ⟨m, hp⟩
      · simp only [hp]
        obtain ⟨i1, i2, i3, i4, _, _⟩ := expirePending_spec s c x h hx hp
        refine expireTail_inv _ c x _ i1 ?_ ?_ i3 i4
        · rw [i2.2.2.2.2.1]; exact hx
        · rw [i2.2.2.2.2.2.2.2.1, i2.2.2.1]; exact hexp
      · simp only [hp] at hnp
        cases hnp

end SM
