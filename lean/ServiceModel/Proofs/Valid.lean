import ServiceModel.Proofs.CtxOrigin
import ServiceModel.Proofs.Stable
import ServiceModel.Model.Genesis
/-!
# Every stored definition, binding and withdraw-address key is valid on its own (C15, C19)

`RecOK s`: the records of `s` pass the per-record rules of `ValidateGenesis` (on the fields the model
carries). It holds in every reachable state: a record is written only by a message that passed stateless
validation (`validateBasic`), and the later rewrites of a binding (update, enable, disable, refund, slash)
keep its key, its owner and a positive QoS. For the withdraw-address keys the 20-byte length of the signing
owner is the environment assumption E1 (carried by `WF`).
-/
namespace SM
open Map

structure RecOK (s : State) : Prop where
  defs : ∀ n d, get s.defs n = some d → defValid n d = true
  binds : ∀ k b, get s.bindings k = some b → bindingValid k b = true
  wd : ∀ o a, get s.withdraw o = some a → wdKeyValid o = true

/-- `s'` keeps the records valid if `s` did -/
def VK (s s' : State) : Prop := RecOK s → RecOK s'

theorem VK.refl (s : State) : VK s s := fun h => h
theorem VK.trans {a b c : State} (h1 : VK a b) (h2 : VK b c) : VK a c := fun h => h2 (h1 h)
theorem VK.of_eq {s s' : State} (h1 : s'.defs = s.defs) (h2 : s'.bindings = s.bindings) (h3 : s'.withdraw = s.withdraw) :
    VK s s' := fun h =>
  ⟨fun n d hd => h.defs n d (by rw [← h1]; exact hd), fun k b hb => h.binds k b (by rw [← h2]; exact hb),
   fun o a hw => h.wd o a (by rw [← h3]; exact hw)⟩

/-- rewriting one existing binding, keeping its owner and a positive QoS -/
theorem VK.setBinding {s s' : State} {k : SvcName × Addr} {b b' : Binding} (hb : get s.bindings k = some b)
    (h2 : s'.bindings = set s.bindings k b') (ho : b'.owner = b.owner) (hq : 0 < b.qos → 0 < b'.qos)
    (h1 : s'.defs = s.defs) (h3 : s'.withdraw = s.withdraw) : VK s s' := fun h =>
  ⟨fun n d hd => h.defs n d (by rw [← h1]; exact hd),
   fun k2 b2 hb2 => by
     rw [h2, Map.get_set] at hb2
     by_cases hk : k = k2
     · subst hk
       simp only [if_true, Option.some.injEq] at hb2; subst hb2
       have hv := h.binds k b hb
       unfold bindingValid at hv ⊢
       simp only [Bool.and_eq_true, decide_eq_true_eq, ne_eq] at hv ⊢
       rw [ho]
       exact ⟨hv.1, hq hv.2⟩
     · simp only [hk, if_false] at hb2; exact h.binds k2 b2 hb2,
   fun o a hw => h.wd o a (by rw [← h3]; exact hw)⟩

macro "vk_tac" f:ident : tactic =>
  `(tactic| (unfold $f; (try dsimp only); repeat' split
             all_goals first
               | exact VK.refl _
               | exact VK.of_eq rfl rfl rfl
               | (simp only [setCtx, addNewQ, addExpQ, delNewQ, delExpQ, delCtx, fail, panicOut]; exact VK.of_eq rfl rfl rfl)))

theorem pauseK_vk (s : State) (c : CtxId) (cons : Addr) : VK s (pauseK s c cons).1 := by vk_tac pauseK
theorem startK_vk (s : State) (c : CtxId) (cons : Addr) : VK s (startK s c cons).1 := by vk_tac startK
theorem killK_vk (s : State) (c : CtxId) (cons : Addr) : VK s (killK s c cons).1 := by vk_tac killK
theorem updateK_vk (s : State) (c : CtxId) (cons : Addr) (provs : List Addr) (thr : Nat) (cap : Option Nat)
    (timeout : Int) (freq : Nat) (total : Int) : VK s (updateK s c cons provs thr cap timeout freq total).1 := by
  vk_tac updateK
theorem createCtx_vk (s : State) (id : CtxId) (mod : ModName) (svc : SvcName) (provs : List Addr) (cons : Addr)
    (cap : Option Nat) (timeout : Int) (super rep : Bool) (freq : Nat) (total : Int) (inputOk running : Bool) (thr : Nat) :
    VK s (createCtx s id mod svc provs cons cap timeout super rep freq total inputOk running thr).1 := by
  vk_tac createCtx
theorem ctxMsg_vk (s : State) (c : CtxId) (cons : Addr) (k : State → Out) (hk : VK s (k s).1) :
    VK s (ctxMsg s c cons k).1 := by
  unfold ctxMsg; split
  · exact VK.refl s
  · exact hk

theorem slash_vk {s s1 : State} {r : ReqId} {svc : SvcName} {p : Addr} {e : List Effect}
    (h : slash s r svc p = .done s1 e) : VK s s1 := by
  unfold slash at h
  cases hb : get s.bindings (svc, p) with
  | none => rw [hb] at h; injection h with h1 _; subst h1; exact VK.refl s
  | some b =>
    rw [hb] at h; dsimp only at h
    split at h; · cases h
    cases hbk : bankBurn s.bank s.cfg.deposit (b.deposit * s.params.slash / decUnit) with
    | none => rw [hbk] at h; cases h
    | some bank' =>
      rw [hbk] at h; dsimp only at h
      split at h
      · cases hmd : minDeposit s.params (storedPricing s svc p) with
        | none => rw [hmd] at h; cases h
        | some md =>
          rw [hmd] at h; dsimp only at h
          injection h with h1 _; subst h1
          refine VK.setBinding hb rfl ?_ ?_ rfl rfl
          · split <;> rfl
          · split <;> exact fun h => h
      · injection h with h1 _; subst h1
        exact VK.setBinding hb rfl rfl (fun h => h) rfl rfl

theorem settle_vk {s s1 : State} {r : ReqId} {svc : SvcName} {cons : Addr} {q : Req} {prov : Addr} {out : OutKind}
    {e1 : List Effect} (h : settle s r svc cons q prov out = .ok (s1, e1)) : VK s s1 := by
  unfold settle at h
  split at h
  · cases hs : slash s r svc q.prov with
    | bankErr => rw [hs] at h; simp at h
    | overflow => rw [hs] at h; simp at h
    | done s2 e2 =>
      rw [hs] at h; dsimp only at h
      cases hb : bankSend s2.bank s2.cfg.escrow cons q.fee with
      | none => rw [hb] at h; simp at h
      | some bank' =>
        rw [hb] at h
        simp only [Except.ok.injEq, Prod.mk.injEq] at h
        obtain ⟨h1, _⟩ := h; subst h1
        exact (slash_vk hs).trans (VK.of_eq rfl rfl rfl)
  · cases ha : addEarned s prov q.fee with
    | none => rw [ha] at h; simp at h
    | some res =>
      rw [ha] at h; simp only [Except.ok.injEq] at h; subst h
      obtain ⟨bank', ea, oe, hs⟩ := addEarned_shape ha
      subst hs; exact VK.of_eq rfl rfl rfl

theorem respond_vk (s : State) (r : ReqId) (pv : Addr) (code : Nat) (out : OutKind) :
    VK s (respond s r pv code out).1 := by
  unfold respond
  cases hq : get s.reqs r with
  | none => exact VK.refl s
  | some q =>
    dsimp only
    cases hx : get s.ctxs r.ctx with
    | none => exact VK.refl s
    | some x =>
      dsimp only
      split; · exact VK.refl s
      split; · exact VK.refl s
      cases hs : settle s r x.svc x.cons q pv out with
      | error res => exact VK.refl s
      | ok res =>
        obtain ⟨s1, e1⟩ := res
        dsimp only
        have h1 := settle_vk hs
        split
        · exact h1.trans (VK.of_eq rfl rfl rfl)
        · exact h1.trans (VK.of_eq rfl rfl rfl)

theorem withdraw_vk (s : State) (o p : Addr) : VK s (withdraw s o p).1 := by
  unfold withdraw
  split; · exact VK.refl s
  cases hw : withdrawRecords s o p with
  | error r => exact VK.refl s
  | ok res =>
    obtain ⟨s1, amt⟩ := res
    dsimp only
    have h1 : VK s s1 := by
      unfold withdrawRecords at hw
      repeat' split at hw
      all_goals first
        | (cases hw; done)
        | (simp only [Except.ok.injEq, Prod.mk.injEq] at hw; obtain ⟨e1, _⟩ := hw; subst e1; exact VK.of_eq rfl rfl rfl)
    split; · exact VK.refl s
    split
    · exact VK.refl s
    · exact h1.trans (VK.of_eq rfl rfl rfl)

/-! ### the messages that write records -/
theorem define_vk (s : State) (n : SvcName) (a : Addr) (ok : Bool) (hvb : defineVB n a ok = true) :
    VK s (define s n a).1 := by
  unfold define
  split
  · exact VK.refl s
  · intro h
    refine ⟨?_, h.binds, h.wd⟩
    intro n2 d hd
    have hd' : get (set s.defs n ⟨a⟩) n2 = some d := hd
    rw [Map.get_set] at hd'
    by_cases hn : n = n2
    · subst hn
      simp only [if_true, Option.some.injEq] at hd'; subst hd'
      unfold defineVB at hvb
      simp only [Bool.and_eq_true, decide_eq_true_eq, ne_eq] at hvb
      unfold defValid
      simp only [Bool.and_eq_true, decide_eq_true_eq, ne_eq]
      exact ⟨hvb.1.1, hvb.1.2⟩
    · simp only [hn, if_false] at hd'; exact h.defs n2 d hd'

theorem setwd_vk (s : State) (o a : Addr) (hlen : o.length = 40) : VK s (setwd s o a).1 := by
  intro h
  refine ⟨h.defs, h.binds, ?_⟩
  intro o2 a2 hw
  have hw' : get (set s.withdraw o a) o2 = some a2 := hw
  rw [Map.get_set] at hw'
  by_cases ho : o = o2
  · subst ho; unfold wdKeyValid; simpa using hlen
  · simp only [ho, if_false] at hw'; exact h.wd o2 a2 hw'

theorem disable_vk (s : State) (svc : SvcName) (p o : Addr) : VK s (disable s svc p o).1 := by
  unfold disable
  cases hb : get s.bindings (svc, p) with
  | none => exact VK.refl s
  | some b =>
    dsimp only
    repeat' split
    all_goals first
      | exact VK.refl s
      | exact VK.setBinding hb rfl rfl (fun h => h) rfl rfl

theorem refund_vk (s : State) (svc : SvcName) (p o : Addr) : VK s (refund s svc p o).1 := by
  unfold refund
  cases hb : get s.bindings (svc, p) with
  | none => exact VK.refl s
  | some b =>
    dsimp only
    repeat' split
    all_goals first
      | exact VK.refl s
      | exact VK.setBinding hb rfl rfl (fun h => h) rfl rfl

theorem enable_vk (s : State) (svc : SvcName) (p o : Addr) (dep : Option Nat) : VK s (enable s svc p o dep).1 := by
  unfold enable
  cases hb : get s.bindings (svc, p) with
  | none => exact VK.refl s
  | some b =>
    dsimp only
    repeat' split
    all_goals first
      | exact VK.refl s
      | exact VK.setBinding hb rfl rfl (fun h => h) rfl rfl

theorem update_vk (s : State) (svc : SvcName) (p o : Addr) (dep : Option Nat) (text : Option PricingText) (qos : Nat) :
    VK s (update s svc p o dep text qos).1 := by
  unfold update
  cases hb : get s.bindings (svc, p) with
  | none => exact VK.refl s
  | some b =>
    dsimp only
    have hq : 0 < b.qos → 0 < (if qos ≠ 0 then qos else b.qos) := by
      intro h; split <;> omega
    repeat' split
    all_goals first
      | exact VK.refl s
      | exact VK.of_eq rfl rfl rfl
      | (refine VK.setBinding hb rfl rfl ?_ rfl rfl
         intro hpos
         first
           | exact hpos
           | (show 0 < qos; omega)
           | exact hq hpos)

theorem bind_vk (s : State) (svc : SvcName) (p o : Addr) (dep : Option Nat) (text : PricingText) (qos : Nat)
    (hvb : bindVB svc p o dep (some text) qos = true) : VK s (bind s svc p o dep text qos).1 := by
  have hval : bindingValid (svc, p) { owner := o, deposit := dep.getD 0, avail := true, disabledAt := zeroTime, qos := qos, text := text } = true := by
    unfold bindVB at hvb
    simp only [Bool.and_eq_true, decide_eq_true_eq, ne_eq] at hvb
    unfold bindingValid
    simp only [Bool.and_eq_true, decide_eq_true_eq, ne_eq]
    exact ⟨⟨⟨hvb.1.1.1.1.1, hvb.1.1.1.1.2⟩, hvb.1.1.1.2⟩, hvb.1.2⟩
  unfold bind
  split; · exact VK.refl s
  split; · exact VK.refl s
  split; · exact VK.refl s
  dsimp only
  split; · exact VK.refl s
  cases dep with
  | none => exact VK.refl s
  | some d =>
    dsimp only
    split; · exact VK.refl s
    cases parsePricing text with
    | bad => exact VK.refl s
    | overflow => exact VK.refl s
    | ok pr =>
      dsimp only
      split; · exact VK.refl s
      cases minDeposit s.params pr with
      | none => exact VK.refl s
      | some md =>
        dsimp only
        split; · exact VK.refl s
        cases bankSend s.bank o s.cfg.deposit d with
        | none => exact VK.refl s
        | some bank' =>
          dsimp only
          have hbinds : ∀ (h : RecOK s) k b, get (set s.bindings (svc, p)
              { owner := o, deposit := d, avail := true, disabledAt := zeroTime, qos := qos, text := text }) k = some b →
              bindingValid k b = true := by
            intro h k b hb
            rw [Map.get_set] at hb
            by_cases hk : (svc, p) = k
            · subst hk
              simp only [if_true, Option.some.injEq] at hb; subst hb
              exact hval
            · simp only [hk, if_false] at hb; exact h.binds k b hb
          split
          · exact fun h => ⟨h.defs, hbinds h, h.wd⟩
          · exact fun h => ⟨h.defs, hbinds h, h.wd⟩

/-! ### end of block -/
theorem refundExpired_vk (s1 : State) (e1 : List Effect) (x : Ctx) (q : Req) (r : ReqId) :
    VK s1 (refundExpired s1 e1 x q r).s := by
  unfold refundExpired
  split <;> exact VK.of_eq rfl rfl rfl

theorem expireReq_vk (x : Ctx) (s : State) (r : ReqId) : VK s (expireReq x s r).s := by
  unfold expireReq
  cases hq : get s.reqs r with
  | none => exact VK.of_eq rfl rfl rfl
  | some q =>
    dsimp only
    split; · exact VK.of_eq rfl rfl rfl
    cases hs : slash s r x.svc q.prov with
    | overflow => exact VK.refl s
    | bankErr => exact refundExpired_vk s [] x q r
    | done s1 e1 => exact (slash_vk hs).trans (refundExpired_vk s1 e1 x q r)

theorem foldH_vk {α : Type} (hd : State → α → HRes) (hk : ∀ s a, VK s (hd s a).s) :
    ∀ (l : List α) (s : State), VK s (foldH hd s l).s := by
  intro l
  induction l with
  | nil => intro s; exact VK.refl s
  | cons a t ih =>
    intro s
    rw [foldH_cons]
    split
    · exact hk s a
    · exact (hk s a).trans (ih _)

theorem expireBatch_vk (s : State) (c : CtxId) : VK s (expireBatch s c).s := by
  have hpend : ∀ x, VK s (expirePending s c x).1.s := by
    intro x
    unfold expirePending
    split
    · exact foldH_vk _ (expireReq_vk x) _ s
    · exact VK.refl s
  have htail : ∀ (s : State) (x1 : Ctx), VK s (expireTail s c x1).1 := by
    intro s x1
    unfold expireTail
    dsimp only
    cases x1.state with
    | completed => exact VK.of_eq rfl rfl rfl
    | paused => exact VK.of_eq rfl rfl rfl
    | running => dsimp only; split <;> exact VK.of_eq rfl rfl rfl
  unfold expireBatch
  split; · exact VK.refl s
  cases get s.ctxs c with
  | none => exact VK.of_eq rfl rfl rfl
  | some x =>
    dsimp only
    split
    · exact hpend x
    · exact (hpend x).trans (htail _ _)

theorem newBatch_vk (s : State) (c : CtxId) : VK s (newBatch s c).s := by
  have hissue : ∀ (bank' : Bank) (x : Ctx) (el : List (Addr × Nat)) (ep : List Effect),
      VK s (issueBatch s bank' c x el ep).1 := by
    intro bank' x el ep
    unfold issueBatch
    dsimp only [addExpQ, setCtx]
    refine VK.of_eq ?_ ?_ ?_
    · exact issueReqs_proj (·.defs) (fun _ _ _ _ _ _ _ => rfl) _ c x el 0
    · exact issueReqs_proj (·.bindings) (fun _ _ _ _ _ _ _ => rfl) _ c x el 0
    · exact issueReqs_proj (·.withdraw) (fun _ _ _ _ _ _ _ => rfl) _ c x el 0
  have hstart : ∀ x, VK s (startOrSkip s c x).1 := by
    intro x
    unfold startOrSkip
    split
    · split
      · exact hissue _ _ _ _
      · cases bankSend s.bank x.cons s.cfg.escrow (sumPrices (eligible s x)) with
        | some bk => exact hissue _ _ _ _
        | none => exact VK.of_eq rfl rfl rfl
    · exact VK.of_eq rfl rfl rfl
  unfold newBatch
  split; · exact VK.refl s
  cases get s.ctxs c with
  | none => exact VK.of_eq rfl rfl rfl
  | some x =>
    dsimp only
    split; · exact VK.of_eq rfl rfl rfl
    split; · exact VK.of_eq rfl rfl rfl
    exact (hstart x).trans (VK.of_eq rfl rfl rfl)

theorem endBlock_vk (s : State) (dt : Int) : VK s (endBlock s dt).s := by
  unfold endBlock
  dsimp only
  have h1 := foldH_vk expireBatch expireBatch_vk (queuedAt s.expQ s.height) s
  split
  · exact h1
  · have h2 := foldH_vk newBatch newBatch_vk
      (queuedAt (foldH expireBatch s (queuedAt s.expQ s.height)).s.newQ (foldH expireBatch s (queuedAt s.expQ s.height)).s.height)
      (foldH expireBatch s (queuedAt s.expQ s.height)).s
    split
    · exact h1.trans h2
    · exact h1.trans (h2.trans (VK.of_eq rfl rfl rfl))

/-! ### every step -/
theorem exec_vk (s : State) (op : Op) (hw : WF s op) (hvb : validateBasic op = true) : VK s (exec s op).1 := by
  cases op with
  | fund a n => exact VK.of_eq rfl rfl rfl
  | xfer a b n =>
    show VK s (match bankSend s.bank a b n with
      | none => fail s Err.insufficientFunds
      | some bank' => ({ s with bank := bank' }, Res.ok, [])).1
    split
    · exact VK.refl s
    · exact VK.of_eq rfl rfl rfl
  | define n a ok => exact define_vk s n a ok hvb
  | bind svc p o dep text qos =>
    cases text with
    | none => exact VK.refl s
    | some t => exact bind_vk s svc p o dep t qos hvb
  | update svc p o dep text qos => exact update_vk s svc p o dep text qos
  | setwd o a => exact setwd_vk s o a hw.2
  | disable svc p o => exact disable_vk s svc p o
  | enable svc p o dep => exact enable_vk s svc p o dep
  | refund svc p o => exact refund_vk s svc p o
  | call id svc provs cons cap timeout super rep freq total inputOk =>
    show VK s (if s.cfg.modsvc = some svc then panicOut s "module-service call: outside the model"
      else createCtx s id "" svc provs cons cap timeout super rep freq total inputOk true 0).1
    split
    · exact VK.refl s
    · exact createCtx_vk s id "" svc provs cons cap timeout super rep freq total inputOk true 0
  | modcreate id mod svc provs cons cap timeout super rep freq total inputOk running thr =>
    exact createCtx_vk s id mod svc provs cons cap timeout super rep freq total inputOk running thr
  | respond r p code out => exact respond_vk s r p code out
  | pause c cons => exact ctxMsg_vk s c cons _ (pauseK_vk s c cons)
  | start c cons => exact ctxMsg_vk s c cons _ (startK_vk s c cons)
  | kill c cons => exact ctxMsg_vk s c cons _ (killK_vk s c cons)
  | updatectx c cons provs cap timeout freq total =>
    exact ctxMsg_vk s c cons _ (updateK_vk s c cons provs 0 cap timeout freq total)
  | modpause c cons => exact pauseK_vk s c cons
  | modstart c cons => exact startK_vk s c cons
  | modkill c cons => exact killK_vk s c cons
  | modupdate c cons provs thr cap timeout freq total => exact updateK_vk s c cons provs thr cap timeout freq total
  | withdraw o p => exact withdraw_vk s o p
  | endblock dt =>
    show VK s (match (endBlock s dt).panic with
        | some m => (s, Res.panic m, (endBlock s dt).effs)
        | none => ((endBlock s dt).s, Res.ok, (endBlock s dt).effs)).1
    split
    · exact VK.refl s
    · exact endBlock_vk s dt

theorem step_vk (s : State) (op : Op) (hw : WF s op) : VK s (step s op).1 := by
  rcases step_state s op with h1 | ⟨h1, _, hvb⟩
  · rw [h1]; exact VK.refl s
  · rw [h1]; exact exec_vk s op hw hvb

/-- in every reachable state every stored definition, binding and withdraw-address key is valid on its own -/
theorem recOK {cfg : Config} {p : Params} {h0 t0 : Int} {s : State} (hr : Reachable cfg p h0 t0 s) : RecOK s := by
  induction hr with
  | init => exact ⟨fun n d h => by simp [genesis, Map.get] at h, fun k b h => by simp [genesis, Map.get] at h,
                   fun o a h => by simp [genesis, Map.get] at h⟩
  | step op _ hw ih => exact step_vk _ op hw ih

end SM
