import ServiceModel.Proofs.MonitorSound
import ServiceModel.Proofs.StoreKeys
/-!
# The scheduling and request monitors (C11, C16) are implied by the invariants

`queues` and `requests` (`Inv/Monitors.lean`) walk the raw lists of the decoded state. With `Keys1` (one record per
key in every map, `Proofs/StoreKeys.lean`) a raw entry is what a point lookup sees, and every test of the two monitors
is a clause of `XInv`. So an alarm of one of them on an implementation state means that the state is not one the
model can reach — on every chain, with any number of restarts.
-/
namespace SM
open Mon Map

theorem chk_nil {b : Bool} {msg : String} (h : b = true) : chk b msg = [] := by unfold chk; rw [if_pos h]

theorem queues_sound {s : State} (h : Inv s) (k : Keys1 s) : queues s = [] := by
  have hx := h.x
  unfold queues
  simp only [List.append_eq_nil_iff, List.flatMap_eq_nil_iff]
  refine ⟨⟨⟨⟨⟨⟨⟨⟨?_, ?_⟩, ?_⟩, ?_⟩, ?_⟩, ?_⟩, ?_⟩, ?_⟩, ?_⟩
  · intro p hp
    apply chk_nil
    have := (hx.newMirror p.1 p.2).mp hp
    simp [this]
  · intro p hp
    apply chk_nil
    have hg := get_of_mem_nodupKeys k.newH hp
    have := (hx.newMirror p.2 p.1).mpr hg
    simpa using this
  · intro p hp
    apply chk_nil
    have := (hx.expMirror p.1 p.2).mp hp
    simp [this]
  · intro p hp
    apply chk_nil
    have hg := get_of_mem_nodupKeys k.expH hp
    have := (hx.expMirror p.2 p.1).mpr hg
    simpa using this
  · intro p hp
    apply chk_nil
    have hg := get_of_mem_nodupKeys k.newH hp
    rcases hx.single p.1 with h1 | h1
    · rw [h1] at hg; cases hg
    · rw [h1]; rfl
  · intro p hp
    apply chk_nil
    have hg := get_of_mem_nodupKeys k.newH hp
    obtain ⟨a, b⟩ := hx.newFuture p.1 p.2 hg
    simp [a, b]
  · intro p hp
    apply chk_nil
    have hg := get_of_mem_nodupKeys k.expH hp
    obtain ⟨a, b⟩ := hx.expFuture p.1 p.2 hg
    simp [a, b]
  · intro p hp
    apply chk_nil
    have hg := get_of_mem_nodupKeys k.ctxs hp
    by_cases hr : p.2.state = .running
    · rcases hx.runningQ p.1 p.2 hg hr with h1 | h1
      · simp [h1]
      · simp [h1]
    · simp [hr]
  · apply chk_nil
    simp [k.newQ, k.expQ]

theorem requests_sound {s : State} (h : Inv s) (k : Keys1 s) : requests s = [] := by
  have hx := h.x
  unfold requests
  simp only [List.append_eq_nil_iff, List.flatMap_eq_nil_iff]
  refine ⟨⟨⟨⟨⟨?_, ?_⟩, ?_⟩, ?_⟩, ?_⟩, ?_⟩
  · intro p hp
    have hg := get_of_mem_nodupKeys k.reqs hp
    obtain ⟨x, hxc, hb, he⟩ := hx.reqCtx p.1 p.2 hg
    rw [hxc]
    dsimp only
    rw [chk_nil (by simp [hb]), chk_nil (by simp [he])]
    rfl
  · intro r hr
    exact chk_nil (hx.activeReq r hr)
  · intro p hp
    obtain ⟨svc, pv, e, r⟩ := p
    obtain ⟨hact, q, x, hq, hxc, e1, e2, e3⟩ := (hx.activeMirror svc pv e r).mp hp
    dsimp only
    rw [hq, hxc]
    dsimp only
    rw [chk_nil (by simpa using hact), chk_nil (by simp [e1, e2, e3])]
    exact ⟨rfl, rfl⟩
  · intro r hr
    apply chk_nil
    obtain ⟨q, hq⟩ : ∃ q, get s.reqs r = some q := by
      cases hh : get s.reqs r with
      | none => have := hx.activeReq r hr; rw [hh] at this; cases this
      | some q => exact ⟨q, rfl⟩
    obtain ⟨x, hxc, _, _⟩ := hx.reqCtx r q hq
    have := (hx.activeMirror x.svc q.prov q.expH r).mpr ⟨hr, q, x, hq, hxc, rfl, rfl, rfl⟩
    rw [List.any_eq_true]
    exact ⟨_, this, by simp⟩
  · intro p hp
    have hg : (get s.resps p.1).isSome := by
      rw [get_isSome_iff_mem_keys]; exact List.mem_map_of_mem hp
    obtain ⟨a, b⟩ := hx.respReq p.1 hg
    rw [chk_nil a, chk_nil (by simpa using b)]
    exact ⟨rfl, rfl⟩
  · apply chk_nil
    simpa using hx.activeNodup

/-- on every chain — any operations, any number of restarts — the two monitors report nothing -/
theorem scheduling_monitors_quiet_on_chains_with_restarts {cfg : Config} {p : Params} {h0 t0 : Int} (hc : CfgOK cfg p)
    {s : State} (hr : ReachableR cfg p h0 t0 s) : queues s = [] ∧ requests s = [] :=
  ⟨queues_sound (reachableR_invAll hc hr).inv (keys1_reachableR hr),
   requests_sound (reachableR_invAll hc hr).inv (keys1_reachableR hr)⟩

end SM
