import ServiceModel.Proofs.EndBlock
/-!
# Every reachable state satisfies `Inv`
-/
namespace SM
open Map

theorem genesis_inv (cfg : Config) (p : Params) (h0 t0 : Int) (hc : CfgOK cfg p) : Inv (genesis cfg p h0 t0) := by
  refine { static := ?_, b := ?_, x := ?_, m := ?_, bound := ?_ }
  · exact { ed := hc.ed, ec := hc.ec, dc := hc.dc, mult_pos := hc.mult_pos, maxT_pos := hc.maxT_pos,
            tax_lt := hc.tax_lt, slash_le := hc.slash_le, complaint_pos := hc.complaint_pos,
            arbitration_pos := hc.arbitration_pos }
  · refine { backed := rfl, ownerOk := ?_, ownerOf := ?_, provIdx := ?_, bindIdx := ?_, priced := ?_,
             pricingOnly := ?_, defined := ?_, ownerHas := ?_, minDep := ?_ }
    all_goals simp [genesis, Map.get]
  · refine { ctxWF := ?_, ctxCons := ?_, newMirror := ?_, expMirror := ?_, single := ?_, newFuture := ?_,
             expFuture := ?_, runningQ := ?_, used := ?_, reqCtx := ?_, activeReq := ?_, activeMirror := ?_,
             respReq := ?_, activeNodup := ?_, bRunExp := ?_, activeRunning := ?_, counts := ?_ }
    all_goals simp [genesis, Map.get]
  · refine { escrow := rfl, earnedK := ?_, ownerEarnedK := ?_, ownerSum := ?_, earnedOwned := ?_ }
    all_goals simp [genesis, Map.get, Map.NodupKeys, Map.keys, balOf, ownedSum, Map.total]
  · intro r q hq; simp [genesis, Map.get] at hq

/-- the main induction: every state reachable from genesis by well-formed operations satisfies all invariants -/
theorem reachable_inv {cfg : Config} {p : Params} {h0 t0 : Int} (hc : CfgOK cfg p) {s : State}
    (hr : Reachable cfg p h0 t0 s) : Inv s := by
  induction hr with
  | init => exact genesis_inv cfg p h0 t0 hc
  | step op _ hw ih => exact step_inv _ op ih hw

end SM
