import ServiceModel.Proofs.Withdraw
/-!
# Every message / keeper operation preserves `Inv` (everything except the end of a block)
-/
namespace SM
open Map

theorem define_inv (s : State) (n : SvcName) (a : Addr) (h : Inv s) : Inv (define s n a).1 := by
  refine { static := ?_, b := define_invB s n a h.b, x := ?_, m := ?_, bound := ?_ }
  all_goals (unfold define; split)
  all_goals first | exact h.static | exact h.x | exact h.m | exact h.bound

theorem setwd_inv (s : State) (o a : Addr) (h : Inv s) : Inv (setwd s o a).1 :=
  { static := h.static, b := h.b, x := h.x, m := h.m, bound := h.bound }

/-- the bindings map after a binding operation still has every key it had -/
theorem bind_keys (s : State) (svc : SvcName) (p o : Addr) (dep : Option Nat) (text : PricingText) (qos : Nat) :
    ∀ k, (Map.get s.bindings k).isSome → (Map.get (bind s svc p o dep text qos).1.bindings k).isSome := by
  intro k hk
  unfold bind; dsimp only
  repeat' split
  all_goals first | exact hk | exact isSome_set _ _ _ _ hk

theorem bind_frame (s : State) (svc : SvcName) (p o : Addr) (dep : Option Nat) (text : PricingText) (qos : Nat) :
    let s' := (bind s svc p o dep text qos).1
    s'.cfg = s.cfg ∧ s'.params = s.params ∧ s'.height = s.height ∧ s'.ctxs = s.ctxs ∧ s'.expQ = s.expQ ∧ s'.newQ = s.newQ ∧
    s'.expH = s.expH ∧ s'.newH = s.newH ∧ s'.usedIds = s.usedIds ∧ s'.reqs = s.reqs ∧ s'.activeB = s.activeB ∧
    s'.activeI = s.activeI ∧ s'.resps = s.resps := by
  unfold bind; dsimp only
  repeat' split
  all_goals exact ⟨rfl, rfl, rfl, rfl, rfl, rfl, rfl, rfl, rfl, rfl, rfl, rfl, rfl⟩

theorem invX_of_frame {s s' : State} (h : InvX s)
    (hf : s'.cfg = s.cfg ∧ s'.params = s.params ∧ s'.height = s.height ∧ s'.ctxs = s.ctxs ∧ s'.expQ = s.expQ ∧ s'.newQ = s.newQ ∧
      s'.expH = s.expH ∧ s'.newH = s.newH ∧ s'.usedIds = s.usedIds ∧ s'.reqs = s.reqs ∧ s'.activeB = s.activeB ∧
      s'.activeI = s.activeI ∧ s'.resps = s.resps) : InvX s' := by
  obtain ⟨h1, _, h3, h4, h5, h6, h7, h8, h9, h10, h11, h12, h13⟩ := hf
  show XInv s'.cfg s'.height s'.ctxs s'.expQ s'.newQ s'.expH s'.newH s'.usedIds s'.reqs s'.activeB s'.activeI s'.resps
  rw [h1, h3, h4, h5, h6, h7, h8, h9, h10, h11, h12, h13]; exact h

theorem bind_inv (s : State) (svc : SvcName) (p o : Addr) (dep : Option Nat) (text : PricingText) (qos : Nat)
    (h : Inv s) (hw : ¬ s.modAcct o) : Inv (bind s svc p o dep text qos).1 := by
  have hf := bind_frame s svc p o dep text qos
  refine { static := ?_, b := bind_invB s svc p o dep text qos h.b hw, x := invX_of_frame h.x hf,
           m := bind_invM s svc p o dep text qos h.m h.static hw, bound := ?_ }
  · show Static _ _; rw [hf.1, hf.2.1]; exact h.static
  · have := h.bound.bindingsGrow (bind_keys s svc p o dep text qos)
    show BoundInv _ _ _
    rw [hf.2.2.2.1, hf.2.2.2.2.2.2.2.2.2.1]; exact this

end SM

namespace SM
open Map

/-- the components the bindings operations leave alone -/
def XFrame (s s' : State) : Prop :=
  s'.cfg = s.cfg ∧ s'.params = s.params ∧ s'.height = s.height ∧ s'.ctxs = s.ctxs ∧ s'.expQ = s.expQ ∧ s'.newQ = s.newQ ∧
  s'.expH = s.expH ∧ s'.newH = s.newH ∧ s'.usedIds = s.usedIds ∧ s'.reqs = s.reqs ∧ s'.activeB = s.activeB ∧
  s'.activeI = s.activeI ∧ s'.resps = s.resps

macro "frame_tac" f:ident : tactic =>
  `(tactic| (unfold $f XFrame; (try dsimp only); repeat' split
             all_goals exact ⟨rfl, rfl, rfl, rfl, rfl, rfl, rfl, rfl, rfl, rfl, rfl, rfl, rfl⟩))

theorem update_frame (s : State) (svc : SvcName) (p o : Addr) (dep : Option Nat) (text : Option PricingText) (qos : Nat) :
    XFrame s (update s svc p o dep text qos).1 := by frame_tac update
theorem disable_frame (s : State) (svc : SvcName) (p o : Addr) : XFrame s (disable s svc p o).1 := by frame_tac disable
theorem enable_frame (s : State) (svc : SvcName) (p o : Addr) (dep : Option Nat) : XFrame s (enable s svc p o dep).1 := by
  frame_tac enable
theorem refund_frame (s : State) (svc : SvcName) (p o : Addr) : XFrame s (refund s svc p o).1 := by frame_tac refund

macro "keys_tac" f:ident hk:ident : tactic =>
  `(tactic| (unfold $f; (try dsimp only); repeat' split
             all_goals first | exact $hk | exact isSome_set _ _ _ _ $hk))

theorem update_keys (s : State) (svc : SvcName) (p o : Addr) (dep : Option Nat) (text : Option PricingText) (qos : Nat) :
    ∀ k, (Map.get s.bindings k).isSome → (Map.get (update s svc p o dep text qos).1.bindings k).isSome := by
  intro k hk; keys_tac update hk
theorem disable_keys (s : State) (svc : SvcName) (p o : Addr) :
    ∀ k, (Map.get s.bindings k).isSome → (Map.get (disable s svc p o).1.bindings k).isSome := by
  intro k hk; keys_tac disable hk
theorem enable_keys (s : State) (svc : SvcName) (p o : Addr) (dep : Option Nat) :
    ∀ k, (Map.get s.bindings k).isSome → (Map.get (enable s svc p o dep).1.bindings k).isSome := by
  intro k hk; keys_tac enable hk
theorem refund_keys (s : State) (svc : SvcName) (p o : Addr) :
    ∀ k, (Map.get s.bindings k).isSome → (Map.get (refund s svc p o).1.bindings k).isSome := by
  intro k hk; keys_tac refund hk

/-- assembling `Inv` for an operation that leaves the invocation components alone -/
theorem inv_of_parts {s s' : State} (h : Inv s) (hf : XFrame s s') (hB : InvB s') (hM : InvM s')
    (hk : ∀ k, (Map.get s.bindings k).isSome → (Map.get s'.bindings k).isSome) : Inv s' := by
  refine { static := ?_, b := hB, x := invX_of_frame h.x hf, m := hM, bound := ?_ }
  · show Static _ _; rw [hf.1, hf.2.1]; exact h.static
  · have := h.bound.bindingsGrow hk
    show BoundInv _ _ _
    rw [hf.2.2.2.1, hf.2.2.2.2.2.2.2.2.2.1]; exact this

theorem update_inv (s : State) (svc : SvcName) (p o : Addr) (dep : Option Nat) (text : Option PricingText) (qos : Nat)
    (h : Inv s) (hw : ¬ s.modAcct o) : Inv (update s svc p o dep text qos).1 :=
  inv_of_parts h (update_frame ..) (update_invB s svc p o dep text qos h.b hw)
    (update_invM s svc p o dep text qos h.m h.static hw) (update_keys s svc p o dep text qos)

theorem disable_invM (s : State) (svc : SvcName) (p o : Addr) (h : InvM s) : InvM (disable s svc p o).1 := by
  unfold disable; repeat' split
  all_goals exact h

theorem disable_inv (s : State) (svc : SvcName) (p o : Addr) (h : Inv s) : Inv (disable s svc p o).1 :=
  inv_of_parts h (disable_frame ..) (disable_invB s svc p o h.b) (disable_invM s svc p o h.m) (disable_keys s svc p o)

theorem enable_inv (s : State) (svc : SvcName) (p o : Addr) (dep : Option Nat) (h : Inv s) (hw : ¬ s.modAcct o) :
    Inv (enable s svc p o dep).1 :=
  inv_of_parts h (enable_frame ..) (enable_invB s svc p o dep h.b hw) (enable_invM s svc p o dep h.m h.static hw) (enable_keys s svc p o dep)

theorem refund_inv (s : State) (svc : SvcName) (p o : Addr) (h : Inv s) : Inv (refund s svc p o).1 :=
  inv_of_parts h (refund_frame ..) (refund_invB s svc p o h.b h.static) (refund_invM s svc p o h.m h.static h.b) (refund_keys s svc p o)

end SM

namespace SM
open Map

/-- the components the context operations leave alone -/
def CFrame (s s' : State) : Prop :=
  s'.cfg = s.cfg ∧ s'.params = s.params ∧ s'.bank = s.bank ∧ s'.defs = s.defs ∧ s'.bindings = s.bindings ∧
  s'.ownerBind = s.ownerBind ∧ s'.owner = s.owner ∧ s'.ownerProv = s.ownerProv ∧ s'.pricing = s.pricing ∧
  s'.reqs = s.reqs ∧ s'.activeI = s.activeI ∧ s'.earned = s.earned ∧ s'.ownerEarned = s.ownerEarned

macro "cframe_tac" f:ident : tactic =>
  `(tactic| (unfold $f CFrame; (try dsimp only); repeat' split
             all_goals first
               | exact ⟨rfl, rfl, rfl, rfl, rfl, rfl, rfl, rfl, rfl, rfl, rfl, rfl, rfl⟩
               | (simp only [setCtx, addNewQ]; exact ⟨rfl, rfl, rfl, rfl, rfl, rfl, rfl, rfl, rfl, rfl, rfl, rfl, rfl⟩)))

theorem pauseK_cframe (s : State) (c : CtxId) (cons : Addr) : CFrame s (pauseK s c cons).1 := by cframe_tac pauseK
theorem startK_cframe (s : State) (c : CtxId) (cons : Addr) : CFrame s (startK s c cons).1 := by cframe_tac startK
theorem killK_cframe (s : State) (c : CtxId) (cons : Addr) : CFrame s (killK s c cons).1 := by cframe_tac killK
theorem updateK_cframe (s : State) (c : CtxId) (cons : Addr) (provs : List Addr) (thr : Nat) (cap : Option Nat)
    (timeout : Int) (freq : Nat) (total : Int) : CFrame s (updateK s c cons provs thr cap timeout freq total).1 := by
  cframe_tac updateK
theorem createCtx_cframe (s : State) (id : CtxId) (mod : ModName) (svc : SvcName) (provs : List Addr) (cons : Addr)
    (cap : Option Nat) (timeout : Int) (super rep : Bool) (freq : Nat) (total : Int) (inputOk running : Bool) (thr : Nat) :
    CFrame s (createCtx s id mod svc provs cons cap timeout super rep freq total inputOk running thr).1 := by
  cframe_tac createCtx

theorem invB_of_cframe {s s' : State} (h : InvB s) (hf : CFrame s s') : InvB s' := by
  obtain ⟨h1, h2, h3, h4, h5, h6, h7, h8, h9, _⟩ := hf
  show BInv s'.cfg s'.params (balOf s'.bank.bal s'.cfg.deposit) s'.defs s'.bindings s'.ownerBind s'.owner s'.ownerProv s'.pricing
  rw [h1, h2, h3, h4, h5, h6, h7, h8, h9]; exact h

theorem invM_of_cframe {s s' : State} (h : InvM s) (hf : CFrame s s') : InvM s' := by
  obtain ⟨h1, _, h3, _, _, _, h7, _, _, h10, h11, h12, h13⟩ := hf
  show MInv (balOf s'.bank.bal s'.cfg.escrow) s'.reqs s'.activeI s'.earned s'.ownerEarned s'.owner
  rw [h1, h3, h7, h10, h11, h12, h13]; exact h

/-- the context map after a lifecycle operation: the same, or one context replaced keeping its service -/
def CtxsSameSvc (s s' : State) : Prop :=
  s'.ctxs = s.ctxs ∨ ∃ c x x', Map.get s.ctxs c = some x ∧ (x'.svc = x.svc ∧ x'.super = x.super) ∧ s'.ctxs = Map.set s.ctxs c x'

theorem bound_of_sameSvc {s s' : State} (h : InvBound s) (hf : CFrame s s') (hc : CtxsSameSvc s s') : InvBound s' := by
  show BoundInv s'.ctxs s'.reqs s'.bindings
  rw [hf.2.2.2.2.1, hf.2.2.2.2.2.2.2.2.2.1]
  rcases hc with hc | ⟨c, x, x', hx, hs, hc⟩
  · rw [hc]; exact h
  · rw [hc]; exact BoundInv.setCtx h hx hs

theorem pauseK_sameSvc (s : State) (c : CtxId) (cons : Addr) : CtxsSameSvc s (pauseK s c cons).1 := by
  unfold pauseK
  cases hx : Map.get s.ctxs c with
  | none => left; rfl
  | some x =>
    dsimp only
    repeat' split
    all_goals first | (left; rfl) | (right; refine ⟨c, x, _, hx, ?_, rfl⟩; exact ⟨rfl, rfl⟩)

theorem killK_sameSvc (s : State) (c : CtxId) (cons : Addr) : CtxsSameSvc s (killK s c cons).1 := by
  unfold killK
  cases hx : Map.get s.ctxs c with
  | none => left; rfl
  | some x =>
    dsimp only
    repeat' split
    all_goals first | (left; rfl) | (right; refine ⟨c, x, _, hx, ?_, rfl⟩; exact ⟨rfl, rfl⟩)

theorem startK_sameSvc (s : State) (c : CtxId) (cons : Addr) : CtxsSameSvc s (startK s c cons).1 := by
  unfold startK
  cases hx : Map.get s.ctxs c with
  | none => left; rfl
  | some x =>
    dsimp only
    repeat' split
    all_goals first | (left; rfl) | (right; refine ⟨c, x, _, hx, ?_, rfl⟩; exact ⟨rfl, rfl⟩)

theorem updateK_sameSvc (s : State) (c : CtxId) (cons : Addr) (provs : List Addr) (thr : Nat) (cap : Option Nat)
    (timeout : Int) (freq : Nat) (total : Int) : CtxsSameSvc s (updateK s c cons provs thr cap timeout freq total).1 := by
  unfold updateK
  cases hx : Map.get s.ctxs c with
  | none => left; rfl
  | some x =>
    dsimp only
    split; · left; rfl
    split; · left; rfl
    cases hu : updThr x provs thr cap timeout freq total with
    | error e => left; rfl
    | ok x1 =>
      dsimp only
      repeat' split
      all_goals first
        | (left; rfl)
        | (right; refine ⟨c, x, _, hx, ?_, rfl⟩; unfold updFields; exact ⟨(updThr_ok hu).1.2.1, (updThr_ok hu).2.2.2.2.2⟩)

theorem ctxop_inv {s s' : State} (h : Inv s) (hf : CFrame s s') (hX : InvX s') (hc : CtxsSameSvc s s') : Inv s' := by
  refine { static := ?_, b := invB_of_cframe h.b hf, x := hX, m := invM_of_cframe h.m hf, bound := bound_of_sameSvc h.bound hf hc }
  show Static _ _; rw [hf.1, hf.2.1]; exact h.static

theorem pauseK_inv (s : State) (c : CtxId) (cons : Addr) (h : Inv s) : Inv (pauseK s c cons).1 :=
  ctxop_inv h (pauseK_cframe ..) (pauseK_invX s c cons h.x) (pauseK_sameSvc ..)
theorem startK_inv (s : State) (c : CtxId) (cons : Addr) (h : Inv s) : Inv (startK s c cons).1 :=
  ctxop_inv h (startK_cframe ..) (startK_invX s c cons h.x) (startK_sameSvc ..)
theorem killK_inv (s : State) (c : CtxId) (cons : Addr) (h : Inv s) : Inv (killK s c cons).1 :=
  ctxop_inv h (killK_cframe ..) (killK_invX s c cons h.x) (killK_sameSvc ..)
theorem updateK_inv (s : State) (c : CtxId) (cons : Addr) (provs : List Addr) (thr : Nat) (cap : Option Nat)
    (timeout : Int) (freq : Nat) (total : Int) (h : Inv s) : Inv (updateK s c cons provs thr cap timeout freq total).1 :=
  ctxop_inv h (updateK_cframe ..) (updateK_invX s c cons provs thr cap timeout freq total h.x) (updateK_sameSvc ..)

theorem ctxMsg_inv (s : State) (c : CtxId) (cons : Addr) (k : State → Out) (h : Inv s) (hk : Inv (k s).1) :
    Inv (ctxMsg s c cons k).1 := by
  unfold ctxMsg; split
  · exact h
  · exact hk

end SM

namespace SM
open Map

theorem createCtx_ctxs (s : State) (id : CtxId) (mod : ModName) (svc : SvcName) (provs : List Addr) (cons : Addr)
    (cap : Option Nat) (timeout : Int) (super rep : Bool) (freq : Nat) (total : Int) (inputOk running : Bool) (thr : Nat) :
    ∀ c2, c2 ≠ id →
      Map.get (createCtx s id mod svc provs cons cap timeout super rep freq total inputOk running thr).1.ctxs c2 =
        Map.get s.ctxs c2 := by
  intro c2 hc
  unfold createCtx; dsimp only
  repeat' split
  all_goals first
    | rfl
    | (simp only [setCtx, addNewQ]; exact Map.get_set_other _ _ _ _ (fun e => hc e.symm))

theorem createCtx_inv (s : State) (id : CtxId) (mod : ModName) (svc : SvcName) (provs : List Addr) (cons : Addr)
    (cap : Option Nat) (timeout : Int) (super rep : Bool) (freq : Nat) (total : Int) (inputOk running : Bool) (thr : Nat)
    (h : Inv s) (hfresh : id ∉ s.usedIds) (hcons : ¬ isModAcct s.cfg cons)
    (hv : mod = "" → validateRequest svc cap provs timeout rep freq total = none) :
    Inv (createCtx s id mod svc provs cons cap timeout super rep freq total inputOk running thr).1 := by
  have hf := createCtx_cframe s id mod svc provs cons cap timeout super rep freq total inputOk running thr
  refine { static := ?_, b := invB_of_cframe h.b hf,
           x := createCtx_invX s id mod svc provs cons cap timeout super rep freq total inputOk running thr h.x hfresh hcons hv,
           m := invM_of_cframe h.m hf, bound := ?_ }
  · show Static _ _; rw [hf.1, hf.2.1]; exact h.static
  · show BoundInv _ _ _
    rw [hf.2.2.2.2.1, hf.2.2.2.2.2.2.2.2.2.1]
    refine BoundInv.ctxsOther (c := id) h.bound ?_ (createCtx_ctxs s id mod svc provs cons cap timeout super rep freq total inputOk running thr)
    intro r q hq he
    obtain ⟨x, hx, _⟩ := h.x.reqCtx r q hq
    exact hfresh (he ▸ h.x.used r.ctx (by rw [hx]; rfl))

theorem bank_inv {s : State} {bank' : Bank} (h : Inv s)
    (he : balOf bank'.bal s.cfg.escrow = balOf s.bank.bal s.cfg.escrow)
    (hd : balOf bank'.bal s.cfg.deposit = balOf s.bank.bal s.cfg.deposit) : Inv { s with bank := bank' } :=
  { static := h.static, b := invB_bank h.b hd, x := h.x, m := invM_bank h.m he, bound := h.bound }

/-- every operation other than the end of a block preserves `Inv` -/
theorem exec_inv_msg (s : State) (op : Op) (h : Inv s) (hw : WF s op) (hvb : validateBasic op = true)
    (hne : op.isEndblock = false) : Inv (exec s op).1 := by
  cases op with
  | fund a n =>
    have ha : ¬ s.custody a := hw
    show Inv { s with bank := bankMint s.bank a n }
    refine bank_inv h ?_ ?_
    · rw [bankMint_bal, if_neg (fun e : s.cfg.escrow = a => ha (Or.inl e.symm))]
    · rw [bankMint_bal, if_neg (fun e : s.cfg.deposit = a => ha (Or.inr e.symm))]
  | xfer a b n =>
    show Inv (match bankSend s.bank a b n with
      | none => fail s Err.insufficientFunds
      | some bank' => ({ s with bank := bank' }, Res.ok, [])).1
    obtain ⟨ha, hb⟩ : ¬ s.modAcct a ∧ ¬ s.custody b := hw
    cases hs : bankSend s.bank a b n with
    | none => exact h
    | some bank' =>
      dsimp only
      refine bank_inv h ?_ ?_
      · exact bankSend_other hs _ (fun e => ha (Or.inl e.symm)) (fun e => hb (Or.inl e.symm))
      · exact bankSend_other hs _ (fun e => ha (Or.inr (Or.inl e.symm))) (fun e => hb (Or.inr e.symm))
  | define n a ok => exact define_inv s n a h
  | bind svc p o dep text qos =>
    show Inv (match text with
      | some t => bind s svc p o dep t qos
      | none => (s, Res.invalid, [])).1
    cases text with
    | none => exact h
    | some t => exact bind_inv s svc p o dep t qos h hw
  | update svc p o dep text qos => exact update_inv s svc p o dep text qos h hw
  | setwd o a => exact setwd_inv s o a h
  | disable svc p o => exact disable_inv s svc p o h
  | enable svc p o dep => exact enable_inv s svc p o dep h hw
  | refund svc p o => exact refund_inv s svc p o h
  | call id svc provs cons cap timeout super rep freq total inputOk =>
    show Inv (if s.cfg.modsvc = some svc then panicOut s "module-service call: outside the model"
      else createCtx s id "" svc provs cons cap timeout super rep freq total inputOk true 0).1
    obtain ⟨hc, hfresh, hms⟩ : ¬ s.modAcct cons ∧ id ∉ s.usedIds ∧ s.cfg.modsvc ≠ some svc := hw
    rw [if_neg hms]
    refine createCtx_inv s id "" svc provs cons cap timeout super rep freq total inputOk true 0 h hfresh hc ?_
    intro _
    unfold validateBasic callVB at hvb
    simp only [Bool.and_eq_true] at hvb
    have := hvb.2
    cases hv : validateRequest svc cap provs timeout rep freq total with
    | none => rfl
    | some e => rw [hv] at this; simp at this
  | modcreate id mod svc provs cons cap timeout super rep freq total inputOk running thr =>
    show Inv (createCtx s id mod svc provs cons cap timeout super rep freq total inputOk running thr).1
    obtain ⟨hc, hfresh, hmod, _⟩ : ¬ s.modAcct cons ∧ id ∉ s.usedIds ∧ mod ≠ "" ∧ cons ≠ "" := hw
    exact createCtx_inv s id mod svc provs cons cap timeout super rep freq total inputOk running thr h hfresh hc
      (fun e => absurd e hmod)
  | respond r p code out => exact respond_inv s r p code out h
  | pause c cons => exact ctxMsg_inv s c cons _ h (pauseK_inv s c cons h)
  | start c cons => exact ctxMsg_inv s c cons _ h (startK_inv s c cons h)
  | kill c cons => exact ctxMsg_inv s c cons _ h (killK_inv s c cons h)
  | updatectx c cons provs cap timeout freq total =>
    exact ctxMsg_inv s c cons _ h (updateK_inv s c cons provs 0 cap timeout freq total h)
  | modpause c cons => exact pauseK_inv s c cons h
  | modstart c cons => exact startK_inv s c cons h
  | modkill c cons => exact killK_inv s c cons h
  | modupdate c cons provs thr cap timeout freq total => exact updateK_inv s c cons provs thr cap timeout freq total h
  | withdraw o p => exact withdraw_inv s o p h
  | endblock dt => simp [Op.isEndblock] at hne

end SM
