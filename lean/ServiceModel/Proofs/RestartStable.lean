import ServiceModel.Proofs.Restart
import ServiceModel.Proofs.Stable
/-!
# What a zero-height restart keeps — and the stability families over chains with any number of restarts

The stability theorems of C15 / C13 (`Proofs/Stable.lean`) quantify over operation lists from an arbitrary state; a
restart is not an operation. Here: a restart from a state satisfying the invariants gives back **the same** definitions,
bindings (the whole record: deposit, price text, availability, disabling time, owner), withdrawal addresses and
provider → owner map, as point lookups; and `ContinuesR`, the continuation of a chain by well-formed operations and
restarts, keeps `Stable` and — unless the owner's own message intervenes — the withdrawal address.
-/
namespace SM
open Map

/-- the records a restart gives back, as point lookups -/
structure SameRecords (s s' : State) : Prop where
  defs : ∀ n, get s'.defs n = get s.defs n
  bindings : ∀ k, get s'.bindings k = get s.bindings k
  withdraw : ∀ o, get s'.withdraw o = get s.withdraw o
  owner : ∀ pv, get s'.owner pv = get s.owner pv
  params : s'.params = s.params
  cfg : s'.cfg = s.cfg

theorem restart_sameRecords {s s' : State} (hall : InvAll s) {height time : Int}
    (hre : restart s height time = some s') : SameRecords s s' ∧ InvAll s' := by
  obtain ⟨s'', h1, hall', hcfg, hpar, _, _, hexp⟩ := restart_invAll hall height time
  rw [hre] at h1; injection h1 with h1; subst h1
  have hesc : ∀ pv, (get s.earned pv).isSome → pv ≠ s.cfg.escrow := fun pv h e => hall.earn pv h (Or.inl e)
  obtain ⟨_, b', hP, _⟩ := prep_spec hall.inv hesc
  have e2 : (prep s).s.defs = s.defs := by rw [hP]; rfl
  have e3 : (prep s).s.bindings = s.bindings := by rw [hP]; rfl
  have e4 : (prep s).s.withdraw = s.withdraw := by rw [hP]; rfl
  have hd : entries s'.defs = entries s.defs := by
    have := congrArg GenesisState.defs hexp; simpa [exportG, e2] using this
  have hb : entries s'.bindings = entries s.bindings := by
    have := congrArg GenesisState.bindings hexp; simpa [exportG, e3] using this
  have hw : entries s'.withdraw = entries s.withdraw := by
    have := congrArg GenesisState.withdraw hexp; simpa [exportG, e4] using this
  have gd : ∀ n, get s'.defs n = get s.defs n := fun n => by rw [← get_entries s'.defs, hd, get_entries]
  have gb : ∀ k, get s'.bindings k = get s.bindings k := fun k => by rw [← get_entries s'.bindings, hb, get_entries]
  have gw : ∀ o, get s'.withdraw o = get s.withdraw o := fun o => by rw [← get_entries s'.withdraw, hw, get_entries]
  refine ⟨⟨gd, gb, gw, ?_, hpar, hcfg⟩, hall'⟩
  -- the provider → owner map is rebuilt from the bindings; both states' maps are determined by their bindings
  intro pv
  have one : ∀ {a b : State}, Inv a → Inv b → (∀ k, get b.bindings k = get a.bindings k) →
      ∀ o, get a.owner pv = some o → get b.owner pv = some o := by
    intro a b ha hb' hk o ho
    obtain ⟨svc, hs⟩ := ha.b.ownerHas pv o ho
    cases hbd : get a.bindings (svc, pv) with
    | none => rw [hbd] at hs; cases hs
    | some bd =>
      have h1 := ha.b.ownerOf svc pv bd hbd
      rw [ho] at h1; injection h1 with h1
      have h2 := hb'.b.ownerOf svc pv bd (by rw [hk]; exact hbd)
      rw [h2, h1]
  cases h : get s.owner pv with
  | some o => exact one hall.inv hall'.inv gb o h
  | none =>
    cases h' : get s'.owner pv with
    | none => rfl
    | some o =>
      have := one hall'.inv hall.inv (fun k => (gb k).symm) o h'
      rw [h] at this; cases this

theorem SameRecords.stable {s s' : State} (h : SameRecords s s') : Stable s s' :=
  ⟨fun n d hd => by rw [h.defs]; exact hd,
   fun k b hb => ⟨b, by rw [h.bindings]; exact hb, rfl⟩,
   fun pv o ho => by rw [h.owner]; exact ho⟩

/-- continuation of a chain by well-formed operations that satisfy `P`, and zero-height restarts -/
inductive ContinuesR (P : Op → Prop) (s : State) : State → Prop
  | refl : ContinuesR P s s
  | step {s1 : State} (op : Op) : ContinuesR P s s1 → WF s1 op → P op → ContinuesR P s (step s1 op).1
  | restart {s1 s2 : State} (height time : Int) : ContinuesR P s s1 → SM.restart s1 height time = some s2 →
      ContinuesR P s s2

theorem ContinuesR.reachableR {cfg : Config} {p : Params} {h0 t0 : Int} {P : Op → Prop} {s s' : State}
    (hr : ReachableR cfg p h0 t0 s) (hc : ContinuesR P s s') : ReachableR cfg p h0 t0 s' := by
  induction hc with
  | refl => exact hr
  | step op _ hw _ ih => exact ReachableR.step op ih hw
  | restart height time _ hre ih => exact ReachableR.restart height time ih hre

theorem continuesR_stable {cfg : Config} {p : Params} {h0 t0 : Int} (hcfg : CfgOK cfg p) {P : Op → Prop} {s s' : State}
    (hr : ReachableR cfg p h0 t0 s) (hc : ContinuesR P s s') : Stable s s' := by
  induction hc with
  | refl => exact Stable.refl s
  | step op _ _ _ ih => exact ih.trans (step_stable _ op)
  | restart height time hc1 hre ih =>
    exact ih.trans (restart_sameRecords (reachableR_invAll hcfg (hc1.reachableR hr)) hre).1.stable

theorem continuesR_withdraw_addr {cfg : Config} {p : Params} {h0 t0 : Int} (hcfg : CfgOK cfg p) (o : Addr) {s s' : State}
    (hr : ReachableR cfg p h0 t0 s) (hc : ContinuesR (fun op => op.setsWithdrawOf o = false) s s') :
    get s'.withdraw o = get s.withdraw o := by
  induction hc with
  | refl => rfl
  | step op _ _ hp ih => rw [step_withdraw_addr _ op o hp]; exact ih
  | restart height time hc1 hre ih =>
    rw [(restart_sameRecords (reachableR_invAll hcfg (hc1.reachableR hr)) hre).1.withdraw]; exact ih

end SM
