import ServiceModel.Proofs.OneShot
/-!
# C12: the counters of the batch in flight are exact

Invariant `CEq`, between operations: for a context whose batch is still running, the number of its pending
requests plus the recorded number of responses is exactly the recorded number of requests. (`XInv.counts` is the
`≤` half; it also holds in the middle of an expiry, where requests stop being pending without a response.)
A batch is issued with all of its requests pending and no response, every accepted response moves exactly one
request from pending to answered, an expiry ends with the batch completed, and nothing else touches the three.
-/
namespace SM
open Map

/-- number of pending requests of context `c` -/
def cnt (A : FSet ReqId) (c : CtxId) : Nat := (A.filter (fun r => r.ctx = c)).length

def CEq (s : State) : Prop :=
  ∀ c x, get s.ctxs c = some x → x.bstate = .running → cnt s.activeI c + x.respN = x.reqN

theorem ceq_of_eq {s s' : State} (hk : CEq s) (h1 : s'.ctxs = s.ctxs) (h2 : s'.activeI = s.activeI) : CEq s' := by
  intro c y hy; rw [h1] at hy; rw [h2]; exact hk c y hy

/-- only context `c` changes: to a record with the same counters and batch state -/
theorem ceq_local {s s' : State} (c : CtxId) (hk : CEq s) (ha : s'.activeI = s.activeI)
    (hother : ∀ c2, c2 ≠ c → get s'.ctxs c2 = get s.ctxs c2)
    (hc : ∀ y, get s'.ctxs c = some y → y.bstate = .running →
      ∃ x, get s.ctxs c = some x ∧ x.bstate = .running ∧ y.respN = x.respN ∧ y.reqN = x.reqN) : CEq s' := by
  intro c2 y hy hb
  rw [ha]
  by_cases h : c2 = c
  · subst h
    obtain ⟨x, hx, hxb, e1, e2⟩ := hc y hy hb
    rw [e1, e2]; exact hk c2 x hx hxb
  · rw [hother c2 h] at hy; exact hk c2 y hy hb

/-- membership-equal duplicate-free lists of pending requests count the same -/
theorem cnt_congr {A B : FSet ReqId} (hA : A.Nodup) (hB : B.Nodup) (c : CtxId)
    (h : ∀ r, r.ctx = c → (r ∈ A ↔ r ∈ B)) : cnt A c = cnt B c := by
  unfold cnt
  apply List.Perm.length_eq
  apply (List.perm_ext_iff_of_nodup (List.Nodup.sublist List.filter_sublist hA)
    (List.Nodup.sublist List.filter_sublist hB)).mpr
  intro r
  simp only [List.mem_filter, decide_eq_true_eq]
  constructor
  · rintro ⟨h1, h2⟩; exact ⟨(h r h2).mp h1, h2⟩
  · rintro ⟨h1, h2⟩; exact ⟨(h r h2).mpr h1, h2⟩

theorem cnt_zero {A : FSet ReqId} (c : CtxId) (h : ∀ r, r ∈ A → r.ctx ≠ c) : cnt A c = 0 := by
  unfold cnt
  rw [List.length_eq_zero_iff, List.filter_eq_nil_iff]
  intro r hr
  simp only [decide_eq_true_eq]
  exact h r hr

/-! ### keeper functions on one context -/
theorem pauseK_ceq (s : State) (c : CtxId) (cons : Addr) (hk : CEq s) : CEq (pauseK s c cons).1 := by
  unfold pauseK
  cases hx : get s.ctxs c with
  | none => exact hk
  | some x =>
    dsimp only
    split; · exact hk
    split; · exact hk
    split; · exact hk
    refine ceq_local c hk rfl (fun c2 hc2 => by simp [setCtx, Map.get_set_other _ _ _ _ (fun e => hc2 e.symm)]) ?_
    intro y hy hb
    simp only [setCtx, Map.get_set_same, Option.some.injEq] at hy; subst hy
    exact ⟨x, hx, hb, rfl, rfl⟩

theorem killK_ceq (s : State) (c : CtxId) (cons : Addr) (hk : CEq s) : CEq (killK s c cons).1 := by
  unfold killK
  cases hx : get s.ctxs c with
  | none => exact hk
  | some x =>
    dsimp only
    split; · exact hk
    split; · exact hk
    refine ceq_local c hk rfl (fun c2 hc2 => by simp [setCtx, Map.get_set_other _ _ _ _ (fun e => hc2 e.symm)]) ?_
    intro y hy hb
    simp only [setCtx, Map.get_set_same, Option.some.injEq] at hy; subst hy
    exact ⟨x, hx, hb, rfl, rfl⟩

theorem startK_ceq (s : State) (c : CtxId) (cons : Addr) (hk : CEq s) : CEq (startK s c cons).1 := by
  unfold startK
  cases hx : get s.ctxs c with
  | none => exact hk
  | some x =>
    dsimp only
    split; · exact hk
    split; · exact hk
    split
    all_goals
      refine ceq_local c hk rfl (fun c2 hc2 => by simp [setCtx, addNewQ, Map.get_set_other _ _ _ _ (fun e => hc2 e.symm)]) ?_
      intro y hy hb
      simp only [setCtx, addNewQ, Map.get_set_same, Option.some.injEq] at hy; subst hy
      exact ⟨x, hx, hb, rfl, rfl⟩

theorem updateK_ceq (s : State) (c : CtxId) (cons : Addr) (provs : List Addr) (thr : Nat) (cap : Option Nat)
    (timeout : Int) (freq : Nat) (total : Int) (hk : CEq s) : CEq (updateK s c cons provs thr cap timeout freq total).1 := by
  unfold updateK
  cases hx : get s.ctxs c with
  | none => exact hk
  | some x =>
    dsimp only
    split; · exact hk
    split; · exact hk
    cases hu : updThr x provs thr cap timeout freq total with
    | error e => exact hk
    | ok x1 =>
      dsimp only
      split; · exact hk
      split; · exact hk
      split; · exact hk
      split; · exact hk
      obtain ⟨⟨_, _, _, c4, c5, c6⟩, _⟩ := updThr_ok hu
      refine ceq_local c hk rfl (fun c2 hc2 => by simp [setCtx, Map.get_set_other _ _ _ _ (fun e => hc2 e.symm)]) ?_
      intro y hy hb
      simp only [setCtx, Map.get_set_same, Option.some.injEq] at hy; subst hy
      exact ⟨x, hx, by rw [← c4]; exact hb, c6, c5⟩

theorem ctxMsg_ceq (s : State) (c : CtxId) (cons : Addr) (k : State → Out) (hk : CEq s) (hks : CEq (k s).1) :
    CEq (ctxMsg s c cons k).1 := by
  unfold ctxMsg; split
  · exact hk
  · exact hks

theorem createCtx_ceq (s : State) (id : CtxId) (mod : ModName) (svc : SvcName) (provs : List Addr) (cons : Addr)
    (cap : Option Nat) (timeout : Int) (super rep : Bool) (freq : Nat) (total : Int) (inputOk running : Bool) (thr : Nat)
    (hk : CEq s) :
    CEq (createCtx s id mod svc provs cons cap timeout super rep freq total inputOk running thr).1 := by
  unfold createCtx; dsimp only
  repeat' split
  all_goals first
    | exact hk
    | (refine ceq_local id hk ?_ (fun c2 hc2 => ?_) ?_
       · simp [setCtx, addNewQ]
       · simp [setCtx, addNewQ, Map.get_set_other _ _ _ _ (fun e => hc2 e.symm)]
       · intro y hy hb
         simp only [setCtx, addNewQ, Map.get_set_same, Option.some.injEq] at hy; subst hy
         simp [newCtxRec] at hb)

/-- an accepted response moves exactly one request of its context from pending to answered -/
theorem respond_ceq (s : State) (r : ReqId) (pv : Addr) (code : Nat) (out : OutKind) (h : Inv s) (hk : CEq s) :
    CEq (respond s r pv code out).1 := by
  unfold respond
  cases hq : get s.reqs r with
  | none => exact hk
  | some q =>
    dsimp only
    cases hx : get s.ctxs r.ctx with
    | none => exact hk
    | some x =>
      dsimp only
      split; · exact hk
      split; · exact hk
      rename_i _ hact
      have hact' : r ∈ s.activeI := by simpa using hact
      cases hs : settle s r x.svc x.cons q pv out with
      | error res => exact hk
      | ok res =>
        obtain ⟨s1, e1⟩ := res
        dsimp only
        obtain ⟨bank', bs, ea, oe, hshape, _⟩ := settle_shape hs
        subst hshape
        obtain ⟨x0, hx0, hxb⟩ := h.x.activeRunning r hact'
        rw [hx] at hx0; injection hx0 with hx0; subst hx0
        have hfl : cnt (FSet.rem s.activeI r) r.ctx + 1 = cnt s.activeI r.ctx := by
          unfold cnt
          rw [FSet.rem_filter]
          exact FSet.rem_length _ r (List.Nodup.sublist List.filter_sublist h.x.activeNodup) (by simp [hact'])
        have hoth : ∀ c2, c2 ≠ r.ctx → cnt (FSet.rem s.activeI r) c2 = cnt s.activeI c2 := by
          intro c2 hne
          unfold cnt
          rw [FSet.rem_filter]
          congr 1
          apply FSet.rem_of_not_mem
          intro hm
          simp at hm
          exact hne hm.2.symm
        have key : ∀ (s' : State) (x2 : Ctx), s'.ctxs = Map.set s.ctxs r.ctx x2 → s'.activeI = FSet.rem s.activeI r →
            x2.reqN = x.reqN → (x2.bstate = .running → x2.respN = x.respN + 1) → CEq s' := by
          intro s' x2 hc' ha' e1 e2 c2 y hy hb
          rw [ha']
          rw [hc'] at hy
          by_cases hc : c2 = r.ctx
          · subst hc
            rw [Map.get_set_same] at hy; injection hy with hy; subst hy
            have := hk r.ctx x hx hxb
            rw [e1, e2 hb]; omega
          · rw [Map.get_set_other _ _ _ _ (fun e => hc e.symm)] at hy
            rw [hoth c2 hc]; exact hk c2 y hy hb
        split
        · exact key _ _ rfl rfl rfl (fun hb => by simp [completeBatch] at hb)
        · exact key _ _ rfl rfl rfl (fun _ => rfl)

/-! ### end of block -/

/-- the expiry of the pending requests of `c` leaves the pending requests of every other context alone -/
theorem expirePending_others (s : State) (c : CtxId) (x : Ctx) (h : Inv s) (hx : get s.ctxs c = some x)
    (hnp : (expirePending s c x).1.panic = none) :
    ∀ r, r.ctx ≠ c → (r ∈ (expirePending s c x).1.s.activeI ↔ r ∈ s.activeI) := by
  unfold expirePending at hnp ⊢
  split
  · rename_i hb
    rw [if_pos hb] at hnp
    dsimp only at hnp ⊢
    have hids : ∀ r, r ∈ sortReqIds (s.activeI.filter (fun r => r.ctx = c ∧ r.batch = x.batch)) → r ∈ s.activeI ∧ r.ctx = c := by
      intro r hr
      rw [mem_sortReqIds] at hr
      have := List.mem_filter.mp hr
      simp only [decide_eq_true_eq] at this
      exact ⟨this.1, this.2.1⟩
    have hnd := nodup_sortReqIds _ (List.Nodup.sublist (List.filter_sublist (p := fun r => decide (r.ctx = c ∧ r.batch = x.batch))) h.x.activeNodup)
    obtain ⟨_, _, i3⟩ := expireFold_inv x c _ s h hx hids hnd hnp
    intro r hrc
    rw [i3]
    constructor
    · exact fun hh => hh.1
    · exact fun hh => ⟨hh, fun hm => hrc (hids r hm).2⟩
  · intro r _; exact Iff.rfl

theorem expireTail_ctxs_active (s : State) (c : CtxId) (x1 : Ctx) :
    (expireTail s c x1).1.activeI = s.activeI ∧
    (∀ c2, c2 ≠ c → get (expireTail s c x1).1.ctxs c2 = get s.ctxs c2) ∧
    (∀ y, get (expireTail s c x1).1.ctxs c = some y → y = x1) := by
  have hset : ∀ c2, c2 ≠ c → get (Map.set s.ctxs c x1) c2 = get s.ctxs c2 :=
    fun c2 hc2 => Map.get_set_other _ _ _ _ (fun e => hc2 e.symm)
  have hdel : ∀ c2, c2 ≠ c → get (Map.del (Map.set s.ctxs c x1) c) c2 = get s.ctxs c2 :=
    fun c2 hc2 => by rw [Map.get_del_other _ _ _ (fun e => hc2 e.symm)]; exact hset c2 hc2
  have hsame : ∀ y, get (Map.set s.ctxs c x1) c = some y → y = x1 := by
    intro y hy; rw [Map.get_set_same] at hy; injection hy with hy; exact hy.symm
  have hgone : ∀ y, get (Map.del (Map.set s.ctxs c x1) c) c = some y → y = x1 := by
    intro y hy; rw [Map.get_del_same] at hy; cases hy
  unfold expireTail
  dsimp only
  cases x1.state with
  | running => dsimp only; split
               · exact ⟨rfl, hset, hsame⟩
               · exact ⟨rfl, hdel, hgone⟩
  | paused => exact ⟨rfl, hset, hsame⟩
  | completed => exact ⟨rfl, hdel, hgone⟩

/-- the expiry handler of one queue entry: the expired context ends with its batch completed (or is removed);
    the pending requests and counters of every other context are untouched -/
theorem expireBatch_ceq (s : State) (c : CtxId) (h : Inv s) (hnp : (expireBatch s c).panic = none) (hk : CEq s) :
    CEq (expireBatch s c).s := by
  have hinv' := expireBatch_inv s c h hnp
  unfold expireBatch at hnp hinv' ⊢
  split
  · exact hk
  · rename_i hq
    rw [if_neg hq] at hnp hinv'
    have hmem : (s.height, c) ∈ s.expQ := by simpa using hq
    have hexp := (h.x.expMirror s.height c).mp hmem
    cases hx : get s.ctxs c with
    | none => have := (h.x.expFuture c s.height hexp).2; rw [hx] at this; simp at this
    | some x =>
      rw [hx] at hnp hinv'
      dsimp only at hnp hinv' ⊢
      rcases Option.eq_none_or_eq_some (expirePending s c x).1.panic with hp | ⟨m, hp⟩
      · simp only [hp] at hinv' ⊢
        obtain ⟨i1, i2, _, i4, _, _⟩ := expirePending_spec s c x h hx hp
        have hoth := expirePending_others s c x h hx hp
        obtain ⟨t1, t2, t3⟩ := expireTail_ctxs_active (expirePending s c x).1.s c (expirePending s c x).2
        intro c2 y hy hb
        by_cases hc : c2 = c
        · subst hc
          have := t3 y hy
          rw [this, i4.bstate] at hb; cases hb
        · have hy' : get s.ctxs c2 = some y := by
            have := t2 c2 hc
            rw [i2.2.2.2.2.1] at this
            rw [← this]; exact hy
          have hc' : cnt (expireTail (expirePending s c x).1.s c (expirePending s c x).2).1.activeI c2 = cnt s.activeI c2 := by
            rw [t1]
            refine cnt_congr i1.x.activeNodup h.x.activeNodup c2 (fun r hr => hoth r (by rw [hr]; exact hc))
          show cnt (expireTail (expirePending s c x).1.s c (expirePending s c x).2).1.activeI c2 + y.respN = y.reqN
          rw [hc']; exact hk c2 y hy' hb
      · simp only [hp] at hnp; cases hnp

theorem issueBatch_activeI (s : State) (bank' : Bank) (c : CtxId) (x : Ctx) (el : List (Addr × Nat)) (ep : List Effect) :
    (issueBatch s bank' c x el ep).1.activeI = (issueReqs { s with bank := bank' } c x el 0).activeI := by
  unfold issueBatch
  dsimp only [addExpQ, setCtx]

/-- the new-batch handler of one queue entry: a batch is issued with all its requests pending and no response
    (or skipped with none of either), for a context that had nothing pending -/
theorem newBatch_ceq (s : State) (c : CtxId) (h : Inv s) (hk : CEq s) : CEq (newBatch s c).s := by
  unfold newBatch
  split
  · exact hk
  · rename_i hq
    have hmem : (s.height, c) ∈ s.newQ := by simpa using hq
    have hdue := (h.x.newMirror s.height c).mp hmem
    cases hx : get s.ctxs c with
    | none => exact ceq_of_eq hk rfl rfl
    | some x =>
      dsimp only
      obtain ⟨_, _, _, hnoact⟩ := h.x.dueFacts hx hdue
      have hzero : cnt s.activeI c = 0 := cnt_zero c hnoact
      split
      · -- total reached: the context is removed
        intro c2 y hy hb
        have hy' : get (Map.del s.ctxs c) c2 = some y := hy
        obtain ⟨_, hy''⟩ := Map.get_del_some hy'
        exact hk c2 y hy'' hb
      · split
        · exact ceq_of_eq hk rfl rfl
        · -- a counter set to (n, 0) with exactly n new pending requests of `c`
          have hissue : ∀ (bank' : Bank) (el : List (Addr × Nat)) (ep : List Effect),
              CEq (delNewQ (issueBatch s bank' c x el ep).1 c s.height) := by
            intro bank' el ep
            have hc := issueBatch_ctxs s bank' c x el ep
            have hAI : (issueBatch s bank' c x el ep).1.activeI = s.activeI ++ Map.keys (issuedPairs c x s.height el 0) := by
              rw [issueBatch_activeI]
              exact issueReqs_activeI { s with bank := bank' } c x el 0 (fun r hr hh => hnoact r hr hh.1)
            have hkeys_ctx : ∀ r, r ∈ Map.keys (issuedPairs c x s.height el 0) → r.ctx = c := by
              intro r hr
              obtain ⟨⟨r2, q⟩, hm, hk⟩ := List.mem_map.mp hr
              simp only at hk; subst hk
              exact (issuedPairs_index hm).2.1
            intro c2 y hy hb
            have hy' : get (issueBatch s bank' c x el ep).1.ctxs c2 = some y := hy
            show cnt (issueBatch s bank' c x el ep).1.activeI c2 + y.respN = y.reqN
            rw [hAI]
            unfold cnt
            rw [List.filter_append, List.length_append]
            rw [hc] at hy'
            by_cases hcc : c2 = c
            · subst hcc
              rw [Map.get_set_same] at hy'; injection hy' with hy'; subst hy'
              have h2 : (Map.keys (issuedPairs c2 x s.height el 0)).filter (fun r => decide (r.ctx = c2)) =
                  Map.keys (issuedPairs c2 x s.height el 0) := by
                apply List.filter_eq_self.mpr
                intro r hr; simp only [decide_eq_true_eq]; exact hkeys_ctx r hr
              rw [h2]
              have h3 : (Map.keys (issuedPairs c2 x s.height el 0)).length = el.length := by
                unfold Map.keys; rw [List.length_map, issuedPairs_length]
              rw [h3]
              have : (s.activeI.filter (fun r => decide (r.ctx = c2))).length = 0 := hzero
              rw [this]
              show 0 + el.length + 0 = el.length
              omega
            · rw [Map.get_set_other _ _ _ _ (fun e => hcc e.symm)] at hy'
              have h2 : (Map.keys (issuedPairs c x s.height el 0)).filter (fun r => decide (r.ctx = c2)) = [] := by
                apply List.filter_eq_nil_iff.mpr
                intro r hr; simp only [decide_eq_true_eq]
                intro e; exact hcc (e.symm.trans (hkeys_ctx r hr))
              rw [h2]
              have := hk c2 y hy' hb
              unfold cnt at this
              simpa using this
          show CEq (delNewQ (startOrSkip s c x).1 c s.height)
          unfold startOrSkip
          split
          · split
            · exact hissue _ _ _
            · cases hb : bankSend s.bank x.cons s.cfg.escrow (sumPrices (eligible s x)) with
              | some bk => exact hissue _ _ _
              | none =>
                dsimp only
                refine ceq_local c hk rfl (fun c2 hc2 => ?_) ?_
                · simp [delNewQ, setCtx, Map.get_set_other _ _ _ _ (fun e => hc2 e.symm)]
                · intro y hy hb
                  simp only [delNewQ, setCtx, Map.get_set_same, Option.some.injEq] at hy; subst hy
                  cases hb
          · intro c2 y hy hb
            have hy' : get (Map.set s.ctxs c { x with batch := x.batch + 1, bstate := .running, reqN := 0, respN := 0, bthr := x.thr }) c2 = some y := hy
            show cnt s.activeI c2 + y.respN = y.reqN
            by_cases hcc : c2 = c
            · subst hcc
              rw [Map.get_set_same] at hy'; injection hy' with hy'; subst hy'
              rw [hzero]; rfl
            · rw [Map.get_set_other _ _ _ _ (fun e => hcc e.symm)] at hy'
              exact hk c2 y hy' hb

theorem endBlock_ceq (s : State) (dt : Int) (h : Inv s) (hk : CEq s) : CEq (endBlock s dt).s := by
  have step1 : ∀ (l : List CtxId) (s : State), Inv s ∧ CEq s → Inv (foldH expireBatch s l).s ∧ CEq (foldH expireBatch s l).s := by
    intro l s hs
    have := foldH_nopanic_of expireBatch (fun s => Inv s ∧ CEq s)
      (fun s a hs => ⟨expireBatch_nopanic hs.1 a,
        expireBatch_inv s a hs.1 (expireBatch_nopanic hs.1 a), expireBatch_ceq s a hs.1 (expireBatch_nopanic hs.1 a) hs.2⟩) l s hs
    exact this.2
  have step2 : ∀ (l : List CtxId) (s : State), Inv s ∧ CEq s → Inv (foldH newBatch s l).s ∧ CEq (foldH newBatch s l).s := by
    intro l s hs
    have := foldH_nopanic_of newBatch (fun s => Inv s ∧ CEq s)
      (fun s a hs => ⟨newBatch_nopanic s a, newBatch_inv s a hs.1, newBatch_ceq s a hs.1 hs.2⟩) l s hs
    exact this.2
  have h1 := step1 (queuedAt s.expQ s.height) s ⟨h, hk⟩
  have h2 := step2 (queuedAt (foldH expireBatch s (queuedAt s.expQ s.height)).s.newQ (foldH expireBatch s (queuedAt s.expQ s.height)).s.height) _ h1
  unfold endBlock
  dsimp only
  split
  · exact h1.2
  · split
    · exact h2.2
    · exact ceq_of_eq h2.2 rfl rfl

/-! ### every step -/
theorem withdraw_ctxs_activeI (s : State) (o p : Addr) :
    (withdraw s o p).1.ctxs = s.ctxs ∧ (withdraw s o p).1.activeI = s.activeI := by
  unfold withdraw
  split; · exact ⟨rfl, rfl⟩
  cases hw : withdrawRecords s o p with
  | error r => exact ⟨rfl, rfl⟩
  | ok res =>
    obtain ⟨s1, amt⟩ := res
    dsimp only
    have h1 : s1.ctxs = s.ctxs ∧ s1.activeI = s.activeI := by
      unfold withdrawRecords at hw
      repeat' split at hw
      all_goals first
        | (cases hw; done)
        | (simp only [Except.ok.injEq, Prod.mk.injEq] at hw; obtain ⟨e1, _⟩ := hw; subst e1; exact ⟨rfl, rfl⟩)
    split; · exact ⟨rfl, rfl⟩
    split
    · exact ⟨rfl, rfl⟩
    · exact h1

theorem exec_ceq (s : State) (op : Op) (h : Inv s) (hw : WF s op) (hk : CEq s) : CEq (exec s op).1 := by
  cases op with
  | fund a n => exact ceq_of_eq hk rfl rfl
  | xfer a b n =>
    show CEq (match bankSend s.bank a b n with
      | none => fail s Err.insufficientFunds
      | some bank' => ({ s with bank := bank' }, Res.ok, [])).1
    split
    · exact hk
    · exact ceq_of_eq hk rfl rfl
  | define n a ok => show CEq (define s n a).1; unfold define; split <;> exact ceq_of_eq hk rfl rfl
  | bind svc p o dep text qos =>
    cases text with
    | none => exact hk
    | some t =>
      have hf := bind_frame s svc p o dep t qos
      exact ceq_of_eq hk hf.2.2.2.1 hf.2.2.2.2.2.2.2.2.2.2.2.1
  | update svc p o dep text qos =>
    have hf := update_frame s svc p o dep text qos
    exact ceq_of_eq hk hf.2.2.2.1 hf.2.2.2.2.2.2.2.2.2.2.2.1
  | setwd o a => exact ceq_of_eq hk rfl rfl
  | disable svc p o =>
    have hf := disable_frame s svc p o
    exact ceq_of_eq hk hf.2.2.2.1 hf.2.2.2.2.2.2.2.2.2.2.2.1
  | enable svc p o dep =>
    have hf := enable_frame s svc p o dep
    exact ceq_of_eq hk hf.2.2.2.1 hf.2.2.2.2.2.2.2.2.2.2.2.1
  | refund svc p o =>
    have hf := refund_frame s svc p o
    exact ceq_of_eq hk hf.2.2.2.1 hf.2.2.2.2.2.2.2.2.2.2.2.1
  | call id svc provs cons cap timeout super rep freq total inputOk =>
    show CEq (if s.cfg.modsvc = some svc then panicOut s "module-service call: outside the model"
      else createCtx s id "" svc provs cons cap timeout super rep freq total inputOk true 0).1
    obtain ⟨_, _, hms⟩ : ¬ s.modAcct cons ∧ id ∉ s.usedIds ∧ s.cfg.modsvc ≠ some svc := hw
    rw [if_neg hms]
    exact createCtx_ceq s id "" svc provs cons cap timeout super rep freq total inputOk true 0 hk
  | modcreate id mod svc provs cons cap timeout super rep freq total inputOk running thr =>
    exact createCtx_ceq s id mod svc provs cons cap timeout super rep freq total inputOk running thr hk
  | respond r p code out => exact respond_ceq s r p code out h hk
  | pause c cons => exact ctxMsg_ceq s c cons _ hk (pauseK_ceq s c cons hk)
  | start c cons => exact ctxMsg_ceq s c cons _ hk (startK_ceq s c cons hk)
  | kill c cons => exact ctxMsg_ceq s c cons _ hk (killK_ceq s c cons hk)
  | updatectx c cons provs cap timeout freq total =>
    exact ctxMsg_ceq s c cons _ hk (updateK_ceq s c cons provs 0 cap timeout freq total hk)
  | modpause c cons => exact pauseK_ceq s c cons hk
  | modstart c cons => exact startK_ceq s c cons hk
  | modkill c cons => exact killK_ceq s c cons hk
  | modupdate c cons provs thr cap timeout freq total => exact updateK_ceq s c cons provs thr cap timeout freq total hk
  | withdraw o p => exact ceq_of_eq hk (withdraw_ctxs_activeI s o p).1 (withdraw_ctxs_activeI s o p).2
  | endblock dt =>
    show CEq (match (endBlock s dt).panic with
        | some m => (s, Res.panic m, (endBlock s dt).effs)
        | none => ((endBlock s dt).s, Res.ok, (endBlock s dt).effs)).1
    split
    · exact hk
    · exact endBlock_ceq s dt h hk

/-- C12: in every reachable state, for every context whose batch is still running, pending + answered = issued -/
theorem ceq_reachable {cfg : Config} {p : Params} {h0 t0 : Int} (hc : CfgOK cfg p) {s : State}
    (hr : Reachable cfg p h0 t0 s) : CEq s := by
  induction hr with
  | init => intro c x hx; simp [genesis] at hx
  | @step s op hr' hw ih =>
    rcases step_state s op with h1 | ⟨h1, _, _⟩
    · rw [h1]; exact ih
    · rw [h1]; exact exec_ceq s op (reachable_inv hc hr') hw ih

end SM
