import ServiceModel.Proofs.Once
/-!
# C10: cadence over a whole history (ghost-state theorem)

A ghost component is carried along the history: for every context the height at which its latest batch was
started (issued or skipped), kept only as long as nothing interfered with the context since — no accepted
pause / start / kill / update for it and no pause for lack of funds — and a flag `bad` that is raised when a batch
of such a context starts at a height other than `last start + frequency`. `cad_reachable`: the flag is never
raised, in any history. (The ghost never influences the state: `GReach.state_reachable`.)
-/
namespace SM
open Map

structure Ghost where
  last : Map CtxId Int
  bad : Bool

def Ghost.init : Ghost := ⟨[], false⟩

/-- the context a lifecycle operation is aimed at -/
def Op.ctxTarget : Op → Option CtxId
  | .pause c _ => some c
  | .start c _ => some c
  | .kill c _ => some c
  | .updatectx c _ _ _ _ _ _ => some c
  | .modpause c _ => some c
  | .modstart c _ => some c
  | .modkill c _ => some c
  | .modupdate c _ _ _ _ _ _ _ => some c
  | _ => none

/-- ghost step of the new-batch handler of one queue entry -/
def gNew (g : Ghost) (s : State) (c : CtxId) : Ghost :=
  if (s.height, c) ∉ s.newQ then g
  else match get s.ctxs c, get (newBatch s c).s.ctxs c with
    | some x, some y =>
      if y.batch = x.batch + 1 then
        ⟨set g.last c s.height,
         g.bad || (match get g.last c with
                   | some L => decide (s.height ≠ L + (x.freq : Int))
                   | none => false)⟩
      else ⟨del g.last c, g.bad⟩
    | _, _ => ⟨del g.last c, g.bad⟩

/-- ghost fold along `foldH newBatch` -/
def gFoldNew : Ghost → State → List CtxId → Ghost
  | g, _, [] => g
  | g, s, c :: cs =>
    match (newBatch s c).panic with
    | some _ => g
    | none => gFoldNew (gNew g s c) (newBatch s c).s cs

/-- ghost step of an operation (the expiry phase never touches the ghost) -/
def gstep (g : Ghost) (s : State) (op : Op) : Ghost :=
  match op with
  | .endblock dt =>
    (match (endBlock s dt).panic with
     | some _ => g
     | none =>
       let s1 := (foldH expireBatch s (queuedAt s.expQ s.height)).s
       gFoldNew g s1 (queuedAt s1.newQ s1.height))
  | _ =>
    match op.ctxTarget with
    | some c => if (step s op).2.1 = .ok then ⟨del g.last c, g.bad⟩ else g
    | none => g

/-- the tracked contexts are on schedule -/
def CadOK (s : State) (g : Ghost) : Prop :=
  g.bad = false ∧
  ∀ c L, get g.last c = some L → c ∈ s.usedIds ∧
    ∀ x, get s.ctxs c = some x → x.state = .running ∧
      (get s.expH c = some (L + x.timeout) ∨ get s.newH c = some (L + (x.freq : Int)))

/-- nothing relevant to the schedule of `c` moves -/
def SFrame (s s' : State) (c : CtxId) : Prop :=
  get s'.expH c = get s.expH c ∧ get s'.newH c = get s.newH c ∧
  (∀ y, get s'.ctxs c = some y → ∃ x, get s.ctxs c = some x ∧ y.state = x.state ∧ y.timeout = x.timeout ∧ y.freq = x.freq)

theorem SFrame.refl (s : State) (c : CtxId) : SFrame s s c := ⟨rfl, rfl, fun y hy => ⟨y, hy, rfl, rfl, rfl⟩⟩

theorem sframe_of_eq {s s' : State} (c : CtxId) (h1 : s'.ctxs = s.ctxs) (h2 : s'.expH = s.expH) (h3 : s'.newH = s.newH) :
    SFrame s s' c := ⟨by rw [h2], by rw [h3], fun y hy => ⟨y, by rw [← h1]; exact hy, rfl, rfl, rfl⟩⟩

/-- only the context `c0` and its new-batch pointer change -/
theorem sframe_other {s s' : State} {c0 c : CtxId} (hc : c ≠ c0) (h2 : s'.expH = s.expH)
    (h3 : ∀ c, c ≠ c0 → get s'.newH c = get s.newH c) (h1 : ∀ c, c ≠ c0 → get s'.ctxs c = get s.ctxs c) :
    SFrame s s' c := ⟨by rw [h2], h3 c hc, fun y hy => ⟨y, by rw [← h1 c hc]; exact hy, rfl, rfl, rfl⟩⟩

theorem pauseK_sframe (s : State) (c0 c : CtxId) (cons : Addr) (hc : c ≠ c0) : SFrame s (pauseK s c0 cons).1 c := by
  unfold pauseK; repeat' split
  all_goals first
    | exact SFrame.refl s c
    | exact sframe_other hc rfl (fun _ _ => rfl) (fun c2 h2 => Map.get_set_other _ _ _ _ (fun e => h2 e.symm))

theorem killK_sframe (s : State) (c0 c : CtxId) (cons : Addr) (hc : c ≠ c0) : SFrame s (killK s c0 cons).1 c := by
  unfold killK; repeat' split
  all_goals first
    | exact SFrame.refl s c
    | exact sframe_other hc rfl (fun _ _ => rfl) (fun c2 h2 => Map.get_set_other _ _ _ _ (fun e => h2 e.symm))

theorem startK_sframe (s : State) (c0 c : CtxId) (cons : Addr) (hc : c ≠ c0) : SFrame s (startK s c0 cons).1 c := by
  unfold startK; dsimp only; repeat' split
  all_goals first
    | exact SFrame.refl s c
    | exact sframe_other hc rfl (fun c2 h2 => Map.get_set_other _ _ _ _ (fun e => h2 e.symm))
        (fun c2 h2 => Map.get_set_other _ _ _ _ (fun e => h2 e.symm))
    | exact sframe_other hc rfl (fun _ _ => rfl) (fun c2 h2 => Map.get_set_other _ _ _ _ (fun e => h2 e.symm))

theorem updateK_sframe (s : State) (c0 c : CtxId) (cons : Addr) (provs : List Addr) (thr : Nat) (cap : Option Nat)
    (timeout : Int) (freq : Nat) (total : Int) (hc : c ≠ c0) :
    SFrame s (updateK s c0 cons provs thr cap timeout freq total).1 c := by
  unfold updateK; repeat' split
  all_goals first
    | exact SFrame.refl s c
    | exact sframe_other hc rfl (fun _ _ => rfl) (fun c2 h2 => Map.get_set_other _ _ _ _ (fun e => h2 e.symm))

theorem ctxMsg_sframe (s : State) (c0 c : CtxId) (cons : Addr) (k : State → Out) (hk : SFrame s (k s).1 c) :
    SFrame s (ctxMsg s c0 cons k).1 c := by
  unfold ctxMsg; split
  · exact SFrame.refl s c
  · exact hk

theorem createCtx_sframe (s : State) (id c : CtxId) (mod : ModName) (svc : SvcName) (provs : List Addr) (cons : Addr)
    (cap : Option Nat) (timeout : Int) (super rep : Bool) (freq : Nat) (total : Int) (inputOk running : Bool) (thr : Nat)
    (hc : c ≠ id) :
    SFrame s (createCtx s id mod svc provs cons cap timeout super rep freq total inputOk running thr).1 c := by
  unfold createCtx; dsimp only
  repeat' split
  all_goals first
    | exact SFrame.refl s c
    | exact sframe_other hc rfl (fun c2 h2 => Map.get_set_other _ _ _ _ (fun e => h2 e.symm))
        (fun c2 h2 => Map.get_set_other _ _ _ _ (fun e => h2 e.symm))
    | exact sframe_other hc rfl (fun _ _ => rfl) (fun c2 h2 => Map.get_set_other _ _ _ _ (fun e => h2 e.symm))

theorem respond_sframe (s : State) (r : ReqId) (pv : Addr) (code : Nat) (out : OutKind) (c : CtxId) :
    SFrame s (respond s r pv code out).1 c := by
  unfold respond
  cases hq : get s.reqs r with
  | none => exact SFrame.refl s c
  | some q =>
    dsimp only
    cases hx : get s.ctxs r.ctx with
    | none => exact SFrame.refl s c
    | some x =>
      dsimp only
      split; · exact SFrame.refl s c
      split; · exact SFrame.refl s c
      cases hs : settle s r x.svc x.cons q pv out with
      | error res => exact SFrame.refl s c
      | ok res =>
        obtain ⟨s1, e1⟩ := res
        dsimp only
        obtain ⟨bank', bs, ea, oe, hshape, _⟩ := settle_shape hs
        subst hshape
        have key : ∀ (s' : State) (x2 : Ctx), s'.ctxs = Map.set s.ctxs r.ctx x2 → s'.expH = s.expH → s'.newH = s.newH →
            x2.state = x.state → x2.timeout = x.timeout → x2.freq = x.freq → SFrame s s' c := by
          intro s' x2 h1 h2 h3 e1 e2 e3
          refine ⟨by rw [h2], by rw [h3], fun y hy => ?_⟩
          rw [h1] at hy
          by_cases hc : c = r.ctx
          · subst hc
            rw [Map.get_set_same] at hy; injection hy with hy; subst hy
            exact ⟨x, hx, e1, e2, e3⟩
          · rw [Map.get_set_other _ _ _ _ (fun e => hc e.symm)] at hy
            exact ⟨y, hy, rfl, rfl, rfl⟩
        split
        · exact key _ _ rfl rfl rfl rfl rfl rfl
        · exact key _ _ rfl rfl rfl rfl rfl rfl

theorem withdraw_ctx_ptrs (s : State) (o p : Addr) :
    (withdraw s o p).1.ctxs = s.ctxs ∧ (withdraw s o p).1.expH = s.expH ∧ (withdraw s o p).1.newH = s.newH := by
  unfold withdraw
  split; · exact ⟨rfl, rfl, rfl⟩
  cases hw : withdrawRecords s o p with
  | error r => exact ⟨rfl, rfl, rfl⟩
  | ok res =>
    obtain ⟨s1, amt⟩ := res
    dsimp only
    have h1 : s1.ctxs = s.ctxs ∧ s1.expH = s.expH ∧ s1.newH = s.newH := by
      unfold withdrawRecords at hw
      repeat' split at hw
      all_goals first
        | (cases hw; done)
        | (simp only [Except.ok.injEq, Prod.mk.injEq] at hw; obtain ⟨e1, _⟩ := hw; subst e1; exact ⟨rfl, rfl, rfl⟩)
    split; · exact ⟨rfl, rfl, rfl⟩
    split
    · exact ⟨rfl, rfl, rfl⟩
    · exact h1

/-- a message that is not a lifecycle operation on `c` moves nothing of `c`'s schedule (`c` an id already used) -/
theorem exec_sframe (s : State) (op : Op) (hw : WF s op) (c : CtxId) (hused : c ∈ s.usedIds)
    (hnt : op.ctxTarget ≠ some c) (hne : op.isEndblock = false) : SFrame s (exec s op).1 c := by
  cases op with
  | fund a n => exact sframe_of_eq c rfl rfl rfl
  | xfer a b n =>
    show SFrame s (match bankSend s.bank a b n with
      | none => fail s Err.insufficientFunds
      | some bank' => ({ s with bank := bank' }, Res.ok, [])).1 c
    split
    · exact SFrame.refl s c
    · exact sframe_of_eq c rfl rfl rfl
  | define n a ok => show SFrame s (define s n a).1 c; unfold define; split <;> exact sframe_of_eq c rfl rfl rfl
  | bind svc p o dep text qos =>
    cases text with
    | none => exact SFrame.refl s c
    | some t =>
      have hf := bind_frame s svc p o dep t qos
      exact sframe_of_eq c hf.2.2.2.1 hf.2.2.2.2.2.2.1 hf.2.2.2.2.2.2.2.1
  | update svc p o dep text qos =>
    have hf := update_frame s svc p o dep text qos
    exact sframe_of_eq c hf.2.2.2.1 hf.2.2.2.2.2.2.1 hf.2.2.2.2.2.2.2.1
  | setwd o a => exact sframe_of_eq c rfl rfl rfl
  | disable svc p o =>
    have hf := disable_frame s svc p o
    exact sframe_of_eq c hf.2.2.2.1 hf.2.2.2.2.2.2.1 hf.2.2.2.2.2.2.2.1
  | enable svc p o dep =>
    have hf := enable_frame s svc p o dep
    exact sframe_of_eq c hf.2.2.2.1 hf.2.2.2.2.2.2.1 hf.2.2.2.2.2.2.2.1
  | refund svc p o =>
    have hf := refund_frame s svc p o
    exact sframe_of_eq c hf.2.2.2.1 hf.2.2.2.2.2.2.1 hf.2.2.2.2.2.2.2.1
  | call id svc provs cons cap timeout super rep freq total inputOk =>
    show SFrame s (if s.cfg.modsvc = some svc then panicOut s "module-service call: outside the model"
      else createCtx s id "" svc provs cons cap timeout super rep freq total inputOk true 0).1 c
    obtain ⟨_, hfresh, _⟩ : ¬ s.modAcct cons ∧ id ∉ s.usedIds ∧ s.cfg.modsvc ≠ some svc := hw
    split
    · exact SFrame.refl s c
    · exact createCtx_sframe s id c "" svc provs cons cap timeout super rep freq total inputOk true 0
        (fun e => hfresh (e ▸ hused))
  | modcreate id mod svc provs cons cap timeout super rep freq total inputOk running thr =>
    obtain ⟨_, hfresh, _, _⟩ : ¬ s.modAcct cons ∧ id ∉ s.usedIds ∧ mod ≠ "" ∧ cons ≠ "" := hw
    exact createCtx_sframe s id c mod svc provs cons cap timeout super rep freq total inputOk running thr
      (fun e => hfresh (e ▸ hused))
  | respond r p code out => exact respond_sframe s r p code out c
  | pause c0 cons =>
    have hc : c ≠ c0 := fun e => hnt (by rw [e]; rfl)
    exact ctxMsg_sframe s c0 c cons _ (pauseK_sframe s c0 c cons hc)
  | start c0 cons =>
    have hc : c ≠ c0 := fun e => hnt (by rw [e]; rfl)
    exact ctxMsg_sframe s c0 c cons _ (startK_sframe s c0 c cons hc)
  | kill c0 cons =>
    have hc : c ≠ c0 := fun e => hnt (by rw [e]; rfl)
    exact ctxMsg_sframe s c0 c cons _ (killK_sframe s c0 c cons hc)
  | updatectx c0 cons provs cap timeout freq total =>
    have hc : c ≠ c0 := fun e => hnt (by rw [e]; rfl)
    exact ctxMsg_sframe s c0 c cons _ (updateK_sframe s c0 c cons provs 0 cap timeout freq total hc)
  | modpause c0 cons => exact pauseK_sframe s c0 c cons (fun e => hnt (by rw [e]; rfl))
  | modstart c0 cons => exact startK_sframe s c0 c cons (fun e => hnt (by rw [e]; rfl))
  | modkill c0 cons => exact killK_sframe s c0 c cons (fun e => hnt (by rw [e]; rfl))
  | modupdate c0 cons provs thr cap timeout freq total =>
    exact updateK_sframe s c0 c cons provs thr cap timeout freq total (fun e => hnt (by rw [e]; rfl))
  | withdraw o p =>
    obtain ⟨h1, h2, h3⟩ := withdraw_ctx_ptrs s o p
    exact sframe_of_eq c h1 h2 h3
  | endblock dt => cases hne

/-- a tracked context stays on schedule across anything that moves nothing of its schedule -/
theorem cadEntry_of_sframe {s s' : State} {c : CtxId} {L : Int} (hf : SFrame s s' c)
    (h : ∀ x, get s.ctxs c = some x → x.state = .running ∧
      (get s.expH c = some (L + x.timeout) ∨ get s.newH c = some (L + (x.freq : Int)))) :
    ∀ y, get s'.ctxs c = some y → y.state = .running ∧
      (get s'.expH c = some (L + y.timeout) ∨ get s'.newH c = some (L + (y.freq : Int))) := by
  intro y hy
  obtain ⟨f1, f2, f3⟩ := hf
  obtain ⟨x, hx, e1, e2, e3⟩ := f3 y hy
  obtain ⟨h1, h2⟩ := h x hx
  rw [f1, f2, e1, e2, e3]
  exact ⟨h1, h2⟩

/-! ### the expiry handler -/
theorem expireTail_sched (s : State) (c : CtxId) (x1 : Ctx) :
    (∀ c2, c2 ≠ c → get (expireTail s c x1).1.newH c2 = get s.newH c2) ∧
    (x1.state = .running →
      (get (expireTail s c x1).1.ctxs c = some x1 ∧
        get (expireTail s c x1).1.newH c = some (s.height - x1.timeout + (x1.freq : Int))) ∨
      get (expireTail s c x1).1.ctxs c = none) := by
  unfold expireTail
  dsimp only
  cases hst : x1.state with
  | running =>
    dsimp only
    split
    · refine ⟨fun c2 hc2 => ?_, fun _ => Or.inl ⟨?_, ?_⟩⟩
      · show get (Map.set s.newH c _) c2 = _
        exact Map.get_set_other _ _ _ _ (fun e => hc2 e.symm)
      · show get (Map.set s.ctxs c x1) c = _
        exact Map.get_set_same _ _ _
      · show get (Map.set s.newH c _) c = _
        exact Map.get_set_same _ _ _
    · refine ⟨fun _ _ => rfl, fun _ => Or.inr ?_⟩
      show get (Map.del (Map.set s.ctxs c x1) c) c = none
      exact Map.get_del_same _ _
  | paused => exact ⟨fun _ _ => rfl, fun hh => by cases hh⟩
  | completed => exact ⟨fun _ _ => rfl, fun hh => by cases hh⟩

/-- the expiry of a tracked batch (started at `L`, expiring at `L + timeout`) queues the next one at `L + frequency` -/
theorem expireBatch_cad (s : State) (c0 : CtxId) (h : Inv s) (hnp : (expireBatch s c0).panic = none) (g : Ghost)
    (hk : CadOK s g) : CadOK (expireBatch s c0).s g := by
  obtain ⟨hbad, hent⟩ := hk
  have hused := (expireBatch_aorig s c0 h hnp).1
  obtain ⟨phh, pexp⟩ := expireBatch_ptrs s c0 h hnp
  refine ⟨hbad, fun c L hL => ⟨hused c (hent c L hL).1, ?_⟩⟩
  have hold := (hent c L hL).2
  unfold expireBatch at hnp pexp ⊢
  split
  · exact hold
  · rename_i hq
    rw [if_neg hq] at hnp pexp
    have hmem : (s.height, c0) ∈ s.expQ := by simpa using hq
    have hexp := (h.x.expMirror s.height c0).mp hmem
    cases hx : get s.ctxs c0 with
    | none => have := (h.x.expFuture c0 s.height hexp).2; rw [hx] at this; simp at this
    | some x =>
      rw [hx] at hnp pexp
      dsimp only at hnp pexp ⊢
      rcases Option.eq_none_or_eq_some (expirePending s c0 x).1.panic with hp | ⟨m, hp⟩
      · simp only [hp] at pexp ⊢
        obtain ⟨_, i2, _, i4, i5, _⟩ := expirePending_spec s c0 x h hx hp
        obtain ⟨_, t2, _⟩ := expireTail_ctxs_active (expirePending s c0 x).1.s c0 (expirePending s c0 x).2
        obtain ⟨n1, n2⟩ := expireTail_sched (expirePending s c0 x).1.s c0 (expirePending s c0 x).2
        by_cases hc : c = c0
        · subst hc
          obtain ⟨hrun, hsched⟩ := hold x hx
          have hLT : L + x.timeout = s.height := by
            rcases hsched with he | hn
            · rw [hexp] at he; injection he with he; exact he.symm
            · rcases h.x.single c with hnn | hee
              · rw [hnn] at hn; cases hn
              · rw [hee] at hexp; cases hexp
          intro y hy
          rcases n2 (by rw [i5]; exact hrun) with ⟨k1, k2⟩ | k3
          · have hy' : get (expireTail (expirePending s c x).1.s c (expirePending s c x).2).1.ctxs c = some y := hy
            rw [k1] at hy'; injection hy' with hy'; subst hy'
            refine ⟨by rw [i5]; exact hrun, Or.inr ?_⟩
            show get (expireTail (expirePending s c x).1.s c (expirePending s c x).2).1.newH c = _
            rw [k2, i2.2.2.1, i4.timeout, i4.freq]
            congr 1; omega
          · have hy' : get (expireTail (expirePending s c x).1.s c (expirePending s c x).2).1.ctxs c = some y := hy
            rw [k3] at hy'; cases hy'
        · have hf : SFrame s (expireTail (expirePending s c0 x).1.s c0 (expirePending s c0 x).2).1 c := by
            refine ⟨?_, ?_, fun y hy => ⟨y, ?_, rfl, rfl, rfl⟩⟩
            · have := pexp c
              rw [if_neg (fun hh => hc hh.1)] at this; exact this
            · rw [n1 c hc, i2.2.2.2.2.2.2.2.2.1]
            · rw [← i2.2.2.2.2.1, ← t2 c hc]; exact hy
          exact cadEntry_of_sframe hf hold
      · simp only [hp] at hnp; cases hnp

/-! ### the new-batch handler -/

/-- what the new-batch handler of a due entry does to everything but its own context -/
theorem newBatch_others (s : State) (c0 : CtxId) (h : Inv s) (c : CtxId) (hc : c ≠ c0) :
    SFrame s (newBatch s c0).s c := by
  obtain ⟨_, pn, _⟩ := newBatch_ptrs s c0 h
  have hnew : get (newBatch s c0).s.newH c = get s.newH c := by
    rw [pn c, if_neg (fun hh => hc hh.1)]
  have key : get (newBatch s c0).s.expH c = get s.expH c ∧ get (newBatch s c0).s.ctxs c = get s.ctxs c := by
    unfold newBatch
    split
    · exact ⟨rfl, rfl⟩
    · cases hx : get s.ctxs c0 with
      | none => exact ⟨rfl, rfl⟩
      | some x =>
        dsimp only
        split
        · refine ⟨rfl, ?_⟩
          show get (Map.del s.ctxs c0) c = _
          exact Map.get_del_other _ _ _ (fun e => hc e.symm)
        · split
          · exact ⟨rfl, rfl⟩
          · have hissue : ∀ (bank' : Bank) (el : List (Addr × Nat)) (ep : List Effect),
                get (issueBatch s bank' c0 x el ep).1.expH c = get s.expH c ∧
                get (issueBatch s bank' c0 x el ep).1.ctxs c = get s.ctxs c := by
              intro bank' el ep
              obtain ⟨_, _, pe⟩ := issueBatch_ptrs s bank' c0 x el ep
              rw [pe, issueBatch_ctxs]
              exact ⟨Map.get_set_other _ _ _ _ (fun e => hc e.symm), Map.get_set_other _ _ _ _ (fun e => hc e.symm)⟩
            show get (startOrSkip s c0 x).1.expH c = _ ∧ get (startOrSkip s c0 x).1.ctxs c = _
            unfold startOrSkip
            split
            · split
              · exact hissue _ _ _
              · cases hb : bankSend s.bank x.cons s.cfg.escrow (sumPrices (eligible s x)) with
                | some bk => exact hissue _ _ _
                | none => exact ⟨rfl, Map.get_set_other _ _ _ _ (fun e => hc e.symm)⟩
            · exact ⟨Map.get_set_other _ _ _ _ (fun e => hc e.symm), Map.get_set_other _ _ _ _ (fun e => hc e.symm)⟩
  exact ⟨key.1, hnew, fun y hy => ⟨y, by rw [← key.2]; exact hy, rfl, rfl, rfl⟩⟩

/-- when the handler advances the batch counter of its context, that context is running, keeps its timeout, and the
    batch's expiry is queued `timeout` blocks ahead -/
theorem newBatch_started (s : State) (c0 : CtxId) (x y : Ctx) (hq : (s.height, c0) ∈ s.newQ)
    (hx : get s.ctxs c0 = some x) (hy : get (newBatch s c0).s.ctxs c0 = some y) (hb : y.batch = x.batch + 1) :
    y.state = .running ∧ y.timeout = x.timeout ∧ get (newBatch s c0).s.expH c0 = some (s.height + x.timeout) := by
  unfold newBatch at hy ⊢
  rw [if_neg (by simpa using hq)] at hy ⊢
  rw [hx] at hy ⊢
  dsimp only at hy ⊢
  split at hy
  · have hy' : get (Map.del s.ctxs c0) c0 = some y := hy
    rw [Map.get_del_same] at hy'; cases hy'
  · rename_i hnt
    rw [if_neg hnt]
    split at hy
    · have hy' : get s.ctxs c0 = some y := hy
      rw [hx] at hy'; injection hy' with hy'; subst hy'; omega
    · rename_i hrun
      rw [if_neg hrun]
      have hrun' : x.state = .running := by simpa using hrun
      have hissue : ∀ (bank' : Bank) (el : List (Addr × Nat)) (ep : List Effect),
          get (issueBatch s bank' c0 x el ep).1.ctxs c0 = some y →
          y.state = .running ∧ y.timeout = x.timeout ∧
          get (issueBatch s bank' c0 x el ep).1.expH c0 = some (s.height + x.timeout) := by
        intro bank' el ep hyy
        obtain ⟨_, _, pe⟩ := issueBatch_ptrs s bank' c0 x el ep
        rw [issueBatch_ctxs, Map.get_set_same] at hyy
        injection hyy with hyy; subst hyy
        exact ⟨hrun', rfl, by rw [pe]; exact Map.get_set_same _ _ _⟩
      have hy' : get (startOrSkip s c0 x).1.ctxs c0 = some y := hy
      show y.state = .running ∧ y.timeout = x.timeout ∧ get (startOrSkip s c0 x).1.expH c0 = some (s.height + x.timeout)
      unfold startOrSkip at hy' ⊢
      split
      · rename_i hel
        rw [if_pos hel] at hy'
        split
        · rename_i hsup
          rw [if_pos hsup] at hy'
          exact hissue _ _ _ hy'
        · rename_i hsup
          rw [if_neg hsup] at hy'
          cases hbk : bankSend s.bank x.cons s.cfg.escrow (sumPrices (eligible s x)) with
          | some bk =>
            rw [hbk] at hy'
            exact hissue _ _ _ hy'
          | none =>
            rw [hbk] at hy'
            dsimp only at hy'
            have hy'' : get (Map.set s.ctxs c0 { x with bstate := .completed, state := .paused }) c0 = some y := hy'
            rw [Map.get_set_same] at hy''; injection hy'' with hy''; subst hy''
            simp at hb
      · rename_i hel
        rw [if_neg hel] at hy'
        have hy'' : get (Map.set s.ctxs c0 { x with batch := x.batch + 1, bstate := .running, reqN := 0, respN := 0, bthr := x.thr }) c0 = some y := hy'
        rw [Map.get_set_same] at hy''; injection hy'' with hy''; subst hy''
        exact ⟨hrun', rfl, Map.get_set_same _ _ _⟩

theorem newBatch_used (s : State) (c0 : CtxId) (h : Inv s) (c : CtxId) (hc : c ∈ s.usedIds) : c ∈ (newBatch s c0).s.usedIds :=
  (newBatch_aorig s c0 h).1 c hc

/-- the new-batch handler keeps every tracked context on schedule and never raises the flag -/
theorem newBatch_cad (s : State) (c0 : CtxId) (h : Inv s) (g : Ghost) (hk : CadOK s g) :
    CadOK (newBatch s c0).s (gNew g s c0) := by
  obtain ⟨hbad, hent⟩ := hk
  unfold gNew
  split
  · rename_i hq
    have : (newBatch s c0).s = s := by unfold newBatch; rw [if_pos hq]; rfl
    rw [this]; exact ⟨hbad, hent⟩
  · rename_i hq
    have hmem : (s.height, c0) ∈ s.newQ := by simpa using hq
    have hdue := (h.x.newMirror s.height c0).mp hmem
    -- entries of other contexts
    have hother : ∀ (m : Map CtxId Int), (∀ c, c ≠ c0 → get m c = get g.last c) →
        ∀ c L, c ≠ c0 → get m c = some L → c ∈ (newBatch s c0).s.usedIds ∧
          ∀ y, get (newBatch s c0).s.ctxs c = some y → y.state = .running ∧
            (get (newBatch s c0).s.expH c = some (L + y.timeout) ∨ get (newBatch s c0).s.newH c = some (L + (y.freq : Int))) := by
      intro m hm c L hc hL
      rw [hm c hc] at hL
      obtain ⟨u, e⟩ := hent c L hL
      exact ⟨newBatch_used s c0 h c u, cadEntry_of_sframe (newBatch_others s c0 h c hc) e⟩
    have hdelcase : CadOK (newBatch s c0).s ⟨del g.last c0, g.bad⟩ := by
      refine ⟨hbad, fun c L hL => ?_⟩
      by_cases hc : c = c0
      · subst hc
        have hL' : get (del g.last c) c = some L := hL
        rw [Map.get_del_same] at hL'; cases hL'
      · exact hother (del g.last c0) (fun c2 hc2 => Map.get_del_other _ _ _ (fun e => hc2 e.symm)) c L hc hL
    cases hx : get s.ctxs c0 with
    | none => exact hdelcase
    | some x =>
      cases hy : get (newBatch s c0).s.ctxs c0 with
      | none => exact hdelcase
      | some y =>
        dsimp only
        split
        · rename_i hb
          obtain ⟨k1, k2, k3⟩ := newBatch_started s c0 x y hmem hx hy hb
          refine ⟨?_, fun c L hL => ?_⟩
          · show (g.bad || _) = false
            rw [hbad, Bool.false_or]
            cases hgl : get g.last c0 with
            | none => rfl
            | some L =>
              dsimp only
              obtain ⟨_, e⟩ := hent c0 L hgl
              obtain ⟨_, hs⟩ := e x hx
              have : s.height = L + (x.freq : Int) := by
                rcases hs with he | hn
                · rcases h.x.single c0 with hnn | hee
                  · rw [hnn] at hdue; cases hdue
                  · rw [hee] at he; cases he
                · rw [hdue] at hn; injection hn
              simp [this]
          · by_cases hc : c = c0
            · subst hc
              have hL' : get (set g.last c s.height) c = some L := hL
              rw [Map.get_set_same] at hL'; injection hL' with hL'; subst hL'
              refine ⟨newBatch_used s c h c (h.x.used c (by rw [hx]; rfl)), fun y' hy' => ?_⟩
              rw [hy] at hy'; injection hy' with hy'; subst hy'
              exact ⟨k1, Or.inl (by rw [k3, k2])⟩
            · exact hother (set g.last c0 s.height) (fun c2 hc2 => Map.get_set_other _ _ _ _ (fun e => hc2 e.symm)) c L hc hL
        · exact hdelcase

theorem gFoldNew_cad (l : List CtxId) : ∀ (s : State) (g : Ghost), Inv s → CadOK s g →
    CadOK (foldH newBatch s l).s (gFoldNew g s l) := by
  induction l with
  | nil => intro s g _ hk; exact hk
  | cons c rest ih =>
    intro s g h hk
    have hnp := newBatch_nopanic s c
    rw [foldH_cons]
    simp only [gFoldNew, hnp]
    exact ih (newBatch s c).s (gNew g s c) (newBatch_inv s c h) (newBatch_cad s c h g hk)

theorem expireFold_cad (l : List CtxId) : ∀ (s : State) (g : Ghost), Inv s → CadOK s g →
    CadOK (foldH expireBatch s l).s g := by
  induction l with
  | nil => intro s g _ hk; exact hk
  | cons c rest ih =>
    intro s g h hk
    have hnp := expireBatch_nopanic h c
    rw [foldH_cons]
    simp only [hnp]
    exact ih (expireBatch s c).s g (expireBatch_inv s c h hnp) (expireBatch_cad s c h hnp g hk)

/-! ### every step, every history -/

theorem step_endblock (s : State) (dt : Int) : step s (.endblock dt) = exec s (.endblock dt) := by
  unfold step
  simp [validateBasic, Op.isEndblock]

/-- the four ways a non-end-of-block step can go -/
theorem step_msg_cases (s : State) (op : Op) (hne : op.isEndblock = false) :
    ((step s op).1 = s ∧ (step s op).2.1 ≠ .ok) ∨
    ((step s op).1 = (exec s op).1 ∧ (step s op).2.1 = .ok ∧ (exec s op).2.1 = .ok) := by
  unfold step
  by_cases hv : validateBasic op = true
  · simp only [hv, Bool.not_true, Bool.false_eq_true, if_false, hne]
    cases hres : (exec s op).2.1 with
    | ok => right; simp
    | err e => left; simp
    | invalid => left; simp
    | panic m => left; simp
  · have hv' : validateBasic op = false := by simpa using hv
    left
    simp [hv']

/-- fewer tracked contexts, same flag: still on schedule -/
theorem CadOK.mono {s : State} {g g' : Ghost} (hk : CadOK s g) (hb : g'.bad = g.bad)
    (hl : ∀ c L, get g'.last c = some L → get g.last c = some L) : CadOK s g' :=
  ⟨by rw [hb]; exact hk.1, fun c L hL => hk.2 c L (hl c L hL)⟩

theorem CadOK.nextBlock {s : State} {g : Ghost} (hk : CadOK s g) (ht : Int) (tm : Int) :
    CadOK { s with height := ht, time := tm } g := hk

/-- one step of the ghosted machine keeps every tracked context on schedule and never raises the flag -/
theorem gstep_cad (s : State) (op : Op) (h : Inv s) (hw : WF s op) (g : Ghost) (hk : CadOK s g) :
    CadOK (step s op).1 (gstep g s op) := by
  cases hop : op.isEndblock with
  | true =>
    cases op with
    | endblock dt =>
      rw [step_endblock]
      have hnp := endBlock_nopanic h dt
      show CadOK (match (endBlock s dt).panic with
          | some m => (s, Res.panic m, (endBlock s dt).effs)
          | none => ((endBlock s dt).s, Res.ok, (endBlock s dt).effs)).1
        (match (endBlock s dt).panic with
          | some _ => g
          | none => gFoldNew g (foldH expireBatch s (queuedAt s.expQ s.height)).s
              (queuedAt (foldH expireBatch s (queuedAt s.expQ s.height)).s.newQ (foldH expireBatch s (queuedAt s.expQ s.height)).s.height))
      simp only [hnp]
      have hp1 : (foldH expireBatch s (queuedAt s.expQ s.height)).panic = none :=
        (foldH_nopanic_of expireBatch Inv
          (fun s a hs => ⟨expireBatch_nopanic hs a, expireBatch_inv s a hs (expireBatch_nopanic hs a)⟩) _ s h).1
      have i1 : Inv (foldH expireBatch s (queuedAt s.expQ s.height)).s :=
        (foldH_nopanic_of expireBatch Inv
          (fun s a hs => ⟨expireBatch_nopanic hs a, expireBatch_inv s a hs (expireBatch_nopanic hs a)⟩) _ s h).2
      have c1 := expireFold_cad (queuedAt s.expQ s.height) s g h hk
      have c2 := gFoldNew_cad (queuedAt (foldH expireBatch s (queuedAt s.expQ s.height)).s.newQ
        (foldH expireBatch s (queuedAt s.expQ s.height)).s.height) _ g i1 c1
      have hp2 : (foldH newBatch (foldH expireBatch s (queuedAt s.expQ s.height)).s
          (queuedAt (foldH expireBatch s (queuedAt s.expQ s.height)).s.newQ
            (foldH expireBatch s (queuedAt s.expQ s.height)).s.height)).panic = none :=
        (foldH_nopanic_of newBatch Inv (fun s a hs => ⟨newBatch_nopanic s a, newBatch_inv s a hs⟩) _ _ i1).1
      unfold endBlock
      simp only [hp1, hp2]
      exact c2.nextBlock _ _
    | _ => cases hop
  | false =>
    have hg : gstep g s op = (match op.ctxTarget with
        | some c => if (step s op).2.1 = .ok then ⟨del g.last c, g.bad⟩ else g
        | none => g) := by
      cases op <;> first | rfl | cases hop
    rw [hg]
    rcases step_msg_cases s op hop with ⟨h1, h2⟩ | ⟨h1, h2, h3⟩
    · rw [h1]
      cases op.ctxTarget with
      | none => exact hk
      | some c => dsimp only; rw [if_neg h2]; exact hk
    · rw [h1]
      have hused := (exec_aorig s op h).1
      have hkeep : ∀ (g' : Ghost), g'.bad = g.bad → (∀ c L, get g'.last c = some L → get g.last c = some L ∧ op.ctxTarget ≠ some c) →
          CadOK (exec s op).1 g' := by
        intro g' hb hl
        refine ⟨by rw [hb]; exact hk.1, fun c L hL => ?_⟩
        obtain ⟨hL', hnt⟩ := hl c L hL
        obtain ⟨u, e⟩ := hk.2 c L hL'
        exact ⟨hused c u, cadEntry_of_sframe (exec_sframe s op hw c u hnt hop) e⟩
      cases htg : op.ctxTarget with
      | none =>
        dsimp only
        exact hkeep g rfl (fun c L hL => ⟨hL, by rw [htg]; simp⟩)
      | some c0 =>
        dsimp only
        rw [if_pos h2]
        refine hkeep _ rfl (fun c L hL => ?_)
        by_cases hc : c = c0
        · subst hc
          have hL' : get (del g.last c) c = some L := hL
          rw [Map.get_del_same] at hL'; cases hL'
        · have hL' : get (del g.last c0) c = some L := hL
          rw [Map.get_del_other _ _ _ (fun e => hc e.symm)] at hL'
          exact ⟨hL', fun e => hc (by rw [htg] at e; injection e with e; exact e.symm)⟩

/-- histories of the machine with its ghost component -/
inductive GReach (cfg : Config) (p : Params) (h0 t0 : Int) : State → Ghost → Prop
  | init : GReach cfg p h0 t0 (genesis cfg p h0 t0) Ghost.init
  | step {s : State} {g : Ghost} (op : Op) : GReach cfg p h0 t0 s g → WF s op →
      GReach cfg p h0 t0 (step s op).1 (gstep g s op)

/-- the ghost component is an observer: the states of ghosted histories are exactly the reachable states -/
theorem GReach.state_reachable {cfg : Config} {p : Params} {h0 t0 : Int} {s : State} {g : Ghost}
    (hr : GReach cfg p h0 t0 s g) : Reachable cfg p h0 t0 s := by
  induction hr with
  | init => exact Reachable.init
  | step op _ hw ih => exact Reachable.step op ih hw

theorem reachable_has_ghost {cfg : Config} {p : Params} {h0 t0 : Int} {s : State}
    (hr : Reachable cfg p h0 t0 s) : ∃ g, GReach cfg p h0 t0 s g := by
  induction hr with
  | init => exact ⟨_, GReach.init⟩
  | step op _ hw ih => obtain ⟨g, hg⟩ := ih; exact ⟨_, GReach.step op hg hw⟩

/-- C10: along every history, every tracked context is on schedule and the off-cadence flag is never raised -/
theorem cad_reachable {cfg : Config} {p : Params} {h0 t0 : Int} (hc : CfgOK cfg p) {s : State} {g : Ghost}
    (hr : GReach cfg p h0 t0 s g) : CadOK s g := by
  induction hr with
  | init => exact ⟨rfl, fun c L hL => by simp [Ghost.init] at hL⟩
  | @step s g op hr' hw ih => exact gstep_cad s op (reachable_inv hc hr'.state_reachable) hw g ih

end SM
