import ServiceModel.Proofs.Reachable
/-!
# How a context record may change in one step (for C09): immutable fields, counter, finality of `completed`
-/
namespace SM
open Map

/-- C10: the batch counter of a repeated context with a positive total does not exceed the total -/
def TotBound (x : Ctx) : Prop := x.rep = true → 0 < x.total → (x.batch : Int) ≤ x.total

/-- the allowed evolution of a context record -/
structure CtxEvol (x y : Ctx) : Prop where
  svc : y.svc = x.svc
  cons : y.cons = x.cons
  super : y.super = x.super
  rep : y.rep = x.rep
  mod : y.mod = x.mod
  batch : x.batch ≤ y.batch
  final : x.state = .completed → y.state = .completed
  /-- C10: a repeated context with a positive total never has more batches than its total -/
  bnd : TotBound x → TotBound y
  /-- C19: the record stays valid on its own (`RequestContext.Validate`) -/
  fields : ctxFieldsOK x = true → ctxFieldsOK y = true

theorem CtxEvol.refl (x : Ctx) : CtxEvol x x := ⟨rfl, rfl, rfl, rfl, rfl, Nat.le_refl _, fun h => h, fun h => h, fun h => h⟩

/-- every context of `s'` comes from the context of `s` with the same id by an allowed evolution -/
def CtxsEvol (s s' : State) : Prop :=
  ∀ c y, Map.get s'.ctxs c = some y → ∃ x, Map.get s.ctxs c = some x ∧ CtxEvol x y

theorem CtxsEvol.refl (s : State) : CtxsEvol s s := fun c y h => ⟨y, h, CtxEvol.refl y⟩

theorem ctxsEvol_of_eq {s s' : State} (h : s'.ctxs = s.ctxs) : CtxsEvol s s' := by
  intro c y hy; rw [h] at hy; exact ⟨y, hy, CtxEvol.refl y⟩

theorem ctxsEvol_set {s s' : State} {c : CtxId} {x x' : Ctx} (hx : Map.get s.ctxs c = some x)
    (h : s'.ctxs = Map.set s.ctxs c x') (he : CtxEvol x x') : CtxsEvol s s' := by
  intro c2 y hy
  rw [h, Map.get_set] at hy
  by_cases hc : c = c2
  · subst hc; simp at hy; subst hy; exact ⟨x, hx, he⟩
  · simp [hc] at hy; exact ⟨y, hy, CtxEvol.refl y⟩

theorem ctxsEvol_del {s s' : State} {c : CtxId} (h : s'.ctxs = Map.del s.ctxs c) : CtxsEvol s s' := by
  intro c2 y hy
  rw [h] at hy
  exact ⟨y, (Map.get_del_some hy).2, CtxEvol.refl y⟩

theorem pauseK_evol (s : State) (c : CtxId) (cons : Addr) : CtxsEvol s (pauseK s c cons).1 := by
  unfold pauseK
  cases hx : Map.get s.ctxs c with
  | none => exact CtxsEvol.refl s
  | some x =>
    dsimp only
    split; · exact CtxsEvol.refl s
    split; · exact CtxsEvol.refl s
    split; · exact CtxsEvol.refl s
    rename_i _ _ _ hrun
    refine ctxsEvol_set hx rfl ⟨rfl, rfl, rfl, rfl, rfl, Nat.le_refl _, fun h => ?_, fun h => h, fun h => h⟩
    have : x.state = .running := by simpa using hrun
    rw [this] at h; cases h

theorem startK_evol (s : State) (c : CtxId) (cons : Addr) : CtxsEvol s (startK s c cons).1 := by
  unfold startK
  cases hx : Map.get s.ctxs c with
  | none => exact CtxsEvol.refl s
  | some x =>
    dsimp only
    split; · exact CtxsEvol.refl s
    split; · exact CtxsEvol.refl s
    rename_i _ _ hp
    have hp' : x.state = .paused := by simpa using hp
    have he : CtxEvol x { x with state := .running } :=
      ⟨rfl, rfl, rfl, rfl, rfl, Nat.le_refl _, (fun h => by rw [hp'] at h; cases h), fun h => h, fun h => h⟩
    split
    · exact ctxsEvol_set hx rfl he
    · exact ctxsEvol_set hx rfl he

theorem killK_evol (s : State) (c : CtxId) (cons : Addr) : CtxsEvol s (killK s c cons).1 := by
  unfold killK
  cases hx : Map.get s.ctxs c with
  | none => exact CtxsEvol.refl s
  | some x =>
    dsimp only
    split; · exact CtxsEvol.refl s
    split; · exact CtxsEvol.refl s
    exact ctxsEvol_set hx rfl ⟨rfl, rfl, rfl, rfl, rfl, Nat.le_refl _, fun _ => rfl, fun h => h, fun h => h⟩

theorem updateK_evol (s : State) (c : CtxId) (cons : Addr) (provs : List Addr) (thr : Nat) (cap : Option Nat)
    (timeout : Int) (freq : Nat) (total : Int) (hval : validateCtxUpdate provs cap timeout freq total = none) :
    CtxsEvol s (updateK s c cons provs thr cap timeout freq total).1 := by
  unfold updateK
  cases hx : Map.get s.ctxs c with
  | none => exact CtxsEvol.refl s
  | some x =>
    dsimp only
    split; · exact CtxsEvol.refl s
    split; · exact CtxsEvol.refl s
    rename_i _ _ hnc
    cases hu : updThr x provs thr cap timeout freq total with
    | error e => exact CtxsEvol.refl s
    | ok x1 =>
      dsimp only
      split; · exact CtxsEvol.refl s
      split; · exact CtxsEvol.refl s
      split; · exact CtxsEvol.refl s
      split; · exact CtxsEvol.refl s
      rename_i hcap0 _ _ htot
      obtain ⟨⟨c1, c2, c3, _, _, _⟩, _, _, hr, hst, hsup⟩ := updThr_ok hu
      have hmod : x1.mod = x.mod := by
        unfold updThr at hu; dsimp only at hu
        repeat' (split at hu)
        all_goals first
          | (simp at hu; done)
          | (injection hu with hu; subst hu; rfl)
      have htotal : x1.total = x.total := by
        unfold updThr at hu; dsimp only at hu
        repeat' (split at hu)
        all_goals first
          | (simp at hu; done)
          | (injection hu with hu; subst hu; rfl)
      have hprovs : x1.provs = x.provs ∧ x1.cap = x.cap := by
        unfold updThr at hu; dsimp only at hu
        repeat' (split at hu)
        all_goals first
          | (simp at hu; done)
          | (injection hu with hu; subst hu; exact ⟨rfl, rfl⟩)
      refine ctxsEvol_set hx rfl ⟨c2, c1, hsup, hr, hmod, Nat.le_of_eq c3.symm, fun h => absurd h hnc, ?_, ?_⟩
      rotate_left
      · -- validity of the updated record: new providers / cap passed `ValidateRequestContextUpdating`
        intro hf
        unfold validateCtxUpdate at hval
        have hlen : ¬ provs.length > 10 := by
          intro hh; rw [if_pos hh] at hval; cases hval
        rw [if_neg hlen] at hval
        have hnd : provs.Nodup := by
          by_cases hh : provs.Nodup
          · exact hh
          · rw [if_pos hh] at hval; cases hval
        unfold ctxFieldsOK at hf ⊢
        simp only [Bool.and_eq_true, Bool.not_eq_true', decide_eq_true_eq, ne_eq] at hf ⊢
        obtain ⟨⟨⟨⟨⟨f1, f2⟩, f3⟩, f4⟩, f5⟩, f6⟩ := hf
        show (((((validName (updFields x1 provs cap _ _ total).svc = true ∧ _) ∧ _) ∧ _) ∧ _) ∧ _)
        have e1 : (updFields x1 provs cap (effTimeout x timeout) (effFreq x freq) total).svc = x.svc := c2
        have e2 : (updFields x1 provs cap (effTimeout x timeout) (effFreq x freq) total).cons = x.cons := c1
        have e3 : (updFields x1 provs cap (effTimeout x timeout) (effFreq x freq) total).provs =
            if provs.isEmpty then x1.provs else provs := rfl
        have e4 : (updFields x1 provs cap (effTimeout x timeout) (effFreq x freq) total).cap = cap.getD x1.cap := by
          cases cap <;> rfl
        rw [e1, e2, e3, e4, hprovs.1, hprovs.2]
        refine ⟨⟨⟨⟨⟨f1, ?_⟩, ?_⟩, ?_⟩, f5⟩, ?_⟩
        · by_cases he : provs.isEmpty = true
          · rw [if_pos he]; exact f2
          · rw [if_neg he]; simpa using he
        · by_cases he : provs.isEmpty = true
          · rw [if_pos he]; exact f3
          · rw [if_neg he]; omega
        · by_cases he : provs.isEmpty = true
          · rw [if_pos he]; exact f4
          · rw [if_neg he]; exact hnd
        · cases cap with
          | none => exact f6
          | some n =>
            show 0 < n
            have : n ≠ 0 := fun e0 => hcap0 (by rw [e0])
            omega
      intro hb hrep hpos
      have hrep' : x.rep = true := by rw [← hr]; exact hrep
      show ((updFields x1 provs cap (effTimeout x timeout) (effFreq x freq) total).batch : Int) ≤ _
      have hbatch : (updFields x1 provs cap (effTimeout x timeout) (effFreq x freq) total).batch = x.batch := c3
      have htot' : (updFields x1 provs cap (effTimeout x timeout) (effFreq x freq) total).total =
          if total ≠ 0 then total else x1.total := rfl
      rw [hbatch]
      rw [htot'] at hpos ⊢
      by_cases h0 : total ≠ 0
      · rw [if_pos h0] at hpos ⊢
        by_cases hlt : total < (x.batch : Int)
        · exact absurd ⟨by omega, hlt⟩ htot
        · omega
      · rw [if_neg h0, htotal] at hpos ⊢
        exact hb hrep' hpos

theorem respond_evol (s : State) (r : ReqId) (pv : Addr) (code : Nat) (out : OutKind) :
    CtxsEvol s (respond s r pv code out).1 := by
  unfold respond
  cases hq : Map.get s.reqs r with
  | none => exact CtxsEvol.refl s
  | some q =>
    dsimp only
    cases hx : Map.get s.ctxs r.ctx with
    | none => exact CtxsEvol.refl s
    | some x0 =>
      dsimp only
      split; · exact CtxsEvol.refl s
      split; · exact CtxsEvol.refl s
      cases hs : settle s r x0.svc x0.cons q pv out with
      | error res => exact CtxsEvol.refl s
      | ok res =>
        obtain ⟨s1, e1⟩ := res
        dsimp only
        obtain ⟨bank', bs, ea, oe, hshape, _⟩ := settle_shape hs
        subst hshape
        split
        · exact ctxsEvol_set hx rfl ⟨rfl, rfl, rfl, rfl, rfl, Nat.le_refl _, fun h => h, fun h => h, fun h => h⟩
        · exact ctxsEvol_set hx rfl ⟨rfl, rfl, rfl, rfl, rfl, Nat.le_refl _, fun h => h, fun h => h, fun h => h⟩

end SM

namespace SM
open Map

theorem CtxEvol.trans {x y z : Ctx} (h1 : CtxEvol x y) (h2 : CtxEvol y z) : CtxEvol x z :=
  ⟨h2.svc.trans h1.svc, h2.cons.trans h1.cons, h2.super.trans h1.super, h2.rep.trans h1.rep, h2.mod.trans h1.mod,
   Nat.le_trans h1.batch h2.batch, fun h => h2.final (h1.final h), fun h => h2.bnd (h1.bnd h), fun h => h2.fields (h1.fields h)⟩

theorem CtxsEvol.trans {a b c : State} (h1 : CtxsEvol a b) (h2 : CtxsEvol b c) : CtxsEvol a c := by
  intro k z hz
  obtain ⟨y, hy, e2⟩ := h2 k z hz
  obtain ⟨x, hx, e1⟩ := h1 k y hy
  exact ⟨x, hx, e1.trans e2⟩

theorem expireTail_evol (s : State) (c : CtxId) (x x1 : Ctx) (hx : Map.get s.ctxs c = some x) (he : CtxEvol x x1) :
    CtxsEvol s (expireTail s c x1).1 := by
  have hset : CtxsEvol s (setCtx (delExpQ s c s.height) c x1) := ctxsEvol_set hx rfl he
  unfold expireTail
  dsimp only
  cases x1.state with
  | paused => exact hset
  | completed => exact hset.trans (ctxsEvol_del rfl)
  | running =>
    dsimp only
    split
    · exact hset
    · exact hset.trans (ctxsEvol_del rfl)

theorem expireBatch_evol (s : State) (c : CtxId) (h : Inv s) (hnp : (expireBatch s c).panic = none) :
    CtxsEvol s (expireBatch s c).s := by
  unfold expireBatch at hnp ⊢
  split
  · exact CtxsEvol.refl s
  · rename_i hq
    rw [if_neg hq] at hnp
    have hmem : (s.height, c) ∈ s.expQ := by simpa using hq
    have hexp := (h.x.expMirror s.height c).mp hmem
    cases hx : Map.get s.ctxs c with
    | none => have := (h.x.expFuture c s.height hexp).2; rw [hx] at this; simp at this
    | some x =>
      rw [hx] at hnp
      dsimp only at hnp ⊢
      rcases Option.eq_none_or_eq_some (expirePending s c x).1.panic with hp | ⟨m, hp⟩
      · simp only [hp]
        obtain ⟨_, i2, _, i4, i5, i6, i7⟩ := expirePending_spec s c x h hx hp
        have h1 : CtxsEvol s (expirePending s c x).1.s := ctxsEvol_of_eq i2.2.2.2.2.1
        refine h1.trans (expireTail_evol _ c x _ (by rw [i2.2.2.2.2.1]; exact hx) ?_)
        exact ⟨i4.svc, i4.cons, i4.super, i4.rep, i7, Nat.le_of_eq i4.batch.symm, fun hh => by rw [i5]; exact hh,
          fun hb hrep hpos => by rw [i4.batch, i6]; rw [i4.rep] at hrep; rw [i6] at hpos; exact hb hrep hpos,
          fun hf => by unfold ctxFieldsOK at hf ⊢; rw [i4.svc, i4.provs, i4.cons, i4.cap]; exact hf⟩
      · simp only [hp] at hnp; cases hnp

theorem issueBatch_ctxs (s : State) (bank' : Bank) (c : CtxId) (x : Ctx) (el : List (Addr × Nat)) (ep : List Effect) :
    (issueBatch s bank' c x el ep).1.ctxs =
      Map.set s.ctxs c { x with batch := x.batch + 1, bstate := .running, respN := 0, reqN := el.length, bthr := x.thr } := by
  unfold issueBatch
  dsimp only [addExpQ, setCtx]
  rw [issueReqs_proj (·.ctxs) (fun _ _ _ _ _ _ _ => rfl) _ c x el 0]

/-- the new-batch handler: the counter advances by exactly one when a batch is issued or skipped, only for a running context -/
theorem newBatch_evol (s : State) (c : CtxId) (h : Inv s) : CtxsEvol s (newBatch s c).s := by
  unfold newBatch
  split
  · exact CtxsEvol.refl s
  · rename_i hq
    have hmem : (s.height, c) ∈ s.newQ := by simpa using hq
    have hdue := (h.x.newMirror s.height c).mp hmem
    cases hx : Map.get s.ctxs c with
    | none => have := (h.x.newFuture c s.height hdue).2; rw [hx] at this; simp at this
    | some x =>
      dsimp only
      split
      · exact ctxsEvol_del rfl
      · split
        · exact CtxsEvol.refl s
        · rename_i hfull hrun
          have hrun' : x.state = .running := by simpa using hrun
          have hnext : TotBound x → TotBound { x with batch := x.batch + 1, bstate := .running, respN := 0, reqN := 0, bthr := x.thr } := by
            intro _ hrep hpos
            show ((x.batch + 1 : Nat) : Int) ≤ x.total
            have hrep' : x.rep = true := hrep
            have hpos' : 0 < x.total := hpos
            by_cases hge : (x.batch : Int) ≥ x.total
            · exact absurd ⟨hrun', hrep', by omega, hge⟩ hfull
            · omega
          have hnotc : x.state = .completed → False := by rw [hrun']; intro e; cases e
          have hstep : CtxsEvol s (startOrSkip s c x).1 := by
            unfold startOrSkip
            split
            · split
              · exact ctxsEvol_set hx (issueBatch_ctxs ..) ⟨rfl, rfl, rfl, rfl, rfl, Nat.le_succ _, fun e => (hnotc e).elim, fun hb hrep hpos => hnext hb hrep hpos, fun h => h⟩
              · cases hb : bankSend s.bank x.cons s.cfg.escrow (sumPrices (eligible s x)) with
                | some bk => exact ctxsEvol_set hx (issueBatch_ctxs ..) ⟨rfl, rfl, rfl, rfl, rfl, Nat.le_succ _, fun e => (hnotc e).elim, fun hb hrep hpos => hnext hb hrep hpos, fun h => h⟩
                | none => exact ctxsEvol_set hx rfl ⟨rfl, rfl, rfl, rfl, rfl, Nat.le_refl _, fun e => (hnotc e).elim, fun h => h, fun h => h⟩
            · exact ctxsEvol_set hx rfl ⟨rfl, rfl, rfl, rfl, rfl, Nat.le_succ _, fun e => (hnotc e).elim, fun hb hrep hpos => hnext hb hrep hpos, fun h => h⟩
          exact hstep

theorem foldH_evol {α : Type} (hd : State → α → HRes) (P : State → Prop)
    (hP : ∀ s a, P s → (hd s a).panic = none → P (hd s a).s)
    (hE : ∀ s a, P s → (hd s a).panic = none → CtxsEvol s (hd s a).s)
    (l : List α) (s : State) (hs : P s) (hnp : (foldH hd s l).panic = none) : CtxsEvol s (foldH hd s l).s := by
  induction l generalizing s with
  | nil => exact CtxsEvol.refl s
  | cons a rest ih =>
    obtain ⟨hp1, hp2, hss⟩ := foldH_cons_nopanic _ s a rest hnp
    rw [hss]
    exact (hE s a hs hp1).trans (ih (hd s a).s (hP s a hs hp1) hp2)

theorem foldH_inv {α : Type} (hd : State → α → HRes) (P : State → Prop)
    (hP : ∀ s a, P s → (hd s a).panic = none → P (hd s a).s)
    (l : List α) (s : State) (hs : P s) (hnp : (foldH hd s l).panic = none) : P (foldH hd s l).s := by
  induction l generalizing s with
  | nil => exact hs
  | cons a rest ih =>
    obtain ⟨hp1, hp2, hss⟩ := foldH_cons_nopanic _ s a rest hnp
    rw [hss]
    exact ih (hd s a).s (hP s a hs hp1) hp2

theorem endBlock_evol (s : State) (dt : Int) (h : Inv s) (hnp : (endBlock s dt).panic = none) :
    CtxsEvol s (endBlock s dt).s := by
  unfold endBlock at hnp ⊢
  dsimp only at hnp ⊢
  rcases Option.eq_none_or_eq_some (foldH expireBatch s (queuedAt s.expQ s.height)).panic with hp1 | ⟨m, hp1⟩
  · simp only [hp1] at hnp ⊢
    have e1 := foldH_evol expireBatch Inv (fun s a hs hp => expireBatch_inv s a hs hp)
      (fun s a hs hp => expireBatch_evol s a hs hp) _ s h hp1
    have i1 := foldH_inv expireBatch Inv (fun s a hs hp => expireBatch_inv s a hs hp) _ s h hp1
    rcases Option.eq_none_or_eq_some
        (foldH newBatch (foldH expireBatch s (queuedAt s.expQ s.height)).s
          (queuedAt (foldH expireBatch s (queuedAt s.expQ s.height)).s.newQ
            (foldH expireBatch s (queuedAt s.expQ s.height)).s.height)).panic with hp2 | ⟨m, hp2⟩
    · simp only [hp2] at hnp ⊢
      have e2 := foldH_evol newBatch Inv (fun s a hs _ => newBatch_inv s a hs)
        (fun s a hs _ => newBatch_evol s a hs) _ _ i1 hp2
      exact e1.trans (e2.trans (ctxsEvol_of_eq rfl))
    · simp only [hp2] at hnp; cases hnp
  · simp only [hp1] at hnp; cases hnp

end SM
