import ServiceModel.Proofs.Cadence
import ServiceModel.Proofs.NoSlash
/-!
# C12: the response callback is invoked exactly once per batch, over every history

The history is run with a ghost counter per context: the number of response callbacks (`respcb` effects) emitted for
it so far. Invariant `CbOK`: for a context created by a module, callbacks so far + (1 if a batch is in flight) =
number of batches started (the batch counter). A batch start (issue or skip) advances the counter and marks the
batch running; the only way back to `completed` is `completeBatch`, which emits exactly one callback; nothing else
emits one. Hence every started batch gets exactly one callback, at its completion.
-/
namespace SM
open Map

def Effect.isCb : Effect → Bool
  | .respcb .. => true
  | _ => false

def Effect.isCbOf (c : CtxId) : Effect → Bool
  | .respcb c' _ _ => decide (c' = c)
  | _ => false

/-- number of response callbacks for context `c` among the effects -/
def cbCount (c : CtxId) (l : List Effect) : Nat := l.countP (Effect.isCbOf c)

theorem cbCount_append (c : CtxId) (l1 l2 : List Effect) : cbCount c (l1 ++ l2) = cbCount c l1 + cbCount c l2 := by
  unfold cbCount; exact List.countP_append

def noCb (l : List Effect) : Prop := ∀ e ∈ l, e.isCb = false

theorem cbCount_of_noCb {l : List Effect} (h : noCb l) (c : CtxId) : cbCount c l = 0 := by
  unfold cbCount
  rw [List.countP_eq_zero]
  intro e he
  have := h e he
  cases e <;> simp_all [Effect.isCb, Effect.isCbOf]

theorem noCb_append {l1 l2 : List Effect} (h1 : noCb l1) (h2 : noCb l2) : noCb (l1 ++ l2) := by
  intro e he
  rcases List.mem_append.mp he with h | h
  · exact h1 e h
  · exact h2 e h

macro "nocb_tac" f:ident : tactic =>
  `(tactic| (unfold $f; (try dsimp only); repeat' split
             all_goals (intro e he; simp [fail, panicOut] at he; try (rcases he with rfl | rfl) <;> rfl)))

theorem noCb_nil : noCb [] := by intro e h; cases h

macro "nocb_tac" f:ident : tactic =>
  `(tactic| (unfold $f; (try dsimp only); repeat' split
             all_goals (intro e he; simp [fail, panicOut] at he; try (rcases he with rfl | rfl) <;> rfl)))

theorem define_noCb (s : State) (n : SvcName) (a : Addr) : noCb (define s n a).2.2 := by nocb_tac define
theorem setwd_noCb (s : State) (o a : Addr) : noCb (setwd s o a).2.2 := noCb_nil
theorem disable_noCb (s : State) (svc : SvcName) (p o : Addr) : noCb (disable s svc p o).2.2 := by nocb_tac disable
theorem refund_noCb (s : State) (svc : SvcName) (p o : Addr) : noCb (refund s svc p o).2.2 := by
  unfold refund; repeat' split
  all_goals (intro e he; simp [fail] at he; try (subst he; rfl))
theorem enable_noCb (s : State) (svc : SvcName) (p o : Addr) (dep : Option Nat) : noCb (enable s svc p o dep).2.2 := by
  unfold enable; (try dsimp only); repeat' split
  all_goals (intro e he; simp [fail, panicOut] at he; try (subst he; rfl))
theorem update_noCb (s : State) (svc : SvcName) (p o : Addr) (dep : Option Nat) (text : Option PricingText) (qos : Nat) :
    noCb (update s svc p o dep text qos).2.2 := by
  unfold update; (try dsimp only); repeat' split
  all_goals (intro e he; simp [fail, panicOut] at he; try (subst he; rfl))
theorem bind_noCb (s : State) (svc : SvcName) (p o : Addr) (dep : Option Nat) (text : PricingText) (qos : Nat) :
    noCb (bind s svc p o dep text qos).2.2 := by
  unfold bind; (try dsimp only); repeat' split
  all_goals (intro e he; simp [fail, panicOut] at he; try (subst he; rfl))
theorem pauseK_noCb (s : State) (c : CtxId) (cons : Addr) : noCb (pauseK s c cons).2.2 := by
  unfold pauseK; (try dsimp only); repeat' split
  all_goals (intro e he; simp [fail] at he; try (subst he; rfl))
theorem startK_noCb (s : State) (c : CtxId) (cons : Addr) : noCb (startK s c cons).2.2 := by
  unfold startK; (try dsimp only); repeat' split
  all_goals (intro e he; simp [fail] at he; try (subst he; rfl))
theorem killK_noCb (s : State) (c : CtxId) (cons : Addr) : noCb (killK s c cons).2.2 := by
  unfold killK; (try dsimp only); repeat' split
  all_goals (intro e he; simp [fail] at he; try (subst he; rfl))
theorem updateK_noCb (s : State) (c : CtxId) (cons : Addr) (provs : List Addr) (thr : Nat) (cap : Option Nat)
    (timeout : Int) (freq : Nat) (total : Int) : noCb (updateK s c cons provs thr cap timeout freq total).2.2 := by
  unfold updateK; (try dsimp only); repeat' split
  all_goals (intro e he; simp [fail] at he)
theorem createCtx_noCb (s : State) (id : CtxId) (mod : ModName) (svc : SvcName) (provs : List Addr) (cons : Addr)
    (cap : Option Nat) (timeout : Int) (super rep : Bool) (freq : Nat) (total : Int) (inputOk running : Bool) (thr : Nat) :
    noCb (createCtx s id mod svc provs cons cap timeout super rep freq total inputOk running thr).2.2 := by
  unfold createCtx; (try dsimp only); repeat' split
  all_goals (intro e he; simp [fail] at he)
theorem ctxMsg_noCb (s : State) (c : CtxId) (cons : Addr) (k : State → Out) (hk : noCb (k s).2.2) :
    noCb (ctxMsg s c cons k).2.2 := by
  unfold ctxMsg; split
  · exact noCb_nil
  · exact hk
theorem withdraw_noCb (s : State) (o p : Addr) : noCb (withdraw s o p).2.2 := by
  unfold withdraw; (try dsimp only); repeat' split
  all_goals (intro e he; simp [fail] at he; try (subst he; rfl))

/-- an operation other than a response or the end of a block invokes no response callback -/
theorem exec_noCb (s : State) (op : Op) (hne : op.isEndblock = false) (hnr : ∀ r p c o, op ≠ .respond r p c o) :
    noCb (exec s op).2.2 := by
  cases op with
  | fund a n => exact noCb_nil
  | xfer a b n =>
    show noCb (match bankSend s.bank a b n with
      | none => fail s Err.insufficientFunds
      | some bank' => ({ s with bank := bank' }, Res.ok, [])).2.2
    split <;> exact noCb_nil
  | define n a ok => exact define_noCb s n a
  | bind svc p o dep text qos =>
    cases text with
    | none => exact noCb_nil
    | some t => exact bind_noCb s svc p o dep t qos
  | update svc p o dep text qos => exact update_noCb s svc p o dep text qos
  | setwd o a => exact noCb_nil
  | disable svc p o => exact disable_noCb s svc p o
  | enable svc p o dep => exact enable_noCb s svc p o dep
  | refund svc p o => exact refund_noCb s svc p o
  | call id svc provs cons cap timeout super rep freq total inputOk =>
    show noCb (if s.cfg.modsvc = some svc then panicOut s "module-service call: outside the model"
      else createCtx s id "" svc provs cons cap timeout super rep freq total inputOk true 0).2.2
    split
    · exact noCb_nil
    · exact createCtx_noCb s id "" svc provs cons cap timeout super rep freq total inputOk true 0
  | modcreate id mod svc provs cons cap timeout super rep freq total inputOk running thr =>
    exact createCtx_noCb s id mod svc provs cons cap timeout super rep freq total inputOk running thr
  | respond r p code out => exact absurd rfl (hnr r p code out)
  | pause c cons => exact ctxMsg_noCb s c cons _ (pauseK_noCb s c cons)
  | start c cons => exact ctxMsg_noCb s c cons _ (startK_noCb s c cons)
  | kill c cons => exact ctxMsg_noCb s c cons _ (killK_noCb s c cons)
  | updatectx c cons provs cap timeout freq total => exact ctxMsg_noCb s c cons _ (updateK_noCb s c cons provs 0 cap timeout freq total)
  | modpause c cons => exact pauseK_noCb s c cons
  | modstart c cons => exact startK_noCb s c cons
  | modkill c cons => exact killK_noCb s c cons
  | modupdate c cons provs thr cap timeout freq total => exact updateK_noCb s c cons provs thr cap timeout freq total
  | withdraw o p => exact withdraw_noCb s o p
  | endblock dt => simp [Op.isEndblock] at hne


/-! ### operations that start and complete no batch -/

/-- every context afterwards is a context before with the same owner module, batch counter and batch state, or a
    new one (unused id, counter 0, no batch in flight) -/
def BKeep (s s' : State) : Prop :=
  ∀ c y, get s'.ctxs c = some y →
    (∃ x, get s.ctxs c = some x ∧ y.mod = x.mod ∧ y.batch = x.batch ∧ y.bstate = x.bstate) ∨
    (c ∉ s.usedIds ∧ y.batch = 0 ∧ y.bstate = .completed)

theorem BKeep.refl (s : State) : BKeep s s := fun _ y hy => Or.inl ⟨y, hy, rfl, rfl, rfl⟩

theorem bkeep_of_eq {s s' : State} (h : s'.ctxs = s.ctxs) : BKeep s s' :=
  fun _ y hy => Or.inl ⟨y, by rw [← h]; exact hy, rfl, rfl, rfl⟩

theorem bkeep_set {s s' : State} {c0 : CtxId} {x x' : Ctx} (hx : get s.ctxs c0 = some x) (h : s'.ctxs = Map.set s.ctxs c0 x')
    (h1 : x'.mod = x.mod) (h2 : x'.batch = x.batch) (h3 : x'.bstate = x.bstate) : BKeep s s' := by
  intro c y hy
  rw [h, Map.get_set] at hy
  by_cases hc : c0 = c
  · subst hc; simp at hy; subst hy; exact Or.inl ⟨x, hx, h1, h2, h3⟩
  · simp [hc] at hy; exact Or.inl ⟨y, hy, rfl, rfl, rfl⟩

theorem pauseK_bkeep (s : State) (c : CtxId) (cons : Addr) : BKeep s (pauseK s c cons).1 := by
  unfold pauseK
  cases hx : get s.ctxs c with
  | none => exact BKeep.refl s
  | some x =>
    dsimp only
    repeat' split
    all_goals first
      | exact BKeep.refl s
      | exact bkeep_set hx rfl rfl rfl rfl

theorem killK_bkeep (s : State) (c : CtxId) (cons : Addr) : BKeep s (killK s c cons).1 := by
  unfold killK
  cases hx : get s.ctxs c with
  | none => exact BKeep.refl s
  | some x =>
    dsimp only
    repeat' split
    all_goals first
      | exact BKeep.refl s
      | exact bkeep_set hx rfl rfl rfl rfl

theorem startK_bkeep (s : State) (c : CtxId) (cons : Addr) : BKeep s (startK s c cons).1 := by
  unfold startK
  cases hx : get s.ctxs c with
  | none => exact BKeep.refl s
  | some x =>
    dsimp only
    repeat' split
    all_goals first
      | exact BKeep.refl s
      | exact bkeep_set hx rfl rfl rfl rfl

theorem updThr_mod {x x1 : Ctx} {provs : List Addr} {thr : Nat} {cap : Option Nat} {timeout : Int} {freq : Nat} {total : Int}
    (h : updThr x provs thr cap timeout freq total = .ok x1) : x1.mod = x.mod := by
  unfold updThr at h
  dsimp only at h
  repeat' (split at h)
  all_goals first
    | (simp at h; done)
    | (injection h with h; subst h; rfl)

theorem updateK_bkeep (s : State) (c : CtxId) (cons : Addr) (provs : List Addr) (thr : Nat) (cap : Option Nat)
    (timeout : Int) (freq : Nat) (total : Int) : BKeep s (updateK s c cons provs thr cap timeout freq total).1 := by
  unfold updateK
  cases hx : get s.ctxs c with
  | none => exact BKeep.refl s
  | some x =>
    dsimp only
    split; · exact BKeep.refl s
    split; · exact BKeep.refl s
    cases hu : updThr x provs thr cap timeout freq total with
    | error e => exact BKeep.refl s
    | ok x1 =>
      dsimp only
      split; · exact BKeep.refl s
      split; · exact BKeep.refl s
      split; · exact BKeep.refl s
      split; · exact BKeep.refl s
      obtain ⟨⟨_, _, c3, c4, _, _⟩, _⟩ := updThr_ok hu
      exact bkeep_set hx rfl (updThr_mod hu : x1.mod = x.mod) c3 c4

theorem ctxMsg_bkeep (s : State) (c : CtxId) (cons : Addr) (k : State → Out) (hk : BKeep s (k s).1) :
    BKeep s (ctxMsg s c cons k).1 := by
  unfold ctxMsg; split
  · exact BKeep.refl s
  · exact hk

theorem createCtx_bkeep (s : State) (id : CtxId) (mod : ModName) (svc : SvcName) (provs : List Addr) (cons : Addr)
    (cap : Option Nat) (timeout : Int) (super rep : Bool) (freq : Nat) (total : Int) (inputOk running : Bool) (thr : Nat)
    (hfresh : id ∉ s.usedIds) :
    BKeep s (createCtx s id mod svc provs cons cap timeout super rep freq total inputOk running thr).1 := by
  unfold createCtx; dsimp only
  repeat' split
  all_goals first
    | exact BKeep.refl s
    | (intro c y hy
       simp only [setCtx, addNewQ] at hy
       rw [Map.get_set] at hy
       by_cases hc : id = c
       · subst hc; simp at hy; subst hy; exact Or.inr ⟨hfresh, rfl, rfl⟩
       · simp [hc] at hy; exact Or.inl ⟨y, hy, rfl, rfl, rfl⟩)

theorem withdraw_ctxs (s : State) (o p : Addr) : (withdraw s o p).1.ctxs = s.ctxs := (withdraw_ctx_ptrs s o p).1

/-- an operation other than a response or the end of a block starts and completes no batch -/
theorem exec_bkeep (s : State) (op : Op) (hw : WF s op) (hne : op.isEndblock = false) (hnr : ∀ r p c o, op ≠ .respond r p c o) :
    BKeep s (exec s op).1 := by
  cases op with
  | fund a n => exact bkeep_of_eq rfl
  | xfer a b n =>
    show BKeep s (match bankSend s.bank a b n with
      | none => fail s Err.insufficientFunds
      | some bank' => ({ s with bank := bank' }, Res.ok, [])).1
    split
    · exact BKeep.refl s
    · exact bkeep_of_eq rfl
  | define n a ok => show BKeep s (define s n a).1; unfold define; split <;> exact bkeep_of_eq rfl
  | bind svc p o dep text qos =>
    cases text with
    | none => exact BKeep.refl s
    | some t => exact bkeep_of_eq (bind_frame s svc p o dep t qos).2.2.2.1
  | update svc p o dep text qos => exact bkeep_of_eq (update_frame s svc p o dep text qos).2.2.2.1
  | setwd o a => exact bkeep_of_eq rfl
  | disable svc p o => exact bkeep_of_eq (disable_frame s svc p o).2.2.2.1
  | enable svc p o dep => exact bkeep_of_eq (enable_frame s svc p o dep).2.2.2.1
  | refund svc p o => exact bkeep_of_eq (refund_frame s svc p o).2.2.2.1
  | call id svc provs cons cap timeout super rep freq total inputOk =>
    show BKeep s (if s.cfg.modsvc = some svc then panicOut s "module-service call: outside the model"
      else createCtx s id "" svc provs cons cap timeout super rep freq total inputOk true 0).1
    obtain ⟨_, hfresh, _⟩ : ¬ s.modAcct cons ∧ id ∉ s.usedIds ∧ s.cfg.modsvc ≠ some svc := hw
    split
    · exact BKeep.refl s
    · exact createCtx_bkeep s id "" svc provs cons cap timeout super rep freq total inputOk true 0 hfresh
  | modcreate id mod svc provs cons cap timeout super rep freq total inputOk running thr =>
    obtain ⟨_, hfresh, _, _⟩ : ¬ s.modAcct cons ∧ id ∉ s.usedIds ∧ mod ≠ "" ∧ cons ≠ "" := hw
    exact createCtx_bkeep s id mod svc provs cons cap timeout super rep freq total inputOk running thr hfresh
  | respond r p code out => exact absurd rfl (hnr r p code out)
  | pause c cons => exact ctxMsg_bkeep s c cons _ (pauseK_bkeep s c cons)
  | start c cons => exact ctxMsg_bkeep s c cons _ (startK_bkeep s c cons)
  | kill c cons => exact ctxMsg_bkeep s c cons _ (killK_bkeep s c cons)
  | updatectx c cons provs cap timeout freq total =>
    exact ctxMsg_bkeep s c cons _ (updateK_bkeep s c cons provs 0 cap timeout freq total)
  | modpause c cons => exact pauseK_bkeep s c cons
  | modstart c cons => exact startK_bkeep s c cons
  | modkill c cons => exact killK_bkeep s c cons
  | modupdate c cons provs thr cap timeout freq total => exact updateK_bkeep s c cons provs thr cap timeout freq total
  | withdraw o p => exact bkeep_of_eq (withdraw_ctxs s o p)
  | endblock dt => cases hne

/-! ### the counting invariant -/

def CbOK (s : State) (n : CtxId → Nat) : Prop :=
  (∀ c, c ∉ s.usedIds → n c = 0) ∧
  ∀ c x, get s.ctxs c = some x → x.mod ≠ "" → n c + (if x.bstate = .running then 1 else 0) = x.batch

/-- no callback, no batch started or completed -/
theorem cbok_keep {s s' : State} {n : CtxId → Nat} {effs : List Effect} (hk : CbOK s n) (hno : noCb effs)
    (hu : ∀ c, c ∈ s.usedIds → c ∈ s'.usedIds) (hb : BKeep s s') :
    CbOK s' (fun c => n c + cbCount c effs) := by
  refine ⟨fun c hc => ?_, fun c y hy hm => ?_⟩
  · show n c + cbCount c effs = 0
    rw [cbCount_of_noCb hno, hk.1 c (fun h => hc (hu c h))]
  · show n c + cbCount c effs + _ = _
    rw [cbCount_of_noCb hno, Nat.add_zero]
    rcases hb c y hy with ⟨x, hx, e1, e2, e3⟩ | ⟨hf, e2, e3⟩
    · rw [e2, e3]; exact hk.2 c x hx (by rw [← e1]; exact hm)
    · rw [hk.1 c hf, e2, e3]; rfl

theorem CbOK.congr {s : State} {n n' : CtxId → Nat} (h : CbOK s n) (e : ∀ c, n' c = n c) : CbOK s n' :=
  ⟨fun c hc => by rw [e c]; exact h.1 c hc, fun c x hx hm => by rw [e c]; exact h.2 c x hx hm⟩

/-- `completeBatch` invokes the callback of its own context exactly once iff the context belongs to a module -/
theorem completeBatch_cb (s : State) (c0 c : CtxId) (x : Ctx) :
    cbCount c (completeBatch s c0 x).2 = if x.mod ≠ "" ∧ c0 = c then 1 else 0 := by
  unfold completeBatch cbCount
  dsimp only
  by_cases hm : x.mod ≠ ""
  · rw [if_pos hm]
    by_cases hc : c0 = c
    · rw [if_pos ⟨hm, hc⟩]
      cases get s.ctxs c0 <;> simp [Effect.isCbOf, hc]
    · rw [if_neg (fun hh => hc hh.2)]
      cases get s.ctxs c0 <;> simp [Effect.isCbOf, hc]
  · rw [if_neg hm, if_neg (fun hh => hm hh.1)]
    simp [Effect.isCbOf]

theorem noCb_of_settle {s s1 : State} {r : ReqId} {svc : SvcName} {cons : Addr} {q : Req} {prov : Addr} {out : OutKind}
    {e1 : List Effect} (h : settle s r svc cons q prov out = .ok (s1, e1)) : noCb e1 := by
  intro e he
  rcases settle_effects h e he with ⟨a, b, n, rfl⟩ | ⟨r', p, n, rfl⟩ <;> rfl

/-- a response: one callback for the request's context iff it completes the batch of a module context -/
theorem respond_cbok (s : State) (r : ReqId) (pv : Addr) (code : Nat) (out : OutKind) (h : Inv s) (n : CtxId → Nat)
    (hk : CbOK s n) : CbOK (respond s r pv code out).1 (fun c => n c + cbCount c (respond s r pv code out).2.2) := by
  have hsame : CbOK s (fun c => n c + cbCount c []) := hk.congr (fun c => by simp [cbCount])
  unfold respond
  cases hq : get s.reqs r with
  | none => exact hsame
  | some q =>
    dsimp only
    cases hx : get s.ctxs r.ctx with
    | none => exact hsame
    | some x =>
      dsimp only
      split; · exact hsame
      split; · exact hsame
      rename_i _ hact
      have hact' : r ∈ s.activeI := by simpa using hact
      cases hs : settle s r x.svc x.cons q pv out with
      | error res => exact hsame
      | ok res =>
        obtain ⟨s1, e1⟩ := res
        dsimp only
        obtain ⟨bank', bs, ea, oe, hshape, _⟩ := settle_shape hs
        have hno := noCb_of_settle hs
        subst hshape
        obtain ⟨x0, hx0, hxb⟩ := h.x.activeRunning r hact'
        rw [hx] at hx0; injection hx0 with hx0; subst hx0
        have hused : r.ctx ∈ s.usedIds := h.x.used r.ctx (by rw [hx]; rfl)
        split
        · -- the batch is completed
          refine ⟨fun c hc => ?_, fun c y hy hm => ?_⟩
          · show n c + cbCount c (e1 ++ _) = 0
            rw [cbCount_append, cbCount_of_noCb hno, completeBatch_cb, if_neg (fun (hh : x.mod ≠ "" ∧ r.ctx = c) => hc (hh.2 ▸ hused)), hk.1 c hc]
          · show n c + cbCount c (e1 ++ _) + _ = _
            rw [cbCount_append, cbCount_of_noCb hno, completeBatch_cb]
            have hy' : get (Map.set s.ctxs r.ctx (completeBatch _ r.ctx { x with respN := x.respN + 1 }).1) c = some y := hy
            by_cases hc : r.ctx = c
            · subst hc
              rw [Map.get_set_same] at hy'; injection hy' with hy'; subst hy'
              have hm' : x.mod ≠ "" := hm
              have := hk.2 r.ctx x hx hm'
              rw [hxb] at this
              rw [if_pos ⟨hm', rfl⟩]
              show n r.ctx + (0 + 1) + 0 = x.batch
              simpa using this
            · rw [Map.get_set_other _ _ _ _ hc] at hy'
              rw [if_neg (fun hh => hc hh.2)]
              exact hk.2 c y hy' hm
        · refine ⟨fun c hc => ?_, fun c y hy hm => ?_⟩
          · show n c + cbCount c e1 = 0
            rw [cbCount_of_noCb hno, hk.1 c hc]
          · show n c + cbCount c e1 + _ = _
            rw [cbCount_of_noCb hno]
            have hy' : get (Map.set s.ctxs r.ctx { x with respN := x.respN + 1 }) c = some y := hy
            by_cases hc : r.ctx = c
            · subst hc
              rw [Map.get_set_same] at hy'; injection hy' with hy'; subst hy'
              exact hk.2 r.ctx x hx hm
            · rw [Map.get_set_other _ _ _ _ hc] at hy'
              exact hk.2 c y hy' hm

/-! ### end of block -/

theorem noCb_of_money {l : List Effect} (h : ∀ e ∈ l, e.isMoney = true) : noCb l := by
  intro e he
  have := h e he
  cases e <;> simp_all [Effect.isMoney, Effect.isCb]

/-- the first half of an expiry invokes the callback once iff the batch of a module context was still running -/
theorem expirePending_cb (s : State) (c0 c : CtxId) (x : Ctx) :
    cbCount c (expirePending s c0 x).1.effs = if x.bstate ≠ .completed ∧ x.mod ≠ "" ∧ c0 = c then 1 else 0 := by
  unfold expirePending
  by_cases hb : x.bstate ≠ .completed
  · rw [if_pos hb]
    dsimp only
    rw [cbCount_append, cbCount_of_noCb (noCb_of_money (foldH_effects (expireReq x) (fun e => e.isMoney = true) (expireReq_effects x) _ s)),
      completeBatch_cb]
    by_cases hh : x.mod ≠ "" ∧ c0 = c
    · rw [if_pos hh, if_pos ⟨hb, hh⟩]
    · rw [if_neg hh, if_neg (fun h3 => hh h3.2)]
  · rw [if_neg hb, if_neg (fun h3 => hb h3.1)]
    rfl

theorem expireTail_noCb (s : State) (c : CtxId) (x1 : Ctx) : noCb (expireTail s c x1).2 := by
  unfold expireTail
  dsimp only
  cases x1.state with
  | running => dsimp only; split <;> (intro e he; simp at he; try (subst he; rfl))
  | paused => intro e he; cases he
  | completed => intro e he; simp at he; subst he; rfl

theorem expireBatch_cbok (s : State) (c0 : CtxId) (h : Inv s) (hnp : (expireBatch s c0).panic = none) (n : CtxId → Nat)
    (hk : CbOK s n) : CbOK (expireBatch s c0).s (fun c => n c + cbCount c (expireBatch s c0).effs) := by
  have hsame : CbOK s (fun c => n c + cbCount c []) := hk.congr (fun c => by simp [cbCount])
  have hused := (expireBatch_aorig s c0 h hnp).1
  unfold expireBatch at hnp hused ⊢
  split
  · exact hsame
  · rename_i hq
    rw [if_neg hq] at hnp hused
    have hmem : (s.height, c0) ∈ s.expQ := by simpa using hq
    have hexp := (h.x.expMirror s.height c0).mp hmem
    cases hx : get s.ctxs c0 with
    | none => have := (h.x.expFuture c0 s.height hexp).2; rw [hx] at this; simp at this
    | some x =>
      rw [hx] at hnp hused
      dsimp only at hnp hused ⊢
      rcases Option.eq_none_or_eq_some (expirePending s c0 x).1.panic with hp | ⟨m, hp⟩
      · simp only [hp] at hused ⊢
        obtain ⟨_, i2, _, i4, _, _, i7⟩ := expirePending_spec s c0 x h hx hp
        obtain ⟨_, t2, t3⟩ := expireTail_ctxs_active (expirePending s c0 x).1.s c0 (expirePending s c0 x).2
        have hu0 : c0 ∈ s.usedIds := h.x.used c0 (by rw [hx]; rfl)
        have hcount : ∀ c, cbCount c ((expirePending s c0 x).1.effs ++ (expireTail (expirePending s c0 x).1.s c0 (expirePending s c0 x).2).2) =
            if x.bstate ≠ .completed ∧ x.mod ≠ "" ∧ c0 = c then 1 else 0 := by
          intro c
          rw [cbCount_append, cbCount_of_noCb (expireTail_noCb _ _ _), expirePending_cb, Nat.add_zero]
        refine ⟨fun c hc => ?_, fun c y hy hm => ?_⟩
        · show n c + cbCount c _ = 0
          rw [hcount, if_neg (fun (hh : x.bstate ≠ .completed ∧ x.mod ≠ "" ∧ c0 = c) => hc (hh.2.2 ▸ hused c0 hu0)), hk.1 c (fun hin => hc (hused c hin))]
        · show n c + cbCount c _ + _ = _
          rw [hcount]
          by_cases hc : c0 = c
          · subst hc
            have hy1 := t3 y hy
            subst hy1
            have hm' : x.mod ≠ "" := by rw [← i7]; exact hm
            have := hk.2 c0 x hx hm'
            rw [i4.bstate, i4.batch]
            by_cases hb : x.bstate ≠ .completed
            · have hrun : x.bstate = .running := by
                cases hh : x.bstate with
                | running => rfl
                | completed => exact absurd hh hb
              rw [if_pos ⟨hb, hm', rfl⟩]
              rw [hrun] at this
              simpa using this
            · have hcomp : x.bstate = .completed := by
                cases hh : x.bstate with
                | completed => rfl
                | running => rw [hh] at hb; simp at hb
              rw [if_neg (fun hh => hb hh.1)]
              rw [hcomp] at this
              simpa using this
          · rw [if_neg (fun hh => hc hh.2.2)]
            have hy' : get s.ctxs c = some y := by
              have := t2 c (fun e => hc e.symm)
              rw [i2.2.2.2.2.1] at this
              rw [← this]; exact hy
            exact hk.2 c y hy' hm
      · simp only [hp] at hnp; cases hnp

theorem issueBatch_effs_noCb (s : State) (bank' : Bank) (c : CtxId) (x : Ctx) (el : List (Addr × Nat)) (ep : List Effect)
    (h : noCb ep) : noCb (issueBatch s bank' c x el ep).2 := by
  unfold issueBatch
  exact noCb_append h (fun e he => by simp at he; subst he; rfl)

theorem newBatch_noCb (s : State) (c : CtxId) : noCb (newBatch s c).effs := by
  unfold newBatch
  split
  · intro e he; cases he
  · cases get s.ctxs c with
    | none => intro e he; cases he
    | some x =>
      dsimp only
      split
      · intro e he; simp at he; subst he; rfl
      · split
        · intro e he; cases he
        · refine noCb_append ?_ (fun e he => by simp at he; subst he; rfl)
          unfold startOrSkip
          split
          · split
            · exact issueBatch_effs_noCb _ _ _ _ _ _ (fun e he => by cases he)
            · cases bankSend s.bank x.cons s.cfg.escrow (sumPrices (eligible s x)) with
              | some bk =>
                refine issueBatch_effs_noCb _ _ _ _ _ _ ?_
                split
                · intro e he; cases he
                · intro e he; simp at he; subst he; rfl
              | none =>
                intro e he
                simp only [List.mem_cons, List.not_mem_nil, or_false] at he
                rcases he with rfl | rfl
                · rfl
                · split <;> rfl
          · intro e he; cases he

/-- what the new-batch handler does to contexts: others untouched; its own either starts a batch (counter + 1,
    batch running) or keeps counter and batch state, or is removed -/
theorem newBatch_ctx (s : State) (c0 : CtxId) (h : Inv s) :
    (∀ c, c ≠ c0 → get (newBatch s c0).s.ctxs c = get s.ctxs c) ∧
    (∀ y, get (newBatch s c0).s.ctxs c0 = some y → ∃ x, get s.ctxs c0 = some x ∧ y.mod = x.mod ∧
      ((y.batch = x.batch ∧ y.bstate = x.bstate) ∨
       (x.bstate = .completed ∧ y.batch = x.batch ∧ y.bstate = .completed) ∨
       (x.bstate = .completed ∧ y.batch = x.batch + 1 ∧ y.bstate = .running))) := by
  unfold newBatch
  split
  · exact ⟨fun _ _ => rfl, fun y hy => ⟨y, hy, rfl, Or.inl ⟨rfl, rfl⟩⟩⟩
  · rename_i hq
    have hmem : (s.height, c0) ∈ s.newQ := by simpa using hq
    have hdue := (h.x.newMirror s.height c0).mp hmem
    cases hx : get s.ctxs c0 with
    | none => exact ⟨fun _ _ => rfl, fun y hy => by
        have hy' : get s.ctxs c0 = some y := hy
        rw [hx] at hy'; cases hy'⟩
    | some x =>
      dsimp only
      obtain ⟨_, hbc, _, _⟩ := h.x.dueFacts hx hdue
      have hset : ∀ (x' : Ctx) c, c ≠ c0 → get (Map.set s.ctxs c0 x') c = get s.ctxs c :=
        fun x' c hc => Map.get_set_other _ _ _ _ (fun e => hc e.symm)
      split
      · refine ⟨fun c hc => ?_, fun y hy => ?_⟩
        · show get (Map.del s.ctxs c0) c = _
          exact Map.get_del_other _ _ _ (fun e => hc e.symm)
        · have hy' : get (Map.del s.ctxs c0) c0 = some y := hy
          rw [Map.get_del_same] at hy'; cases hy'
      · split
        · exact ⟨fun _ _ => rfl, fun y hy => ⟨x, rfl, by
            have hy' : get s.ctxs c0 = some y := hy
            rw [hx] at hy'; injection hy' with hy'; subst hy'; exact ⟨rfl, Or.inl ⟨rfl, rfl⟩⟩⟩⟩
        · have hissue : ∀ (bank' : Bank) (el : List (Addr × Nat)) (ep : List Effect),
              (∀ c, c ≠ c0 → get (issueBatch s bank' c0 x el ep).1.ctxs c = get s.ctxs c) ∧
              (∀ y, get (issueBatch s bank' c0 x el ep).1.ctxs c0 = some y → ∃ x', some x = some x' ∧ y.mod = x'.mod ∧
                ((y.batch = x'.batch ∧ y.bstate = x'.bstate) ∨
                 (x'.bstate = .completed ∧ y.batch = x'.batch ∧ y.bstate = .completed) ∨
                 (x'.bstate = .completed ∧ y.batch = x'.batch + 1 ∧ y.bstate = .running))) := by
            intro bank' el ep
            rw [issueBatch_ctxs]
            refine ⟨fun c hc => hset _ c hc, fun y hy => ?_⟩
            rw [Map.get_set_same] at hy; injection hy with hy; subst hy
            exact ⟨x, rfl, rfl, Or.inr (Or.inr ⟨hbc, rfl, rfl⟩)⟩
          show (∀ c, c ≠ c0 → get (startOrSkip s c0 x).1.ctxs c = get s.ctxs c) ∧
            (∀ y, get (startOrSkip s c0 x).1.ctxs c0 = some y → _)
          unfold startOrSkip
          split
          · split
            · exact hissue _ _ _
            · cases hb : bankSend s.bank x.cons s.cfg.escrow (sumPrices (eligible s x)) with
              | some bk => exact hissue _ _ _
              | none =>
                dsimp only
                refine ⟨fun c hc => hset _ c hc, fun y hy => ?_⟩
                have hy' : get (Map.set s.ctxs c0 { x with bstate := .completed, state := .paused }) c0 = some y := hy
                rw [Map.get_set_same] at hy'; injection hy' with hy'; subst hy'
                exact ⟨x, rfl, rfl, Or.inr (Or.inl ⟨hbc, rfl, rfl⟩)⟩
          · refine ⟨fun c hc => hset _ c hc, fun y hy => ?_⟩
            have hy' : get (Map.set s.ctxs c0 { x with batch := x.batch + 1, bstate := .running, reqN := 0, respN := 0, bthr := x.thr }) c0 = some y := hy
            rw [Map.get_set_same] at hy'; injection hy' with hy'; subst hy'
            exact ⟨x, rfl, rfl, Or.inr (Or.inr ⟨hbc, rfl, rfl⟩)⟩

theorem newBatch_cbok (s : State) (c0 : CtxId) (h : Inv s) (n : CtxId → Nat) (hk : CbOK s n) :
    CbOK (newBatch s c0).s (fun c => n c + cbCount c (newBatch s c0).effs) := by
  have hno := newBatch_noCb s c0
  obtain ⟨ho, hs⟩ := newBatch_ctx s c0 h
  have hused := (newBatch_aorig s c0 h).1
  refine ⟨fun c hc => ?_, fun c y hy hm => ?_⟩
  · show n c + cbCount c _ = 0
    rw [cbCount_of_noCb hno, hk.1 c (fun hin => hc (hused c hin))]
  · show n c + cbCount c _ + _ = _
    rw [cbCount_of_noCb hno, Nat.add_zero]
    by_cases hc : c = c0
    · subst hc
      obtain ⟨x, hx, e1, hcase⟩ := hs y hy
      have := hk.2 c x hx (by rw [← e1]; exact hm)
      rcases hcase with ⟨e2, e3⟩ | ⟨eb, e2, e3⟩ | ⟨eb, e2, e3⟩
      · rw [e2, e3]; exact this
      · rw [eb] at this; rw [e2, e3]; exact this
      · rw [eb] at this; rw [e2, e3]; simpa using this
    · rw [ho c hc] at hy; exact hk.2 c y hy hm

theorem foldH_cbok {α : Type} (hd : State → α → HRes)
    (hP : ∀ s a, Inv s → (hd s a).panic = none ∧ Inv (hd s a).s)
    (hC : ∀ s a (n : CtxId → Nat), Inv s → CbOK s n → CbOK (hd s a).s (fun c => n c + cbCount c (hd s a).effs)) :
    ∀ (l : List α) (s : State) (n : CtxId → Nat), Inv s → CbOK s n →
      CbOK (foldH hd s l).s (fun c => n c + cbCount c (foldH hd s l).effs) := by
  intro l
  induction l with
  | nil => intro s n _ hk; exact hk.congr (fun c => by simp [foldH, cbCount])
  | cons a rest ih =>
    intro s n h hk
    obtain ⟨hp, hi⟩ := hP s a h
    rw [foldH_cons]
    simp only [hp]
    exact (ih (hd s a).s _ hi (hC s a n h hk)).congr (fun c => by rw [cbCount_append, Nat.add_assoc])

theorem endBlock_cbok (s : State) (dt : Int) (h : Inv s) (n : CtxId → Nat) (hk : CbOK s n) :
    CbOK (endBlock s dt).s (fun c => n c + cbCount c (endBlock s dt).effs) := by
  have f1 := foldH_cbok expireBatch
    (fun s a hs => ⟨expireBatch_nopanic hs a, expireBatch_inv s a hs (expireBatch_nopanic hs a)⟩)
    (fun s a n hs hk => expireBatch_cbok s a hs (expireBatch_nopanic hs a) n hk) (queuedAt s.expQ s.height) s n h hk
  have p1 := foldH_nopanic_of expireBatch Inv
    (fun s a hs => ⟨expireBatch_nopanic hs a, expireBatch_inv s a hs (expireBatch_nopanic hs a)⟩) (queuedAt s.expQ s.height) s h
  have f2 := foldH_cbok newBatch (fun s a hs => ⟨newBatch_nopanic s a, newBatch_inv s a hs⟩)
    (fun s a n hs hk => newBatch_cbok s a hs n hk)
    (queuedAt (foldH expireBatch s (queuedAt s.expQ s.height)).s.newQ (foldH expireBatch s (queuedAt s.expQ s.height)).s.height)
    _ _ p1.2 f1
  have p2 := foldH_nopanic_of newBatch Inv (fun s a hs => ⟨newBatch_nopanic s a, newBatch_inv s a hs⟩)
    (queuedAt (foldH expireBatch s (queuedAt s.expQ s.height)).s.newQ (foldH expireBatch s (queuedAt s.expQ s.height)).s.height)
    _ p1.2
  unfold endBlock
  simp only [p1.1, p2.1]
  exact CbOK.congr (s := { (foldH newBatch _ _).s with height := _, time := _ }) f2 (fun c => by rw [cbCount_append, Nat.add_assoc])

/-! ### every step, every history -/

/-- state, result and effects of a non-end-of-block step -/
theorem step_msg_full (s : State) (op : Op) (hne : op.isEndblock = false) :
    ((step s op).1 = s ∧ (step s op).2.2 = []) ∨
    ((step s op).1 = (exec s op).1 ∧ (step s op).2.2 = (exec s op).2.2) := by
  unfold step
  by_cases hv : validateBasic op = true
  · simp only [hv, Bool.not_true, Bool.false_eq_true, if_false, hne]
    cases hres : (exec s op).2.1 with
    | ok => right; simp
    | err e => left; simp
    | invalid => left; simp
    | panic m => left; simp
  · have hv' : validateBasic op = false := by simpa using hv
    left
    simp [hv']

theorem step_cbok (s : State) (op : Op) (h : Inv s) (hw : WF s op) (n : CtxId → Nat) (hk : CbOK s n) :
    CbOK (step s op).1 (fun c => n c + cbCount c (step s op).2.2) := by
  have hsame : CbOK s (fun c => n c + cbCount c []) := hk.congr (fun c => by simp [cbCount])
  cases hop : op.isEndblock with
  | true =>
    cases op with
    | endblock dt =>
      rw [step_endblock]
      have hnp := endBlock_nopanic h dt
      show CbOK (match (endBlock s dt).panic with
          | some m => (s, Res.panic m, (endBlock s dt).effs)
          | none => ((endBlock s dt).s, Res.ok, (endBlock s dt).effs)).1
        (fun c => n c + cbCount c (match (endBlock s dt).panic with
          | some m => (s, Res.panic m, (endBlock s dt).effs)
          | none => ((endBlock s dt).s, Res.ok, (endBlock s dt).effs)).2.2)
      simp only [hnp]
      exact endBlock_cbok s dt h n hk
    | _ => cases hop
  | false =>
    rcases step_msg_full s op hop with ⟨h1, h2⟩ | ⟨h1, h2⟩
    · rw [h1, h2]; exact hsame
    · rw [h1, h2]
      by_cases hr : ∃ r p c o, op = .respond r p c o
      · obtain ⟨r, p, c, o, rfl⟩ := hr
        exact respond_cbok s r p c o h n hk
      · have hnr : ∀ r p c o, op ≠ .respond r p c o := fun r p c o e => hr ⟨r, p, c, o, e⟩
        exact cbok_keep hk (exec_noCb s op hop hnr) (exec_aorig s op h).1 (exec_bkeep s op hw hop hnr)

/-- histories with the number of response callbacks invoked so far for each context -/
inductive CReach (cfg : Config) (p : Params) (h0 t0 : Int) : State → (CtxId → Nat) → Prop
  | init : CReach cfg p h0 t0 (genesis cfg p h0 t0) (fun _ => 0)
  | step {s : State} {n : CtxId → Nat} (op : Op) : CReach cfg p h0 t0 s n → WF s op →
      CReach cfg p h0 t0 (step s op).1 (fun c => n c + cbCount c (step s op).2.2)

theorem CReach.state_reachable {cfg : Config} {p : Params} {h0 t0 : Int} {s : State} {n : CtxId → Nat}
    (hr : CReach cfg p h0 t0 s n) : Reachable cfg p h0 t0 s := by
  induction hr with
  | init => exact Reachable.init
  | step op _ hw ih => exact Reachable.step op ih hw

theorem reachable_has_count {cfg : Config} {p : Params} {h0 t0 : Int} {s : State}
    (hr : Reachable cfg p h0 t0 s) : ∃ n, CReach cfg p h0 t0 s n := by
  induction hr with
  | init => exact ⟨_, CReach.init⟩
  | step op _ hw ih => obtain ⟨n, hn⟩ := ih; exact ⟨_, CReach.step op hn hw⟩

/-- C12: in every history, for every context created by a module, the number of response callbacks invoked so far
    plus one if a batch is in flight equals the number of batches started -/
theorem cbok_reachable {cfg : Config} {p : Params} {h0 t0 : Int} (hc : CfgOK cfg p) {s : State} {n : CtxId → Nat}
    (hr : CReach cfg p h0 t0 s n) : CbOK s n := by
  induction hr with
  | init => exact ⟨fun _ _ => rfl, fun c x hx => by simp [genesis] at hx⟩
  | @step s n op hr' hw ih => exact step_cbok s op (reachable_inv hc hr'.state_reachable) hw n ih

end SM
