import ServiceModel.Proofs.Reachable
import ServiceModel.Model.Genesis
/-!
# Zero-height preparation, export and import: lemmas for `Properties/C19.lean`
-/
namespace SM
open Map

/-! ### the two refund folds only move coins out of the escrow -/
def entryFee (s : State) (e : SvcName × Addr × Int × ReqId) : Nat :=
  match reqView s e.2.2.2 with
  | some v => v.fee
  | none => 0

theorem reqView_bank (s : State) (b : Bank) (r : ReqId) : reqView { s with bank := b } r = reqView s r := rfl

/-- `RefundServiceFees` over a list of index entries, started with any bank `b`: it succeeds when the escrow holds
    the sum of the fees and no consumer is the escrow itself; afterwards only the bank differs, the escrow has lost
    exactly that sum, and every non-zero fee was sent to the consumer of its request -/
theorem foldFee (s0 : State) : ∀ (L : List (SvcName × Addr × Int × ReqId)) (b : Bank),
    (∀ e ∈ L, ∀ v, reqView s0 e.2.2.2 = some v → v.cons ≠ s0.cfg.escrow) →
    (L.map (entryFee s0)).sum ≤ balOf b.bal s0.cfg.escrow →
    (foldH refundFee { s0 with bank := b } L).panic = none ∧
    ∃ b', (foldH refundFee { s0 with bank := b } L).s = { s0 with bank := b' } ∧
      balOf b'.bal s0.cfg.escrow + (L.map (entryFee s0)).sum = balOf b.bal s0.cfg.escrow ∧
      (∀ e ∈ L, ∀ v, reqView s0 e.2.2.2 = some v → v.fee ≠ 0 →
        Effect.transfer s0.cfg.escrow v.cons v.fee ∈ (foldH refundFee { s0 with bank := b } L).effs) := by
  intro L
  induction L with
  | nil =>
    intro b _ _
    exact ⟨rfl, b, rfl, by simp, by simp⟩
  | cons e t ih =>
    intro b hcons hsum
    simp only [List.map_cons, List.sum_cons] at hsum
    have hcons' : ∀ e' ∈ t, ∀ v, reqView s0 e'.2.2.2 = some v → v.cons ≠ s0.cfg.escrow :=
      fun e' he' => hcons e' (List.mem_cons_of_mem _ he')
    cases hv : reqView s0 e.2.2.2 with
    | none =>
      have hfee : entryFee s0 e = 0 := by unfold entryFee; rw [hv]
      have hstep : refundFee { s0 with bank := b } e = ⟨{ s0 with bank := b }, [], none⟩ := by
        unfold refundFee; rw [reqView_bank, hv]
      obtain ⟨hp, b', hs, hbal, heff⟩ := ih b hcons' (by omega)
      unfold foldH; rw [hstep]; dsimp only
      refine ⟨hp, b', hs, by simp only [List.map_cons, List.sum_cons, hfee]; omega, ?_⟩
      intro e' he' v hv' hne
      rcases List.mem_cons.mp he' with rfl | he'
      · rw [hv] at hv'; cases hv'
      · simpa using heff e' he' v hv' hne
    | some v =>
      have hfee : entryFee s0 e = v.fee := by unfold entryFee; rw [hv]
      rw [hfee] at hsum
      have hne : s0.cfg.escrow ≠ v.cons := fun h => hcons e (List.mem_cons_self ..) v hv h.symm
      cases hb : bankSend b s0.cfg.escrow v.cons v.fee with
      | none =>
        have := (bankSend_some_iff b s0.cfg.escrow v.cons v.fee).mpr (by omega)
        rw [hb] at this; cases this
      | some b1 =>
        have hstep : refundFee { s0 with bank := b } e =
            ⟨{ s0 with bank := b1 }, if v.fee = 0 then [] else [.transfer s0.cfg.escrow v.cons v.fee], none⟩ := by
          unfold refundFee; rw [reqView_bank, hv]; dsimp only; rw [hb]
        have hb1 : balOf b1.bal s0.cfg.escrow = balOf b.bal s0.cfg.escrow - v.fee := bankSend_src hb hne
        obtain ⟨hp, b', hs, hbal, heff⟩ := ih b1 hcons' (by rw [hb1]; omega)
        unfold foldH; rw [hstep]; dsimp only
        refine ⟨hp, b', hs, by simp only [List.map_cons, List.sum_cons, hfee]; omega, ?_⟩
        intro e' he' v' hv' hne'
        rcases List.mem_cons.mp he' with rfl | he'
        · rw [hv] at hv'; injection hv' with hv'; subst hv'
          simp [hne']
        · exact List.mem_append_right _ (heff e' he' v' hv' hne')

/-- `RefundEarnedFees` over a list of (provider, amount) records -/
theorem foldEarned (s0 : State) : ∀ (L : List (Addr × Nat)) (b : Bank),
    (∀ e ∈ L, e.1 ≠ s0.cfg.escrow) →
    (L.map (·.2)).sum ≤ balOf b.bal s0.cfg.escrow →
    (foldH refundEarned { s0 with bank := b } L).panic = none ∧
    ∃ b', (foldH refundEarned { s0 with bank := b } L).s = { s0 with bank := b' } ∧
      balOf b'.bal s0.cfg.escrow + (L.map (·.2)).sum = balOf b.bal s0.cfg.escrow ∧
      (∀ e ∈ L, e.2 ≠ 0 → Effect.transfer s0.cfg.escrow e.1 e.2 ∈ (foldH refundEarned { s0 with bank := b } L).effs) := by
  intro L
  induction L with
  | nil =>
    intro b _ _
    exact ⟨rfl, b, rfl, by simp, by simp⟩
  | cons e t ih =>
    intro b hprov hsum
    simp only [List.map_cons, List.sum_cons] at hsum
    have hprov' : ∀ e' ∈ t, e'.1 ≠ s0.cfg.escrow := fun e' he' => hprov e' (List.mem_cons_of_mem _ he')
    have hne : s0.cfg.escrow ≠ e.1 := fun h => hprov e (List.mem_cons_self ..) h.symm
    cases hb : bankSend b s0.cfg.escrow e.1 e.2 with
    | none =>
      have := (bankSend_some_iff b s0.cfg.escrow e.1 e.2).mpr (by omega)
      rw [hb] at this; cases this
    | some b1 =>
      have hstep : refundEarned { s0 with bank := b } e =
          ⟨{ s0 with bank := b1 }, if e.2 = 0 then [] else [.transfer s0.cfg.escrow e.1 e.2], none⟩ := by
        unfold refundEarned; dsimp only; rw [hb]
      have hb1 : balOf b1.bal s0.cfg.escrow = balOf b.bal s0.cfg.escrow - e.2 := bankSend_src hb hne
      obtain ⟨hp, b', hs, hbal, heff⟩ := ih b1 hprov' (by rw [hb1]; omega)
      unfold foldH; rw [hstep]; dsimp only
      refine ⟨hp, b', hs, by simp only [List.map_cons, List.sum_cons]; omega, ?_⟩
      intro e' he' hne'
      rcases List.mem_cons.mp he' with rfl | he'
      · simp [hne']
      · exact List.mem_append_right _ (heff e' he' hne')

theorem total_eq_sum (m : Map Addr Nat) : Map.total (fun n : Nat => n) m = (m.map (·.2)).sum := by
  induction m with
  | nil => rfl
  | cons hd t ih => obtain ⟨k, v⟩ := hd; simp [Map.total, ih]

/-! ### the index 0x14 lists each pending request once -/
theorem activeB_ids_perm {s : State} (h : InvX s) :
    List.Perm ((FSet.elems s.activeB).map (·.2.2.2)) s.activeI := by
  apply (List.perm_ext_iff_of_nodup ?_ h.activeNodup).mpr
  · intro r
    simp only [List.mem_map, FSet.mem_elems]
    constructor
    · rintro ⟨⟨svc, p, e, r'⟩, hm, rfl⟩
      exact ((h.activeMirror svc p e r').mp hm).1
    · intro hr
      obtain ⟨q, hq⟩ := Option.isSome_iff_exists.mp (h.activeReq r hr)
      obtain ⟨x, hx, _, _⟩ := h.reqCtx r q hq
      exact ⟨(x.svc, q.prov, q.expH, r), (h.activeMirror _ _ _ _).mpr ⟨hr, q, x, hq, hx, rfl, rfl, rfl⟩, rfl⟩
  · -- two entries of the index with the same request id are the same entry
    rw [List.Nodup, List.pairwise_map]
    refine List.Pairwise.imp_of_mem ?_ (FSet.nodup_elems s.activeB)
    intro a b ha hb hab heq
    apply hab
    obtain ⟨sa, pa, ea, ra⟩ := a
    obtain ⟨sb, pb, eb, rb⟩ := b
    dsimp only at heq; subst heq
    obtain ⟨_, q1, x1, hq1, hx1, e1, e2, e3⟩ := (h.activeMirror sa pa ea ra).mp ((FSet.mem_elems _ _).mp ha)
    obtain ⟨_, q2, x2, hq2, hx2, f1, f2, f3⟩ := (h.activeMirror sb pb eb ra).mp ((FSet.mem_elems _ _).mp hb)
    rw [hq1] at hq2; injection hq2 with hq2; subst hq2
    rw [hx1] at hx2; injection hx2 with hx2; subst hx2
    rw [e1, e2, e3, f1, f2, f3]

theorem entryFee_eq_feeAt {s : State} (h : InvX s) (e : SvcName × Addr × Int × ReqId) (he : e ∈ s.activeB) :
    entryFee s e = feeAt s.reqs e.2.2.2 := by
  obtain ⟨svc, p, ex, r⟩ := e
  obtain ⟨_, q, x, hq, hx, _⟩ := (h.activeMirror svc p ex r).mp he
  unfold entryFee feeAt reqView
  dsimp only
  rw [hq]; dsimp only; rw [hx]

theorem entryFee_sum {s : State} (h : InvX s) :
    ((FSet.elems s.activeB).map (entryFee s)).sum = feeSum s.reqs s.activeI := by
  have h1 : (FSet.elems s.activeB).map (entryFee s) = ((FSet.elems s.activeB).map (·.2.2.2)).map (feeAt s.reqs) := by
    rw [List.map_map]
    apply List.map_congr_left
    intro e he
    exact entryFee_eq_feeAt h e ((FSet.mem_elems _ _).mp he)
  rw [h1, feeSum_eq]
  exact ((activeB_ids_perm h).map _).sum_nat

end SM

namespace SM
open Map

/-! ### zero-height preparation -/
theorem reqView_cons_ne_escrow {s : State} (h : Inv s) (r : ReqId) (v : ReqView) (hv : reqView s r = some v) :
    v.cons ≠ s.cfg.escrow := by
  unfold reqView at hv
  cases hq : get s.reqs r with
  | none => rw [hq] at hv; cases hv
  | some q =>
    rw [hq] at hv; dsimp only at hv
    cases hx : get s.ctxs r.ctx with
    | none => rw [hx] at hv; cases hv
    | some x =>
      rw [hx] at hv; injection hv with hv; subst hv
      intro e
      exact h.x.ctxCons r.ctx x hx (Or.inl e)

/-- what `prep` does in a reachable state: it cannot fail, only balances and the four context fields change,
    the escrow ends empty, every pending fee went back to its consumer and every earning to its provider -/
theorem prep_spec {s : State} (h : Inv s) (hprov : ∀ p, (get s.earned p).isSome → p ≠ s.cfg.escrow) :
    (prep s).panic = none ∧
    ∃ b', (prep s).s = resetCtxs { s with bank := b' } ∧ balOf b'.bal s.cfg.escrow = 0 ∧
      (∀ e ∈ s.activeB, ∀ v, reqView s e.2.2.2 = some v → v.fee ≠ 0 →
        Effect.transfer s.cfg.escrow v.cons v.fee ∈ (prep s).effs) ∧
      (∀ p n, get s.earned p = some n → n ≠ 0 → Effect.transfer s.cfg.escrow p n ∈ (prep s).effs) := by
  have hesc := h.m.escrow
  have hsum := entryFee_sum h.x
  obtain ⟨hp1, b1, hs1, hbal1, heff1⟩ := foldFee s (FSet.elems s.activeB) s.bank
    (fun e _ v hv => reqView_cons_ne_escrow h e.2.2.2 v hv) (by rw [hsum]; omega)
  have hs1' : (foldH refundFee s (FSet.elems s.activeB)).s = { s with bank := b1 } := hs1
  have hp1' : (foldH refundFee s (FSet.elems s.activeB)).panic = none := hp1
  have hent : entries s.earned = s.earned := entries_of_nodupKeys _ h.m.earnedK
  have hb1 : balOf b1.bal s.cfg.escrow = Map.total (fun n : Nat => n) s.earned := by
    rw [hsum] at hbal1; omega
  obtain ⟨hp2, b2, hs2, hbal2, heff2⟩ := foldEarned s s.earned b1
    (fun e he => hprov e.1 (mem_keys_of_mem _ _ _ he)) (by rw [← total_eq_sum, hb1]; exact Nat.le_refl _)
  have hprep : prep s = ⟨resetCtxs { s with bank := b2 },
      (foldH refundFee s (FSet.elems s.activeB)).effs ++ (foldH refundEarned { s with bank := b1 } s.earned).effs, none⟩ := by
    unfold prep
    simp only [hp1', hs1']
    have : ({ s with bank := b1 } : State).earned = s.earned := rfl
    rw [this, hent]
    simp only [hp2, hs2]
  rw [hprep]
  refine ⟨rfl, b2, rfl, ?_, ?_, ?_⟩
  · rw [← total_eq_sum, hb1] at hbal2; omega
  · intro e he v hv hne
    exact List.mem_append_left _ (heff1 e ((FSet.mem_elems _ _).mpr he) v hv hne)
  · intro p n hpn hne
    exact List.mem_append_right _ (heff2 (p, n) (Map.get_of_mem_head _ _ _ hpn) hne)

theorem prep_ctxs (s : State) (hnp : (prep s).panic = none) (c : CtxId) (x : Ctx)
    (hx : get (prep s).s.ctxs c = some x) :
    x.state = .paused ∧ x.bstate = .completed ∧ x.reqN = 0 ∧ x.respN = 0 ∧
    ∃ x0, get s.ctxs c = some x0 ∧ x = resetCtx x0 := by
  have hget : ∀ (m : Map CtxId Ctx), Map.get (m.map (fun e => (e.1, resetCtx e.2))) c = (Map.get m c).map resetCtx := by
    intro m
    induction m with
    | nil => rfl
    | cons hd t ih =>
      obtain ⟨k, v⟩ := hd
      simp only [List.map_cons, Map.get]
      by_cases hk : k = c
      · simp [hk]
      · simp only [hk, if_false]; exact ih
  have hc : (prep s).s.ctxs = (s.ctxs.map (fun e => (e.1, resetCtx e.2))) := by
    unfold prep at hnp ⊢
    dsimp only at hnp ⊢
    cases h1 : (foldH refundFee s (FSet.elems s.activeB)).panic with
    | some m => rw [h1] at hnp; simp at hnp
    | none =>
      rw [h1] at hnp; dsimp only at hnp ⊢
      cases h2 : (foldH refundEarned (foldH refundFee s (FSet.elems s.activeB)).s
          (entries (foldH refundFee s (FSet.elems s.activeB)).s.earned)).panic with
      | some m => rw [h2] at hnp; simp at hnp
      | none =>
        dsimp only
        -- neither fold touches the contexts
        have fee_ctxs : ∀ (L : List (SvcName × Addr × Int × ReqId)) (s : State), (foldH refundFee s L).s.ctxs = s.ctxs := by
          intro L
          induction L with
          | nil => intro s; rfl
          | cons e t ih =>
            intro s
            unfold foldH
            dsimp only
            have hstep : (refundFee s e).s.ctxs = s.ctxs := by
              unfold refundFee; repeat' split
              all_goals rfl
            split
            · exact hstep
            · rw [ih]; exact hstep
        have earned_ctxs : ∀ (L : List (Addr × Nat)) (s : State), (foldH refundEarned s L).s.ctxs = s.ctxs := by
          intro L
          induction L with
          | nil => intro s; rfl
          | cons e t ih =>
            intro s
            unfold foldH
            dsimp only
            have hstep : (refundEarned s e).s.ctxs = s.ctxs := by
              unfold refundEarned; repeat' split
              all_goals rfl
            split
            · exact hstep
            · rw [ih]; exact hstep
        unfold resetCtxs
        dsimp only
        rw [earned_ctxs, fee_ctxs]
  rw [hc, hget] at hx
  cases hx0 : get s.ctxs c with
  | none => rw [hx0] at hx; cases hx
  | some x0 =>
    rw [hx0] at hx; injection hx with hx; subst hx
    exact ⟨rfl, rfl, rfl, rfl, x0, rfl, rfl⟩

end SM

namespace SM
open Map

/-! ### import rebuilds what export wrote -/
theorem set_of_not_mem {κ ν} [DecidableEq κ] (m : Map κ ν) (k : κ) (v : ν) (h : k ∉ keys m) : set m k v = m ++ [(k, v)] := by
  induction m with
  | nil => rfl
  | cons hd t ih =>
    obtain ⟨k', v'⟩ := hd
    have hk : k' ≠ k := by intro e; apply h; simp [keys, e]
    have ht : k ∉ keys t := by intro e; apply h; simp only [keys, List.map_cons, List.mem_cons]; right; exact e
    simp [Map.set, hk, ih ht]

/-- writing the records of a duplicate-free list one by one into a store that has none of their keys appends them in order -/
theorem foldl_set_append {κ ν} [DecidableEq κ] : ∀ (l acc : Map κ ν), NodupKeys l → (∀ e ∈ l, e.1 ∉ keys acc) →
    l.foldl (fun m e => set m e.1 e.2) acc = acc ++ l := by
  intro l
  induction l with
  | nil => intro acc _ _; simp
  | cons e t ih =>
    intro acc hn hdis
    unfold NodupKeys keys at hn
    simp only [List.map_cons, List.nodup_cons, List.mem_map] at hn
    simp only [List.foldl_cons]
    rw [set_of_not_mem acc e.1 e.2 (hdis e (List.mem_cons_self ..))]
    rw [ih (acc ++ [(e.1, e.2)]) hn.2]
    · simp
    · intro e' he'
      simp only [keys, List.map_append, List.map_cons, List.map_nil, List.mem_append, List.mem_cons, List.not_mem_nil, or_false]
      rintro (h1 | h1)
      · exact hdis e' (List.mem_cons_of_mem _ he') h1
      · exact hn.1 ⟨e', he', h1⟩

theorem foldl_set_nil {κ ν} [DecidableEq κ] (l : Map κ ν) (h : NodupKeys l) : l.foldl (fun m e => set m e.1 e.2) [] = l := by
  have := foldl_set_append l [] h (by intro e _; simp [keys])
  simpa using this

/-- the components `importBindings` does not touch -/
def BindFrame (s s' : State) : Prop :=
  s'.cfg = s.cfg ∧ s'.params = s.params ∧ s'.height = s.height ∧ s'.time = s.time ∧ s'.defs = s.defs ∧
  s'.withdraw = s.withdraw ∧ s'.ctxs = s.ctxs ∧ s'.reqs = s.reqs ∧ s'.activeB = s.activeB ∧ s'.activeI = s.activeI ∧
  s'.resps = s.resps ∧ s'.earned = s.earned ∧ s'.bank = s.bank

/-- `importBindings` over a duplicate-free list: the bindings are written in order; an index entry, an owner or a
    price record exists afterwards exactly when it existed before or one of the imported bindings produces it -/
theorem importBindings_spec : ∀ (L : List ((SvcName × Addr) × Binding)) (s1 s2 : State), NodupKeys L →
    importBindings s1 L = some s2 →
    BindFrame s1 s2 ∧
    s2.bindings = L.foldl (fun m e => set m e.1 e.2) s1.bindings ∧
    (∀ x, x ∈ s2.ownerBind ↔ x ∈ s1.ownerBind ∨ ∃ k b, (k, b) ∈ L ∧ x = (b.owner, k.1, k.2)) ∧
    (∀ x, x ∈ s2.ownerProv ↔ x ∈ s1.ownerProv ∨ ∃ k b, (k, b) ∈ L ∧ x = (b.owner, k.2)) ∧
    (∀ k pr, get s2.pricing k = some pr ↔
      (∃ b, (k, b) ∈ L ∧ parsePricing b.text = .ok pr) ∨ (k ∉ keys L ∧ get s1.pricing k = some pr)) ∧
    (∀ pv, (∀ k b, (k, b) ∈ L → k.2 ≠ pv) → get s2.owner pv = get s1.owner pv) ∧
    (∀ k b, (k, b) ∈ L → (∀ k' b', (k', b') ∈ L → k'.2 = k.2 → b'.owner = b.owner) → get s2.owner k.2 = some b.owner) := by
  intro L
  induction L with
  | nil =>
    intro s1 s2 _ h
    simp only [importBindings, Option.some.injEq] at h; subst h
    refine ⟨⟨rfl, rfl, rfl, rfl, rfl, rfl, rfl, rfl, rfl, rfl, rfl, rfl, rfl⟩, rfl, ?_, ?_, ?_, ?_, ?_⟩
    · intro x; simp
    · intro x; simp
    · intro k pr; simp [keys]
    · intro pv _; rfl
    · intro k b hm; cases hm
  | cons e t ih =>
    intro s1 s2 hn h
    obtain ⟨k0, b0⟩ := e
    have hn' := hn
    unfold NodupKeys keys at hn'
    simp only [List.map_cons, List.nodup_cons, List.mem_map] at hn'
    have hnt : NodupKeys t := hn'.2
    have hk0 : ∀ b, (k0, b) ∉ t := fun b hm => hn'.1 ⟨(k0, b), hm, rfl⟩
    unfold importBindings at h
    cases hp : parsePricing b0.text with
    | ok pr0 =>
      have hib : importBinding s1 (k0, b0) = some { s1 with
          bindings := set s1.bindings k0 b0, ownerBind := FSet.ins s1.ownerBind (b0.owner, k0.1, k0.2),
          owner := set s1.owner k0.2 b0.owner, ownerProv := FSet.ins s1.ownerProv (b0.owner, k0.2),
          pricing := set s1.pricing k0 pr0 } := by
        unfold importBinding; dsimp only; rw [hp]
      rw [hib] at h; dsimp only at h
      obtain ⟨hf, hb, hob, hop, hpr, how1, how2⟩ := ih _ s2 hnt h
      refine ⟨?_, ?_, ?_, ?_, ?_, ?_, ?_⟩
      · obtain ⟨f1, f2, f3, f4, f5, f6, f7, f8, f9, f10, f11, f12, f13⟩ := hf
        exact ⟨f1, f2, f3, f4, f5, f6, f7, f8, f9, f10, f11, f12, f13⟩
      · rw [hb]; rfl
      · intro x
        rw [hob x]
        simp only [FSet.mem_ins, List.mem_cons, Prod.mk.injEq]
        constructor
        · rintro ((h1 | h1) | ⟨k, b, hm, hx⟩)
          · exact Or.inr ⟨k0, b0, Or.inl ⟨rfl, rfl⟩, h1⟩
          · exact Or.inl h1
          · exact Or.inr ⟨k, b, Or.inr hm, hx⟩
        · rintro (h1 | ⟨k, b, (⟨rfl, rfl⟩ | hm), hx⟩)
          · exact Or.inl (Or.inr h1)
          · exact Or.inl (Or.inl hx)
          · exact Or.inr ⟨k, b, hm, hx⟩
      · intro x
        rw [hop x]
        simp only [FSet.mem_ins, List.mem_cons, Prod.mk.injEq]
        constructor
        · rintro ((h1 | h1) | ⟨k, b, hm, hx⟩)
          · exact Or.inr ⟨k0, b0, Or.inl ⟨rfl, rfl⟩, h1⟩
          · exact Or.inl h1
          · exact Or.inr ⟨k, b, Or.inr hm, hx⟩
        · rintro (h1 | ⟨k, b, (⟨rfl, rfl⟩ | hm), hx⟩)
          · exact Or.inl (Or.inr h1)
          · exact Or.inl (Or.inl hx)
          · exact Or.inr ⟨k, b, hm, hx⟩
      · intro k pr
        rw [hpr k pr]
        dsimp only
        rw [Map.get_set]
        simp only [List.mem_cons, Prod.mk.injEq, keys, List.map_cons]
        by_cases hk : k0 = k
        · subst hk
          have hnk : k0 ∉ keys t := fun hm => by
            simp only [keys, List.mem_map] at hm
            obtain ⟨e', he', hek⟩ := hm
            exact hn'.1 ⟨e', he', hek⟩
          constructor
          · rintro (⟨b, hm, _⟩ | ⟨_, h2⟩)
            · exact absurd hm (hk0 b)
            · simp only [if_true, Option.some.injEq] at h2; subst h2
              exact Or.inl ⟨b0, Or.inl ⟨rfl, rfl⟩, hp⟩
          · rintro (⟨b, (⟨_, rfl⟩ | hm), hpp⟩ | ⟨h1, _⟩)
            · rw [hp] at hpp; injection hpp with hpp; subst hpp
              exact Or.inr ⟨hnk, by simp⟩
            · exact absurd hm (hk0 b)
            · simp at h1
        · have hk' : ¬ k = k0 := fun e => hk e.symm
          simp only [hk, if_false, hk', false_and, false_or, List.mem_cons, not_or]
      · intro pv hnone
        rw [how1 pv (fun k b hm => hnone k b (List.mem_cons_of_mem _ hm))]
        dsimp only
        rw [Map.get_set, if_neg (hnone k0 b0 (List.mem_cons_self ..))]
      · intro k b hm hsame
        rcases List.mem_cons.mp hm with heq | hm
        · injection heq with h1 h2; subst h1; subst h2
          by_cases hex : ∃ k' b', (k', b') ∈ t ∧ k'.2 = k.2
          · obtain ⟨k', b', hm', hk'⟩ := hex
            have := how2 k' b' hm' (fun k'' b'' hm'' hk'' => by
              rw [hsame k'' b'' (List.mem_cons_of_mem _ hm'') (hk''.trans hk'),
                  hsame k' b' (List.mem_cons_of_mem _ hm') hk'])
            rw [← hk', this, hsame k' b' (List.mem_cons_of_mem _ hm') hk']
          · rw [how1 k.2 (fun k' b' hm' e => hex ⟨k', b', hm', e⟩)]
            dsimp only
            rw [Map.get_set, if_pos rfl]
        · exact how2 k b hm (fun k' b' hm' => hsame k' b' (List.mem_cons_of_mem _ hm'))
    | bad => unfold importBinding at h; dsimp only at h; rw [hp] at h; cases h
    | overflow => unfold importBinding at h; dsimp only at h; rw [hp] at h; cases h

end SM
