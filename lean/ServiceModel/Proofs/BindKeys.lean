import ServiceModel.Proofs.Stable
import ServiceModel.Basic.Scan
/-!
# The bindings map never holds two records under one key

`Map` is an association list with first-match lookup; `Map.set` rewrites the first match or appends. So a map
built by `set` from the empty map has duplicate-free keys, and a store scan (`entries`) of it is the map
itself. This file proves that for `State.bindings` over every operation (the chain mirrors `Proofs/Stable.lean`);
`Proofs/Restart.lean` needs it to relate the deposits exported by a scan to the sum the deposit account backs.
-/
namespace SM
open Map

/-- `s'.bindings` has duplicate-free keys if `s.bindings` has -/
def BK (s s' : State) : Prop := NodupKeys s.bindings → NodupKeys s'.bindings

theorem BK.refl (s : State) : BK s s := fun h => h
theorem BK.trans {a b c : State} (h1 : BK a b) (h2 : BK b c) : BK a c := fun h => h2 (h1 h)
theorem BK.of_eq {s s' : State} (h : s'.bindings = s.bindings) : BK s s' := fun hn => by rw [h]; exact hn
theorem BK.set {s s' : State} {k : SvcName × Addr} {b' : Binding} (h : s'.bindings = set s.bindings k b') : BK s s' :=
  fun hn => by rw [h]; exact nodupKeys_set _ _ _ hn

theorem slash_bk {s s1 : State} {r : ReqId} {svc : SvcName} {p : Addr} {e : List Effect}
    (h : slash s r svc p = .done s1 e) : BK s s1 := by
  unfold slash at h
  cases hb : get s.bindings (svc, p) with
  | none => rw [hb] at h; injection h with h1 _; subst h1; exact BK.refl s
  | some b =>
    rw [hb] at h; dsimp only at h
    split at h; · cases h
    cases hbk : bankBurn s.bank s.cfg.deposit (b.deposit * s.params.slash / decUnit) with
    | none => rw [hbk] at h; cases h
    | some bank' =>
      rw [hbk] at h; dsimp only at h
      split at h
      · cases hmd : minDeposit s.params (storedPricing s svc p) with
        | none => rw [hmd] at h; cases h
        | some md =>
          rw [hmd] at h; dsimp only at h
          injection h with h1 _; subst h1
          exact BK.set rfl
      · injection h with h1 _; subst h1
        exact BK.set rfl

theorem addEarned_bk {s s1 : State} {p : Addr} {fee : Nat} {e : List Effect}
    (h : addEarned s p fee = some (s1, e)) : BK s s1 := by
  obtain ⟨bank', ea, oe, hs⟩ := addEarned_shape h
  subst hs; exact BK.of_eq rfl

theorem settle_bk {s s1 : State} {r : ReqId} {svc : SvcName} {cons : Addr} {q : Req} {prov : Addr} {out : OutKind}
    {e1 : List Effect} (h : settle s r svc cons q prov out = .ok (s1, e1)) : BK s s1 := by
  unfold settle at h
  split at h
  · cases hs : slash s r svc q.prov with
    | bankErr => rw [hs] at h; simp at h
    | overflow => rw [hs] at h; simp at h
    | done s2 e2 =>
      rw [hs] at h; dsimp only at h
      cases hb : bankSend s2.bank s2.cfg.escrow cons q.fee with
      | none => rw [hb] at h; simp at h
      | some bank' =>
        rw [hb] at h
        simp only [Except.ok.injEq, Prod.mk.injEq] at h
        obtain ⟨h1, _⟩ := h; subst h1
        exact (slash_bk hs).trans (BK.of_eq rfl)
  · cases ha : addEarned s prov q.fee with
    | none => rw [ha] at h; simp at h
    | some res =>
      rw [ha] at h; simp only [Except.ok.injEq] at h; subst h
      exact addEarned_bk ha

macro "bk_tac" f:ident : tactic =>
  `(tactic| (unfold $f; (try dsimp only); repeat' split
             all_goals first
               | exact BK.refl _
               | exact BK.of_eq rfl
               | (simp only [setCtx, addNewQ, addExpQ, delNewQ, delExpQ, delCtx, fail, panicOut]; exact BK.of_eq rfl)))

theorem pauseK_bk (s : State) (c : CtxId) (cons : Addr) : BK s (pauseK s c cons).1 := by bk_tac pauseK
theorem startK_bk (s : State) (c : CtxId) (cons : Addr) : BK s (startK s c cons).1 := by bk_tac startK
theorem killK_bk (s : State) (c : CtxId) (cons : Addr) : BK s (killK s c cons).1 := by bk_tac killK
theorem updateK_bk (s : State) (c : CtxId) (cons : Addr) (provs : List Addr) (thr : Nat) (cap : Option Nat)
    (timeout : Int) (freq : Nat) (total : Int) : BK s (updateK s c cons provs thr cap timeout freq total).1 := by
  bk_tac updateK
theorem createCtx_bk (s : State) (id : CtxId) (mod : ModName) (svc : SvcName) (provs : List Addr) (cons : Addr)
    (cap : Option Nat) (timeout : Int) (super rep : Bool) (freq : Nat) (total : Int) (inputOk running : Bool) (thr : Nat) :
    BK s (createCtx s id mod svc provs cons cap timeout super rep freq total inputOk running thr).1 := by
  bk_tac createCtx
theorem ctxMsg_bk (s : State) (c : CtxId) (cons : Addr) (k : State → Out) (hk : BK s (k s).1) :
    BK s (ctxMsg s c cons k).1 := by
  unfold ctxMsg; split
  · exact BK.refl s
  · exact hk

theorem withdraw_bk (s : State) (o p : Addr) : BK s (withdraw s o p).1 := by
  unfold withdraw
  split; · exact BK.refl s
  cases hw : withdrawRecords s o p with
  | error r => exact BK.refl s
  | ok res =>
    obtain ⟨s1, amt⟩ := res
    dsimp only
    have h1 : BK s s1 := by
      unfold withdrawRecords at hw
      repeat' split at hw
      all_goals first
        | (cases hw; done)
        | (simp only [Except.ok.injEq, Prod.mk.injEq] at hw; obtain ⟨e1, _⟩ := hw; subst e1; exact BK.of_eq rfl)
    split; · exact BK.refl s
    split
    · exact BK.refl s
    · exact h1.trans (BK.of_eq rfl)

theorem respond_bk (s : State) (r : ReqId) (pv : Addr) (code : Nat) (out : OutKind) :
    BK s (respond s r pv code out).1 := by
  unfold respond
  cases hq : get s.reqs r with
  | none => exact BK.refl s
  | some q =>
    dsimp only
    cases hx : get s.ctxs r.ctx with
    | none => exact BK.refl s
    | some x =>
      dsimp only
      split; · exact BK.refl s
      split; · exact BK.refl s
      cases hs : settle s r x.svc x.cons q pv out with
      | error res => exact BK.refl s
      | ok res =>
        obtain ⟨s1, e1⟩ := res
        dsimp only
        have h1 := settle_bk hs
        split
        · exact h1.trans (BK.of_eq rfl)
        · exact h1.trans (BK.of_eq rfl)

/-! ### bindings operations -/
theorem define_bk (s : State) (n : SvcName) (a : Addr) : BK s (define s n a).1 := by
  unfold define
  split
  · exact BK.refl s
  · exact BK.of_eq rfl

theorem disable_bk (s : State) (svc : SvcName) (p o : Addr) : BK s (disable s svc p o).1 := by
  unfold disable
  cases hb : get s.bindings (svc, p) with
  | none => exact BK.refl s
  | some b =>
    dsimp only
    repeat' split
    all_goals first
      | exact BK.refl s
      | exact BK.set rfl

theorem refund_bk (s : State) (svc : SvcName) (p o : Addr) : BK s (refund s svc p o).1 := by
  unfold refund
  cases hb : get s.bindings (svc, p) with
  | none => exact BK.refl s
  | some b =>
    dsimp only
    repeat' split
    all_goals first
      | exact BK.refl s
      | exact BK.set rfl

theorem enable_bk (s : State) (svc : SvcName) (p o : Addr) (dep : Option Nat) : BK s (enable s svc p o dep).1 := by
  unfold enable
  cases hb : get s.bindings (svc, p) with
  | none => exact BK.refl s
  | some b =>
    dsimp only
    repeat' split
    all_goals first
      | exact BK.refl s
      | exact BK.set rfl

theorem update_bk (s : State) (svc : SvcName) (p o : Addr) (dep : Option Nat) (text : Option PricingText) (qos : Nat) :
    BK s (update s svc p o dep text qos).1 := by
  unfold update
  cases hb : get s.bindings (svc, p) with
  | none => exact BK.refl s
  | some b =>
    dsimp only
    repeat' split
    all_goals first
      | exact BK.refl s
      | exact BK.set rfl
      | exact BK.of_eq rfl

theorem bind_bk (s : State) (svc : SvcName) (p o : Addr) (dep : Option Nat) (text : PricingText) (qos : Nat) :
    BK s (bind s svc p o dep text qos).1 := by
  unfold bind
  split; · exact BK.refl s
  split; · exact BK.refl s
  split; · exact BK.refl s
  rename_i _ _ hnew
  dsimp only
  split; · exact BK.refl s
  rename_i hauth
  cases dep with
  | none => exact BK.refl s
  | some d =>
    dsimp only
    split; · exact BK.refl s
    cases parsePricing text with
    | bad => exact BK.refl s
    | overflow => exact BK.refl s
    | ok pr =>
      dsimp only
      split; · exact BK.refl s
      cases minDeposit s.params pr with
      | none => exact BK.refl s
      | some md =>
        dsimp only
        split; · exact BK.refl s
        cases bankSend s.bank o s.cfg.deposit d with
        | none => exact BK.refl s
        | some bank' =>
          dsimp only
          split
          · exact BK.set rfl
          · exact BK.set rfl

/-! ### the end of a block -/
theorem refundExpired_bk (s1 : State) (e1 : List Effect) (x : Ctx) (q : Req) (r : ReqId) :
    BK s1 (refundExpired s1 e1 x q r).s := by
  unfold refundExpired
  split <;> exact BK.of_eq rfl

theorem expireReq_bk (x : Ctx) (s : State) (r : ReqId) : BK s (expireReq x s r).s := by
  unfold expireReq
  cases hq : get s.reqs r with
  | none => exact BK.of_eq rfl
  | some q =>
    dsimp only
    split; · exact BK.of_eq rfl
    cases hs : slash s r x.svc q.prov with
    | overflow => exact BK.refl s
    | bankErr => exact refundExpired_bk s [] x q r
    | done s1 e1 => exact (slash_bk hs).trans (refundExpired_bk s1 e1 x q r)

theorem foldH_bk {α : Type} (hd : State → α → HRes) (hk : ∀ s a, BK s (hd s a).s) :
    ∀ (l : List α) (s : State), BK s (foldH hd s l).s := by
  intro l
  induction l with
  | nil => intro s; exact BK.refl s
  | cons a t ih =>
    intro s
    rw [foldH_cons]
    split
    · exact hk s a
    · exact (hk s a).trans (ih _)

theorem expirePending_bk (s : State) (c : CtxId) (x : Ctx) : BK s (expirePending s c x).1.s := by
  unfold expirePending
  split
  · exact foldH_bk _ (expireReq_bk x) _ s
  · exact BK.refl s

theorem cleanBatch_bk (s : State) (c : CtxId) (b : Nat) : BK s (cleanBatch s c b) :=
  BK.of_eq rfl

theorem expireTail_bk (s : State) (c : CtxId) (x1 : Ctx) : BK s (expireTail s c x1).1 := by
  unfold expireTail
  dsimp only
  cases x1.state with
  | completed => exact BK.of_eq rfl
  | paused => exact BK.of_eq rfl
  | running => dsimp only; split <;> exact BK.of_eq rfl

theorem expireBatch_bk (s : State) (c : CtxId) : BK s (expireBatch s c).s := by
  unfold expireBatch
  split; · exact BK.refl s
  cases get s.ctxs c with
  | none => exact BK.of_eq rfl
  | some x =>
    dsimp only
    split
    · exact expirePending_bk s c x
    · exact (expirePending_bk s c x).trans (expireTail_bk _ c _)

theorem issueBatch_bk (s : State) (bank' : Bank) (c : CtxId) (x : Ctx) (el : List (Addr × Nat)) (ep : List Effect) :
    BK s (issueBatch s bank' c x el ep).1 := by
  unfold issueBatch
  dsimp only [addExpQ, setCtx]
  exact BK.of_eq (issueReqs_proj (·.bindings) (fun _ _ _ _ _ _ _ => rfl) _ c x el 0)

theorem startOrSkip_bk (s : State) (c : CtxId) (x : Ctx) : BK s (startOrSkip s c x).1 := by
  unfold startOrSkip
  split
  · split
    · exact issueBatch_bk _ _ _ _ _ _
    · cases bankSend s.bank x.cons s.cfg.escrow (sumPrices (eligible s x)) with
      | some bk => exact issueBatch_bk _ _ _ _ _ _
      | none => exact BK.of_eq rfl
  · exact BK.of_eq rfl

theorem newBatch_bk (s : State) (c : CtxId) : BK s (newBatch s c).s := by
  unfold newBatch
  split; · exact BK.refl s
  cases get s.ctxs c with
  | none => exact BK.of_eq rfl
  | some x =>
    dsimp only
    split; · exact BK.of_eq rfl
    split; · exact BK.of_eq rfl
    exact (startOrSkip_bk s c x).trans (BK.of_eq rfl)

theorem endBlock_bk (s : State) (dt : Int) : BK s (endBlock s dt).s := by
  unfold endBlock
  dsimp only
  have h1 := foldH_bk expireBatch expireBatch_bk (queuedAt s.expQ s.height) s
  split
  · exact h1
  · have h2 := foldH_bk newBatch newBatch_bk
      (queuedAt (foldH expireBatch s (queuedAt s.expQ s.height)).s.newQ (foldH expireBatch s (queuedAt s.expQ s.height)).s.height)
      (foldH expireBatch s (queuedAt s.expQ s.height)).s
    split
    · exact h1.trans h2
    · exact h1.trans (h2.trans (BK.of_eq rfl))

/-! ### every step -/
theorem exec_bk (s : State) (op : Op) : BK s (exec s op).1 := by
  cases op with
  | fund a n => exact BK.of_eq rfl
  | xfer a b n =>
    show BK s (match bankSend s.bank a b n with
      | none => fail s Err.insufficientFunds
      | some bank' => ({ s with bank := bank' }, Res.ok, [])).1
    split
    · exact BK.refl s
    · exact BK.of_eq rfl
  | define n a ok => exact define_bk s n a
  | bind svc p o dep text qos =>
    show BK s (match text with
      | some t => bind s svc p o dep t qos
      | none => (s, Res.invalid, [])).1
    cases text with
    | none => exact BK.refl s
    | some t => exact bind_bk s svc p o dep t qos
  | update svc p o dep text qos => exact update_bk s svc p o dep text qos
  | setwd o a => exact BK.of_eq rfl
  | disable svc p o => exact disable_bk s svc p o
  | enable svc p o dep => exact enable_bk s svc p o dep
  | refund svc p o => exact refund_bk s svc p o
  | call id svc provs cons cap timeout super rep freq total inputOk =>
    show BK s (if s.cfg.modsvc = some svc then panicOut s "module-service call: outside the model"
      else createCtx s id "" svc provs cons cap timeout super rep freq total inputOk true 0).1
    split
    · exact BK.refl s
    · exact createCtx_bk _ _ _ _ _ _ _ _ _ _ _ _ _ _ _
  | modcreate id mod svc provs cons cap timeout super rep freq total inputOk running thr => exact createCtx_bk _ _ _ _ _ _ _ _ _ _ _ _ _ _ _
  | respond r p code out => exact respond_bk s r p code out
  | pause c cons => exact ctxMsg_bk s c cons _ (pauseK_bk s c cons)
  | start c cons => exact ctxMsg_bk s c cons _ (startK_bk s c cons)
  | kill c cons => exact ctxMsg_bk s c cons _ (killK_bk s c cons)
  | updatectx c cons provs cap timeout freq total => exact ctxMsg_bk s c cons _ (updateK_bk _ _ _ _ _ _ _ _ _)
  | modpause c cons => exact pauseK_bk s c cons
  | modstart c cons => exact startK_bk s c cons
  | modkill c cons => exact killK_bk s c cons
  | modupdate c cons provs thr cap timeout freq total => exact updateK_bk _ _ _ _ _ _ _ _ _
  | withdraw o p => exact withdraw_bk s o p
  | endblock dt =>
    show BK s (match (endBlock s dt).panic with
        | some m => (s, Res.panic m, (endBlock s dt).effs)
        | none => ((endBlock s dt).s, Res.ok, (endBlock s dt).effs)).1
    split
    · exact BK.refl s
    · exact endBlock_bk s dt

theorem step_bk (s : State) (op : Op) : BK s (step s op).1 := by
  unfold step
  split
  · exact BK.refl s
  · have h := exec_bk s op
    cases he : exec s op with
    | mk s' re =>
      obtain ⟨res, effs⟩ := re
      rw [he] at h
      dsimp only
      split
      · exact h
      · split
        · exact h
        · exact BK.refl s

/-- in every reachable state the bindings map has one record per key: a store scan of it is the map itself -/
theorem bindings_nodupKeys {cfg : Config} {p : Params} {h0 t0 : Int} {s : State} (hr : Reachable cfg p h0 t0 s) :
    NodupKeys s.bindings := by
  induction hr with
  | init => simp [genesis, NodupKeys, keys]
  | step op _ _ ih => exact step_bk _ op ih

theorem entries_bindings {cfg : Config} {p : Params} {h0 t0 : Int} {s : State} (hr : Reachable cfg p h0 t0 s) :
    entries s.bindings = s.bindings := entries_of_nodupKeys _ (bindings_nodupKeys hr)

end SM
