import ServiceModel.Proofs.Once
import ServiceModel.Proofs.CountEq
import ServiceModel.Proofs.RestartStable
/-!
# Exactly-once settlement over chains that go through zero-height restarts

`Spent s r` (Proofs/Once.lean): `r` is not pending, its context id has been used, and if its context still exists
the context's batch counter has reached `r`'s batch number. A restart keeps it: nothing is pending on the restarted
chain, used ids stay used (`restart` carries the ghost set `usedIds` over: E7), and a context comes back with the batch
counter it had. A request that was *pending* at the restart — the preparation refunds it — is spent afterwards.
Hence over every continuation by well-formed operations and restarts (`LeadsR`) a settled request is never pending again.
-/
namespace SM
open Map

theorem importBindings_activeI : ∀ (L : List ((SvcName × Addr) × Binding)) (s1 s2 : State),
    importBindings s1 L = some s2 → s2.activeI = s1.activeI := by
  intro L
  induction L with
  | nil => intro s1 s2 h; simp only [importBindings, Option.some.injEq] at h; subst h; rfl
  | cons e t ih =>
    intro s1 s2 h
    unfold importBindings at h
    cases hib : importBinding s1 e with
    | none => rw [hib] at h; cases h
    | some s1' =>
      rw [hib] at h; dsimp only at h
      have a := ih s1' s2 h
      unfold importBinding at hib
      split at hib
      · injection hib with hib; subst hib; exact a
      · cases hib

/-- nothing is pending on the restarted chain, and the used context ids are those of the old chain -/
theorem restart_fields {s s' : State} {height time : Int} (h : restart s height time = some s') :
    s'.activeI = [] ∧ s'.usedIds = s.usedIds := by
  unfold restart at h
  split at h
  · cases h
  · split at h
    · cases h
    · rename_i s0 himp
      injection h with h; subst h
      refine ⟨?_, rfl⟩
      show s0.activeI = []
      unfold importG at himp
      split at himp
      · cases himp
      · dsimp only at himp
        split at himp
        · cases himp
        · rename_i s2 hs2
          injection himp with himp; subst himp
          show s2.activeI = []
          rw [importBindings_activeI _ _ _ hs2]; rfl

/-- a context of the restarted chain is a context of the old chain with the same batch counter -/
theorem restart_ctx_batch {s s' : State} (hall : InvAll s) {height time : Int} (hre : restart s height time = some s')
    (c : CtxId) (y : Ctx) (hy : get s'.ctxs c = some y) : ∃ x, get s.ctxs c = some x ∧ y.batch = x.batch := by
  obtain ⟨s'', h1, _, _, _, _, _, hexp⟩ := restart_invAll hall height time
  rw [hre] at h1; injection h1 with h1; subst h1
  have hesc : ∀ pv, (get s.earned pv).isSome → pv ≠ s.cfg.escrow := fun pv h e => hall.earn pv h (Or.inl e)
  obtain ⟨hnp, _⟩ := prep_spec hall.inv hesc
  have hc : entries s'.ctxs = entries (prep s).s.ctxs := by
    have := congrArg GenesisState.ctxs hexp; simpa [exportG] using this
  have hy' : get (prep s).s.ctxs c = some y := by rw [← get_entries, ← hc, get_entries]; exact hy
  obtain ⟨_, _, _, _, x0, hx0, hxe⟩ := prep_ctxs s hnp c y hy'
  exact ⟨x0, hx0, by rw [hxe]; rfl⟩

/-- `Spent` is kept by a restart -/
theorem spent_restart {s s' : State} (hall : InvAll s) {height time : Int} (hre : restart s height time = some s')
    (r : ReqId) (hs : Spent s r) : Spent s' r := by
  obtain ⟨_, h2, h3⟩ := hs
  obtain ⟨f1, f2⟩ := restart_fields hre
  refine ⟨by rw [f1]; simp, by rw [f2]; exact h2, fun y hy => ?_⟩
  obtain ⟨x, hx, hb⟩ := restart_ctx_batch hall hre r.ctx y hy
  rw [hb]; exact h3 x hx

/-- a request that is pending when the chain is restarted (the preparation refunds its fee) is spent afterwards -/
theorem spent_of_pending_at_restart {s s' : State} (hall : InvAll s) {height time : Int}
    (hre : restart s height time = some s') (r : ReqId) (hact : r ∈ s.activeI) : Spent s' r := by
  obtain ⟨f1, f2⟩ := restart_fields hre
  obtain ⟨q, hq⟩ : ∃ q, get s.reqs r = some q := by
    cases hh : get s.reqs r with
    | none => have := hall.inv.x.activeReq r hact; rw [hh] at this; simp at this
    | some q => exact ⟨q, rfl⟩
  obtain ⟨x, hx, hb, _⟩ := hall.inv.x.reqCtx r q hq
  refine ⟨by rw [f1]; simp, by rw [f2]; exact hall.inv.x.used r.ctx (by rw [hx]; rfl), fun y hy => ?_⟩
  obtain ⟨x', hx', hb'⟩ := restart_ctx_batch hall hre r.ctx y hy
  rw [hx] at hx'; injection hx' with hx'; subst hx'
  rw [hb', hb]; exact Nat.le_refl _

/-- well-formed continuations of a history, restarts included -/
inductive LeadsR : State → State → Prop
  | refl (s : State) : LeadsR s s
  | step {s s' : State} (op : Op) : WF s op → LeadsR (step s op).1 s' → LeadsR s s'
  | restart {s s1 s' : State} (height time : Int) : SM.restart s height time = some s1 → LeadsR s1 s' → LeadsR s s'

theorem spent_leadsR {cfg : Config} {p : Params} {h0 t0 : Int} (hc : CfgOK cfg p) {s s' : State}
    (hr : ReachableR cfg p h0 t0 s) (hl : LeadsR s s') (r : ReqId) (hs : Spent s r) : Spent s' r := by
  induction hl with
  | refl s => exact hs
  | step op hw _ ih => exact ih (ReachableR.step op hr hw) (spent_step (reachableR_invAll hc hr).inv op hw r hs)
  | restart height time hre _ ih =>
    exact ih (ReachableR.restart height time hr hre) (spent_restart (reachableR_invAll hc hr) hre r hs)

/-! ### exact batch counters (C12) over chains with restarts -/
/-- after a restart no batch is running, so the counter equation holds vacuously -/
theorem restart_ceq {s s' : State} (hall : InvAll s) {height time : Int} (hre : restart s height time = some s') : CEq s' := by
  obtain ⟨s'', h1, _, _, _, _, _, hexp⟩ := restart_invAll hall height time
  rw [hre] at h1; injection h1 with h1; subst h1
  have hesc : ∀ pv, (get s.earned pv).isSome → pv ≠ s.cfg.escrow := fun pv h e => hall.earn pv h (Or.inl e)
  obtain ⟨hnp, _⟩ := prep_spec hall.inv hesc
  have hc : entries s'.ctxs = entries (prep s).s.ctxs := by
    have := congrArg GenesisState.ctxs hexp; simpa [exportG] using this
  intro c y hy hrun
  have hy' : get (prep s).s.ctxs c = some y := by rw [← get_entries, ← hc, get_entries]; exact hy
  obtain ⟨_, hb, _⟩ := prep_ctxs s hnp c y hy'
  rw [hb] at hrun; cases hrun

theorem ceq_reachableR {cfg : Config} {p : Params} {h0 t0 : Int} (hc : CfgOK cfg p) {s : State}
    (hr : ReachableR cfg p h0 t0 s) : CEq s := by
  induction hr with
  | init => intro c x hx; simp [genesis] at hx
  | @step s op hr' hw ih =>
    rcases step_state s op with h1 | ⟨h1, _, _⟩
    · rw [h1]; exact ih
    · rw [h1]; exact exec_ceq s op (reachableR_invAll hc hr').inv hw ih
  | restart height time hr' hre _ => exact restart_ceq (reachableR_invAll hc hr') hre

/-! ### contexts over a restart (C09) -/
/-- the contexts of the restarted chain are exactly the contexts of the old chain, each reset (paused, batch completed,
    counters of the batch zero) and otherwise unchanged -/
theorem restart_ctxs {s s' : State} (hall : InvAll s) {height time : Int} (hre : restart s height time = some s')
    (c : CtxId) : get s'.ctxs c = (get s.ctxs c).map resetCtx := by
  obtain ⟨s'', h1, _, _, _, _, _, hexp⟩ := restart_invAll hall height time
  rw [hre] at h1; injection h1 with h1; subst h1
  have hesc : ∀ pv, (get s.earned pv).isSome → pv ≠ s.cfg.escrow := fun pv h e => hall.earn pv h (Or.inl e)
  obtain ⟨_, b', hP, _⟩ := prep_spec hall.inv hesc
  have hc : entries s'.ctxs = entries (prep s).s.ctxs := by
    have := congrArg GenesisState.ctxs hexp; simpa [exportG] using this
  have e1 : get s'.ctxs c = get (prep s).s.ctxs c := by rw [← get_entries, hc, get_entries]
  rw [e1, hP]
  show get (s.ctxs.map (fun e => (e.1, resetCtx e.2))) c = (get s.ctxs c).map resetCtx
  generalize s.ctxs = m
  induction m with
  | nil => rfl
  | cons hd t ih =>
    obtain ⟨k, v⟩ := hd
    by_cases hk : k = c
    · subst hk; simp [Map.get]
    · simp [Map.get, hk, ih]

end SM
