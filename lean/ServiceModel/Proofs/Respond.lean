import ServiceModel.Proofs.MOps
import ServiceModel.Proofs.XNewBatch
import ServiceModel.Proofs.Bound
/-!
# `respond` preserves the three worlds
-/
namespace SM
open Map

theorem settle_shape {s s1 : State} {r : ReqId} {svc : SvcName} {cons : Addr} {q : Req} {prov : Addr} {out : OutKind}
    {e1 : List Effect} (h : settle s r svc cons q prov out = .ok (s1, e1)) :
    ∃ bank' bs ea oe, s1 = { s with bank := bank', bindings := bs, earned := ea, ownerEarned := oe } ∧
      (∀ k, (Map.get s.bindings k).isSome → (Map.get bs k).isSome) := by
  unfold settle at h
  split at h
  · cases hs : slash s r svc q.prov with
    | bankErr => rw [hs] at h; simp at h
    | overflow => rw [hs] at h; simp at h
    | done s2 e2 =>
      rw [hs] at h; dsimp only at h
      cases hb : bankSend s2.bank s2.cfg.escrow cons q.fee with
      | none => rw [hb] at h; simp at h
      | some bank' =>
        rw [hb] at h; simp only [Except.ok.injEq, Prod.mk.injEq] at h
        obtain ⟨h1, _⟩ := h; subst h1
        rcases slash_shape hs with h2 | ⟨b2, b', h2⟩
        · rw [h2]; exact ⟨bank', s.bindings, s.earned, s.ownerEarned, rfl, fun _ hk => hk⟩
        · rw [h2]; exact ⟨bank', _, s.earned, s.ownerEarned, rfl, fun k hk => isSome_set _ _ _ _ hk⟩
  · cases ha : addEarned s prov q.fee with
    | none => rw [ha] at h; simp at h
    | some res =>
      rw [ha] at h; simp only [Except.ok.injEq] at h; subst h
      obtain ⟨bank', ea, oe, hh⟩ := addEarned_shape ha
      exact ⟨bank', s.bindings, ea, oe, hh, fun _ hk => hk⟩

theorem slash_cfg {s s1 : State} {r : ReqId} {svc : SvcName} {p : Addr} {e : List Effect}
    (h : slash s r svc p = .done s1 e) : s1.cfg = s.cfg := by
  rcases slash_shape h with h2 | ⟨_, _, h2⟩ <;> rw [h2]

theorem slash_escrow {s s1 : State} {r : ReqId} {svc : SvcName} {p : Addr} {e : List Effect}
    (hst : InvStatic s) (h : slash s r svc p = .done s1 e) :
    balOf s1.bank.bal s.cfg.escrow = balOf s.bank.bal s.cfg.escrow := by
  unfold slash at h
  cases hb : Map.get s.bindings (svc, p) with
  | none => rw [hb] at h; simp at h; rw [← h.1]
  | some b =>
    rw [hb] at h; dsimp only at h
    split at h; · simp at h
    cases hburn : bankBurn s.bank s.cfg.deposit (b.deposit * s.params.slash / decUnit) with
    | none => rw [hburn] at h; simp at h
    | some bank' =>
      rw [hburn] at h; dsimp only at h
      have hbal : balOf bank'.bal s.cfg.escrow = balOf s.bank.bal s.cfg.escrow := by
        rw [bankBurn_bal hburn]; simp [hst.ed]
      split at h
      · cases hmd : minDeposit s.params (storedPricing s svc p) with
        | none => rw [hmd] at h; simp at h
        | some md =>
          rw [hmd] at h; dsimp only at h
          injection h with h1 _; subst h1; exact hbal
      · injection h with h1 _; subst h1; exact hbal

/-- the bindings world after the settlement of a response -/
theorem settle_invB {s s1 : State} {r : ReqId} {svc : SvcName} {cons : Addr} {q : Req} {prov : Addr} {out : OutKind}
    {e1 : List Effect} (hB : InvB s) (hst : InvStatic s) (hcons : ¬ isModAcct s.cfg cons)
    (h : settle s r svc cons q prov out = .ok (s1, e1)) : InvB s1 := by
  unfold settle at h
  split at h
  · cases hs : slash s r svc q.prov with
    | bankErr => rw [hs] at h; simp at h
    | overflow => rw [hs] at h; simp at h
    | done s2 e2 =>
      rw [hs] at h; dsimp only at h
      cases hb : bankSend s2.bank s2.cfg.escrow cons q.fee with
      | none => rw [hb] at h; simp at h
      | some bank' =>
        rw [hb] at h; simp only [Except.ok.injEq, Prod.mk.injEq] at h
        obtain ⟨h1, _⟩ := h; subst h1
        have h2 := slash_invB hB hs
        have hcfg := slash_cfg hs
        refine invB_bank h2 ?_
        apply bankSend_other hb
        · rw [hcfg]; exact fun e => hst.ed e.symm
        · rw [hcfg]; exact fun e => hcons (Or.inr (Or.inl e.symm))
  · cases ha : addEarned s prov q.fee with
    | none => rw [ha] at h; simp at h
    | some res =>
      rw [ha] at h; simp only [Except.ok.injEq] at h; subst h
      unfold addEarned at ha; dsimp only at ha
      cases hb : bankSend s.bank s.cfg.escrow s.cfg.collector (q.fee * s.params.tax / decUnit) with
      | none => rw [hb] at ha; simp at ha
      | some bank' =>
        rw [hb] at ha; dsimp only at ha
        split at ha
        · simp at ha
        · simp only [Option.some.injEq, Prod.mk.injEq] at ha
          obtain ⟨h1, _⟩ := ha; subst h1
          have : balOf bank'.bal s.cfg.deposit = balOf s.bank.bal s.cfg.deposit :=
            bankSend_other hb _ (fun e => hst.ed e.symm) hst.dc
          show BInv _ _ (balOf bank'.bal s.cfg.deposit) _ _ _ _ _ _
          rw [this]; exact hB

end SM

namespace SM
open Map

/-- the money world after the settlement of a response, with the request no longer pending -/
theorem settle_invM {s s1 : State} {r : ReqId} {svc : SvcName} {cons : Addr} {q : Req} {prov : Addr} {out : OutKind}
    {e1 : List Effect} (hM : InvM s) (hst : InvStatic s) (hB : InvB s)
    (hbind : (Map.get s.bindings (svc, prov)).isSome)
    (hn : s.activeI.Nodup) (hr : r ∈ s.activeI) (hq : Map.get s.reqs r = some q)
    (hcons : ¬ isModAcct s.cfg cons)
    (h : settle s r svc cons q prov out = .ok (s1, e1)) :
    MInv (balOf s1.bank.bal s.cfg.escrow) s.reqs (FSet.rem s.activeI r) s1.earned s1.ownerEarned s.owner := by
  have hfee : feeAt s.reqs r = q.fee := by unfold feeAt; rw [hq]
  unfold settle at h
  split at h
  · cases hs : slash s r svc q.prov with
    | bankErr => rw [hs] at h; simp at h
    | overflow => rw [hs] at h; simp at h
    | done s2 e2 =>
      rw [hs] at h; dsimp only at h
      cases hb : bankSend s2.bank s2.cfg.escrow cons q.fee with
      | none => rw [hb] at h; simp at h
      | some bank' =>
        rw [hb] at h; simp only [Except.ok.injEq, Prod.mk.injEq] at h
        obtain ⟨h1, _⟩ := h; subst h1
        have hcfg := slash_cfg hs
        have hesc := slash_escrow hst hs
        rw [hcfg] at hb
        have hne : s.cfg.escrow ≠ cons := fun e => hcons (Or.inl e.symm)
        have hb1 := bankSend_src hb hne
        have hb2 := bankSend_le hb
        have hearned : s2.earned = s.earned ∧ s2.ownerEarned = s.ownerEarned := by
          rcases slash_shape hs with h2 | ⟨_, _, h2⟩ <;> rw [h2] <;> exact ⟨rfl, rfl⟩
        show MInv (balOf bank'.bal s.cfg.escrow) s.reqs (FSet.rem s.activeI r) s2.earned s2.ownerEarned s.owner
        rw [hearned.1, hearned.2]
        refine MInv.refundReq hM hn hr ?_
        rw [hfee, hb1, hesc]
        rw [hesc] at hb2
        omega
  · cases ha : addEarned s prov q.fee with
    | none => rw [ha] at h; simp at h
    | some res =>
      rw [ha] at h; simp only [Except.ok.injEq] at h; subst h
      unfold addEarned at ha; dsimp only at ha
      cases hb : bankSend s.bank s.cfg.escrow s.cfg.collector (q.fee * s.params.tax / decUnit) with
      | none => rw [hb] at ha; simp at ha
      | some bank' =>
        rw [hb] at ha; dsimp only at ha
        split at ha
        · simp at ha
        · rename_i hle
          simp only [Option.some.injEq, Prod.mk.injEq] at ha
          obtain ⟨h1, _⟩ := ha; subst h1
          have hb1 := bankSend_src hb hst.ec
          have hb2 := bankSend_le hb
          obtain ⟨b, hbb⟩ : ∃ b, Map.get s.bindings (svc, prov) = some b := by
            cases hx : Map.get s.bindings (svc, prov) with
            | none => rw [hx] at hbind; simp at hbind
            | some b => exact ⟨b, rfl⟩
          have hown := hB.ownerOf svc prov b hbb
          show MInv (balOf bank'.bal s.cfg.escrow) s.reqs (FSet.rem s.activeI r)
            (addTo s.earned prov _) (addTo s.ownerEarned ((Map.get s.owner prov).getD "") _) s.owner
          rw [hown]
          simp only [Option.getD_some]
          refine MInv.earn hM (tax := q.fee * s.params.tax / decUnit) hn hr ?_ ?_ hown
          · rw [hfee]; omega
          · rw [hb1]; omega

end SM

namespace SM
open Map

theorem completeBatch_fst (s : State) (c : CtxId) (x : Ctx) :
    (completeBatch s c x).1 = { x with bstate := .completed } := rfl

/-- `respond` preserves every invariant -/
theorem respond_inv (s : State) (r : ReqId) (prov : Addr) (code : Nat) (out : OutKind) (h : Inv s) :
    Inv (respond s r prov code out).1 := by
  unfold respond
  cases hq : Map.get s.reqs r with
  | none => exact h
  | some q =>
    dsimp only
    cases hx : Map.get s.ctxs r.ctx with
    | none => exact h
    | some x0 =>
      dsimp only
      split; · exact h
      split; · exact h
      rename_i hprov hact
      have hprov : prov = q.prov := by simpa using hprov
      have hact : r ∈ s.activeI := by simpa using hact
      cases hs : settle s r x0.svc x0.cons q prov out with
      | error res => exact h
      | ok res =>
        obtain ⟨s1, e1⟩ := res
        dsimp only
        have hcons : ¬ isModAcct s.cfg x0.cons := h.x.ctxCons _ x0 hx
        obtain ⟨y, hy, hbind, _⟩ := h.bound r q hq
        rw [hx] at hy; injection hy with hy; subst hy
        rw [← hprov] at hbind
        have hB1 := settle_invB h.b h.static hcons hs
        have hM1 := settle_invM h.m h.static h.b hbind h.x.activeNodup hact hq hcons hs
        obtain ⟨bank', bs, ea, oe, hshape, hbs⟩ := settle_shape hs
        subst hshape
        have hwf := h.x.ctxWF _ x0 hx
        obtain ⟨_, _, hxb⟩ := h.x.activeRunning r hact |>.imp (fun _ h => h)
        have hrun : x0.bstate = .running := by
          obtain ⟨y, hy, hyb⟩ := h.x.activeRunning r hact
          rw [hx] at hy; injection hy with hy; subst hy; exact hyb
        have hcnt := h.x.counts _ x0 hx hrun
        -- the invocation world: one lemma for both outcomes
        have hX : ∀ x' : Ctx, x'.cons = x0.cons → x'.svc = x0.svc → x'.batch = x0.batch → ctxOK x' →
            x'.state = x0.state → x'.reqN = x0.reqN →
            ((x'.bstate = .running ∧ x'.respN = x0.respN + 1) ∨ (x'.bstate = .completed ∧ x0.respN + 1 = x0.reqN)) →
            XInv s.cfg s.height (Map.set s.ctxs r.ctx x') s.expQ s.newQ s.expH s.newH s.usedIds s.reqs
              (FSet.rem s.activeB (x0.svc, prov, q.expH, r)) (FSet.rem s.activeI r)
              (Map.set s.resps r { prov := prov, cons := x0.cons, code := code, out := out }) := by
          intro x' c1 c2 c3 c4 c5 c6 c7
          rw [hprov]
          refine XInv.deactivate h.x hq hx hact c1 c2 c3 c4 c5 c6 ?_ ?_
          · rcases c7 with c7 | c7
            · left; exact ⟨c7.1, Nat.le_of_eq c7.2⟩
            · right; left; exact c7
          · intro r2 hr2
            rw [Map.get_set] at hr2
            by_cases hrr : r = r2
            · left; exact hrr.symm
            · right; simpa [hrr] using hr2
        split
        · rename_i heq
          rw [completeBatch_fst]
          refine { static := h.static, b := hB1, x := ?_, m := hM1, bound := ?_ }
          · exact hX _ rfl rfl rfl hwf rfl rfl (Or.inr ⟨rfl, heq⟩)
          · exact (BoundInv.setCtx (h.bound.bindingsGrow hbs) hx ⟨rfl, rfl⟩)
        · rename_i hne
          refine { static := h.static, b := hB1, x := ?_, m := hM1, bound := ?_ }
          · exact hX _ rfl rfl rfl hwf rfl rfl (Or.inl ⟨hrun, rfl⟩)
          · exact (BoundInv.setCtx (h.bound.bindingsGrow hbs) hx ⟨rfl, rfl⟩)

end SM

namespace SM
open Map

/-- a slash produces exactly one effect, the slash itself -/
theorem slash_effects {s s1 : State} {r : ReqId} {svc : SvcName} {p : Addr} {e : List Effect}
    (h : slash s r svc p = .done s1 e) : ∃ n, e = [.slash r p n] := by
  unfold slash at h; dsimp only at h
  repeat' split at h
  all_goals first
    | (simp at h; done)
    | (injection h with _ h2; exact ⟨_, h2.symm⟩)

/-- a settlement only moves coins and slashes: its effects are transfers and slashes, never events or callbacks -/
theorem settle_effects {s s1 : State} {r : ReqId} {svc : SvcName} {cons : Addr} {q : Req} {prov : Addr} {out : OutKind}
    {e1 : List Effect} (h : settle s r svc cons q prov out = .ok (s1, e1)) :
    ∀ e ∈ e1, (∃ a b n, e = .transfer a b n) ∨ (∃ r' p n, e = .slash r' p n) := by
  unfold settle at h
  split at h
  · cases hs : slash s r svc q.prov with
    | bankErr => rw [hs] at h; simp at h
    | overflow => rw [hs] at h; simp at h
    | done s2 e2 =>
      rw [hs] at h; dsimp only at h
      cases hb : bankSend s2.bank s2.cfg.escrow cons q.fee with
      | none => rw [hb] at h; simp at h
      | some bank' =>
        rw [hb] at h; simp only [Except.ok.injEq, Prod.mk.injEq] at h
        obtain ⟨_, h2⟩ := h; subst h2
        obtain ⟨n, he2⟩ := slash_effects hs
        subst he2
        intro e he
        simp only [List.mem_append, List.mem_singleton] at he
        rcases he with he | he
        · exact Or.inr ⟨_, _, _, he⟩
        · split at he
          · cases he
          · simp only [List.mem_singleton] at he; exact Or.inl ⟨_, _, _, he⟩
  · cases ha : addEarned s prov q.fee with
    | none => rw [ha] at h; simp at h
    | some res =>
      rw [ha] at h; simp only [Except.ok.injEq] at h; subst h
      unfold addEarned at ha; dsimp only at ha
      repeat' split at ha
      all_goals first
        | (simp at ha; done)
        | (simp only [Option.some.injEq, Prod.mk.injEq] at ha; obtain ⟨_, h2⟩ := ha; subst h2
           intro e he
           first
             | (cases he; done)
             | (simp only [List.mem_singleton] at he; exact Or.inl ⟨_, _, _, he⟩))

end SM
