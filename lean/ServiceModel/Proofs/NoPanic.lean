import ServiceModel.Proofs.EndBlock
/-!
# The end of a block never panics in a state satisfying `Inv`

The only panic site of the end blocker (model: `SlashRes.overflow`, code: checked `sdk.Int`
multiplication in `getMinDeposit` called from `Slash`) needs an available binding whose
minimum deposit overflows; `BInv.minDep` excludes it.
-/
namespace SM
open Map

theorem slash_ne_overflow {s : State} (hB : InvB s) (r : ReqId) (svc : SvcName) (prov : Addr) :
    slash s r svc prov ≠ .overflow := by
  unfold slash
  cases hb : get s.bindings (svc, prov) with
  | none => simp
  | some b =>
    dsimp only
    split; · simp
    cases hbk : bankBurn s.bank s.cfg.deposit (b.deposit * s.params.slash / decUnit) with
    | none => simp
    | some bank' =>
      dsimp only
      split
      · rename_i hav
        obtain ⟨p, md, hp, hmd, _⟩ := hB.minDep (svc, prov) b hb hav
        have hsp : storedPricing s svc prov = p := by unfold storedPricing; rw [hp]
        rw [hsp, hmd]; simp
      · simp

theorem expireReq_nopanic {s : State} (h : Inv s) (x : Ctx) (r : ReqId) : (expireReq x s r).panic = none := by
  unfold expireReq
  cases hq : get s.reqs r with
  | none => rfl
  | some q =>
    dsimp only
    split; · rfl
    cases hs : slash s r x.svc q.prov with
    | overflow => exact absurd hs (slash_ne_overflow h.b r x.svc q.prov)
    | bankErr => dsimp only; unfold refundExpired; split <;> rfl
    | done s1 e1 => dsimp only; unfold refundExpired; split <;> rfl

theorem expireFold_nopanic (x : Ctx) (c : CtxId) (ids : List ReqId) (s : State) (h : Inv s)
    (hx : get s.ctxs c = some x) (hids : ∀ r, r ∈ ids → r ∈ s.activeI ∧ r.ctx = c) (hnd : ids.Nodup) :
    (foldH (expireReq x) s ids).panic = none := by
  induction ids generalizing s with
  | nil => rfl
  | cons r rest ih =>
    have hp1 := expireReq_nopanic h x r
    rw [foldH_cons]; simp only [hp1]
    obtain ⟨hr1, hr2⟩ := hids r (by simp)
    obtain ⟨hinv, hfr, hact⟩ := expireReq_inv x s r h (by rw [hr2]; exact hx) hr1 hp1
    have hnd' := List.nodup_cons.mp hnd
    refine ih _ hinv ?_ ?_ hnd'.2
    · rw [hfr.2.2.2.2.1]; exact hx
    · intro r' hr'
      obtain ⟨h1, h2⟩ := hids r' (List.mem_cons_of_mem _ hr')
      refine ⟨?_, h2⟩
      rw [hact, FSet.mem_rem]
      exact ⟨h1, fun e => hnd'.1 (e ▸ hr')⟩

theorem expireBatch_nopanic {s : State} (h : Inv s) (c : CtxId) : (expireBatch s c).panic = none := by
  unfold expireBatch
  split; · rfl
  cases hx : get s.ctxs c with
  | none => rfl
  | some x =>
    dsimp only
    have hp : (expirePending s c x).1.panic = none := by
      unfold expirePending
      split
      · dsimp only
        refine expireFold_nopanic x c _ s h hx ?_ ?_
        · intro r hr
          rw [mem_sortReqIds] at hr
          have := List.mem_filter.mp hr
          simp only [decide_eq_true_eq] at this
          exact ⟨this.1, this.2.1⟩
        · exact nodup_sortReqIds _ (List.Nodup.sublist
            (List.filter_sublist (p := fun (r : ReqId) => decide (r.ctx = c ∧ r.batch = x.batch))) h.x.activeNodup)
      · rfl
    simp only [hp]

theorem newBatch_nopanic (s : State) (c : CtxId) : (newBatch s c).panic = none := by
  unfold newBatch
  split; · rfl
  cases get s.ctxs c with
  | none => rfl
  | some x => dsimp only; split; · rfl
              split <;> rfl

theorem foldH_nopanic_of {α : Type} (hd : State → α → HRes) (P : State → Prop)
    (hstep : ∀ s a, P s → (hd s a).panic = none ∧ P (hd s a).s) :
    ∀ (l : List α) (s : State), P s → (foldH hd s l).panic = none ∧ P (foldH hd s l).s := by
  intro l
  induction l with
  | nil => intro s hs; exact ⟨rfl, hs⟩
  | cons a t ih =>
    intro s hs
    obtain ⟨h1, h2⟩ := hstep s a hs
    rw [foldH_cons]; simp only [h1]
    exact ih _ h2

/-- End-of-block processing does not panic in any state satisfying the invariants. -/
theorem endBlock_nopanic {s : State} (h : Inv s) (dt : Int) : (endBlock s dt).panic = none := by
  have h1 := foldH_nopanic_of expireBatch Inv
    (fun s a hs => ⟨expireBatch_nopanic hs a, expireBatch_inv s a hs (expireBatch_nopanic hs a)⟩)
    (queuedAt s.expQ s.height) s h
  have h2 := foldH_nopanic_of newBatch Inv
    (fun s a hs => ⟨newBatch_nopanic s a, newBatch_inv s a hs⟩)
    (queuedAt (foldH expireBatch s (queuedAt s.expQ s.height)).s.newQ (foldH expireBatch s (queuedAt s.expQ s.height)).s.height)
    _ h1.2
  unfold endBlock
  simp only [h1.1, h2.1]

end SM
