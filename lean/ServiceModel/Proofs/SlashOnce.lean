import ServiceModel.Proofs.Finished
import ServiceModel.Proofs.NoSlash
/-!
# C04: every slash names a request that was pending and is no longer — hence once per failed request

`step_slash_pending`: a slash effect of a step carries the id of a request that was pending before the step and is
not pending after it. With `Spent` (C02): a request is slashed at most once in every history.
-/
namespace SM
open Map

/-- a settlement slashes for its own request only -/
theorem settle_slash_id {s s1 : State} {r : ReqId} {svc : SvcName} {cons : Addr} {q : Req} {prov : Addr} {out : OutKind}
    {e1 : List Effect} (h : settle s r svc cons q prov out = .ok (s1, e1)) :
    ∀ e ∈ e1, ∀ r' p n, e = .slash r' p n → r' = r := by
  unfold settle at h
  split at h
  · cases hs : slash s r svc q.prov with
    | bankErr => rw [hs] at h; simp at h
    | overflow => rw [hs] at h; simp at h
    | done s2 e2 =>
      rw [hs] at h; dsimp only at h
      cases hb : bankSend s2.bank s2.cfg.escrow cons q.fee with
      | none => rw [hb] at h; simp at h
      | some bank' =>
        rw [hb] at h; simp only [Except.ok.injEq, Prod.mk.injEq] at h
        obtain ⟨_, h2⟩ := h; subst h2
        obtain ⟨n, he2⟩ := slash_effects hs
        subst he2
        intro e he r' p n' heq
        simp only [List.mem_append, List.mem_singleton] at he
        rcases he with he | he
        · rw [he] at heq; injection heq with h1 _ _; exact h1.symm
        · split at he
          · cases he
          · simp only [List.mem_singleton] at he; rw [he] at heq; cases heq
  · cases ha : addEarned s prov q.fee with
    | none => rw [ha] at h; simp at h
    | some res =>
      rw [ha] at h; simp only [Except.ok.injEq] at h; subst h
      unfold addEarned at ha; dsimp only at ha
      repeat' split at ha
      all_goals first
        | (simp at ha; done)
        | (simp only [Option.some.injEq, Prod.mk.injEq] at ha; obtain ⟨_, h2⟩ := ha; subst h2
           intro e he r' p n heq
           first
             | (cases he; done)
             | (simp only [List.mem_singleton] at he; rw [he] at heq; cases heq))

theorem completeBatch_noSlash (s : State) (c : CtxId) (x : Ctx) : noSlash (completeBatch s c x).2 := by
  unfold completeBatch
  dsimp only
  intro e he
  rw [List.mem_append] at he
  rcases he with he | he
  · by_cases hm : x.mod ≠ ""
    · rw [if_pos hm] at he
      cases hg : get s.ctxs c <;> rw [hg] at he <;> simp only [List.mem_singleton] at he <;> subst he <;> rfl
    · rw [if_neg hm] at he; cases he
  · simp only [List.mem_singleton] at he; subst he; rfl

/-- the expiry of one request slashes for that request only -/
theorem expireReq_slash_id (x : Ctx) (s : State) (r : ReqId) :
    ∀ e ∈ (expireReq x s r).effs, ∀ r' p n, e = .slash r' p n → r' = r := by
  unfold expireReq
  cases hq : get s.reqs r with
  | none => intro e he; cases he
  | some q =>
    dsimp only
    split; · intro e he; cases he
    have hre : ∀ (s1 : State) (e1 : List Effect), (∀ e ∈ e1, ∀ r' p n, e = .slash r' p n → r' = r) →
        ∀ e ∈ (refundExpired s1 e1 x q r).effs, ∀ r' p n, e = .slash r' p n → r' = r := by
      intro s1 e1 h1 e he r' p n heq
      unfold refundExpired at he
      split at he
      · simp only [List.mem_append] at he
        rcases he with he | he
        · exact h1 e he r' p n heq
        · split at he
          · cases he
          · simp only [List.mem_singleton] at he; rw [he] at heq; cases heq
      · simp only [List.mem_append, List.mem_singleton] at he
        rcases he with he | he
        · exact h1 e he r' p n heq
        · rw [he] at heq; cases heq
    cases hs : slash s r x.svc q.prov with
    | overflow => intro e he; cases he
    | bankErr => exact hre s [] (fun e he => by cases he)
    | done s1 e1 =>
      obtain ⟨n, he1⟩ := slash_effects hs
      subst he1
      exact hre s1 _ (fun e he r' p n' heq => by
        simp only [List.mem_singleton] at he; rw [he] at heq; injection heq with h1 _ _; exact h1.symm)

theorem expireFold_slash_ids (x : Ctx) : ∀ (ids : List ReqId) (s : State),
    ∀ e ∈ (foldH (expireReq x) s ids).effs, ∀ r' p n, e = .slash r' p n → r' ∈ ids := by
  intro ids
  induction ids with
  | nil => intro s e he; cases he
  | cons r rest ih =>
    intro s e he r' p n heq
    rw [foldH_cons] at he
    split at he
    · exact List.mem_cons.mpr (Or.inl (expireReq_slash_id x s r e he r' p n heq))
    · simp only [List.mem_append] at he
      rcases he with he | he
      · exact List.mem_cons.mpr (Or.inl (expireReq_slash_id x s r e he r' p n heq))
      · exact List.mem_cons_of_mem _ (ih _ e he r' p n heq)

/-- the expiry handler of one queue entry slashes only for requests pending before it, of its own (due) context -/
theorem expireBatch_slash (s : State) (c : CtxId) :
    ∀ e ∈ (expireBatch s c).effs, ∀ r' p n, e = .slash r' p n →
      r' ∈ s.activeI ∧ r'.ctx = c ∧ (s.height, c) ∈ s.expQ := by
  intro e he r' p n heq
  unfold expireBatch at he
  split at he
  · cases he
  · rename_i hq
    have hmem : (s.height, c) ∈ s.expQ := by simpa using hq
    cases hx : get s.ctxs c with
    | none => rw [hx] at he; cases he
    | some x =>
      rw [hx] at he
      dsimp only at he
      have hpend : ∀ e ∈ (expirePending s c x).1.effs, ∀ r' p n, e = .slash r' p n → r' ∈ s.activeI ∧ r'.ctx = c := by
        intro e he r' p n heq
        unfold expirePending at he
        split at he
        · dsimp only at he
          simp only [List.mem_append] at he
          rcases he with he | he
          · have := expireFold_slash_ids x _ s e he r' p n heq
            rw [mem_sortReqIds] at this
            have h2 := List.mem_filter.mp this
            simp only [decide_eq_true_eq] at h2
            exact ⟨h2.1, h2.2.1⟩
          · have := completeBatch_noSlash _ c x e he
            rw [heq] at this; cases this
        · cases he
      split at he
      · obtain ⟨h1, h2⟩ := hpend e he r' p n heq
        exact ⟨h1, h2, hmem⟩
      · dsimp only at he
        simp only [List.mem_append] at he
        rcases he with he | he
        · obtain ⟨h1, h2⟩ := hpend e he r' p n heq
          exact ⟨h1, h2, hmem⟩
        · exfalso
          have hns : noSlash (expireTail (expirePending s c x).1.s c (expirePending s c x).2).2 := by
            unfold expireTail
            dsimp only
            split
            · intro e he; simp at he; subst he; rfl
            · split <;> (intro e he; simp at he; try (subst he; rfl))
            · intro e he; cases he
          have := hns e he
          rw [heq] at this; cases this

/-- the expiry phase slashes only for requests that were pending when the block ended and whose context's expiry
    was queued for this height -/
theorem expirePhase_slash : ∀ (l : List CtxId) (s : State), Inv s →
    ∀ e ∈ (foldH expireBatch s l).effs, ∀ r' p n, e = .slash r' p n →
      r' ∈ s.activeI ∧ get s.expH r'.ctx = some s.height := by
  intro l
  induction l with
  | nil => intro s _ e he; cases he
  | cons a rest ih =>
    intro s h e he r' p n heq
    have hnp := expireBatch_nopanic h a
    rw [foldH_cons] at he
    simp only [hnp] at he
    simp only [List.mem_append] at he
    rcases he with he | he
    · obtain ⟨h1, h2, h3⟩ := expireBatch_slash s a e he r' p n heq
      exact ⟨h1, by rw [h2]; exact (h.x.expMirror s.height a).mp h3⟩
    · obtain ⟨i1, i2⟩ := ih _ (expireBatch_inv s a h hnp) e he r' p n heq
      obtain ⟨ph, pe⟩ := expireBatch_ptrs s a h hnp
      refine ⟨expireBatch_subset s a h hnp r' i1, ?_⟩
      rw [pe r'.ctx, ph] at i2
      split at i2
      · cases i2
      · exact i2

theorem issueBatch_noSlash (s : State) (bank' : Bank) (c : CtxId) (x : Ctx) (el : List (Addr × Nat)) (ep : List Effect)
    (h : noSlash ep) : noSlash (issueBatch s bank' c x el ep).2 := by
  unfold issueBatch
  intro e he
  simp only [List.mem_append, List.mem_singleton] at he
  rcases he with he | he
  · exact h e he
  · subst he; rfl

theorem newBatch_noSlash (s : State) (c : CtxId) : noSlash (newBatch s c).effs := by
  unfold newBatch
  split
  · intro e he; cases he
  · cases get s.ctxs c with
    | none => intro e he; cases he
    | some x =>
      dsimp only
      split
      · intro e he; simp at he; subst he; rfl
      · split
        · intro e he; cases he
        · intro e he
          simp only [List.mem_append, List.mem_singleton] at he
          rcases he with he | he
          · revert e
            show noSlash (startOrSkip s c x).2
            unfold startOrSkip
            split
            · split
              · exact issueBatch_noSlash _ _ _ _ _ _ (fun e he => by cases he)
              · cases bankSend s.bank x.cons s.cfg.escrow (sumPrices (eligible s x)) with
                | some bk =>
                  refine issueBatch_noSlash _ _ _ _ _ _ ?_
                  split
                  · intro e he; cases he
                  · intro e he; simp at he; subst he; rfl
                | none =>
                  intro e he
                  simp only [List.mem_cons, List.not_mem_nil, or_false] at he
                  rcases he with rfl | rfl
                  · rfl
                  · split <;> rfl
            · intro e he; cases he
          · subst he; rfl

theorem foldH_noSlash {α : Type} (hd : State → α → HRes) (hk : ∀ s a, noSlash (hd s a).effs) :
    ∀ (l : List α) (s : State), noSlash (foldH hd s l).effs :=
  fun l s => foldH_effects hd (fun e => e.isSlash = false) hk l s

/-- a response slashes for its own request only, which was pending and is not afterwards -/
theorem respond_slash (s : State) (r0 : ReqId) (pv : Addr) (code : Nat) (out : OutKind) :
    ∀ e ∈ (respond s r0 pv code out).2.2, ∀ r p n, e = .slash r p n →
      r = r0 ∧ r0 ∈ s.activeI ∧ r0 ∉ (respond s r0 pv code out).1.activeI := by
  unfold respond
  cases hq : get s.reqs r0 with
  | none => intro e he; cases he
  | some q =>
    dsimp only
    cases hx : get s.ctxs r0.ctx with
    | none => intro e he; cases he
    | some x =>
      dsimp only
      split; · intro e he; cases he
      split; · intro e he; cases he
      rename_i _ hact
      have hact' : r0 ∈ s.activeI := by simpa using hact
      cases hs : settle s r0 x.svc x.cons q pv out with
      | error res => intro e he; cases he
      | ok res =>
        obtain ⟨s1, e1⟩ := res
        dsimp only
        obtain ⟨bank', bs, ea, oe, hshape, _⟩ := settle_shape hs
        have hid := settle_slash_id hs
        subst hshape
        have hgone : ∀ (s' : State), s'.activeI = FSet.rem s.activeI r0 → r0 ∉ s'.activeI := by
          intro s' h1 hm; rw [h1] at hm; exact ((FSet.mem_rem _ _ _).mp hm).2 rfl
        split
        · intro e he r p n heq
          simp only [List.mem_append] at he
          rcases he with he | he
          · exact ⟨hid e he r p n heq, hact', hgone _ rfl⟩
          · have := completeBatch_noSlash _ r0.ctx _ e he
            rw [heq] at this; cases this
        · intro e he r p n heq
          exact ⟨hid e he r p n heq, hact', hgone _ rfl⟩

/-- C04: every slash of a step is for a request that was pending before the step and is not pending after it -/
theorem step_slash_pending {s : State} (h : Inv s) (op : Op) :
    ∀ e ∈ (step s op).2.2, ∀ r p n, e = .slash r p n → r ∈ s.activeI ∧ r ∉ (step s op).1.activeI := by
  intro e he r p n heq
  cases hop : op.isEndblock with
  | true =>
    cases op with
    | endblock dt =>
      rw [step_endblock] at he ⊢
      have hnp := endBlock_nopanic h dt
      have he' : e ∈ (match (endBlock s dt).panic with
          | some m => (s, Res.panic m, (endBlock s dt).effs)
          | none => ((endBlock s dt).s, Res.ok, (endBlock s dt).effs)).2.2 := he
      show r ∈ s.activeI ∧ r ∉ (match (endBlock s dt).panic with
          | some m => (s, Res.panic m, (endBlock s dt).effs)
          | none => ((endBlock s dt).s, Res.ok, (endBlock s dt).effs)).1.activeI
      simp only [hnp] at he' ⊢
      have hp1 := foldH_nopanic_of expireBatch Inv
        (fun s a hs => ⟨expireBatch_nopanic hs a, expireBatch_inv s a hs (expireBatch_nopanic hs a)⟩) (queuedAt s.expQ s.height) s h
      have hp2 := foldH_nopanic_of newBatch Inv (fun s a hs => ⟨newBatch_nopanic s a, newBatch_inv s a hs⟩)
        (queuedAt (foldH expireBatch s (queuedAt s.expQ s.height)).s.newQ (foldH expireBatch s (queuedAt s.expQ s.height)).s.height)
        _ hp1.2
      have heff : e ∈ (foldH expireBatch s (queuedAt s.expQ s.height)).effs ∨
          e ∈ (foldH newBatch (foldH expireBatch s (queuedAt s.expQ s.height)).s
            (queuedAt (foldH expireBatch s (queuedAt s.expQ s.height)).s.newQ (foldH expireBatch s (queuedAt s.expQ s.height)).s.height)).effs := by
        unfold endBlock at he'
        simp only [hp1.1, hp2.1] at he'
        exact List.mem_append.mp he'
      rcases heff with h1 | h2
      · obtain ⟨ha, hptr⟩ := expirePhase_slash _ s h e h1 r p n heq
        refine ⟨ha, ?_⟩
        obtain ⟨q, hq⟩ : ∃ q, get s.reqs r = some q := by
          cases hh : get s.reqs r with
          | none => have := h.x.activeReq r ha; rw [hh] at this; simp at this
          | some q => exact ⟨q, rfl⟩
        obtain ⟨_, _, _, hqe⟩ := h.x.reqCtx r q hq
        rw [hptr] at hqe; injection hqe with hqe
        exact expiry_block_clears s dt h r q hq hqe.symm
      · have := foldH_noSlash newBatch newBatch_noSlash _ _ e h2
        rw [heq] at this; cases this
    | _ => cases hop
  | false =>
    by_cases hr : ∃ r0 p0 c0 o0, op = .respond r0 p0 c0 o0
    · obtain ⟨r0, p0, c0, o0, rfl⟩ := hr
      rcases step_msg_full s (.respond r0 p0 c0 o0) hop with ⟨_, h2⟩ | ⟨h1, h2⟩
      · rw [h2] at he; cases he
      · rw [h1]
        rw [h2] at he
        obtain ⟨e1, e2, e3⟩ := respond_slash s r0 p0 c0 o0 e he r p n heq
        rw [e1]; exact ⟨e2, e3⟩
    · have hnr : ∀ r p c o, op ≠ .respond r p c o := fun r p c o e => hr ⟨r, p, c, o, e⟩
      have := step_noSlash s op hop hnr e he
      rw [heq] at this; cases this

end SM
