import ServiceModel.Proofs.NoPanic
import ServiceModel.Properties.C08
/-!
# Which messages can make the handler panic

Only `bind`, `update` and `enable`, and only through checked `sdk.Int` arithmetic on amounts of about 2^255
(known finding D9). Every other message and keeper entry point returns an error or succeeds.
-/
namespace SM
open Map

def Res.isPanic : Res → Bool
  | .panic _ => true
  | _ => false

macro "nopanic_tac" f:ident : tactic =>
  `(tactic| (unfold $f; (try dsimp only); repeat' split
             all_goals rfl))

theorem define_nopanic (s : State) (n : SvcName) (a : Addr) : (define s n a).2.1.isPanic = false := by nopanic_tac define
theorem setwd_nopanic (s : State) (o a : Addr) : (setwd s o a).2.1.isPanic = false := rfl
theorem disable_nopanic (s : State) (svc : SvcName) (p o : Addr) : (disable s svc p o).2.1.isPanic = false := by nopanic_tac disable
theorem refund_nopanic (s : State) (svc : SvcName) (p o : Addr) : (refund s svc p o).2.1.isPanic = false := by nopanic_tac refund
theorem pauseK_nopanic (s : State) (c : CtxId) (cons : Addr) : (pauseK s c cons).2.1.isPanic = false := by nopanic_tac pauseK
theorem startK_nopanic (s : State) (c : CtxId) (cons : Addr) : (startK s c cons).2.1.isPanic = false := by nopanic_tac startK
theorem killK_nopanic (s : State) (c : CtxId) (cons : Addr) : (killK s c cons).2.1.isPanic = false := by nopanic_tac killK

theorem updateK_nopanic (s : State) (c : CtxId) (cons : Addr) (provs : List Addr) (thr : Nat) (cap : Option Nat)
    (timeout : Int) (freq : Nat) (total : Int) : (updateK s c cons provs thr cap timeout freq total).2.1.isPanic = false := by
  nopanic_tac updateK

theorem createCtx_nopanic (s : State) (id : CtxId) (mod : ModName) (svc : SvcName) (provs : List Addr) (cons : Addr)
    (cap : Option Nat) (timeout : Int) (super rep : Bool) (freq : Nat) (total : Int) (inputOk running : Bool) (thr : Nat) :
    (createCtx s id mod svc provs cons cap timeout super rep freq total inputOk running thr).2.1.isPanic = false := by
  nopanic_tac createCtx

theorem ctxMsg_nopanic (s : State) (c : CtxId) (cons : Addr) (k : State → Out) (hk : (k s).2.1.isPanic = false) :
    (ctxMsg s c cons k).2.1.isPanic = false := by
  unfold ctxMsg; split
  · rfl
  · exact hk

/-- a response cannot make the handler panic: in a state satisfying the invariants the settlement of an admissible
    response always succeeds -/
theorem respond_nopanic {s : State} (h : Inv s) (r : ReqId) (pv : Addr) (code : Nat) (out : OutKind) :
    (respond s r pv code out).2.1.isPanic = false := by
  unfold respond
  cases hq : get s.reqs r with
  | none => rfl
  | some q =>
    dsimp only
    cases hx : get s.ctxs r.ctx with
    | none => rfl
    | some x =>
      dsimp only
      split; · rfl
      split; · rfl
      rename_i hpv hact
      have hpv' : pv = q.prov := by simpa using hpv
      have hact' : r ∈ s.activeI := by simpa using hact
      obtain ⟨res, hres⟩ := C08.settle_succeeds h r q x out hq hx hact'
      rw [hpv', hres]
      dsimp only
      split
      · rfl
      · rfl

/-- a withdrawal cannot make the handler panic: an owner's recorded earnings are never below those of one of its providers -/
theorem withdraw_nopanic {s : State} (h : Inv s) (o p : Addr) : (withdraw s o p).2.1.isPanic = false := by
  unfold withdraw
  split; · rfl
  rename_i hauth
  cases hw : withdrawRecords s o p with
  | error r =>
    exfalso
    unfold withdrawRecords at hw
    split at hw
    · rename_i hp
      have hown : get s.owner p = some o := by
        by_cases hx : get s.owner p = some o
        · exact hx
        · exact absurd ⟨hp, hx⟩ hauth
      have hle : balOf s.earned p ≤ balOf s.ownerEarned o := by
        have h1 := ownedSum_del s.owner s.earned p o h.m.earnedK
        simp only [hown, if_true] at h1
        rw [h.m.ownerSum o]; omega
      split at hw
      · cases hw
      · split at hw
        · omega
        · cases hw
    · cases hw
  | ok res =>
    obtain ⟨s1, amt⟩ := res
    dsimp only
    split; · rfl
    split <;> rfl

/-- The only operations whose handler can panic. -/
def Op.isDepositMsg : Op → Bool
  | .bind .. => true
  | .update .. => true
  | .enable .. => true
  | _ => false

/-- No message other than bind / update / enable makes the handler panic, in any state satisfying the invariants
    (`WF`: a call of the module's own reserved service is outside the model). -/
theorem exec_nopanic {s : State} (h : Inv s) (op : Op) (hw : WF s op) (hne : op.isEndblock = false)
    (hnd : op.isDepositMsg = false) : (exec s op).2.1.isPanic = false := by
  cases op with
  | fund a n => rfl
  | xfer a b n => show (match bankSend s.bank a b n with
      | none => fail s Err.insufficientFunds
      | some bank' => ({ s with bank := bank' }, Res.ok, [])).2.1.isPanic = false
                  split <;> rfl
  | define n a ok => exact define_nopanic s n a
  | bind svc p o dep text qos => simp [Op.isDepositMsg] at hnd
  | update svc p o dep text qos => simp [Op.isDepositMsg] at hnd
  | setwd o a => rfl
  | disable svc p o => exact disable_nopanic s svc p o
  | enable svc p o dep => simp [Op.isDepositMsg] at hnd
  | refund svc p o => exact refund_nopanic s svc p o
  | call id svc provs cons cap timeout super rep freq total inputOk =>
    show (if s.cfg.modsvc = some svc then panicOut s "module-service call: outside the model"
      else createCtx s id "" svc provs cons cap timeout super rep freq total inputOk true 0).2.1.isPanic = false
    obtain ⟨_, _, hms⟩ : ¬ s.modAcct cons ∧ id ∉ s.usedIds ∧ s.cfg.modsvc ≠ some svc := hw
    rw [if_neg hms]
    exact createCtx_nopanic ..
  | modcreate id mod svc provs cons cap timeout super rep freq total inputOk running thr => exact createCtx_nopanic ..
  | respond r p code out => exact respond_nopanic h r p code out
  | pause c cons => exact ctxMsg_nopanic s c cons _ (pauseK_nopanic s c cons)
  | start c cons => exact ctxMsg_nopanic s c cons _ (startK_nopanic s c cons)
  | kill c cons => exact ctxMsg_nopanic s c cons _ (killK_nopanic s c cons)
  | updatectx c cons provs cap timeout freq total => exact ctxMsg_nopanic s c cons _ (updateK_nopanic ..)
  | modpause c cons => exact pauseK_nopanic s c cons
  | modstart c cons => exact startK_nopanic s c cons
  | modkill c cons => exact killK_nopanic s c cons
  | modupdate c cons provs thr cap timeout freq total => exact updateK_nopanic ..
  | withdraw o p => exact withdraw_nopanic h o p
  | endblock dt => simp [Op.isEndblock] at hne

end SM
