import ServiceModel.Model.ModSvc
import ServiceModel.Proofs.Reachable
/-!
# The module-service call keeps the money world consistent (one step, from any state satisfying the invariants)

`callMod` (Model/ModSvc.lean) is outside `Op`/`step`; what is proved about it here is the part C01 is about:
from a state satisfying `Inv`, a module-service call — accepted or rejected, whatever the module answers — ends in a
state whose request escrow holds exactly the pending fees plus the unwithdrawn earnings, and whose owner earnings are
the sums of their providers' (`InvM`). The invocation-world invariants are *not* preserved by this branch (the request
it issues has no expiry entry: DESIGN.md §10.10), which is why this is a one-step statement and not part of
`reachable_inv`.
-/
namespace SM
open Map

/-- the money world after `respond`, from the money-world hypotheses alone -/
theorem respond_invM_of (s : State) (r : ReqId) (prov : Addr) (code : Nat) (out : OutKind)
    (hM : InvM s) (hst : InvStatic s) (hB : InvB s) (hn : s.activeI.Nodup)
    (hside : ∀ q x0, get s.reqs r = some q → get s.ctxs r.ctx = some x0 →
      (get s.bindings (x0.svc, q.prov)).isSome ∧ ¬ isModAcct s.cfg x0.cons) :
    InvM (respond s r prov code out).1 := by
  unfold respond
  cases hq : get s.reqs r with
  | none => exact hM
  | some q =>
    dsimp only
    cases hx : get s.ctxs r.ctx with
    | none => exact hM
    | some x0 =>
      dsimp only
      split; · exact hM
      split; · exact hM
      rename_i hprov hact
      have hprov : prov = q.prov := by simpa using hprov
      have hact : r ∈ s.activeI := by simpa using hact
      cases hs : settle s r x0.svc x0.cons q prov out with
      | error res => exact hM
      | ok res =>
        obtain ⟨s1, e1⟩ := res
        dsimp only
        obtain ⟨hbind, hcons⟩ := hside q x0 hq hx
        rw [← hprov] at hbind
        have hM1 := settle_invM hM hst hB hbind hn hact hq hcons hs
        obtain ⟨bank', bs, ea, oe, hshape, _⟩ := settle_shape hs
        subst hshape
        split
        · exact hM1
        · exact hM1

theorem createCtx_ok_fields (s : State) (id : CtxId) (svc : SvcName) (provs : List Addr) (cons : Addr)
    (cap : Option Nat) (timeout : Int) (inputOk : Bool) (s1 : State) (e : List Effect)
    (h : createCtx s id "" svc provs cons cap timeout false false 0 0 inputOk true 0 = (s1, .ok, e)) (x : Ctx)
    (hx : get s1.ctxs id = some x) :
    x.svc = svc ∧ x.provs = provs ∧ x.cons = cons ∧ x.super = false ∧ x.batch = 0 := by
  unfold createCtx at h
  dsimp only at h
  repeat' split at h
  all_goals first
    | (simp only [fail, Prod.mk.injEq] at h; obtain ⟨_, h2, _⟩ := h; cases h2; done)
    | (simp only [Prod.mk.injEq] at h
       obtain ⟨h1, _, _⟩ := h
       subst h1
       simp only [addNewQ, setCtx, if_true, Map.get_set_same, Option.some.injEq] at hx
       subst hx
       exact ⟨rfl, rfl, rfl, rfl, rfl⟩)

theorem eligible_single (s : State) (x : Ctx) (p : Addr) (hp : x.provs = [p]) (hne : ¬ (eligible s x).isEmpty = true) :
    (get s.bindings (x.svc, p)).isSome ∧
    eligible s x = [(p, priceOf (storedPricing s x.svc p) s.time ((get s.volume (x.cons, x.svc, p)).getD 0))] := by
  unfold eligible at hne ⊢
  rw [hp] at hne ⊢
  simp only [List.filterMap_cons, List.filterMap_nil] at hne ⊢
  cases hb : get s.bindings (x.svc, p) with
  | none => rw [hb] at hne; simp at hne
  | some b =>
    rw [hb] at hne
    dsimp only at hne ⊢
    by_cases h1 : b.avail = true ∧ (b.qos : Int) ≤ x.timeout
    · by_cases h2 : priceOf (storedPricing s x.svc p) s.time ((get s.volume (x.cons, x.svc, p)).getD 0) ≤ x.cap
      · refine ⟨rfl, ?_⟩
        rw [if_pos h1, if_pos h2]
      · rw [if_pos h1, if_neg h2] at hne; simp at hne
    · rw [if_neg h1] at hne; simp at hne

/-- the request id and record `InitiateRequests` writes for the first provider of a batch -/
def firstReqId (s : State) (c : CtxId) (x : Ctx) : ReqId := { ctx := c, batch := x.batch + 1, height := s.height.toNat, index := 0 }
def firstReq (s : State) (x : Ctx) (p : Addr) (price : Nat) : Req :=
  { prov := p, fee := if x.super then 0 else price, reqH := s.height, expH := s.height + x.timeout }

theorem issueReqs_single (s : State) (c : CtxId) (x : Ctx) (p : Addr) (price : Nat) :
    issueReqs s c x [(p, price)] 0 =
      addActive { s with reqs := Map.set s.reqs (firstReqId s c x) (firstReq s x p price) }
        x.svc p (s.height + x.timeout) (firstReqId s c x) := by
  unfold issueReqs; unfold issueReqs; rfl

theorem firstReqId_bank (s : State) (b : Bank) (c : CtxId) (x : Ctx) : firstReqId { s with bank := b } c x = firstReqId s c x := rfl
theorem firstReq_bank (s : State) (b : Bank) (x : Ctx) (p : Addr) (n : Nat) : firstReq { s with bank := b } x p n = firstReq s x p n := rfl

/-- the money world after the second half of a module-service call: the request is issued to the charged provider and
    the module's answer is recorded -/
theorem callMod_tail_invM (s1 : State) (id : CtxId) (x : Ctx) (prov : Addr) (price : Nat) (bank' : Bank)
    (r : ReqId) (hrctx : r.ctx = id) (code : Nat) (out : OutKind)
    (hM1 : InvM s1) (hB1 : InvB s1) (hst : InvStatic s1) (hn : s1.activeI.Nodup)
    (hnoreq : ∀ r q, r.ctx = id → get s1.reqs r = some q → False)
    (hact : ∀ r, r ∈ s1.activeI → (get s1.reqs r).isSome)
    (hbind : (get s1.bindings (x.svc, prov)).isSome) (hsup : x.super = false)
    (hcons : ¬ isModAcct s1.cfg x.cons)
    (hb : bankSend s1.bank x.cons s1.cfg.escrow price = some bank') :
    InvM (respond (setCtx (issueReqs { s1 with bank := bank' } id x [(prov, price)] 0) id
        { x with batch := x.batch + 1, bstate := .running, respN := 0, reqN := 1, bthr := x.thr }) r prov code out).1 := by
  rw [issueReqs_single, firstReqId_bank, firstReq_bank]
  have hne : s1.cfg.escrow ≠ x.cons := fun e => hcons (Or.inl e.symm)
  have hned : s1.cfg.deposit ≠ x.cons := fun e => hcons (Or.inr (Or.inl e.symm))
  have hr0 : firstReqId s1 id x ∉ s1.activeI := by
    intro hm
    obtain ⟨q, hq⟩ := Option.isSome_iff_exists.mp (hact _ hm)
    exact hnoreq _ q rfl hq
  have hfee : (firstReq s1 x prov price).fee = price := by unfold firstReq; rw [hsup]; rfl
  apply respond_invM_of
  · -- the money world once the request is issued and paid for
    show MInv (balOf bank'.bal s1.cfg.escrow) (set s1.reqs (firstReqId s1 id x) (firstReq s1 x prov price))
      (FSet.ins s1.activeI (firstReqId s1 id x)) s1.earned s1.ownerEarned s1.owner
    refine MInv.issue hM1 [firstReqId s1 id x] (by unfold FSet.ins; rw [if_neg hr0]) ?_ ?_
    · intro r' hr'
      have hne' : firstReqId s1 id x ≠ r' := fun e => hr0 (by rw [e]; exact hr')
      rw [Map.get_set, if_neg hne']
    · rw [bankSend_dst hb (fun e => hne e.symm)]
      simp only [feeSum, List.map_cons, List.map_nil, List.sum_cons, List.sum_nil, Map.get_set_same, hfee]
      omega
  · exact hst
  · show BInv s1.cfg s1.params (balOf bank'.bal s1.cfg.deposit) s1.defs s1.bindings s1.ownerBind s1.owner s1.ownerProv s1.pricing
    rw [bankSend_other hb s1.cfg.deposit hned (fun e => hst.ed e.symm)]
    exact hB1
  · exact FSet.nodup_ins _ _ hn
  · intro q x0 hq hx0
    have hx0' : x0 = { x with batch := x.batch + 1, bstate := .running, respN := 0, reqN := 1, bthr := x.thr } := by
      rw [hrctx] at hx0
      simp only [setCtx, addActive, Map.get_set_same, Option.some.injEq] at hx0
      exact hx0.symm
    subst hx0'
    refine ⟨?_, hcons⟩
    show (get s1.bindings (x.svc, q.prov)).isSome
    have hq' : get (set s1.reqs (firstReqId s1 id x) (firstReq s1 x prov price)) r = some q := hq
    rw [Map.get_set] at hq'
    split at hq'
    · injection hq' with hq'; subst hq'; exact hbind
    · exact absurd hq' (fun h' => hnoreq _ q hrctx h')

theorem sumPrices_single (a : Addr) (n : Nat) : sumPrices [(a, n)] = n := by
  unfold sumPrices; simp

theorem okOrRollback_invM (s : State) (o : Out) (f : List Effect → List Effect) (hs : InvM s) (ho : InvM o.1) :
    InvM (match o with
      | (s3, .ok, e3) => (s3, Res.ok, f e3)
      | (_, res, _) => (s, res, [])).1 := by
  obtain ⟨s3, res, e3⟩ := o
  cases res <;> first | exact ho | exact hs

/-- the second half of a module-service call (`RequestModuleService`) keeps the money world consistent -/
theorem requestModSvc_invM (s s1 : State) (id : CtxId) (x : Ctx) (svc : SvcName) (prov cons : Addr) (code : Nat)
    (out : OutKind) (hMs : InvM s) (hM1 : InvM s1) (hB1 : InvB s1) (hst : InvStatic s1) (hn : s1.activeI.Nodup)
    (hnoreq : ∀ r q, r.ctx = id → get s1.reqs r = some q → False)
    (hact : ∀ r, r ∈ s1.activeI → (get s1.reqs r).isSome)
    (xs : x.svc = svc) (xp : x.provs = [prov]) (xc : x.cons = cons) (hsup : x.super = false)
    (hcons : ¬ isModAcct s1.cfg cons) :
    InvM (requestModSvc s s1 id x svc prov cons code out).1 := by
  unfold requestModSvc
  by_cases hel : (eligible s1 x).isEmpty = true
  · rw [if_pos hel]; exact hMs
  · rw [if_neg hel]
    obtain ⟨hbind, helq⟩ := eligible_single s1 x prov xp hel
    have htot : sumPrices (eligible s1 x) =
        priceOf (storedPricing s1 svc prov) s1.time ((get s1.volume (cons, svc, prov)).getD 0) := by
      rw [helq, sumPrices_single, xs, xc]
    cases hb : bankSend s1.bank cons s1.cfg.escrow (sumPrices (eligible s1 x)) with
    | none => exact hMs
    | some bank' =>
      dsimp only
      refine okOrRollback_invM s _ _ hMs ?_
      exact callMod_tail_invM s1 id x prov
        (priceOf (storedPricing s1 svc prov) s1.time ((get s1.volume (cons, svc, prov)).getD 0)) bank'
        { ctx := id, batch := 1, height := s.height.toNat, index := 0 } rfl code out hM1 hB1 hst hn hnoreq hact
        hbind hsup (by rw [xc]; exact hcons) (by rw [xc, ← htot]; exact hb)

/-- **C01 for the module-service call, one step.** From a state satisfying the invariants, with an ordinary account
    as consumer and a fresh context id, the state after `callMod` — accepted or rejected, whatever the module
    answers — satisfies the money-world invariant: escrow = pending fees + unwithdrawn earnings, owner earnings = sums. -/
theorem callMod_invM (s : State) (id : CtxId) (svc : SvcName) (prov cons : Addr) (cap : Option Nat) (inputOk : Bool)
    (code : Nat) (out : OutKind) (h : Inv s) (hcons : ¬ isModAcct s.cfg cons) (hfresh : id ∉ s.usedIds) :
    InvM (callMod s id svc prov cons cap inputOk code out).1 := by
  unfold callMod
  cases hc : createCtx s id "" svc [prov] cons cap 1 false false 0 0 inputOk true 0 with
  | mk s1 re =>
    obtain ⟨res, e⟩ := re
    cases res with
    | err _ => exact h.m
    | invalid => exact h.m
    | panic _ => exact h.m
    | ok =>
      dsimp only
      have hf : CFrame s s1 := by
        have := createCtx_cframe s id "" svc [prov] cons cap 1 false false 0 0 inputOk true 0
        rw [hc] at this; exact this
      have hM1 : InvM s1 := invM_of_cframe h.m hf
      have hB1 : InvB s1 := invB_of_cframe h.b hf
      obtain ⟨f1, f2, f3, f4, f5, f6, f7, f8, f9, f10, f11, f12, f13⟩ := hf
      cases hx : get s1.ctxs id with
      | none => exact h.m
      | some x =>
        dsimp only
        obtain ⟨xs, xp, xc, xsup, _⟩ := createCtx_ok_fields s id svc [prov] cons cap 1 inputOk s1 e hc x hx
        refine requestModSvc_invM s s1 id x svc prov cons code out h.m hM1 hB1
          (by show Static s1.cfg s1.params; rw [f1, f2]; exact h.static)
          (by rw [f11]; exact h.x.activeNodup) ?_
          (by intro r hr; rw [f10]; rw [f11] at hr; exact h.x.activeReq r hr)
          xs xp xc xsup (by rw [f1]; exact hcons)
        intro r q hr hq
        rw [f10] at hq
        obtain ⟨y, hy, _⟩ := h.x.reqCtx r q hq
        exact hfresh (hr ▸ h.x.used r.ctx (by rw [hy]; rfl))

/-! ### the module-service call keeps the bindings world consistent (C03, C14, C15 for this branch) -/
/-- the bindings world after `respond`, from the bindings-world hypotheses alone -/
theorem respond_invB_of (s : State) (r : ReqId) (prov : Addr) (code : Nat) (out : OutKind)
    (hst : InvStatic s) (hB : InvB s)
    (hside : ∀ q x0, get s.reqs r = some q → get s.ctxs r.ctx = some x0 → ¬ isModAcct s.cfg x0.cons) :
    InvB (respond s r prov code out).1 := by
  unfold respond
  cases hq : get s.reqs r with
  | none => exact hB
  | some q =>
    dsimp only
    cases hx : get s.ctxs r.ctx with
    | none => exact hB
    | some x0 =>
      dsimp only
      split; · exact hB
      split; · exact hB
      cases hs : settle s r x0.svc x0.cons q prov out with
      | error res => exact hB
      | ok res =>
        obtain ⟨s1, e1⟩ := res
        dsimp only
        have hB1 := settle_invB hB hst (hside q x0 hq hx) hs
        obtain ⟨bank', bs, ea, oe, hshape, _⟩ := settle_shape hs
        subst hshape
        split
        · exact hB1
        · exact hB1

theorem okOrRollback_invB (s : State) (o : Out) (f : List Effect → List Effect) (hs : InvB s) (ho : InvB o.1) :
    InvB (match o with
      | (s3, .ok, e3) => (s3, Res.ok, f e3)
      | (_, res, _) => (s, res, [])).1 := by
  obtain ⟨s3, res, e3⟩ := o
  cases res <;> first | exact ho | exact hs

theorem requestModSvc_invB (s s1 : State) (id : CtxId) (x : Ctx) (svc : SvcName) (prov cons : Addr) (code : Nat)
    (out : OutKind) (hBs : InvB s) (hB1 : InvB s1) (hst : InvStatic s1)
    (xc : x.cons = cons) (hcons : ¬ isModAcct s1.cfg cons) :
    InvB (requestModSvc s s1 id x svc prov cons code out).1 := by
  unfold requestModSvc
  by_cases hel : (eligible s1 x).isEmpty = true
  · rw [if_pos hel]; exact hBs
  · rw [if_neg hel]
    cases hb : bankSend s1.bank cons s1.cfg.escrow (sumPrices (eligible s1 x)) with
    | none => exact hBs
    | some bank' =>
      dsimp only
      refine okOrRollback_invB s _ _ hBs ?_
      have hned : s1.cfg.deposit ≠ cons := fun e => hcons (Or.inr (Or.inl e.symm))
      rw [issueReqs_single, firstReqId_bank, firstReq_bank]
      apply respond_invB_of
      · exact hst
      · show BInv s1.cfg s1.params (balOf bank'.bal s1.cfg.deposit) s1.defs s1.bindings s1.ownerBind s1.owner s1.ownerProv s1.pricing
        rw [bankSend_other hb s1.cfg.deposit hned (fun e => hst.ed e.symm)]
        exact hB1
      · intro q x0 _ hx0
        have hx0' : x0 = { x with batch := x.batch + 1, bstate := .running, respN := 0, reqN := 1, bthr := x.thr } := by
          simp only [setCtx, addActive, Map.get_set_same, Option.some.injEq] at hx0
          exact hx0.symm
        subst hx0'
        show ¬ isModAcct s1.cfg x.cons
        rw [xc]; exact hcons

/-- **C03 / C14 / C15 for the module-service call, one step.** From a state satisfying the invariants, the state after
    `callMod` — accepted or rejected, whatever the module answers, including a malformed output that slashes the
    module's own provider — satisfies the bindings-world invariant: the deposit account holds exactly the recorded
    deposits, an available binding holds the minimum for its price, indexes and price terms are consistent. -/
theorem callMod_invB (s : State) (id : CtxId) (svc : SvcName) (prov cons : Addr) (cap : Option Nat) (inputOk : Bool)
    (code : Nat) (out : OutKind) (h : Inv s) (hcons : ¬ isModAcct s.cfg cons) :
    InvB (callMod s id svc prov cons cap inputOk code out).1 := by
  unfold callMod
  cases hc : createCtx s id "" svc [prov] cons cap 1 false false 0 0 inputOk true 0 with
  | mk s1 re =>
    obtain ⟨res, e⟩ := re
    cases res with
    | err _ => exact h.b
    | invalid => exact h.b
    | panic _ => exact h.b
    | ok =>
      dsimp only
      have hf : CFrame s s1 := by
        have := createCtx_cframe s id "" svc [prov] cons cap 1 false false 0 0 inputOk true 0
        rw [hc] at this; exact this
      have hB1 : InvB s1 := invB_of_cframe h.b hf
      obtain ⟨f1, f2, f3, f4, f5, f6, f7, f8, f9, f10, f11, f12, f13⟩ := hf
      cases hx : get s1.ctxs id with
      | none => exact h.b
      | some x =>
        dsimp only
        obtain ⟨_, _, xc, _, _⟩ := createCtx_ok_fields s id svc [prov] cons cap 1 inputOk s1 e hc x hx
        exact requestModSvc_invB s s1 id x svc prov cons code out h.b hB1
          (by show Static s1.cfg s1.params; rw [f1, f2]; exact h.static) xc (by rw [f1]; exact hcons)

/-! ### the keeper-level binding of the module's provider keeps every invariant -/
/-- the invariants do not look at the reservation (`cfg.modsvc`) -/
theorem Inv.setModsvc {s : State} (h : Inv s) (m : Option SvcName) : Inv { s with cfg := { s.cfg with modsvc := m } } :=
  { static := ⟨h.static.ed, h.static.ec, h.static.dc, h.static.mult_pos, h.static.maxT_pos, h.static.tax_lt,
               h.static.slash_le, h.static.complaint_pos, h.static.arbitration_pos⟩
    b := ⟨h.b.backed, h.b.ownerOk, h.b.ownerOf, h.b.provIdx, h.b.bindIdx, h.b.priced, h.b.pricingOnly, h.b.defined,
          h.b.ownerHas, h.b.minDep⟩
    x := ⟨h.x.ctxWF, h.x.ctxCons, h.x.newMirror, h.x.expMirror, h.x.single, h.x.newFuture, h.x.expFuture, h.x.runningQ,
          h.x.used, h.x.reqCtx, h.x.activeReq, h.x.activeMirror, h.x.respReq, h.x.activeNodup, h.x.bRunExp,
          h.x.activeRunning, h.x.counts⟩
    m := ⟨h.m.escrow, h.m.earnedK, h.m.ownerEarnedK, h.m.ownerSum, h.m.earnedOwned⟩
    bound := h.bound }

/-- `modBind` (the application binding the provider of its module service through the keeper) preserves `Inv` -/
theorem modBind_inv (s : State) (svc : SvcName) (p o : Addr) (dep : Option Nat) (text : PricingText) (qos : Nat)
    (h : Inv s) (hw : ¬ s.modAcct o) : Inv (modBind s svc p o dep text qos).1 := by
  have h1 : Inv (bind { s with cfg := { s.cfg with modsvc := none } } svc p o dep text qos).1 :=
    bind_inv _ svc p o dep text qos (h.setModsvc none) hw
  have hcfg : (bind { s with cfg := { s.cfg with modsvc := none } } svc p o dep text qos).1.cfg =
      { s.cfg with modsvc := none } := (bind_frame _ svc p o dep text qos).1
  have h2 := h1.setModsvc s.cfg.modsvc
  have e : ({ (bind { s with cfg := { s.cfg with modsvc := none } } svc p o dep text qos).1 with
      cfg := { (bind { s with cfg := { s.cfg with modsvc := none } } svc p o dep text qos).1.cfg with modsvc := s.cfg.modsvc } } : State)
      = (modBind s svc p o dep text qos).1 := by
    rw [hcfg]; rfl
  rw [← e]; exact h2

end SM
