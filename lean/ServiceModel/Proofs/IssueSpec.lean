import ServiceModel.Proofs.Assemble
/-!
# What `issueReqs` does, as equations on the components it changes
-/
namespace SM
open Map

/-- the request records `issueReqs` writes, in order -/
def issuedPairs (c : CtxId) (x : Ctx) (height : Int) : List (Addr × Nat) → Nat → List (ReqId × Req)
  | [], _ => []
  | (p, price) :: rest, i =>
    ({ ctx := c, batch := x.batch + 1, height := height.toNat, index := i },
     { prov := p, fee := if x.super then 0 else price, reqH := height, expH := height + x.timeout })
      :: issuedPairs c x height rest (i + 1)

theorem issuedPairs_index {c : CtxId} {x : Ctx} {height : Int} {el : List (Addr × Nat)} {i : Nat} {r : ReqId} {q : Req}
    (h : (r, q) ∈ issuedPairs c x height el i) :
    i ≤ r.index ∧ r.ctx = c ∧ r.batch = x.batch + 1 ∧ q.expH = height + x.timeout ∧ q.reqH = height ∧
      (∃ pr, (q.prov, pr) ∈ el ∧ q.fee = if x.super then 0 else pr) := by
  induction el generalizing i with
  | nil => simp [issuedPairs] at h
  | cons hd t ih =>
    obtain ⟨p, price⟩ := hd
    simp only [issuedPairs, List.mem_cons] at h
    rcases h with h | h
    · injection h with h1 h2; subst h1; subst h2
      exact ⟨Nat.le_refl _, rfl, rfl, rfl, rfl, price, by simp, rfl⟩
    · obtain ⟨h1, h2, h3, h4, h5, pr, h6, h7⟩ := ih h
      exact ⟨by omega, h2, h3, h4, h5, pr, List.mem_cons_of_mem _ h6, h7⟩

theorem issuedPairs_get_none {c : CtxId} {x : Ctx} {height : Int} {el : List (Addr × Nat)} {i : Nat} {r : ReqId}
    (h : r.index < i) : Map.get (issuedPairs c x height el i) r = none := by
  rw [Map.get_none_iff]
  intro hm
  unfold Map.keys at hm
  obtain ⟨⟨r2, q⟩, hmem, hk⟩ := List.mem_map.mp hm
  simp only at hk; subst hk
  have := (issuedPairs_index hmem).1
  omega

theorem issuedPairs_nodup (c : CtxId) (x : Ctx) (height : Int) (el : List (Addr × Nat)) (i : Nat) :
    (Map.keys (issuedPairs c x height el i)).Nodup := by
  induction el generalizing i with
  | nil => simp [issuedPairs, Map.keys]
  | cons hd t ih =>
    obtain ⟨p, price⟩ := hd
    simp only [issuedPairs, Map.keys, List.map_cons, List.nodup_cons]
    refine ⟨?_, ih (i + 1)⟩
    intro hm
    obtain ⟨⟨r2, q⟩, hmem, hk⟩ := List.mem_map.mp hm
    simp only at hk
    have := (issuedPairs_index hmem).1
    rw [hk] at this
    simp at this
    omega

theorem issuedPairs_length (c : CtxId) (x : Ctx) (height : Int) (el : List (Addr × Nat)) (i : Nat) :
    (issuedPairs c x height el i).length = el.length := by
  induction el generalizing i with
  | nil => rfl
  | cons hd t ih => obtain ⟨p, price⟩ := hd; simp [issuedPairs, ih]

/-- any projection of the state that ignores request records and markers is unchanged by `issueReqs` -/
theorem issueReqs_proj {α : Type} (f : State → α)
    (hf : ∀ (s : State) r q svc p e rid, f (addActive { s with reqs := Map.set s.reqs r q } svc p e rid) = f s)
    (s : State) (c : CtxId) (x : Ctx) (el : List (Addr × Nat)) (i : Nat) : f (issueReqs s c x el i) = f s := by
  induction el generalizing s i with
  | nil => rfl
  | cons hd t ih =>
    obtain ⟨p, price⟩ := hd
    simp only [issueReqs]
    rw [ih, hf]

/-- request records after `issueReqs` -/
theorem issueReqs_reqs (s : State) (c : CtxId) (x : Ctx) (el : List (Addr × Nat)) (i : Nat) (r : ReqId) :
    Map.get (issueReqs s c x el i).reqs r =
      match Map.get (issuedPairs c x s.height el i) r with
      | some q => some q
      | none => Map.get s.reqs r := by
  induction el generalizing s i with
  | nil => simp [issueReqs, issuedPairs]
  | cons hd t ih =>
    obtain ⟨p, price⟩ := hd
    simp only [issueReqs, issuedPairs]
    rw [ih]
    simp only [addActive, Map.get]
    by_cases hr : ({ ctx := c, batch := x.batch + 1, height := s.height.toNat, index := i } : ReqId) = r
    · subst hr
      rw [issuedPairs_get_none (by simp)]
      simp
    · simp only [hr, if_false]
      rw [Map.get_set_other _ _ _ _ hr]

/-- pending-request markers (by id) after `issueReqs`, when the new ids are not yet pending -/
theorem issueReqs_activeI (s : State) (c : CtxId) (x : Ctx) (el : List (Addr × Nat)) (i : Nat)
    (hfresh : ∀ r, r ∈ s.activeI → ¬ (r.ctx = c ∧ r.batch = x.batch + 1 ∧ r.height = s.height.toNat ∧ i ≤ r.index)) :
    (issueReqs s c x el i).activeI = s.activeI ++ Map.keys (issuedPairs c x s.height el i) := by
  induction el generalizing s i with
  | nil => simp [issueReqs, issuedPairs, Map.keys]
  | cons hd t ih =>
    obtain ⟨p, price⟩ := hd
    simp only [issueReqs, issuedPairs, Map.keys, List.map_cons]
    have hnot : ({ ctx := c, batch := x.batch + 1, height := s.height.toNat, index := i } : ReqId) ∉ s.activeI :=
      fun hm => hfresh _ hm ⟨rfl, rfl, rfl, Nat.le_refl _⟩
    have hins : FSet.ins s.activeI ({ ctx := c, batch := x.batch + 1, height := s.height.toNat, index := i } : ReqId) =
        s.activeI ++ [{ ctx := c, batch := x.batch + 1, height := s.height.toNat, index := i }] := by
      unfold FSet.ins; rw [if_neg hnot]
    rw [ih]
    · simp only [addActive, hins, Map.keys, List.append_assoc, List.singleton_append]
    · intro r hr
      simp only [addActive, hins, List.mem_append, List.mem_singleton] at hr
      rcases hr with hr | hr
      · intro ⟨h1, h2, h3, h4⟩
        exact hfresh r hr ⟨h1, h2, h3, by omega⟩
      · subst hr; simp

/-- pending-request markers (by binding) after `issueReqs` -/
theorem issueReqs_activeB (s : State) (c : CtxId) (x : Ctx) (el : List (Addr × Nat)) (i : Nat)
    (hfresh : ∀ t, t ∈ s.activeB → ¬ (t.2.2.2.ctx = c ∧ t.2.2.2.batch = x.batch + 1 ∧ t.2.2.2.height = s.height.toNat ∧ i ≤ t.2.2.2.index)) :
    (issueReqs s c x el i).activeB =
      s.activeB ++ (issuedPairs c x s.height el i).map (fun pq => (x.svc, pq.2.prov, pq.2.expH, pq.1)) := by
  induction el generalizing s i with
  | nil => simp [issueReqs, issuedPairs]
  | cons hd t ih =>
    obtain ⟨p, price⟩ := hd
    simp only [issueReqs, issuedPairs, List.map_cons]
    have hnot : (x.svc, p, s.height + x.timeout, ({ ctx := c, batch := x.batch + 1, height := s.height.toNat, index := i } : ReqId)) ∉ s.activeB :=
      fun hm => hfresh _ hm ⟨rfl, rfl, rfl, Nat.le_refl _⟩
    have hins : FSet.ins s.activeB (x.svc, p, s.height + x.timeout, ({ ctx := c, batch := x.batch + 1, height := s.height.toNat, index := i } : ReqId)) =
        s.activeB ++ [(x.svc, p, s.height + x.timeout, { ctx := c, batch := x.batch + 1, height := s.height.toNat, index := i })] := by
      unfold FSet.ins; rw [if_neg hnot]
    rw [ih]
    · simp only [addActive, hins, List.append_assoc, List.singleton_append]
    · intro t2 ht
      simp only [addActive, hins, List.mem_append, List.mem_singleton] at ht
      rcases ht with ht | ht
      · intro ⟨h1, h2, h3, h4⟩
        exact hfresh t2 ht ⟨h1, h2, h3, by omega⟩
      · subst ht; simp

end SM
