import ServiceModel.Proofs.EarnKeys
/-!
# Whose balance the end of a block can lower

The expiry handlers lower only the two custody accounts (refunds leave the escrow, slashes burn from the
deposit account); a new-batch handler lowers only the consumer of its context (the payment for the batch).
-/
namespace SM
open Map

/-- no account outside `D` (and outside the custody accounts) holds less in `s'` than in `s`; configuration unchanged -/
def BalMono (D : List Addr) (s s' : State) : Prop :=
  s'.cfg = s.cfg ∧ ∀ a, ¬ s.custody a → a ∉ D → balOf s.bank.bal a ≤ balOf s'.bank.bal a

theorem BalMono.refl (D : List Addr) (s : State) : BalMono D s s := ⟨rfl, fun _ _ _ => Nat.le_refl _⟩
theorem BalMono.of_eq {D : List Addr} {s s' : State} (h1 : s'.cfg = s.cfg) (h2 : s'.bank = s.bank) : BalMono D s s' :=
  ⟨h1, fun _ _ _ => by rw [h2]; exact Nat.le_refl _⟩
theorem BalMono.trans {D : List Addr} {a b c : State} (h1 : BalMono D a b) (h2 : BalMono D b c) : BalMono D a c :=
  ⟨h2.1.trans h1.1, fun x hx hd => by
    have hx' : ¬ b.custody x := by unfold State.custody at hx ⊢; rw [h1.1]; exact hx
    exact Nat.le_trans (h1.2 x hx hd) (h2.2 x hx' hd)⟩

theorem slash_balMono {D : List Addr} {s s1 : State} {r : ReqId} {svc : SvcName} {p : Addr} {e : List Effect}
    (h : slash s r svc p = .done s1 e) : BalMono D s s1 := by
  unfold slash at h
  cases hb : get s.bindings (svc, p) with
  | none => rw [hb] at h; injection h with h1 _; subst h1; exact BalMono.refl _ s
  | some b =>
    rw [hb] at h; dsimp only at h
    split at h; · cases h
    cases hbk : bankBurn s.bank s.cfg.deposit (b.deposit * s.params.slash / decUnit) with
    | none => rw [hbk] at h; cases h
    | some bank' =>
      rw [hbk] at h; dsimp only at h
      have hmono : ∀ a, ¬ s.custody a → balOf s.bank.bal a ≤ balOf bank'.bal a := by
        intro a ha
        rw [bankBurn_bal hbk a, if_neg (fun e => ha (Or.inr e))]
        exact Nat.le_refl _
      split at h
      · cases hmd : minDeposit s.params (storedPricing s svc p) with
        | none => rw [hmd] at h; cases h
        | some md =>
          rw [hmd] at h; dsimp only at h
          injection h with h1 _; subst h1
          exact ⟨rfl, fun a ha _ => hmono a ha⟩
      · injection h with h1 _; subst h1
        exact ⟨rfl, fun a ha _ => hmono a ha⟩

theorem refundExpired_balMono {D : List Addr} (s1 : State) (e1 : List Effect) (x : Ctx) (q : Req) (r : ReqId) :
    BalMono D s1 (refundExpired s1 e1 x q r).s := by
  unfold refundExpired
  cases hb : bankSend s1.bank s1.cfg.escrow x.cons q.fee with
  | none => exact BalMono.of_eq rfl rfl
  | some bank' =>
    refine ⟨rfl, fun a ha _ => ?_⟩
    show balOf s1.bank.bal a ≤ balOf bank'.bal a
    rw [bankSend_bal hb a]
    have hne : ¬ a = s1.cfg.escrow := fun e => ha (Or.inl e)
    repeat' split
    all_goals first
      | omega
      | (exfalso; exact hne ‹_›)

theorem expireReq_balMono {D : List Addr} (x : Ctx) (s : State) (r : ReqId) : BalMono D s (expireReq x s r).s := by
  unfold expireReq
  cases hq : get s.reqs r with
  | none => exact BalMono.of_eq rfl rfl
  | some q =>
    dsimp only
    split; · exact BalMono.of_eq rfl rfl
    cases hs : slash s r x.svc q.prov with
    | overflow => exact BalMono.refl _ s
    | bankErr => exact refundExpired_balMono s [] x q r
    | done s1 e1 => exact (slash_balMono hs).trans (refundExpired_balMono s1 e1 x q r)

theorem foldH_balMono {α : Type} {D : List Addr} (hd : State → α → HRes) (hk : ∀ s a, BalMono D s (hd s a).s) :
    ∀ (l : List α) (s : State), BalMono D s (foldH hd s l).s := by
  intro l
  induction l with
  | nil => intro s; exact BalMono.refl _ s
  | cons a t ih =>
    intro s
    rw [foldH_cons]
    split
    · exact hk s a
    · exact (hk s a).trans (ih _)

/-- the expiry handler of one queue entry lowers no balance outside the custody accounts -/
theorem expireBatch_balMono (s : State) (c : CtxId) : BalMono [] s (expireBatch s c).s := by
  have hpend : ∀ x, BalMono [] s (expirePending s c x).1.s := by
    intro x
    unfold expirePending
    split
    · exact foldH_balMono _ (expireReq_balMono x) _ s
    · exact BalMono.refl _ s
  have htail : ∀ (s : State) (x1 : Ctx), BalMono [] s (expireTail s c x1).1 := by
    intro s x1
    unfold expireTail
    dsimp only
    cases x1.state with
    | completed => exact BalMono.of_eq rfl rfl
    | paused => exact BalMono.of_eq rfl rfl
    | running => dsimp only; split <;> exact BalMono.of_eq rfl rfl
  unfold expireBatch
  split; · exact BalMono.refl _ s
  cases get s.ctxs c with
  | none => exact BalMono.of_eq rfl rfl
  | some x =>
    dsimp only
    split
    · exact hpend x
    · exact (hpend x).trans (htail _ _)

/-- phase 1 of the end blocker as a whole -/
theorem expirePhase_balMono (s : State) (l : List CtxId) : BalMono [] s (foldH expireBatch s l).s :=
  foldH_balMono expireBatch expireBatch_balMono l s

/-- the new-batch handler of one queue entry lowers only the balance of the consumer of that context -/
theorem newBatch_balMono (s : State) (c : CtxId) (x : Ctx) (hx : get s.ctxs c = some x) :
    BalMono [x.cons] s (newBatch s c).s := by
  have hissue : ∀ (bank' : Bank) (el : List (Addr × Nat)) (ep : List Effect),
      (∀ a, ¬ s.custody a → a ∉ [x.cons] → balOf s.bank.bal a ≤ balOf bank'.bal a) →
      BalMono [x.cons] s (issueBatch s bank' c x el ep).1 := by
    intro bank' el ep hb
    unfold issueBatch
    dsimp only [addExpQ, setCtx]
    refine ⟨?_, fun a ha hd => ?_⟩
    · exact issueReqs_proj (·.cfg) (fun _ _ _ _ _ _ _ => rfl) _ c x el 0
    · have : (issueReqs { s with bank := bank' } c x el 0).bank = bank' :=
        issueReqs_proj (·.bank) (fun _ _ _ _ _ _ _ => rfl) _ c x el 0
      show balOf s.bank.bal a ≤ balOf (issueReqs { s with bank := bank' } c x el 0).bank.bal a
      rw [this]; exact hb a ha hd
  have hstart : BalMono [x.cons] s (startOrSkip s c x).1 := by
    unfold startOrSkip
    split
    · split
      · exact hissue s.bank _ _ (fun _ _ _ => Nat.le_refl _)
      · cases hb : bankSend s.bank x.cons s.cfg.escrow (sumPrices (eligible s x)) with
        | some bk =>
          refine hissue bk _ _ (fun a ha hd => ?_)
          rw [bankSend_bal hb a]
          have hne : ¬ a = x.cons := by simpa using hd
          repeat' split
          all_goals first
            | omega
            | (exfalso; exact hne ‹_›)
        | none => exact BalMono.of_eq rfl rfl
    · exact BalMono.of_eq rfl rfl
  unfold newBatch
  split; · exact BalMono.refl _ s
  rw [hx]
  dsimp only
  split; · exact BalMono.of_eq rfl rfl
  split; · exact BalMono.of_eq rfl rfl
  exact hstart.trans (BalMono.of_eq rfl rfl)

end SM
