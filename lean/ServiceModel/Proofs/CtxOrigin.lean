import ServiceModel.Proofs.CtxEvol
/-!
# Where a context record of the next state comes from: it evolved from the record with the same id, or it
was created by this very step (fresh id, batch counter 0). Consequence: the total bound of C10 is an invariant.
-/
namespace SM
open Map

theorem createCtx_new (s : State) (id : CtxId) (mod : ModName) (svc : SvcName) (provs : List Addr) (cons : Addr)
    (cap : Option Nat) (timeout : Int) (super rep : Bool) (freq : Nat) (total : Int) (inputOk running : Bool) (thr : Nat) :
    ∀ y, Map.get (createCtx s id mod svc provs cons cap timeout super rep freq total inputOk running thr).1.ctxs id = some y →
      Map.get s.ctxs id = some y ∨ y.batch = 0 := by
  intro y hy
  unfold createCtx at hy; dsimp only at hy
  repeat' split at hy
  all_goals first
    | (left; exact hy)
    | (right; simp only [setCtx, addNewQ] at hy; rw [Map.get_set_same] at hy; injection hy with hy; subst hy; rfl)

/-- Over any well-formed step, every context present afterwards either was created by this very step (its id was
    never used before) or evolved from the context with the same id: its service, consumer, super-mode flag, repeat
    flag and owning module are unchanged, its batch counter did not decrease, and `completed` is final. -/
theorem step_ctx_origin {s : State} (h : Inv s) (op : Op) (hw : WF s op)
    (c : CtxId) (y : Ctx) (hy : Map.get (step s op).1.ctxs c = some y) :
    (∃ x, Map.get s.ctxs c = some x ∧ CtxEvol x y) ∨ (c ∉ s.usedIds ∧ y.batch = 0) := by
  rcases step_state s op with h1 | ⟨h1, h2, _⟩
  · rw [h1] at hy; left; exact ⟨y, hy, CtxEvol.refl y⟩
  · rw [h1] at hy
    have key : CtxsEvol s (exec s op).1 ∨ (∃ id, id ∉ s.usedIds ∧ (∀ c2, c2 ≠ id → Map.get (exec s op).1.ctxs c2 = Map.get s.ctxs c2) ∧
          (∀ y, Map.get (exec s op).1.ctxs id = some y → Map.get s.ctxs id = some y ∨ y.batch = 0)) := by
      cases op with
      | fund a n => left; exact ctxsEvol_of_eq rfl
      | xfer a b n =>
        left
        show CtxsEvol s (match bankSend s.bank a b n with
          | none => fail s Err.insufficientFunds
          | some bank' => ({ s with bank := bank' }, Res.ok, [])).1
        cases bankSend s.bank a b n <;> exact ctxsEvol_of_eq rfl
      | define n a ok => left; show CtxsEvol s (define s n a).1; unfold define; split <;> exact ctxsEvol_of_eq rfl
      | bind svc pv o dep text qos =>
        left
        show CtxsEvol s (match text with
          | some t => bind s svc pv o dep t qos
          | none => (s, Res.invalid, [])).1
        cases text with
        | none => exact CtxsEvol.refl s
        | some t => exact ctxsEvol_of_eq (bind_frame s svc pv o dep t qos).2.2.2.1
      | update svc pv o dep text qos => left; exact ctxsEvol_of_eq (update_frame s svc pv o dep text qos).2.2.2.1
      | setwd o a => left; exact ctxsEvol_of_eq rfl
      | disable svc pv o => left; exact ctxsEvol_of_eq (disable_frame s svc pv o).2.2.2.1
      | enable svc pv o dep => left; exact ctxsEvol_of_eq (enable_frame s svc pv o dep).2.2.2.1
      | refund svc pv o => left; exact ctxsEvol_of_eq (refund_frame s svc pv o).2.2.2.1
      | call id svc provs cons cap timeout super rep freq total inputOk =>
        right
        obtain ⟨_, hfresh, hms⟩ : ¬ s.modAcct cons ∧ id ∉ s.usedIds ∧ s.cfg.modsvc ≠ some svc := hw
        refine ⟨id, hfresh, ?_, ?_⟩
        · show ∀ c2, c2 ≠ id → Map.get (if s.cfg.modsvc = some svc then panicOut s "module-service call: outside the model"
            else createCtx s id "" svc provs cons cap timeout super rep freq total inputOk true 0).1.ctxs c2 = _
          rw [if_neg hms]
          exact createCtx_ctxs s id "" svc provs cons cap timeout super rep freq total inputOk true 0
        · show ∀ y, Map.get (if s.cfg.modsvc = some svc then panicOut s "module-service call: outside the model"
            else createCtx s id "" svc provs cons cap timeout super rep freq total inputOk true 0).1.ctxs id = some y → _
          rw [if_neg hms]
          exact createCtx_new s id "" svc provs cons cap timeout super rep freq total inputOk true 0
      | modcreate id mod svc provs cons cap timeout super rep freq total inputOk running thr =>
        right
        obtain ⟨_, hfresh, hmodne, hconsne⟩ : ¬ s.modAcct cons ∧ id ∉ s.usedIds ∧ mod ≠ "" ∧ cons ≠ "" := hw
        exact ⟨id, hfresh, createCtx_ctxs s id mod svc provs cons cap timeout super rep freq total inputOk running thr,
          createCtx_new s id mod svc provs cons cap timeout super rep freq total inputOk running thr⟩
      | respond r pv code out => left; exact respond_evol s r pv code out
      | pause c2 cons => left; show CtxsEvol s (ctxMsg s c2 cons _).1; unfold ctxMsg; split; exact CtxsEvol.refl s; exact pauseK_evol s c2 cons
      | start c2 cons => left; show CtxsEvol s (ctxMsg s c2 cons _).1; unfold ctxMsg; split; exact CtxsEvol.refl s; exact startK_evol s c2 cons
      | kill c2 cons => left; show CtxsEvol s (ctxMsg s c2 cons _).1; unfold ctxMsg; split; exact CtxsEvol.refl s; exact killK_evol s c2 cons
      | updatectx c2 cons provs cap timeout freq total =>
        left; show CtxsEvol s (ctxMsg s c2 cons _).1; unfold ctxMsg; split; exact CtxsEvol.refl s
        exact updateK_evol s c2 cons provs 0 cap timeout freq total
      | modpause c2 cons => left; exact pauseK_evol s c2 cons
      | modstart c2 cons => left; exact startK_evol s c2 cons
      | modkill c2 cons => left; exact killK_evol s c2 cons
      | modupdate c2 cons provs thr cap timeout freq total => left; exact updateK_evol s c2 cons provs thr cap timeout freq total
      | withdraw o pv =>
        left
        apply ctxsEvol_of_eq
        show (withdraw s o pv).1.ctxs = s.ctxs
        unfold withdraw
        split; · rfl
        cases hwr : withdrawRecords s o pv with
        | error r => rfl
        | ok res =>
          obtain ⟨s1, amt⟩ := res
          dsimp only
          have hc1 : s1.ctxs = s.ctxs := by
            unfold withdrawRecords at hwr
            repeat' split at hwr
            all_goals first
              | (simp at hwr; done)
              | (simp only [Except.ok.injEq, Prod.mk.injEq] at hwr; rw [← hwr.1])
          split; · rfl
          cases bankSend s1.bank s.cfg.escrow ((Map.get s.withdraw o).getD o) amt with
          | none => rfl
          | some bank' => exact hc1
      | endblock dt =>
        left
        show CtxsEvol s (match (endBlock s dt).panic with
          | some m => (s, Res.panic m, (endBlock s dt).effs)
          | none => ((endBlock s dt).s, Res.ok, (endBlock s dt).effs)).1
        rcases Option.eq_none_or_eq_some (endBlock s dt).panic with hp | ⟨m, hp⟩
        · simp only [hp]; exact endBlock_evol s dt h hp
        · simp only [hp]; exact CtxsEvol.refl s
    rcases key with k | ⟨id, hfresh, hsame, hnew⟩
    · left; exact k c y hy
    · by_cases hcid : c = id
      · subst hcid
        rcases hnew y hy with hold | hb
        · left; exact ⟨y, hold, CtxEvol.refl y⟩
        · right; exact ⟨hfresh, hb⟩
      · left; rw [hsame c hcid] at hy; exact ⟨y, hy, CtxEvol.refl y⟩


/-- C10: in every reachable state a repeated context with a positive total has had at most `total` batches -/
theorem totBounded {cfg : Config} {p : Params} {h0 t0 : Int} (hc : CfgOK cfg p) {s : State}
    (hr : Reachable cfg p h0 t0 s) : ∀ c x, Map.get s.ctxs c = some x → TotBound x := by
  induction hr with
  | init => intro c x hx; simp [genesis, Map.get] at hx
  | @step s op hr' hw ih =>
    intro c y hy
    rcases step_ctx_origin (reachable_inv hc hr') op hw c y hy with ⟨x, hx, he⟩ | ⟨_, hb⟩
    · exact he.bnd (ih c x hx)
    · intro _ hpos; rw [hb]; exact Int.le_of_lt hpos

end SM
