import ServiceModel.Proofs.CtxEvol
/-!
# Where a context record of the next state comes from: it evolved from the record with the same id, or it
was created by this very step (fresh id, batch counter 0). Consequence: the total bound of C10 is an invariant.
-/
namespace SM
open Map

/-- what `ValidateRequest` guarantees about the fields that make a stored context valid -/
theorem validateRequest_fields {svc : SvcName} {cap : Option Nat} {provs : List Addr} {timeout : Int} {rep : Bool}
    {freq : Nat} {total : Int} (h : validateRequest svc cap provs timeout rep freq total = none) :
    validName svc = true ∧ provs.isEmpty = false ∧ provs.length ≤ 10 ∧ provs.Nodup := by
  unfold validateRequest at h
  repeat' (split at h)
  all_goals first
    | (simp at h; done)
    | (rename_i h1 _ h3 h4 _ _ _
       refine ⟨by simpa using h1, ?_, ?_, ?_⟩
       · cases hp : provs.isEmpty with
         | false => rfl
         | true => exact absurd (Or.inl hp) h3
       · by_cases hl : provs.length > 10
         · exact absurd (Or.inr hl) h3
         · omega
       · by_cases hn : provs.Nodup
         · exact hn
         · exact absurd hn h4)

theorem createCtx_new (s : State) (id : CtxId) (mod : ModName) (svc : SvcName) (provs : List Addr) (cons : Addr)
    (cap : Option Nat) (timeout : Int) (super rep : Bool) (freq : Nat) (total : Int) (inputOk running : Bool) (thr : Nat)
    (hv : mod = "" → validateRequest svc cap provs timeout rep freq total = none) (hcons : cons ≠ "") :
    ∀ y, Map.get (createCtx s id mod svc provs cons cap timeout super rep freq total inputOk running thr).1.ctxs id = some y →
      Map.get s.ctxs id = some y ∨ (y.batch = 0 ∧ ctxFieldsOK y = true) := by
  intro y hy
  unfold createCtx at hy
  cases hp : createPre s mod svc provs cap timeout rep freq total thr with
  | some e => rw [hp] at hy; left; exact hy
  | none =>
    rw [hp] at hy; dsimp only at hy
    have hvr : validateRequest svc cap provs timeout rep freq total = none := by
      by_cases hm : mod = ""
      · exact hv hm
      · exact createPre_none hp hm
    obtain ⟨v1, v2, v3, v4⟩ := validateRequest_fields hvr
    split at hy; · left; exact hy
    split at hy; · left; exact hy
    cases cap with
    | none => left; exact hy
    | some capv =>
      dsimp only at hy
      split at hy; · left; exact hy
      rename_i hcap
      split at hy; · left; exact hy
      right
      have hrec : y = newCtxRec mod svc provs cons capv timeout super rep freq total running thr := by
        cases running <;> (simp only [setCtx, addNewQ, Bool.false_eq_true, if_false, if_true] at hy
                           rw [Map.get_set_same] at hy; injection hy with hy; exact hy.symm)
      subst hrec
      refine ⟨rfl, ?_⟩
      unfold ctxFieldsOK newCtxRec
      simp only [Bool.and_eq_true, Bool.not_eq_true', decide_eq_true_eq, ne_eq]
      exact ⟨⟨⟨⟨⟨v1, v2⟩, v3⟩, v4⟩, hcons⟩, by omega⟩

/-- Over any well-formed step, every context present afterwards either was created by this very step (its id was
    never used before) or evolved from the context with the same id: its service, consumer, super-mode flag, repeat
    flag and owning module are unchanged, its batch counter did not decrease, and `completed` is final. -/
theorem step_ctx_origin {s : State} (h : Inv s) (op : Op) (hw : WF s op)
    (c : CtxId) (y : Ctx) (hy : Map.get (step s op).1.ctxs c = some y) :
    (∃ x, Map.get s.ctxs c = some x ∧ CtxEvol x y) ∨ (c ∉ s.usedIds ∧ y.batch = 0 ∧ ctxFieldsOK y = true) := by
  rcases step_state s op with h1 | ⟨h1, h2, hvb⟩
  · rw [h1] at hy; left; exact ⟨y, hy, CtxEvol.refl y⟩
  · rw [h1] at hy
    have key : CtxsEvol s (exec s op).1 ∨ (∃ id, id ∉ s.usedIds ∧ (∀ c2, c2 ≠ id → Map.get (exec s op).1.ctxs c2 = Map.get s.ctxs c2) ∧
          (∀ y, Map.get (exec s op).1.ctxs id = some y → Map.get s.ctxs id = some y ∨ (y.batch = 0 ∧ ctxFieldsOK y = true))) := by
      cases op with
      | fund a n => left; exact ctxsEvol_of_eq rfl
      | xfer a b n =>
        left
        show CtxsEvol s (match bankSend s.bank a b n with
          | none => fail s Err.insufficientFunds
          | some bank' => ({ s with bank := bank' }, Res.ok, [])).1
        cases bankSend s.bank a b n <;> exact ctxsEvol_of_eq rfl
      | define n a ok => left; show CtxsEvol s (define s n a).1; unfold define; split <;> exact ctxsEvol_of_eq rfl
      | bind svc pv o dep text qos =>
        left
        show CtxsEvol s (match text with
          | some t => bind s svc pv o dep t qos
          | none => (s, Res.invalid, [])).1
        cases text with
        | none => exact CtxsEvol.refl s
        | some t => exact ctxsEvol_of_eq (bind_frame s svc pv o dep t qos).2.2.2.1
      | update svc pv o dep text qos => left; exact ctxsEvol_of_eq (update_frame s svc pv o dep text qos).2.2.2.1
      | setwd o a => left; exact ctxsEvol_of_eq rfl
      | disable svc pv o => left; exact ctxsEvol_of_eq (disable_frame s svc pv o).2.2.2.1
      | enable svc pv o dep => left; exact ctxsEvol_of_eq (enable_frame s svc pv o dep).2.2.2.1
      | refund svc pv o => left; exact ctxsEvol_of_eq (refund_frame s svc pv o).2.2.2.1
      | call id svc provs cons cap timeout super rep freq total inputOk =>
        right
        obtain ⟨_, hfresh, hms⟩ : ¬ s.modAcct cons ∧ id ∉ s.usedIds ∧ s.cfg.modsvc ≠ some svc := hw
        refine ⟨id, hfresh, ?_, ?_⟩
        · show ∀ c2, c2 ≠ id → Map.get (if s.cfg.modsvc = some svc then panicOut s "module-service call: outside the model"
            else createCtx s id "" svc provs cons cap timeout super rep freq total inputOk true 0).1.ctxs c2 = _
          rw [if_neg hms]
          exact createCtx_ctxs s id "" svc provs cons cap timeout super rep freq total inputOk true 0
        · show ∀ y, Map.get (if s.cfg.modsvc = some svc then panicOut s "module-service call: outside the model"
            else createCtx s id "" svc provs cons cap timeout super rep freq total inputOk true 0).1.ctxs id = some y → _
          rw [if_neg hms]
          have hvb' : callVB svc provs cons cap timeout rep freq total = true := hvb
          unfold callVB at hvb'
          simp only [Bool.and_eq_true, decide_eq_true_eq, ne_eq] at hvb'
          refine createCtx_new s id "" svc provs cons cap timeout super rep freq total inputOk true 0 (fun _ => ?_) (by simpa using hvb'.1)
          cases hvq : validateRequest svc cap provs timeout rep freq total with
          | none => rfl
          | some e => have := hvb'.2; rw [hvq] at this; simp at this
      | modcreate id mod svc provs cons cap timeout super rep freq total inputOk running thr =>
        right
        obtain ⟨_, hfresh, hmodne, hconsne⟩ : ¬ s.modAcct cons ∧ id ∉ s.usedIds ∧ mod ≠ "" ∧ cons ≠ "" := hw
        exact ⟨id, hfresh, createCtx_ctxs s id mod svc provs cons cap timeout super rep freq total inputOk running thr,
          createCtx_new s id mod svc provs cons cap timeout super rep freq total inputOk running thr
            (fun e => absurd e hmodne) hconsne⟩
      | respond r pv code out => left; exact respond_evol s r pv code out
      | pause c2 cons => left; show CtxsEvol s (ctxMsg s c2 cons _).1; unfold ctxMsg; split; exact CtxsEvol.refl s; exact pauseK_evol s c2 cons
      | start c2 cons => left; show CtxsEvol s (ctxMsg s c2 cons _).1; unfold ctxMsg; split; exact CtxsEvol.refl s; exact startK_evol s c2 cons
      | kill c2 cons => left; show CtxsEvol s (ctxMsg s c2 cons _).1; unfold ctxMsg; split; exact CtxsEvol.refl s; exact killK_evol s c2 cons
      | updatectx c2 cons provs cap timeout freq total =>
        left; show CtxsEvol s (ctxMsg s c2 cons _).1; unfold ctxMsg; split; exact CtxsEvol.refl s
        have hvb' : updatectxVB cons provs cap timeout freq total = true := hvb
        unfold updatectxVB at hvb'
        simp only [Bool.and_eq_true] at hvb'
        refine updateK_evol s c2 cons provs 0 cap timeout freq total ?_
        cases hvq : validateCtxUpdate provs cap timeout freq total with
        | none => rfl
        | some e => have := hvb'.2; rw [hvq] at this; simp at this
      | modpause c2 cons => left; exact pauseK_evol s c2 cons
      | modstart c2 cons => left; exact startK_evol s c2 cons
      | modkill c2 cons => left; exact killK_evol s c2 cons
      | modupdate c2 cons provs thr cap timeout freq total => left; exact updateK_evol s c2 cons provs thr cap timeout freq total hw
      | withdraw o pv =>
        left
        apply ctxsEvol_of_eq
        show (withdraw s o pv).1.ctxs = s.ctxs
        unfold withdraw
        split; · rfl
        cases hwr : withdrawRecords s o pv with
        | error r => rfl
        | ok res =>
          obtain ⟨s1, amt⟩ := res
          dsimp only
          have hc1 : s1.ctxs = s.ctxs := by
            unfold withdrawRecords at hwr
            repeat' split at hwr
            all_goals first
              | (simp at hwr; done)
              | (simp only [Except.ok.injEq, Prod.mk.injEq] at hwr; rw [← hwr.1])
          split; · rfl
          cases bankSend s1.bank s.cfg.escrow ((Map.get s.withdraw o).getD o) amt with
          | none => rfl
          | some bank' => exact hc1
      | endblock dt =>
        left
        show CtxsEvol s (match (endBlock s dt).panic with
          | some m => (s, Res.panic m, (endBlock s dt).effs)
          | none => ((endBlock s dt).s, Res.ok, (endBlock s dt).effs)).1
        rcases Option.eq_none_or_eq_some (endBlock s dt).panic with hp | ⟨m, hp⟩
        · simp only [hp]; exact endBlock_evol s dt h hp
        · simp only [hp]; exact CtxsEvol.refl s
    rcases key with k | ⟨id, hfresh, hsame, hnew⟩
    · left; exact k c y hy
    · by_cases hcid : c = id
      · subst hcid
        rcases hnew y hy with hold | hb
        · left; exact ⟨y, hold, CtxEvol.refl y⟩
        · right; exact ⟨hfresh, hb.1, hb.2⟩
      · left; rw [hsame c hcid] at hy; exact ⟨y, hy, CtxEvol.refl y⟩


/-- C10: in every reachable state a repeated context with a positive total has had at most `total` batches -/
theorem totBounded {cfg : Config} {p : Params} {h0 t0 : Int} (hc : CfgOK cfg p) {s : State}
    (hr : Reachable cfg p h0 t0 s) : ∀ c x, Map.get s.ctxs c = some x → TotBound x := by
  induction hr with
  | init => intro c x hx; simp [genesis, Map.get] at hx
  | @step s op hr' hw ih =>
    intro c y hy
    rcases step_ctx_origin (reachable_inv hc hr') op hw c y hy with ⟨x, hx, he⟩ | ⟨_, hb, _⟩
    · exact he.bnd (ih c x hx)
    · intro _ hpos; rw [hb]; exact Int.le_of_lt hpos

/-- C19: in every reachable state every stored context is valid on its own (`RequestContext.Validate`) -/
theorem ctxsFieldsOK {cfg : Config} {p : Params} {h0 t0 : Int} (hc : CfgOK cfg p) {s : State}
    (hr : Reachable cfg p h0 t0 s) : ∀ c x, Map.get s.ctxs c = some x → ctxFieldsOK x = true := by
  induction hr with
  | init => intro c x hx; simp [genesis, Map.get] at hx
  | @step s op hr' hw ih =>
    intro c y hy
    rcases step_ctx_origin (reachable_inv hc hr') op hw c y hy with ⟨x, hx, he⟩ | ⟨_, _, hf⟩
    · exact he.fields (ih c x hx)
    · exact hf

end SM
