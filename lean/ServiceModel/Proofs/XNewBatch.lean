import ServiceModel.Proofs.XExpire
/-!
# The invocation world when a new batch starts (issued or skipped), and the other outcomes of the
new-batch handler
-/
namespace SM
open Map

variable {cfg : Config} {height : Int} {ctxs : Map CtxId Ctx} {expQ newQ : FSet (Int × CtxId)}
  {expH newH : Map CtxId Int} {usedIds : List CtxId} {reqs : Map ReqId Req}
  {activeB : FSet (SvcName × Addr × Int × ReqId)} {activeI : FSet ReqId} {resps : Map ReqId Resp}

/-- facts about a context that is due for a new batch: nothing of an earlier batch is left -/
theorem XInv.dueFacts {c : CtxId} {x : Ctx}
    (h : XInv cfg height ctxs expQ newQ expH newH usedIds reqs activeB activeI resps)
    (hx : Map.get ctxs c = some x) (hdue : Map.get newH c = some height) :
    Map.get expH c = none ∧ x.bstate = .completed ∧
    (∀ r q, Map.get reqs r = some q → r.ctx ≠ c) ∧ (∀ r, r ∈ activeI → r.ctx ≠ c) := by
  have he : Map.get expH c = none := by
    rcases h.single c with hn | he
    · rw [hn] at hdue; simp at hdue
    · exact he
  have hb : x.bstate = .completed := by
    cases hbs : x.bstate with
    | completed => rfl
    | running => have := h.bRunExp c x hx hbs; rw [he] at this; simp at this
  have hr : ∀ r q, Map.get reqs r = some q → r.ctx ≠ c := by
    intro r q hq hc
    obtain ⟨y, _, _, hexp⟩ := h.reqCtx r q hq
    rw [hc, he] at hexp; simp at hexp
  refine ⟨he, hb, hr, ?_⟩
  intro r hr2
  cases hq : Map.get reqs r with
  | none => have := h.activeReq r hr2; rw [hq] at this; simp at this
  | some q => exact hr r q hq

/-- the queue entry of a due context is dropped and nothing else happens (the context is not running) -/
theorem XInv.dropNew {c : CtxId} {x : Ctx}
    (h : XInv cfg height ctxs expQ newQ expH newH usedIds reqs activeB activeI resps)
    (hx : Map.get ctxs c = some x) (hdue : Map.get newH c = some height) (hnr : x.state ≠ .running) :
    XInv cfg height ctxs expQ (FSet.rem newQ (height, c)) expH (Map.del newH c) usedIds reqs activeB activeI resps := by
  refine { h with newMirror := ?_, single := ?_, newFuture := ?_, runningQ := ?_ }
  · intro hh c2
    simp only [FSet.mem_rem, ne_eq, Prod.mk.injEq, not_and]
    rw [Map.get_del, h.newMirror]
    by_cases hc : c = c2
    · subst hc
      simp only [if_true]
      constructor
      · rintro ⟨hm, hne⟩
        rw [hdue] at hm; injection hm with hm
        exact absurd trivial (hne hm.symm)
      · intro hf; cases hf
    · simp only [hc, if_false]
      constructor
      · rintro ⟨hm, _⟩; exact hm
      · intro hm; exact ⟨hm, fun _ e => hc e.symm⟩
  · intro c2
    rw [Map.get_del]
    by_cases hc : c = c2
    · subst hc; left; simp
    · simp only [hc, if_false]; exact h.single c2
  · intro c2 hh hh2
    exact h.newFuture c2 hh (Map.get_del_some hh2).2
  · intro c2 y hy hr
    by_cases hc : c = c2
    · subst hc; rw [hx] at hy; injection hy with hy; subst hy; exact absurd hr hnr
    · rw [Map.get_del_other _ _ _ hc]; exact h.runningQ c2 y hy hr

/-- a due context that cannot pay: paused, batch completed, queue entry dropped -/
theorem XInv.pauseNew {c : CtxId} {x x' : Ctx}
    (h : XInv cfg height ctxs expQ newQ expH newH usedIds reqs activeB activeI resps)
    (hx : Map.get ctxs c = some x) (hdue : Map.get newH c = some height)
    (hx' : x' = { x with bstate := .completed, state := .paused }) :
    XInv cfg height (Map.set ctxs c x') expQ (FSet.rem newQ (height, c)) expH (Map.del newH c) usedIds
      reqs activeB activeI resps := by
  obtain ⟨_, hb, _, _⟩ := h.dueFacts hx hdue
  subst hx'
  have hcore : sameCore { x with bstate := .completed, state := .paused } x := ⟨rfl, rfl, rfl, hb.symm, rfl, rfl⟩
  have hwf : ctxOK { x with bstate := .completed, state := .paused } := h.ctxWF c x hx
  have h1 := XInv.setCtx h hx hcore hwf (by intro hr; cases hr)
  exact XInv.dropNew h1 (Map.get_set_same _ _ _) hdue (by simp)

/-- a due context whose total is reached is removed together with its queue entry -/
theorem XInv.finishNew {c : CtxId} {x : Ctx}
    (h : XInv cfg height ctxs expQ newQ expH newH usedIds reqs activeB activeI resps)
    (hx : Map.get ctxs c = some x) (hdue : Map.get newH c = some height) :
    XInv cfg height (Map.del ctxs c) expQ (FSet.rem newQ (height, c)) expH (Map.del newH c) usedIds
      reqs activeB activeI resps := by
  obtain ⟨he, hb, hr, _⟩ := h.dueFacts hx hdue
  -- park the context as paused, drop the entry, then delete it
  have hcore : sameCore { x with state := .paused } x := ⟨rfl, rfl, rfl, rfl, rfl, rfl⟩
  have h1 := XInv.setCtx (x' := { x with state := .paused }) h hx hcore (h.ctxWF c x hx) (by intro hr; cases hr)
  have h2 := XInv.dropNew h1 (Map.get_set_same _ _ _) hdue (by simp)
  have h3 := XInv.delCtx (c := c) h2 (Map.get_del_same _ _) he hr
  have : Map.del (Map.set ctxs c { x with state := .paused }) c = Map.del ctxs c := by
    clear h1 h2 h3 hcore hr hb he hdue h
    induction ctxs with
    | nil => simp [Map.set, Map.del]
    | cons hd t ih =>
      obtain ⟨k, v⟩ := hd
      by_cases hk : k = c
      · subst hk; simp [Map.set, Map.del]
      · simp only [Map.get, hk, if_false] at hx
        simp [Map.set, Map.del, hk, ih hx]
  rw [this] at h3
  exact h3

end SM

namespace SM
open Map

variable {cfg : Config} {height : Int} {ctxs : Map CtxId Ctx} {expQ newQ : FSet (Int × CtxId)}
  {expH newH : Map CtxId Int} {usedIds : List CtxId} {reqs : Map ReqId Req}
  {activeB : FSet (SvcName × Addr × Int × ReqId)} {activeI : FSet ReqId} {resps : Map ReqId Resp}

/-- a new batch starts for a due running context: `newIds` request records (none for a skipped
    batch) with their markers, the counter advanced, the expiry queued, the new-batch entry consumed -/
theorem XInv.startBatch {c : CtxId} {x x' : Ctx}
    {reqs' : Map ReqId Req} {activeB' : FSet (SvcName × Addr × Int × ReqId)} {activeI' : FSet ReqId}
    (newIds : List ReqId) (qOf : ReqId → Req)
    (h : XInv cfg height ctxs expQ newQ expH newH usedIds reqs activeB activeI resps)
    (hx : Map.get ctxs c = some x) (hdue : Map.get newH c = some height)
    (hc1 : x'.cons = x.cons) (hc2 : x'.svc = x.svc) (hc3 : x'.batch = x.batch + 1)
    (hc4 : x'.bstate = .running) (hc5 : x'.respN = 0) (hc6 : x'.reqN = newIds.length)
    (hc7 : x'.timeout = x.timeout) (hc8 : x'.rep = x.rep) (hc9 : x'.freq = x.freq)
    (hids : ∀ r, r ∈ newIds → r.ctx = c ∧ r.batch = x.batch + 1 ∧ (qOf r).expH = height + x.timeout)
    (hreqs : ∀ r, Map.get reqs' r = if r ∈ newIds then some (qOf r) else Map.get reqs r)
    (hAI : ∀ r, r ∈ activeI' ↔ r ∈ activeI ∨ r ∈ newIds)
    (hAIn : activeI'.Nodup)
    (hAIc : (activeI'.filter (fun r => r.ctx = c)).length = newIds.length)
    (hAIf : ∀ c2, c2 ≠ c → activeI'.filter (fun r => r.ctx = c2) = activeI.filter (fun r => r.ctx = c2))
    (hAB : ∀ t, t ∈ activeB' ↔ t ∈ activeB ∨ ∃ r, r ∈ newIds ∧ t = (x.svc, (qOf r).prov, (qOf r).expH, r)) :
    XInv cfg height (Map.set ctxs c x') (FSet.ins expQ (height + x.timeout, c)) (FSet.rem newQ (height, c))
      (Map.set expH c (height + x.timeout)) (Map.del newH c) usedIds reqs' activeB' activeI' resps := by
  obtain ⟨he, hb, hrq, hact⟩ := h.dueFacts hx hdue
  have hwfx := h.ctxWF c x hx
  have hget : ∀ c2 y, Map.get (Map.set ctxs c x') c2 = some y →
      (c2 = c ∧ y = x') ∨ (c2 ≠ c ∧ Map.get ctxs c2 = some y) := by
    intro c2 y hy
    rw [Map.get_set] at hy
    by_cases hc : c = c2
    · subst hc; simp at hy; left; exact ⟨rfl, hy.symm⟩
    · simp [hc] at hy; right; exact ⟨fun e => hc e.symm, hy⟩
  have hsome : ∀ c2, (Map.get (Map.set ctxs c x') c2).isSome = (Map.get ctxs c2).isSome := by
    intro c2
    rw [Map.get_set]
    by_cases hc : c = c2
    · subst hc; simp [hx]
    · simp [hc]
  have hold : ∀ r, r.ctx ≠ c → r ∉ newIds := fun r hne hm => hne (hids r hm).1
  refine { ctxWF := ?_, ctxCons := ?_, newMirror := ?_, expMirror := ?_, single := ?_, newFuture := ?_,
           expFuture := ?_, runningQ := ?_, used := ?_, reqCtx := ?_, activeReq := ?_, activeMirror := ?_,
           respReq := ?_, activeNodup := hAIn, bRunExp := ?_, activeRunning := ?_, counts := ?_ }
  · intro c2 y hy
    rcases hget c2 y hy with ⟨_, rfl⟩ | ⟨_, hy'⟩
    · rw [hc7, hc8, hc9]; exact hwfx
    · exact h.ctxWF c2 y hy'
  · intro c2 y hy
    rcases hget c2 y hy with ⟨_, rfl⟩ | ⟨_, hy'⟩
    · rw [hc1]; exact h.ctxCons _ x hx
    · exact h.ctxCons c2 y hy'
  · intro hh c2
    simp only [FSet.mem_rem, ne_eq, Prod.mk.injEq, not_and]
    rw [Map.get_del, h.newMirror]
    by_cases hc : c = c2
    · subst hc
      simp only [if_true]
      constructor
      · rintro ⟨hm, hne⟩
        rw [hdue] at hm; injection hm with hm
        exact absurd trivial (hne hm.symm)
      · intro hf; cases hf
    · simp only [hc, if_false]
      constructor
      · rintro ⟨hm, _⟩; exact hm
      · intro hm; exact ⟨hm, fun _ e => hc e.symm⟩
  · intro hh c2
    simp only [FSet.mem_ins, Prod.mk.injEq, Map.get_set]
    by_cases hc : c = c2
    · subst hc
      simp only [and_true, if_true, Option.some.injEq]
      constructor
      · rintro (h3 | h3)
        · exact h3.symm
        · have := (h.expMirror hh c).mp h3; rw [he] at this; simp at this
      · intro h3; left; exact h3.symm
    · have : ¬ c2 = c := fun e => hc e.symm
      simp only [this, and_false, false_or, hc, if_false]
      exact h.expMirror hh c2
  · intro c2
    rw [Map.get_del, Map.get_set]
    by_cases hc : c = c2
    · subst hc; left; simp
    · simp only [hc, if_false]; exact h.single c2
  · intro c2 hh hh2
    have := h.newFuture c2 hh (Map.get_del_some hh2).2
    exact ⟨this.1, by rw [hsome]; exact this.2⟩
  · intro c2 hh hh2
    rw [Map.get_set] at hh2
    by_cases hc : c = c2
    · subst hc; simp at hh2; subst hh2
      exact ⟨by have := hwfx.1; omega, by rw [hsome, hx]; rfl⟩
    · simp [hc] at hh2
      have := h.expFuture c2 hh hh2
      exact ⟨this.1, by rw [hsome]; exact this.2⟩
  · intro c2 y hy hr
    rcases hget c2 y hy with ⟨hc, rfl⟩ | ⟨hne, hy'⟩
    · subst hc; right; simp
    · rw [Map.get_del_other _ _ _ (fun e => hne e.symm), Map.get_set_other _ _ _ _ (fun e => hne e.symm)]
      exact h.runningQ c2 y hy' hr
  · intro c2 hc2
    rw [hsome] at hc2; exact h.used c2 hc2
  · intro r q hq
    rw [hreqs] at hq
    by_cases hm : r ∈ newIds
    · rw [if_pos hm] at hq; injection hq with hq; subst hq
      obtain ⟨i1, i2, i3⟩ := hids r hm
      exact ⟨x', by rw [i1]; simp, by rw [i2, hc3], by rw [i1, i3]; simp⟩
    · rw [if_neg hm] at hq
      obtain ⟨y, hy, hb2, he2⟩ := h.reqCtx r q hq
      have hne := hrq r q hq
      exact ⟨y, by rw [Map.get_set_other _ _ _ _ (fun e => hne e.symm)]; exact hy, hb2,
             by rw [Map.get_set_other _ _ _ _ (fun e => hne e.symm)]; exact he2⟩
  · intro r hr
    rw [hreqs]
    by_cases hm : r ∈ newIds
    · rw [if_pos hm]; rfl
    · rw [if_neg hm]
      rcases (hAI r).mp hr with h1 | h1
      · exact h.activeReq r h1
      · exact absurd h1 hm
  · intro svc p e r
    rw [hAB, hAI, h.activeMirror]
    constructor
    · rintro (⟨hr, q, y, hq, hy, rest⟩ | ⟨r2, hm, ht⟩)
      · have hne := hact r hr
        exact ⟨Or.inl hr, q, y, by rw [hreqs, if_neg (hold r hne)]; exact hq,
               by rw [Map.get_set_other _ _ _ _ (fun e => hne e.symm)]; exact hy, rest⟩
      · injection ht with t1 ht; injection ht with t2 ht; injection ht with t3 t4
        subst t4
        refine ⟨Or.inr hm, qOf r, x', by rw [hreqs, if_pos hm], by rw [(hids r hm).1]; simp, ?_, t2, t3⟩
        rw [t1, hc2]
    · rintro ⟨hr, q, y, hq, hy, e1, e2, e3⟩
      by_cases hm : r ∈ newIds
      · right
        rw [hreqs, if_pos hm] at hq; injection hq with hq; subst hq
        rw [(hids r hm).1] at hy
        simp at hy; subst hy
        exact ⟨r, hm, by rw [e1, e2, e3, hc2]⟩
      · left
        have hr' : r ∈ activeI := by
          rcases hr with h1 | h1
          · exact h1
          · exact absurd h1 hm
        have hne := hact r hr'
        rw [hreqs, if_neg hm] at hq
        rw [Map.get_set_other _ _ _ _ (fun e => hne e.symm)] at hy
        exact ⟨hr', q, y, hq, hy, e1, e2, e3⟩
  · intro r hr
    have := h.respReq r hr
    cases hq : Map.get reqs r with
    | none => rw [hq] at this; simp at this
    | some q =>
      have hne := hrq r q hq
      refine ⟨by rw [hreqs, if_neg (hold r hne), hq]; rfl, fun hm => ?_⟩
      rcases (hAI r).mp hm with h1 | h1
      · exact this.2 h1
      · exact hold r hne h1
  · intro c2 y hy hbb
    rw [Map.get_set]
    rcases hget c2 y hy with ⟨hc, rfl⟩ | ⟨hne, hy'⟩
    · subst hc; simp
    · have : ¬ c = c2 := fun e => hne e.symm
      simp only [this, if_false]; exact h.bRunExp c2 y hy' hbb
  · intro r hr
    rcases (hAI r).mp hr with h1 | h1
    · obtain ⟨y, hy, hyb⟩ := h.activeRunning r h1
      have hne := hact r h1
      exact ⟨y, by rw [Map.get_set_other _ _ _ _ (fun e => hne e.symm)]; exact hy, hyb⟩
    · exact ⟨x', by rw [(hids r h1).1]; simp, hc4⟩
  · intro c2 y hy hbb
    rcases hget c2 y hy with ⟨hc, rfl⟩ | ⟨hne, hy'⟩
    · subst hc; rw [hAIc, hc5, hc6]; simp
    · rw [hAIf c2 hne]; exact h.counts c2 y hy' hbb

end SM
