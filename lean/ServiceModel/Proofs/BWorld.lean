import ServiceModel.Proofs.Shapes
/-!
# The bindings world: `BInv` is preserved by every operation
-/
namespace SM
open Map

theorem valAt_eq_of_get {κ ν} [DecidableEq κ] (f : ν → Nat) (m : Map κ ν) (k : κ) (v : ν) (h : Map.get m k = some v) :
    Map.valAt f m k = f v := by simp [Map.valAt, h]

theorem valAt_eq_zero {κ ν} [DecidableEq κ] (f : ν → Nat) (m : Map κ ν) (k : κ) (h : Map.get m k = none) :
    Map.valAt f m k = 0 := by simp [Map.valAt, h]

variable {cfg : Config} {params : Params} {depBal : Nat} {defs : Map SvcName Definition}
  {bindings : Map (SvcName × Addr) Binding} {ownerBind : FSet (Addr × SvcName × Addr)}
  {owner : Map Addr Addr} {ownerProv : FSet (Addr × Addr)} {pricing : Map (SvcName × Addr) Pricing}

/-- replacing a binding by one with the same owner and text -/
theorem BInv.updateBinding
    (h : BInv cfg params depBal defs bindings ownerBind owner ownerProv pricing)
    {k : SvcName × Addr} {b b' : Binding} {depBal' : Nat}
    (hk : Map.get bindings k = some b) (hown : b'.owner = b.owner) (htext : b'.text = b.text)
    (hbal : depBal' + b.deposit = depBal + b'.deposit)
    (hmin : b'.avail = true → ∃ p md, Map.get pricing k = some p ∧ minDeposit params p = some md ∧ md ≤ b'.deposit) :
    BInv cfg params depBal' defs (Map.set bindings k b') ownerBind owner ownerProv pricing := by
  have hget : ∀ k2 b2, Map.get (Map.set bindings k b') k2 = some b2 →
      (k2 = k ∧ b2 = b') ∨ (k2 ≠ k ∧ Map.get bindings k2 = some b2) := by
    intro k2 b2 h2
    rw [Map.get_set] at h2
    by_cases hkk : k = k2
    · subst hkk; simp at h2; left; exact ⟨rfl, h2.symm⟩
    · simp [hkk] at h2; right; exact ⟨fun e => hkk e.symm, h2⟩
  refine { backed := ?_, ownerOk := ?_, ownerOf := ?_, provIdx := h.provIdx, bindIdx := ?_, priced := ?_,
           pricingOnly := ?_, defined := ?_, ownerHas := ?_, minDep := ?_ }
  · have := Map.total_set (fun b : Binding => b.deposit) bindings k b'
    rw [valAt_eq_of_get _ _ _ _ hk] at this
    have hb := h.backed
    omega
  · intro k2 b2 h2
    rcases hget k2 b2 h2 with ⟨rfl, rfl⟩ | ⟨_, h3⟩
    · rw [hown]; exact h.ownerOk _ _ hk
    · exact h.ownerOk _ _ h3
  · intro svc p b2 h2
    rcases hget _ b2 h2 with ⟨hk2, rfl⟩ | ⟨_, h3⟩
    · rw [hown]; subst hk2; exact h.ownerOf _ _ _ hk
    · exact h.ownerOf _ _ _ h3
  · intro o svc p
    rw [h.bindIdx]
    constructor
    · rintro ⟨b2, h2, ho⟩
      by_cases hkk : k = (svc, p)
      · subst hkk; rw [hk] at h2; injection h2 with h2; subst h2
        exact ⟨b', by simp, by rw [hown]; exact ho⟩
      · exact ⟨b2, by rw [Map.get_set_other _ _ _ _ hkk]; exact h2, ho⟩
    · rintro ⟨b2, h2, ho⟩
      rcases hget _ b2 h2 with ⟨hk2, rfl⟩ | ⟨_, h3⟩
      · subst hk2; exact ⟨b, hk, by rw [← hown]; exact ho⟩
      · exact ⟨b2, h3, ho⟩
  · intro k2 b2 h2
    rcases hget k2 b2 h2 with ⟨rfl, rfl⟩ | ⟨_, h3⟩
    · rw [htext]; exact h.priced _ _ hk
    · exact h.priced _ _ h3
  · intro k2 h2
    have := h.pricingOnly k2 h2
    by_cases hkk : k = k2
    · subst hkk; simp
    · rw [Map.get_set_other _ _ _ _ hkk]; exact this
  · intro svc p h2
    by_cases hkk : k = (svc, p)
    · subst hkk; exact h.defined svc p (by rw [hk]; rfl)
    · rw [Map.get_set_other _ _ _ _ hkk] at h2; exact h.defined svc p h2
  · intro p o ho
    obtain ⟨svc, hs⟩ := h.ownerHas p o ho
    refine ⟨svc, ?_⟩
    by_cases hkk : k = (svc, p)
    · subst hkk; simp
    · rw [Map.get_set_other _ _ _ _ hkk]; exact hs
  · intro k2 b2 h2 hav
    rcases hget k2 b2 h2 with ⟨rfl, rfl⟩ | ⟨_, h3⟩
    · exact hmin hav
    · exact h.minDep _ _ h3 hav

/-- only the deposit-account balance is restated (a bank move that does not touch it) -/
theorem BInv.sameBal
    (h : BInv cfg params depBal defs bindings ownerBind owner ownerProv pricing) {depBal' : Nat}
    (hb : depBal' = depBal) :
    BInv cfg params depBal' defs bindings ownerBind owner ownerProv pricing := by
  subst hb; exact h

end SM

namespace SM
open Map

variable {cfg : Config} {params : Params} {depBal : Nat} {defs : Map SvcName Definition}
  {bindings : Map (SvcName × Addr) Binding} {ownerBind : FSet (Addr × SvcName × Addr)}
  {owner : Map Addr Addr} {ownerProv : FSet (Addr × Addr)} {pricing : Map (SvcName × Addr) Pricing}

/-- replacing a binding and its price terms together (same owner; the new text parses to the new terms) -/
theorem BInv.updateBindingPricing
    (h : BInv cfg params depBal defs bindings ownerBind owner ownerProv pricing)
    {k : SvcName × Addr} {b b' : Binding} {p' : Pricing} {depBal' : Nat}
    (hk : Map.get bindings k = some b) (hown : b'.owner = b.owner)
    (htext : parsePricing b'.text = .ok p' ∧ validPricing p' = true)
    (hbal : depBal' + b.deposit = depBal + b'.deposit)
    (hmin : b'.avail = true → ∃ md, minDeposit params p' = some md ∧ md ≤ b'.deposit) :
    BInv cfg params depBal' defs (Map.set bindings k b') ownerBind owner ownerProv (Map.set pricing k p') := by
  have hget : ∀ k2 b2, Map.get (Map.set bindings k b') k2 = some b2 →
      (k2 = k ∧ b2 = b') ∨ (k2 ≠ k ∧ Map.get bindings k2 = some b2) := by
    intro k2 b2 h2
    rw [Map.get_set] at h2
    by_cases hkk : k = k2
    · subst hkk; simp at h2; left; exact ⟨rfl, h2.symm⟩
    · simp [hkk] at h2; right; exact ⟨fun e => hkk e.symm, h2⟩
  -- first the binding with the old terms restated, then the terms
  refine { backed := ?_, ownerOk := ?_, ownerOf := ?_, provIdx := h.provIdx, bindIdx := ?_, priced := ?_,
           pricingOnly := ?_, defined := ?_, ownerHas := ?_, minDep := ?_ }
  · have := Map.total_set (fun b : Binding => b.deposit) bindings k b'
    rw [valAt_eq_of_get _ _ _ _ hk] at this
    have hb := h.backed
    omega
  · intro k2 b2 h2
    rcases hget k2 b2 h2 with ⟨rfl, rfl⟩ | ⟨_, h3⟩
    · rw [hown]; exact h.ownerOk _ _ hk
    · exact h.ownerOk _ _ h3
  · intro svc p b2 h2
    rcases hget _ b2 h2 with ⟨hk2, rfl⟩ | ⟨_, h3⟩
    · rw [hown]; subst hk2; exact h.ownerOf _ _ _ hk
    · exact h.ownerOf _ _ _ h3
  · intro o svc p
    rw [h.bindIdx]
    constructor
    · rintro ⟨b2, h2, ho⟩
      by_cases hkk : k = (svc, p)
      · subst hkk; rw [hk] at h2; injection h2 with h2; subst h2
        exact ⟨b', by simp, by rw [hown]; exact ho⟩
      · exact ⟨b2, by rw [Map.get_set_other _ _ _ _ hkk]; exact h2, ho⟩
    · rintro ⟨b2, h2, ho⟩
      rcases hget _ b2 h2 with ⟨hk2, rfl⟩ | ⟨_, h3⟩
      · subst hk2; exact ⟨b, hk, by rw [← hown]; exact ho⟩
      · exact ⟨b2, h3, ho⟩
  · intro k2 b2 h2
    rcases hget k2 b2 h2 with ⟨rfl, rfl⟩ | ⟨hne, h3⟩
    · exact ⟨p', by simp, htext.1, htext.2⟩
    · obtain ⟨p, hp, hp2⟩ := h.priced _ _ h3
      exact ⟨p, by rw [Map.get_set_other _ _ _ _ (fun e => hne e.symm)]; exact hp, hp2⟩
  · intro k2 h2
    by_cases hkk : k = k2
    · subst hkk; simp
    · rw [Map.get_set_other _ _ _ _ hkk] at h2 ⊢; exact h.pricingOnly k2 h2
  · intro svc p h2
    by_cases hkk : k = (svc, p)
    · subst hkk; exact h.defined svc p (by rw [hk]; rfl)
    · rw [Map.get_set_other _ _ _ _ hkk] at h2; exact h.defined svc p h2
  · intro p o ho
    obtain ⟨svc, hs⟩ := h.ownerHas p o ho
    refine ⟨svc, ?_⟩
    by_cases hkk : k = (svc, p)
    · subst hkk; simp
    · rw [Map.get_set_other _ _ _ _ hkk]; exact hs
  · intro k2 b2 h2 hav
    rcases hget k2 b2 h2 with ⟨rfl, rfl⟩ | ⟨hne, h3⟩
    · obtain ⟨md, h1, h2⟩ := hmin hav
      exact ⟨p', md, by simp, h1, h2⟩
    · obtain ⟨p, md, hp, hp2⟩ := h.minDep _ _ h3 hav
      exact ⟨p, md, by rw [Map.get_set_other _ _ _ _ (fun e => hne e.symm)]; exact hp, hp2⟩

/-- a new binding (and, for a provider seen for the first time, its owner records) -/
theorem BInv.addBinding
    (h : BInv cfg params depBal defs bindings ownerBind owner ownerProv pricing)
    {svc : SvcName} {prov o : Addr} {b : Binding} {p : Pricing} {d : Nat}
    (hnone : Map.get bindings (svc, prov) = none) (hdef : (Map.get defs svc).isSome)
    (hown : Map.get owner prov = none ∨ Map.get owner prov = some o)
    (hbo : b.owner = o) (hbd : b.deposit = d) (hmod : ¬ isModAcct cfg o)
    (hparse : parsePricing b.text = .ok p) (hvalid : validPricing p = true)
    (hmin : ∃ md, minDeposit params p = some md ∧ md ≤ d) :
    BInv cfg params (depBal + d) defs (Map.set bindings (svc, prov) b) (FSet.ins ownerBind (o, svc, prov))
      (if (Map.get owner prov).isNone then Map.set owner prov o else owner)
      (if (Map.get owner prov).isNone then FSet.ins ownerProv (o, prov) else ownerProv)
      (Map.set pricing (svc, prov) p) := by
  have hget : ∀ k2 b2, Map.get (Map.set bindings (svc, prov) b) k2 = some b2 →
      (k2 = (svc, prov) ∧ b2 = b) ∨ (k2 ≠ (svc, prov) ∧ Map.get bindings k2 = some b2) := by
    intro k2 b2 h2
    rw [Map.get_set] at h2
    by_cases hkk : (svc, prov) = k2
    · subst hkk; simp at h2; left; exact ⟨rfl, h2.symm⟩
    · simp [hkk] at h2; right; exact ⟨fun e => hkk e.symm, h2⟩
  -- the owner map after the step: lookups
  have hown' : ∀ q, Map.get (if (Map.get owner prov).isNone then Map.set owner prov o else owner) q =
      if q = prov then some o else Map.get owner q := by
    intro q
    rcases hown with hn | hs
    · simp only [hn, Option.isNone_none, if_true, Map.get_set]
      by_cases hq : prov = q
      · subst hq; simp
      · have : ¬ q = prov := fun e => hq e.symm
        simp [hq, this]
    · simp only [hs, Option.isNone_some, Bool.false_eq_true, if_false]
      by_cases hq : q = prov
      · subst hq; simp [hs]
      · simp [hq]
  refine { backed := ?_, ownerOk := ?_, ownerOf := ?_, provIdx := ?_, bindIdx := ?_, priced := ?_,
           pricingOnly := ?_, defined := ?_, ownerHas := ?_, minDep := ?_ }
  · have := Map.total_set (fun b : Binding => b.deposit) bindings (svc, prov) b
    rw [valAt_eq_zero _ _ _ hnone] at this
    have hb := h.backed
    rw [hbd] at this
    omega
  · intro k2 b2 h2
    rcases hget k2 b2 h2 with ⟨rfl, rfl⟩ | ⟨_, h3⟩
    · rw [hbo]; exact hmod
    · exact h.ownerOk _ _ h3
  · intro svc2 p2 b2 h2
    rw [hown']
    rcases hget _ b2 h2 with ⟨hk2, rfl⟩ | ⟨hne, h3⟩
    · injection hk2 with h1 h2'; subst h2'; simp [hbo]
    · have := h.ownerOf _ _ _ h3
      by_cases hq : p2 = prov
      · subst hq; simp
        rcases hown with hn | hs
        · rw [hn] at this; simp at this
        · rw [hs] at this; injection this
      · simp [hq, this]
  · intro o2 p2
    rw [hown']
    rcases hown with hn | hs
    · simp only [hn, Option.isNone_none, if_true, FSet.mem_ins, Prod.mk.injEq]
      by_cases hq : p2 = prov
      · subst hq
        simp only [and_true, if_true, Option.some.injEq]
        constructor
        · rintro (h1 | h1)
          · exact h1.symm
          · have := (h.provIdx o2 p2).mp h1; rw [hn] at this; simp at this
        · intro h1; left; exact h1.symm
      · simp only [hq, and_false, false_or, if_false]; exact h.provIdx o2 p2
    · simp only [hs, Option.isNone_some, Bool.false_eq_true, if_false]
      by_cases hq : p2 = prov
      · subst hq; simp only [if_true]; rw [h.provIdx, hs]
      · simp only [hq, if_false]; exact h.provIdx o2 p2
  · intro o2 svc2 p2
    simp only [FSet.mem_ins, Prod.mk.injEq]
    constructor
    · rintro (⟨h1, h2, h3⟩ | h1)
      · subst h1 h2 h3; exact ⟨b, by simp, hbo⟩
      · obtain ⟨b2, hb2, ho2⟩ := (h.bindIdx o2 svc2 p2).mp h1
        refine ⟨b2, ?_, ho2⟩
        by_cases hkk : (svc, prov) = (svc2, p2)
        · rw [← hkk, hnone] at hb2; simp at hb2
        · rw [Map.get_set_other _ _ _ _ hkk]; exact hb2
    · rintro ⟨b2, h2, ho⟩
      rcases hget _ b2 h2 with ⟨hk2, rfl⟩ | ⟨_, h3⟩
      · injection hk2 with h1 h2'; left; exact ⟨by rw [← ho, hbo], h1, h2'⟩
      · right; exact (h.bindIdx o2 svc2 p2).mpr ⟨b2, h3, ho⟩
  · intro k2 b2 h2
    rcases hget k2 b2 h2 with ⟨rfl, rfl⟩ | ⟨hne, h3⟩
    · exact ⟨p, by simp, hparse, hvalid⟩
    · obtain ⟨p2, hp, hp2⟩ := h.priced _ _ h3
      exact ⟨p2, by rw [Map.get_set_other _ _ _ _ (fun e => hne e.symm)]; exact hp, hp2⟩
  · intro k2 h2
    by_cases hkk : (svc, prov) = k2
    · subst hkk; simp
    · rw [Map.get_set_other _ _ _ _ hkk] at h2 ⊢; exact h.pricingOnly k2 h2
  · intro svc2 p2 h2
    by_cases hkk : (svc, prov) = (svc2, p2)
    · injection hkk with h1 _; subst h1; exact hdef
    · rw [Map.get_set_other _ _ _ _ hkk] at h2; exact h.defined svc2 p2 h2
  · intro p2 o2 ho
    rw [hown'] at ho
    by_cases hq : p2 = prov
    · subst hq; exact ⟨svc, by simp⟩
    · simp [hq] at ho
      obtain ⟨svc2, hs⟩ := h.ownerHas p2 o2 ho
      refine ⟨svc2, ?_⟩
      have hkk : ¬ (svc, prov) = (svc2, p2) := by intro e; injection e with _ e2; exact hq e2.symm
      rw [Map.get_set_other _ _ _ _ hkk]; exact hs
  · intro k2 b2 h2 hav
    rcases hget k2 b2 h2 with ⟨rfl, rfl⟩ | ⟨hne, h3⟩
    · obtain ⟨md, h1, h2⟩ := hmin
      exact ⟨p, md, by simp, h1, by rw [hbd]; exact h2⟩
    · obtain ⟨p2, md, hp, hp2⟩ := h.minDep _ _ h3 hav
      exact ⟨p2, md, by rw [Map.get_set_other _ _ _ _ (fun e => hne e.symm)]; exact hp, hp2⟩

/-- a new definition -/
theorem BInv.addDef
    (h : BInv cfg params depBal defs bindings ownerBind owner ownerProv pricing) (n : SvcName) (d : Definition) :
    BInv cfg params depBal (Map.set defs n d) bindings ownerBind owner ownerProv pricing := by
  refine { h with defined := ?_ }
  intro svc p hb
  have := h.defined svc p hb
  by_cases hn : n = svc
  · subst hn; simp
  · rw [Map.get_set_other _ _ _ _ hn]; exact this

end SM
