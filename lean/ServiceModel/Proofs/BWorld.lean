import ServiceModel.Proofs.Shapes
/-!
# The bindings world: `BInv` is preserved by every operation
-/
namespace SM
open Map

theorem valAt_eq_of_get {κ ν} [DecidableEq κ] (f : ν → Nat) (m : Map κ ν) (k : κ) (v : ν) (h : Map.get m k = some v) :
    Map.valAt f m k = f v := by simp [Map.valAt, h]

theorem valAt_eq_zero {κ ν} [DecidableEq κ] (f : ν → Nat) (m : Map κ ν) (k : κ) (h : Map.get m k = none) :
    Map.valAt f m k = 0 := by simp [Map.valAt, h]

variable {cfg : Config} {params : Params} {depBal : Nat} {defs : Map SvcName Definition}
  {bindings : Map (SvcName × Addr) Binding} {ownerBind : FSet (Addr × SvcName × Addr)}
  {owner : Map Addr Addr} {ownerProv : FSet (Addr × Addr)} {pricing : Map (SvcName × Addr) Pricing}

/-- replacing a binding by one with the same owner and text -/
theorem BInv.updateBinding
    (h : BInv cfg params depBal defs bindings ownerBind owner ownerProv pricing)
    {k : SvcName × Addr} {b b' : Binding} {depBal' : Nat}
    (hk : Map.get bindings k = some b) (hown : b'.owner = b.owner) (htext : b'.text = b.text)
    (hbal : depBal' + b.deposit = depBal + b'.deposit)
    (hmin : b'.avail = true → ∃ p md, Map.get pricing k = some p ∧ minDeposit params p = some md ∧ md ≤ b'.deposit) :
    BInv cfg params depBal' defs (Map.set bindings k b') ownerBind owner ownerProv pricing := by
  have hget : ∀ k2 b2, Map.get (Map.set bindings k b') k2 = some b2 →
      (k2 = k ∧ b2 = b') ∨ (k2 ≠ k ∧ Map.get bindings k2 = some b2) := by
    intro k2 b2 h2
    rw [Map.get_set] at h2
    by_cases hkk : k = k2
    · subst hkk; simp at h2; left; exact ⟨rfl, h2.symm⟩
    · simp [hkk] at h2; right; exact ⟨fun e => hkk e.symm, h2⟩
  refine { backed := ?_, ownerOk := ?_, ownerOf := ?_, provIdx := h.provIdx, bindIdx := ?_, priced := ?_,
           pricingOnly := ?_, defined := ?_, ownerHas := ?_, minDep := ?_ }
  · have := Map.total_set (fun b : Binding => b.deposit) bindings k b'
    rw [valAt_eq_of_get _ _ _ _ hk] at this
    have hb := h.backed
    omega
  · intro k2 b2 h2
    rcases hget k2 b2 h2 with ⟨rfl, rfl⟩ | ⟨_, h3⟩
    · rw [hown]; exact h.ownerOk _ _ hk
    · exact h.ownerOk _ _ h3
  · intro svc p b2 h2
    rcases hget _ b2 h2 with ⟨hk2, rfl⟩ | ⟨_, h3⟩
    · rw [hown]; subst hk2; exact h.ownerOf _ _ _ hk
    · exact h.ownerOf _ _ _ h3
  · intro o svc p
    rw [h.bindIdx]
    constructor
    · rintro ⟨b2, h2, ho⟩
      by_cases hkk : k = (svc, p)
      · subst hkk; rw [hk] at h2; injection h2 with h2; subst h2
        exact ⟨b', by simp, by rw [hown]; exact ho⟩
      · exact ⟨b2, by rw [Map.get_set_other _ _ _ _ hkk]; exact h2, ho⟩
    · rintro ⟨b2, h2, ho⟩
      rcases hget _ b2 h2 with ⟨hk2, rfl⟩ | ⟨_, h3⟩
      · subst hk2; exact ⟨b, hk, by rw [← hown]; exact ho⟩
      · exact ⟨b2, h3, ho⟩
  · intro k2 b2 h2
    rcases hget k2 b2 h2 with ⟨rfl, rfl⟩ | ⟨_, h3⟩
    · rw [htext]; exact h.priced _ _ hk
    · exact h.priced _ _ h3
  · intro k2 h2
    have := h.pricingOnly k2 h2
    by_cases hkk : k = k2
    · subst hkk; simp
    · rw [Map.get_set_other _ _ _ _ hkk]; exact this
  · intro svc p h2
    by_cases hkk : k = (svc, p)
    · subst hkk; exact h.defined svc p (by rw [hk]; rfl)
    · rw [Map.get_set_other _ _ _ _ hkk] at h2; exact h.defined svc p h2
  · intro p o ho
    obtain ⟨svc, hs⟩ := h.ownerHas p o ho
    refine ⟨svc, ?_⟩
    by_cases hkk : k = (svc, p)
    · subst hkk; simp
    · rw [Map.get_set_other _ _ _ _ hkk]; exact hs
  · intro k2 b2 h2 hav
    rcases hget k2 b2 h2 with ⟨rfl, rfl⟩ | ⟨_, h3⟩
    · exact hmin hav
    · exact h.minDep _ _ h3 hav

/-- only the deposit-account balance is restated (a bank move that does not touch it) -/
theorem BInv.sameBal
    (h : BInv cfg params depBal defs bindings ownerBind owner ownerProv pricing) {depBal' : Nat}
    (hb : depBal' = depBal) :
    BInv cfg params depBal' defs bindings ownerBind owner ownerProv pricing := by
  subst hb; exact h

end SM

namespace SM
open Map

variable {cfg : Config} {params : Params} {depBal : Nat} {defs : Map SvcName Definition}
  {bindings : Map (SvcName × Addr) Binding} {ownerBind : FSet (Addr × SvcName × Addr)}
  {owner : Map Addr Addr} {ownerProv : FSet (Addr × Addr)} {pricing : Map (SvcName × Addr) Pricing}

/-- replacing a binding and its price terms together (same owner; the new text parses to the new terms) -/
theorem BInv.updateBindingPricing
    (h : BInv cfg params depBal defs bindings ownerBind owner ownerProv pricing)
    {k : SvcName × Addr} {b b' : Binding} {p' : Pricing} {depBal' : Nat}
    (hk : Map.get bindings k = some b) (hown : b'.owner = b.owner)
    (htext : parsePricing b'.text = .ok p' ∧ validPricing p' = true)
    (hbal : depBal' + b.deposit = depBal + b'.deposit)
    (hmin : b'.avail = true → ∃ md, minDeposit params p' = some md ∧ md ≤ b'.deposit) :
    BInv cfg params depBal' defs (Map.set bindings k b') ownerBind owner ownerProv (Map.set pricing k p') := by
  have hget : ∀ k2 b2, Map.get (Map.set bindings k b') k2 = some b2 →
      (k2 = k ∧ b2 = b') ∨ (k2 ≠ k ∧ Map.get bindings k2 = some b2) := by
    intro k2 b2 h2
    rw [Map.get_set] at h2
    by_cases hkk : k = k2
    · subst hkk; simp at h2; left; exact ⟨rfl, h2.symm⟩
    · simp [hkk] at h2; right; exact ⟨fun e => hkk e.symm, h2⟩
  -- first the binding with the old terms restated, then the terms
  refine { backed := ?_, ownerOk := ?_, ownerOf := ?_, provIdx := h.provIdx, bindIdx := ?_, priced := ?_,
           pricingOnly := ?_, defined := ?_, ownerHas := ?_, minDep := ?_ }
  · have := Map.total_set (fun b : Binding => b.deposit) bindings k b'
    rw [valAt_eq_of_get _ _ _ _ hk] at this
    have hb := h.backed
    omega
  · intro k2 b2 h2
    rcases hget k2 b2 h2 with ⟨rfl, rfl⟩ | ⟨_, h3⟩
    · rw [hown]; exact h.ownerOk _ _ hk
    · exact h.ownerOk _ _ h3
  · intro svc p b2 h2
    rcases hget _ b2 h2 with ⟨hk2, rfl⟩ | ⟨_, h3⟩
    · rw [hown]; subst hk2; exact h.ownerOf _ _ _ hk
    · exact h.ownerOf _ _ _ h3
  · intro o svc p
    rw [h.bindIdx]
    constructor
    · rintro ⟨b2, h2, ho⟩
      by_cases hkk : k = (svc, p)
      · subst hkk; rw [hk] at h2; injection h2 with h2; subst h2
        exact ⟨b', by simp, by rw [hown]; exact ho⟩
      · exact ⟨b2, by rw [Map.get_set_other _ _ _ _ hkk]; exact h2, ho⟩
    · rintro ⟨b2, h2, ho⟩
      rcases hget _ b2 h2 with ⟨hk2, rfl⟩ | ⟨_, h3⟩
      · subst hk2; exact ⟨b, hk, by rw [← hown]; exact ho⟩
      · exact ⟨b2, h3, ho⟩
  · intro k2 b2 h2
    rcases hget k2 b2 h2 with ⟨rfl, rfl⟩ | ⟨hne, h3⟩
    · exact ⟨p', by simp, htext.1, htext.2⟩
    · obtain ⟨p, hp, hp2⟩ := h.priced _ _ h3
      exact ⟨p, by rw [Map.get_set_other _ _ _ _ (fun e => hne e.symm)]; exact hp, hp2⟩
  · intro k2 h2
    by_cases hkk : k = k2
    · subst hkk; simp
    · rw [Map.get_set_other _ _ _ _ hkk] at h2 ⊢; exact h.pricingOnly k2 h2
  · intro svc p h2
    by_cases hkk : k = (svc, p)
    · subst hkk; exact h.defined svc p (by rw [hk]; rfl)
    · rw [Map.get_set_other _ _ _ _ hkk] at h2; exact h.defined svc p h2
  · intro p o ho
    obtain ⟨svc, hs⟩ := h.ownerHas p o ho
    refine ⟨svc, ?_⟩
    by_cases hkk : k = (svc, p)
    · subst hkk; simp
    · rw [Map.get_set_other _ _ _ _ hkk]; exact hs
  · intro k2 b2 h2 hav
    rcases hget k2 b2 h2 with ⟨rfl, rfl⟩ | ⟨hne, h3⟩
    · obtain ⟨md, h1, h2⟩ := hmin hav
      exact ⟨p', md, by simp, h1, h2⟩
    · obtain ⟨p, md, hp, hp2⟩ := h.minDep _ _ h3 hav
      exact ⟨p, md, by rw [Map.get_set_other _ _ _ _ (fun e => hne e.symm)]; exact hp, hp2⟩

/-- a new binding (and, for a provider seen for the first time, its owner records) -/
theorem BInv.addBinding
    (h : BInv cfg params depBal defs bindings ownerBind owner ownerProv pricing)
    {svc : SvcName} {prov o : Addr} {b : Binding} {p : Pricing} {d : Nat}
    (hnone : Map.get bindings (svc, prov) = none) (hdef : (Map.get defs svc).isSome)
    (hown : Map.get owner prov = none ∨ Map.get owner prov = some o)
    (hbo : b.owner = o) (hbd : b.deposit = d) (hmod : ¬ isModAcct cfg o)
    (hparse : parsePricing b.text = .ok p) (hvalid : validPricing p = true)
    (hmin : ∃ md, minDeposit params p = some md ∧ md ≤ d) :
    BInv cfg params (depBal + d) defs (Map.set bindings (svc, prov) b) (FSet.ins ownerBind (o, svc, prov))
      (if (Map.get owner prov).isNone then Map.set owner prov o else owner)
      (if (Map.get owner prov).isNone then FSet.ins ownerProv (o, prov) else ownerProv)
      (Map.set pricing (svc, prov) p) := by
  have hget : ∀ k2 b2, Map.get (Map.set bindings (svc, prov) b) k2 = some b2 →
      (k2 = (svc, prov) ∧ b2 = b) ∨ (k2 ≠ (svc, prov) ∧ Map.get bindings k2 = some b2) := by
    intro k2 b2 h2
    rw [Map.get_set] at h2
    by_cases hkk : (svc, prov) = k2
    · subst hkk; simp at h2; left; exact ⟨rfl, h2.symm⟩
    · simp [hkk] at h2; right; exact ⟨fun e => hkk e.symm, h2⟩
  -- the owner map after the step: lookups
  have hown' : ∀ q, Map.get (if (Map.get owner prov).isNone then Map.set owner prov o else owner) q =
      if q = prov then some o else Map.get owner q := by
    intro q
    rcases hown with hn | hs
    · simp only [hn, Option.isNone_none, if_true, Map.get_set]
      by_cases hq : prov = q
      · subst hq; simp
      · have : ¬ q = prov := fun e => hq e.symm
        simp [hq, this]
    · simp only [hs, Option.isNone_some, Bool.false_eq_true, if_false]
      by_cases hq : q = prov
      · subst hq; simp [hs]
      · simp [hq]
  refine { backed := ?_, ownerOk := ?_, ownerOf := ?_, provIdx := ?_, bindIdx := ?_, priced := ?_,
           pricingOnly := ?_, defined := ?_, ownerHas := ?_, minDep := ?_ }
  · have := Map.total_set (fun b : Binding => b.deposit) bindings (svc, prov) b
    rw [valAt_eq_zero _ _ _ hnone] at this
    have hb := h.backed
    rw [hbd] at this
    omega
  · intro k2 b2 h2
    rcases hget k2 b2 h2 with ⟨rfl, rfl⟩ | ⟨_, h3⟩
    · rw [hbo]; exact hmod
    · exact h.ownerOk _ _ h3
  · intro svc2 p2 b2 h2
    rw [hown']
    rcases hget _ b2 h2 with ⟨hk2, rfl⟩ | ⟨hne, h3⟩
    · injection hk2 with h1 h2'; subst h2'; simp [hbo]
    · have := h.ownerOf _ _ _ h3
      by_cases hq : p2 = prov
      · subst hq; simp
        rcases hown with hn | hs
        · rw [hn] at this; simp at this
        · rw [hs] at this; injection this
      · simp [hq, this]
  · intro o2 p2
    rw [hown']
    rcases hown with hn | hs
    · simp only [hn, Option.isNone_none, if_true, FSet.mem_ins, Prod.mk.injEq]
      by_cases hq : p2 = prov
      · subst hq
        simp only [and_true, if_true, Option.some.injEq]
        constructor
        · rintro (h1 | h1)
          · exact h1.symm
          · have := (h.provIdx o2 p2).mp h1; rw [hn] at this; simp at this
        · intro h1; left; exact h1.symm
      · simp only [hq, and_false, false_or, if_false]; exact h.provIdx o2 p2
    · simp only [hs, Option.isNone_some, Bool.false_eq_true, if_false]
      by_cases hq : p2 = prov
      · subst hq; simp only [if_true]; rw [h.provIdx, hs]
      · simp only [hq, if_false]; exact h.provIdx o2 p2
  · intro o2 svc2 p2
    simp only [FSet.mem_ins, Prod.mk.injEq]
    constructor
    · rintro (⟨h1, h2, h3⟩ | h1)
      · subst h1 h2 h3; exact ⟨b, by simp, hbo⟩
      · obtain ⟨b2, hb2, ho2⟩ := (h.bindIdx o2 svc2 p2).mp h1
        refine ⟨b2, ?_, ho2⟩
        by_cases hkk : (svc, prov) = (svc2, p2)
        · rw [← hkk, hnone] at hb2; simp at hb2
        · rw [Map.get_set_other _ _ _ _ hkk]; exact hb2
    · rintro ⟨b2, h2, ho⟩
      rcases hget _ b2 h2 with ⟨hk2, rfl⟩ | ⟨_, h3⟩
      · injection hk2 with h1 h2'; left; exact ⟨by rw [← ho, hbo], h1, h2'⟩
      · right; exact (h.bindIdx o2 svc2 p2).mpr ⟨b2, h3, ho⟩
  · intro k2 b2 h2
    rcases hget k2 b2 h2 with ⟨rfl, rfl⟩ | ⟨hne, h3⟩
    · exact ⟨p, by simp, hparse, hvalid⟩
    · obtain ⟨p2, hp, hp2⟩ := h.priced _ _ h3
      exact ⟨p2, by rw [Map.get_set_other _ _ _ _ (fun e => hne e.symm)]; exact hp, hp2⟩
  · intro k2 h2
    by_cases hkk : (svc, prov) = k2
    · subst hkk; simp
    · rw [Map.get_set_other _ _ _ _ hkk] at h2 ⊢; exact h.pricingOnly k2 h2
  · intro svc2 p2 h2
    by_cases hkk : (svc, prov) = (svc2, p2)
    · injection hkk with h1 _; subst h1; exact hdef
    · rw [Map.get_set_other _ _ _ _ hkk] at h2; exact h.defined svc2 p2 h2
  · intro p2 o2 ho
    rw [hown'] at ho
    by_cases hq : p2 = prov
    · subst hq; exact ⟨svc, by simp⟩
    · simp [hq] at ho
      obtain ⟨svc2, hs⟩ := h.ownerHas p2 o2 ho
      refine ⟨svc2, ?_⟩
      have hkk : ¬ (svc, prov) = (svc2, p2) := by intro e; injection e with _ e2; exact hq e2.symm
      rw [Map.get_set_other _ _ _ _ hkk]; exact hs
  · intro k2 b2 h2 hav
    rcases hget k2 b2 h2 with ⟨rfl, rfl⟩ | ⟨hne, h3⟩
    · obtain ⟨md, h1, h2⟩ := hmin
      exact ⟨p, md, by simp, h1, by rw [hbd]; exact h2⟩
    · obtain ⟨p2, md, hp, hp2⟩ := h.minDep _ _ h3 hav
      exact ⟨p2, md, by rw [Map.get_set_other _ _ _ _ (fun e => hne e.symm)]; exact hp, hp2⟩

/-- a new definition -/
theorem BInv.addDef
    (h : BInv cfg params depBal defs bindings ownerBind owner ownerProv pricing) (n : SvcName) (d : Definition) :
    BInv cfg params depBal (Map.set defs n d) bindings ownerBind owner ownerProv pricing := by
  refine { h with defined := ?_ }
  intro svc p hb
  have := h.defined svc p hb
  by_cases hn : n = svc
  · subst hn; simp
  · rw [Map.get_set_other _ _ _ _ hn]; exact this

end SM

namespace SM
open Map

/-- a bank change that leaves the deposit account's balance as it was -/
theorem invB_bank {s : State} {bank' : Bank} (h : InvB s)
    (hb : balOf bank'.bal s.cfg.deposit = balOf s.bank.bal s.cfg.deposit) :
    InvB { s with bank := bank' } := by
  show BInv _ _ (balOf bank'.bal s.cfg.deposit) _ _ _ _ _ _
  rw [hb]; exact h

theorem define_invB (s : State) (n : SvcName) (a : Addr) (h : InvB s) : InvB (define s n a).1 := by
  op_split define
  · exact h
  · exact BInv.addDef h n _

theorem storedPricing_of_get {s : State} {svc : SvcName} {p : Addr} {pr : Pricing}
    (h : Map.get s.pricing (svc, p) = some pr) : storedPricing s svc p = pr := by
  simp [storedPricing, h]

theorem disable_invB (s : State) (svc : SvcName) (p o : Addr) (h : InvB s) : InvB (disable s svc p o).1 := by
  op_split disable
  all_goals first
    | exact h
    | (rename_i b hb _ _
       exact BInv.updateBinding h hb rfl rfl (by simp) (by simp))

theorem refund_invB (s : State) (svc : SvcName) (p o : Addr) (h : InvB s) (hst : InvStatic s) :
    InvB (refund s svc p o).1 := by
  op_split refund
  all_goals first
    | exact h
    | (rename_i b hb _ hav _ _ _ bank' hsend
       have hown := h.ownerOk _ _ hb
       have hne : s.cfg.deposit ≠ b.owner := fun e => hown (Or.inr (Or.inl e.symm))
       refine BInv.updateBinding h hb rfl rfl ?_ ?_
       · show balOf bank'.bal s.cfg.deposit + b.deposit = balOf s.bank.bal s.cfg.deposit + 0
         have h1 := bankSend_src hsend hne
         have h2 := bankSend_le hsend
         omega
       · intro hav'; simp at hav hav'; rw [hav'] at hav; simp at hav)

end SM

namespace SM
open Map

theorem enable_invB (s : State) (svc : SvcName) (p o : Addr) (dep : Option Nat) (h : InvB s)
    (hw : ¬ s.modAcct o) : InvB (enable s svc p o dep).1 := by
  op_split enable
  all_goals first
    | exact h
    | (rename_i _ b hb hown hav hov _ md hmd hge _ bank' hsend hz
       obtain ⟨pr, hpr, _, _⟩ := h.priced _ _ hb
       have hsp : storedPricing s svc p = pr := storedPricing_of_get hpr
       refine BInv.updateBinding h hb rfl rfl ?_ ?_
       · show balOf bank'.bal s.cfg.deposit + b.deposit = balOf s.bank.bal s.cfg.deposit + (b.deposit + dep.getD 0)
         cases dep with
         | none => simp at hsend; subst hsend; simp
         | some d =>
           simp at hsend
           have hne : o ≠ s.cfg.deposit := fun e => hw (Or.inr (Or.inl e))
           have := bankSend_dst hsend hne
           simp; omega
       · intro _
         refine ⟨pr, md, hpr, by rw [← hsp]; exact hmd, ?_⟩
         simp at hge ⊢; omega)

end SM

namespace SM
open Map

theorem newTerms_ok {s : State} {svc : SvcName} {p : Addr} {text : Option PricingText} {pr : Pricing}
    (h : newTerms s svc p text = .ok pr) :
    (text = none ∧ pr = storedPricing s svc p) ∨
    (∃ t, text = some t ∧ parsePricing t = .ok pr ∧ validPricing pr = true) := by
  unfold newTerms at h
  cases text with
  | none => left; simp at h; exact ⟨rfl, by rw [← h]; rfl⟩
  | some t =>
    right
    simp only at h
    cases hp : parsePricing t with
    | bad => rw [hp] at h; simp at h
    | overflow => rw [hp] at h; simp at h
    | ok q =>
      rw [hp] at h; simp only at h
      split at h
      · simp at h
      · injection h with h; subst h
        exact ⟨t, rfl, hp, by simpa using ‹¬ (!validPricing q) = true›⟩

theorem minCheck_none {params : Params} {b : Binding} {upd : Bool} {p : Pricing}
    (h : minCheck params b upd p = none) (hav : b.avail = true) (hu : upd = true) :
    ∃ md, minDeposit params p = some md ∧ md ≤ b.deposit := by
  unfold minCheck at h
  simp only [hav, hu, and_self, if_true] at h
  cases hm : minDeposit params p with
  | none => rw [hm] at h; simp at h
  | some md =>
    rw [hm] at h; simp only at h
    split at h
    · simp at h
    · exact ⟨md, rfl, by omega⟩

theorem dep_send_bal {s : State} {o : Addr} {dep : Option Nat} {bank' : Bank}
    (hsend : (if dep.isSome = true then bankSend s.bank o s.cfg.deposit (dep.getD 0) else some s.bank) = some bank')
    (hne : o ≠ s.cfg.deposit) :
    balOf bank'.bal s.cfg.deposit = balOf s.bank.bal s.cfg.deposit + dep.getD 0 := by
  cases dep with
  | none => simp at hsend; subst hsend; simp
  | some d => simp at hsend; simpa using bankSend_dst hsend hne

theorem update_invB (s : State) (svc : SvcName) (p o : Addr) (dep : Option Nat) (text : Option PricingText) (qos : Nat)
    (h : InvB s) (hw : ¬ s.modAcct o) : InvB (update s svc p o dep text qos).1 := by
  have hne : o ≠ s.cfg.deposit := fun e => hw (Or.inr (Or.inl e))
  unfold update
  cases hb : Map.get s.bindings (svc, p) with
  | none => exact h
  | some b =>
    dsimp only
    split; · exact h
    split; · exact h
    split; · exact h
    cases hnt : newTerms s svc p text with
    | error r => exact h
    | ok pr =>
      dsimp only
      split; · exact h
      rename_i hmc
      cases hsend : (if dep.isSome = true then bankSend s.bank o s.cfg.deposit (dep.getD 0) else some s.bank) with
      | none => exact h
      | some bank' =>
        dsimp only
        split
        · rename_i hupd
          have hbal : balOf bank'.bal s.cfg.deposit + b.deposit = balOf s.bank.bal s.cfg.deposit + (b.deposit + dep.getD 0) := by
            rw [dep_send_bal hsend hne]; omega
          rcases newTerms_ok hnt with ⟨h1, h2⟩ | ⟨t, h1, h2, h3⟩
          · subst h1
            obtain ⟨pr0, hpr, _, _⟩ := h.priced _ _ hb
            rw [storedPricing_of_get hpr] at h2; subst h2
            refine BInv.updateBinding h hb rfl rfl hbal ?_
            intro hav
            obtain ⟨md, hm1, hm2⟩ := minCheck_none hmc hav hupd
            exact ⟨_, md, hpr, hm1, hm2⟩
          · subst h1
            refine BInv.updateBindingPricing h hb rfl ⟨h2, h3⟩ hbal ?_
            intro hav
            exact minCheck_none hmc hav hupd
        · rename_i hupd
          have hd : dep = none := by
            cases dep with
            | none => rfl
            | some d => simp at hupd
          subst hd; simp at hsend; subst hsend; exact h
end SM

namespace SM
open Map

theorem bind_invB (s : State) (svc : SvcName) (p o : Addr) (dep : Option Nat) (text : PricingText) (qos : Nat)
    (h : InvB s) (hw : ¬ s.modAcct o) : InvB (bind s svc p o dep text qos).1 := by
  have hne : o ≠ s.cfg.deposit := fun e => hw (Or.inr (Or.inl e))
  unfold bind
  split; · exact h
  split; · exact h
  split; · exact h
  dsimp only
  split; · exact h
  rename_i hmods hdef hnob hown
  cases dep with
  | none => exact h
  | some d =>
    dsimp only
    split; · exact h
    cases hpp : parsePricing text with
    | bad => exact h
    | overflow => exact h
    | ok pr =>
      dsimp only
      split; · exact h
      rename_i hvalid
      cases hmd : minDeposit s.params pr with
      | none => exact h
      | some md =>
        dsimp only
        split; · exact h
        rename_i hge
        cases hsend : bankSend s.bank o s.cfg.deposit d with
        | none => exact h
        | some bank' =>
          dsimp only
          have hnone : Map.get s.bindings (svc, p) = none := by
            cases hx : Map.get s.bindings (svc, p) with
            | none => rfl
            | some _ => rw [hx] at hnob; simp at hnob
          have hdef' : (Map.get s.defs svc).isSome = true := by
            cases hx : Map.get s.defs svc with
            | none => rw [hx] at hdef; simp at hdef
            | some _ => rfl
          have hown' : Map.get s.owner p = none ∨ Map.get s.owner p = some o := by
            cases hx : Map.get s.owner p with
            | none => left; rfl
            | some o2 =>
              right
              rw [hx] at hown
              simp at hown
              rw [hown]
          have hbal : balOf bank'.bal s.cfg.deposit = balOf s.bank.bal s.cfg.deposit + d := bankSend_dst hsend hne
          have key := BInv.addBinding h (b := { owner := o, deposit := d, avail := true, disabledAt := zeroTime, qos := qos, text := text })
            hnone hdef' hown' rfl rfl hw hpp (by simpa using hvalid) ⟨md, hmd, by simp at hge; omega⟩
          split
          · rename_i hn
            simp only [hn, if_true] at key
            show BInv _ _ (balOf bank'.bal s.cfg.deposit) _ _ _ _ _ _
            rw [hbal]; exact key
          · rename_i hn
            simp only [hn, if_false] at key
            show BInv _ _ (balOf bank'.bal s.cfg.deposit) _ _ _ _ _ _
            rw [hbal]; exact key

end SM

namespace SM
open Map

/-- `Slash` keeps the bindings world: the burn lowers the deposit account and the recorded
    deposit by the same amount; the binding stays available only above its minimum -/
theorem slash_invB {s s1 : State} {r : ReqId} {svc : SvcName} {p : Addr} {e : List Effect}
    (h : InvB s) (hs : slash s r svc p = .done s1 e) : InvB s1 := by
  unfold slash at hs
  cases hb : Map.get s.bindings (svc, p) with
  | none => rw [hb] at hs; simp at hs; rw [← hs.1]; exact h
  | some b =>
    rw [hb] at hs; dsimp only at hs
    split at hs; · simp at hs
    rename_i hle
    cases hburn : bankBurn s.bank s.cfg.deposit (b.deposit * s.params.slash / decUnit) with
    | none => rw [hburn] at hs; simp at hs
    | some bank' =>
      rw [hburn] at hs; dsimp only at hs
      have hbal : balOf bank'.bal s.cfg.deposit = balOf s.bank.bal s.cfg.deposit - (b.deposit * s.params.slash / decUnit) := by
        rw [bankBurn_bal hburn]; simp
      have hble := bankBurn_le hburn
      obtain ⟨pr, hpr, _, _⟩ := h.priced _ _ hb
      split at hs
      · rename_i hav
        cases hmd : minDeposit s.params (storedPricing s svc p) with
        | none => rw [hmd] at hs; simp at hs
        | some md =>
          rw [hmd] at hs; dsimp only at hs
          injection hs with hs1 _
          subst hs1
          rw [storedPricing_of_get hpr] at hmd
          refine BInv.updateBinding (b' := _) h hb ?_ ?_ ?_ ?_
          · split <;> rfl
          · split <;> rfl
          · show balOf bank'.bal s.cfg.deposit + b.deposit = balOf s.bank.bal s.cfg.deposit + _
            rw [hbal]
            have : b.deposit * s.params.slash / decUnit ≤ b.deposit := by omega
            split <;> simp <;> omega
          · intro hav'
            split at hav'
            · simp at hav'
            · rename_i hnlt
              refine ⟨pr, md, hpr, hmd, ?_⟩
              rw [if_neg hnlt]
              simp only at hnlt ⊢
              omega
      · rename_i hav
        injection hs with hs1 _
        subst hs1
        refine BInv.updateBinding h hb rfl rfl ?_ ?_
        · show balOf bank'.bal s.cfg.deposit + b.deposit = balOf s.bank.bal s.cfg.deposit + (b.deposit - _)
          rw [hbal]; omega
        · intro hav'; simp at hav hav'; rw [hav'] at hav; simp at hav

end SM
