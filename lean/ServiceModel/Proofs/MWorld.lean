import ServiceModel.Proofs.XRespond
/-!
# The money world: `MInv` (escrow backing, double bookkeeping of earnings) under the primitive changes
-/
namespace SM
open Map

/-! ### sums of pending fees -/

def feeAt (reqs : Map ReqId Req) (r : ReqId) : Nat :=
  match Map.get reqs r with
  | some q => q.fee
  | none => 0

theorem feeSum_eq (reqs : Map ReqId Req) (l : List ReqId) : feeSum reqs l = (l.map (feeAt reqs)).sum := rfl

theorem feeSum_cons (reqs : Map ReqId Req) (a : ReqId) (l : List ReqId) :
    feeSum reqs (a :: l) = feeAt reqs a + feeSum reqs l := by
  simp [feeSum_eq]

theorem feeSum_rem (reqs : Map ReqId Req) (l : List ReqId) (r : ReqId) (hn : l.Nodup) (hr : r ∈ l) :
    feeSum reqs (FSet.rem l r) + feeAt reqs r = feeSum reqs l := by
  induction l with
  | nil => simp at hr
  | cons b t ih =>
    have hnt : t.Nodup := (List.nodup_cons.mp hn).2
    have hbt : b ∉ t := (List.nodup_cons.mp hn).1
    by_cases hab : b = r
    · subst hab
      have : FSet.rem (b :: t) b = t := by
        unfold FSet.rem
        simp only [List.filter_cons, ne_eq, not_true_eq_false, decide_false, Bool.false_eq_true, if_false]
        apply List.filter_eq_self.mpr
        intro x hx
        simp only [ne_eq, decide_eq_true_eq]
        intro e; subst e; exact hbt hx
      rw [this, feeSum_cons]; omega
    · have hrt : r ∈ t := by
        simp only [List.mem_cons] at hr
        rcases hr with h | h
        · exact absurd h.symm hab
        · exact h
      have : FSet.rem (b :: t) r = b :: FSet.rem t r := by
        unfold FSet.rem
        simp [List.filter_cons, hab]
      rw [this, feeSum_cons, feeSum_cons]
      have := ih hnt hrt
      omega

/-- the sum only looks at the records of the listed ids -/
theorem feeSum_congr (reqs reqs' : Map ReqId Req) (l : List ReqId)
    (h : ∀ r, r ∈ l → Map.get reqs' r = Map.get reqs r) : feeSum reqs' l = feeSum reqs l := by
  induction l with
  | nil => rfl
  | cons a t ih =>
    rw [feeSum_cons, feeSum_cons]
    have h1 : feeAt reqs' a = feeAt reqs a := by unfold feeAt; rw [h a (by simp)]
    rw [h1, ih (fun r hr => h r (List.mem_cons_of_mem _ hr))]

theorem feeSum_append (reqs : Map ReqId Req) (l1 l2 : List ReqId) :
    feeSum reqs (l1 ++ l2) = feeSum reqs l1 + feeSum reqs l2 := by
  simp [feeSum_eq, List.map_append, List.sum_append]

/-! ### earnings maps restricted to the providers of one owner -/

theorem filter_set_key {ν} (m : Map Addr ν) (k : Addr) (v : ν) (f : Addr → Bool) :
    (Map.set m k v).filter (fun p => f p.1) =
      if f k then Map.set (m.filter (fun p => f p.1)) k v else m.filter (fun p => f p.1) := by
  induction m with
  | nil => by_cases hf : f k <;> simp [Map.set, hf]
  | cons hd t ih =>
    obtain ⟨k', v'⟩ := hd
    by_cases hk : k' = k
    · subst hk
      by_cases hf : f k' <;> simp [Map.set, List.filter_cons, hf]
    · by_cases hf : f k
      · simp only [hf, if_true] at ih ⊢
        by_cases hf' : f k'
        · simp [Map.set, hk, List.filter_cons, hf', ih]
        · simp [Map.set, hk, List.filter_cons, hf', ih]
      · simp only [hf, Bool.false_eq_true, if_false] at ih ⊢
        by_cases hf' : f k'
        · simp [Map.set, hk, List.filter_cons, hf', ih]
        · simp [Map.set, hk, List.filter_cons, hf', ih]

theorem get_filter_key {ν} (m : Map Addr ν) (k : Addr) (f : Addr → Bool) (hf : f k = true) :
    Map.get (m.filter (fun p => f p.1)) k = Map.get m k := by
  induction m with
  | nil => rfl
  | cons hd t ih =>
    obtain ⟨k', v'⟩ := hd
    by_cases hk : k' = k
    · subst hk; simp [List.filter_cons, hf, Map.get]
    · by_cases hf' : f k'
      · simp [List.filter_cons, hf', Map.get, hk, ih]
      · simp [List.filter_cons, hf', Map.get, hk, ih]

theorem del_eq_filter {ν} (m : Map Addr ν) (k : Addr) : Map.del m k = m.filter (fun p => p.1 ≠ k) := by
  induction m with
  | nil => rfl
  | cons hd t ih =>
    obtain ⟨k', v'⟩ := hd
    by_cases hk : k' = k
    · subst hk; simp [Map.del, List.filter_cons, ih]
    · simp [Map.del, hk, List.filter_cons, ih]

theorem filter_del_key {ν} (m : Map Addr ν) (k : Addr) (f : Addr → Bool) :
    (Map.del m k).filter (fun p => f p.1) = Map.del (m.filter (fun p => f p.1)) k := by
  rw [del_eq_filter, del_eq_filter, List.filter_filter, List.filter_filter]
  congr 1; funext p; exact Bool.and_comm _ _

theorem nodupKeys_filter {ν} (m : Map Addr ν) (f : Addr × ν → Bool) (h : Map.NodupKeys m) :
    Map.NodupKeys (m.filter f) := by
  unfold Map.NodupKeys Map.keys at *
  exact List.Nodup.sublist (List.Sublist.map _ List.filter_sublist) h

theorem balOf_eq_valAt (m : Map Addr Nat) (k : Addr) : balOf m k = Map.valAt (fun n : Nat => n) m k := by
  unfold balOf Map.valAt; cases Map.get m k <;> rfl

theorem total_addTo (m : Map Addr Nat) (k : Addr) (e : Nat) :
    Map.total (fun n : Nat => n) (addTo m k e) = Map.total (fun n : Nat => n) m + e := by
  unfold addTo
  split
  · rename_i h; rw [h]; rfl
  · have := Map.total_set (fun n : Nat => n) m k (balOf m k + e)
    rw [← balOf_eq_valAt] at this
    omega

theorem balOf_addTo (m : Map Addr Nat) (k k2 : Addr) (e : Nat) :
    balOf (addTo m k e) k2 = if k = k2 then balOf m k2 + e else balOf m k2 := by
  unfold addTo
  split
  · rename_i h; rw [h]; split <;> rfl
  · rw [balOf_set]
    split
    · rename_i hk; rw [hk]
    · rfl

theorem nodupKeys_addTo (m : Map Addr Nat) (k : Addr) (e : Nat) (h : Map.NodupKeys m) : Map.NodupKeys (addTo m k e) := by
  unfold addTo; split
  · exact h
  · exact Map.nodupKeys_set _ _ _ h

theorem ownedSum_addTo (owner : Map Addr Addr) (earned : Map Addr Nat) (p o2 : Addr) (e : Nat) :
    ownedSum owner (addTo earned p e) o2 =
      if Map.get owner p = some o2 then ownedSum owner earned o2 + e else ownedSum owner earned o2 := by
  unfold ownedSum addTo
  by_cases he : e = 0
  · simp [he]
  · simp only [he, if_false]
    have := filter_set_key earned p (balOf earned p + e) (fun a => decide (Map.get owner a = some o2))
    simp only [decide_eq_true_eq] at this
    rw [this]
    by_cases ho : Map.get owner p = some o2
    · simp only [ho, if_true]
      have ht := Map.total_set (fun n : Nat => n) (earned.filter (fun q => decide (Map.get owner q.1 = some o2))) p (balOf earned p + e)
      have hv : Map.valAt (fun n : Nat => n) (earned.filter (fun q => decide (Map.get owner q.1 = some o2))) p = balOf earned p := by
        unfold Map.valAt balOf
        rw [get_filter_key earned p (fun a => decide (Map.get owner a = some o2)) (by simp [ho])]
        cases Map.get earned p <;> rfl
      rw [hv] at ht
      omega
    · simp only [ho, if_false]

variable {escBal : Nat} {reqs : Map ReqId Req} {activeI : FSet ReqId}
  {earned ownerEarned : Map Addr Nat} {owner : Map Addr Addr}

/-- a bank move that leaves the escrow balance as it was -/
theorem MInv.sameBal (h : MInv escBal reqs activeI earned ownerEarned owner) {escBal' : Nat} (hb : escBal' = escBal) :
    MInv escBal' reqs activeI earned ownerEarned owner := by subst hb; exact h

/-- request records change only at ids that are not pending -/
theorem MInv.reqsIrrelevant (h : MInv escBal reqs activeI earned ownerEarned owner) {reqs' : Map ReqId Req}
    (hr : ∀ r, r ∈ activeI → Map.get reqs' r = Map.get reqs r) :
    MInv escBal reqs' activeI earned ownerEarned owner := by
  refine { h with escrow := ?_ }
  rw [feeSum_congr reqs reqs' activeI hr]; exact h.escrow

/-- a pending request is settled by returning its fee (malformed output, or expiry) -/
theorem MInv.refundReq (h : MInv escBal reqs activeI earned ownerEarned owner) {r : ReqId} {escBal' : Nat}
    (hn : activeI.Nodup) (hr : r ∈ activeI) (hb : escBal' + feeAt reqs r = escBal) :
    MInv escBal' reqs (FSet.rem activeI r) earned ownerEarned owner := by
  refine { h with escrow := ?_ }
  have := feeSum_rem reqs activeI r hn hr
  have := h.escrow
  omega

/-- a pending request is settled by an accepted response: tax out of escrow, the rest to the
    provider's and its owner's earnings -/
theorem MInv.earn (h : MInv escBal reqs activeI earned ownerEarned owner) {r : ReqId} {p o : Addr}
    {escBal' tax e : Nat}
    (hn : activeI.Nodup) (hr : r ∈ activeI) (hfee : feeAt reqs r = tax + e) (hb : escBal' + tax = escBal)
    (ho : Map.get owner p = some o) :
    MInv escBal' reqs (FSet.rem activeI r) (addTo earned p e) (addTo ownerEarned o e) owner := by
  refine { escrow := ?_, earnedK := nodupKeys_addTo _ _ _ h.earnedK, ownerEarnedK := nodupKeys_addTo _ _ _ h.ownerEarnedK,
           ownerSum := ?_, earnedOwned := ?_ }
  · have := feeSum_rem reqs activeI r hn hr
    have := h.escrow
    rw [total_addTo]
    omega
  · intro o2
    rw [balOf_addTo, ownedSum_addTo, ho]
    have := h.ownerSum o2
    by_cases hoo : o = o2
    · subst hoo; simp; omega
    · have : ¬ some o = some o2 := by intro e; injection e with e; exact hoo e
      simp [hoo, this]; omega
  · intro p2 hp2
    unfold addTo at hp2
    split at hp2
    · exact h.earnedOwned p2 hp2
    · rw [Map.get_set] at hp2
      by_cases hpp : p = p2
      · subst hpp; rw [ho]; rfl
      · simp only [hpp, if_false] at hp2; exact h.earnedOwned p2 hp2

end SM

namespace SM
open Map

variable {escBal : Nat} {reqs : Map ReqId Req} {activeI : FSet ReqId}
  {earned ownerEarned : Map Addr Nat} {owner : Map Addr Addr}

/-- a batch is issued: new pending requests, the consumer's payment enters escrow -/
theorem MInv.issue (h : MInv escBal reqs activeI earned ownerEarned owner)
    {reqs' : Map ReqId Req} {activeI' : FSet ReqId} {escBal' : Nat} (newIds : List ReqId)
    (hAI : activeI' = activeI ++ newIds)
    (hold : ∀ r, r ∈ activeI → Map.get reqs' r = Map.get reqs r)
    (hb : escBal' = escBal + feeSum reqs' newIds) :
    MInv escBal' reqs' activeI' earned ownerEarned owner := by
  refine { h with escrow := ?_ }
  rw [hAI, feeSum_append, feeSum_congr reqs reqs' activeI hold, hb]
  have := h.escrow
  omega

theorem mem_keys_of_mem {ν} (m : Map Addr ν) (k : Addr) (v : ν) (h : (k, v) ∈ m) : (Map.get m k).isSome := by
  rw [Map.get_isSome_iff_mem_keys]
  unfold Map.keys
  exact List.mem_map.mpr ⟨(k, v), h, rfl⟩

/-- a provider gets its owner (first binding): earnings are unaffected, the provider has none yet -/
theorem MInv.addOwner (h : MInv escBal reqs activeI earned ownerEarned owner) {p o : Addr}
    (hnone : Map.get owner p = none) :
    MInv escBal reqs activeI earned ownerEarned (Map.set owner p o) := by
  have hep : Map.get earned p = none := by
    cases he : Map.get earned p with
    | none => rfl
    | some v => have := h.earnedOwned p (by rw [he]; rfl); rw [hnone] at this; simp at this
  refine { h with ownerSum := ?_, earnedOwned := ?_ }
  · intro o2
    rw [h.ownerSum o2]
    unfold ownedSum
    congr 1
    apply List.filter_congr
    intro ⟨k, v⟩ hkv
    have hk : k ≠ p := by
      intro e; subst e
      have := mem_keys_of_mem earned k v hkv
      rw [hep] at this; simp at this
    simp only
    rw [Map.get_set_other _ _ _ _ (fun e => hk e.symm)]
  · intro p2 hp2
    have := h.earnedOwned p2 hp2
    rw [Map.get_set]
    split
    · rfl
    · exact this

theorem ownedSum_del (owner : Map Addr Addr) (earned : Map Addr Nat) (p o2 : Addr) (hn : Map.NodupKeys earned) :
    ownedSum owner (Map.del earned p) o2 + (if Map.get owner p = some o2 then balOf earned p else 0) =
      ownedSum owner earned o2 := by
  unfold ownedSum
  have := filter_del_key earned p (fun a => decide (Map.get owner a = some o2))
  rw [this]
  have hnf := nodupKeys_filter earned (fun q => decide (Map.get owner q.1 = some o2)) hn
  have ht := Map.total_del (fun n : Nat => n) _ p hnf
  by_cases ho : Map.get owner p = some o2
  · simp only [ho, if_true]
    have hv : Map.valAt (fun n : Nat => n) (earned.filter (fun q => decide (Map.get owner q.1 = some o2))) p = balOf earned p := by
      unfold Map.valAt balOf
      rw [get_filter_key earned p (fun a => decide (Map.get owner a = some o2)) (by simp [ho])]
      cases Map.get earned p <;> rfl
    rw [hv] at ht; exact ht
  · simp only [ho, if_false]
    have hv : Map.valAt (fun n : Nat => n) (earned.filter (fun q => decide (Map.get owner q.1 = some o2))) p = 0 := by
      unfold Map.valAt
      have : Map.get (earned.filter (fun q => decide (Map.get owner q.1 = some o2))) p = none := by
        rw [Map.get_none_iff]
        intro hm
        unfold Map.keys at hm
        obtain ⟨⟨k, v⟩, hkv, hk⟩ := List.mem_map.mp hm
        simp only at hk; subst hk
        have := (List.mem_filter.mp hkv).2
        simp at this
        exact ho this
      rw [this]
    rw [hv] at ht; omega

/-- the owner withdraws the earnings of one provider -/
theorem MInv.withdrawProv (h : MInv escBal reqs activeI earned ownerEarned owner) {p o : Addr}
    {escBal' : Nat} {ownerEarned' : Map Addr Nat}
    (ho : Map.get owner p = some o) (hb : escBal' + balOf earned p = escBal)
    (hoe : ownerEarned' = if balOf earned p = balOf ownerEarned o then Map.del ownerEarned o
                          else Map.set ownerEarned o (balOf ownerEarned o - balOf earned p)) :
    MInv escBal' reqs activeI (Map.del earned p) ownerEarned' owner := by
  have hle : balOf earned p ≤ balOf ownerEarned o := by
    have h1 := ownedSum_del owner earned p o h.earnedK
    simp only [ho, if_true] at h1
    rw [h.ownerSum o]; omega
  refine { escrow := ?_, earnedK := Map.nodupKeys_del _ _ h.earnedK, ownerEarnedK := ?_, ownerSum := ?_, earnedOwned := ?_ }
  · have := Map.total_del (fun n : Nat => n) earned p h.earnedK
    rw [← balOf_eq_valAt] at this
    have := h.escrow
    omega
  · rw [hoe]; split
    · exact Map.nodupKeys_del _ _ h.ownerEarnedK
    · exact Map.nodupKeys_set _ _ _ h.ownerEarnedK
  · intro o2
    have h1 := ownedSum_del owner earned p o2 h.earnedK
    have h2 := h.ownerSum o2
    rw [hoe]
    by_cases hoo : o = o2
    · subst hoo
      simp only [ho, if_true] at h1
      split
      · rename_i heq
        unfold balOf at heq ⊢
        rw [Map.get_del_same]
        simp only [Option.getD_none]
        unfold balOf at h1 h2
        omega
      · rw [balOf_set]; simp; omega
    · have hne : ¬ Map.get owner p = some o2 := by rw [ho]; intro e; injection e with e; exact hoo e
      simp only [hne, if_false] at h1
      split
      · unfold balOf at h2 ⊢; rw [Map.get_del_other _ _ _ hoo]; omega
      · rw [balOf_set]; simp only [hoo, if_false]; omega
  · intro p2 hp2
    cases hg : Map.get (Map.del earned p) p2 with
    | none => rw [hg] at hp2; simp at hp2
    | some v => exact h.earnedOwned p2 (by rw [(Map.get_del_some hg).2]; rfl)

end SM

namespace SM
open Map

variable {escBal : Nat} {reqs : Map ReqId Req} {activeI : FSet ReqId}
  {earned ownerEarned : Map Addr Nat} {owner : Map Addr Addr}

theorem foldl_del_eq_filter {ν} (m : Map Addr ν) (ps : List Addr) :
    ps.foldl (fun m p => Map.del m p) m = m.filter (fun q => decide (q.1 ∉ ps)) := by
  induction ps generalizing m with
  | nil => simp; exact (List.filter_eq_self.mpr (fun _ _ => rfl)).symm
  | cons p t ih =>
    simp only [List.foldl_cons]
    rw [ih, del_eq_filter, List.filter_filter]
    congr 1; funext q
    simp only [List.mem_cons, not_or, ne_eq]
    by_cases h1 : q.1 = p <;> by_cases h2 : q.1 ∈ t <;> simp [h1, h2]

theorem total_filter_split {ν} (f : ν → Nat) (m : Map Addr ν) (P : Addr × ν → Bool) :
    Map.total f (m.filter P) + Map.total f (m.filter (fun q => !P q)) = Map.total f m := by
  induction m with
  | nil => rfl
  | cons hd t ih =>
    obtain ⟨k, v⟩ := hd
    by_cases hp : P (k, v)
    · simp only [List.filter_cons, hp, if_true, Bool.not_true, Bool.false_eq_true, if_false, Map.total]; omega
    · simp only [List.filter_cons, hp, Bool.false_eq_true, if_false, Bool.not_false, if_true, Map.total]; omega

theorem total_filter_false {ν} (f : ν → Nat) (m : Map Addr ν) (P : Addr × ν → Bool) (h : ∀ q, q ∈ m → P q = false) :
    Map.total f (m.filter P) = 0 := by
  have : m.filter P = [] := by
    apply List.filter_eq_nil_iff.mpr
    intro q hq; rw [h q hq]; simp
  rw [this]; rfl

theorem get_filter_isSome {ν} (m : Map Addr ν) (P : Addr × ν → Bool) (k : Addr)
    (h : (Map.get (m.filter P) k).isSome) : (Map.get m k).isSome := by
  rw [Map.get_isSome_iff_mem_keys] at h ⊢
  unfold Map.keys at *
  obtain ⟨q, hq, hk⟩ := List.mem_map.mp h
  exact List.mem_map.mpr ⟨q, (List.mem_filter.mp hq).1, hk⟩

/-- the owner withdraws everything: the earnings of all its providers are paid and deleted -/
theorem MInv.withdrawAll (h : MInv escBal reqs activeI earned ownerEarned owner) {o : Addr} {escBal' : Nat}
    (ps : List Addr) (hps : ∀ p, p ∈ ps ↔ Map.get owner p = some o)
    (hb : escBal' + balOf ownerEarned o = escBal) :
    MInv escBal' reqs activeI (ps.foldl (fun m p => Map.del m p) earned) (Map.del ownerEarned o) owner := by
  rw [foldl_del_eq_filter]
  have hpred : ∀ q : Addr × Nat, decide (q.1 ∉ ps) = !(decide (Map.get owner q.1 = some o)) := by
    intro q
    by_cases hq : Map.get owner q.1 = some o
    · simp [hq, (hps q.1).mpr hq]
    · have : q.1 ∉ ps := fun hm => hq ((hps q.1).mp hm)
      simp [hq, this]
  have hf : earned.filter (fun q => decide (q.1 ∉ ps)) = earned.filter (fun q => !(decide (Map.get owner q.1 = some o))) := by
    apply List.filter_congr; intro q _; exact hpred q
  rw [hf]
  have hsplit := total_filter_split (fun n : Nat => n) earned (fun q => decide (Map.get owner q.1 = some o))
  have hO : Map.total (fun n : Nat => n) (earned.filter (fun q => decide (Map.get owner q.1 = some o))) = balOf ownerEarned o := by
    rw [h.ownerSum o]; rfl
  refine { escrow := ?_, earnedK := nodupKeys_filter _ _ h.earnedK, ownerEarnedK := Map.nodupKeys_del _ _ h.ownerEarnedK,
           ownerSum := ?_, earnedOwned := ?_ }
  · have := h.escrow; omega
  · intro o2
    unfold ownedSum
    rw [List.filter_filter]
    by_cases hoo : o = o2
    · subst hoo
      unfold balOf; rw [Map.get_del_same]; simp only [Option.getD_none]
      symm
      apply total_filter_false
      intro q _
      by_cases hq : Map.get owner q.1 = some o <;> simp [hq]
    · have h2 := h.ownerSum o2
      unfold balOf at h2 ⊢
      rw [Map.get_del_other _ _ _ hoo, h2]
      unfold ownedSum
      congr 1
      apply List.filter_congr
      intro q _
      by_cases hq : Map.get owner q.1 = some o2
      · have : ¬ o2 = o := fun e => hoo e.symm
        simp [hq, this]
      · simp [hq]
  · intro p2 hp2
    exact h.earnedOwned p2 (get_filter_isSome _ _ _ hp2)

end SM
