import ServiceModel.Proofs.XRespond
/-!
# The invocation world at the expiry of a batch, and when a context is removed
-/
namespace SM
open Map

variable {cfg : Config} {height : Int} {ctxs : Map CtxId Ctx} {expQ newQ : FSet (Int × CtxId)}
  {expH newH : Map CtxId Int} {usedIds : List CtxId} {reqs : Map ReqId Req}
  {activeB : FSet (SvcName × Addr × Int × ReqId)} {activeI : FSet ReqId} {resps : Map ReqId Resp}

/-- removing a context that has no scheduled event, no request record and no pending marker -/
theorem XInv.delCtx {c : CtxId}
    (h : XInv cfg height ctxs expQ newQ expH newH usedIds reqs activeB activeI resps)
    (hn : Map.get newH c = none) (he : Map.get expH c = none)
    (hr : ∀ r q, Map.get reqs r = some q → r.ctx ≠ c) :
    XInv cfg height (Map.del ctxs c) expQ newQ expH newH usedIds reqs activeB activeI resps := by
  have hget : ∀ c2 y, Map.get (Map.del ctxs c) c2 = some y → c2 ≠ c ∧ Map.get ctxs c2 = some y := by
    intro c2 y hy
    have := Map.get_del_some hy
    exact ⟨fun e => this.1 e.symm, this.2⟩
  have hkeep : ∀ c2, c2 ≠ c → Map.get (Map.del ctxs c) c2 = Map.get ctxs c2 := by
    intro c2 hc; exact Map.get_del_other _ _ _ (fun e => hc e.symm)
  have ha : ∀ r, r ∈ activeI → r.ctx ≠ c := by
    intro r hr2
    cases hq : Map.get reqs r with
    | none => have := h.activeReq r hr2; rw [hq] at this; simp at this
    | some q => exact hr r q hq
  refine { h with ctxWF := ?_, ctxCons := ?_, newFuture := ?_, expFuture := ?_, runningQ := ?_, used := ?_,
                  reqCtx := ?_, activeMirror := ?_, bRunExp := ?_, activeRunning := ?_, counts := ?_ }
  · intro c2 y hy; exact h.ctxWF c2 y (hget c2 y hy).2
  · intro c2 y hy; exact h.ctxCons c2 y (hget c2 y hy).2
  · intro c2 hh hh2
    have := h.newFuture c2 hh hh2
    have hne : c2 ≠ c := by intro e; subst e; rw [hn] at hh2; simp at hh2
    exact ⟨this.1, by rw [hkeep c2 hne]; exact this.2⟩
  · intro c2 hh hh2
    have := h.expFuture c2 hh hh2
    have hne : c2 ≠ c := by intro e; subst e; rw [he] at hh2; simp at hh2
    exact ⟨this.1, by rw [hkeep c2 hne]; exact this.2⟩
  · intro c2 y hy hrun; exact h.runningQ c2 y (hget c2 y hy).2 hrun
  · intro c2 hc2
    cases hy : Map.get (Map.del ctxs c) c2 with
    | none => rw [hy] at hc2; simp at hc2
    | some y => exact h.used c2 (by rw [(hget c2 y hy).2]; rfl)
  · intro r q hq
    obtain ⟨y, hy, hb⟩ := h.reqCtx r q hq
    exact ⟨y, by rw [hkeep _ (hr r q hq)]; exact hy, hb⟩
  · intro svc p e r
    rw [h.activeMirror]
    constructor
    · rintro ⟨hr2, q, y, hq, hy, rest⟩
      exact ⟨hr2, q, y, hq, by rw [hkeep _ (ha r hr2)]; exact hy, rest⟩
    · rintro ⟨hr2, q, y, hq, hy, rest⟩
      exact ⟨hr2, q, y, hq, (hget _ y hy).2, rest⟩
  · intro c2 y hy hb; exact h.bRunExp c2 y (hget c2 y hy).2 hb
  · intro r hr2
    obtain ⟨y, hy, hb⟩ := h.activeRunning r hr2
    exact ⟨y, by rw [hkeep _ (ha r hr2)]; exact hy, hb⟩
  · intro c2 y hy hb; exact h.counts c2 y (hget c2 y hy).2 hb

/-- the end of a batch's expiry block: the context's markers, records and expiry entry are gone and the
    context is left with its batch completed and (here) not running -/
theorem XInv.expireCore {c : CtxId} {x x' : Ctx}
    {reqs' : Map ReqId Req} {resps' : Map ReqId Resp}
    {activeB' : FSet (SvcName × Addr × Int × ReqId)} {activeI' : FSet ReqId}
    (h : XInv cfg height ctxs expQ newQ expH newH usedIds reqs activeB activeI resps)
    (hx : Map.get ctxs c = some x) (hexp : Map.get expH c = some height)
    (h1 : x'.cons = x.cons) (h2 : x'.svc = x.svc) (h3 : x'.batch = x.batch) (hwf : ctxOK x')
    (hbs : x'.bstate = .completed) (hnr : x'.state ≠ .running)
    (hAI : ∀ r, r ∈ activeI' ↔ r ∈ activeI ∧ r.ctx ≠ c)
    (hAB : ∀ t, t ∈ activeB' ↔ t ∈ activeB ∧ t.2.2.2.ctx ≠ c)
    (hAIn : activeI'.Nodup)
    (hAIf : ∀ c2, c2 ≠ c → activeI'.filter (fun r => r.ctx = c2) = activeI.filter (fun r => r.ctx = c2))
    (hreqs : ∀ r, Map.get reqs' r = if r.ctx = c then none else Map.get reqs r)
    (hresps : ∀ r, Map.get resps' r = if r.ctx = c then none else Map.get resps r) :
    XInv cfg height (Map.set ctxs c x') (FSet.rem expQ (height, c)) newQ (Map.del expH c) newH usedIds
      reqs' activeB' activeI' resps' := by
  have hnewnone : Map.get newH c = none := by
    rcases h.single c with hn | he
    · exact hn
    · rw [he] at hexp; simp at hexp
  have hget : ∀ c2 y, Map.get (Map.set ctxs c x') c2 = some y →
      (c2 = c ∧ y = x') ∨ (c2 ≠ c ∧ Map.get ctxs c2 = some y) := by
    intro c2 y hy
    rw [Map.get_set] at hy
    by_cases hc : c = c2
    · subst hc; simp at hy; left; exact ⟨rfl, hy.symm⟩
    · simp [hc] at hy; right; exact ⟨fun e => hc e.symm, hy⟩
  have hsome : ∀ c2, (Map.get (Map.set ctxs c x') c2).isSome = (Map.get ctxs c2).isSome := by
    intro c2
    rw [Map.get_set]
    by_cases hc : c = c2
    · subst hc; simp [hx]
    · simp [hc]
  have hreq_some : ∀ r q, Map.get reqs' r = some q → r.ctx ≠ c ∧ Map.get reqs r = some q := by
    intro r q hq
    rw [hreqs] at hq
    split at hq
    · simp at hq
    · exact ⟨by assumption, hq⟩
  refine { ctxWF := ?_, ctxCons := ?_, newMirror := h.newMirror, expMirror := ?_, single := ?_, newFuture := ?_,
           expFuture := ?_, runningQ := ?_, used := ?_, reqCtx := ?_, activeReq := ?_, activeMirror := ?_,
           respReq := ?_, activeNodup := hAIn, bRunExp := ?_, activeRunning := ?_, counts := ?_ }
  · intro c2 y hy
    rcases hget c2 y hy with ⟨_, rfl⟩ | ⟨_, hy'⟩
    · exact hwf
    · exact h.ctxWF c2 y hy'
  · intro c2 y hy
    rcases hget c2 y hy with ⟨_, rfl⟩ | ⟨_, hy'⟩
    · rw [h1]; exact h.ctxCons _ x hx
    · exact h.ctxCons c2 y hy'
  · intro hh c2
    simp only [FSet.mem_rem, ne_eq, Prod.mk.injEq, not_and]
    rw [Map.get_del, h.expMirror]
    by_cases hc : c = c2
    · subst hc
      simp only [if_true]
      constructor
      · rintro ⟨hm, hne⟩
        rw [hexp] at hm; injection hm with hm
        exact absurd trivial (hne hm.symm)
      · intro hf; cases hf
    · simp only [hc, if_false]
      constructor
      · rintro ⟨hm, _⟩; exact hm
      · intro hm; exact ⟨hm, fun _ e => hc e.symm⟩
  · intro c2
    rw [Map.get_del]
    by_cases hc : c = c2
    · subst hc; right; simp
    · simp only [hc, if_false]; exact h.single c2
  · intro c2 hh hh2
    have := h.newFuture c2 hh hh2
    exact ⟨this.1, by rw [hsome]; exact this.2⟩
  · intro c2 hh hh2
    have hh3 := (Map.get_del_some hh2).2
    have := h.expFuture c2 hh hh3
    exact ⟨this.1, by rw [hsome]; exact this.2⟩
  · intro c2 y hy hr
    rcases hget c2 y hy with ⟨_, rfl⟩ | ⟨hne, hy'⟩
    · exact absurd hr hnr
    · rw [Map.get_del_other _ _ _ (fun e => hne e.symm)]
      exact h.runningQ c2 y hy' hr
  · intro c2 hc2
    rw [hsome] at hc2; exact h.used c2 hc2
  · intro r q hq
    obtain ⟨hne, hq'⟩ := hreq_some r q hq
    obtain ⟨y, hy, hb, he⟩ := h.reqCtx r q hq'
    exact ⟨y, by rw [Map.get_set_other _ _ _ _ (fun e => hne e.symm)]; exact hy, hb,
           by rw [Map.get_del_other _ _ _ (fun e => hne e.symm)]; exact he⟩
  · intro r hr
    obtain ⟨hr1, hne⟩ := (hAI r).mp hr
    rw [hreqs, if_neg hne]
    exact h.activeReq r hr1
  · intro svc p e r
    rw [hAB, hAI, h.activeMirror]
    constructor
    · rintro ⟨⟨hr, q, y, hq, hy, rest⟩, hne⟩
      simp only at hne
      exact ⟨⟨hr, hne⟩, q, y, by rw [hreqs, if_neg hne]; exact hq,
             by rw [Map.get_set_other _ _ _ _ (fun e => hne e.symm)]; exact hy, rest⟩
    · rintro ⟨⟨hr, hne⟩, q, y, hq, hy, rest⟩
      rw [hreqs, if_neg hne] at hq
      rw [Map.get_set_other _ _ _ _ (fun e => hne e.symm)] at hy
      exact ⟨⟨hr, q, y, hq, hy, rest⟩, hne⟩
  · intro r hr
    rw [hresps] at hr
    split at hr
    · simp at hr
    · rename_i hne
      have := h.respReq r hr
      exact ⟨by rw [hreqs, if_neg hne]; exact this.1, fun hm => this.2 ((hAI r).mp hm).1⟩
  · intro c2 y hy hb
    rcases hget c2 y hy with ⟨_, rfl⟩ | ⟨hne, hy'⟩
    · rw [hbs] at hb; cases hb
    · rw [Map.get_del_other _ _ _ (fun e => hne e.symm)]
      exact h.bRunExp c2 y hy' hb
  · intro r hr
    obtain ⟨hr1, hne⟩ := (hAI r).mp hr
    obtain ⟨y, hy, hb⟩ := h.activeRunning r hr1
    exact ⟨y, by rw [Map.get_set_other _ _ _ _ (fun e => hne e.symm)]; exact hy, hb⟩
  · intro c2 y hy hb
    rcases hget c2 y hy with ⟨_, rfl⟩ | ⟨hne, hy'⟩
    · rw [hbs] at hb; cases hb
    · rw [hAIf c2 hne]; exact h.counts c2 y hy' hb

end SM
