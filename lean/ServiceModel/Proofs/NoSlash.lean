import ServiceModel.Proofs.Stable
/-!
# Slashing happens only in `respond` and at the end of a block
-/
namespace SM
open Map

def Effect.isSlash : Effect → Bool
  | .slash .. => true
  | _ => false

def noSlash (l : List Effect) : Prop := ∀ e ∈ l, e.isSlash = false

theorem noSlash_nil : noSlash [] := by intro e h; cases h

macro "noslash_tac" f:ident : tactic =>
  `(tactic| (unfold $f; (try dsimp only); repeat' split
             all_goals (intro e he; simp [fail, panicOut] at he; try (rcases he with rfl | rfl) <;> rfl)))

theorem define_noSlash (s : State) (n : SvcName) (a : Addr) : noSlash (define s n a).2.2 := by noslash_tac define
theorem setwd_noSlash (s : State) (o a : Addr) : noSlash (setwd s o a).2.2 := noSlash_nil
theorem disable_noSlash (s : State) (svc : SvcName) (p o : Addr) : noSlash (disable s svc p o).2.2 := by noslash_tac disable
theorem refund_noSlash (s : State) (svc : SvcName) (p o : Addr) : noSlash (refund s svc p o).2.2 := by
  unfold refund; repeat' split
  all_goals (intro e he; simp [fail] at he; try (subst he; rfl))
theorem enable_noSlash (s : State) (svc : SvcName) (p o : Addr) (dep : Option Nat) : noSlash (enable s svc p o dep).2.2 := by
  unfold enable; (try dsimp only); repeat' split
  all_goals (intro e he; simp [fail, panicOut] at he; try (subst he; rfl))
theorem update_noSlash (s : State) (svc : SvcName) (p o : Addr) (dep : Option Nat) (text : Option PricingText) (qos : Nat) :
    noSlash (update s svc p o dep text qos).2.2 := by
  unfold update; (try dsimp only); repeat' split
  all_goals (intro e he; simp [fail, panicOut] at he; try (subst he; rfl))
theorem bind_noSlash (s : State) (svc : SvcName) (p o : Addr) (dep : Option Nat) (text : PricingText) (qos : Nat) :
    noSlash (bind s svc p o dep text qos).2.2 := by
  unfold bind; (try dsimp only); repeat' split
  all_goals (intro e he; simp [fail, panicOut] at he; try (subst he; rfl))
theorem pauseK_noSlash (s : State) (c : CtxId) (cons : Addr) : noSlash (pauseK s c cons).2.2 := by
  unfold pauseK; (try dsimp only); repeat' split
  all_goals (intro e he; simp [fail] at he; try (subst he; rfl))
theorem startK_noSlash (s : State) (c : CtxId) (cons : Addr) : noSlash (startK s c cons).2.2 := by
  unfold startK; (try dsimp only); repeat' split
  all_goals (intro e he; simp [fail] at he; try (subst he; rfl))
theorem killK_noSlash (s : State) (c : CtxId) (cons : Addr) : noSlash (killK s c cons).2.2 := by
  unfold killK; (try dsimp only); repeat' split
  all_goals (intro e he; simp [fail] at he; try (subst he; rfl))
theorem updateK_noSlash (s : State) (c : CtxId) (cons : Addr) (provs : List Addr) (thr : Nat) (cap : Option Nat)
    (timeout : Int) (freq : Nat) (total : Int) : noSlash (updateK s c cons provs thr cap timeout freq total).2.2 := by
  unfold updateK; (try dsimp only); repeat' split
  all_goals (intro e he; simp [fail] at he)
theorem createCtx_noSlash (s : State) (id : CtxId) (mod : ModName) (svc : SvcName) (provs : List Addr) (cons : Addr)
    (cap : Option Nat) (timeout : Int) (super rep : Bool) (freq : Nat) (total : Int) (inputOk running : Bool) (thr : Nat) :
    noSlash (createCtx s id mod svc provs cons cap timeout super rep freq total inputOk running thr).2.2 := by
  unfold createCtx; (try dsimp only); repeat' split
  all_goals (intro e he; simp [fail] at he)
theorem ctxMsg_noSlash (s : State) (c : CtxId) (cons : Addr) (k : State → Out) (hk : noSlash (k s).2.2) :
    noSlash (ctxMsg s c cons k).2.2 := by
  unfold ctxMsg; split
  · exact noSlash_nil
  · exact hk
theorem withdraw_noSlash (s : State) (o p : Addr) : noSlash (withdraw s o p).2.2 := by
  unfold withdraw; (try dsimp only); repeat' split
  all_goals (intro e he; simp [fail] at he; try (subst he; rfl))

/-- an operation other than a response or the end of a block produces no slash -/
theorem exec_noSlash (s : State) (op : Op) (hne : op.isEndblock = false) (hnr : ∀ r p c o, op ≠ .respond r p c o) :
    noSlash (exec s op).2.2 := by
  cases op with
  | fund a n => exact noSlash_nil
  | xfer a b n =>
    show noSlash (match bankSend s.bank a b n with
      | none => fail s Err.insufficientFunds
      | some bank' => ({ s with bank := bank' }, Res.ok, [])).2.2
    split <;> exact noSlash_nil
  | define n a ok => exact define_noSlash s n a
  | bind svc p o dep text qos =>
    cases text with
    | none => exact noSlash_nil
    | some t => exact bind_noSlash s svc p o dep t qos
  | update svc p o dep text qos => exact update_noSlash s svc p o dep text qos
  | setwd o a => exact noSlash_nil
  | disable svc p o => exact disable_noSlash s svc p o
  | enable svc p o dep => exact enable_noSlash s svc p o dep
  | refund svc p o => exact refund_noSlash s svc p o
  | call id svc provs cons cap timeout super rep freq total inputOk =>
    show noSlash (if s.cfg.modsvc = some svc then panicOut s "module-service call: outside the model"
      else createCtx s id "" svc provs cons cap timeout super rep freq total inputOk true 0).2.2
    split
    · exact noSlash_nil
    · exact createCtx_noSlash s id "" svc provs cons cap timeout super rep freq total inputOk true 0
  | modcreate id mod svc provs cons cap timeout super rep freq total inputOk running thr =>
    exact createCtx_noSlash s id mod svc provs cons cap timeout super rep freq total inputOk running thr
  | respond r p code out => exact absurd rfl (hnr r p code out)
  | pause c cons => exact ctxMsg_noSlash s c cons _ (pauseK_noSlash s c cons)
  | start c cons => exact ctxMsg_noSlash s c cons _ (startK_noSlash s c cons)
  | kill c cons => exact ctxMsg_noSlash s c cons _ (killK_noSlash s c cons)
  | updatectx c cons provs cap timeout freq total => exact ctxMsg_noSlash s c cons _ (updateK_noSlash s c cons provs 0 cap timeout freq total)
  | modpause c cons => exact pauseK_noSlash s c cons
  | modstart c cons => exact startK_noSlash s c cons
  | modkill c cons => exact killK_noSlash s c cons
  | modupdate c cons provs thr cap timeout freq total => exact updateK_noSlash s c cons provs thr cap timeout freq total
  | withdraw o p => exact withdraw_noSlash s o p
  | endblock dt => simp [Op.isEndblock] at hne

theorem step_noSlash (s : State) (op : Op) (hne : op.isEndblock = false) (hnr : ∀ r p c o, op ≠ .respond r p c o) :
    noSlash (step s op).2.2 := by
  unfold step
  split
  · exact noSlash_nil
  · have h := exec_noSlash s op hne hnr
    cases hres : exec s op with
    | mk s' rest =>
      obtain ⟨res, effs⟩ := rest
      rw [hres] at h
      dsimp only
      rw [hne]
      cases res with
      | ok => exact h
      | _ => exact noSlash_nil

end SM

namespace SM
open Map

/-- effects that only move or destroy coins -/
def Effect.isMoney : Effect → Bool
  | .transfer .. => true
  | .xferFail .. => true
  | .slash .. => true
  | _ => false

theorem expireReq_effects (x : Ctx) (s : State) (r : ReqId) : ∀ e ∈ (expireReq x s r).effs, e.isMoney = true := by
  unfold expireReq
  cases hq : get s.reqs r with
  | none => intro e he; cases he
  | some q =>
    dsimp only
    split; · intro e he; cases he
    have hre : ∀ (s1 : State) (e1 : List Effect), (∀ e ∈ e1, e.isMoney = true) →
        ∀ e ∈ (refundExpired s1 e1 x q r).effs, e.isMoney = true := by
      intro s1 e1 h1 e he
      unfold refundExpired at he
      split at he
      · simp only [List.mem_append] at he
        rcases he with he | he
        · exact h1 e he
        · split at he
          · cases he
          · simp only [List.mem_singleton] at he; subst he; rfl
      · simp only [List.mem_append, List.mem_singleton] at he
        rcases he with he | he
        · exact h1 e he
        · subst he; rfl
    cases hs : slash s r x.svc q.prov with
    | overflow => intro e he; cases he
    | bankErr => exact hre s [] (fun e he => by cases he)
    | done s1 e1 =>
      obtain ⟨n, he1⟩ := slash_effects hs
      subst he1
      exact hre s1 _ (fun e he => by simp only [List.mem_singleton] at he; subst he; rfl)

theorem foldH_effects {α : Type} (hd : State → α → HRes) (P : Effect → Prop) (hk : ∀ s a, ∀ e ∈ (hd s a).effs, P e) :
    ∀ (l : List α) (s : State), ∀ e ∈ (foldH hd s l).effs, P e := by
  intro l
  induction l with
  | nil => intro s e he; cases he
  | cons a t ih =>
    intro s e he
    rw [foldH_cons] at he
    split at he
    · exact hk s a e he
    · simp only [List.mem_append] at he
      rcases he with he | he
      · exact hk s a e he
      · exact ih _ e he

end SM
