import ServiceModel.Proofs.Valid
/-!
# C10: a one-shot context never gets more than one batch

Invariant `KInv`: for a non-repeated context the batch counter is at most 1, and it is 0 as long as the context
is waiting for a batch (it has a new-batch pointer) or is paused. A batch is only issued or skipped for a context
that has a new-batch pointer, the pointer is removed by that very handler, nothing re-queues a running one-shot
context (start needs `paused`; a consumer cannot pause it; the pause for lack of funds happens instead of the
batch), and its expiry removes it.
-/
namespace SM
open Map

def KOK (x : Ctx) (nh : Option Int) : Prop :=
  x.rep = false → x.batch ≤ 1 ∧ ((nh.isSome ∨ x.state = .paused) → x.batch = 0)

def KInv (s : State) : Prop := ∀ c x, get s.ctxs c = some x → KOK x (get s.newH c)

theorem KOK.of_rep {x : Ctx} {nh : Option Int} (h : x.rep = true) : KOK x nh := by
  intro hr; rw [h] at hr; cases hr

theorem KOK.of_zero {x : Ctx} {nh : Option Int} (h : x.batch = 0) : KOK x nh := by
  intro _; rw [h]; exact ⟨by omega, fun _ => rfl⟩

theorem KOK.congr {x y : Ctx} {nh nh' : Option Int} (h1 : y.rep = x.rep) (h2 : y.batch = x.batch) (h3 : y.state = x.state)
    (h4 : nh' = nh) (h : KOK x nh) : KOK y nh' := by
  unfold KOK at *
  rw [h1, h2, h3, h4]; exact h

/-- `KInv` after a step that only touches the context `c` and its pointer -/
theorem kinv_local {s s' : State} (c : CtxId) (hk : KInv s)
    (hother : ∀ c2, c2 ≠ c → get s'.ctxs c2 = get s.ctxs c2 ∧ get s'.newH c2 = get s.newH c2)
    (hc : ∀ y, get s'.ctxs c = some y → KOK y (get s'.newH c)) : KInv s' := by
  intro c2 y hy
  by_cases h : c2 = c
  · subst h; exact hc y hy
  · obtain ⟨h1, h2⟩ := hother c2 h
    rw [h1] at hy; rw [h2]; exact hk c2 y hy

theorem kinv_of_eq {s s' : State} (hk : KInv s) (h1 : s'.ctxs = s.ctxs) (h2 : s'.newH = s.newH) : KInv s' := by
  intro c y hy; rw [h1] at hy; rw [h2]; exact hk c y hy

/-! ### keeper functions on one context -/
theorem pauseK_kinv (s : State) (c : CtxId) (cons : Addr) (hk : KInv s) : KInv (pauseK s c cons).1 := by
  unfold pauseK
  cases hx : get s.ctxs c with
  | none => exact hk
  | some x =>
    dsimp only
    split; · exact hk
    split; · exact hk
    rename_i hrep
    split; · exact hk
    refine kinv_local c hk (fun c2 hc2 => ⟨by simp [setCtx, Map.get_set_other _ _ _ _ (fun e => hc2 e.symm)], rfl⟩) ?_
    intro y hy
    simp only [setCtx, Map.get_set_same, Option.some.injEq] at hy; subst hy
    exact KOK.of_rep (by simpa using hrep)

theorem killK_kinv (s : State) (c : CtxId) (cons : Addr) (hk : KInv s) : KInv (killK s c cons).1 := by
  unfold killK
  cases hx : get s.ctxs c with
  | none => exact hk
  | some x =>
    dsimp only
    split; · exact hk
    split; · exact hk
    rename_i hrep
    refine kinv_local c hk (fun c2 hc2 => ⟨by simp [setCtx, Map.get_set_other _ _ _ _ (fun e => hc2 e.symm)], rfl⟩) ?_
    intro y hy
    simp only [setCtx, Map.get_set_same, Option.some.injEq] at hy; subst hy
    exact KOK.of_rep (by simpa using hrep)

theorem startK_kinv (s : State) (c : CtxId) (cons : Addr) (hk : KInv s) : KInv (startK s c cons).1 := by
  unfold startK
  cases hx : get s.ctxs c with
  | none => exact hk
  | some x =>
    dsimp only
    split; · exact hk
    split; · exact hk
    rename_i hp
    have hp' : x.state = .paused := by simpa using hp
    -- a paused one-shot context has counter 0
    have hzero : x.rep = false → x.batch = 0 := fun hr => (hk c x hx hr).2 (Or.inr hp')
    have hy : ∀ nh, KOK { x with state := .running } nh := by
      intro nh hr
      have := hzero hr
      show x.batch ≤ 1 ∧ (_ → x.batch = 0)
      exact ⟨by omega, fun _ => this⟩
    split
    · refine kinv_local c hk (fun c2 hc2 => ⟨?_, ?_⟩) ?_
      · simp [setCtx, addNewQ, Map.get_set_other _ _ _ _ (fun e => hc2 e.symm)]
      · simp [setCtx, addNewQ, Map.get_set_other _ _ _ _ (fun e => hc2 e.symm)]
      · intro y hy'
        simp only [setCtx, addNewQ, Map.get_set_same, Option.some.injEq] at hy'; subst hy'
        exact hy _
    · refine kinv_local c hk (fun c2 hc2 => ⟨by simp [setCtx, Map.get_set_other _ _ _ _ (fun e => hc2 e.symm)], rfl⟩) ?_
      intro y hy'
      simp only [setCtx, Map.get_set_same, Option.some.injEq] at hy'; subst hy'
      exact hy _

theorem updateK_kinv (s : State) (c : CtxId) (cons : Addr) (provs : List Addr) (thr : Nat) (cap : Option Nat)
    (timeout : Int) (freq : Nat) (total : Int) (hk : KInv s) : KInv (updateK s c cons provs thr cap timeout freq total).1 := by
  unfold updateK
  cases hx : get s.ctxs c with
  | none => exact hk
  | some x =>
    dsimp only
    split; · exact hk
    split; · exact hk
    cases hu : updThr x provs thr cap timeout freq total with
    | error e => exact hk
    | ok x1 =>
      dsimp only
      split; · exact hk
      split; · exact hk
      split; · exact hk
      split; · exact hk
      obtain ⟨⟨_, _, c3, _, _, _⟩, _, _, hr, hst, _⟩ := updThr_ok hu
      refine kinv_local c hk (fun c2 hc2 => ⟨by simp [setCtx, Map.get_set_other _ _ _ _ (fun e => hc2 e.symm)], rfl⟩) ?_
      intro y hy
      simp only [setCtx, Map.get_set_same, Option.some.injEq] at hy; subst hy
      exact KOK.congr (x := x) hr c3 hst rfl (hk c x hx)

theorem ctxMsg_kinv (s : State) (c : CtxId) (cons : Addr) (k : State → Out) (hk : KInv s) (hks : KInv (k s).1) :
    KInv (ctxMsg s c cons k).1 := by
  unfold ctxMsg; split
  · exact hk
  · exact hks

theorem createCtx_kinv (s : State) (id : CtxId) (mod : ModName) (svc : SvcName) (provs : List Addr) (cons : Addr)
    (cap : Option Nat) (timeout : Int) (super rep : Bool) (freq : Nat) (total : Int) (inputOk running : Bool) (thr : Nat)
    (hk : KInv s) (hnew : get s.ctxs id = none) :
    KInv (createCtx s id mod svc provs cons cap timeout super rep freq total inputOk running thr).1 := by
  unfold createCtx; dsimp only
  repeat' split
  all_goals first
    | exact hk
    | (refine kinv_local id hk (fun c2 hc2 => ⟨?_, ?_⟩) ?_
       · simp [setCtx, addNewQ, Map.get_set_other _ _ _ _ (fun e => hc2 e.symm)]
       · simp [setCtx, addNewQ, Map.get_set_other _ _ _ _ (fun e => hc2 e.symm)]
       · intro y hy
         simp only [setCtx, addNewQ, Map.get_set_same, Option.some.injEq] at hy; subst hy
         exact KOK.of_zero rfl)

theorem respond_kinv (s : State) (r : ReqId) (pv : Addr) (code : Nat) (out : OutKind) (hk : KInv s) :
    KInv (respond s r pv code out).1 := by
  unfold respond
  cases hq : get s.reqs r with
  | none => exact hk
  | some q =>
    dsimp only
    cases hx : get s.ctxs r.ctx with
    | none => exact hk
    | some x =>
      dsimp only
      split; · exact hk
      split; · exact hk
      cases hs : settle s r x.svc x.cons q pv out with
      | error res => exact hk
      | ok res =>
        obtain ⟨s1, e1⟩ := res
        dsimp only
        obtain ⟨bank', bs, ea, oe, hshape, _⟩ := settle_shape hs
        subst hshape
        split
        · refine kinv_local r.ctx hk (fun c2 hc2 => ⟨by simp [setCtx, delActive, Map.get_set_other _ _ _ _ (fun e => hc2 e.symm)], rfl⟩) ?_
          intro y hy
          simp only [setCtx, delActive, Map.get_set_same, Option.some.injEq] at hy; subst hy
          exact KOK.congr (x := x) rfl rfl rfl rfl (hk r.ctx x hx)
        · refine kinv_local r.ctx hk (fun c2 hc2 => ⟨by simp [setCtx, delActive, Map.get_set_other _ _ _ _ (fun e => hc2 e.symm)], rfl⟩) ?_
          intro y hy
          simp only [setCtx, delActive, Map.get_set_same, Option.some.injEq] at hy; subst hy
          exact KOK.congr (x := x) rfl rfl rfl rfl (hk r.ctx x hx)

/-! ### end of block -/
theorem foldH_proj {α β : Type} (hd : State → α → HRes) (f : State → β) (hk : ∀ s a, f (hd s a).s = f s) :
    ∀ (l : List α) (s : State), f (foldH hd s l).s = f s := by
  intro l
  induction l with
  | nil => intro s; rfl
  | cons a t ih =>
    intro s
    rw [foldH_cons]
    split
    · exact hk s a
    · exact (ih _).trans (hk s a)

theorem expireReq_ctxs_newH (x : Ctx) (s : State) (r : ReqId) :
    (expireReq x s r).s.ctxs = s.ctxs ∧ (expireReq x s r).s.newH = s.newH := by
  unfold expireReq
  cases hq : get s.reqs r with
  | none => exact ⟨rfl, rfl⟩
  | some q =>
    dsimp only
    split; · exact ⟨rfl, rfl⟩
    have hre : ∀ (s1 : State) (e1 : List Effect), (refundExpired s1 e1 x q r).s.ctxs = s1.ctxs ∧
        (refundExpired s1 e1 x q r).s.newH = s1.newH := by
      intro s1 e1; unfold refundExpired; split <;> exact ⟨rfl, rfl⟩
    cases hs : slash s r x.svc q.prov with
    | overflow => exact ⟨rfl, rfl⟩
    | bankErr => exact hre s []
    | done s1 e1 =>
      dsimp only
      rcases slash_shape hs with rfl | ⟨bank', b', rfl⟩
      · exact hre _ e1
      · exact hre _ e1

theorem expirePending_ctxs_newH (s : State) (c : CtxId) (x : Ctx) :
    (expirePending s c x).1.s.ctxs = s.ctxs ∧ (expirePending s c x).1.s.newH = s.newH ∧
    (expirePending s c x).2.rep = x.rep ∧ (expirePending s c x).2.batch = x.batch ∧ (expirePending s c x).2.state = x.state := by
  unfold expirePending
  split
  · exact ⟨foldH_proj _ (·.ctxs) (fun s a => (expireReq_ctxs_newH x s a).1) _ s,
           foldH_proj _ (·.newH) (fun s a => (expireReq_ctxs_newH x s a).2) _ s, rfl, rfl, rfl⟩
  · exact ⟨rfl, rfl, rfl, rfl, rfl⟩

/-- the expiry handler of one entry keeps `KInv` -/
theorem expireBatch_kinv (s : State) (c : CtxId) (hk : KInv s) : KInv (expireBatch s c).s := by
  unfold expireBatch
  split; · exact hk
  cases hx : get s.ctxs c with
  | none => exact kinv_of_eq hk rfl rfl
  | some x =>
    dsimp only
    obtain ⟨p1, p2, p3, p4, p5⟩ := expirePending_ctxs_newH s c x
    have hk1 : KInv (expirePending s c x).1.s := kinv_of_eq hk p1 p2
    split
    · exact hk1
    · -- the tail: the context is rewritten (paused), re-queued (repeated) or removed
      have hx1 : get (expirePending s c x).1.s.ctxs c = some x := by rw [p1]; exact hx
      generalize (expirePending s c x).1.s = s1 at hk1 hx1
      generalize hx1' : (expirePending s c x).2 = x1 at p3 p4 p5
      show KInv (expireTail s1 c x1).1
      unfold expireTail
      dsimp only
      cases hst : x1.state with
      | completed =>
        dsimp only
        refine kinv_local c hk1 (fun c2 hc2 => ⟨?_, rfl⟩) ?_
        · simp [cleanBatch, delCtx, setCtx, delExpQ, Map.get_del_other _ _ _ (fun e => hc2 e.symm),
            Map.get_set_other _ _ _ _ (fun e => hc2 e.symm)]
        · intro y hy
          simp [cleanBatch, delCtx, setCtx, delExpQ] at hy
      | paused =>
        dsimp only
        refine kinv_local c hk1 (fun c2 hc2 => ⟨?_, rfl⟩) ?_
        · simp [cleanBatch, setCtx, delExpQ, Map.get_set_other _ _ _ _ (fun e => hc2 e.symm)]
        · intro y hy
          simp only [cleanBatch, setCtx, delExpQ, Map.get_set_same, Option.some.injEq] at hy; subst hy
          exact KOK.congr (x := x) p3 p4 p5 rfl (hk1 c x hx1)
      | running =>
        dsimp only
        split
        · rename_i hmore
          refine kinv_local c hk1 (fun c2 hc2 => ⟨?_, ?_⟩) ?_
          · simp [cleanBatch, addNewQ, setCtx, delExpQ, Map.get_set_other _ _ _ _ (fun e => hc2 e.symm)]
          · simp [cleanBatch, addNewQ, setCtx, delExpQ, Map.get_set_other _ _ _ _ (fun e => hc2 e.symm)]
          · intro y hy
            simp only [cleanBatch, addNewQ, setCtx, delExpQ, Map.get_set_same, Option.some.injEq] at hy; subst hy
            exact KOK.of_rep hmore.1
        · refine kinv_local c hk1 (fun c2 hc2 => ⟨?_, rfl⟩) ?_
          · simp [cleanBatch, delCtx, setCtx, delExpQ, Map.get_del_other _ _ _ (fun e => hc2 e.symm),
              Map.get_set_other _ _ _ _ (fun e => hc2 e.symm)]
          · intro y hy
            simp [cleanBatch, delCtx, setCtx, delExpQ] at hy

/-- the new-batch handler of one entry keeps `KInv`: a one-shot context that is due has counter 0 -/
theorem newBatch_kinv (s : State) (c : CtxId) (h : Inv s) (hk : KInv s) : KInv (newBatch s c).s := by
  unfold newBatch
  split; · exact hk
  rename_i hq
  have hmem : (s.height, c) ∈ s.newQ := by simpa using hq
  have hdue : get s.newH c = some s.height := (h.x.newMirror s.height c).mp hmem
  cases hx : get s.ctxs c with
  | none =>
    show KInv (delNewQ s c s.height)
    exact kinv_local c hk (fun c2 hc2 => ⟨rfl, by simp [delNewQ, Map.get_del_other _ _ _ (fun e => hc2 e.symm)]⟩)
              (fun y hy => by simp [delNewQ, hx] at hy)
  | some x =>
    dsimp only
    have hzero : x.rep = false → x.batch = 0 := fun hr => (hk c x hx hr).2 (Or.inl (by rw [hdue]; rfl))
    split
    · refine kinv_local c hk (fun c2 hc2 => ⟨?_, ?_⟩) ?_
      · simp [delNewQ, delCtx, Map.get_del_other _ _ _ (fun e => hc2 e.symm)]
      · simp [delNewQ, delCtx, Map.get_del_other _ _ _ (fun e => hc2 e.symm)]
      · intro y hy; simp [delNewQ, delCtx] at hy
    · split
      · show KInv (delNewQ s c s.height)
        refine kinv_local c hk (fun c2 hc2 => ⟨rfl, by simp [delNewQ, Map.get_del_other _ _ _ (fun e => hc2 e.symm)]⟩) ?_
        intro y hy
        have hy' : get s.ctxs c = some y := hy
        rw [hx] at hy'; injection hy' with hy'; subst hy'
        show KOK x (get (Map.del s.newH c) c)
        intro hr
        have := hzero hr
        exact ⟨by omega, fun _ => this⟩
      · rename_i _ hrun
        have hrun' : x.state = .running := by simpa using hrun
        -- after the handler the pointer is gone, the context is running (counter 0 → 1) or paused (counter 0)
        have hissue : ∀ (bank' : Bank) (el : List (Addr × Nat)) (ep : List Effect),
            KInv (delNewQ (issueBatch s bank' c x el ep).1 c s.height) := by
          intro bank' el ep
          have hc := issueBatch_ctxs s bank' c x el ep
          obtain ⟨_, hn, _⟩ := issueBatch_ptrs s bank' c x el ep
          refine kinv_local c hk (fun c2 hc2 => ⟨?_, ?_⟩) ?_
          · show get (issueBatch s bank' c x el ep).1.ctxs c2 = _
            rw [hc, Map.get_set_other _ _ _ _ (fun e => hc2 e.symm)]
          · show get (Map.del (issueBatch s bank' c x el ep).1.newH c) c2 = _
            rw [hn, Map.get_del_other _ _ _ (fun e => hc2 e.symm)]
          · intro y hy
            have hy' : get (issueBatch s bank' c x el ep).1.ctxs c = some y := hy
            rw [hc, Map.get_set_same] at hy'; injection hy' with hy'; subst hy'
            intro hr
            have hz := hzero hr
            refine ⟨by show x.batch + 1 ≤ 1; omega, fun hh => ?_⟩
            exfalso
            rcases hh with hh | hh
            · have : get (Map.del (issueBatch s bank' c x el ep).1.newH c) c = none := Map.get_del_same _ _
              have hh' : (get (Map.del (issueBatch s bank' c x el ep).1.newH c) c).isSome := hh
              rw [this] at hh'; cases hh'
            · have hh' : x.state = .paused := hh
              rw [hrun'] at hh'; cases hh'
        show KInv (delNewQ (startOrSkip s c x).1 c s.height)
        unfold startOrSkip
        split
        · split
          · exact hissue _ _ _
          · cases hb : bankSend s.bank x.cons s.cfg.escrow (sumPrices (eligible s x)) with
            | some bk => exact hissue _ _ _
            | none =>
              dsimp only
              refine kinv_local c hk (fun c2 hc2 => ⟨?_, ?_⟩) ?_
              · simp [delNewQ, setCtx, Map.get_set_other _ _ _ _ (fun e => hc2 e.symm)]
              · simp [delNewQ, setCtx, Map.get_del_other _ _ _ (fun e => hc2 e.symm)]
              · intro y hy
                simp only [delNewQ, setCtx, Map.get_set_same, Option.some.injEq] at hy; subst hy
                intro hr
                have := hzero hr
                exact ⟨by show x.batch ≤ 1; omega, fun _ => this⟩
        · refine kinv_local c hk (fun c2 hc2 => ⟨?_, ?_⟩) ?_
          · simp [delNewQ, addExpQ, setCtx, Map.get_set_other _ _ _ _ (fun e => hc2 e.symm)]
          · simp [delNewQ, addExpQ, setCtx, Map.get_del_other _ _ _ (fun e => hc2 e.symm)]
          · intro y hy
            simp only [delNewQ, addExpQ, setCtx, Map.get_set_same, Option.some.injEq] at hy; subst hy
            intro hr
            have hz := hzero hr
            refine ⟨by show x.batch + 1 ≤ 1; omega, fun hh => ?_⟩
            exfalso
            rcases hh with hh | hh
            · have hh' : (get (Map.del (Map.set s.expH c (s.height + x.timeout) |> fun _ => s.newH) c) c).isSome := hh
              rw [Map.get_del_same] at hh'; cases hh'
            · have hh' : x.state = .paused := hh
              rw [hrun'] at hh'; cases hh'

theorem endBlock_kinv (s : State) (dt : Int) (h : Inv s) (hk : KInv s) : KInv (endBlock s dt).s := by
  have step1 : ∀ (l : List CtxId) (s : State), Inv s ∧ KInv s → Inv (foldH expireBatch s l).s ∧ KInv (foldH expireBatch s l).s := by
    intro l s hs
    have := foldH_nopanic_of expireBatch (fun s => Inv s ∧ KInv s)
      (fun s a hs => ⟨expireBatch_nopanic hs.1 a,
        expireBatch_inv s a hs.1 (expireBatch_nopanic hs.1 a), expireBatch_kinv s a hs.2⟩) l s hs
    exact this.2
  have step2 : ∀ (l : List CtxId) (s : State), Inv s ∧ KInv s → Inv (foldH newBatch s l).s ∧ KInv (foldH newBatch s l).s := by
    intro l s hs
    have := foldH_nopanic_of newBatch (fun s => Inv s ∧ KInv s)
      (fun s a hs => ⟨newBatch_nopanic s a, newBatch_inv s a hs.1, newBatch_kinv s a hs.1 hs.2⟩) l s hs
    exact this.2
  have h1 := step1 (queuedAt s.expQ s.height) s ⟨h, hk⟩
  have h2 := step2 (queuedAt (foldH expireBatch s (queuedAt s.expQ s.height)).s.newQ (foldH expireBatch s (queuedAt s.expQ s.height)).s.height) _ h1
  unfold endBlock
  dsimp only
  split
  · exact h1.2
  · split
    · exact h2.2
    · exact kinv_of_eq h2.2 rfl rfl

/-! ### every step -/
theorem withdraw_ctxs_newH (s : State) (o p : Addr) :
    (withdraw s o p).1.ctxs = s.ctxs ∧ (withdraw s o p).1.newH = s.newH := by
  unfold withdraw
  split; · exact ⟨rfl, rfl⟩
  cases hw : withdrawRecords s o p with
  | error r => exact ⟨rfl, rfl⟩
  | ok res =>
    obtain ⟨s1, amt⟩ := res
    dsimp only
    have h1 : s1.ctxs = s.ctxs ∧ s1.newH = s.newH := by
      unfold withdrawRecords at hw
      repeat' split at hw
      all_goals first
        | (cases hw; done)
        | (simp only [Except.ok.injEq, Prod.mk.injEq] at hw; obtain ⟨e1, _⟩ := hw; subst e1; exact ⟨rfl, rfl⟩)
    split; · exact ⟨rfl, rfl⟩
    split
    · exact ⟨rfl, rfl⟩
    · exact h1

theorem exec_kinv (s : State) (op : Op) (h : Inv s) (hw : WF s op) (hk : KInv s) : KInv (exec s op).1 := by
  cases op with
  | fund a n => exact kinv_of_eq hk rfl rfl
  | xfer a b n =>
    show KInv (match bankSend s.bank a b n with
      | none => fail s Err.insufficientFunds
      | some bank' => ({ s with bank := bank' }, Res.ok, [])).1
    split
    · exact hk
    · exact kinv_of_eq hk rfl rfl
  | define n a ok => show KInv (define s n a).1; unfold define; split <;> exact kinv_of_eq hk rfl rfl
  | bind svc p o dep text qos =>
    cases text with
    | none => exact hk
    | some t =>
      have hf := bind_frame s svc p o dep t qos
      exact kinv_of_eq hk hf.2.2.2.1 hf.2.2.2.2.2.2.2.1
  | update svc p o dep text qos =>
    have hf := update_frame s svc p o dep text qos
    exact kinv_of_eq hk hf.2.2.2.1 hf.2.2.2.2.2.2.2.1
  | setwd o a => exact kinv_of_eq hk rfl rfl
  | disable svc p o =>
    have hf := disable_frame s svc p o
    exact kinv_of_eq hk hf.2.2.2.1 hf.2.2.2.2.2.2.2.1
  | enable svc p o dep =>
    have hf := enable_frame s svc p o dep
    exact kinv_of_eq hk hf.2.2.2.1 hf.2.2.2.2.2.2.2.1
  | refund svc p o =>
    have hf := refund_frame s svc p o
    exact kinv_of_eq hk hf.2.2.2.1 hf.2.2.2.2.2.2.2.1
  | call id svc provs cons cap timeout super rep freq total inputOk =>
    show KInv (if s.cfg.modsvc = some svc then panicOut s "module-service call: outside the model"
      else createCtx s id "" svc provs cons cap timeout super rep freq total inputOk true 0).1
    obtain ⟨_, hfresh, hms⟩ : ¬ s.modAcct cons ∧ id ∉ s.usedIds ∧ s.cfg.modsvc ≠ some svc := hw
    rw [if_neg hms]
    refine createCtx_kinv s id "" svc provs cons cap timeout super rep freq total inputOk true 0 hk ?_
    cases hg : get s.ctxs id with
    | none => rfl
    | some x => exact absurd (h.x.used id (by rw [hg]; rfl)) hfresh
  | modcreate id mod svc provs cons cap timeout super rep freq total inputOk running thr =>
    obtain ⟨_, hfresh, _, _⟩ : ¬ s.modAcct cons ∧ id ∉ s.usedIds ∧ mod ≠ "" ∧ cons ≠ "" := hw
    refine createCtx_kinv s id mod svc provs cons cap timeout super rep freq total inputOk running thr hk ?_
    cases hg : get s.ctxs id with
    | none => rfl
    | some x => exact absurd (h.x.used id (by rw [hg]; rfl)) hfresh
  | respond r p code out => exact respond_kinv s r p code out hk
  | pause c cons => exact ctxMsg_kinv s c cons _ hk (pauseK_kinv s c cons hk)
  | start c cons => exact ctxMsg_kinv s c cons _ hk (startK_kinv s c cons hk)
  | kill c cons => exact ctxMsg_kinv s c cons _ hk (killK_kinv s c cons hk)
  | updatectx c cons provs cap timeout freq total =>
    exact ctxMsg_kinv s c cons _ hk (updateK_kinv s c cons provs 0 cap timeout freq total hk)
  | modpause c cons => exact pauseK_kinv s c cons hk
  | modstart c cons => exact startK_kinv s c cons hk
  | modkill c cons => exact killK_kinv s c cons hk
  | modupdate c cons provs thr cap timeout freq total => exact updateK_kinv s c cons provs thr cap timeout freq total hk
  | withdraw o p => exact kinv_of_eq hk (withdraw_ctxs_newH s o p).1 (withdraw_ctxs_newH s o p).2
  | endblock dt =>
    show KInv (match (endBlock s dt).panic with
        | some m => (s, Res.panic m, (endBlock s dt).effs)
        | none => ((endBlock s dt).s, Res.ok, (endBlock s dt).effs)).1
    split
    · exact hk
    · exact endBlock_kinv s dt h hk

/-- C10: in every reachable state a one-shot context has had at most one batch (and none while it is still
    waiting for its batch or is paused for lack of funds) -/
theorem kinv_reachable {cfg : Config} {p : Params} {h0 t0 : Int} (hc : CfgOK cfg p) {s : State}
    (hr : Reachable cfg p h0 t0 s) : KInv s := by
  induction hr with
  | init => intro c x hx; simp [genesis, Map.get] at hx
  | @step s op hr' hw ih =>
    rcases step_state s op with h1 | ⟨h1, _, _⟩
    · rw [h1]; exact ih
    · rw [h1]; exact exec_kinv s op (reachable_inv hc hr') hw ih

end SM
