import ServiceModel.Inv.Defs
/-!
# Generic lemmas about `step`: the cache discipline
-/
namespace SM

/-- the post-state of a step is the pre-state, or the post-state of `exec` when the result
    is `ok` (or the op is the end of a block, which has no cache) -/
theorem step_state (s : State) (op : Op) :
    (step s op).1 = s ∨
    ((step s op).1 = (exec s op).1 ∧ ((exec s op).2.1 = .ok ∨ op.isEndblock = true) ∧ validateBasic op = true) := by
  unfold step
  by_cases hv : validateBasic op = true
  · simp only [hv, Bool.not_true, Bool.false_eq_true, if_false]
    by_cases he : op.isEndblock = true
    · simp [he]
    · simp only [he, if_false, Bool.false_eq_true]
      generalize exec s op = r
      obtain ⟨s', res, effs⟩ := r
      cases res <;> simp
  · simp [hv]

/-- to show a predicate after a step it suffices to show it after every successful `exec` -/
theorem step_preserves {P : State → Prop} (s : State) (op : Op) (hs : P s)
    (h : validateBasic op = true → ((exec s op).2.1 = .ok ∨ op.isEndblock = true) → P (exec s op).1) :
    P (step s op).1 := by
  rcases step_state s op with h1 | ⟨h1, h2, h3⟩
  · rw [h1]; exact hs
  · rw [h1]; exact h h3 h2

end SM
