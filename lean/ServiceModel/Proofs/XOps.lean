import ServiceModel.Proofs.XWorld
/-!
# The invocation world is preserved by the context operations (create, pause, start, kill, update)
-/
namespace SM
open Map

theorem Map.set_set {κ ν} [DecidableEq κ] (m : Map κ ν) (k : κ) (a b : ν) :
    Map.set (Map.set m k a) k b = Map.set m k b := by
  induction m with
  | nil => simp [Map.set]
  | cons hd t ih =>
    obtain ⟨k', v'⟩ := hd
    by_cases hk : k' = k
    · subst hk; simp [Map.set]
    · simp [Map.set, hk, ih]

theorem pauseK_invX (s : State) (c : CtxId) (cons : Addr) (h : InvX s) : InvX (pauseK s c cons).1 := by
  unfold pauseK
  cases hx : Map.get s.ctxs c with
  | none => exact h
  | some x =>
    dsimp only
    split; · exact h
    split; · exact h
    split; · exact h
    exact XInv.setCtx h hx ⟨rfl, rfl, rfl, rfl, rfl, rfl⟩ (h.ctxWF c x hx) (by intro hr; cases hr)

theorem killK_invX (s : State) (c : CtxId) (cons : Addr) (h : InvX s) : InvX (killK s c cons).1 := by
  unfold killK
  cases hx : Map.get s.ctxs c with
  | none => exact h
  | some x =>
    dsimp only
    split; · exact h
    split; · exact h
    exact XInv.setCtx h hx ⟨rfl, rfl, rfl, rfl, rfl, rfl⟩ (h.ctxWF c x hx) (by intro hr; cases hr)

theorem startK_invX (s : State) (c : CtxId) (cons : Addr) (h : InvX s) : InvX (startK s c cons).1 := by
  unfold startK
  cases hx : Map.get s.ctxs c with
  | none => exact h
  | some x =>
    dsimp only
    split; · exact h
    split; · exact h
    split
    · rename_i hnone
      simp only [setCtx] at hnone
      have hn : Map.get s.newH c = none := by
        cases hv : Map.get s.newH c with
        | none => rfl
        | some _ => rw [hv] at hnone; simp at hnone
      have he : Map.get s.expH c = none := by
        cases hv : Map.get s.expH c with
        | none => rfl
        | some _ => rw [hv] at hnone; simp at hnone
      exact XInv.setCtxAddNew h hx ⟨rfl, rfl, rfl, rfl, rfl, rfl⟩ (h.ctxWF c x hx) (Int.le_refl _) hn he
    · rename_i hsome
      simp only [setCtx] at hsome
      refine XInv.setCtx h hx ⟨rfl, rfl, rfl, rfl, rfl, rfl⟩ (h.ctxWF c x hx) ?_
      intro _
      cases hv : Map.get s.newH c with
      | some _ => left; show (Map.get s.newH c).isSome = true; rw [hv]; rfl
      | none =>
        cases hw : Map.get s.expH c with
        | some _ => right; show (Map.get s.expH c).isSome = true; rw [hw]; rfl
        | none => rw [hv, hw] at hsome; simp at hsome

end SM

namespace SM
open Map

theorem updThr_ok {x x1 : Ctx} {provs : List Addr} {thr : Nat} {cap : Option Nat} {timeout : Int} {freq : Nat} {total : Int}
    (h : updThr x provs thr cap timeout freq total = .ok x1) :
    sameCore x1 x ∧ x1.timeout = x.timeout ∧ x1.freq = x.freq ∧ x1.rep = x.rep ∧ x1.state = x.state ∧ x1.super = x.super := by
  unfold updThr at h
  dsimp only at h
  repeat' (split at h)
  all_goals first
    | (simp at h; done)
    | (injection h with h; subst h; exact ⟨⟨rfl, rfl, rfl, rfl, rfl, rfl⟩, rfl, rfl, rfl, rfl, rfl⟩)

theorem updateK_invX (s : State) (c : CtxId) (cons : Addr) (provs : List Addr) (thr : Nat) (cap : Option Nat)
    (timeout : Int) (freq : Nat) (total : Int) (h : InvX s) :
    InvX (updateK s c cons provs thr cap timeout freq total).1 := by
  unfold updateK
  cases hx : Map.get s.ctxs c with
  | none => exact h
  | some x =>
    dsimp only
    split; · exact h
    split; · exact h
    cases hu : updThr x provs thr cap timeout freq total with
    | error e => exact h
    | ok x1 =>
      dsimp only
      split; · exact h
      split; · exact h
      split; · exact h
      split; · exact h
      rename_i hstate _ _ hfreq _
      obtain ⟨⟨c1, c2, c3, c4, c5, c6⟩, ht, hf, hr, hst, _⟩ := updThr_ok hu
      have hwf := h.ctxWF c x hx
      refine XInv.setCtx h hx ⟨c1, c2, c3, c4, c5, c6⟩ ?_ ?_
      · -- well-formedness of the updated context
        have hwf1 := hwf.1
        have hwf2 := hwf.2
        have hte : 1 ≤ effTimeout x timeout := by
          unfold effTimeout at hfreq ⊢
          split
          · exact hwf1
          · rename_i hne; split at hfreq <;> omega
        have hfe : effTimeout x timeout ≤ (effFreq x freq : Int) := by omega
        unfold ctxOK updFields
        dsimp only
        have h1 : effTimeout x timeout > 0 := by omega
        have h2 : effFreq x freq > 0 := by omega
        simp only [h1, h2, if_true]
        exact ⟨hte, fun _ => hfe⟩
      · intro hrun
        have : x.state = .running := by
          unfold updFields at hrun; dsimp only at hrun; rw [hst] at hrun; exact hrun
        exact h.runningQ c x hx this

end SM

namespace SM
open Map

theorem validateRequest_none {svc : SvcName} {cap : Option Nat} {provs : List Addr} {timeout : Int} {rep : Bool}
    {freq : Nat} {total : Int} (h : validateRequest svc cap provs timeout rep freq total = none) :
    1 ≤ timeout ∧ (rep = true → freq = 0 ∨ timeout ≤ (freq : Int)) := by
  unfold validateRequest at h
  repeat' (split at h)
  all_goals first
    | (simp at h; done)
    | (rename_i h1 h2 _
       refine ⟨by omega, fun hr => ?_⟩
       by_cases hf : freq = 0
       · left; exact hf
       · right
         have : ¬ (rep = true ∧ freq > 0 ∧ (freq : Int) < timeout) := h2
         simp only [hr, true_and, not_and] at this
         have := this (by omega)
         omega)

theorem createPre_none {s : State} {mod : ModName} {svc : SvcName} {provs : List Addr} {cap : Option Nat} {timeout : Int}
    {rep : Bool} {freq : Nat} {total : Int} {thr : Nat}
    (h : createPre s mod svc provs cap timeout rep freq total thr = none) (hm : mod ≠ "") :
    validateRequest svc cap provs timeout rep freq total = none := by
  unfold createPre at h
  simp only [hm, ne_eq, not_false_eq_true, if_true] at h
  split at h
  · simp at h
  · split at h
    · simp at h
    · assumption

theorem newCtxRec_ok {mod : ModName} {svc : SvcName} {provs : List Addr} {cons : Addr} {capv : Nat} {timeout : Int}
    {super rep : Bool} {freq : Nat} {total : Int} {running : Bool} {thr : Nat}
    (h : 1 ≤ timeout ∧ (rep = true → freq = 0 ∨ timeout ≤ (freq : Int))) :
    ctxOK (newCtxRec mod svc provs cons capv timeout super rep freq total running thr) := by
  unfold ctxOK newCtxRec
  dsimp only
  refine ⟨h.1, fun hr => ?_⟩
  simp only [hr, if_true]
  rcases h.2 hr with hf | hf
  · simp only [hf, if_true]; omega
  · by_cases hf0 : freq = 0
    · simp only [hf0, if_true]; omega
    · simp only [hf0, if_false]; exact hf

/-- creating a context (message or module): the id is fresh, the consumer is an ordinary account,
    and the request parameters passed `ValidateRequest` (stateless validation for a message,
    the keeper's own check for a module) -/
theorem createCtx_invX (s : State) (id : CtxId) (mod : ModName) (svc : SvcName) (provs : List Addr) (cons : Addr)
    (cap : Option Nat) (timeout : Int) (super rep : Bool) (freq : Nat) (total : Int) (inputOk running : Bool) (thr : Nat)
    (h : InvX s) (hfresh : id ∉ s.usedIds) (hcons : ¬ isModAcct s.cfg cons)
    (hv : mod = "" → validateRequest svc cap provs timeout rep freq total = none) :
    InvX (createCtx s id mod svc provs cons cap timeout super rep freq total inputOk running thr).1 := by
  unfold createCtx
  cases hp : createPre s mod svc provs cap timeout rep freq total thr with
  | some e => exact h
  | none =>
    dsimp only
    split; · exact h
    split; · exact h
    cases cap with
    | none => exact h
    | some capv =>
      dsimp only
      split; · exact h
      split; · exact h
      have hvr : validateRequest svc (some capv) provs timeout rep freq total = none := by
        by_cases hm : mod = ""
        · exact hv hm
        · exact createPre_none hp hm
      have hok := newCtxRec_ok (mod := mod) (svc := svc) (provs := provs) (cons := cons) (capv := capv)
        (super := super) (total := total) (running := running) (thr := thr) (validateRequest_none hvr)
      -- park the new record as paused, then (if running) flip it to running together with its queue entry
      let x := newCtxRec mod svc provs cons capv timeout super rep freq total running thr
      have hx0ok : ctxOK { x with state := .paused } := hok
      have base := XInv.newCtx (c := id) (x := { x with state := .paused }) h hfresh hx0ok hcons (by simp) rfl
      have hnew : Map.get s.newH id = none := by
        cases hn : Map.get s.newH id with
        | none => rfl
        | some hh => exact absurd (h.used id (h.newFuture id hh hn).2) hfresh
      have hexp : Map.get s.expH id = none := by
        cases hn : Map.get s.expH id with
        | none => rfl
        | some hh => exact absurd (h.used id (h.expFuture id hh hn).2) hfresh
      cases running with
      | false =>
        simp only [Bool.false_eq_true, if_false]
        have : ({ x with state := .paused } : Ctx) = newCtxRec mod svc provs cons capv timeout super rep freq total false thr := by
          simp [x, newCtxRec]
        rw [this] at base
        exact base
      | true =>
        simp only [if_true]
        have step := XInv.setCtxAddNew (c := id) (x' := newCtxRec mod svc provs cons capv timeout super rep freq total true thr)
          (hh := s.height) base (Map.get_set_same _ _ _) ⟨rfl, rfl, rfl, rfl, rfl, rfl⟩ hok (Int.le_refl _) hnew hexp
        rw [Map.set_set] at step
        exact step

end SM
