import ServiceModel.Proofs.EndBlockExpire
/-!
# End of block, phase 2: `newBatch` preserves every invariant
-/
namespace SM
open Map

theorem eligible_bound (s : State) (x : Ctx) (p : Addr) (price : Nat) (h : (p, price) ∈ eligible s x) :
    (Map.get s.bindings (x.svc, p)).isSome := by
  unfold eligible at h
  obtain ⟨a, _, ha⟩ := List.mem_filterMap.mp h
  cases hb : Map.get s.bindings (x.svc, a) with
  | none => rw [hb] at ha; simp at ha
  | some b =>
    rw [hb] at ha; dsimp only at ha
    split at ha
    · split at ha
      · injection ha with ha; injection ha with h1 h2; subst h1; rw [hb]; rfl
      · simp at ha
    · simp at ha

/-- sum of the fees written by `issuedPairs` -/
theorem feeSum_issued (reqs' : Map ReqId Req) (c : CtxId) (x : Ctx) (height : Int) (el : List (Addr × Nat)) (i : Nat)
    (hget : ∀ r q, (r, q) ∈ issuedPairs c x height el i → Map.get reqs' r = some q) :
    feeSum reqs' (Map.keys (issuedPairs c x height el i)) = if x.super then 0 else sumPrices el := by
  induction el generalizing i with
  | nil => simp [issuedPairs, Map.keys, feeSum, sumPrices]
  | cons hd t ih =>
    obtain ⟨p, price⟩ := hd
    simp only [issuedPairs, Map.keys, List.map_cons]
    rw [feeSum_cons]
    have h0 := hget { ctx := c, batch := x.batch + 1, height := height.toNat, index := i }
      { prov := p, fee := if x.super then 0 else price, reqH := height, expH := height + x.timeout }
      (by simp only [issuedPairs, List.mem_cons]; left; trivial)
    have ht := ih (i + 1) (fun r q hm => hget r q (by simp only [issuedPairs, List.mem_cons]; right; exact hm))
    unfold Map.keys at ht
    rw [ht]
    unfold feeAt; rw [h0]
    by_cases hs : x.super <;> simp [hs, sumPrices]

end SM

namespace SM
open Map

theorem get_pairs_mem {c : CtxId} {x : Ctx} {height : Int} {el : List (Addr × Nat)} {i : Nat} {r : ReqId} {q : Req}
    (h : Map.get (issuedPairs c x height el i) r = some q) : (r, q) ∈ issuedPairs c x height el i :=
  Map.get_of_mem_head _ _ _ h

theorem mem_pairs_get {c : CtxId} {x : Ctx} {height : Int} {el : List (Addr × Nat)} {i : Nat} {r : ReqId} {q : Req}
    (h : (r, q) ∈ issuedPairs c x height el i) : Map.get (issuedPairs c x height el i) r = some q := by
  induction el generalizing i with
  | nil => simp [issuedPairs] at h
  | cons hd t ih =>
    obtain ⟨p, price⟩ := hd
    simp only [issuedPairs, List.mem_cons] at h
    simp only [issuedPairs, Map.get]
    rcases h with h | h
    · injection h with h1 h2; subst h1; subst h2; simp
    · have := (issuedPairs_index h).1
      have hne : ¬ ({ ctx := c, batch := x.batch + 1, height := height.toNat, index := i } : ReqId) = r := by
        intro e; rw [← e] at this; simp at this; omega
      simp only [hne, if_false]
      exact ih h

set_option maxHeartbeats 1600000 in
/-- a batch is issued for a due running context -/
theorem issueBatch_inv (s : State) (bank' : Bank) (c : CtxId) (x : Ctx) (el : List (Addr × Nat)) (ep : List Effect)
    (h : Inv s) (hx : Map.get s.ctxs c = some x) (hdue : Map.get s.newH c = some s.height)
    (hel : ∀ p price, (p, price) ∈ el → (Map.get s.bindings (x.svc, p)).isSome)
    (hdep : balOf bank'.bal s.cfg.deposit = balOf s.bank.bal s.cfg.deposit)
    (hesc : balOf bank'.bal s.cfg.escrow = balOf s.bank.bal s.cfg.escrow + (if x.super then 0 else sumPrices el)) :
    Inv (delNewQ (issueBatch s bank' c x el ep).1 c s.height) := by
  obtain ⟨hexpn, hbcomp, hnoreq, hnoact⟩ := h.x.dueFacts hx hdue
  -- abbreviations
  let s0 : State := { s with bank := bank' }
  let pairs := issuedPairs c x s.height el 0
  let sI := issueReqs s0 c x el 0
  let x' : Ctx := { x with batch := x.batch + 1, bstate := .running, respN := 0, reqN := el.length, bthr := x.thr }
  have hreqs : ∀ r, Map.get sI.reqs r = match Map.get pairs r with | some q => some q | none => Map.get s.reqs r :=
    fun r => issueReqs_reqs s0 c x el 0 r
  have hAI : sI.activeI = s.activeI ++ Map.keys pairs :=
    issueReqs_activeI s0 c x el 0 (fun r hr hh => hnoact r hr hh.1)
  have hAB : sI.activeB = s.activeB ++ pairs.map (fun pq => (x.svc, pq.2.prov, pq.2.expH, pq.1)) :=
    issueReqs_activeB s0 c x el 0 (fun t ht hh => by
      obtain ⟨sv, p, e, r⟩ := t
      exact hnoact r ((h.x.activeMirror sv p e r).mp ht).1 hh.1)
  have hkeys_ctx : ∀ r, r ∈ Map.keys pairs → r.ctx = c := by
    intro r hr
    obtain ⟨⟨r2, q⟩, hm, hk⟩ := List.mem_map.mp hr
    simp only at hk; subst hk
    exact (issuedPairs_index hm).2.1
  have hkey_iff : ∀ r, r ∈ Map.keys pairs ↔ (Map.get pairs r).isSome := fun r => (Map.get_isSome_iff_mem_keys pairs r).symm
  -- the invocation world
  have hX : XInv s.cfg s.height (Map.set s.ctxs c x') (FSet.ins s.expQ (s.height + x.timeout, c)) (FSet.rem s.newQ (s.height, c))
      (Map.set s.expH c (s.height + x.timeout)) (Map.del s.newH c) s.usedIds sI.reqs sI.activeB sI.activeI s.resps := by
    refine XInv.startBatch (Map.keys pairs) (fun r => (Map.get pairs r).getD ⟨"", 0, 0, 0⟩) h.x hx hdue
      rfl rfl rfl rfl rfl ?_ rfl rfl rfl ?_ ?_ ?_ ?_ ?_ ?_ ?_
    · show el.length = (Map.keys pairs).length
      unfold Map.keys; rw [List.length_map, issuedPairs_length]
    · intro r hr
      obtain ⟨⟨r2, q⟩, hm, hk⟩ := List.mem_map.mp hr
      simp only at hk; subst hk
      obtain ⟨_, i2, i3, i4, _⟩ := issuedPairs_index hm
      refine ⟨i2, i3, ?_⟩
      rw [mem_pairs_get hm]; exact i4
    · intro r
      rw [hreqs r]
      by_cases hm : r ∈ Map.keys pairs
      · rw [if_pos hm]
        cases hg : Map.get pairs r with
        | none => rw [hkey_iff, hg] at hm; simp at hm
        | some q => rfl
      · rw [if_neg hm]
        cases hg : Map.get pairs r with
        | none => rfl
        | some q => exact absurd ((hkey_iff r).mpr (by rw [hg]; rfl)) hm
    · intro r; rw [hAI, List.mem_append]
    · rw [hAI, List.nodup_append]
      refine ⟨h.x.activeNodup, issuedPairs_nodup c x s.height el 0, ?_⟩
      intro a ha b hb e
      subst e
      exact hnoact a ha (hkeys_ctx a hb)
    · rw [hAI, List.filter_append]
      have h1 : s.activeI.filter (fun r => decide (r.ctx = c)) = [] := by
        apply List.filter_eq_nil_iff.mpr
        intro r hr; simp only [decide_eq_true_eq]; exact hnoact r hr
      have h2 : (Map.keys pairs).filter (fun r => decide (r.ctx = c)) = Map.keys pairs := by
        apply List.filter_eq_self.mpr
        intro r hr; simp only [decide_eq_true_eq]; exact hkeys_ctx r hr
      rw [h1, h2]; simp
    · intro c2 hc2
      rw [hAI, List.filter_append]
      have h2 : (Map.keys pairs).filter (fun r => decide (r.ctx = c2)) = [] := by
        apply List.filter_eq_nil_iff.mpr
        intro r hr; simp only [decide_eq_true_eq]; rw [hkeys_ctx r hr]; exact fun e => hc2 e.symm
      rw [h2]; simp
    · intro t
      rw [hAB, List.mem_append]
      constructor
      · rintro (ht | ht)
        · left; exact ht
        · right
          obtain ⟨⟨r, q⟩, hm, hk⟩ := List.mem_map.mp ht
          refine ⟨r, List.mem_map.mpr ⟨(r, q), hm, rfl⟩, ?_⟩
          rw [← hk, mem_pairs_get hm]; rfl
      · rintro (ht | ⟨r, hr, ht⟩)
        · left; exact ht
        · right
          obtain ⟨⟨r2, q⟩, hm, hk⟩ := List.mem_map.mp hr
          simp only at hk; subst hk
          rw [mem_pairs_get hm] at ht
          exact List.mem_map.mpr ⟨(r2, q), hm, ht.symm⟩
  -- frame of issueReqs
  have f_cfg : sI.cfg = s.cfg := issueReqs_proj (·.cfg) (fun _ _ _ _ _ _ _ => rfl) s0 c x el 0
  have f_params : sI.params = s.params := issueReqs_proj (·.params) (fun _ _ _ _ _ _ _ => rfl) s0 c x el 0
  have f_height : sI.height = s.height := issueReqs_proj (·.height) (fun _ _ _ _ _ _ _ => rfl) s0 c x el 0
  have f_ctxs : sI.ctxs = s.ctxs := issueReqs_proj (·.ctxs) (fun _ _ _ _ _ _ _ => rfl) s0 c x el 0
  have f_expQ : sI.expQ = s.expQ := issueReqs_proj (·.expQ) (fun _ _ _ _ _ _ _ => rfl) s0 c x el 0
  have f_newQ : sI.newQ = s.newQ := issueReqs_proj (·.newQ) (fun _ _ _ _ _ _ _ => rfl) s0 c x el 0
  have f_expH : sI.expH = s.expH := issueReqs_proj (·.expH) (fun _ _ _ _ _ _ _ => rfl) s0 c x el 0
  have f_newH : sI.newH = s.newH := issueReqs_proj (·.newH) (fun _ _ _ _ _ _ _ => rfl) s0 c x el 0
  have f_used : sI.usedIds = s.usedIds := issueReqs_proj (·.usedIds) (fun _ _ _ _ _ _ _ => rfl) s0 c x el 0
  have f_resps : sI.resps = s.resps := issueReqs_proj (·.resps) (fun _ _ _ _ _ _ _ => rfl) s0 c x el 0
  have f_bank : sI.bank = bank' := issueReqs_proj (·.bank) (fun _ _ _ _ _ _ _ => rfl) s0 c x el 0
  have f_defs : sI.defs = s.defs := issueReqs_proj (·.defs) (fun _ _ _ _ _ _ _ => rfl) s0 c x el 0
  have f_bind : sI.bindings = s.bindings := issueReqs_proj (·.bindings) (fun _ _ _ _ _ _ _ => rfl) s0 c x el 0
  have f_ob : sI.ownerBind = s.ownerBind := issueReqs_proj (·.ownerBind) (fun _ _ _ _ _ _ _ => rfl) s0 c x el 0
  have f_owner : sI.owner = s.owner := issueReqs_proj (·.owner) (fun _ _ _ _ _ _ _ => rfl) s0 c x el 0
  have f_op : sI.ownerProv = s.ownerProv := issueReqs_proj (·.ownerProv) (fun _ _ _ _ _ _ _ => rfl) s0 c x el 0
  have f_pr : sI.pricing = s.pricing := issueReqs_proj (·.pricing) (fun _ _ _ _ _ _ _ => rfl) s0 c x el 0
  have f_earned : sI.earned = s.earned := issueReqs_proj (·.earned) (fun _ _ _ _ _ _ _ => rfl) s0 c x el 0
  have f_oe : sI.ownerEarned = s.ownerEarned := issueReqs_proj (·.ownerEarned) (fun _ _ _ _ _ _ _ => rfl) s0 c x el 0
  refine { static := ?_, b := ?_, x := ?_, m := ?_, bound := ?_ }
  · show Static sI.cfg sI.params
    rw [f_cfg, f_params]; exact h.static
  · show BInv sI.cfg sI.params (balOf sI.bank.bal sI.cfg.deposit) sI.defs sI.bindings sI.ownerBind sI.owner sI.ownerProv sI.pricing
    rw [f_cfg, f_params, f_bank, f_defs, f_bind, f_ob, f_owner, f_op, f_pr, hdep]; exact h.b
  · show XInv sI.cfg sI.height (Map.set sI.ctxs c x') (FSet.ins sI.expQ (s.height + x.timeout, c)) (FSet.rem sI.newQ (s.height, c))
      (Map.set sI.expH c (s.height + x.timeout)) (Map.del sI.newH c) sI.usedIds sI.reqs sI.activeB sI.activeI sI.resps
    rw [f_cfg, f_height, f_ctxs, f_expQ, f_newQ, f_expH, f_newH, f_used, f_resps]; exact hX
  · show MInv (balOf sI.bank.bal sI.cfg.escrow) sI.reqs sI.activeI sI.earned sI.ownerEarned sI.owner
    rw [f_cfg, f_bank, f_earned, f_oe, f_owner]
    refine MInv.issue h.m (Map.keys pairs) hAI ?_ ?_
    · intro r hr
      rw [hreqs r]
      cases hg : Map.get pairs r with
      | none => rfl
      | some q => exact absurd (hkeys_ctx r ((hkey_iff r).mpr (by rw [hg]; rfl))) (hnoact r hr)
    · rw [hesc]
      congr 1
      symm
      apply feeSum_issued
      intro r q hm
      rw [hreqs r, mem_pairs_get hm]
  · show BoundInv (Map.set sI.ctxs c x') sI.reqs sI.bindings
    rw [f_ctxs, f_bind]
    intro r q hq
    rw [hreqs r] at hq
    cases hg : Map.get pairs r with
    | some q2 =>
      rw [hg] at hq; injection hq with hq; subst hq
      obtain ⟨_, i2, _, _, _, pr, i6, i7⟩ := issuedPairs_index (get_pairs_mem hg)
      refine ⟨x', by rw [i2]; simp, hel _ pr i6, fun hs => ?_⟩
      rw [i7]; simp only [x'] at hs; simp [hs]
    | none =>
      rw [hg] at hq
      obtain ⟨y, hy, hb, hsup⟩ := h.bound r q hq
      have hne := hnoreq r q hq
      exact ⟨y, by rw [Map.get_set_other _ _ _ _ (fun e => hne e.symm)]; exact hy, hb, hsup⟩


/-- the new-batch handler of one queue entry preserves every invariant -/
theorem newBatch_inv (s : State) (c : CtxId) (h : Inv s) : Inv (newBatch s c).s := by
  unfold newBatch
  split
  · exact h
  · rename_i hq
    have hmem : (s.height, c) ∈ s.newQ := by simpa using hq
    have hdue := (h.x.newMirror s.height c).mp hmem
    cases hx : Map.get s.ctxs c with
    | none => have := (h.x.newFuture c s.height hdue).2; rw [hx] at this; simp at this
    | some x =>
      dsimp only
      obtain ⟨hexpn, hbcomp, hnoreq, hnoact⟩ := h.x.dueFacts hx hdue
      have hcons : ¬ isModAcct s.cfg x.cons := h.x.ctxCons c x hx
      split
      · -- the total is reached: the context is removed
        refine { static := h.static, b := h.b, x := XInv.finishNew h.x hx hdue, m := h.m, bound := ?_ }
        refine BoundInv.ctxsOther (c := c) h.bound hnoreq ?_
        intro c2 hc2
        show Map.get (Map.del s.ctxs c) c2 = _
        exact Map.get_del_other _ _ _ (fun e => hc2 e.symm)
      · split
        · rename_i hnr
          exact { static := h.static, b := h.b, x := XInv.dropNew h.x hx hdue hnr, m := h.m, bound := h.bound }
        · -- a running context that is due
          dsimp only
          unfold startOrSkip
          split
          · split
            · rename_i hsuper
              refine issueBatch_inv s s.bank c x (eligible s x) [] h hx hdue (fun p price hm => eligible_bound s x p price hm) rfl ?_
              rw [if_pos hsuper]; rfl
            · rename_i hsuper
              cases hb : bankSend s.bank x.cons s.cfg.escrow (sumPrices (eligible s x)) with
              | some b =>
                dsimp only
                refine issueBatch_inv s b c x (eligible s x) _ h hx hdue (fun p price hm => eligible_bound s x p price hm) ?_ ?_
                · exact bankSend_other hb _ (fun e => hcons (Or.inr (Or.inl e.symm))) (fun e => h.static.ed e.symm)
                · rw [if_neg hsuper]
                  exact bankSend_dst hb (fun e => hcons (Or.inl e))
              | none =>
                dsimp only
                refine { static := h.static, b := h.b, x := XInv.pauseNew h.x hx hdue rfl, m := h.m, bound := ?_ }
                exact BoundInv.setCtx h.bound hx ⟨rfl, rfl⟩
          · -- too few eligible providers: the batch is skipped
            have := issueBatch_inv s s.bank c x [] [] h hx hdue (fun p price hm => by simp at hm) rfl (by simp [sumPrices])
            exact this

end SM
