import ServiceModel.Proofs.IssueSpec
/-!
# End of block, inner loop: one expired request (`expireReq`) and the fold over a batch's pending requests
-/
namespace SM
open Map

theorem Map.set_get_same {κ ν} [DecidableEq κ] (m : Map κ ν) (k : κ) (v : ν) (h : Map.get m k = some v) :
    Map.set m k v = m := by
  induction m with
  | nil => simp [Map.get] at h
  | cons hd t ih =>
    obtain ⟨k', v'⟩ := hd
    by_cases hk : k' = k
    · subst hk; simp [Map.get] at h; subst h; simp [Map.set]
    · simp only [Map.get, hk, if_false] at h
      simp [Map.set, hk, ih h]

theorem feeAt_le_feeSum (reqs : Map ReqId Req) (l : List ReqId) (r : ReqId) (h : r ∈ l) :
    feeAt reqs r ≤ feeSum reqs l := by
  induction l with
  | nil => simp at h
  | cons a t ih =>
    rw [feeSum_cons]
    simp only [List.mem_cons] at h
    rcases h with h | h
    · subst h; omega
    · have := ih h; omega

/-- the components `expireReq` leaves alone -/
def EFrame (s s' : State) : Prop :=
  s'.cfg = s.cfg ∧ s'.params = s.params ∧ s'.height = s.height ∧ s'.time = s.time ∧ s'.ctxs = s.ctxs ∧
  s'.expQ = s.expQ ∧ s'.newQ = s.newQ ∧ s'.expH = s.expH ∧ s'.newH = s.newH ∧ s'.usedIds = s.usedIds ∧
  s'.reqs = s.reqs ∧ s'.resps = s.resps

/-- one expired request: every invariant is kept, the request is no longer pending, nothing else of the
    invocation world moves -/
theorem expireReq_inv (x : Ctx) (s : State) (r : ReqId) (h : Inv s)
    (hx : Map.get s.ctxs r.ctx = some x) (hact : r ∈ s.activeI)
    (hnp : (expireReq x s r).panic = none) :
    Inv (expireReq x s r).s ∧ EFrame s (expireReq x s r).s ∧ (expireReq x s r).s.activeI = FSet.rem s.activeI r := by
  obtain ⟨q, hq⟩ : ∃ q, Map.get s.reqs r = some q := by
    cases hh : Map.get s.reqs r with
    | none => have := h.x.activeReq r hact; rw [hh] at this; simp at this
    | some q => exact ⟨q, rfl⟩
  obtain ⟨y, hy, hbind, hsup⟩ := h.bound r q hq
  rw [hx] at hy; injection hy with hy; subst hy
  have hfee : feeAt s.reqs r = q.fee := by unfold feeAt; rw [hq]
  have hrun : x.bstate = .running := by
    obtain ⟨y, hy, hyb⟩ := h.x.activeRunning r hact
    rw [hx] at hy; injection hy with hy; subst hy; exact hyb
  have hwf := h.x.ctxWF _ x hx
  -- the invocation world after removing the two markers (context unchanged)
  have hX : XInv s.cfg s.height s.ctxs s.expQ s.newQ s.expH s.newH s.usedIds s.reqs
      (FSet.rem s.activeB (x.svc, q.prov, q.expH, r)) (FSet.rem s.activeI r) s.resps := by
    have := XInv.deactivate (x' := x) (resps' := s.resps) h.x hq hx hact rfl rfl rfl hwf rfl rfl
      (Or.inl ⟨hrun, Nat.le_succ _⟩) (fun r2 hr2 => Or.inr hr2)
    rw [Map.set_get_same _ _ _ hx] at this
    exact this
  have hcons : ¬ isModAcct s.cfg x.cons := h.x.ctxCons _ x hx
  have hne : s.cfg.escrow ≠ x.cons := fun e => hcons (Or.inl e.symm)
  -- the refund step, from any intermediate state that differs from `s` only in bank and bindings
  have hrefund : ∀ (s1 : State) (e1 : List Effect), InvB s1 → s1.cfg = s.cfg →
      balOf s1.bank.bal s.cfg.escrow = balOf s.bank.bal s.cfg.escrow →
      (∀ k, (Map.get s.bindings k).isSome → (Map.get s1.bindings k).isSome) →
      (∃ bank1 bs, s1 = { s with bank := bank1, bindings := bs }) →
      Inv (refundExpired s1 e1 x q r).s ∧ EFrame s (refundExpired s1 e1 x q r).s ∧
        (refundExpired s1 e1 x q r).s.activeI = FSet.rem s.activeI r := by
    intro s1 e1 hB1 hcfg hesc hkeys hshape
    obtain ⟨bank1, bs, rfl⟩ := hshape
    have hge : q.fee ≤ balOf bank1.bal s.cfg.escrow := by
      have := feeAt_le_feeSum s.reqs s.activeI r hact
      have := h.m.escrow
      have hesc' : balOf bank1.bal s.cfg.escrow = balOf s.bank.bal s.cfg.escrow := hesc
      rw [hesc', ← hfee]; omega
    unfold refundExpired
    cases hb : bankSend bank1 s.cfg.escrow x.cons q.fee with
    | none => have := (bankSend_some_iff bank1 s.cfg.escrow x.cons q.fee).mpr hge; rw [hb] at this; simp at this
    | some bank' =>
      dsimp only
      have hb1 := bankSend_src hb hne
      have hdep : balOf bank'.bal s.cfg.deposit = balOf bank1.bal s.cfg.deposit :=
        bankSend_other hb _ (fun e => h.static.ed e.symm) (fun e => hcons (Or.inr (Or.inl e.symm)))
      refine ⟨{ static := h.static, b := ?_, x := hX, m := ?_, bound := h.bound.bindingsGrow hkeys },
              ⟨rfl, rfl, rfl, rfl, rfl, rfl, rfl, rfl, rfl, rfl, rfl, rfl⟩, rfl⟩
      · show BInv _ _ (balOf bank'.bal s.cfg.deposit) _ _ _ _ _ _
        rw [hdep]; exact hB1
      · show MInv (balOf bank'.bal s.cfg.escrow) _ _ _ _ _
        refine MInv.refundReq h.m h.x.activeNodup hact ?_
        have hesc' : balOf bank1.bal s.cfg.escrow = balOf s.bank.bal s.cfg.escrow := hesc
        rw [hfee, hb1, hesc']
        rw [hesc'] at hge
        omega
  unfold expireReq at hnp ⊢
  rw [hq] at hnp ⊢
  dsimp only at hnp ⊢
  split
  · -- super mode: no fee was taken, nothing to return
    rename_i hsuper
    refine ⟨{ static := h.static, b := h.b, x := hX, m := ?_, bound := h.bound },
            ⟨rfl, rfl, rfl, rfl, rfl, rfl, rfl, rfl, rfl, rfl, rfl, rfl⟩, rfl⟩
    refine MInv.refundReq h.m h.x.activeNodup hact ?_
    rw [hfee, hsup hsuper]
    rfl
  · rename_i hsuper
    rw [if_neg hsuper] at hnp
    cases hs : slash s r x.svc q.prov with
    | overflow => rw [hs] at hnp; simp at hnp
    | bankErr =>
      dsimp only
      exact hrefund s [] h.b rfl rfl (fun _ hk => hk) ⟨s.bank, s.bindings, rfl⟩
    | done s1 e1 =>
      dsimp only
      refine hrefund s1 e1 (slash_invB h.b hs) (slash_cfg hs) (slash_escrow h.static hs) ?_ ?_
      · rcases slash_shape hs with h2 | ⟨b2, b', h2⟩
        · rw [h2]; exact fun _ hk => hk
        · rw [h2]; exact fun k hk => isSome_set _ _ _ _ hk
      · rcases slash_shape hs with h2 | ⟨b2, b', h2⟩
        · exact ⟨s.bank, s.bindings, h2⟩
        · exact ⟨b2, _, h2⟩

end SM

namespace SM
open Map

theorem foldH_cons {α : Type} (h : State → α → HRes) (s : State) (a : α) (as : List α) :
    foldH h s (a :: as) =
      match (h s a).panic with
      | some _ => h s a
      | none => ⟨(foldH h (h s a).s as).s, (h s a).effs ++ (foldH h (h s a).s as).effs, (foldH h (h s a).s as).panic⟩ := rfl

theorem foldH_cons_nopanic {α : Type} (h : State → α → HRes) (s : State) (a : α) (as : List α)
    (hnp : (foldH h s (a :: as)).panic = none) :
    (h s a).panic = none ∧ (foldH h (h s a).s as).panic = none ∧ (foldH h s (a :: as)).s = (foldH h (h s a).s as).s := by
  rw [foldH_cons] at hnp ⊢
  rcases Option.eq_none_or_eq_some (h s a).panic with hp | ⟨m, hp⟩
  · simp only [hp] at hnp ⊢
    exact ⟨trivial, hnp, trivial⟩
  · simp only [hp] at hnp
    cases hnp

theorem EFrame.trans {a b c : State} (h1 : EFrame a b) (h2 : EFrame b c) : EFrame a c := by
  unfold EFrame at *
  obtain ⟨a1, a2, a3, a4, a5, a6, a7, a8, a9, a10, a11, a12⟩ := h1
  obtain ⟨b1, b2, b3, b4, b5, b6, b7, b8, b9, b10, b11, b12⟩ := h2
  exact ⟨b1.trans a1, b2.trans a2, b3.trans a3, b4.trans a4, b5.trans a5, b6.trans a6, b7.trans a7, b8.trans a8,
         b9.trans a9, b10.trans a10, b11.trans a11, b12.trans a12⟩

/-- the fold over the pending requests of an expired batch -/
theorem expireFold_inv (x : Ctx) (c : CtxId) (ids : List ReqId) (s : State) (h : Inv s)
    (hx : Map.get s.ctxs c = some x) (hids : ∀ r, r ∈ ids → r ∈ s.activeI ∧ r.ctx = c) (hnd : ids.Nodup)
    (hnp : (foldH (expireReq x) s ids).panic = none) :
    Inv (foldH (expireReq x) s ids).s ∧ EFrame s (foldH (expireReq x) s ids).s ∧
      (∀ r, r ∈ (foldH (expireReq x) s ids).s.activeI ↔ r ∈ s.activeI ∧ r ∉ ids) := by
  induction ids generalizing s with
  | nil =>
    exact ⟨h, ⟨rfl, rfl, rfl, rfl, rfl, rfl, rfl, rfl, rfl, rfl, rfl, rfl⟩, fun r => by simp [foldH]⟩
  | cons r rest ih =>
    obtain ⟨hp1, hp2, hs⟩ := foldH_cons_nopanic _ s r rest hnp
    rw [hs]
    obtain ⟨hr1, hr2⟩ := hids r (by simp)
    obtain ⟨hinv, hfr, hact⟩ := expireReq_inv x s r h (by rw [hr2]; exact hx) hr1 hp1
    have hnd' := (List.nodup_cons.mp hnd)
    have hx' : Map.get (expireReq x s r).s.ctxs c = some x := by rw [hfr.2.2.2.2.1]; exact hx
    have hids' : ∀ r2, r2 ∈ rest → r2 ∈ (expireReq x s r).s.activeI ∧ r2.ctx = c := by
      intro r2 hr2m
      obtain ⟨h1, h2⟩ := hids r2 (List.mem_cons_of_mem _ hr2m)
      refine ⟨?_, h2⟩
      rw [hact, FSet.mem_rem]
      exact ⟨h1, fun e => hnd'.1 (e ▸ hr2m)⟩
    obtain ⟨i1, i2, i3⟩ := ih (expireReq x s r).s hinv hx' hids' hnd'.2 hp2
    refine ⟨i1, hfr.trans i2, fun r2 => ?_⟩
    rw [i3, hact, FSet.mem_rem]
    simp only [List.mem_cons, not_or]
    constructor
    · rintro ⟨⟨h1, h2⟩, h3⟩; exact ⟨h1, h2, h3⟩
    · rintro ⟨h1, h2, h3⟩; exact ⟨⟨h1, h2⟩, h3⟩

end SM
