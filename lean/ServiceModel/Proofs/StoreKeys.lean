import ServiceModel.Proofs.BindKeys
import ServiceModel.Proofs.Restart
/-!
# The model state is a faithful store: one record per key, in every map and every index

`Map` is an association list with first-match lookup and `FSet` a list; the module's store holds one value per key.
`Keys1 s`: every record map of the state has duplicate-free keys and every index set is duplicate-free, so a store scan
(`entries`, `FSet.elems`) of each is the list itself — what the raw-list monitors (`Inv/Monitors.lean`) and the export
walk over is exactly what point lookups see. (`earned` / `ownerEarned` are in `MInv` already: `earnedK`, `ownerEarnedK`.)
`keys1_reachableR`: over every operation and every restart.
-/
namespace SM
open Map

structure Keys1 (s : State) : Prop where
  defs : NodupKeys s.defs
  bindings : NodupKeys s.bindings
  owner : NodupKeys s.owner
  pricing : NodupKeys s.pricing
  withdraw : NodupKeys s.withdraw
  ctxs : NodupKeys s.ctxs
  expH : NodupKeys s.expH
  newH : NodupKeys s.newH
  reqs : NodupKeys s.reqs
  resps : NodupKeys s.resps
  volume : NodupKeys s.volume
  ownerBind : s.ownerBind.Nodup
  ownerProv : s.ownerProv.Nodup
  expQ : s.expQ.Nodup
  newQ : s.newQ.Nodup
  activeB : s.activeB.Nodup
  activeI : s.activeI.Nodup

/-- `s'` is a faithful store if `s` is -/
def AK (s s' : State) : Prop := Keys1 s → Keys1 s'

theorem AK.refl (s : State) : AK s s := fun h => h
theorem AK.trans {a b c : State} (h1 : AK a b) (h2 : AK b c) : AK a c := fun h => h2 (h1 h)

/-- closes `AK s s'` when `s'` is syntactically `s` with fields rewritten by `set` / `del` / `ins` / `rem` -/
macro "ak_shape" : tactic =>
  `(tactic| (intro h
             obtain ⟨h1, h2, h3, h4, h5, h6, h7, h8, h9, h10, h11, h12, h13, h14, h15, h16, h17⟩ := h
             constructor <;> (try simp only [setCtx, addNewQ, addExpQ, delNewQ, delExpQ, delCtx, addActive, delActive, fail, panicOut]) <;>
             repeat (first | assumption | apply nodupKeys_set | apply nodupKeys_del | apply FSet.nodup_ins | apply FSet.nodup_rem)))

macro "ak_tac" f:ident : tactic =>
  `(tactic| (unfold $f; (try dsimp only); repeat' split
             all_goals first
               | exact AK.refl _
               | ak_shape))

theorem slash_ak {s s1 : State} {r : ReqId} {svc : SvcName} {p : Addr} {e : List Effect}
    (h : slash s r svc p = .done s1 e) : AK s s1 := by
  unfold slash at h
  cases hb : get s.bindings (svc, p) with
  | none => rw [hb] at h; injection h with h1 _; subst h1; exact AK.refl s
  | some b =>
    rw [hb] at h; dsimp only at h
    split at h; · cases h
    cases hbk : bankBurn s.bank s.cfg.deposit (b.deposit * s.params.slash / decUnit) with
    | none => rw [hbk] at h; cases h
    | some bank' =>
      rw [hbk] at h; dsimp only at h
      split at h
      · cases hmd : minDeposit s.params (storedPricing s svc p) with
        | none => rw [hmd] at h; cases h
        | some md =>
          rw [hmd] at h; dsimp only at h
          injection h with h1 _; subst h1
          ak_shape
      · injection h with h1 _; subst h1
        ak_shape

theorem addEarned_ak {s s1 : State} {p : Addr} {fee : Nat} {e : List Effect}
    (h : addEarned s p fee = some (s1, e)) : AK s s1 := by
  obtain ⟨bank', ea, oe, hs⟩ := addEarned_shape h
  subst hs; ak_shape

theorem settle_ak {s s1 : State} {r : ReqId} {svc : SvcName} {cons : Addr} {q : Req} {prov : Addr} {out : OutKind}
    {e1 : List Effect} (h : settle s r svc cons q prov out = .ok (s1, e1)) : AK s s1 := by
  unfold settle at h
  split at h
  · cases hs : slash s r svc q.prov with
    | bankErr => rw [hs] at h; simp at h
    | overflow => rw [hs] at h; simp at h
    | done s2 e2 =>
      rw [hs] at h; dsimp only at h
      cases hb : bankSend s2.bank s2.cfg.escrow cons q.fee with
      | none => rw [hb] at h; simp at h
      | some bank' =>
        rw [hb] at h
        simp only [Except.ok.injEq, Prod.mk.injEq] at h
        obtain ⟨h1, _⟩ := h; subst h1
        exact (slash_ak hs).trans (by ak_shape)
  · cases ha : addEarned s prov q.fee with
    | none => rw [ha] at h; simp at h
    | some res =>
      rw [ha] at h; simp only [Except.ok.injEq] at h; subst h
      exact addEarned_ak ha

theorem pauseK_ak (s : State) (c : CtxId) (cons : Addr) : AK s (pauseK s c cons).1 := by ak_tac pauseK
theorem startK_ak (s : State) (c : CtxId) (cons : Addr) : AK s (startK s c cons).1 := by ak_tac startK
theorem killK_ak (s : State) (c : CtxId) (cons : Addr) : AK s (killK s c cons).1 := by ak_tac killK
theorem updateK_ak (s : State) (c : CtxId) (cons : Addr) (provs : List Addr) (thr : Nat) (cap : Option Nat)
    (timeout : Int) (freq : Nat) (total : Int) : AK s (updateK s c cons provs thr cap timeout freq total).1 := by
  ak_tac updateK
theorem createCtx_ak (s : State) (id : CtxId) (mod : ModName) (svc : SvcName) (provs : List Addr) (cons : Addr)
    (cap : Option Nat) (timeout : Int) (super rep : Bool) (freq : Nat) (total : Int) (inputOk running : Bool) (thr : Nat) :
    AK s (createCtx s id mod svc provs cons cap timeout super rep freq total inputOk running thr).1 := by
  ak_tac createCtx
theorem ctxMsg_ak (s : State) (c : CtxId) (cons : Addr) (k : State → Out) (hk : AK s (k s).1) :
    AK s (ctxMsg s c cons k).1 := by
  unfold ctxMsg; split
  · exact AK.refl s
  · exact hk

theorem withdraw_ak (s : State) (o p : Addr) : AK s (withdraw s o p).1 := by
  unfold withdraw
  split; · exact AK.refl s
  cases hw : withdrawRecords s o p with
  | error r => exact AK.refl s
  | ok res =>
    obtain ⟨s1, amt⟩ := res
    dsimp only
    have h1 : AK s s1 := by
      unfold withdrawRecords at hw
      repeat' split at hw
      all_goals first
        | (cases hw; done)
        | (simp only [Except.ok.injEq, Prod.mk.injEq] at hw; obtain ⟨e1, _⟩ := hw; subst e1; ak_shape)
    split; · exact AK.refl s
    split
    · exact AK.refl s
    · exact h1.trans (by ak_shape)

theorem respond_ak (s : State) (r : ReqId) (pv : Addr) (code : Nat) (out : OutKind) :
    AK s (respond s r pv code out).1 := by
  unfold respond
  cases hq : get s.reqs r with
  | none => exact AK.refl s
  | some q =>
    dsimp only
    cases hx : get s.ctxs r.ctx with
    | none => exact AK.refl s
    | some x =>
      dsimp only
      split; · exact AK.refl s
      split; · exact AK.refl s
      cases hs : settle s r x.svc x.cons q pv out with
      | error res => exact AK.refl s
      | ok res =>
        obtain ⟨s1, e1⟩ := res
        dsimp only
        have h1 := settle_ak hs
        split
        · exact h1.trans (by ak_shape)
        · exact h1.trans (by ak_shape)

/-! ### bindings operations -/
theorem define_ak (s : State) (n : SvcName) (a : Addr) : AK s (define s n a).1 := by
  unfold define
  split
  · exact AK.refl s
  · ak_shape

theorem disable_ak (s : State) (svc : SvcName) (p o : Addr) : AK s (disable s svc p o).1 := by
  unfold disable
  cases hb : get s.bindings (svc, p) with
  | none => exact AK.refl s
  | some b =>
    dsimp only
    repeat' split
    all_goals first
      | exact AK.refl s
      | ak_shape

theorem refund_ak (s : State) (svc : SvcName) (p o : Addr) : AK s (refund s svc p o).1 := by
  unfold refund
  cases hb : get s.bindings (svc, p) with
  | none => exact AK.refl s
  | some b =>
    dsimp only
    repeat' split
    all_goals first
      | exact AK.refl s
      | ak_shape

theorem enable_ak (s : State) (svc : SvcName) (p o : Addr) (dep : Option Nat) : AK s (enable s svc p o dep).1 := by
  unfold enable
  cases hb : get s.bindings (svc, p) with
  | none => exact AK.refl s
  | some b =>
    dsimp only
    repeat' split
    all_goals first
      | exact AK.refl s
      | ak_shape

theorem update_ak (s : State) (svc : SvcName) (p o : Addr) (dep : Option Nat) (text : Option PricingText) (qos : Nat) :
    AK s (update s svc p o dep text qos).1 := by
  unfold update
  cases hb : get s.bindings (svc, p) with
  | none => exact AK.refl s
  | some b =>
    dsimp only
    repeat' split
    all_goals first
      | exact AK.refl s
      | ak_shape

theorem bind_ak (s : State) (svc : SvcName) (p o : Addr) (dep : Option Nat) (text : PricingText) (qos : Nat) :
    AK s (bind s svc p o dep text qos).1 := by
  unfold bind
  split; · exact AK.refl s
  split; · exact AK.refl s
  split; · exact AK.refl s
  dsimp only
  split; · exact AK.refl s
  cases dep with
  | none => exact AK.refl s
  | some d =>
    dsimp only
    split; · exact AK.refl s
    cases parsePricing text with
    | bad => exact AK.refl s
    | overflow => exact AK.refl s
    | ok pr =>
      dsimp only
      split; · exact AK.refl s
      cases minDeposit s.params pr with
      | none => exact AK.refl s
      | some md =>
        dsimp only
        split; · exact AK.refl s
        cases bankSend s.bank o s.cfg.deposit d with
        | none => exact AK.refl s
        | some bank' =>
          dsimp only
          split
          · ak_shape
          · ak_shape

/-! ### the end of a block -/
theorem refundExpired_ak (s1 : State) (e1 : List Effect) (x : Ctx) (q : Req) (r : ReqId) :
    AK s1 (refundExpired s1 e1 x q r).s := by
  unfold refundExpired
  split <;> ak_shape

theorem expireReq_ak (x : Ctx) (s : State) (r : ReqId) : AK s (expireReq x s r).s := by
  unfold expireReq
  cases hq : get s.reqs r with
  | none => ak_shape
  | some q =>
    dsimp only
    split; · ak_shape
    cases hs : slash s r x.svc q.prov with
    | overflow => exact AK.refl s
    | bankErr => exact refundExpired_ak s [] x q r
    | done s1 e1 => exact (slash_ak hs).trans (refundExpired_ak s1 e1 x q r)

theorem foldH_ak {α : Type} (hd : State → α → HRes) (hk : ∀ s a, AK s (hd s a).s) :
    ∀ (l : List α) (s : State), AK s (foldH hd s l).s := by
  intro l
  induction l with
  | nil => intro s; exact AK.refl s
  | cons a t ih =>
    intro s
    rw [foldH_cons]
    split
    · exact hk s a
    · exact (hk s a).trans (ih _)

theorem expirePending_ak (s : State) (c : CtxId) (x : Ctx) : AK s (expirePending s c x).1.s := by
  unfold expirePending
  split
  · exact foldH_ak _ (expireReq_ak x) _ s
  · exact AK.refl s

theorem nodupKeys_foldl_del {κ ν : Type} [DecidableEq κ] (ids : List κ) : ∀ (m : Map κ ν), NodupKeys m →
    NodupKeys (ids.foldl (fun m r => Map.del m r) m) := by
  induction ids with
  | nil => intro m h; exact h
  | cons a t ih => intro m h; exact ih _ (nodupKeys_del _ _ h)

theorem cleanBatch_ak (s : State) (c : CtxId) (b : Nat) : AK s (cleanBatch s c b) := by
  intro h
  obtain ⟨h1, h2, h3, h4, h5, h6, h7, h8, h9, h10, h11, h12, h13, h14, h15, h16, h17⟩ := h
  unfold cleanBatch
  constructor <;> (try dsimp only) <;> first | assumption | exact nodupKeys_foldl_del _ _ (by assumption)

theorem expireTail_ak (s : State) (c : CtxId) (x1 : Ctx) : AK s (expireTail s c x1).1 := by
  unfold expireTail
  dsimp only
  cases x1.state with
  | completed => exact AK.trans (by ak_shape) (cleanBatch_ak _ c _)
  | paused => exact AK.trans (by ak_shape) (cleanBatch_ak _ c _)
  | running => dsimp only; split <;> exact AK.trans (by ak_shape) (cleanBatch_ak _ c _)

theorem expireBatch_ak (s : State) (c : CtxId) : AK s (expireBatch s c).s := by
  unfold expireBatch
  split; · exact AK.refl s
  cases get s.ctxs c with
  | none => ak_shape
  | some x =>
    dsimp only
    split
    · exact expirePending_ak s c x
    · exact (expirePending_ak s c x).trans (expireTail_ak _ c _)

theorem issueReqs_ak (c : CtxId) (x : Ctx) (el : List (Addr × Nat)) : ∀ (s : State) (i : Nat),
    AK s (issueReqs s c x el i) := by
  induction el with
  | nil => intro s i; exact AK.refl s
  | cons hd t ih =>
    intro s i
    obtain ⟨p, price⟩ := hd
    simp only [issueReqs]
    exact AK.trans (by ak_shape) (ih _ _)

theorem issueBatch_ak (s : State) (bank' : Bank) (c : CtxId) (x : Ctx) (el : List (Addr × Nat)) (ep : List Effect) :
    AK s (issueBatch s bank' c x el ep).1 := by
  unfold issueBatch
  dsimp only
  have a1 : AK s { s with bank := bank' } := by ak_shape
  have a2 := issueReqs_ak c x el { s with bank := bank' } 0
  refine a1.trans (a2.trans ?_)
  ak_shape

theorem startOrSkip_ak (s : State) (c : CtxId) (x : Ctx) : AK s (startOrSkip s c x).1 := by
  unfold startOrSkip
  split
  · split
    · exact issueBatch_ak _ _ _ _ _ _
    · cases bankSend s.bank x.cons s.cfg.escrow (sumPrices (eligible s x)) with
      | some bk => exact issueBatch_ak _ _ _ _ _ _
      | none => ak_shape
  · ak_shape

theorem newBatch_ak (s : State) (c : CtxId) : AK s (newBatch s c).s := by
  unfold newBatch
  split; · exact AK.refl s
  cases get s.ctxs c with
  | none => ak_shape
  | some x =>
    dsimp only
    split; · ak_shape
    split; · ak_shape
    exact AK.trans (by ak_shape) ((startOrSkip_ak _ c x).trans (by ak_shape))

theorem endBlock_ak (s : State) (dt : Int) : AK s (endBlock s dt).s := by
  unfold endBlock
  dsimp only
  have h1 := foldH_ak expireBatch expireBatch_ak (queuedAt s.expQ s.height) s
  split
  · exact h1
  · have h2 := foldH_ak newBatch newBatch_ak
      (queuedAt (foldH expireBatch s (queuedAt s.expQ s.height)).s.newQ (foldH expireBatch s (queuedAt s.expQ s.height)).s.height)
      (foldH expireBatch s (queuedAt s.expQ s.height)).s
    split
    · exact h1.trans h2
    · exact h1.trans (h2.trans (by ak_shape))

/-! ### every step -/
theorem exec_ak (s : State) (op : Op) : AK s (exec s op).1 := by
  cases op with
  | fund a n => show AK s _; ak_shape
  | xfer a b n =>
    show AK s (match bankSend s.bank a b n with
      | none => fail s Err.insufficientFunds
      | some bank' => ({ s with bank := bank' }, Res.ok, [])).1
    split
    · exact AK.refl s
    · ak_shape
  | define n a ok => exact define_ak s n a
  | bind svc p o dep text qos =>
    show AK s (match text with
      | some t => bind s svc p o dep t qos
      | none => (s, Res.invalid, [])).1
    cases text with
    | none => exact AK.refl s
    | some t => exact bind_ak s svc p o dep t qos
  | update svc p o dep text qos => exact update_ak s svc p o dep text qos
  | setwd o a => show AK s _; ak_shape
  | disable svc p o => exact disable_ak s svc p o
  | enable svc p o dep => exact enable_ak s svc p o dep
  | refund svc p o => exact refund_ak s svc p o
  | call id svc provs cons cap timeout super rep freq total inputOk =>
    show AK s (if s.cfg.modsvc = some svc then panicOut s "module-service call: outside the model"
      else createCtx s id "" svc provs cons cap timeout super rep freq total inputOk true 0).1
    split
    · exact AK.refl s
    · exact createCtx_ak _ _ _ _ _ _ _ _ _ _ _ _ _ _ _
  | modcreate id mod svc provs cons cap timeout super rep freq total inputOk running thr => exact createCtx_ak _ _ _ _ _ _ _ _ _ _ _ _ _ _ _
  | respond r p code out => exact respond_ak s r p code out
  | pause c cons => exact ctxMsg_ak s c cons _ (pauseK_ak s c cons)
  | start c cons => exact ctxMsg_ak s c cons _ (startK_ak s c cons)
  | kill c cons => exact ctxMsg_ak s c cons _ (killK_ak s c cons)
  | updatectx c cons provs cap timeout freq total => exact ctxMsg_ak s c cons _ (updateK_ak _ _ _ _ _ _ _ _ _)
  | modpause c cons => exact pauseK_ak s c cons
  | modstart c cons => exact startK_ak s c cons
  | modkill c cons => exact killK_ak s c cons
  | modupdate c cons provs thr cap timeout freq total => exact updateK_ak _ _ _ _ _ _ _ _ _
  | withdraw o p => exact withdraw_ak s o p
  | endblock dt =>
    show AK s (match (endBlock s dt).panic with
        | some m => (s, Res.panic m, (endBlock s dt).effs)
        | none => ((endBlock s dt).s, Res.ok, (endBlock s dt).effs)).1
    split
    · exact AK.refl s
    · exact endBlock_ak s dt

theorem step_ak (s : State) (op : Op) : AK s (step s op).1 := by
  unfold step
  split
  · exact AK.refl s
  · have h := exec_ak s op
    cases he : exec s op with
    | mk s' re =>
      obtain ⟨res, effs⟩ := re
      rw [he] at h
      dsimp only
      split
      · exact h
      · split
        · exact h
        · exact AK.refl s

theorem keys1_genesis (cfg : Config) (p : Params) (h0 t0 : Int) : Keys1 (genesis cfg p h0 t0) := by
  constructor <;> simp [genesis, NodupKeys, keys]

/-! ### the import builds a faithful store from any genesis -/
theorem nodupKeys_foldl_set {κ ν : Type} [DecidableEq κ] (l : List (κ × ν)) : ∀ (m : Map κ ν), NodupKeys m →
    NodupKeys (l.foldl (fun m e => set m e.1 e.2) m) := by
  induction l with
  | nil => intro m h; exact h
  | cons a t ih => intro m h; exact ih _ (nodupKeys_set _ _ _ h)

theorem importBindings_ak : ∀ (L : List ((SvcName × Addr) × Binding)) (s1 s2 : State),
    importBindings s1 L = some s2 → AK s1 s2 := by
  intro L
  induction L with
  | nil => intro s1 s2 h; simp only [importBindings, Option.some.injEq] at h; subst h; exact AK.refl _
  | cons e t ih =>
    intro s1 s2 h
    unfold importBindings at h
    cases hib : importBinding s1 e with
    | none => rw [hib] at h; cases h
    | some s1' =>
      rw [hib] at h; dsimp only at h
      refine AK.trans ?_ (ih s1' s2 h)
      unfold importBinding at hib
      split at hib
      · injection hib with hib; subst hib; ak_shape
      · cases hib

theorem importG_keys1 {cfg : Config} {g : GenesisState} {height time : Int} {s' : State}
    (h : importG cfg g height time = some s') : Keys1 s' := by
  unfold importG at h
  split at h
  · cases h
  · dsimp only at h
    split at h
    · cases h
    · rename_i s2 hs2
      injection h with h; subst h
      have k0 : Keys1 { genesis cfg g.params height time with defs := g.defs.foldl (fun m e => set m e.1 e.2) [] } := by
        have g0 := keys1_genesis cfg g.params height time
        obtain ⟨h1, h2, h3, h4, h5, h6, h7, h8, h9, h10, h11, h12, h13, h14, h15, h16, h17⟩ := g0
        constructor <;> (try dsimp only) <;> first | assumption | exact nodupKeys_foldl_set _ _ nodupKeys_nil
      have k2 := importBindings_ak _ _ _ hs2 k0
      obtain ⟨h1, h2, h3, h4, h5, h6, h7, h8, h9, h10, h11, h12, h13, h14, h15, h16, h17⟩ := k2
      constructor <;> (try dsimp only) <;> first | assumption | exact nodupKeys_foldl_set _ _ nodupKeys_nil

/-- the restarted chain starts from a faithful store, whatever the old state was -/
theorem restart_keys1 {s s' : State} {height time : Int} (h : restart s height time = some s') : Keys1 s' := by
  unfold restart at h
  split at h
  · cases h
  · split at h
    · cases h
    · rename_i s0 himp
      injection h with h; subst h
      have k := importG_keys1 himp
      obtain ⟨h1, h2, h3, h4, h5, h6, h7, h8, h9, h10, h11, h12, h13, h14, h15, h16, h17⟩ := k
      constructor <;> assumption

/-- every state of every chain — any operations, any number of restarts — is a faithful store -/
theorem keys1_reachableR {cfg : Config} {p : Params} {h0 t0 : Int} {s : State} (hr : ReachableR cfg p h0 t0 s) :
    Keys1 s := by
  induction hr with
  | init => exact keys1_genesis _ _ _ _
  | step op _ _ ih => exact step_ak _ op ih
  | restart height time _ hre _ => exact restart_keys1 hre

theorem keys1_reachable {cfg : Config} {p : Params} {h0 t0 : Int} {s : State} (hr : Reachable cfg p h0 t0 s) :
    Keys1 s := by
  induction hr with
  | init => exact keys1_genesis _ _ _ _
  | step op _ _ ih => exact step_ak _ op ih

end SM
