import ServiceModel.Proofs.Respond
/-!
# `withdraw` preserves every invariant
-/
namespace SM
open Map

theorem providersOf_mem (s : State) (hB : InvB s) (o p : Addr) :
    p ∈ providersOf s o ↔ Map.get s.owner p = some o := by
  unfold providersOf
  rw [← hB.provIdx o p]
  constructor
  · intro h
    obtain ⟨⟨o2, p2⟩, hm, hp⟩ := List.mem_map.mp h
    simp only at hp; subst hp
    have := List.mem_filter.mp hm
    simp only [decide_eq_true_eq] at this
    rw [← this.2]; exact this.1
  · intro h
    exact List.mem_map.mpr ⟨(o, p), List.mem_filter.mpr ⟨h, by simp⟩, rfl⟩

theorem withdraw_inv (s : State) (o p : Addr) (h : Inv s) : Inv (withdraw s o p).1 := by
  unfold withdraw
  split; · exact h
  rename_i hauth
  cases hw : withdrawRecords s o p with
  | error r => exact h
  | ok res =>
    obtain ⟨s1, amt⟩ := res
    dsimp only
    split; · exact h
    rename_i hdst
    cases hsend : bankSend s1.bank s.cfg.escrow ((Map.get s.withdraw o).getD o) amt with
    | none => exact h
    | some bank' =>
      dsimp only
      have hne1 : s.cfg.escrow ≠ (Map.get s.withdraw o).getD o := fun e => hdst (Or.inl e.symm)
      have hne2 : s.cfg.deposit ≠ (Map.get s.withdraw o).getD o := fun e => hdst (Or.inr e.symm)
      have hsrc := bankSend_src hsend hne1
      have hle := bankSend_le hsend
      have hdep : balOf bank'.bal s.cfg.deposit = balOf s1.bank.bal s.cfg.deposit :=
        bankSend_other hsend _ (fun e => h.static.ed e.symm) hne2
      unfold withdrawRecords at hw
      split at hw
      · rename_i hp
        have hown : Map.get s.owner p = some o := by
          by_cases hx : Map.get s.owner p = some o
          · exact hx
          · exact absurd ⟨hp, hx⟩ hauth
        split at hw
        · rename_i heq
          simp only [Except.ok.injEq, Prod.mk.injEq] at hw
          obtain ⟨h1, h2⟩ := hw; subst h1; subst h2
          refine { static := h.static, b := ?_, x := h.x, m := ?_, bound := h.bound }
          · show BInv _ _ (balOf bank'.bal s.cfg.deposit) _ _ _ _ _ _
            rw [hdep]; exact h.b
          · show MInv (balOf bank'.bal s.cfg.escrow) _ _ _ _ _
            refine MInv.withdrawProv h.m hown ?_ (by simp [heq])
            rw [hsrc]; exact Nat.sub_add_cancel hle
        · split at hw
          · simp at hw
          · rename_i hne hnlt
            simp only [Except.ok.injEq, Prod.mk.injEq] at hw
            obtain ⟨h1, h2⟩ := hw; subst h1; subst h2
            refine { static := h.static, b := ?_, x := h.x, m := ?_, bound := h.bound }
            · show BInv _ _ (balOf bank'.bal s.cfg.deposit) _ _ _ _ _ _
              rw [hdep]; exact h.b
            · show MInv (balOf bank'.bal s.cfg.escrow) _ _ _ _ _
              refine MInv.withdrawProv h.m hown ?_ (by simp [hne])
              rw [hsrc]; exact Nat.sub_add_cancel hle
      · simp only [Except.ok.injEq, Prod.mk.injEq] at hw
        obtain ⟨h1, h2⟩ := hw; subst h1; subst h2
        refine { static := h.static, b := ?_, x := h.x, m := ?_, bound := h.bound }
        · show BInv _ _ (balOf bank'.bal s.cfg.deposit) _ _ _ _ _ _
          rw [hdep]; exact h.b
        · show MInv (balOf bank'.bal s.cfg.escrow) _ _ _ _ _
          refine MInv.withdrawAll h.m (providersOf s o) (providersOf_mem s h.b o) ?_
          rw [hsrc]; exact Nat.sub_add_cancel hle

end SM
