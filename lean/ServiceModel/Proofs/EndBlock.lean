import ServiceModel.Proofs.EndBlockNew
/-!
# The end of a block as a whole: both folds, then the next block begins
-/
namespace SM
open Map

theorem mem_sortCtxIds (l : List CtxId) (c : CtxId) : c ∈ sortCtxIds l ↔ c ∈ l := by
  unfold sortCtxIds; exact (isort_perm _ l).mem_iff

theorem mem_queuedAt (q : FSet (Int × CtxId)) (h : Int) (c : CtxId) : c ∈ queuedAt q h ↔ (h, c) ∈ q := by
  unfold queuedAt
  rw [mem_sortCtxIds]
  constructor
  · intro hm
    obtain ⟨⟨h2, c2⟩, hmem, hk⟩ := List.mem_map.mp hm
    simp only at hk; subst hk
    have := List.mem_filter.mp hmem
    simp only [decide_eq_true_eq] at this
    rw [← this.2]; exact this.1
  · intro hm
    exact List.mem_map.mpr ⟨(h, c), List.mem_filter.mpr ⟨hm, by simp⟩, rfl⟩

theorem expireTail_ptrs (s : State) (c : CtxId) (x1 : Ctx) :
    (expireTail s c x1).1.height = s.height ∧ (expireTail s c x1).1.expH = Map.del s.expH c := by
  unfold expireTail
  dsimp only
  cases x1.state with
  | running => dsimp only; split <;> exact ⟨rfl, rfl⟩
  | paused => exact ⟨rfl, rfl⟩
  | completed => exact ⟨rfl, rfl⟩

/-- height and expiry pointers after the expiry handler of one entry -/
theorem expireBatch_ptrs (s : State) (c : CtxId) (h : Inv s) (hnp : (expireBatch s c).panic = none) :
    (expireBatch s c).s.height = s.height ∧
    (∀ c2, Map.get (expireBatch s c).s.expH c2 =
      if c2 = c ∧ (s.height, c) ∈ s.expQ then none else Map.get s.expH c2) := by
  unfold expireBatch at hnp ⊢
  split
  · rename_i hq
    refine ⟨rfl, fun c2 => ?_⟩
    rw [if_neg (fun hh => hq (by simpa using hh.2))]; rfl
  · rename_i hq
    rw [if_neg hq] at hnp
    have hmem : (s.height, c) ∈ s.expQ := by simpa using hq
    have hexp := (h.x.expMirror s.height c).mp hmem
    cases hx : Map.get s.ctxs c with
    | none => have := (h.x.expFuture c s.height hexp).2; rw [hx] at this; simp at this
    | some x =>
      rw [hx] at hnp
      dsimp only at hnp ⊢
      rcases Option.eq_none_or_eq_some (expirePending s c x).1.panic with hp | ⟨m, hp⟩
      · simp only [hp]
        obtain ⟨_, i2, _⟩ := expirePending_spec s c x h hx hp
        obtain ⟨t1, t2⟩ := expireTail_ptrs (expirePending s c x).1.s c (expirePending s c x).2
        refine ⟨by rw [t1]; exact i2.2.2.1, fun c2 => ?_⟩
        rw [t2, i2.2.2.2.2.2.2.2.1, Map.get_del]
        by_cases hc : c = c2
        · subst hc; simp [hmem]
        · have : ¬ c2 = c := fun e => hc e.symm
          simp [hc, this]
      · simp only [hp] at hnp; cases hnp

/-- phase 1 as a whole -/
theorem expirePhase (H : Int) (l : List CtxId) (s : State) (h : Inv s) (hH : s.height = H)
    (hpend : ∀ c, Map.get s.expH c = some H → c ∈ l)
    (hnp : (foldH expireBatch s l).panic = none) :
    Inv (foldH expireBatch s l).s ∧ (foldH expireBatch s l).s.height = H ∧
      (∀ c, Map.get (foldH expireBatch s l).s.expH c ≠ some H) := by
  induction l generalizing s with
  | nil =>
    refine ⟨h, hH, fun c hc => ?_⟩
    have := hpend c hc; simp at this
  | cons c rest ih =>
    obtain ⟨hp1, hp2, hs⟩ := foldH_cons_nopanic _ s c rest hnp
    rw [hs]
    have hinv := expireBatch_inv s c h hp1
    obtain ⟨ph, pe⟩ := expireBatch_ptrs s c h hp1
    refine ih (expireBatch s c).s hinv (by rw [ph]; exact hH) ?_ hp2
    intro c2 hc2
    rw [pe c2] at hc2
    split at hc2
    · simp at hc2
    · rename_i hne
      have := hpend c2 hc2
      simp only [List.mem_cons] at this
      rcases this with e | e
      · subst e
        -- the entry of c itself: its guard must have been false, so no pointer at H
        exfalso
        apply hne
        exact ⟨rfl, by rw [hH]; exact (h.x.expMirror H c2).mpr hc2⟩
      · exact e

end SM

namespace SM
open Map

theorem issueBatch_ptrs (s : State) (bank' : Bank) (c : CtxId) (x : Ctx) (el : List (Addr × Nat)) (ep : List Effect) :
    (issueBatch s bank' c x el ep).1.height = s.height ∧ (issueBatch s bank' c x el ep).1.newH = s.newH ∧
    (issueBatch s bank' c x el ep).1.expH = Map.set s.expH c (s.height + x.timeout) := by
  unfold issueBatch
  dsimp only [addExpQ, setCtx]
  refine ⟨?_, ?_, ?_⟩
  · exact issueReqs_proj (·.height) (fun _ _ _ _ _ _ _ => rfl) _ c x el 0
  · exact issueReqs_proj (·.newH) (fun _ _ _ _ _ _ _ => rfl) _ c x el 0
  · rw [issueReqs_proj (·.expH) (fun _ _ _ _ _ _ _ => rfl) _ c x el 0]

theorem startOrSkip_ptrs (s : State) (c : CtxId) (x : Ctx) :
    (startOrSkip s c x).1.height = s.height ∧ (startOrSkip s c x).1.newH = s.newH ∧
    ((startOrSkip s c x).1.expH = s.expH ∨ (startOrSkip s c x).1.expH = Map.set s.expH c (s.height + x.timeout)) := by
  unfold startOrSkip
  split
  · split
    · obtain ⟨a, b, c'⟩ := issueBatch_ptrs s s.bank c x (eligible s x) []
      exact ⟨a, b, Or.inr c'⟩
    · cases hb : bankSend s.bank x.cons s.cfg.escrow (sumPrices (eligible s x)) with
      | some bk =>
        dsimp only
        obtain ⟨a, b, c'⟩ := issueBatch_ptrs s bk c x (eligible s x)
          (if sumPrices (eligible s x) = 0 then [] else [.transfer x.cons s.cfg.escrow (sumPrices (eligible s x))])
        exact ⟨a, b, Or.inr c'⟩
      | none => exact ⟨rfl, rfl, Or.inl rfl⟩
  · exact ⟨rfl, rfl, Or.inr rfl⟩

/-- height and pointers after the new-batch handler of one entry -/
theorem newBatch_ptrs (s : State) (c : CtxId) (h : Inv s) :
    (newBatch s c).s.height = s.height ∧
    (∀ c2, Map.get (newBatch s c).s.newH c2 =
      if c2 = c ∧ (s.height, c) ∈ s.newQ then none else Map.get s.newH c2) ∧
    (∀ c2, Map.get s.expH c2 ≠ some s.height → Map.get (newBatch s c).s.expH c2 ≠ some s.height) := by
  have hdel : ∀ (m : Map CtxId Int) (hm : (s.height, c) ∈ s.newQ) c2,
      Map.get (Map.del m c) c2 = if c2 = c ∧ (s.height, c) ∈ s.newQ then none else Map.get m c2 := by
    intro m hm c2
    rw [Map.get_del]
    by_cases hc : c = c2
    · subst hc; simp [hm]
    · have : ¬ c2 = c := fun e => hc e.symm
      simp [hc, this]
  unfold newBatch
  split
  · rename_i hq
    refine ⟨rfl, fun c2 => ?_, fun _ hh => hh⟩
    rw [if_neg (fun hh => hq (by simpa using hh.2))]; rfl
  · rename_i hq
    have hmem : (s.height, c) ∈ s.newQ := by simpa using hq
    have hdue := (h.x.newMirror s.height c).mp hmem
    cases hx : Map.get s.ctxs c with
    | none => have := (h.x.newFuture c s.height hdue).2; rw [hx] at this; simp at this
    | some x =>
      dsimp only
      have ht := (h.x.ctxWF c x hx).1
      split
      · exact ⟨rfl, hdel s.newH hmem, fun _ hh => hh⟩
      · split
        · exact ⟨rfl, hdel s.newH hmem, fun _ hh => hh⟩
        · obtain ⟨a, b, c'⟩ := startOrSkip_ptrs s c x
          refine ⟨a, fun c2 => ?_, fun c2 hh => ?_⟩
          · show Map.get (Map.del (startOrSkip s c x).1.newH c) c2 = _
            rw [b]; exact hdel s.newH hmem c2
          · show Map.get (startOrSkip s c x).1.expH c2 ≠ _
            rcases c' with c' | c'
            · rw [c']; exact hh
            · rw [c', Map.get_set]
              split
              · intro e; injection e with e; omega
              · exact hh

/-- phase 2 as a whole -/
theorem newPhase (H : Int) (l : List CtxId) (s : State) (h : Inv s) (hH : s.height = H)
    (hpend : ∀ c, Map.get s.newH c = some H → c ∈ l)
    (hnoexp : ∀ c, Map.get s.expH c ≠ some H)
    (hnp : (foldH newBatch s l).panic = none) :
    Inv (foldH newBatch s l).s ∧ (foldH newBatch s l).s.height = H ∧
      (∀ c, Map.get (foldH newBatch s l).s.newH c ≠ some H) ∧
      (∀ c, Map.get (foldH newBatch s l).s.expH c ≠ some H) := by
  induction l generalizing s with
  | nil =>
    refine ⟨h, hH, fun c hc => ?_, hnoexp⟩
    have := hpend c hc; simp at this
  | cons c rest ih =>
    obtain ⟨hp1, hp2, hs⟩ := foldH_cons_nopanic _ s c rest hnp
    rw [hs]
    have hinv := newBatch_inv s c h
    obtain ⟨ph, pn, pe⟩ := newBatch_ptrs s c h
    refine ih (newBatch s c).s hinv (by rw [ph]; exact hH) ?_ ?_ hp2
    · intro c2 hc2
      rw [pn c2] at hc2
      split at hc2
      · simp at hc2
      · rename_i hne
        have := hpend c2 hc2
        simp only [List.mem_cons] at this
        rcases this with e | e
        · subst e
          exfalso
          apply hne
          exact ⟨rfl, by rw [hH]; exact (h.x.newMirror H c2).mpr hc2⟩
        · exact e
    · intro c2
      have := pe c2 (by rw [hH]; exact hnoexp c2)
      rw [hH] at this; exact this

end SM

namespace SM
open Map

/-- the next block begins once nothing is scheduled at the current height any more -/
theorem inv_nextBlock (s : State) (h : Inv s) (dt : Int)
    (hn : ∀ c, Map.get s.newH c ≠ some s.height) (he : ∀ c, Map.get s.expH c ≠ some s.height) :
    Inv { s with height := s.height + 1, time := s.time + dt } := by
  refine { static := h.static, b := h.b, x := ?_, m := h.m, bound := h.bound }
  refine { h.x with newFuture := ?_, expFuture := ?_ }
  · intro c hh hc
    have := h.x.newFuture c hh hc
    refine ⟨?_, this.2⟩
    have hne : hh ≠ s.height := fun e => hn c (e ▸ hc)
    show s.height + 1 ≤ hh
    omega
  · intro c hh hc
    have := h.x.expFuture c hh hc
    refine ⟨?_, this.2⟩
    have hne : hh ≠ s.height := fun e => he c (e ▸ hc)
    show s.height + 1 ≤ hh
    omega

/-- the end of a block preserves every invariant -/
theorem endBlock_inv (s : State) (dt : Int) (h : Inv s) (hnp : (endBlock s dt).panic = none) :
    Inv (endBlock s dt).s := by
  unfold endBlock at hnp ⊢
  dsimp only at hnp ⊢
  rcases Option.eq_none_or_eq_some (foldH expireBatch s (queuedAt s.expQ s.height)).panic with hp1 | ⟨m, hp1⟩
  · simp only [hp1] at hnp ⊢
    obtain ⟨i1, i2, i3⟩ := expirePhase s.height _ s h rfl
      (fun c hc => (mem_queuedAt _ _ _).mpr ((h.x.expMirror s.height c).mpr hc)) hp1
    rcases Option.eq_none_or_eq_some
        (foldH newBatch (foldH expireBatch s (queuedAt s.expQ s.height)).s
          (queuedAt (foldH expireBatch s (queuedAt s.expQ s.height)).s.newQ
            (foldH expireBatch s (queuedAt s.expQ s.height)).s.height)).panic with hp2 | ⟨m, hp2⟩
    · simp only [hp2] at hnp ⊢
      obtain ⟨j1, j2, j3, j4⟩ := newPhase s.height _ _ i1 i2
        (fun c hc => (mem_queuedAt _ _ _).mpr (by rw [i2]; exact (i1.x.newMirror s.height c).mpr hc)) i3 hp2
      have := inv_nextBlock _ j1 dt (by rw [j2]; exact j3) (by rw [j2]; exact j4)
      exact this
    · simp only [hp2] at hnp; cases hnp
  · simp only [hp1] at hnp; cases hnp

/-- every operation preserves `Inv` -/
theorem exec_inv (s : State) (op : Op) (h : Inv s) (hw : WF s op) (hvb : validateBasic op = true) :
    Inv (exec s op).1 := by
  cases hop : op.isEndblock with
  | false => exact exec_inv_msg s op h hw hvb hop
  | true =>
    cases op with
    | endblock dt =>
      show Inv (match (endBlock s dt).panic with
        | some m => (s, Res.panic m, (endBlock s dt).effs)
        | none => ((endBlock s dt).s, Res.ok, (endBlock s dt).effs)).1
      rcases Option.eq_none_or_eq_some (endBlock s dt).panic with hp | ⟨m, hp⟩
      · simp only [hp]; exact endBlock_inv s dt h hp
      · simp only [hp]; exact h
    | _ => simp [Op.isEndblock] at hop

/-- a step preserves `Inv` -/
theorem step_inv (s : State) (op : Op) (h : Inv s) (hw : WF s op) : Inv (step s op).1 :=
  step_preserves s op h (fun hvb _ => exec_inv s op h hw hvb)

end SM
