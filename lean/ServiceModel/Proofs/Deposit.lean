import ServiceModel.Proofs.StepLemmas
namespace SM

theorem bind_deposit (s : State) (svc : SvcName) (prov owner : Addr) (dep : Option Nat) (text : PricingText) (qos : Nat)
    (hb : InvBasic s) (hd : InvDeposit s) (hw : ¬ s.modAcct owner) :
    InvDeposit (bind s svc prov owner dep text qos).1 := by
  unfold bind
  dsimp only
  repeat' split
  all_goals (try (simp only [fail, panicOut]; exact hd))
  all_goals trace_state
  all_goals sorry

end SM
