import ServiceModel.Proofs.OneShot
/-!
# How the deposit of a binding can change in one step (C03)

`DepRel R s s'`: every binding of `s` is still there in `s'` and its deposits before/after are related by `R`.
With `R = (· ≤ ·)`: nothing but a refund, a slash at a response, or the end of a block lowers a deposit.
With `R = (· ≥ ·)`: nothing but bind / update / enable raises one.
-/
namespace SM
open Map

def DepRel (R : Nat → Nat → Prop) (s s' : State) : Prop :=
  ∀ k b, get s.bindings k = some b → ∃ b', get s'.bindings k = some b' ∧ R b.deposit b'.deposit

variable {R : Nat → Nat → Prop}

theorem DepRel.refl (hR : ∀ n, R n n) (s : State) : DepRel R s s := fun _ b h => ⟨b, h, hR _⟩
theorem DepRel.of_eq (hR : ∀ n, R n n) {s s' : State} (h : s'.bindings = s.bindings) : DepRel R s s' :=
  fun _ b hb => ⟨b, by rw [h]; exact hb, hR _⟩
theorem DepRel.trans (hT : ∀ a b c, R a b → R b c → R a c) {a b c : State} (h1 : DepRel R a b) (h2 : DepRel R b c) :
    DepRel R a c := fun k x hx => by
  obtain ⟨y, hy, r1⟩ := h1 k x hx
  obtain ⟨z, hz, r2⟩ := h2 k y hy
  exact ⟨z, hz, hT _ _ _ r1 r2⟩

theorem DepRel.setBinding (hR : ∀ n, R n n) {s s' : State} {k : SvcName × Addr} {b b' : Binding}
    (hb : get s.bindings k = some b) (h2 : s'.bindings = set s.bindings k b') (hd : R b.deposit b'.deposit) :
    DepRel R s s' := by
  intro k2 b2 hb2
  rw [h2, Map.get_set]
  by_cases hk : k = k2
  · subst hk; rw [hb] at hb2; injection hb2 with hb2; subst hb2
    exact ⟨b', by simp, hd⟩
  · exact ⟨b2, by simp [hk, hb2], hR _⟩

/-- a new binding under a key that had none -/
theorem DepRel.addBinding (hR : ∀ n, R n n) {s s' : State} {k : SvcName × Addr} {b' : Binding}
    (hb : get s.bindings k = none) (h2 : s'.bindings = set s.bindings k b') : DepRel R s s' := by
  intro k2 b2 hb2
  rw [h2, Map.get_set]
  by_cases hk : k = k2
  · subst hk; rw [hb] at hb2; cases hb2
  · exact ⟨b2, by simp [hk, hb2], hR _⟩

macro "dep_tac" f:ident : tactic =>
  `(tactic| (unfold $f; (try dsimp only); repeat' split
             all_goals first
               | exact DepRel.refl ‹_› _
               | exact DepRel.of_eq ‹_› rfl
               | (simp only [setCtx, addNewQ, addExpQ, delNewQ, delExpQ, delCtx, fail, panicOut]; exact DepRel.of_eq ‹_› rfl)))

section
variable (hR : ∀ n, R n n)
include hR

theorem define_dep (s : State) (n : SvcName) (a : Addr) : DepRel R s (define s n a).1 := by dep_tac define
theorem pauseK_dep (s : State) (c : CtxId) (cons : Addr) : DepRel R s (pauseK s c cons).1 := by dep_tac pauseK
theorem startK_dep (s : State) (c : CtxId) (cons : Addr) : DepRel R s (startK s c cons).1 := by dep_tac startK
theorem killK_dep (s : State) (c : CtxId) (cons : Addr) : DepRel R s (killK s c cons).1 := by dep_tac killK
theorem updateK_dep (s : State) (c : CtxId) (cons : Addr) (provs : List Addr) (thr : Nat) (cap : Option Nat)
    (timeout : Int) (freq : Nat) (total : Int) : DepRel R s (updateK s c cons provs thr cap timeout freq total).1 := by
  dep_tac updateK
theorem createCtx_dep (s : State) (id : CtxId) (mod : ModName) (svc : SvcName) (provs : List Addr) (cons : Addr)
    (cap : Option Nat) (timeout : Int) (super rep : Bool) (freq : Nat) (total : Int) (inputOk running : Bool) (thr : Nat) :
    DepRel R s (createCtx s id mod svc provs cons cap timeout super rep freq total inputOk running thr).1 := by
  dep_tac createCtx
theorem ctxMsg_dep (s : State) (c : CtxId) (cons : Addr) (k : State → Out) (hk : DepRel R s (k s).1) :
    DepRel R s (ctxMsg s c cons k).1 := by
  unfold ctxMsg; split
  · exact DepRel.refl hR s
  · exact hk

theorem withdraw_dep (s : State) (o p : Addr) : DepRel R s (withdraw s o p).1 := by
  apply DepRel.of_eq hR
  unfold withdraw
  split; · rfl
  cases hw : withdrawRecords s o p with
  | error r => rfl
  | ok res =>
    obtain ⟨s1, amt⟩ := res
    dsimp only
    have h1 : s1.bindings = s.bindings := by
      unfold withdrawRecords at hw
      repeat' split at hw
      all_goals first
        | (cases hw; done)
        | (simp only [Except.ok.injEq, Prod.mk.injEq] at hw; obtain ⟨e1, _⟩ := hw; subst e1; rfl)
    split; · rfl
    split
    · rfl
    · exact h1

theorem disable_dep (s : State) (svc : SvcName) (p o : Addr) : DepRel R s (disable s svc p o).1 := by
  unfold disable
  cases hb : get s.bindings (svc, p) with
  | none => exact DepRel.refl hR s
  | some b =>
    dsimp only
    repeat' split
    all_goals first
      | exact DepRel.refl hR s
      | exact DepRel.setBinding hR hb rfl (hR _)

theorem bind_dep (s : State) (svc : SvcName) (p o : Addr) (dep : Option Nat) (text : PricingText) (qos : Nat) :
    DepRel R s (bind s svc p o dep text qos).1 := by
  unfold bind
  split; · exact DepRel.refl hR s
  split; · exact DepRel.refl hR s
  split; · exact DepRel.refl hR s
  rename_i _ _ hnew
  have hk : get s.bindings (svc, p) = none := by
    cases hh : get s.bindings (svc, p) with
    | none => rfl
    | some b => rw [hh] at hnew; simp at hnew
  dsimp only
  split; · exact DepRel.refl hR s
  cases dep with
  | none => exact DepRel.refl hR s
  | some d =>
    dsimp only
    split; · exact DepRel.refl hR s
    cases parsePricing text with
    | bad => exact DepRel.refl hR s
    | overflow => exact DepRel.refl hR s
    | ok pr =>
      dsimp only
      split; · exact DepRel.refl hR s
      cases minDeposit s.params pr with
      | none => exact DepRel.refl hR s
      | some md =>
        dsimp only
        split; · exact DepRel.refl hR s
        cases bankSend s.bank o s.cfg.deposit d with
        | none => exact DepRel.refl hR s
        | some bank' =>
          dsimp only
          split <;> exact DepRel.addBinding hR hk rfl
end

/-! ### operations that lower a deposit: a refund, a slash -/
theorem slash_dep_le {s s1 : State} {r : ReqId} {svc : SvcName} {p : Addr} {e : List Effect}
    (h : slash s r svc p = .done s1 e) : DepRel (· ≥ ·) s s1 := by
  have hR : ∀ n : Nat, n ≥ n := fun n => Nat.le_refl n
  unfold slash at h
  cases hb : get s.bindings (svc, p) with
  | none => rw [hb] at h; injection h with h1 _; subst h1; exact DepRel.refl hR s
  | some b =>
    rw [hb] at h; dsimp only at h
    split at h; · cases h
    cases hbk : bankBurn s.bank s.cfg.deposit (b.deposit * s.params.slash / decUnit) with
    | none => rw [hbk] at h; cases h
    | some bank' =>
      rw [hbk] at h; dsimp only at h
      split at h
      · cases hmd : minDeposit s.params (storedPricing s svc p) with
        | none => rw [hmd] at h; cases h
        | some md =>
          rw [hmd] at h; dsimp only at h
          injection h with h1 _; subst h1
          refine DepRel.setBinding hR hb rfl ?_
          split <;> exact Nat.sub_le _ _
      · injection h with h1 _; subst h1
        exact DepRel.setBinding hR hb rfl (Nat.sub_le _ _)

theorem ge_trans' : ∀ a b c : Nat, a ≥ b → b ≥ c → a ≥ c := fun _ _ _ h1 h2 => Nat.le_trans h2 h1
theorem ge_refl' : ∀ n : Nat, n ≥ n := fun n => Nat.le_refl n
theorem le_refl' : ∀ n : Nat, n ≤ n := fun n => Nat.le_refl n

theorem refund_dep_le (s : State) (svc : SvcName) (p o : Addr) : DepRel (· ≥ ·) s (refund s svc p o).1 := by
  unfold refund
  cases hb : get s.bindings (svc, p) with
  | none => exact DepRel.refl ge_refl' s
  | some b =>
    dsimp only
    repeat' split
    all_goals first
      | exact DepRel.refl ge_refl' s
      | exact DepRel.setBinding ge_refl' hb rfl (Nat.zero_le _)

theorem respond_dep_le (s : State) (r : ReqId) (pv : Addr) (code : Nat) (out : OutKind) :
    DepRel (· ≥ ·) s (respond s r pv code out).1 := by
  unfold respond
  cases hq : get s.reqs r with
  | none => exact DepRel.refl ge_refl' s
  | some q =>
    dsimp only
    cases hx : get s.ctxs r.ctx with
    | none => exact DepRel.refl ge_refl' s
    | some x =>
      dsimp only
      split; · exact DepRel.refl ge_refl' s
      split; · exact DepRel.refl ge_refl' s
      cases hs : settle s r x.svc x.cons q pv out with
      | error res => exact DepRel.refl ge_refl' s
      | ok res =>
        obtain ⟨s1, e1⟩ := res
        dsimp only
        have h1 : DepRel (· ≥ ·) s s1 := by
          unfold settle at hs
          split at hs
          · cases hsl : slash s r x.svc q.prov with
            | bankErr => rw [hsl] at hs; simp at hs
            | overflow => rw [hsl] at hs; simp at hs
            | done s2 e2 =>
              rw [hsl] at hs; dsimp only at hs
              cases hb : bankSend s2.bank s2.cfg.escrow x.cons q.fee with
              | none => rw [hb] at hs; simp at hs
              | some bank' =>
                rw [hb] at hs
                simp only [Except.ok.injEq, Prod.mk.injEq] at hs
                obtain ⟨e1', _⟩ := hs; subst e1'
                exact DepRel.trans ge_trans' (slash_dep_le hsl) (DepRel.of_eq ge_refl' rfl)
          · cases ha : addEarned s pv q.fee with
            | none => rw [ha] at hs; simp at hs
            | some res =>
              rw [ha] at hs; simp only [Except.ok.injEq] at hs; subst hs
              obtain ⟨bank', ea, oe, hh⟩ := addEarned_shape ha
              subst hh; exact DepRel.of_eq ge_refl' rfl
        split
        · exact DepRel.trans ge_trans' h1 (DepRel.of_eq ge_refl' rfl)
        · exact DepRel.trans ge_trans' h1 (DepRel.of_eq ge_refl' rfl)

/-! ### operations that raise a deposit: update and enable (bind creates one) -/
theorem update_dep_ge (s : State) (svc : SvcName) (p o : Addr) (dep : Option Nat) (text : Option PricingText) (qos : Nat) :
    DepRel (· ≤ ·) s (update s svc p o dep text qos).1 := by
  unfold update
  cases hb : get s.bindings (svc, p) with
  | none => exact DepRel.refl le_refl' s
  | some b =>
    dsimp only
    repeat' split
    all_goals first
      | exact DepRel.refl le_refl' s
      | exact DepRel.of_eq le_refl' rfl
      | exact DepRel.setBinding le_refl' hb rfl (Nat.le_add_right _ _)

theorem enable_dep_ge (s : State) (svc : SvcName) (p o : Addr) (dep : Option Nat) :
    DepRel (· ≤ ·) s (enable s svc p o dep).1 := by
  unfold enable
  cases hb : get s.bindings (svc, p) with
  | none => exact DepRel.refl le_refl' s
  | some b =>
    dsimp only
    repeat' split
    all_goals first
      | exact DepRel.refl le_refl' s
      | exact DepRel.setBinding le_refl' hb rfl (Nat.le_add_right _ _)

/-! ### the end of a block only lowers deposits (slashes) -/
theorem endBlock_dep_le (s : State) (dt : Int) : DepRel (· ≥ ·) s (endBlock s dt).s := by
  have refundE : ∀ (s1 : State) (e1 : List Effect) (x : Ctx) (q : Req) (r : ReqId),
      DepRel (· ≥ ·) s1 (refundExpired s1 e1 x q r).s := by
    intro s1 e1 x q r; unfold refundExpired; split <;> exact DepRel.of_eq ge_refl' rfl
  have expReq : ∀ (x : Ctx) (s : State) (r : ReqId), DepRel (· ≥ ·) s (expireReq x s r).s := by
    intro x s r
    unfold expireReq
    cases hq : get s.reqs r with
    | none => exact DepRel.of_eq ge_refl' rfl
    | some q =>
      dsimp only
      split; · exact DepRel.of_eq ge_refl' rfl
      cases hs : slash s r x.svc q.prov with
      | overflow => exact DepRel.refl ge_refl' s
      | bankErr => exact refundE s [] x q r
      | done s1 e1 => exact DepRel.trans ge_trans' (slash_dep_le hs) (refundE s1 e1 x q r)
  have fold : ∀ {α : Type} (hd : State → α → HRes), (∀ s a, DepRel (· ≥ ·) s (hd s a).s) →
      ∀ (l : List α) (s : State), DepRel (· ≥ ·) s (foldH hd s l).s := by
    intro α hd hk l
    induction l with
    | nil => intro s; exact DepRel.refl ge_refl' s
    | cons a t ih =>
      intro s
      rw [foldH_cons]
      split
      · exact hk s a
      · exact DepRel.trans ge_trans' (hk s a) (ih _)
  have expB : ∀ (s : State) (c : CtxId), DepRel (· ≥ ·) s (expireBatch s c).s := by
    intro s c
    have hpend : ∀ x, DepRel (· ≥ ·) s (expirePending s c x).1.s := by
      intro x
      unfold expirePending
      split
      · exact fold _ (expReq x) _ s
      · exact DepRel.refl ge_refl' s
    have htail : ∀ (s : State) (x1 : Ctx), DepRel (· ≥ ·) s (expireTail s c x1).1 := by
      intro s x1
      unfold expireTail
      dsimp only
      cases x1.state with
      | completed => exact DepRel.of_eq ge_refl' rfl
      | paused => exact DepRel.of_eq ge_refl' rfl
      | running => dsimp only; split <;> exact DepRel.of_eq ge_refl' rfl
    unfold expireBatch
    split; · exact DepRel.refl ge_refl' s
    cases get s.ctxs c with
    | none => exact DepRel.of_eq ge_refl' rfl
    | some x =>
      dsimp only
      split
      · exact hpend x
      · exact DepRel.trans ge_trans' (hpend x) (htail _ _)
  have newB : ∀ (s : State) (c : CtxId), DepRel (· ≥ ·) s (newBatch s c).s := by
    intro s c
    apply DepRel.of_eq ge_refl'
    have hissue : ∀ (bank' : Bank) (x : Ctx) (el : List (Addr × Nat)) (ep : List Effect),
        (issueBatch s bank' c x el ep).1.bindings = s.bindings := by
      intro bank' x el ep
      unfold issueBatch
      dsimp only [addExpQ, setCtx]
      exact issueReqs_proj (·.bindings) (fun _ _ _ _ _ _ _ => rfl) _ c x el 0
    unfold newBatch
    split; · rfl
    cases get s.ctxs c with
    | none => rfl
    | some x =>
      dsimp only
      split; · rfl
      split; · rfl
      show (startOrSkip s c x).1.bindings = s.bindings
      unfold startOrSkip
      split
      · split
        · exact hissue _ _ _ _
        · cases bankSend s.bank x.cons s.cfg.escrow (sumPrices (eligible s x)) with
          | some bk => exact hissue _ _ _ _
          | none => rfl
      · rfl
  unfold endBlock
  dsimp only
  have h1 := fold expireBatch expB (queuedAt s.expQ s.height) s
  split
  · exact h1
  · have h2 := fold newBatch newB
      (queuedAt (foldH expireBatch s (queuedAt s.expQ s.height)).s.newQ (foldH expireBatch s (queuedAt s.expQ s.height)).s.height)
      (foldH expireBatch s (queuedAt s.expQ s.height)).s
    split
    · exact DepRel.trans ge_trans' h1 h2
    · exact DepRel.trans ge_trans' h1 (DepRel.trans ge_trans' h2 (DepRel.of_eq ge_refl' rfl))

end SM

namespace SM
open Map

def Op.mayLowerDeposit : Op → Bool
  | .refund .. => true
  | .respond .. => true
  | .endblock _ => true
  | _ => false

def Op.mayRaiseDeposit : Op → Bool
  | .update .. => true
  | .enable .. => true
  | _ => false

/-- common part: operations that neither raise nor lower an existing deposit, for any reflexive relation -/
theorem exec_dep_neutral {R : Nat → Nat → Prop} (hR : ∀ n, R n n) (s : State) (op : Op)
    (h1 : op.mayLowerDeposit = false) (h2 : op.mayRaiseDeposit = false) : DepRel R s (exec s op).1 := by
  cases op with
  | fund a n => exact DepRel.of_eq hR rfl
  | xfer a b n =>
    show DepRel R s (match bankSend s.bank a b n with
      | none => fail s Err.insufficientFunds
      | some bank' => ({ s with bank := bank' }, Res.ok, [])).1
    split
    · exact DepRel.refl hR s
    · exact DepRel.of_eq hR rfl
  | define n a ok => exact define_dep hR s n a
  | bind svc p o dep text qos =>
    cases text with
    | none => exact DepRel.refl hR s
    | some t => exact bind_dep hR s svc p o dep t qos
  | update svc p o dep text qos => simp [Op.mayRaiseDeposit] at h2
  | setwd o a => exact DepRel.of_eq hR rfl
  | disable svc p o => exact disable_dep hR s svc p o
  | enable svc p o dep => simp [Op.mayRaiseDeposit] at h2
  | refund svc p o => simp [Op.mayLowerDeposit] at h1
  | call id svc provs cons cap timeout super rep freq total inputOk =>
    show DepRel R s (if s.cfg.modsvc = some svc then panicOut s "module-service call: outside the model"
      else createCtx s id "" svc provs cons cap timeout super rep freq total inputOk true 0).1
    split
    · exact DepRel.refl hR s
    · exact createCtx_dep hR s id "" svc provs cons cap timeout super rep freq total inputOk true 0
  | modcreate id mod svc provs cons cap timeout super rep freq total inputOk running thr =>
    exact createCtx_dep hR s id mod svc provs cons cap timeout super rep freq total inputOk running thr
  | respond r p code out => simp [Op.mayLowerDeposit] at h1
  | pause c cons => exact ctxMsg_dep hR s c cons _ (pauseK_dep hR s c cons)
  | start c cons => exact ctxMsg_dep hR s c cons _ (startK_dep hR s c cons)
  | kill c cons => exact ctxMsg_dep hR s c cons _ (killK_dep hR s c cons)
  | updatectx c cons provs cap timeout freq total =>
    exact ctxMsg_dep hR s c cons _ (updateK_dep hR s c cons provs 0 cap timeout freq total)
  | modpause c cons => exact pauseK_dep hR s c cons
  | modstart c cons => exact startK_dep hR s c cons
  | modkill c cons => exact killK_dep hR s c cons
  | modupdate c cons provs thr cap timeout freq total => exact updateK_dep hR s c cons provs thr cap timeout freq total
  | withdraw o p => exact withdraw_dep hR s o p
  | endblock dt => simp [Op.mayLowerDeposit] at h1

theorem exec_dep_not_lowered (s : State) (op : Op) (h1 : op.mayLowerDeposit = false) : DepRel (· ≤ ·) s (exec s op).1 := by
  cases h2 : op.mayRaiseDeposit with
  | false => exact exec_dep_neutral le_refl' s op h1 h2
  | true =>
    cases op with
    | update svc p o dep text qos => exact update_dep_ge s svc p o dep text qos
    | enable svc p o dep => exact enable_dep_ge s svc p o dep
    | _ => simp [Op.mayRaiseDeposit] at h2

theorem exec_dep_not_raised (s : State) (op : Op) (h2 : op.mayRaiseDeposit = false) : DepRel (· ≥ ·) s (exec s op).1 := by
  cases h1 : op.mayLowerDeposit with
  | false => exact exec_dep_neutral ge_refl' s op h1 h2
  | true =>
    cases op with
    | refund svc p o => exact refund_dep_le s svc p o
    | respond r p code out => exact respond_dep_le s r p code out
    | endblock dt =>
      show DepRel (· ≥ ·) s (match (endBlock s dt).panic with
          | some m => (s, Res.panic m, (endBlock s dt).effs)
          | none => ((endBlock s dt).s, Res.ok, (endBlock s dt).effs)).1
      split
      · exact DepRel.refl ge_refl' s
      · exact endBlock_dep_le s dt
    | _ => simp [Op.mayLowerDeposit] at h1

theorem step_dep {R : Nat → Nat → Prop} (hR : ∀ n, R n n) (s : State) (op : Op) (h : DepRel R s (exec s op).1) :
    DepRel R s (step s op).1 := by
  rcases step_state s op with h1 | ⟨h1, _, _⟩
  · rw [h1]; exact DepRel.refl hR s
  · rw [h1]; exact h

end SM
