import ServiceModel.Proofs.MWorld
import ServiceModel.Proofs.BWorld
/-!
# The money world under the binding operations (bank moves that do not touch escrow; the owner map)
-/
namespace SM
open Map

/-- a bank change that leaves the escrow account's balance as it was -/
theorem invM_bank {s : State} {bank' : Bank} (h : InvM s)
    (hb : balOf bank'.bal s.cfg.escrow = balOf s.bank.bal s.cfg.escrow) :
    InvM { s with bank := bank' } := by
  show MInv (balOf bank'.bal s.cfg.escrow) _ _ _ _ _
  rw [hb]; exact h

theorem send_keeps {b b' : Bank} {src dst x : Addr} {amt : Nat} (h : bankSend b src dst amt = some b')
    (h1 : x ≠ src) (h2 : x ≠ dst) : balOf b'.bal x = balOf b.bal x := bankSend_other h x h1 h2

theorem dep_send_keeps {s : State} {o : Addr} {dep : Option Nat} {bank' : Bank} {x : Addr}
    (hsend : (if dep.isSome = true then bankSend s.bank o s.cfg.deposit (dep.getD 0) else some s.bank) = some bank')
    (h1 : x ≠ o) (h2 : x ≠ s.cfg.deposit) : balOf bank'.bal x = balOf s.bank.bal x := by
  cases dep with
  | none => simp at hsend; subst hsend; rfl
  | some d => simp at hsend; exact bankSend_other hsend x h1 h2

theorem bind_invM (s : State) (svc : SvcName) (p o : Addr) (dep : Option Nat) (text : PricingText) (qos : Nat)
    (h : InvM s) (hst : InvStatic s) (hw : ¬ s.modAcct o) : InvM (bind s svc p o dep text qos).1 := by
  have hne : s.cfg.escrow ≠ o := fun e => hw (Or.inl e.symm)
  unfold bind
  split; · exact h
  split; · exact h
  split; · exact h
  dsimp only
  split; · exact h
  cases dep with
  | none => exact h
  | some d =>
    dsimp only
    split; · exact h
    cases hpp : parsePricing text with
    | bad => exact h
    | overflow => exact h
    | ok pr =>
      dsimp only
      split; · exact h
      cases hmd : minDeposit s.params pr with
      | none => exact h
      | some md =>
        dsimp only
        split; · exact h
        cases hsend : bankSend s.bank o s.cfg.deposit d with
        | none => exact h
        | some bank' =>
          dsimp only
          have hbal : balOf bank'.bal s.cfg.escrow = balOf s.bank.bal s.cfg.escrow :=
            bankSend_other hsend _ hne hst.ed
          split
          · rename_i hn
            have hnone : Map.get s.owner p = none := by
              cases hx : Map.get s.owner p with
              | none => rfl
              | some _ => rw [hx] at hn; simp at hn
            show MInv (balOf bank'.bal s.cfg.escrow) _ _ _ _ _
            rw [hbal]
            exact MInv.addOwner h hnone
          · show MInv (balOf bank'.bal s.cfg.escrow) _ _ _ _ _
            rw [hbal]; exact h

theorem update_invM (s : State) (svc : SvcName) (p o : Addr) (dep : Option Nat) (text : Option PricingText) (qos : Nat)
    (h : InvM s) (hst : InvStatic s) (hw : ¬ s.modAcct o) : InvM (update s svc p o dep text qos).1 := by
  have hne : s.cfg.escrow ≠ o := fun e => hw (Or.inl e.symm)
  unfold update
  cases hb : Map.get s.bindings (svc, p) with
  | none => exact h
  | some b =>
    dsimp only
    split; · exact h
    split; · exact h
    split; · exact h
    cases hnt : newTerms s svc p text with
    | error r => exact h
    | ok pr =>
      dsimp only
      split; · exact h
      cases hsend : (if dep.isSome = true then bankSend s.bank o s.cfg.deposit (dep.getD 0) else some s.bank) with
      | none => exact h
      | some bank' =>
        dsimp only
        have hbal := dep_send_keeps (x := s.cfg.escrow) hsend hne hst.ed
        split
        · show MInv (balOf bank'.bal s.cfg.escrow) _ _ _ _ _
          rw [hbal]; exact h
        · show MInv (balOf bank'.bal s.cfg.escrow) _ _ _ _ _
          rw [hbal]; exact h

theorem enable_invM (s : State) (svc : SvcName) (p o : Addr) (dep : Option Nat)
    (h : InvM s) (hst : InvStatic s) (hw : ¬ s.modAcct o) : InvM (enable s svc p o dep).1 := by
  have hne : s.cfg.escrow ≠ o := fun e => hw (Or.inl e.symm)
  unfold enable
  cases hb : Map.get s.bindings (svc, p) with
  | none => exact h
  | some b =>
    dsimp only
    split; · exact h
    split; · exact h
    split; · exact h
    split
    · exact h
    · split; · exact h
      cases hsend : (if dep.isSome = true then bankSend s.bank o s.cfg.deposit (dep.getD 0) else some s.bank) with
      | none => exact h
      | some bank' =>
        dsimp only
        have hbal := dep_send_keeps (x := s.cfg.escrow) hsend hne hst.ed
        show MInv (balOf bank'.bal s.cfg.escrow) _ _ _ _ _
        rw [hbal]; exact h

theorem refund_invM (s : State) (svc : SvcName) (p o : Addr)
    (h : InvM s) (hst : InvStatic s) (hB : InvB s) : InvM (refund s svc p o).1 := by
  unfold refund
  cases hb : Map.get s.bindings (svc, p) with
  | none => exact h
  | some b =>
    dsimp only
    split; · exact h
    split; · exact h
    split; · exact h
    split; · exact h
    cases hsend : bankSend s.bank s.cfg.deposit b.owner b.deposit with
    | none => exact h
    | some bank' =>
      dsimp only
      have hown := hB.ownerOk _ _ hb
      have hbal : balOf bank'.bal s.cfg.escrow = balOf s.bank.bal s.cfg.escrow :=
        bankSend_other hsend _ hst.ed (fun e => hown (Or.inl e.symm))
      show MInv (balOf bank'.bal s.cfg.escrow) _ _ _ _ _
      rw [hbal]; exact h

end SM
