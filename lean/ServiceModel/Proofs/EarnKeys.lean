import ServiceModel.Proofs.Stable
/-!
# Who can have earnings: only an account that signed an accepted response

`EK E s s'`: the configuration is unchanged and every account with an earnings record in `s'` had one in `s`
or is in `E`. Every operation satisfies `EK []` except an accepted response, which satisfies `EK [signer]`.
Since module accounts have no key (assumption E1, `WF`), no module account ever has earnings (`earnOK`).
-/
namespace SM
open Map

def EK (E : List Addr) (s s' : State) : Prop :=
  s'.cfg = s.cfg ∧ ∀ p, (get s'.earned p).isSome → (get s.earned p).isSome ∨ p ∈ E

theorem EK.refl (E : List Addr) (s : State) : EK E s s := ⟨rfl, fun _ h => Or.inl h⟩
theorem EK.of_eq {E : List Addr} {s s' : State} (h1 : s'.cfg = s.cfg) (h2 : s'.earned = s.earned) : EK E s s' :=
  ⟨h1, fun _ h => Or.inl (by rw [← h2]; exact h)⟩
theorem EK.trans {E : List Addr} {a b c : State} (h1 : EK E a b) (h2 : EK E b c) : EK E a c :=
  ⟨h2.1.trans h1.1, fun p h => by
    rcases h2.2 p h with h | h
    · exact h1.2 p h
    · exact Or.inr h⟩
theorem EK.weaken {E : List Addr} {a b : State} (h : EK [] a b) : EK E a b :=
  ⟨h.1, fun p hp => by rcases h.2 p hp with h | h; exact Or.inl h; cases h⟩

macro "ek_tac" f:ident : tactic =>
  `(tactic| (unfold $f; (try dsimp only); repeat' split
             all_goals first
               | exact EK.refl _ _
               | exact EK.of_eq rfl rfl
               | (simp only [setCtx, addNewQ, addExpQ, delNewQ, delExpQ, delCtx, fail, panicOut]; exact EK.of_eq rfl rfl)))

theorem define_ek (s : State) (n : SvcName) (a : Addr) : EK [] s (define s n a).1 := by ek_tac define
theorem disable_ek (s : State) (svc : SvcName) (p o : Addr) : EK [] s (disable s svc p o).1 := by ek_tac disable
theorem refund_ek (s : State) (svc : SvcName) (p o : Addr) : EK [] s (refund s svc p o).1 := by ek_tac refund
theorem enable_ek (s : State) (svc : SvcName) (p o : Addr) (dep : Option Nat) : EK [] s (enable s svc p o dep).1 := by ek_tac enable
theorem update_ek (s : State) (svc : SvcName) (p o : Addr) (dep : Option Nat) (text : Option PricingText) (qos : Nat) :
    EK [] s (update s svc p o dep text qos).1 := by ek_tac update
theorem bind_ek (s : State) (svc : SvcName) (p o : Addr) (dep : Option Nat) (text : PricingText) (qos : Nat) :
    EK [] s (bind s svc p o dep text qos).1 := by ek_tac bind
theorem pauseK_ek (s : State) (c : CtxId) (cons : Addr) : EK [] s (pauseK s c cons).1 := by ek_tac pauseK
theorem startK_ek (s : State) (c : CtxId) (cons : Addr) : EK [] s (startK s c cons).1 := by ek_tac startK
theorem killK_ek (s : State) (c : CtxId) (cons : Addr) : EK [] s (killK s c cons).1 := by ek_tac killK
theorem updateK_ek (s : State) (c : CtxId) (cons : Addr) (provs : List Addr) (thr : Nat) (cap : Option Nat)
    (timeout : Int) (freq : Nat) (total : Int) : EK [] s (updateK s c cons provs thr cap timeout freq total).1 := by
  ek_tac updateK
theorem createCtx_ek (s : State) (id : CtxId) (mod : ModName) (svc : SvcName) (provs : List Addr) (cons : Addr)
    (cap : Option Nat) (timeout : Int) (super rep : Bool) (freq : Nat) (total : Int) (inputOk running : Bool) (thr : Nat) :
    EK [] s (createCtx s id mod svc provs cons cap timeout super rep freq total inputOk running thr).1 := by
  ek_tac createCtx
theorem ctxMsg_ek (s : State) (c : CtxId) (cons : Addr) (k : State → Out) (hk : EK [] s (k s).1) :
    EK [] s (ctxMsg s c cons k).1 := by
  unfold ctxMsg; split
  · exact EK.refl _ s
  · exact hk

theorem slash_ek {E : List Addr} {s s1 : State} {r : ReqId} {svc : SvcName} {p : Addr} {e : List Effect}
    (h : slash s r svc p = .done s1 e) : EK E s s1 := by
  rcases slash_shape h with rfl | ⟨bank', b', rfl⟩
  · exact EK.refl _ _
  · exact EK.of_eq rfl rfl

theorem get_addTo_isSome (m : Map Addr Nat) (a : Addr) (n : Nat) (p : Addr)
    (h : (get (addTo m a n) p).isSome) : (get m p).isSome ∨ p = a := by
  unfold addTo at h
  split at h
  · exact Or.inl h
  · rw [Map.get_set] at h
    by_cases ha : a = p
    · exact Or.inr ha.symm
    · simp only [ha, if_false] at h; exact Or.inl h

theorem addEarned_ek {s s1 : State} {pv : Addr} {fee : Nat} {e : List Effect}
    (h : addEarned s pv fee = some (s1, e)) : EK [pv] s s1 := by
  unfold addEarned at h; dsimp only at h
  repeat' split at h
  all_goals first
    | (simp at h; done)
    | (simp only [Option.some.injEq, Prod.mk.injEq] at h; obtain ⟨h1, _⟩ := h; subst h1
       refine ⟨rfl, fun p hp => ?_⟩
       rcases get_addTo_isSome _ _ _ _ hp with h | h
       · exact Or.inl h
       · exact Or.inr (by simp [h]))

theorem settle_ek {s s1 : State} {r : ReqId} {svc : SvcName} {cons : Addr} {q : Req} {prov : Addr} {out : OutKind}
    {e1 : List Effect} (h : settle s r svc cons q prov out = .ok (s1, e1)) : EK [prov] s s1 := by
  unfold settle at h
  split at h
  · cases hs : slash s r svc q.prov with
    | bankErr => rw [hs] at h; simp at h
    | overflow => rw [hs] at h; simp at h
    | done s2 e2 =>
      rw [hs] at h; dsimp only at h
      cases hb : bankSend s2.bank s2.cfg.escrow cons q.fee with
      | none => rw [hb] at h; simp at h
      | some bank' =>
        rw [hb] at h
        simp only [Except.ok.injEq, Prod.mk.injEq] at h
        obtain ⟨h1, _⟩ := h; subst h1
        exact (slash_ek hs).trans (EK.of_eq rfl rfl)
  · cases ha : addEarned s prov q.fee with
    | none => rw [ha] at h; simp at h
    | some res =>
      rw [ha] at h; simp only [Except.ok.injEq] at h; subst h
      exact addEarned_ek ha

theorem respond_ek (s : State) (r : ReqId) (pv : Addr) (code : Nat) (out : OutKind) :
    EK [pv] s (respond s r pv code out).1 := by
  unfold respond
  cases hq : get s.reqs r with
  | none => exact EK.refl _ s
  | some q =>
    dsimp only
    cases hx : get s.ctxs r.ctx with
    | none => exact EK.refl _ s
    | some x =>
      dsimp only
      split; · exact EK.refl _ s
      split; · exact EK.refl _ s
      cases hs : settle s r x.svc x.cons q pv out with
      | error res => exact EK.refl _ s
      | ok res =>
        obtain ⟨s1, e1⟩ := res
        dsimp only
        have h1 := settle_ek hs
        split
        · exact h1.trans (EK.of_eq rfl rfl)
        · exact h1.trans (EK.of_eq rfl rfl)

theorem withdraw_ek (s : State) (o p : Addr) : EK [] s (withdraw s o p).1 := by
  unfold withdraw
  split; · exact EK.refl _ s
  cases hw : withdrawRecords s o p with
  | error r => exact EK.refl _ s
  | ok res =>
    obtain ⟨s1, amt⟩ := res
    dsimp only
    have h1 : EK [] s s1 := by
      unfold withdrawRecords at hw
      split at hw
      · have hdel : ∀ q, (get (del s.earned p) q).isSome → (get s.earned q).isSome := by
          intro q hq
          obtain ⟨w, hw'⟩ := Option.isSome_iff_exists.mp hq
          rw [(get_del_some hw').2]; rfl
        repeat' split at hw
        all_goals first
          | (cases hw; done)
          | (simp only [Except.ok.injEq, Prod.mk.injEq] at hw; obtain ⟨e1, _⟩ := hw; subst e1
             exact ⟨rfl, fun q hq => Or.inl (hdel q hq)⟩)
      · simp only [Except.ok.injEq, Prod.mk.injEq] at hw; obtain ⟨e1, _⟩ := hw; subst e1
        refine ⟨rfl, fun q hq => Or.inl ?_⟩
        have : get ((providersOf s o).foldl (fun m p => del m p) s.earned) q =
            if q ∈ providersOf s o then none else get s.earned q := foldl_del_get _ _ q
        have hq' : (get ((providersOf s o).foldl (fun m p => del m p) s.earned) q).isSome := hq
        rw [this] at hq'
        split at hq'
        · cases hq'
        · exact hq'
    split; · exact EK.refl _ s
    split
    · exact EK.refl _ s
    · exact h1.trans (EK.of_eq rfl rfl)

/-! ### end of block -/
theorem refundExpired_ek (s1 : State) (e1 : List Effect) (x : Ctx) (q : Req) (r : ReqId) :
    EK [] s1 (refundExpired s1 e1 x q r).s := by
  unfold refundExpired
  split <;> exact EK.of_eq rfl rfl

theorem expireReq_ek (x : Ctx) (s : State) (r : ReqId) : EK [] s (expireReq x s r).s := by
  unfold expireReq
  cases hq : get s.reqs r with
  | none => exact EK.of_eq rfl rfl
  | some q =>
    dsimp only
    split; · exact EK.of_eq rfl rfl
    cases hs : slash s r x.svc q.prov with
    | overflow => exact EK.refl _ s
    | bankErr => exact refundExpired_ek s [] x q r
    | done s1 e1 => exact (slash_ek hs).trans (refundExpired_ek s1 e1 x q r)

theorem foldH_ek {α : Type} (hd : State → α → HRes) (hk : ∀ s a, EK [] s (hd s a).s) :
    ∀ (l : List α) (s : State), EK [] s (foldH hd s l).s := by
  intro l
  induction l with
  | nil => intro s; exact EK.refl _ s
  | cons a t ih =>
    intro s
    rw [foldH_cons]
    split
    · exact hk s a
    · exact (hk s a).trans (ih _)

theorem expireBatch_ek (s : State) (c : CtxId) : EK [] s (expireBatch s c).s := by
  have hpend : ∀ x, EK [] s (expirePending s c x).1.s := by
    intro x
    unfold expirePending
    split
    · exact foldH_ek _ (expireReq_ek x) _ s
    · exact EK.refl _ s
  have htail : ∀ (s : State) (x1 : Ctx), EK [] s (expireTail s c x1).1 := by
    intro s x1
    unfold expireTail
    dsimp only
    cases x1.state with
    | completed => exact EK.of_eq rfl rfl
    | paused => exact EK.of_eq rfl rfl
    | running => dsimp only; split <;> exact EK.of_eq rfl rfl
  unfold expireBatch
  split; · exact EK.refl _ s
  cases get s.ctxs c with
  | none => exact EK.of_eq rfl rfl
  | some x =>
    dsimp only
    split
    · exact hpend x
    · exact (hpend x).trans (htail _ _)

theorem newBatch_ek (s : State) (c : CtxId) : EK [] s (newBatch s c).s := by
  have hissue : ∀ (bank' : Bank) (x : Ctx) (el : List (Addr × Nat)) (ep : List Effect),
      EK [] s (issueBatch s bank' c x el ep).1 := by
    intro bank' x el ep
    unfold issueBatch
    dsimp only [addExpQ, setCtx]
    refine EK.of_eq ?_ ?_
    · exact issueReqs_proj (·.cfg) (fun _ _ _ _ _ _ _ => rfl) _ c x el 0
    · exact issueReqs_proj (·.earned) (fun _ _ _ _ _ _ _ => rfl) _ c x el 0
  have hstart : ∀ x, EK [] s (startOrSkip s c x).1 := by
    intro x
    unfold startOrSkip
    split
    · split
      · exact hissue ..
      · cases bankSend s.bank x.cons s.cfg.escrow (sumPrices (eligible s x)) with
        | some bk => exact hissue ..
        | none => exact EK.of_eq rfl rfl
    · exact EK.of_eq rfl rfl
  unfold newBatch
  split; · exact EK.refl _ s
  cases get s.ctxs c with
  | none => exact EK.of_eq rfl rfl
  | some x =>
    dsimp only
    split; · exact EK.of_eq rfl rfl
    split; · exact EK.of_eq rfl rfl
    exact (hstart x).trans (EK.of_eq rfl rfl)

theorem endBlock_ek (s : State) (dt : Int) : EK [] s (endBlock s dt).s := by
  unfold endBlock
  dsimp only
  have h1 := foldH_ek expireBatch expireBatch_ek (queuedAt s.expQ s.height) s
  split
  · exact h1
  · have h2 := foldH_ek newBatch newBatch_ek
      (queuedAt (foldH expireBatch s (queuedAt s.expQ s.height)).s.newQ (foldH expireBatch s (queuedAt s.expQ s.height)).s.height)
      (foldH expireBatch s (queuedAt s.expQ s.height)).s
    split
    · exact h1.trans h2
    · exact h1.trans (h2.trans (EK.of_eq rfl rfl))

/-- the accounts that may gain an earnings record through `op`: the signer of a response -/
def Op.earners : Op → List Addr
  | .respond _ p _ _ => [p]
  | _ => []

theorem exec_ek (s : State) (op : Op) : EK op.earners s (exec s op).1 := by
  cases op with
  | fund a n => exact EK.of_eq rfl rfl
  | xfer a b n =>
    show EK [] s (match bankSend s.bank a b n with
      | none => fail s Err.insufficientFunds
      | some bank' => ({ s with bank := bank' }, Res.ok, [])).1
    split
    · exact EK.refl _ s
    · exact EK.of_eq rfl rfl
  | define n a ok => exact define_ek s n a
  | bind svc p o dep text qos =>
    cases text with
    | none => exact EK.refl _ s
    | some t => exact bind_ek s svc p o dep t qos
  | update svc p o dep text qos => exact update_ek s svc p o dep text qos
  | setwd o a => exact EK.of_eq rfl rfl
  | disable svc p o => exact disable_ek s svc p o
  | enable svc p o dep => exact enable_ek s svc p o dep
  | refund svc p o => exact refund_ek s svc p o
  | call id svc provs cons cap timeout super rep freq total inputOk =>
    show EK [] s (if s.cfg.modsvc = some svc then panicOut s "module-service call: outside the model"
      else createCtx s id "" svc provs cons cap timeout super rep freq total inputOk true 0).1
    split
    · exact EK.refl _ s
    · exact createCtx_ek s id "" svc provs cons cap timeout super rep freq total inputOk true 0
  | modcreate id mod svc provs cons cap timeout super rep freq total inputOk running thr =>
    exact createCtx_ek s id mod svc provs cons cap timeout super rep freq total inputOk running thr
  | respond r p code out => exact respond_ek s r p code out
  | pause c cons => exact ctxMsg_ek s c cons _ (pauseK_ek s c cons)
  | start c cons => exact ctxMsg_ek s c cons _ (startK_ek s c cons)
  | kill c cons => exact ctxMsg_ek s c cons _ (killK_ek s c cons)
  | updatectx c cons provs cap timeout freq total =>
    exact ctxMsg_ek s c cons _ (updateK_ek s c cons provs 0 cap timeout freq total)
  | modpause c cons => exact pauseK_ek s c cons
  | modstart c cons => exact startK_ek s c cons
  | modkill c cons => exact killK_ek s c cons
  | modupdate c cons provs thr cap timeout freq total => exact updateK_ek s c cons provs thr cap timeout freq total
  | withdraw o p => exact withdraw_ek s o p
  | endblock dt =>
    show EK [] s (match (endBlock s dt).panic with
        | some m => (s, Res.panic m, (endBlock s dt).effs)
        | none => ((endBlock s dt).s, Res.ok, (endBlock s dt).effs)).1
    split
    · exact EK.refl _ s
    · exact endBlock_ek s dt

theorem step_ek (s : State) (op : Op) : EK op.earners s (step s op).1 := by
  unfold step
  split
  · exact EK.refl _ s
  · have h := exec_ek s op
    cases hres : exec s op with
    | mk s' rest =>
      obtain ⟨res, effs⟩ := rest
      rw [hres] at h
      dsimp only
      split
      · exact h
      · cases res with
        | ok => exact h
        | _ => exact EK.refl _ s

/-- no module account has an earnings record -/
def EarnOK (s : State) : Prop := ∀ a, (get s.earned a).isSome → ¬ s.modAcct a

theorem earnOK {cfg : Config} {p : Params} {h0 t0 : Int} {s : State} (hr : Reachable cfg p h0 t0 s) : EarnOK s := by
  induction hr with
  | init => intro a h; simp [genesis, Map.get] at h
  | @step s op _ hw ih =>
    intro a ha
    obtain ⟨hcfg, hsub⟩ := step_ek s op
    have hm : (step s op).1.modAcct a ↔ s.modAcct a := by unfold State.modAcct; rw [hcfg]
    rw [hm]
    rcases hsub a ha with h | h
    · exact ih a h
    · -- the signer of a response is not a module account
      cases op with
      | respond r pv code out =>
        simp only [Op.earners, List.mem_singleton] at h
        subst h
        exact hw
      | _ => simp [Op.earners] at h

end SM
