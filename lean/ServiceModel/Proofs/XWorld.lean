import ServiceModel.Proofs.Shapes
/-!
# The invocation world: lemmas about `XInv` under the state-update primitives
-/
namespace SM
open Map

variable {cfg : Config} {height : Int} {ctxs : Map CtxId Ctx} {expQ newQ : FSet (Int × CtxId)}
  {expH newH : Map CtxId Int} {usedIds : List CtxId} {reqs : Map ReqId Req}
  {activeB : FSet (SvcName × Addr × Int × ReqId)} {activeI : FSet ReqId} {resps : Map ReqId Resp}

/-- two context maps with the same domain whose contexts agree on the fields other records refer to -/
structure SameIdent (ctxs ctxs' : Map CtxId Ctx) : Prop where
  dom : ∀ c, (Map.get ctxs' c).isSome = (Map.get ctxs c).isSome
  ident : ∀ c x', Map.get ctxs' c = some x' →
    ∃ x, Map.get ctxs c = some x ∧ x'.cons = x.cons ∧ x'.svc = x.svc ∧ x'.batch = x.batch ∧
      x'.bstate = x.bstate ∧ x'.reqN = x.reqN ∧ x'.respN = x.respN
  identR : ∀ c x, Map.get ctxs c = some x →
    ∃ x', Map.get ctxs' c = some x' ∧ x'.cons = x.cons ∧ x'.svc = x.svc ∧ x'.batch = x.batch ∧
      x'.bstate = x.bstate ∧ x'.reqN = x.reqN ∧ x'.respN = x.respN

/-- the fields of a context that other records and counters refer to -/
def sameCore (x' x : Ctx) : Prop :=
  x'.cons = x.cons ∧ x'.svc = x.svc ∧ x'.batch = x.batch ∧ x'.bstate = x.bstate ∧ x'.reqN = x.reqN ∧ x'.respN = x.respN

theorem sameIdent_set {c : CtxId} {x x' : Ctx} (hx : Map.get ctxs c = some x) (hc : sameCore x' x) :
    SameIdent ctxs (Map.set ctxs c x') := by
  obtain ⟨h1, h2, h3, h4, h5, h6⟩ := hc
  constructor
  · intro c2
    rw [Map.get_set]
    by_cases hc : c = c2
    · subst hc; simp [hx]
    · simp [hc]
  · intro c2 y hy
    rw [Map.get_set] at hy
    by_cases hc : c = c2
    · subst hc; simp at hy; subst hy; exact ⟨x, hx, h1, h2, h3, h4, h5, h6⟩
    · simp [hc] at hy; exact ⟨y, hy, rfl, rfl, rfl, rfl, rfl, rfl⟩
  · intro c2 y hy
    rw [Map.get_set]
    by_cases hc : c = c2
    · subst hc; rw [hx] at hy; injection hy with hy; subst hy; exact ⟨x', by simp, h1, h2, h3, h4, h5, h6⟩
    · simp [hc]; exact ⟨y, hy, rfl, rfl, rfl, rfl, rfl, rfl⟩

def ctxOK (x : Ctx) : Prop := 1 ≤ x.timeout ∧ (x.rep = true → x.timeout ≤ (x.freq : Int))

/-- replacing the context map by one with the same identities -/
theorem XInv.replaceCtxs {ctxs' : Map CtxId Ctx}
    (h : XInv cfg height ctxs expQ newQ expH newH usedIds reqs activeB activeI resps)
    (hs : SameIdent ctxs ctxs')
    (hwf : ∀ c x', Map.get ctxs' c = some x' → ctxOK x')
    (hrun : ∀ c x', Map.get ctxs' c = some x' → x'.state = .running →
        (Map.get newH c).isSome ∨ (Map.get expH c).isSome) :
    XInv cfg height ctxs' expQ newQ expH newH usedIds reqs activeB activeI resps := by
  refine { h with ctxWF := hwf, ctxCons := ?_, newFuture := ?_, expFuture := ?_, runningQ := hrun, used := ?_,
                  reqCtx := ?_, activeMirror := ?_, bRunExp := ?_, activeRunning := ?_, counts := ?_ }
  · intro c x' hx'
    obtain ⟨x, hx, hc, _, _⟩ := hs.ident c x' hx'
    rw [hc]; exact h.ctxCons c x hx
  · intro c hh hn
    have := h.newFuture c hh hn
    exact ⟨this.1, by rw [hs.dom]; exact this.2⟩
  · intro c hh hn
    have := h.expFuture c hh hn
    exact ⟨this.1, by rw [hs.dom]; exact this.2⟩
  · intro c hc
    rw [hs.dom] at hc; exact h.used c hc
  · intro r q hq
    obtain ⟨x, hx, hb, he⟩ := h.reqCtx r q hq
    obtain ⟨x', hx', _, _, hb', _⟩ := hs.identR _ x hx
    exact ⟨x', hx', by rw [hb']; exact hb, he⟩
  · intro svc p e r
    rw [h.activeMirror]
    constructor
    · rintro ⟨hr, q, x, hq, hx, h1, h2, h3⟩
      obtain ⟨x', hx', _, hs', _⟩ := hs.identR _ x hx
      exact ⟨hr, q, x', hq, hx', by rw [hs']; exact h1, h2, h3⟩
    · rintro ⟨hr, q, x', hq, hx', h1, h2, h3⟩
      obtain ⟨x, hx, _, hs', _⟩ := hs.ident _ x' hx'
      exact ⟨hr, q, x, hq, hx, by rw [← hs']; exact h1, h2, h3⟩
  · intro c x' hx' hb
    obtain ⟨x, hx, _, _, _, hbs, _, _⟩ := hs.ident c x' hx'
    exact h.bRunExp c x hx (by rw [← hbs]; exact hb)
  · intro r hr
    obtain ⟨x, hx, hb⟩ := h.activeRunning r hr
    obtain ⟨x', hx', _, _, _, hbs, _, _⟩ := hs.identR _ x hx
    exact ⟨x', hx', by rw [hbs]; exact hb⟩
  · intro c x' hx' hb
    obtain ⟨x, hx, _, _, _, hbs, hrq, hrs⟩ := hs.ident c x' hx'
    rw [hrq, hrs]
    exact h.counts c x hx (by rw [← hbs]; exact hb)

/-- updating one context in place (same consumer, service and batch counter) -/
theorem XInv.setCtx {c : CtxId} {x x' : Ctx}
    (h : XInv cfg height ctxs expQ newQ expH newH usedIds reqs activeB activeI resps)
    (hx : Map.get ctxs c = some x) (hcore : sameCore x' x)
    (hwf : ctxOK x')
    (hrun : x'.state = .running → (Map.get newH c).isSome ∨ (Map.get expH c).isSome) :
    XInv cfg height (Map.set ctxs c x') expQ newQ expH newH usedIds reqs activeB activeI resps := by
  refine h.replaceCtxs (sameIdent_set hx hcore) ?_ ?_
  · intro c2 y hy
    rw [Map.get_set] at hy
    by_cases hc : c = c2
    · subst hc; simp at hy; subst hy; exact hwf
    · simp [hc] at hy; exact h.ctxWF c2 y hy
  · intro c2 y hy hr
    rw [Map.get_set] at hy
    by_cases hc : c = c2
    · subst hc; simp at hy; subst hy; exact hrun hr
    · simp [hc] at hy; exact h.runningQ c2 y hy hr

/-- queue a new batch for a context that has no scheduled event -/
theorem XInv.addNew {c : CtxId} {hh : Int}
    (h : XInv cfg height ctxs expQ newQ expH newH usedIds reqs activeB activeI resps)
    (hfut : height ≤ hh) (hctx : (Map.get ctxs c).isSome)
    (hn : Map.get newH c = none) (he : Map.get expH c = none) :
    XInv cfg height ctxs expQ (FSet.ins newQ (hh, c)) expH (Map.set newH c hh) usedIds reqs activeB activeI resps := by
  refine { h with newMirror := ?_, single := ?_, newFuture := ?_, runningQ := ?_ }
  · intro h2 c2
    simp only [FSet.mem_ins, Prod.mk.injEq, Map.get_set]
    by_cases hc : c = c2
    · subst hc
      simp only [and_true, if_true, Option.some.injEq]
      constructor
      · rintro (h3 | h3)
        · exact h3.symm
        · have := (h.newMirror h2 c).mp h3; rw [hn] at this; simp at this
      · intro h3; left; exact h3.symm
    · have : ¬ c2 = c := fun e => hc e.symm
      simp only [this, and_false, false_or, hc, if_false]
      exact h.newMirror h2 c2
  · intro c2
    rw [Map.get_set]
    by_cases hc : c = c2
    · subst hc; right; exact he
    · simp only [hc, if_false]; exact h.single c2
  · intro c2 h2 hh2
    rw [Map.get_set] at hh2
    by_cases hc : c = c2
    · subst hc; simp at hh2; subst hh2; exact ⟨hfut, hctx⟩
    · simp [hc] at hh2; exact h.newFuture c2 h2 hh2
  · intro c2 x hx hr
    rw [Map.get_set]
    by_cases hc : c = c2
    · subst hc; left; simp
    · simp only [hc, if_false]; exact h.runningQ c2 x hx hr

/-- a running context that is (re)queued: update the record and add the new-batch entry together -/
theorem XInv.setCtxAddNew {c : CtxId} {x x' : Ctx} {hh : Int}
    (h : XInv cfg height ctxs expQ newQ expH newH usedIds reqs activeB activeI resps)
    (hx : Map.get ctxs c = some x) (hcore : sameCore x' x) (hwf : ctxOK x')
    (hfut : height ≤ hh) (hn : Map.get newH c = none) (he : Map.get expH c = none) :
    XInv cfg height (Map.set ctxs c x') expQ (FSet.ins newQ (hh, c)) expH (Map.set newH c hh) usedIds reqs activeB activeI resps := by
  -- first park the context as paused-like (no running obligation), then queue, then restore: done directly instead
  have hdom : ∀ c2, (Map.get (Map.set ctxs c x') c2).isSome = (Map.get ctxs c2).isSome :=
    (sameIdent_set hx hcore).dom
  have base : XInv cfg height ctxs expQ (FSet.ins newQ (hh, c)) expH (Map.set newH c hh) usedIds reqs activeB activeI resps :=
    h.addNew hfut (by rw [hx]; rfl) hn he
  refine base.setCtx hx hcore hwf ?_
  intro _; left; simp

/-- a fresh context (id never used), optionally queued for its first batch -/
theorem XInv.newCtx {c : CtxId} {x : Ctx}
    (h : XInv cfg height ctxs expQ newQ expH newH usedIds reqs activeB activeI resps)
    (hfresh : c ∉ usedIds) (hwf : ctxOK x) (hcons : ¬ isModAcct cfg x.cons) (hnr : x.state ≠ .running)
    (hbs : x.bstate = .completed) :
    XInv cfg height (Map.set ctxs c x) expQ newQ expH newH (c :: usedIds) reqs activeB activeI resps := by
  have hnone : Map.get ctxs c = none := by
    cases hx : Map.get ctxs c with
    | none => rfl
    | some y => exact absurd (h.used c (by rw [hx]; rfl)) hfresh
  have hget : ∀ c2 y, Map.get (Map.set ctxs c x) c2 = some y → (c2 = c ∧ y = x) ∨ (c2 ≠ c ∧ Map.get ctxs c2 = some y) := by
    intro c2 y hy
    rw [Map.get_set] at hy
    by_cases hc : c = c2
    · subst hc; simp at hy; left; exact ⟨rfl, hy.symm⟩
    · simp [hc] at hy; right; exact ⟨fun e => hc e.symm, hy⟩
  have hold : ∀ c2 y, Map.get ctxs c2 = some y → Map.get (Map.set ctxs c x) c2 = some y := by
    intro c2 y hy
    have : c ≠ c2 := by intro e; subst e; rw [hnone] at hy; simp at hy
    rw [Map.get_set_other _ _ _ _ this]; exact hy
  refine { h with ctxWF := ?_, ctxCons := ?_, newFuture := ?_, expFuture := ?_, runningQ := ?_, used := ?_,
                  reqCtx := ?_, activeMirror := ?_, bRunExp := ?_, activeRunning := ?_, counts := ?_ }
  · intro c2 y hy
    rcases hget c2 y hy with ⟨_, rfl⟩ | ⟨_, hy'⟩
    · exact hwf
    · exact h.ctxWF c2 y hy'
  · intro c2 y hy
    rcases hget c2 y hy with ⟨_, rfl⟩ | ⟨_, hy'⟩
    · exact hcons
    · exact h.ctxCons c2 y hy'
  · intro c2 h2 hh2
    have := h.newFuture c2 h2 hh2
    refine ⟨this.1, ?_⟩
    cases hy : Map.get ctxs c2 with
    | none => rw [hy] at this; simp at this
    | some y => rw [hold c2 y hy]; rfl
  · intro c2 h2 hh2
    have := h.expFuture c2 h2 hh2
    refine ⟨this.1, ?_⟩
    cases hy : Map.get ctxs c2 with
    | none => rw [hy] at this; simp at this
    | some y => rw [hold c2 y hy]; rfl
  · intro c2 y hy hr
    rcases hget c2 y hy with ⟨_, rfl⟩ | ⟨_, hy'⟩
    · exact absurd hr hnr
    · exact h.runningQ c2 y hy' hr
  · intro c2 hc2
    by_cases hc : c2 = c
    · subst hc; simp
    · rw [Map.get_set_other _ _ _ _ (fun e => hc e.symm)] at hc2
      exact List.mem_cons_of_mem _ (h.used c2 hc2)
  · intro r q hq
    obtain ⟨y, hy, hb⟩ := h.reqCtx r q hq
    exact ⟨y, hold _ y hy, hb⟩
  · intro svc p e r
    rw [h.activeMirror]
    constructor
    · rintro ⟨hr, q, y, hq, hy, hrest⟩
      exact ⟨hr, q, y, hq, hold _ y hy, hrest⟩
    · rintro ⟨hr, q, y, hq, hy, hrest⟩
      rcases hget _ y hy with ⟨hrc, rfl⟩ | ⟨_, hy'⟩
      · -- a request of the fresh id cannot exist
        obtain ⟨z, hz, _⟩ := h.reqCtx r q hq
        rw [hrc, hnone] at hz; simp at hz
      · exact ⟨hr, q, y, hq, hy', hrest⟩
  · intro c2 y hy hb
    rcases hget c2 y hy with ⟨_, rfl⟩ | ⟨_, hy'⟩
    · rw [hbs] at hb; cases hb
    · exact h.bRunExp c2 y hy' hb
  · intro r hr
    obtain ⟨y, hy, hb⟩ := h.activeRunning r hr
    exact ⟨y, hold _ y hy, hb⟩
  · intro c2 y hy hb
    rcases hget c2 y hy with ⟨_, rfl⟩ | ⟨_, hy'⟩
    · rw [hbs] at hb; cases hb
    · exact h.counts c2 y hy' hb


end SM
