import ServiceModel.Proofs.Debit
import ServiceModel.Proofs.CtxEvol
import ServiceModel.Basic.Scan
/-!
# C05: whose balance a whole end of block can lower

Only the two custody accounts and the consumers of the contexts that exist when the block ends (the payers of the
batches issued in it) can hold less after `endBlock` than before.
-/
namespace SM
open Map

/-- the consumers of the stored contexts -/
def consumersOf (s : State) : List Addr := (Map.entries s.ctxs).map (fun p => p.2.cons)

theorem mem_consumersOf {s : State} {c : CtxId} {x : Ctx} (h : get s.ctxs c = some x) : x.cons ∈ consumersOf s :=
  List.mem_map.mpr ⟨(c, x), (Map.mem_entries _ _ _).mpr h, rfl⟩

theorem mem_consumersOf_iff (s : State) (a : Addr) : a ∈ consumersOf s ↔ ∃ c x, get s.ctxs c = some x ∧ x.cons = a := by
  constructor
  · intro h
    obtain ⟨⟨c, x⟩, hm, he⟩ := List.mem_map.mp h
    exact ⟨c, x, (Map.mem_entries _ _ _).mp hm, he⟩
  · rintro ⟨c, x, hg, he⟩
    exact he ▸ mem_consumersOf hg

theorem BalMono.weaken {D D' : List Addr} {s s' : State} (h : BalMono D s s') (hsub : ∀ a, a ∈ D → a ∈ D') :
    BalMono D' s s' := ⟨h.1, fun a ha hd => h.2 a ha (fun hin => hd (hsub a hin))⟩

/-- `BalMono` with the reference state for the custody test and the balances shifted along a chain -/
theorem balMono_chain {D : List Addr} {s a b : State} (h1 : BalMono D s a) (h2 : BalMono D a b) : BalMono D s b :=
  h1.trans h2

/-- the new-batch phase, started in a state whose contexts all stem from contexts of `s0` -/
theorem newPhase_balMono (s0 : State) : ∀ (l : List CtxId) (s : State), Inv s → CtxsEvol s0 s →
    BalMono (consumersOf s0) s (foldH newBatch s l).s := by
  intro l
  induction l with
  | nil => intro s _ _; exact BalMono.refl _ s
  | cons c rest ih =>
    intro s h he
    have hnp := newBatch_nopanic s c
    rw [foldH_cons]
    simp only [hnp]
    have hstep : BalMono (consumersOf s0) s (newBatch s c).s := by
      cases hx : get s.ctxs c with
      | none =>
        have : (newBatch s c).s.cfg = s.cfg ∧ (newBatch s c).s.bank = s.bank := by
          unfold newBatch
          split
          · exact ⟨rfl, rfl⟩
          · rw [hx]; exact ⟨rfl, rfl⟩
        exact BalMono.of_eq this.1 this.2
      | some x =>
        obtain ⟨x0, hx0, hev⟩ := he c x hx
        refine (newBatch_balMono s c x hx).weaken (fun a ha => ?_)
        simp only [List.mem_singleton] at ha
        rw [ha, hev.cons]
        exact mem_consumersOf hx0
    exact hstep.trans (ih _ (newBatch_inv s c h) (he.trans (newBatch_evol s c h)))

/-- C05: over a whole end of block, only the custody accounts and the consumers of existing contexts can lose coins -/
theorem endBlock_balMono (s : State) (dt : Int) (h : Inv s) : BalMono (consumersOf s) s (endBlock s dt).s := by
  have hp1 := foldH_nopanic_of expireBatch Inv
    (fun s a hs => ⟨expireBatch_nopanic hs a, expireBatch_inv s a hs (expireBatch_nopanic hs a)⟩) (queuedAt s.expQ s.height) s h
  have e1 := foldH_evol expireBatch Inv (fun s a hs hp => expireBatch_inv s a hs hp)
    (fun s a hs hp => expireBatch_evol s a hs hp) _ s h hp1.1
  have b1 : BalMono (consumersOf s) s (foldH expireBatch s (queuedAt s.expQ s.height)).s :=
    (expirePhase_balMono s _).weaken (fun a ha => by cases ha)
  have b2 := newPhase_balMono s
    (queuedAt (foldH expireBatch s (queuedAt s.expQ s.height)).s.newQ (foldH expireBatch s (queuedAt s.expQ s.height)).s.height)
    _ hp1.2 e1
  have hp2 := foldH_nopanic_of newBatch Inv (fun s a hs => ⟨newBatch_nopanic s a, newBatch_inv s a hs⟩)
    (queuedAt (foldH expireBatch s (queuedAt s.expQ s.height)).s.newQ (foldH expireBatch s (queuedAt s.expQ s.height)).s.height)
    _ hp1.2
  unfold endBlock
  simp only [hp1.1, hp2.1]
  exact (b1.trans b2).trans (BalMono.of_eq rfl rfl)

end SM
