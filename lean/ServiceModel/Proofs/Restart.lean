import ServiceModel.Model.Restart
import ServiceModel.Proofs.Genesis
import ServiceModel.Proofs.EarnKeys
import ServiceModel.Proofs.Valid
import ServiceModel.Proofs.CtxOrigin
import ServiceModel.Proofs.BindKeys
/-!
# The restarted chain satisfies the invariants (lemmas for `Properties/C19.lean`)
-/
namespace SM
open Map

/-! ### the preparation moves coins only out of the escrow and only to consumers and earners -/
theorem foldFee_other (a : Addr) : ∀ (L : List (SvcName × Addr × Int × ReqId)) (s : State),
    a ≠ s.cfg.escrow →
    (∀ e ∈ L, ∀ v, reqView s e.2.2.2 = some v → v.cons ≠ a) →
    ∃ b, (foldH refundFee s L).s = { s with bank := b } ∧ balOf b.bal a = balOf s.bank.bal a := by
  intro L
  induction L with
  | nil => intro s _ _; exact ⟨s.bank, rfl, rfl⟩
  | cons e t ih =>
    intro s ha hcons
    have hcons' : ∀ e' ∈ t, ∀ v, reqView s e'.2.2.2 = some v → v.cons ≠ a :=
      fun e' he' => hcons e' (List.mem_cons_of_mem _ he')
    rw [foldH_cons]
    cases hv : reqView s e.2.2.2 with
    | none =>
      have hstep : refundFee s e = ⟨s, [], none⟩ := by unfold refundFee; rw [hv]
      rw [hstep]; dsimp only
      exact ih s ha hcons'
    | some v =>
      cases hb : bankSend s.bank s.cfg.escrow v.cons v.fee with
      | none =>
        have hstep : refundFee s e = ⟨s, [], some "failed to refund the service fees"⟩ := by
          unfold refundFee; rw [hv]; dsimp only; rw [hb]
        rw [hstep]; dsimp only
        exact ⟨s.bank, rfl, rfl⟩
      | some b1 =>
        have hstep : refundFee s e =
            ⟨{ s with bank := b1 }, if v.fee = 0 then [] else [.transfer s.cfg.escrow v.cons v.fee], none⟩ := by
          unfold refundFee; rw [hv]; dsimp only; rw [hb]
        rw [hstep]; dsimp only
        obtain ⟨b, hs, hbal⟩ := ih { s with bank := b1 } ha hcons'
        refine ⟨b, hs, ?_⟩
        rw [hbal]
        exact bankSend_other hb a ha (fun e1 => hcons e (List.mem_cons_self ..) v hv e1.symm)

theorem foldEarned_other (a : Addr) : ∀ (L : List (Addr × Nat)) (s : State),
    a ≠ s.cfg.escrow → (∀ e ∈ L, e.1 ≠ a) →
    ∃ b, (foldH refundEarned s L).s = { s with bank := b } ∧ balOf b.bal a = balOf s.bank.bal a := by
  intro L
  induction L with
  | nil => intro s _ _; exact ⟨s.bank, rfl, rfl⟩
  | cons e t ih =>
    intro s ha hne
    have hne' : ∀ e' ∈ t, e'.1 ≠ a := fun e' he' => hne e' (List.mem_cons_of_mem _ he')
    rw [foldH_cons]
    cases hb : bankSend s.bank s.cfg.escrow e.1 e.2 with
    | none =>
      have hstep : refundEarned s e = ⟨s, [], some "failed to refund the earned fees"⟩ := by
        unfold refundEarned; rw [hb]
      rw [hstep]; dsimp only
      exact ⟨s.bank, rfl, rfl⟩
    | some b1 =>
      have hstep : refundEarned s e =
          ⟨{ s with bank := b1 }, if e.2 = 0 then [] else [.transfer s.cfg.escrow e.1 e.2], none⟩ := by
        unfold refundEarned; rw [hb]
      rw [hstep]; dsimp only
      obtain ⟨b, hs, hbal⟩ := ih { s with bank := b1 } ha hne'
      refine ⟨b, hs, ?_⟩
      rw [hbal]
      exact bankSend_other hb a ha (fun e1 => hne e (List.mem_cons_self ..) e1.symm)

/-- an account that is neither the escrow, nor the consumer of a request, nor an earner keeps its balance
    through the zero-height preparation -/
theorem prep_bal_other {s : State} (a : Addr) (ha : a ≠ s.cfg.escrow)
    (hcons : ∀ r v, reqView s r = some v → v.cons ≠ a) (hearn : ∀ p, (get s.earned p).isSome → p ≠ a) :
    balOf (prep s).s.bank.bal a = balOf s.bank.bal a := by
  obtain ⟨b1, hs1, hb1⟩ := foldFee_other a (FSet.elems s.activeB) s ha (fun e _ v hv => hcons _ v hv)
  have hne : ∀ e ∈ entries s.earned, e.1 ≠ a := by
    rintro ⟨pv, n⟩ he
    exact hearn pv (by rw [(mem_entries _ _ _).mp he]; rfl)
  obtain ⟨b2, hs2, hb2⟩ := foldEarned_other a (entries s.earned) { s with bank := b1 } ha hne
  unfold prep
  dsimp only
  split
  · rfl
  · rw [hs1]
    split
    · rfl
    · show balOf (foldH refundEarned { s with bank := b1 } (entries s.earned)).s.bank.bal a = _
      rw [hs2]
      show balOf b2.bal a = _
      rw [hb2]; exact hb1

/-! ### what `importBindings` leaves alone, beyond `BindFrame` -/
theorem importBindings_frame2 : ∀ (L : List ((SvcName × Addr) × Binding)) (s1 s2 : State),
    importBindings s1 L = some s2 →
    s2.expQ = s1.expQ ∧ s2.newQ = s1.newQ ∧ s2.expH = s1.expH ∧ s2.newH = s1.newH ∧ s2.volume = s1.volume ∧
    s2.ownerEarned = s1.ownerEarned ∧ s2.usedIds = s1.usedIds := by
  intro L
  induction L with
  | nil => intro s1 s2 h; simp only [importBindings, Option.some.injEq] at h; subst h; exact ⟨rfl, rfl, rfl, rfl, rfl, rfl, rfl⟩
  | cons e t ih =>
    intro s1 s2 h
    unfold importBindings at h
    cases hib : importBinding s1 e with
    | none => rw [hib] at h; cases h
    | some s1' =>
      rw [hib] at h; dsimp only at h
      obtain ⟨a1, a2, a3, a4, a5, a6, a7⟩ := ih s1' s2 h
      unfold importBinding at hib
      split at hib
      · injection hib with hib; subst hib
        exact ⟨a1, a2, a3, a4, a5, a6, a7⟩
      · cases hib

theorem importBindings_some' (L : List ((SvcName × Addr) × Binding)) :
    ∀ s1, (∀ e ∈ L, ∃ pr, parsePricing e.2.text = .ok pr) → ∃ s2, importBindings s1 L = some s2 := by
  induction L with
  | nil => intro s1 _; exact ⟨s1, rfl⟩
  | cons e t ih =>
    intro s1 h
    obtain ⟨pr, hpr⟩ := h e (List.mem_cons_self ..)
    unfold importBindings importBinding
    simp only [hpr]
    exact ih _ (fun e' he' => h e' (List.mem_cons_of_mem _ he'))

/-! ### a scan of a scan -/
theorem entries_idem {κ ν} [DecidableEq κ] (m : Map κ ν) : entries (entries m) = entries m :=
  entries_of_nodupKeys _ (nodupKeys_entries m)

theorem get_entries {κ ν} [DecidableEq κ] (m : Map κ ν) (k : κ) : get (entries m) k = get m k := by
  apply Option.ext
  intro v
  rw [← mem_entries (entries m), entries_idem, mem_entries]

theorem reqView_cons_not_mod {s : State} (h : Inv s) (r : ReqId) (v : ReqView) (hv : reqView s r = some v) :
    ¬ isModAcct s.cfg v.cons := by
  unfold reqView at hv
  cases hq : get s.reqs r with
  | none => rw [hq] at hv; cases hv
  | some q =>
    rw [hq] at hv; dsimp only at hv
    cases hx : get s.ctxs r.ctx with
    | none => rw [hx] at hv; cases hv
    | some x =>
      rw [hx] at hv; injection hv with hv; subst hv
      exact h.x.ctxCons r.ctx x hx

/-- the genesis exported after the preparation is valid (the statement of `C19.validate_after_prep`, proved here
    from the invariants themselves, for any state that satisfies them) -/
theorem validate_after_prep_of {s : State} (hinv : Inv s) (hearn : EarnOK s) (hrec : RecOK s)
    (hctx : ∀ c x, get s.ctxs c = some x → ctxFieldsOK x = true) : validateG (exportG (prep s).s) = true := by
  have hesc : ∀ pv, (get s.earned pv).isSome → pv ≠ s.cfg.escrow := fun pv h e => hearn pv h (Or.inl e)
  obtain ⟨hnp, b', hs, _⟩ := prep_spec hinv hesc
  have e1 : (prep s).s.params = s.params := by rw [hs]; rfl
  have e2 : (prep s).s.defs = s.defs := by rw [hs]; rfl
  have e3 : (prep s).s.bindings = s.bindings := by rw [hs]; rfl
  have e4 : (prep s).s.withdraw = s.withdraw := by rw [hs]; rfl
  unfold validateG exportG
  simp only [Bool.and_eq_true, e1, e2, e3, e4]
  refine ⟨⟨⟨⟨?_, ?_⟩, ?_⟩, ?_⟩, ?_⟩
  · unfold paramsValid
    simp only [Bool.and_eq_true, decide_eq_true_eq]
    have hs := hinv.static
    exact ⟨⟨⟨⟨⟨by have := hs.maxT_pos; omega, by have := hs.mult_pos; omega⟩, hs.tax_lt⟩, hs.slash_le⟩,
      hs.complaint_pos⟩, hs.arbitration_pos⟩
  · rw [List.all_eq_true]
    rintro ⟨n, d⟩ hm
    exact hrec.defs n d ((mem_entries _ _ _).mp hm)
  · rw [List.all_eq_true]
    rintro ⟨k, b⟩ hm
    exact hrec.binds k b ((mem_entries _ _ _).mp hm)
  · rw [List.all_eq_true]
    rintro ⟨o, a⟩ hm
    exact hrec.wd o a ((mem_entries _ _ _).mp hm)
  · rw [List.all_eq_true]
    rintro ⟨c, x⟩ hm
    obtain ⟨_, _, _, _, x0, hx0, rfl⟩ := prep_ctxs s hnp c x ((mem_entries _ _ _).mp hm)
    have := hctx c x0 hx0
    unfold ctxValid
    simp only [Bool.and_eq_true, decide_eq_true_eq]
    exact ⟨⟨this, rfl⟩, rfl⟩

/-- everything the restart needs of a state, and gives back: the invariants `Inv` together with the four side
    invariants that have their own inductions (no module account earns, every stored record is valid on its own,
    every stored context is valid on its own, one binding record per key) -/
structure InvAll (s : State) : Prop where
  inv : Inv s
  earn : EarnOK s
  recs : RecOK s
  ctxf : ∀ c x, get s.ctxs c = some x → ctxFieldsOK x = true
  nodup : NodupKeys s.bindings

/-- **The restarted chain starts in a state that satisfies every invariant.** For every state `s` satisfying the
    invariants the zero-height preparation, the export and the import into a fresh chain all succeed, and the resulting
    state — the service store rebuilt from the genesis alone, the balances as the preparation left them —
    satisfies them again: deposits and escrow exactly backed, indexes consistent, queues well-formed, no orphans. -/
theorem restart_invAll {s : State} (hall : InvAll s) (height time : Int) :
    ∃ s', restart s height time = some s' ∧ InvAll s' ∧ s'.cfg = s.cfg ∧ s'.params = s.params ∧
      s'.height = height ∧ s'.time = time ∧ exportG s' = exportG (prep s).s := by
  have hinv := hall.inv
  have hB := hinv.b
  have hearn := hall.earn
  have hesc : ∀ pv, (get s.earned pv).isSome → pv ≠ s.cfg.escrow := fun pv h e => hearn pv h (Or.inl e)
  obtain ⟨hnp, b', hP, hb0, _, _⟩ := prep_spec hinv hesc
  have hv := validate_after_prep_of hinv hearn hall.recs hall.ctxf
  have hnd := hall.nodup
  -- what the preparation left of the exported components
  have e1 : (prep s).s.params = s.params := by rw [hP]; rfl
  have e2 : (prep s).s.defs = s.defs := by rw [hP]; rfl
  have e3 : (prep s).s.bindings = s.bindings := by rw [hP]; rfl
  have e5 : (prep s).s.cfg = s.cfg := by rw [hP]; rfl
  have hdep : balOf (prep s).s.bank.bal s.cfg.deposit = balOf s.bank.bal s.cfg.deposit :=
    prep_bal_other s.cfg.deposit (fun e => hinv.static.ed e.symm)
      (fun r v hv e => reqView_cons_not_mod hinv r v hv (Or.inr (Or.inl e)))
      (fun pv h e => hearn pv h (Or.inr (Or.inl e)))
  have hescb : balOf (prep s).s.bank.bal s.cfg.escrow = 0 := by rw [hP]; exact hb0
  -- the import
  let L := entries (prep s).s.bindings
  have hLeq : L = s.bindings := by show entries (prep s).s.bindings = _; rw [e3]; exact entries_of_nodupKeys _ hnd
  have hLn : NodupKeys L := nodupKeys_entries _
  have hLget : ∀ k b, (k, b) ∈ L ↔ get s.bindings k = some b := by
    intro k b; show (k, b) ∈ entries (prep s).s.bindings ↔ _; rw [e3]; exact mem_entries _ _ _
  have hparse : ∀ e ∈ L, ∃ pr, parsePricing e.2.text = .ok pr := by
    rintro ⟨k, b⟩ he
    obtain ⟨pr, _, hpr, _⟩ := hB.priced k b ((hLget k b).mp he)
    exact ⟨pr, hpr⟩
  let s1 : State := { genesis s.cfg (prep s).s.params height time with
                      defs := (entries (prep s).s.defs).foldl (fun m e => set m e.1 e.2) [] }
  obtain ⟨s2, hs2⟩ := importBindings_some' L s1 hparse
  obtain ⟨hf, hb, hob, hop, hpr, how1, how2⟩ := importBindings_spec L s1 s2 hLn hs2
  obtain ⟨g1, g2, g3, g4, g5, g6, g7⟩ := importBindings_frame2 L s1 s2 hs2
  obtain ⟨f1, f2, f3, f4, f5, f6, f7, f8, f9, f10, f11, f12, f13⟩ := hf
  have hbind : s2.bindings = s.bindings := by rw [hb, ← hLeq]; exact foldl_set_nil L hLn
  have hshare : ∀ k b k' b', (k, b) ∈ L → (k', b') ∈ L → k'.2 = k.2 → b'.owner = b.owner := by
    rintro ⟨sv, pv⟩ b ⟨sv', pv'⟩ b' hm hm' he
    dsimp only at he; subst he
    have h1 := hB.ownerOf sv pv' b ((hLget _ _).mp hm)
    have h2 := hB.ownerOf sv' pv' b' ((hLget _ _).mp hm')
    rw [h1] at h2; injection h2 with h2; exact h2.symm
  let s' : State := { s2 with
    withdraw := (entries (prep s).s.withdraw).foldl (fun m e => set m e.1 e.2) []
    ctxs := (entries (prep s).s.ctxs).foldl (fun m e => set m e.1 e.2) []
    usedIds := (entries (prep s).s.ctxs).map (·.1) }
  have himp : importG s.cfg (exportG (prep s).s) height time = some s' := by
    unfold importG
    rw [hv]
    simp only [Bool.not_true, Bool.false_eq_true, if_false, exportG]
    show (match importBindings s1 L with | none => none | some s2 => some _) = some s'
    rw [hs2]
  let S : State := { s' with bank := (prep s).s.bank, usedIds := s.usedIds }
  have hrestart : restart s height time = some S := by
    unfold restart
    rw [hnp]; dsimp only
    rw [himp]
  have hctxs : S.ctxs = entries (prep s).s.ctxs := foldl_set_nil _ (nodupKeys_entries _)
  have hctxget : ∀ c x, get S.ctxs c = some x → ∃ x0, get s.ctxs c = some x0 ∧ x = resetCtx x0 := by
    intro c x hx
    rw [hctxs, get_entries] at hx
    obtain ⟨_, _, _, _, x0, hx0, hxe⟩ := prep_ctxs s hnp c x hx
    exact ⟨x0, hx0, hxe⟩
  have hdefs : S.defs = entries s.defs := by
    show s2.defs = _
    rw [f5]; show (entries (prep s).s.defs).foldl (fun m e => set m e.1 e.2) [] = _
    rw [e2]; exact foldl_set_nil _ (nodupKeys_entries _)
  have hcfg : S.cfg = s.cfg := f1
  have hpar : S.params = s.params := by show s2.params = _; rw [f2]; exact e1
  have hexp : exportG S = exportG (prep s).s := by
      show ({ params := s2.params, defs := entries s2.defs, bindings := entries s2.bindings,
              withdraw := entries ((entries (prep s).s.withdraw).foldl (fun m e => set m e.1 e.2) []),
              ctxs := entries ((entries (prep s).s.ctxs).foldl (fun m e => set m e.1 e.2) []) } : GenesisState)
          = exportG (prep s).s
      rw [f2, f5, hbind, foldl_set_nil _ (nodupKeys_entries _), foldl_set_nil _ (nodupKeys_entries _)]
      show ({ params := (prep s).s.params,
              defs := entries ((entries (prep s).s.defs).foldl (fun m e => set m e.1 e.2) []),
              bindings := entries s.bindings, withdraw := entries (entries (prep s).s.withdraw),
              ctxs := entries (entries (prep s).s.ctxs) } : GenesisState) = exportG (prep s).s
      rw [foldl_set_nil _ (nodupKeys_entries _), entries_idem, entries_idem, entries_idem, ← e3]
      rfl
  have hwd : S.withdraw = entries s.withdraw := by
    show (entries (prep s).s.withdraw).foldl (fun m e => set m e.1 e.2) [] = _
    have e4 : (prep s).s.withdraw = s.withdraw := by rw [hP]; rfl
    rw [e4]; exact foldl_set_nil _ (nodupKeys_entries _)
  refine ⟨S, hrestart, ⟨?_, ?_, ?_, ?_, ?_⟩, hcfg, hpar, f3, f4, ?_⟩
  rotate_left
  · -- nobody has earnings on the new chain
    intro a ha
    have : get ([] : Map Addr Nat) a = get S.earned a := by show _ = get s2.earned a; rw [f12]; rfl
    rw [← this] at ha; cases ha
  · -- the records are the exported ones
    refine ⟨?_, ?_, ?_⟩
    · intro n d hg; rw [hdefs, get_entries] at hg; exact hall.recs.defs n d hg
    · intro k b hg
      have : get s.bindings k = some b := by rw [← hbind]; exact hg
      exact hall.recs.binds k b this
    · intro o a hg; rw [hwd, get_entries] at hg; exact hall.recs.wd o a hg
  · intro c x hx
    obtain ⟨x0, hx0, rfl⟩ := hctxget c x hx
    exact hall.ctxf c x0 hx0
  · show NodupKeys s2.bindings
    rw [hbind]; exact hnd
  · exact hexp
  · refine { static := ?_, b := ?_, x := ?_, m := ?_, bound := ?_ }
    · show Static S.cfg S.params
      rw [hcfg, hpar]; exact hinv.static
    · -- the bindings world
      show BInv S.cfg S.params (balOf (prep s).s.bank.bal S.cfg.deposit) S.defs s2.bindings s2.ownerBind s2.owner
        s2.ownerProv s2.pricing
      rw [hcfg, hpar, hbind, hdep]
      refine { backed := hB.backed, ownerOk := hB.ownerOk, ownerOf := ?_, provIdx := ?_, bindIdx := ?_, priced := ?_,
               pricingOnly := ?_, defined := ?_, ownerHas := ?_, minDep := ?_ }
      · intro svc pv b hg
        have hm := (hLget _ _).mpr hg
        exact how2 (svc, pv) b hm (fun k' b' hm' he => hshare (svc, pv) b k' b' hm hm' he)
      · intro o pv
        rw [hop]
        constructor
        · rintro (h1 | ⟨k, b, hm, hx⟩)
          · cases h1
          · injection hx with e1 e2
            have := how2 k b hm (fun k' b' hm' he => hshare k b k' b' hm hm' he)
            rw [e2, e1]; exact this
        · intro hg
          by_cases hex : ∃ k b, (k, b) ∈ L ∧ k.2 = pv
          · obtain ⟨k, b, hm, hk⟩ := hex
            have := how2 k b hm (fun k' b' hm' he => hshare k b k' b' hm hm' he)
            rw [hk, hg] at this; injection this with this
            exact Or.inr ⟨k, b, hm, by rw [this, hk]⟩
          · have := how1 pv (fun k b hm e => hex ⟨k, b, hm, e⟩)
            rw [hg] at this
            cases this
      · intro o svc pv
        rw [hob]
        constructor
        · rintro (h1 | ⟨k, b, hm, hx⟩)
          · cases h1
          · injection hx with e1 hx; injection hx with e2 e3
            obtain ⟨ksv, kpv⟩ := k
            dsimp only at e2 e3; subst e2; subst e3
            exact ⟨b, (hLget _ _).mp hm, e1.symm⟩
        · rintro ⟨b, hg, ho⟩
          exact Or.inr ⟨(svc, pv), b, (hLget _ _).mpr hg, by rw [ho]⟩
      · intro k b hg
        obtain ⟨pr, _, hpr0, hval⟩ := hB.priced k b hg
        exact ⟨pr, (hpr k pr).mpr (Or.inl ⟨b, (hLget _ _).mpr hg, hpr0⟩), hpr0, hval⟩
      · intro k hsome
        obtain ⟨pr, hg⟩ := Option.isSome_iff_exists.mp hsome
        rcases (hpr k pr).mp hg with ⟨b, hm, _⟩ | ⟨_, h2⟩
        · rw [(hLget k b).mp hm]; rfl
        · cases h2
      · intro svc pv hsome
        rw [hdefs, get_entries]
        exact hB.defined svc pv hsome
      · intro pv o hg
        by_cases hex : ∃ k b, (k, b) ∈ L ∧ k.2 = pv
        · obtain ⟨⟨sv, pv'⟩, b, hm, hk⟩ := hex
          dsimp only at hk; subst hk
          exact ⟨sv, by rw [(hLget _ _).mp hm]; rfl⟩
        · have := how1 pv (fun k b hm e => hex ⟨k, b, hm, e⟩)
          rw [hg] at this
          cases this
      · intro k b hg hav
        obtain ⟨p0, md, hp0, hmd, hle⟩ := hB.minDep k b hg hav
        obtain ⟨pr, hpr1, hpr0, _⟩ := hB.priced k b hg
        rw [hp0] at hpr1; injection hpr1 with hpr1; subst hpr1
        exact ⟨p0, md, (hpr k p0).mpr (Or.inl ⟨b, (hLget _ _).mpr hg, hpr0⟩), hmd, hle⟩
    · -- the invocation world: contexts as reset, everything else empty
      show XInv S.cfg S.height S.ctxs s2.expQ s2.newQ s2.expH s2.newH S.usedIds s2.reqs s2.activeB s2.activeI s2.resps
      rw [g1, g2, g3, g4, f8, f9, f10, f11, hcfg]
      show XInv s.cfg S.height S.ctxs [] [] [] [] S.usedIds [] [] [] []
      refine { ctxWF := ?_, ctxCons := ?_, newMirror := ?_, expMirror := ?_, single := ?_, newFuture := ?_,
               expFuture := ?_, runningQ := ?_, used := ?_, reqCtx := ?_, activeReq := ?_, activeMirror := ?_,
               respReq := ?_, activeNodup := ?_, bRunExp := ?_, activeRunning := ?_, counts := ?_ }
      · intro c x hx
        obtain ⟨x0, hx0, rfl⟩ := hctxget c x hx
        exact hinv.x.ctxWF c x0 hx0
      · intro c x hx
        obtain ⟨x0, hx0, rfl⟩ := hctxget c x hx
        exact hinv.x.ctxCons c x0 hx0
      · intro h c; simp
      · intro h c; simp
      · intro c; left; rfl
      · intro c h hh; simp at hh
      · intro c h hh; simp at hh
      · intro c x hx hrun
        obtain ⟨x0, _, rfl⟩ := hctxget c x hx
        simp [resetCtx] at hrun
      · intro c hsome
        show c ∈ s.usedIds
        obtain ⟨x, hx⟩ := Option.isSome_iff_exists.mp hsome
        obtain ⟨x0, hx0, _⟩ := hctxget c x hx
        exact hinv.x.used c (by rw [hx0]; rfl)
      · intro r q hq; simp at hq
      · intro r hr; simp at hr
      · intro svc pv e r; simp
      · intro r hsome; simp at hsome
      · exact List.nodup_nil
      · intro c x hx hrun
        obtain ⟨x0, _, rfl⟩ := hctxget c x hx
        simp [resetCtx] at hrun
      · intro r hr; simp at hr
      · intro c x hx hrun
        obtain ⟨x0, _, rfl⟩ := hctxget c x hx
        simp [resetCtx] at hrun
    · -- the money world: nothing pending, nothing earned, an empty escrow
      show MInv (balOf (prep s).s.bank.bal S.cfg.escrow) s2.reqs s2.activeI s2.earned s2.ownerEarned s2.owner
      rw [f8, f10, f12, g6, hcfg, hescb]
      show MInv 0 [] [] [] [] s2.owner
      refine { escrow := ?_, earnedK := ?_, ownerEarnedK := ?_, ownerSum := ?_, earnedOwned := ?_ }
      · simp [feeSum, Map.total]
      · simp [NodupKeys, keys]
      · simp [NodupKeys, keys]
      · intro o; simp [balOf, ownedSum, Map.total, Map.get]
      · intro pv h; simp at h
    · show BoundInv S.ctxs s2.reqs s2.bindings
      rw [f8]
      intro r q hq
      have : get ([] : Map ReqId Req) r = some q := hq
      cases this
/-- every operation preserves the whole package -/
theorem step_invAll (s : State) (op : Op) (h : InvAll s) (hw : WF s op) : InvAll (step s op).1 := by
  refine ⟨step_inv _ op h.inv hw, ?_, step_vk s op hw h.recs, ?_, step_bk s op h.nodup⟩
  · intro a ha
    obtain ⟨hcfg, hsub⟩ := step_ek s op
    have hm : (step s op).1.modAcct a ↔ s.modAcct a := by unfold State.modAcct; rw [hcfg]
    rw [hm]
    rcases hsub a ha with h1 | h1
    · exact h.earn a h1
    · cases op with
      | respond r pv code out =>
        simp only [Op.earners, List.mem_singleton] at h1
        subst h1
        exact hw
      | _ => simp [Op.earners] at h1
  · intro c y hy
    rcases step_ctx_origin h.inv op hw c y hy with ⟨x, hx, he⟩ | ⟨_, _, hf⟩
    · exact he.fields (h.ctxf c x hx)
    · exact hf

theorem reachable_invAll {cfg : Config} {p : Params} {h0 t0 : Int} (hc : CfgOK cfg p) {s : State}
    (hr : Reachable cfg p h0 t0 s) : InvAll s :=
  ⟨reachable_inv hc hr, earnOK hr, recOK hr, ctxsFieldsOK hc hr, bindings_nodupKeys hr⟩

theorem restart_inv {cfg : Config} {p : Params} {h0 t0 : Int} (hc : CfgOK cfg p) {s : State}
    (hr : Reachable cfg p h0 t0 s) (height time : Int) :
    ∃ s', restart s height time = some s' ∧ Inv s' ∧ s'.cfg = s.cfg ∧ s'.params = s.params ∧
      s'.height = height ∧ s'.time = time ∧ exportG s' = exportG (prep s).s := by
  obtain ⟨s', h1, h2, h3⟩ := restart_invAll (reachable_invAll hc hr) height time
  exact ⟨s', h1, h2.inv, h3⟩

/-- states reachable from the empty genesis by well-formed operations **and any number of zero-height restarts**
    (each at an arbitrary new height and time) -/
inductive ReachableR (cfg : Config) (p : Params) (h0 t0 : Int) : State → Prop
  | init : ReachableR cfg p h0 t0 (genesis cfg p h0 t0)
  | step {s : State} (op : Op) : ReachableR cfg p h0 t0 s → WF s op → ReachableR cfg p h0 t0 (step s op).1
  | restart {s s' : State} (height time : Int) : ReachableR cfg p h0 t0 s → SM.restart s height time = some s' →
      ReachableR cfg p h0 t0 s'

theorem reachableR_invAll {cfg : Config} {p : Params} {h0 t0 : Int} (hc : CfgOK cfg p) {s : State}
    (hr : ReachableR cfg p h0 t0 s) : InvAll s := by
  induction hr with
  | init => exact reachable_invAll hc Reachable.init
  | step op _ hw ih => exact step_invAll _ op ih hw
  | restart height time _ hre ih =>
    obtain ⟨s'', h1, h2, _⟩ := restart_invAll ih height time
    rw [hre] at h1; injection h1 with h1; subst h1
    exact h2

/-- a restart never fails on such a chain -/
theorem reachableR_restart_succeeds {cfg : Config} {p : Params} {h0 t0 : Int} (hc : CfgOK cfg p) {s : State}
    (hr : ReachableR cfg p h0 t0 s) (height time : Int) : (SM.restart s height time).isSome := by
  obtain ⟨s', h1, _⟩ := restart_invAll (reachableR_invAll hc hr) height time
  rw [h1]; rfl

/-- `Inv` is inductive from any starting state that satisfies it -/
theorem inv_reachableFrom {s0 s : State} (h0 : Inv s0) (hr : ReachableFrom s0 s) : Inv s := by
  induction hr with
  | init => exact h0
  | step op _ hw ih => exact step_inv _ op ih hw

end SM
