import ServiceModel.Proofs.NoPanicMsg
/-!
# What never changes: definitions, the identity of a binding, the owner of a provider, and
(except by the owner's own message) the withdrawal address — over every step, unconditionally
-/
namespace SM
open Map

/-- `s'` keeps every definition of `s` as it is, every binding of `s` with its owner, every provider's owner -/
structure Stable (s s' : State) : Prop where
  defs : ∀ n d, get s.defs n = some d → get s'.defs n = some d
  bind : ∀ k b, get s.bindings k = some b → ∃ b', get s'.bindings k = some b' ∧ b'.owner = b.owner
  owner : ∀ p o, get s.owner p = some o → get s'.owner p = some o

theorem Stable.refl (s : State) : Stable s s := ⟨fun _ _ h => h, fun _ b h => ⟨b, h, rfl⟩, fun _ _ h => h⟩

theorem Stable.trans {a b c : State} (h1 : Stable a b) (h2 : Stable b c) : Stable a c :=
  ⟨fun n d h => h2.defs n d (h1.defs n d h),
   fun k x h => by
     obtain ⟨x1, g1, o1⟩ := h1.bind k x h
     obtain ⟨x2, g2, o2⟩ := h2.bind k x1 g1
     exact ⟨x2, g2, o2.trans o1⟩,
   fun p o h => h2.owner p o (h1.owner p o h)⟩

theorem Stable.of_eq {s s' : State} (h1 : s'.defs = s.defs) (h2 : s'.bindings = s.bindings) (h3 : s'.owner = s.owner) :
    Stable s s' :=
  ⟨fun _ _ h => by rw [h1]; exact h, fun _ b h => ⟨b, by rw [h2]; exact h, rfl⟩, fun _ _ h => by rw [h3]; exact h⟩

/-- rewriting one existing binding without changing its owner -/
theorem Stable.setBinding {s s' : State} {k : SvcName × Addr} {b b' : Binding} (hb : get s.bindings k = some b)
    (h2 : s'.bindings = set s.bindings k b') (ho : b'.owner = b.owner) (h1 : s'.defs = s.defs) (h3 : s'.owner = s.owner) :
    Stable s s' :=
  ⟨fun _ _ h => by rw [h1]; exact h,
   fun k2 b2 h => by
     rw [h2, Map.get_set]
     by_cases hk : k = k2
     · subst hk; rw [hb] at h; injection h with h; subst h
       exact ⟨b', by simp, ho⟩
     · exact ⟨b2, by simp [hk, h], rfl⟩,
   fun _ _ h => by rw [h3]; exact h⟩

/-- the components no operation other than `setwd` touches, together with `Stable` -/
def Keeps (s s' : State) : Prop := Stable s s' ∧ s'.withdraw = s.withdraw

theorem Keeps.refl (s : State) : Keeps s s := ⟨Stable.refl s, rfl⟩
theorem Keeps.trans {a b c : State} (h1 : Keeps a b) (h2 : Keeps b c) : Keeps a c :=
  ⟨h1.1.trans h2.1, h2.2.trans h1.2⟩
theorem Keeps.of_eq {s s' : State} (h1 : s'.defs = s.defs) (h2 : s'.bindings = s.bindings) (h3 : s'.owner = s.owner)
    (h4 : s'.withdraw = s.withdraw) : Keeps s s' := ⟨Stable.of_eq h1 h2 h3, h4⟩

theorem slash_keeps {s s1 : State} {r : ReqId} {svc : SvcName} {p : Addr} {e : List Effect}
    (h : slash s r svc p = .done s1 e) : Keeps s s1 := by
  unfold slash at h
  cases hb : get s.bindings (svc, p) with
  | none => rw [hb] at h; injection h with h1 _; subst h1; exact Keeps.refl s
  | some b =>
    rw [hb] at h; dsimp only at h
    split at h; · cases h
    cases hbk : bankBurn s.bank s.cfg.deposit (b.deposit * s.params.slash / decUnit) with
    | none => rw [hbk] at h; cases h
    | some bank' =>
      rw [hbk] at h; dsimp only at h
      split at h
      · cases hmd : minDeposit s.params (storedPricing s svc p) with
        | none => rw [hmd] at h; cases h
        | some md =>
          rw [hmd] at h; dsimp only at h
          injection h with h1 _; subst h1
          refine ⟨Stable.setBinding hb rfl ?_ rfl rfl, rfl⟩
          split <;> rfl
      · injection h with h1 _; subst h1
        exact ⟨Stable.setBinding hb rfl rfl rfl rfl, rfl⟩

theorem addEarned_keeps {s s1 : State} {p : Addr} {fee : Nat} {e : List Effect}
    (h : addEarned s p fee = some (s1, e)) : Keeps s s1 := by
  obtain ⟨bank', ea, oe, hs⟩ := addEarned_shape h
  subst hs; exact Keeps.of_eq rfl rfl rfl rfl

theorem settle_keeps {s s1 : State} {r : ReqId} {svc : SvcName} {cons : Addr} {q : Req} {prov : Addr} {out : OutKind}
    {e1 : List Effect} (h : settle s r svc cons q prov out = .ok (s1, e1)) : Keeps s s1 := by
  unfold settle at h
  split at h
  · cases hs : slash s r svc q.prov with
    | bankErr => rw [hs] at h; simp at h
    | overflow => rw [hs] at h; simp at h
    | done s2 e2 =>
      rw [hs] at h; dsimp only at h
      cases hb : bankSend s2.bank s2.cfg.escrow cons q.fee with
      | none => rw [hb] at h; simp at h
      | some bank' =>
        rw [hb] at h
        simp only [Except.ok.injEq, Prod.mk.injEq] at h
        obtain ⟨h1, _⟩ := h; subst h1
        exact (slash_keeps hs).trans (Keeps.of_eq rfl rfl rfl rfl)
  · cases ha : addEarned s prov q.fee with
    | none => rw [ha] at h; simp at h
    | some res =>
      rw [ha] at h; simp only [Except.ok.injEq] at h; subst h
      exact addEarned_keeps ha

macro "keeps_tac" f:ident : tactic =>
  `(tactic| (unfold $f; (try dsimp only); repeat' split
             all_goals first
               | exact Keeps.refl _
               | exact Keeps.of_eq rfl rfl rfl rfl
               | (simp only [setCtx, addNewQ, addExpQ, delNewQ, delExpQ, delCtx, fail, panicOut]; exact Keeps.of_eq rfl rfl rfl rfl)))

theorem pauseK_keeps (s : State) (c : CtxId) (cons : Addr) : Keeps s (pauseK s c cons).1 := by keeps_tac pauseK
theorem startK_keeps (s : State) (c : CtxId) (cons : Addr) : Keeps s (startK s c cons).1 := by keeps_tac startK
theorem killK_keeps (s : State) (c : CtxId) (cons : Addr) : Keeps s (killK s c cons).1 := by keeps_tac killK
theorem updateK_keeps (s : State) (c : CtxId) (cons : Addr) (provs : List Addr) (thr : Nat) (cap : Option Nat)
    (timeout : Int) (freq : Nat) (total : Int) : Keeps s (updateK s c cons provs thr cap timeout freq total).1 := by
  keeps_tac updateK
theorem createCtx_keeps (s : State) (id : CtxId) (mod : ModName) (svc : SvcName) (provs : List Addr) (cons : Addr)
    (cap : Option Nat) (timeout : Int) (super rep : Bool) (freq : Nat) (total : Int) (inputOk running : Bool) (thr : Nat) :
    Keeps s (createCtx s id mod svc provs cons cap timeout super rep freq total inputOk running thr).1 := by
  keeps_tac createCtx
theorem ctxMsg_keeps (s : State) (c : CtxId) (cons : Addr) (k : State → Out) (hk : Keeps s (k s).1) :
    Keeps s (ctxMsg s c cons k).1 := by
  unfold ctxMsg; split
  · exact Keeps.refl s
  · exact hk

theorem withdraw_keeps (s : State) (o p : Addr) : Keeps s (withdraw s o p).1 := by
  unfold withdraw
  split; · exact Keeps.refl s
  cases hw : withdrawRecords s o p with
  | error r => exact Keeps.refl s
  | ok res =>
    obtain ⟨s1, amt⟩ := res
    dsimp only
    have h1 : Keeps s s1 := by
      unfold withdrawRecords at hw
      repeat' split at hw
      all_goals first
        | (cases hw; done)
        | (simp only [Except.ok.injEq, Prod.mk.injEq] at hw; obtain ⟨e1, _⟩ := hw; subst e1; exact Keeps.of_eq rfl rfl rfl rfl)
    split; · exact Keeps.refl s
    split
    · exact Keeps.refl s
    · exact h1.trans (Keeps.of_eq rfl rfl rfl rfl)

theorem respond_keeps (s : State) (r : ReqId) (pv : Addr) (code : Nat) (out : OutKind) :
    Keeps s (respond s r pv code out).1 := by
  unfold respond
  cases hq : get s.reqs r with
  | none => exact Keeps.refl s
  | some q =>
    dsimp only
    cases hx : get s.ctxs r.ctx with
    | none => exact Keeps.refl s
    | some x =>
      dsimp only
      split; · exact Keeps.refl s
      split; · exact Keeps.refl s
      cases hs : settle s r x.svc x.cons q pv out with
      | error res => exact Keeps.refl s
      | ok res =>
        obtain ⟨s1, e1⟩ := res
        dsimp only
        have h1 := settle_keeps hs
        split
        · exact h1.trans (Keeps.of_eq rfl rfl rfl rfl)
        · exact h1.trans (Keeps.of_eq rfl rfl rfl rfl)

/-! ### bindings operations -/
theorem define_keeps (s : State) (n : SvcName) (a : Addr) : Keeps s (define s n a).1 := by
  unfold define
  split
  · exact Keeps.refl s
  · rename_i hnone
    refine ⟨⟨?_, fun k b h => ⟨b, h, rfl⟩, fun _ _ h => h⟩, rfl⟩
    intro n2 d h
    show get (set s.defs n _) n2 = some d
    rw [Map.get_set]
    by_cases hn : n = n2
    · subst hn
      have : (get s.defs n).isSome = true := by rw [h]; rfl
      simp_all
    · simp [hn, h]

theorem disable_keeps (s : State) (svc : SvcName) (p o : Addr) : Keeps s (disable s svc p o).1 := by
  unfold disable
  cases hb : get s.bindings (svc, p) with
  | none => exact Keeps.refl s
  | some b =>
    dsimp only
    repeat' split
    all_goals first
      | exact Keeps.refl s
      | exact ⟨Stable.setBinding hb rfl rfl rfl rfl, rfl⟩

theorem refund_keeps (s : State) (svc : SvcName) (p o : Addr) : Keeps s (refund s svc p o).1 := by
  unfold refund
  cases hb : get s.bindings (svc, p) with
  | none => exact Keeps.refl s
  | some b =>
    dsimp only
    repeat' split
    all_goals first
      | exact Keeps.refl s
      | exact ⟨Stable.setBinding hb rfl rfl rfl rfl, rfl⟩

theorem enable_keeps (s : State) (svc : SvcName) (p o : Addr) (dep : Option Nat) : Keeps s (enable s svc p o dep).1 := by
  unfold enable
  cases hb : get s.bindings (svc, p) with
  | none => exact Keeps.refl s
  | some b =>
    dsimp only
    repeat' split
    all_goals first
      | exact Keeps.refl s
      | exact ⟨Stable.setBinding hb rfl rfl rfl rfl, rfl⟩

theorem update_keeps (s : State) (svc : SvcName) (p o : Addr) (dep : Option Nat) (text : Option PricingText) (qos : Nat) :
    Keeps s (update s svc p o dep text qos).1 := by
  unfold update
  cases hb : get s.bindings (svc, p) with
  | none => exact Keeps.refl s
  | some b =>
    dsimp only
    repeat' split
    all_goals first
      | exact Keeps.refl s
      | exact ⟨Stable.setBinding hb rfl rfl rfl rfl, rfl⟩
      | exact Keeps.of_eq rfl rfl rfl rfl

theorem bind_keeps (s : State) (svc : SvcName) (p o : Addr) (dep : Option Nat) (text : PricingText) (qos : Nat) :
    Keeps s (bind s svc p o dep text qos).1 := by
  unfold bind
  split; · exact Keeps.refl s
  split; · exact Keeps.refl s
  split; · exact Keeps.refl s
  rename_i _ _ hnew
  dsimp only
  split; · exact Keeps.refl s
  rename_i hauth
  cases dep with
  | none => exact Keeps.refl s
  | some d =>
    dsimp only
    split; · exact Keeps.refl s
    cases parsePricing text with
    | bad => exact Keeps.refl s
    | overflow => exact Keeps.refl s
    | ok pr =>
      dsimp only
      split; · exact Keeps.refl s
      cases minDeposit s.params pr with
      | none => exact Keeps.refl s
      | some md =>
        dsimp only
        split; · exact Keeps.refl s
        cases bankSend s.bank o s.cfg.deposit d with
        | none => exact Keeps.refl s
        | some bank' =>
          dsimp only
          -- a new binding under a key that had none; the owner record is written only when the provider had none
          have hk : get s.bindings (svc, p) = none := by
            cases hh : get s.bindings (svc, p) with
            | none => rfl
            | some b => rw [hh] at hnew; simp at hnew
          have hbind : ∀ (m : Map (SvcName × Addr) Binding) (b0 : Binding), m = set s.bindings (svc, p) b0 →
              ∀ k b, get s.bindings k = some b → ∃ b', get m k = some b' ∧ b'.owner = b.owner := by
            intro m b0 hm k b h
            rw [hm, Map.get_set]
            by_cases hkk : (svc, p) = k
            · subst hkk; rw [hk] at h; cases h
            · exact ⟨b, by simp [hkk, h], rfl⟩
          split
          · rename_i hcur
            refine ⟨⟨fun _ _ h => h, hbind _ _ rfl, ?_⟩, rfl⟩
            intro p2 o2 h
            show get (set s.owner p o) p2 = some o2
            rw [Map.get_set]
            by_cases hp : p = p2
            · subst hp
              have : (get s.owner p).isNone = true := by simpa using hcur
              rw [h] at this; simp at this
            · simp [hp, h]
          · exact ⟨⟨fun _ _ h => h, hbind _ _ rfl, fun _ _ h => h⟩, rfl⟩

end SM

namespace SM
open Map

/-! ### the end of a block -/
theorem refundExpired_keeps (s1 : State) (e1 : List Effect) (x : Ctx) (q : Req) (r : ReqId) :
    Keeps s1 (refundExpired s1 e1 x q r).s := by
  unfold refundExpired
  split <;> exact Keeps.of_eq rfl rfl rfl rfl

theorem expireReq_keeps (x : Ctx) (s : State) (r : ReqId) : Keeps s (expireReq x s r).s := by
  unfold expireReq
  cases hq : get s.reqs r with
  | none => exact Keeps.of_eq rfl rfl rfl rfl
  | some q =>
    dsimp only
    split; · exact Keeps.of_eq rfl rfl rfl rfl
    cases hs : slash s r x.svc q.prov with
    | overflow => exact Keeps.refl s
    | bankErr => exact refundExpired_keeps s [] x q r
    | done s1 e1 => exact (slash_keeps hs).trans (refundExpired_keeps s1 e1 x q r)

theorem foldH_keeps {α : Type} (hd : State → α → HRes) (hk : ∀ s a, Keeps s (hd s a).s) :
    ∀ (l : List α) (s : State), Keeps s (foldH hd s l).s := by
  intro l
  induction l with
  | nil => intro s; exact Keeps.refl s
  | cons a t ih =>
    intro s
    rw [foldH_cons]
    split
    · exact hk s a
    · exact (hk s a).trans (ih _)

theorem expirePending_keeps (s : State) (c : CtxId) (x : Ctx) : Keeps s (expirePending s c x).1.s := by
  unfold expirePending
  split
  · exact foldH_keeps _ (expireReq_keeps x) _ s
  · exact Keeps.refl s

theorem cleanBatch_keeps (s : State) (c : CtxId) (b : Nat) : Keeps s (cleanBatch s c b) :=
  Keeps.of_eq rfl rfl rfl rfl

theorem expireTail_keeps (s : State) (c : CtxId) (x1 : Ctx) : Keeps s (expireTail s c x1).1 := by
  unfold expireTail
  dsimp only
  cases x1.state with
  | completed => exact Keeps.of_eq rfl rfl rfl rfl
  | paused => exact Keeps.of_eq rfl rfl rfl rfl
  | running => dsimp only; split <;> exact Keeps.of_eq rfl rfl rfl rfl

theorem expireBatch_keeps (s : State) (c : CtxId) : Keeps s (expireBatch s c).s := by
  unfold expireBatch
  split; · exact Keeps.refl s
  cases get s.ctxs c with
  | none => exact Keeps.of_eq rfl rfl rfl rfl
  | some x =>
    dsimp only
    split
    · exact expirePending_keeps s c x
    · exact (expirePending_keeps s c x).trans (expireTail_keeps _ c _)

theorem issueBatch_keeps (s : State) (bank' : Bank) (c : CtxId) (x : Ctx) (el : List (Addr × Nat)) (ep : List Effect) :
    Keeps s (issueBatch s bank' c x el ep).1 := by
  unfold issueBatch
  dsimp only [addExpQ, setCtx]
  refine Keeps.of_eq ?_ ?_ ?_ ?_
  · exact issueReqs_proj (·.defs) (fun _ _ _ _ _ _ _ => rfl) _ c x el 0
  · exact issueReqs_proj (·.bindings) (fun _ _ _ _ _ _ _ => rfl) _ c x el 0
  · exact issueReqs_proj (·.owner) (fun _ _ _ _ _ _ _ => rfl) _ c x el 0
  · exact issueReqs_proj (·.withdraw) (fun _ _ _ _ _ _ _ => rfl) _ c x el 0

theorem startOrSkip_keeps (s : State) (c : CtxId) (x : Ctx) : Keeps s (startOrSkip s c x).1 := by
  unfold startOrSkip
  split
  · split
    · exact issueBatch_keeps ..
    · cases bankSend s.bank x.cons s.cfg.escrow (sumPrices (eligible s x)) with
      | some bk => exact issueBatch_keeps ..
      | none => exact Keeps.of_eq rfl rfl rfl rfl
  · exact Keeps.of_eq rfl rfl rfl rfl

theorem newBatch_keeps (s : State) (c : CtxId) : Keeps s (newBatch s c).s := by
  unfold newBatch
  split; · exact Keeps.refl s
  cases get s.ctxs c with
  | none => exact Keeps.of_eq rfl rfl rfl rfl
  | some x =>
    dsimp only
    split; · exact Keeps.of_eq rfl rfl rfl rfl
    split; · exact Keeps.of_eq rfl rfl rfl rfl
    exact (startOrSkip_keeps s c x).trans (Keeps.of_eq rfl rfl rfl rfl)

theorem endBlock_keeps (s : State) (dt : Int) : Keeps s (endBlock s dt).s := by
  unfold endBlock
  dsimp only
  have h1 := foldH_keeps expireBatch expireBatch_keeps (queuedAt s.expQ s.height) s
  split
  · exact h1
  · have h2 := foldH_keeps newBatch newBatch_keeps
      (queuedAt (foldH expireBatch s (queuedAt s.expQ s.height)).s.newQ (foldH expireBatch s (queuedAt s.expQ s.height)).s.height)
      (foldH expireBatch s (queuedAt s.expQ s.height)).s
    split
    · exact h1.trans h2
    · exact h1.trans (h2.trans (Keeps.of_eq rfl rfl rfl rfl))

/-! ### every step -/
/-- the withdrawal address of `o` after a step: changed only by `o`'s own `setwd` -/
def Op.setsWithdrawOf (o : Addr) : Op → Bool
  | .setwd o' _ => o' = o
  | _ => false

theorem exec_stable (s : State) (op : Op) : Stable s (exec s op).1 := by
  cases op with
  | fund a n => exact Stable.of_eq rfl rfl rfl
  | xfer a b n =>
    show Stable s (match bankSend s.bank a b n with
      | none => fail s Err.insufficientFunds
      | some bank' => ({ s with bank := bank' }, Res.ok, [])).1
    split
    · exact Stable.refl s
    · exact Stable.of_eq rfl rfl rfl
  | define n a ok => exact (define_keeps s n a).1
  | bind svc p o dep text qos =>
    show Stable s (match text with
      | some t => bind s svc p o dep t qos
      | none => (s, Res.invalid, [])).1
    cases text with
    | none => exact Stable.refl s
    | some t => exact (bind_keeps s svc p o dep t qos).1
  | update svc p o dep text qos => exact (update_keeps s svc p o dep text qos).1
  | setwd o a => exact Stable.of_eq rfl rfl rfl
  | disable svc p o => exact (disable_keeps s svc p o).1
  | enable svc p o dep => exact (enable_keeps s svc p o dep).1
  | refund svc p o => exact (refund_keeps s svc p o).1
  | call id svc provs cons cap timeout super rep freq total inputOk =>
    show Stable s (if s.cfg.modsvc = some svc then panicOut s "module-service call: outside the model"
      else createCtx s id "" svc provs cons cap timeout super rep freq total inputOk true 0).1
    split
    · exact Stable.refl s
    · exact (createCtx_keeps ..).1
  | modcreate id mod svc provs cons cap timeout super rep freq total inputOk running thr => exact (createCtx_keeps ..).1
  | respond r p code out => exact (respond_keeps s r p code out).1
  | pause c cons => exact (ctxMsg_keeps s c cons _ (pauseK_keeps s c cons)).1
  | start c cons => exact (ctxMsg_keeps s c cons _ (startK_keeps s c cons)).1
  | kill c cons => exact (ctxMsg_keeps s c cons _ (killK_keeps s c cons)).1
  | updatectx c cons provs cap timeout freq total => exact (ctxMsg_keeps s c cons _ (updateK_keeps ..)).1
  | modpause c cons => exact (pauseK_keeps s c cons).1
  | modstart c cons => exact (startK_keeps s c cons).1
  | modkill c cons => exact (killK_keeps s c cons).1
  | modupdate c cons provs thr cap timeout freq total => exact (updateK_keeps ..).1
  | withdraw o p => exact (withdraw_keeps s o p).1
  | endblock dt =>
    show Stable s (match (endBlock s dt).panic with
        | some m => (s, Res.panic m, (endBlock s dt).effs)
        | none => ((endBlock s dt).s, Res.ok, (endBlock s dt).effs)).1
    split
    · exact Stable.refl s
    · exact (endBlock_keeps s dt).1

theorem exec_withdraw_addr (s : State) (op : Op) (o : Addr) (hno : op.setsWithdrawOf o = false) :
    get (exec s op).1.withdraw o = get s.withdraw o := by
  have key : ∀ {s' : State}, s'.withdraw = s.withdraw → get s'.withdraw o = get s.withdraw o := fun h => by rw [h]
  cases op with
  | fund a n => rfl
  | xfer a b n =>
    show get (match bankSend s.bank a b n with
      | none => fail s Err.insufficientFunds
      | some bank' => ({ s with bank := bank' }, Res.ok, [])).1.withdraw o = _
    split <;> rfl
  | define n a ok => exact key (define_keeps s n a).2
  | bind svc p ow dep text qos =>
    cases text with
    | none => rfl
    | some t => exact key (bind_keeps s svc p ow dep t qos).2
  | update svc p ow dep text qos => exact key (update_keeps s svc p ow dep text qos).2
  | setwd o' a =>
    show get (set s.withdraw o' a) o = _
    have : o' ≠ o := by simpa [Op.setsWithdrawOf] using hno
    rw [Map.get_set, if_neg this]
  | disable svc p ow => exact key (disable_keeps s svc p ow).2
  | enable svc p ow dep => exact key (enable_keeps s svc p ow dep).2
  | refund svc p ow => exact key (refund_keeps s svc p ow).2
  | call id svc provs cons cap timeout super rep freq total inputOk =>
    show get (if s.cfg.modsvc = some svc then panicOut s "module-service call: outside the model"
      else createCtx s id "" svc provs cons cap timeout super rep freq total inputOk true 0).1.withdraw o = _
    split
    · rfl
    · exact key (createCtx_keeps ..).2
  | modcreate id mod svc provs cons cap timeout super rep freq total inputOk running thr =>
    exact key (createCtx_keeps s id mod svc provs cons cap timeout super rep freq total inputOk running thr).2
  | respond r p code out => exact key (respond_keeps s r p code out).2
  | pause c cons => exact key (ctxMsg_keeps s c cons _ (pauseK_keeps s c cons)).2
  | start c cons => exact key (ctxMsg_keeps s c cons _ (startK_keeps s c cons)).2
  | kill c cons => exact key (ctxMsg_keeps s c cons _ (killK_keeps s c cons)).2
  | updatectx c cons provs cap timeout freq total =>
    exact key (ctxMsg_keeps s c cons _ (updateK_keeps s c cons provs 0 cap timeout freq total)).2
  | modpause c cons => exact key (pauseK_keeps s c cons).2
  | modstart c cons => exact key (startK_keeps s c cons).2
  | modkill c cons => exact key (killK_keeps s c cons).2
  | modupdate c cons provs thr cap timeout freq total => exact key (updateK_keeps s c cons provs thr cap timeout freq total).2
  | withdraw ow p => exact key (withdraw_keeps s ow p).2
  | endblock dt =>
    show get (match (endBlock s dt).panic with
        | some m => (s, Res.panic m, (endBlock s dt).effs)
        | none => ((endBlock s dt).s, Res.ok, (endBlock s dt).effs)).1.withdraw o = _
    split
    · rfl
    · exact key (endBlock_keeps s dt).2

theorem step_stable (s : State) (op : Op) : Stable s (step s op).1 := by
  unfold step
  split
  · exact Stable.refl s
  · have h := exec_stable s op
    cases hres : exec s op with
    | mk s' rest =>
      obtain ⟨res, effs⟩ := rest
      rw [hres] at h
      dsimp only
      split
      · exact h
      · cases res with
        | ok => exact h
        | _ => exact Stable.refl s

theorem step_withdraw_addr (s : State) (op : Op) (o : Addr) (hno : op.setsWithdrawOf o = false) :
    get (step s op).1.withdraw o = get s.withdraw o := by
  unfold step
  split
  · rfl
  · have h := exec_withdraw_addr s op o hno
    cases hres : exec s op with
    | mk s' rest =>
      obtain ⟨res, effs⟩ := rest
      rw [hres] at h
      dsimp only
      split
      · exact h
      · cases res with
        | ok => exact h
        | _ => rfl

end SM

namespace SM
open Map

theorem foldl_del_get {ν : Type} (ps : List Addr) : ∀ (m : Map Addr ν) (k : Addr),
    get (ps.foldl (fun m p => del m p) m) k = if k ∈ ps then none else get m k := by
  induction ps with
  | nil => intro m k; simp
  | cons p t ih =>
    intro m k
    simp only [List.foldl_cons, List.mem_cons]
    rw [ih (del m p) k, Map.get_del]
    by_cases h1 : k ∈ t
    · simp [h1]
    · by_cases h2 : p = k
      · subst h2; simp [h1]
      · have : ¬ k = p := fun e => h2 e.symm
        simp [h1, h2, this]

/-- the state after a list of operations -/
def after (s : State) (ops : List Op) : State := ops.foldl (fun s o => (step s o).1) s

theorem stable_after (ops : List Op) : ∀ s, Stable s (after s ops) := by
  induction ops with
  | nil => intro s; exact Stable.refl s
  | cons op t ih => intro s; exact (step_stable s op).trans (ih _)

end SM
