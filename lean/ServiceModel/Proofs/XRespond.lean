import ServiceModel.Proofs.XOps
/-!
# The invocation world under `respond` (and the single-request deactivation used at expiry)
-/
namespace SM
open Map

theorem FSet.rem_length {α} [DecidableEq α] (l : List α) (a : α) (hn : l.Nodup) (ha : a ∈ l) :
    (FSet.rem l a).length + 1 = l.length := by
  induction l with
  | nil => simp at ha
  | cons b t ih =>
    have hnt : t.Nodup := (List.nodup_cons.mp hn).2
    have hbt : b ∉ t := (List.nodup_cons.mp hn).1
    by_cases hab : b = a
    · subst hab
      have : FSet.rem (b :: t) b = t := by
        unfold FSet.rem
        simp only [List.filter_cons, ne_eq, not_true_eq_false, decide_false, Bool.false_eq_true, if_false]
        apply List.filter_eq_self.mpr
        intro x hx
        simp only [ne_eq, decide_eq_true_eq]
        intro e; subst e; exact hbt hx
      rw [this]; simp
    · have hat : a ∈ t := by
        simp only [List.mem_cons] at ha
        rcases ha with h | h
        · exact absurd h.symm hab
        · exact h
      have : FSet.rem (b :: t) a = b :: FSet.rem t a := by
        unfold FSet.rem
        simp [List.filter_cons, hab]
      rw [this]; simp only [List.length_cons]
      have := ih hnt hat
      omega

theorem FSet.rem_filter {α} [DecidableEq α] (l : List α) (a : α) (p : α → Bool) :
    (FSet.rem l a).filter p = FSet.rem (l.filter p) a := by
  unfold FSet.rem
  rw [List.filter_filter, List.filter_filter]
  congr 1
  funext x
  exact Bool.and_comm _ _

theorem FSet.rem_of_not_mem {α} [DecidableEq α] (l : List α) (a : α) (h : a ∉ l) : FSet.rem l a = l := by
  unfold FSet.rem
  apply List.filter_eq_self.mpr
  intro x hx
  simp only [ne_eq, decide_eq_true_eq]
  intro e; subst e; exact h hx

theorem List.eq_of_length_one {α} (l : List α) (h : l.length = 1) (a b : α) (ha : a ∈ l) (hb : b ∈ l) : a = b := by
  match l, h with
  | [x], _ => simp at ha hb; rw [ha, hb]

variable {cfg : Config} {height : Int} {ctxs : Map CtxId Ctx} {expQ newQ : FSet (Int × CtxId)}
  {expH newH : Map CtxId Int} {usedIds : List CtxId} {reqs : Map ReqId Req}
  {activeB : FSet (SvcName × Addr × Int × ReqId)} {activeI : FSet ReqId} {resps : Map ReqId Resp}

/-- a pending request stops being pending (answered, or expired): its two markers are removed and
    the context's counters are updated by `x'` — either one more response (the batch stays as it is), or
    the batch is marked completed when no other request of it is pending. `resps'` is the response map
    afterwards: unchanged, or with the answer to `r` added. -/
theorem XInv.deactivate {r : ReqId} {q : Req} {x x' : Ctx} {resps' : Map ReqId Resp}
    (h : XInv cfg height ctxs expQ newQ expH newH usedIds reqs activeB activeI resps)
    (hq : Map.get reqs r = some q) (hx : Map.get ctxs r.ctx = some x) (hact : r ∈ activeI)
    (h1 : x'.cons = x.cons) (h2 : x'.svc = x.svc) (h3 : x'.batch = x.batch)
    (hwf : ctxOK x') (hst : x'.state = x.state) (hreqN : x'.reqN = x.reqN)
    (hcount : (x'.bstate = .running ∧ x'.respN ≤ x.respN + 1) ∨
              (x'.bstate = .completed ∧ x.respN + 1 = x.reqN) ∨
              (x'.bstate = .completed ∧ (activeI.filter (fun r2 => r2.ctx = r.ctx)).length = 1))
    (hresp : ∀ r2, (Map.get resps' r2).isSome → r2 = r ∨ (Map.get resps r2).isSome) :
    XInv cfg height (Map.set ctxs r.ctx x') expQ newQ expH newH usedIds reqs
      (FSet.rem activeB (x.svc, q.prov, q.expH, r)) (FSet.rem activeI r) resps' := by
  obtain ⟨x0, hx0, hxb⟩ := h.activeRunning r hact
  rw [hx] at hx0; injection hx0 with hx0; subst hx0
  have hcnt := h.counts r.ctx x hx hxb
  have hfl : ((FSet.rem activeI r).filter (fun r2 => r2.ctx = r.ctx)).length + 1 =
      (activeI.filter (fun r2 => r2.ctx = r.ctx)).length := by
    rw [FSet.rem_filter]
    exact FSet.rem_length _ r (List.Nodup.sublist List.filter_sublist h.activeNodup) (by simp [hact])
  have hget : ∀ c2 y, Map.get (Map.set ctxs r.ctx x') c2 = some y →
      (c2 = r.ctx ∧ y = x') ∨ (c2 ≠ r.ctx ∧ Map.get ctxs c2 = some y) := by
    intro c2 y hy
    rw [Map.get_set] at hy
    by_cases hc : r.ctx = c2
    · subst hc; simp at hy; left; exact ⟨rfl, hy.symm⟩
    · simp [hc] at hy; right; exact ⟨fun e => hc e.symm, hy⟩
  have hsome : ∀ c2, (Map.get (Map.set ctxs r.ctx x') c2).isSome = (Map.get ctxs c2).isSome := by
    intro c2
    rw [Map.get_set]
    by_cases hc : r.ctx = c2
    · subst hc; simp [hx]
    · simp [hc]
  -- when the batch is completed by this step, no other request of the context is pending
  have honly : x'.bstate = .completed → ∀ r2, r2 ∈ activeI → r2.ctx = r.ctx → r2 = r := by
    intro hb r2 hr2 hc2
    have hlen : (activeI.filter (fun r2 => r2.ctx = r.ctx)).length = 1 := by
      rcases hcount with ⟨hr, _⟩ | ⟨_, hc⟩ | ⟨_, hc⟩
      · rw [hr] at hb; cases hb
      · have : 1 ≤ (activeI.filter (fun r2 => r2.ctx = r.ctx)).length := by omega
        omega
      · exact hc
    exact List.eq_of_length_one _ hlen r2 r (by simp [hr2, hc2]) (by simp [hact])
  refine { h with ctxWF := ?_, ctxCons := ?_, newFuture := ?_, expFuture := ?_, runningQ := ?_, used := ?_,
                  reqCtx := ?_, activeReq := ?_, activeMirror := ?_, respReq := ?_, activeNodup := ?_,
                  bRunExp := ?_, activeRunning := ?_, counts := ?_ }
  · intro c2 y hy
    rcases hget c2 y hy with ⟨_, rfl⟩ | ⟨_, hy'⟩
    · exact hwf
    · exact h.ctxWF c2 y hy'
  · intro c2 y hy
    rcases hget c2 y hy with ⟨_, rfl⟩ | ⟨_, hy'⟩
    · rw [h1]; exact h.ctxCons _ x hx
    · exact h.ctxCons c2 y hy'
  · intro c2 hh hn
    have := h.newFuture c2 hh hn
    exact ⟨this.1, by rw [hsome]; exact this.2⟩
  · intro c2 hh hn
    have := h.expFuture c2 hh hn
    exact ⟨this.1, by rw [hsome]; exact this.2⟩
  · intro c2 y hy hr
    rcases hget c2 y hy with ⟨hc, rfl⟩ | ⟨_, hy'⟩
    · subst hc; exact h.runningQ _ x hx (by rw [← hst]; exact hr)
    · exact h.runningQ c2 y hy' hr
  · intro c2 hc2
    rw [hsome] at hc2; exact h.used c2 hc2
  · intro r2 q2 hq2
    obtain ⟨y, hy, hb, he⟩ := h.reqCtx r2 q2 hq2
    by_cases hc : r2.ctx = r.ctx
    · rw [hc] at hy; rw [hx] at hy; injection hy with hy; subst hy
      exact ⟨x', by rw [hc]; simp, by rw [h3]; exact hb, he⟩
    · exact ⟨y, by rw [Map.get_set_other _ _ _ _ (fun e => hc e.symm)]; exact hy, hb, he⟩
  · intro r2 hr2
    exact h.activeReq r2 ((FSet.mem_rem _ _ _).mp hr2).1
  · intro svc p e r2
    simp only [FSet.mem_rem]
    rw [h.activeMirror]
    constructor
    · rintro ⟨⟨hr2, q2, y, hq2, hy, e1, e2, e3⟩, hne⟩
      have hr2ne : r2 ≠ r := by
        intro e; subst e
        rw [hq] at hq2; injection hq2 with hq2; subst hq2
        rw [hx] at hy; injection hy with hy; subst hy
        apply hne; rw [e1, e2, e3]
      refine ⟨⟨hr2, hr2ne⟩, q2, ?_⟩
      by_cases hc : r2.ctx = r.ctx
      · rw [hc, hx] at hy; injection hy with hy; subst hy
        exact ⟨x', hq2, by rw [hc]; simp, by rw [h2]; exact e1, e2, e3⟩
      · exact ⟨y, hq2, by rw [Map.get_set_other _ _ _ _ (fun e => hc e.symm)]; exact hy, e1, e2, e3⟩
    · rintro ⟨⟨hr2, hr2ne⟩, q2, y, hq2, hy, e1, e2, e3⟩
      refine ⟨⟨hr2, q2, ?_⟩, ?_⟩
      · rcases hget _ y hy with ⟨hc, rfl⟩ | ⟨_, hy'⟩
        · exact ⟨x, hq2, by rw [hc]; exact hx, by rw [← h2]; exact e1, e2, e3⟩
        · exact ⟨y, hq2, hy', e1, e2, e3⟩
      · intro e
        injection e with _ e; injection e with _ e; injection e with _ e
        exact hr2ne e
  · intro r2 hr2
    rcases hresp r2 hr2 with rfl | hold
    · exact ⟨by rw [hq]; rfl, fun hm => ((FSet.mem_rem _ _ _).mp hm).2 rfl⟩
    · have := h.respReq r2 hold
      exact ⟨this.1, fun hm => this.2 ((FSet.mem_rem _ _ _).mp hm).1⟩
  · exact FSet.nodup_rem _ _ h.activeNodup
  · intro c2 y hy hb
    rcases hget c2 y hy with ⟨hc, rfl⟩ | ⟨_, hy'⟩
    · subst hc; exact h.bRunExp _ x hx hxb
    · exact h.bRunExp c2 y hy' hb
  · intro r2 hr2
    have hm := (FSet.mem_rem _ _ _).mp hr2
    obtain ⟨y, hy, hyb⟩ := h.activeRunning r2 hm.1
    by_cases hc : r2.ctx = r.ctx
    · -- same context: the batch must still be running, else r2 = r
      cases hb : x'.bstate with
      | running => exact ⟨x', by rw [hc]; simp, hb⟩
      | completed => exact absurd (honly hb r2 hm.1 hc) hm.2
    · exact ⟨y, by rw [Map.get_set_other _ _ _ _ (fun e => hc e.symm)]; exact hy, hyb⟩
  · intro c2 y hy hb
    rcases hget c2 y hy with ⟨hc, rfl⟩ | ⟨hne, hy'⟩
    · subst hc
      rcases hcount with ⟨_, hr⟩ | ⟨hcp, _⟩ | ⟨hcp, _⟩
      · rw [hreqN]; omega
      · rw [hcp] at hb; cases hb
      · rw [hcp] at hb; cases hb
    · have := h.counts c2 y hy' hb
      have hsame : (FSet.rem activeI r).filter (fun r2 => r2.ctx = c2) = activeI.filter (fun r2 => r2.ctx = c2) := by
        rw [FSet.rem_filter]
        apply FSet.rem_of_not_mem
        intro hm
        simp at hm
        exact hne hm.2.symm
      rw [hsame]; exact this

end SM
