import ServiceModel.Proofs.CbCount
import ServiceModel.Proofs.OnceRestart
/-!
# The two ghost-observer theorems (cadence C10, callback counting C12) over chains with zero-height restarts

A restart cancels whatever is in flight: the preparation refunds the pending requests and every context comes back
paused with its batch completed and the batch counter it had (`restart_ctxs`).

* **Cadence.** The observer forgets every tracked start at a restart (the flag stays as it is): a context must be
  started again by its consumer before it gets a batch, and that batch is not bound to the old schedule. `cad_reachableR`:
  the flag is never raised on a chain with any number of restarts.
* **Callbacks.** A batch in flight at the restart never gets its callback — it was cancelled. The observer carries a
  second counter `k`: the batches of a module's context cancelled by a restart. `cbokR_reachableR`: callbacks so far +
  batches cancelled by a restart + (1 if a batch is in flight) = batches started.
-/
namespace SM
open Map

/-! ### cadence -/

inductive GReachR (cfg : Config) (p : Params) (h0 t0 : Int) : State → Ghost → Prop
  | init : GReachR cfg p h0 t0 (genesis cfg p h0 t0) Ghost.init
  | step {s : State} {g : Ghost} (op : Op) : GReachR cfg p h0 t0 s g → WF s op →
      GReachR cfg p h0 t0 (step s op).1 (gstep g s op)
  | restart {s s' : State} {g : Ghost} (height time : Int) : GReachR cfg p h0 t0 s g →
      SM.restart s height time = some s' → GReachR cfg p h0 t0 s' ⟨[], g.bad⟩

theorem GReachR.state_reachable {cfg : Config} {p : Params} {h0 t0 : Int} {s : State} {g : Ghost}
    (hr : GReachR cfg p h0 t0 s g) : ReachableR cfg p h0 t0 s := by
  induction hr with
  | init => exact ReachableR.init
  | step op _ hw ih => exact ReachableR.step op ih hw
  | restart height time _ hre ih => exact ReachableR.restart height time ih hre

theorem reachableR_has_ghost {cfg : Config} {p : Params} {h0 t0 : Int} {s : State}
    (hr : ReachableR cfg p h0 t0 s) : ∃ g, GReachR cfg p h0 t0 s g := by
  induction hr with
  | init => exact ⟨_, GReachR.init⟩
  | step op _ hw ih => obtain ⟨g, hg⟩ := ih; exact ⟨_, GReachR.step op hg hw⟩
  | restart height time _ hre ih => obtain ⟨g, hg⟩ := ih; exact ⟨_, GReachR.restart height time hg hre⟩

/-- a chain without restarts is a chain -/
theorem GReach.toR {cfg : Config} {p : Params} {h0 t0 : Int} {s : State} {g : Ghost}
    (hr : GReach cfg p h0 t0 s g) : GReachR cfg p h0 t0 s g := by
  induction hr with
  | init => exact GReachR.init
  | step op _ hw ih => exact GReachR.step op ih hw

theorem cad_reachableR {cfg : Config} {p : Params} {h0 t0 : Int} (hc : CfgOK cfg p) {s : State} {g : Ghost}
    (hr : GReachR cfg p h0 t0 s g) : CadOK s g := by
  induction hr with
  | init => exact ⟨rfl, fun c L hL => by simp [Ghost.init] at hL⟩
  | @step s g op hr' hw ih => exact gstep_cad s op (reachableR_invAll hc hr'.state_reachable).inv hw g ih
  | @restart s s' g height time hr' hre ih => exact ⟨ih.1, fun c L hL => by simp [Map.get] at hL⟩

/-! ### callbacks -/

/-- batches of module contexts that a restart cancels: one for every module context whose batch is in flight -/
def cancelled (s : State) (c : CtxId) : Nat :=
  match get s.ctxs c with
  | some x => if x.mod ≠ "" ∧ x.bstate = .running then 1 else 0
  | none => 0

def CbOKR (s : State) (n k : CtxId → Nat) : Prop :=
  (∀ c, c ∉ s.usedIds → n c = 0 ∧ k c = 0) ∧
  ∀ c x, get s.ctxs c = some x → x.mod ≠ "" → n c + k c + (if x.bstate = .running then 1 else 0) = x.batch

theorem CbOKR.toCbOK {s : State} {n k : CtxId → Nat} (h : CbOKR s n k) : CbOK s (fun c => n c + k c) :=
  ⟨fun c hc => by have := h.1 c hc; show n c + k c = 0; omega, fun c x hx hm => h.2 c x hx hm⟩

theorem CbOKR.ofCbOK {s : State} {n k : CtxId → Nat} (hk0 : ∀ c, c ∉ s.usedIds → k c = 0)
    (h : CbOK s (fun c => n c + k c)) : CbOKR s n k :=
  ⟨fun c hc => by have : n c + k c = 0 := h.1 c hc; exact ⟨by omega, hk0 c hc⟩, fun c x hx hm => h.2 c x hx hm⟩

theorem step_cbokR (s : State) (op : Op) (h : Inv s) (hw : WF s op) (n k : CtxId → Nat) (hk : CbOKR s n k) :
    CbOKR (step s op).1 (fun c => n c + cbCount c (step s op).2.2) k := by
  have h1 := step_cbok s op h hw _ hk.toCbOK
  have hu : ∀ c, c ∈ s.usedIds → c ∈ (step s op).1.usedIds := by
    rcases step_state s op with e | ⟨e, _, _⟩
    · rw [e]; exact fun _ h => h
    · rw [e]; exact (exec_aorig s op h).1
  refine CbOKR.ofCbOK (fun c hc => (hk.1 c (fun hin => hc (hu c hin))).2) (h1.congr (fun c => ?_))
  show n c + cbCount c (step s op).2.2 + k c = n c + k c + cbCount c (step s op).2.2
  omega

theorem restart_cbokR {s s' : State} (hall : InvAll s) {height time : Int} (hre : restart s height time = some s')
    (n k : CtxId → Nat) (hk : CbOKR s n k) : CbOKR s' n (fun c => k c + cancelled s c) := by
  obtain ⟨_, f2⟩ := restart_fields hre
  refine ⟨fun c hc => ?_, fun c y hy hm => ?_⟩
  · rw [f2] at hc
    obtain ⟨a, b⟩ := hk.1 c hc
    refine ⟨a, ?_⟩
    show k c + cancelled s c = 0
    have : get s.ctxs c = none := by
      cases hx : get s.ctxs c with
      | none => rfl
      | some x => exact absurd (hall.inv.x.used c (by rw [hx]; rfl)) hc
    unfold cancelled; rw [this, b]; rfl
  · have e := restart_ctxs hall hre c
    rw [hy] at e
    cases hx : get s.ctxs c with
    | none => rw [hx] at e; cases e
    | some x =>
      rw [hx] at e
      simp only [Option.map_some, Option.some.injEq] at e
      subst e
      have hm' : x.mod ≠ "" := hm
      have := hk.2 c x hx hm'
      show n c + (k c + cancelled s c) + (if (resetCtx x).bstate = .running then 1 else 0) = (resetCtx x).batch
      have e1 : (resetCtx x).bstate = .completed := rfl
      have e2 : (resetCtx x).batch = x.batch := rfl
      rw [e1, e2]
      unfold cancelled; rw [hx]
      by_cases hb : x.bstate = .running
      · simp only [hb, hm', ne_eq, not_false_eq_true, and_self, if_true] at this ⊢
        simp; omega
      · simp only [hb, if_false, and_false] at this ⊢
        simp; omega

/-- chains with restarts, with the callbacks invoked so far (`n`) and the batches cancelled by a restart (`k`) -/
inductive CReachR (cfg : Config) (p : Params) (h0 t0 : Int) : State → (CtxId → Nat) → (CtxId → Nat) → Prop
  | init : CReachR cfg p h0 t0 (genesis cfg p h0 t0) (fun _ => 0) (fun _ => 0)
  | step {s : State} {n k : CtxId → Nat} (op : Op) : CReachR cfg p h0 t0 s n k → WF s op →
      CReachR cfg p h0 t0 (step s op).1 (fun c => n c + cbCount c (step s op).2.2) k
  | restart {s s' : State} {n k : CtxId → Nat} (height time : Int) : CReachR cfg p h0 t0 s n k →
      SM.restart s height time = some s' → CReachR cfg p h0 t0 s' n (fun c => k c + cancelled s c)

theorem CReachR.state_reachable {cfg : Config} {p : Params} {h0 t0 : Int} {s : State} {n k : CtxId → Nat}
    (hr : CReachR cfg p h0 t0 s n k) : ReachableR cfg p h0 t0 s := by
  induction hr with
  | init => exact ReachableR.init
  | step op _ hw ih => exact ReachableR.step op ih hw
  | restart height time _ hre ih => exact ReachableR.restart height time ih hre

theorem reachableR_has_count {cfg : Config} {p : Params} {h0 t0 : Int} {s : State}
    (hr : ReachableR cfg p h0 t0 s) : ∃ n k, CReachR cfg p h0 t0 s n k := by
  induction hr with
  | init => exact ⟨_, _, CReachR.init⟩
  | step op _ hw ih => obtain ⟨n, k, hn⟩ := ih; exact ⟨_, _, CReachR.step op hn hw⟩
  | restart height time _ hre ih => obtain ⟨n, k, hn⟩ := ih; exact ⟨_, _, CReachR.restart height time hn hre⟩

theorem cbokR_reachableR {cfg : Config} {p : Params} {h0 t0 : Int} (hc : CfgOK cfg p) {s : State} {n k : CtxId → Nat}
    (hr : CReachR cfg p h0 t0 s n k) : CbOKR s n k := by
  induction hr with
  | init => exact ⟨fun _ _ => ⟨rfl, rfl⟩, fun c x hx => by simp [genesis] at hx⟩
  | @step s n k op hr' hw ih => exact step_cbokR s op (reachableR_invAll hc hr'.state_reachable).inv hw n k ih
  | @restart s s' n k height time hr' hre ih =>
    exact restart_cbokR (reachableR_invAll hc hr'.state_reachable) hre n k ih

/-- without a restart nothing is ever cancelled -/
theorem CReachR.of_no_restart {cfg : Config} {p : Params} {h0 t0 : Int} {s : State} {n : CtxId → Nat}
    (hr : CReach cfg p h0 t0 s n) : CReachR cfg p h0 t0 s n (fun _ => 0) := by
  induction hr with
  | init => exact CReachR.init
  | step op _ hw ih => exact CReachR.step op ih hw

/-! ### the total of a repeated context over restarts (C10) -/

/-- a restart gives every context back with its counter, total and repetition flag, so the bound is kept; the steps in
    between keep it as they do on a chain without restarts -/
theorem totBoundedR {cfg : Config} {p : Params} {h0 t0 : Int} (hc : CfgOK cfg p) {s : State}
    (hr : ReachableR cfg p h0 t0 s) : ∀ c x, Map.get s.ctxs c = some x → TotBound x := by
  induction hr with
  | init => intro c x hx; simp [genesis, Map.get] at hx
  | @step s op hr' hw ih =>
    intro c y hy
    rcases step_ctx_origin (reachableR_invAll hc hr').inv op hw c y hy with ⟨x, hx, he⟩ | ⟨_, hb, _⟩
    · exact he.bnd (ih c x hx)
    · intro _ hpos; rw [hb]; exact Int.le_of_lt hpos
  | @restart s s' height time hr' hre ih =>
    intro c y hy
    have e := restart_ctxs (reachableR_invAll hc hr') hre c
    rw [hy] at e
    cases hx : get s.ctxs c with
    | none => rw [hx] at e; cases e
    | some x =>
      rw [hx] at e
      simp only [Option.map_some, Option.some.injEq] at e
      subst e
      exact ih c x hx

end SM
