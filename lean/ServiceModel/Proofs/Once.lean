import ServiceModel.Proofs.CountEq
/-!
# C02 / C08: a request is pending at most once in a history

A request that has stopped being pending (answered, or expired) is `Spent`: its context id is used, and the
context — if it still exists — has a batch counter at least the request's batch number. `Spent` is kept by every
well-formed step: new pending requests are only created by the new-batch handler, for an existing context, with a
batch number above that context's counter (which never decreases), and a context id is never used twice (E7).
Since a settlement (by a response or by the expiry) needs the request to be pending, each request is settled at
most once in every history.
-/
namespace SM
open Map

/-- where pending requests come from in a step, and that used context ids stay used -/
def AOrig (s s' : State) : Prop :=
  (∀ c, c ∈ s.usedIds → c ∈ s'.usedIds) ∧
  (∀ r, r ∈ s'.activeI → r ∈ s.activeI ∨ ∃ x, get s.ctxs r.ctx = some x ∧ x.batch < r.batch)

theorem AOrig.refl (s : State) : AOrig s s := ⟨fun _ h => h, fun _ h => Or.inl h⟩

theorem aorig_of_eq {s s' : State} (h1 : s'.usedIds = s.usedIds) (h2 : s'.activeI = s.activeI) : AOrig s s' :=
  ⟨fun c h => by rw [h1]; exact h, fun r h => Or.inl (by rw [← h2]; exact h)⟩

/-- pending requests only disappear -/
theorem aorig_of_subset {s s' : State} (h1 : s'.usedIds = s.usedIds) (h2 : ∀ r, r ∈ s'.activeI → r ∈ s.activeI) : AOrig s s' :=
  ⟨fun c h => by rw [h1]; exact h, fun r h => Or.inl (h2 r h)⟩

theorem AOrig.trans {a b c : State} (h1 : AOrig a b) (he : CtxsEvol a b) (h2 : AOrig b c) : AOrig a c := by
  refine ⟨fun k h => h2.1 k (h1.1 k h), fun r hr => ?_⟩
  rcases h2.2 r hr with hb | ⟨y, hy, hlt⟩
  · exact h1.2 r hb
  · obtain ⟨x, hx, hev⟩ := he r.ctx y hy
    exact Or.inr ⟨x, hx, Nat.lt_of_le_of_lt hev.batch hlt⟩

/-! ### the two end-of-block handlers -/
theorem expirePending_subset (s : State) (c : CtxId) (x : Ctx) (h : Inv s) (hx : get s.ctxs c = some x)
    (hnp : (expirePending s c x).1.panic = none) :
    ∀ r, r ∈ (expirePending s c x).1.s.activeI → r ∈ s.activeI := by
  unfold expirePending at hnp ⊢
  split
  · rename_i hb
    rw [if_pos hb] at hnp
    dsimp only at hnp ⊢
    have hids : ∀ r, r ∈ sortReqIds (s.activeI.filter (fun r => r.ctx = c ∧ r.batch = x.batch)) → r ∈ s.activeI ∧ r.ctx = c := by
      intro r hr
      rw [mem_sortReqIds] at hr
      have := List.mem_filter.mp hr
      simp only [decide_eq_true_eq] at this
      exact ⟨this.1, this.2.1⟩
    have hnd := nodup_sortReqIds _ (List.Nodup.sublist (List.filter_sublist (p := fun r => decide (r.ctx = c ∧ r.batch = x.batch))) h.x.activeNodup)
    obtain ⟨_, _, i3⟩ := expireFold_inv x c _ s h hx hids hnd hnp
    intro r hr
    exact ((i3 r).mp hr).1
  · intro r hr; exact hr

theorem expireTail_used (s : State) (c : CtxId) (x1 : Ctx) : (expireTail s c x1).1.usedIds = s.usedIds := by
  unfold expireTail
  dsimp only
  cases x1.state with
  | running => dsimp only; split <;> rfl
  | paused => rfl
  | completed => rfl

theorem expireBatch_aorig (s : State) (c : CtxId) (h : Inv s) (hnp : (expireBatch s c).panic = none) :
    AOrig s (expireBatch s c).s := by
  unfold expireBatch at hnp ⊢
  split
  · exact AOrig.refl s
  · rename_i hq
    rw [if_neg hq] at hnp
    have hmem : (s.height, c) ∈ s.expQ := by simpa using hq
    have hexp := (h.x.expMirror s.height c).mp hmem
    cases hx : get s.ctxs c with
    | none => have := (h.x.expFuture c s.height hexp).2; rw [hx] at this; simp at this
    | some x =>
      rw [hx] at hnp
      dsimp only at hnp ⊢
      rcases Option.eq_none_or_eq_some (expirePending s c x).1.panic with hp | ⟨m, hp⟩
      · simp only [hp]
        obtain ⟨_, i2, _⟩ := expirePending_spec s c x h hx hp
        have hsub := expirePending_subset s c x h hx hp
        obtain ⟨t1, _, _⟩ := expireTail_ctxs_active (expirePending s c x).1.s c (expirePending s c x).2
        refine aorig_of_subset ?_ ?_
        · show (expireTail (expirePending s c x).1.s c (expirePending s c x).2).1.usedIds = s.usedIds
          rw [expireTail_used]; exact i2.2.2.2.2.2.2.2.2.2.1
        · intro r hr
          have hr' : r ∈ (expireTail (expirePending s c x).1.s c (expirePending s c x).2).1.activeI := hr
          rw [t1] at hr'; exact hsub r hr'
      · simp only [hp] at hnp; cases hnp

theorem issueBatch_used (s : State) (bank' : Bank) (c : CtxId) (x : Ctx) (el : List (Addr × Nat)) (ep : List Effect) :
    (issueBatch s bank' c x el ep).1.usedIds = s.usedIds := by
  unfold issueBatch
  dsimp only [addExpQ, setCtx]
  exact issueReqs_proj (·.usedIds) (fun _ _ _ _ _ _ _ => rfl) _ c x el 0

theorem newBatch_aorig (s : State) (c : CtxId) (h : Inv s) : AOrig s (newBatch s c).s := by
  unfold newBatch
  split
  · exact AOrig.refl s
  · rename_i hq
    have hmem : (s.height, c) ∈ s.newQ := by simpa using hq
    have hdue := (h.x.newMirror s.height c).mp hmem
    cases hx : get s.ctxs c with
    | none => exact aorig_of_eq rfl rfl
    | some x =>
      dsimp only
      obtain ⟨_, _, _, hnoact⟩ := h.x.dueFacts hx hdue
      split
      · exact aorig_of_eq rfl rfl
      · split
        · exact aorig_of_eq rfl rfl
        · have hissue : ∀ (bank' : Bank) (el : List (Addr × Nat)) (ep : List Effect),
              AOrig s (delNewQ (issueBatch s bank' c x el ep).1 c s.height) := by
            intro bank' el ep
            have hAI : (issueBatch s bank' c x el ep).1.activeI = s.activeI ++ Map.keys (issuedPairs c x s.height el 0) := by
              rw [issueBatch_activeI]
              exact issueReqs_activeI { s with bank := bank' } c x el 0 (fun r hr hh => hnoact r hr hh.1)
            refine ⟨fun k hk => ?_, fun r hr => ?_⟩
            · show k ∈ (issueBatch s bank' c x el ep).1.usedIds
              rw [issueBatch_used]; exact hk
            · have hr' : r ∈ (issueBatch s bank' c x el ep).1.activeI := hr
              rw [hAI, List.mem_append] at hr'
              rcases hr' with hr' | hr'
              · exact Or.inl hr'
              · obtain ⟨⟨r2, q⟩, hm, hk⟩ := List.mem_map.mp hr'
                simp only at hk; subst hk
                obtain ⟨_, i2, i3, _⟩ := issuedPairs_index hm
                exact Or.inr ⟨x, by rw [i2]; exact hx, by rw [i3]; exact Nat.lt_succ_self _⟩
          show AOrig s (delNewQ (startOrSkip s c x).1 c s.height)
          unfold startOrSkip
          split
          · split
            · exact hissue _ _ _
            · cases hb : bankSend s.bank x.cons s.cfg.escrow (sumPrices (eligible s x)) with
              | some bk => exact hissue _ _ _
              | none => exact aorig_of_eq rfl rfl
          · exact aorig_of_eq rfl rfl

theorem foldH_aorig {α : Type} (hd : State → α → HRes)
    (hP : ∀ s a, Inv s → (hd s a).panic = none → Inv (hd s a).s)
    (hE : ∀ s a, Inv s → (hd s a).panic = none → CtxsEvol s (hd s a).s)
    (hA : ∀ s a, Inv s → (hd s a).panic = none → AOrig s (hd s a).s)
    (l : List α) (s : State) (hs : Inv s) (hnp : (foldH hd s l).panic = none) : AOrig s (foldH hd s l).s := by
  induction l generalizing s with
  | nil => exact AOrig.refl s
  | cons a rest ih =>
    obtain ⟨hp1, hp2, hss⟩ := foldH_cons_nopanic _ s a rest hnp
    rw [hss]
    exact (hA s a hs hp1).trans (hE s a hs hp1) (ih (hd s a).s (hP s a hs hp1) hp2)

theorem endBlock_aorig (s : State) (dt : Int) (h : Inv s) (hnp : (endBlock s dt).panic = none) :
    AOrig s (endBlock s dt).s := by
  unfold endBlock at hnp ⊢
  dsimp only at hnp ⊢
  rcases Option.eq_none_or_eq_some (foldH expireBatch s (queuedAt s.expQ s.height)).panic with hp1 | ⟨m, hp1⟩
  · simp only [hp1] at hnp ⊢
    have a1 := foldH_aorig expireBatch (fun s a hs hp => expireBatch_inv s a hs hp)
      (fun s a hs hp => expireBatch_evol s a hs hp) (fun s a hs hp => expireBatch_aorig s a hs hp) _ s h hp1
    have e1 := foldH_evol expireBatch Inv (fun s a hs hp => expireBatch_inv s a hs hp)
      (fun s a hs hp => expireBatch_evol s a hs hp) _ s h hp1
    have i1 := foldH_inv expireBatch Inv (fun s a hs hp => expireBatch_inv s a hs hp) _ s h hp1
    rcases Option.eq_none_or_eq_some
        (foldH newBatch (foldH expireBatch s (queuedAt s.expQ s.height)).s
          (queuedAt (foldH expireBatch s (queuedAt s.expQ s.height)).s.newQ
            (foldH expireBatch s (queuedAt s.expQ s.height)).s.height)).panic with hp2 | ⟨m, hp2⟩
    · simp only [hp2] at hnp ⊢
      have a2 := foldH_aorig newBatch (fun s a hs _ => newBatch_inv s a hs)
        (fun s a hs _ => newBatch_evol s a hs) (fun s a hs _ => newBatch_aorig s a hs) _ _ i1 hp2
      have e2 := foldH_evol newBatch Inv (fun s a hs _ => newBatch_inv s a hs)
        (fun s a hs _ => newBatch_evol s a hs) _ _ i1 hp2
      exact a1.trans e1 (a2.trans e2 (aorig_of_eq rfl rfl))
    · simp only [hp2] at hnp; cases hnp
  · simp only [hp1] at hnp; cases hnp

/-! ### the messages -/
theorem ctxK_aorig_pause (s : State) (c : CtxId) (cons : Addr) : AOrig s (pauseK s c cons).1 := by
  unfold pauseK; repeat' split
  all_goals exact aorig_of_eq rfl rfl

theorem ctxK_aorig_kill (s : State) (c : CtxId) (cons : Addr) : AOrig s (killK s c cons).1 := by
  unfold killK; repeat' split
  all_goals exact aorig_of_eq rfl rfl

theorem ctxK_aorig_start (s : State) (c : CtxId) (cons : Addr) : AOrig s (startK s c cons).1 := by
  unfold startK; dsimp only; repeat' split
  all_goals exact aorig_of_eq rfl rfl

theorem ctxK_aorig_update (s : State) (c : CtxId) (cons : Addr) (provs : List Addr) (thr : Nat) (cap : Option Nat)
    (timeout : Int) (freq : Nat) (total : Int) : AOrig s (updateK s c cons provs thr cap timeout freq total).1 := by
  unfold updateK; repeat' split
  all_goals exact aorig_of_eq rfl rfl

theorem ctxMsg_aorig (s : State) (c : CtxId) (cons : Addr) (k : State → Out) (hks : AOrig s (k s).1) :
    AOrig s (ctxMsg s c cons k).1 := by
  unfold ctxMsg; split
  · exact AOrig.refl s
  · exact hks

theorem createCtx_aorig (s : State) (id : CtxId) (mod : ModName) (svc : SvcName) (provs : List Addr) (cons : Addr)
    (cap : Option Nat) (timeout : Int) (super rep : Bool) (freq : Nat) (total : Int) (inputOk running : Bool) (thr : Nat) :
    AOrig s (createCtx s id mod svc provs cons cap timeout super rep freq total inputOk running thr).1 := by
  unfold createCtx; dsimp only
  repeat' split
  all_goals first
    | exact AOrig.refl s
    | exact ⟨fun c hc => by simp [setCtx, addNewQ, hc], fun r hr => Or.inl (by simpa [setCtx, addNewQ] using hr)⟩

theorem respond_aorig (s : State) (r : ReqId) (pv : Addr) (code : Nat) (out : OutKind) :
    AOrig s (respond s r pv code out).1 := by
  unfold respond
  cases hq : get s.reqs r with
  | none => exact AOrig.refl s
  | some q =>
    dsimp only
    cases hx : get s.ctxs r.ctx with
    | none => exact AOrig.refl s
    | some x =>
      dsimp only
      split; · exact AOrig.refl s
      split; · exact AOrig.refl s
      cases hs : settle s r x.svc x.cons q pv out with
      | error res => exact AOrig.refl s
      | ok res =>
        obtain ⟨s1, e1⟩ := res
        dsimp only
        obtain ⟨bank', bs, ea, oe, hshape, _⟩ := settle_shape hs
        subst hshape
        split
        all_goals
          refine aorig_of_subset rfl (fun r2 hr2 => ?_)
          have hr2' : r2 ∈ FSet.rem s.activeI r := hr2
          exact ((FSet.mem_rem _ _ _).mp hr2').1

theorem withdraw_used_activeI (s : State) (o p : Addr) :
    (withdraw s o p).1.usedIds = s.usedIds ∧ (withdraw s o p).1.activeI = s.activeI := by
  unfold withdraw
  split; · exact ⟨rfl, rfl⟩
  cases hw : withdrawRecords s o p with
  | error r => exact ⟨rfl, rfl⟩
  | ok res =>
    obtain ⟨s1, amt⟩ := res
    dsimp only
    have h1 : s1.usedIds = s.usedIds ∧ s1.activeI = s.activeI := by
      unfold withdrawRecords at hw
      repeat' split at hw
      all_goals first
        | (cases hw; done)
        | (simp only [Except.ok.injEq, Prod.mk.injEq] at hw; obtain ⟨e1, _⟩ := hw; subst e1; exact ⟨rfl, rfl⟩)
    split; · exact ⟨rfl, rfl⟩
    split
    · exact ⟨rfl, rfl⟩
    · exact h1

theorem exec_aorig (s : State) (op : Op) (h : Inv s) : AOrig s (exec s op).1 := by
  cases op with
  | fund a n => exact aorig_of_eq rfl rfl
  | xfer a b n =>
    show AOrig s (match bankSend s.bank a b n with
      | none => fail s Err.insufficientFunds
      | some bank' => ({ s with bank := bank' }, Res.ok, [])).1
    split
    · exact AOrig.refl s
    · exact aorig_of_eq rfl rfl
  | define n a ok => show AOrig s (define s n a).1; unfold define; split <;> exact aorig_of_eq rfl rfl
  | bind svc p o dep text qos =>
    cases text with
    | none => exact AOrig.refl s
    | some t =>
      have hf := bind_frame s svc p o dep t qos
      exact aorig_of_eq hf.2.2.2.2.2.2.2.2.1 hf.2.2.2.2.2.2.2.2.2.2.2.1
  | update svc p o dep text qos =>
    have hf := update_frame s svc p o dep text qos
    exact aorig_of_eq hf.2.2.2.2.2.2.2.2.1 hf.2.2.2.2.2.2.2.2.2.2.2.1
  | setwd o a => exact aorig_of_eq rfl rfl
  | disable svc p o =>
    have hf := disable_frame s svc p o
    exact aorig_of_eq hf.2.2.2.2.2.2.2.2.1 hf.2.2.2.2.2.2.2.2.2.2.2.1
  | enable svc p o dep =>
    have hf := enable_frame s svc p o dep
    exact aorig_of_eq hf.2.2.2.2.2.2.2.2.1 hf.2.2.2.2.2.2.2.2.2.2.2.1
  | refund svc p o =>
    have hf := refund_frame s svc p o
    exact aorig_of_eq hf.2.2.2.2.2.2.2.2.1 hf.2.2.2.2.2.2.2.2.2.2.2.1
  | call id svc provs cons cap timeout super rep freq total inputOk =>
    show AOrig s (if s.cfg.modsvc = some svc then panicOut s "module-service call: outside the model"
      else createCtx s id "" svc provs cons cap timeout super rep freq total inputOk true 0).1
    split
    · exact AOrig.refl s
    · exact createCtx_aorig s id "" svc provs cons cap timeout super rep freq total inputOk true 0
  | modcreate id mod svc provs cons cap timeout super rep freq total inputOk running thr =>
    exact createCtx_aorig s id mod svc provs cons cap timeout super rep freq total inputOk running thr
  | respond r p code out => exact respond_aorig s r p code out
  | pause c cons => exact ctxMsg_aorig s c cons _ (ctxK_aorig_pause s c cons)
  | start c cons => exact ctxMsg_aorig s c cons _ (ctxK_aorig_start s c cons)
  | kill c cons => exact ctxMsg_aorig s c cons _ (ctxK_aorig_kill s c cons)
  | updatectx c cons provs cap timeout freq total =>
    exact ctxMsg_aorig s c cons _ (ctxK_aorig_update s c cons provs 0 cap timeout freq total)
  | modpause c cons => exact ctxK_aorig_pause s c cons
  | modstart c cons => exact ctxK_aorig_start s c cons
  | modkill c cons => exact ctxK_aorig_kill s c cons
  | modupdate c cons provs thr cap timeout freq total => exact ctxK_aorig_update s c cons provs thr cap timeout freq total
  | withdraw o p => exact aorig_of_eq (withdraw_used_activeI s o p).1 (withdraw_used_activeI s o p).2
  | endblock dt =>
    show AOrig s (match (endBlock s dt).panic with
        | some m => (s, Res.panic m, (endBlock s dt).effs)
        | none => ((endBlock s dt).s, Res.ok, (endBlock s dt).effs)).1
    rcases Option.eq_none_or_eq_some (endBlock s dt).panic with hp | ⟨m, hp⟩
    · simp only [hp]; exact endBlock_aorig s dt h hp
    · simp only [hp]; exact AOrig.refl s

theorem step_aorig (s : State) (op : Op) (h : Inv s) : AOrig s (step s op).1 := by
  rcases step_state s op with h1 | ⟨h1, _, _⟩
  · rw [h1]; exact AOrig.refl s
  · rw [h1]; exact exec_aorig s op h

/-! ### spent requests -/

/-- a request that can never be pending again -/
def Spent (s : State) (r : ReqId) : Prop :=
  r ∉ s.activeI ∧ r.ctx ∈ s.usedIds ∧ (∀ x, get s.ctxs r.ctx = some x → r.batch ≤ x.batch)

/-- `Spent` is kept by every well-formed step -/
theorem spent_step {s : State} (h : Inv s) (op : Op) (hw : WF s op) (r : ReqId) (hs : Spent s r) :
    Spent (step s op).1 r := by
  obtain ⟨h1, h2, h3⟩ := hs
  obtain ⟨a1, a2⟩ := step_aorig s op h
  refine ⟨fun hm => ?_, a1 _ h2, fun y hy => ?_⟩
  · rcases a2 r hm with hold | ⟨x, hx, hlt⟩
    · exact h1 hold
    · have := h3 x hx; omega
  · rcases step_ctx_origin h op hw r.ctx y hy with ⟨x, hx, hev⟩ | ⟨hfresh, _, _⟩
    · exact Nat.le_trans (h3 x hx) hev.batch
    · exact absurd h2 hfresh

/-- a request that stops being pending in a step is spent afterwards -/
theorem spent_of_deactivated {s : State} (h : Inv s) (op : Op) (hw : WF s op) (r : ReqId)
    (hact : r ∈ s.activeI) (hgone : r ∉ (step s op).1.activeI) : Spent (step s op).1 r := by
  obtain ⟨q, hq⟩ : ∃ q, get s.reqs r = some q := by
    cases hh : get s.reqs r with
    | none => have := h.x.activeReq r hact; rw [hh] at this; simp at this
    | some q => exact ⟨q, rfl⟩
  obtain ⟨x, hx, hb, _⟩ := h.x.reqCtx r q hq
  have hused := h.x.used r.ctx (by rw [hx]; rfl)
  refine ⟨hgone, (step_aorig s op h).1 _ hused, fun y hy => ?_⟩
  rcases step_ctx_origin h op hw r.ctx y hy with ⟨x', hx', hev⟩ | ⟨hfresh, _, _⟩
  · rw [hx] at hx'; injection hx' with hx'; subst hx'
    rw [hb]; exact hev.batch
  · exact absurd hused hfresh

/-- well-formed continuations of a history -/
inductive Leads : State → State → Prop
  | refl (s : State) : Leads s s
  | step {s s' : State} (op : Op) : WF s op → Leads (step s op).1 s' → Leads s s'

theorem reachable_of_leads {cfg : Config} {p : Params} {h0 t0 : Int} {s s' : State}
    (hr : Reachable cfg p h0 t0 s) (hl : Leads s s') : Reachable cfg p h0 t0 s' := by
  induction hl with
  | refl s => exact hr
  | step op hw _ ih => exact ih (Reachable.step op hr hw)

theorem spent_leads {cfg : Config} {p : Params} {h0 t0 : Int} (hc : CfgOK cfg p) {s s' : State}
    (hr : Reachable cfg p h0 t0 s) (hl : Leads s s') (r : ReqId) (hs : Spent s r) : Spent s' r := by
  induction hl with
  | refl s => exact hs
  | step op hw _ ih => exact ih (Reachable.step op hr hw) (spent_step (reachable_inv hc hr) op hw r hs)

end SM
