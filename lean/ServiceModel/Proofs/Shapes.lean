import ServiceModel.Proofs.StepLemmas
/-!
# Shape lemmas: which components a helper changes, as explicit record equations
-/
namespace SM

/-- unfold an operation and split every branch -/
macro "op_split" f:ident : tactic => `(tactic| (unfold $f; (try dsimp only); repeat' split))

theorem slash_shape {s s1 : State} {r : ReqId} {svc : SvcName} {p : Addr} {e : List Effect}
    (h : slash s r svc p = .done s1 e) :
    s1 = s ∨ ∃ bank' b', s1 = { s with bank := bank', bindings := Map.set s.bindings (svc, p) b' } := by
  unfold slash at h; dsimp only at h
  repeat' split at h
  all_goals first
    | (simp at h; done)
    | (injection h with h1 h2; subst h1; first | (left; rfl) | (right; exact ⟨_, _, rfl⟩))

theorem addEarned_shape {s s1 : State} {p : Addr} {fee : Nat} {e : List Effect}
    (h : addEarned s p fee = some (s1, e)) :
    ∃ bank' ea oe, s1 = { s with bank := bank', earned := ea, ownerEarned := oe } := by
  unfold addEarned at h; dsimp only at h
  repeat' split at h
  all_goals first
    | (simp at h; done)
    | (simp only [Option.some.injEq, Prod.mk.injEq] at h; obtain ⟨h1, _⟩ := h; subst h1; exact ⟨_, _, _, rfl⟩)

end SM
