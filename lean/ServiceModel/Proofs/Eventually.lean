import ServiceModel.Proofs.CbCount
/-!
# C11: every pending request is gone once its expiry block has ended

`expiry_block_clears`: the end of block `H` leaves no request pending whose expiry height is `H`.
`pending_bounded`: along every well-formed continuation of every history, a request that is still pending has not
passed its expiry height — so, since every block raises the height by one, it is answered or expired (and then
settled, C02) after at most `expiry − height + 1` further blocks.
-/
namespace SM
open Map

/-- the expiry handler of a due entry leaves no pending request of its context -/
theorem expireBatch_clears (s : State) (c : CtxId) (h : Inv s) (hnp : (expireBatch s c).panic = none)
    (hmem : (s.height, c) ∈ s.expQ) : ∀ r, r ∈ (expireBatch s c).s.activeI → r.ctx ≠ c := by
  unfold expireBatch at hnp ⊢
  rw [if_neg (by simpa using hmem)] at hnp ⊢
  have hexp := (h.x.expMirror s.height c).mp hmem
  cases hx : get s.ctxs c with
  | none => have := (h.x.expFuture c s.height hexp).2; rw [hx] at this; simp at this
  | some x =>
    rw [hx] at hnp
    dsimp only at hnp ⊢
    rcases Option.eq_none_or_eq_some (expirePending s c x).1.panic with hp | ⟨m, hp⟩
    · simp only [hp]
      obtain ⟨_, _, i3, _⟩ := expirePending_spec s c x h hx hp
      obtain ⟨t1, _, _⟩ := expireTail_ctxs_active (expirePending s c x).1.s c (expirePending s c x).2
      intro r hr
      have hr' : r ∈ (expireTail (expirePending s c x).1.s c (expirePending s c x).2).1.activeI := hr
      rw [t1] at hr'
      exact i3 r hr'
    · simp only [hp] at hnp; cases hnp

/-- the expiry handler never makes a request pending -/
theorem expireBatch_subset (s : State) (a : CtxId) (h : Inv s) (hnp : (expireBatch s a).panic = none) :
    ∀ r, r ∈ (expireBatch s a).s.activeI → r ∈ s.activeI := by
  intro r2 h2
  unfold expireBatch at h2 hnp
  split at h2
  · exact h2
  · rename_i hq
    rw [if_neg hq] at hnp
    cases hxx : get s.ctxs a with
    | none => rw [hxx] at h2; exact h2
    | some xx =>
      rw [hxx] at h2 hnp
      dsimp only at h2 hnp
      rcases Option.eq_none_or_eq_some (expirePending s a xx).1.panic with hp2 | ⟨m, hp2⟩
      · simp only [hp2] at h2
        obtain ⟨t1, _, _⟩ := expireTail_ctxs_active (expirePending s a xx).1.s a (expirePending s a xx).2
        have h2' : r2 ∈ (expireTail (expirePending s a xx).1.s a (expirePending s a xx).2).1.activeI := h2
        rw [t1] at h2'
        exact expirePending_subset s a xx h hxx hp2 r2 h2'
      · simp only [hp2] at hnp; cases hnp

/-- the expiry phase at height `H` removes every pending request of a context whose expiry is queued at `H` -/
theorem expirePhase_removes (r : ReqId) : ∀ (l : List CtxId) (s : State), Inv s →
    (r ∉ s.activeI ∨ (r.ctx ∈ l ∧ get s.expH r.ctx = some s.height)) →
    r ∉ (foldH expireBatch s l).s.activeI := by
  intro l
  induction l with
  | nil =>
    intro s _ hcase
    rcases hcase with hn | ⟨hm, _⟩
    · exact hn
    · cases hm
  | cons a rest ih =>
    intro s h hcase
    have hnp := expireBatch_nopanic h a
    rw [foldH_cons]
    simp only [hnp]
    have hinv := expireBatch_inv s a h hnp
    have hsub := expireBatch_subset s a h hnp
    apply ih _ hinv
    rcases hcase with hn | ⟨hm, hp⟩
    · left
      exact fun hr => hn (hsub r hr)
    · by_cases hac : a = r.ctx
      · left
        subst hac
        intro hr
        exact expireBatch_clears s r.ctx h hnp ((h.x.expMirror s.height r.ctx).mpr hp) r hr rfl
      · right
        obtain ⟨ph, pe⟩ := expireBatch_ptrs s a h hnp
        refine ⟨?_, ?_⟩
        · simp only [List.mem_cons] at hm
          rcases hm with e | e
          · exact absurd e.symm hac
          · exact e
        · rw [pe r.ctx, if_neg (fun hh => hac hh.1.symm), ph]; exact hp

/-- C11: when block `H` ends, no request with expiry height `H` is pending any more -/
theorem expiry_block_clears (s : State) (dt : Int) (h : Inv s) (r : ReqId) (q : Req)
    (hq : get s.reqs r = some q) (he : q.expH = s.height) : r ∉ (endBlock s dt).s.activeI := by
  obtain ⟨x0, hx0, hb0, hptr⟩ := h.x.reqCtx r q hq
  have hp1 := foldH_nopanic_of expireBatch Inv
    (fun s a hs => ⟨expireBatch_nopanic hs a, expireBatch_inv s a hs (expireBatch_nopanic hs a)⟩) (queuedAt s.expQ s.height) s h
  have hmid : r ∉ (foldH expireBatch s (queuedAt s.expQ s.height)).s.activeI := by
    apply expirePhase_removes r _ s h
    right
    rw [he] at hptr
    exact ⟨(mem_queuedAt _ _ _).mpr ((h.x.expMirror s.height r.ctx).mpr hptr), hptr⟩
  have e1 := foldH_evol expireBatch Inv (fun s a hs hp => expireBatch_inv s a hs hp)
    (fun s a hs hp => expireBatch_evol s a hs hp) _ s h hp1.1
  have hp2 := foldH_nopanic_of newBatch Inv (fun s a hs => ⟨newBatch_nopanic s a, newBatch_inv s a hs⟩)
    (queuedAt (foldH expireBatch s (queuedAt s.expQ s.height)).s.newQ (foldH expireBatch s (queuedAt s.expQ s.height)).s.height)
    _ hp1.2
  have a2 := foldH_aorig newBatch (fun s a hs _ => newBatch_inv s a hs)
    (fun s a hs _ => newBatch_evol s a hs) (fun s a hs _ => newBatch_aorig s a hs) _ _ hp1.2 hp2.1
  unfold endBlock
  simp only [hp1.1, hp2.1]
  intro hr
  rcases a2.2 r hr with hold | ⟨xm, hxm, hlt⟩
  · exact hmid hold
  · obtain ⟨x, hx, hev⟩ := e1 r.ctx xm hxm
    rw [hx0] at hx; injection hx with hx; subst hx
    have := hev.batch
    omega

/-! ### the expiry pointer of a context with a pending request does not move -/

theorem pauseK_expH (s : State) (c : CtxId) (cons : Addr) : (pauseK s c cons).1.expH = s.expH := by
  unfold pauseK; repeat' split
  all_goals rfl
theorem killK_expH (s : State) (c : CtxId) (cons : Addr) : (killK s c cons).1.expH = s.expH := by
  unfold killK; repeat' split
  all_goals rfl
theorem startK_expH (s : State) (c : CtxId) (cons : Addr) : (startK s c cons).1.expH = s.expH := by
  unfold startK; dsimp only; repeat' split
  all_goals rfl
theorem updateK_expH (s : State) (c : CtxId) (cons : Addr) (provs : List Addr) (thr : Nat) (cap : Option Nat)
    (timeout : Int) (freq : Nat) (total : Int) : (updateK s c cons provs thr cap timeout freq total).1.expH = s.expH := by
  unfold updateK; repeat' split
  all_goals rfl
theorem ctxMsg_expH (s : State) (c : CtxId) (cons : Addr) (k : State → Out) (hk : (k s).1.expH = s.expH) :
    (ctxMsg s c cons k).1.expH = s.expH := by
  unfold ctxMsg; split
  · rfl
  · exact hk

/-- no message moves the expiry pointer of an existing context -/
theorem exec_expH_get (s : State) (op : Op) (hw : WF s op) (c : CtxId) (hused : c ∈ s.usedIds)
    (hne : op.isEndblock = false) : get (exec s op).1.expH c = get s.expH c := by
  by_cases hnt : op.ctxTarget ≠ some c
  · exact (exec_sframe s op hw c hused hnt hne).1
  · cases op with
    | pause c0 cons => exact congrArg (fun m => get m c) (ctxMsg_expH s c0 cons _ (pauseK_expH s c0 cons))
    | start c0 cons => exact congrArg (fun m => get m c) (ctxMsg_expH s c0 cons _ (startK_expH s c0 cons))
    | kill c0 cons => exact congrArg (fun m => get m c) (ctxMsg_expH s c0 cons _ (killK_expH s c0 cons))
    | updatectx c0 cons provs cap timeout freq total =>
      exact congrArg (fun m => get m c) (ctxMsg_expH s c0 cons _ (updateK_expH s c0 cons provs 0 cap timeout freq total))
    | modpause c0 cons => exact congrArg (fun m => get m c) (pauseK_expH s c0 cons)
    | modstart c0 cons => exact congrArg (fun m => get m c) (startK_expH s c0 cons)
    | modkill c0 cons => exact congrArg (fun m => get m c) (killK_expH s c0 cons)
    | modupdate c0 cons provs thr cap timeout freq total =>
      exact congrArg (fun m => get m c) (updateK_expH s c0 cons provs thr cap timeout freq total)
    | _ => exact absurd (by simp [Op.ctxTarget]) hnt

theorem expirePhase_ptr (c : CtxId) : ∀ (l : List CtxId) (s : State), Inv s → get s.expH c ≠ some s.height →
    get (foldH expireBatch s l).s.expH c = get s.expH c ∧ (foldH expireBatch s l).s.height = s.height := by
  intro l
  induction l with
  | nil => intro s _ _; exact ⟨rfl, rfl⟩
  | cons a rest ih =>
    intro s h hne
    have hnp := expireBatch_nopanic h a
    rw [foldH_cons]
    simp only [hnp]
    obtain ⟨ph, pe⟩ := expireBatch_ptrs s a h hnp
    have hsame : get (expireBatch s a).s.expH c = get s.expH c := by
      rw [pe c]
      split
      · rename_i hh
        exfalso
        apply hne
        rw [hh.1]
        exact (h.x.expMirror s.height a).mp hh.2
      · rfl
    obtain ⟨i1, i2⟩ := ih _ (expireBatch_inv s a h hnp) (by rw [hsame, ph]; exact hne)
    exact ⟨by rw [i1, hsame], by rw [i2, ph]⟩

theorem newPhase_ptr (c : CtxId) (e : Int) : ∀ (l : List CtxId) (s : State), Inv s → get s.expH c = some e →
    get (foldH newBatch s l).s.expH c = some e := by
  intro l
  induction l with
  | nil => intro s _ he; exact he
  | cons a rest ih =>
    intro s h he
    have hnp := newBatch_nopanic s a
    rw [foldH_cons]
    simp only [hnp]
    apply ih _ (newBatch_inv s a h)
    by_cases hac : c = a
    · subst hac
      have hnotdue : (s.height, c) ∉ s.newQ := by
        intro hm
        have hdue := (h.x.newMirror s.height c).mp hm
        rcases h.x.single c with hn | hx
        · rw [hn] at hdue; cases hdue
        · rw [hx] at he; cases he
      have : (newBatch s c).s = s := by unfold newBatch; rw [if_pos hnotdue]; rfl
      rw [this]; exact he
    · rw [(newBatch_others s a h c hac).1]; exact he

/-- across the end of a block, the expiry pointer of a context whose pending request does not expire in it stays -/
theorem endBlock_ptr (s : State) (dt : Int) (h : Inv s) (c : CtxId) (e : Int) (he : get s.expH c = some e)
    (hne : e ≠ s.height) : get (endBlock s dt).s.expH c = some e := by
  have hp1 := foldH_nopanic_of expireBatch Inv
    (fun s a hs => ⟨expireBatch_nopanic hs a, expireBatch_inv s a hs (expireBatch_nopanic hs a)⟩) (queuedAt s.expQ s.height) s h
  have hp2 := foldH_nopanic_of newBatch Inv (fun s a hs => ⟨newBatch_nopanic s a, newBatch_inv s a hs⟩)
    (queuedAt (foldH expireBatch s (queuedAt s.expQ s.height)).s.newQ (foldH expireBatch s (queuedAt s.expQ s.height)).s.height)
    _ hp1.2
  obtain ⟨m1, _⟩ := expirePhase_ptr c (queuedAt s.expQ s.height) s h (by rw [he]; intro hh; injection hh with hh; exact hne hh)
  have m2 := newPhase_ptr c e
    (queuedAt (foldH expireBatch s (queuedAt s.expQ s.height)).s.newQ (foldH expireBatch s (queuedAt s.expQ s.height)).s.height)
    _ hp1.2 (by rw [m1]; exact he)
  unfold endBlock
  simp only [hp1.1, hp2.1]
  exact m2

/-! ### along every continuation -/

/-- the request belongs to a batch that has already been started -/
def Old (s : State) (r : ReqId) : Prop :=
  r.ctx ∈ s.usedIds ∧ ∀ x, get s.ctxs r.ctx = some x → r.batch ≤ x.batch

theorem old_step {s : State} (h : Inv s) (op : Op) (hw : WF s op) (r : ReqId) (ho : Old s r) : Old (step s op).1 r := by
  obtain ⟨h2, h3⟩ := ho
  refine ⟨(step_aorig s op h).1 _ h2, fun y hy => ?_⟩
  rcases step_ctx_origin h op hw r.ctx y hy with ⟨x, hx, hev⟩ | ⟨hfresh, _, _⟩
  · exact Nat.le_trans (h3 x hx) hev.batch
  · exact absurd h2 hfresh

/-- one step: a request that is pending before and after keeps its context's expiry pointer; one that is `Old`
    and pending after was pending before -/
theorem pending_ptr_step {s : State} (h : Inv s) (op : Op) (hw : WF s op) (r : ReqId) (e : Int) (ho : Old s r)
    (hk : r ∈ s.activeI → get s.expH r.ctx = some e) (hact : r ∈ (step s op).1.activeI) :
    get (step s op).1.expH r.ctx = some e := by
  have hwas : r ∈ s.activeI := by
    rcases (step_aorig s op h).2 r hact with hold | ⟨x, hx, hlt⟩
    · exact hold
    · have := ho.2 x hx; omega
  have hptr := hk hwas
  cases hop : op.isEndblock with
  | true =>
    cases op with
    | endblock dt =>
      rw [step_endblock] at hact ⊢
      have hnp := endBlock_nopanic h dt
      have hact' : r ∈ (match (endBlock s dt).panic with
          | some m => (s, Res.panic m, (endBlock s dt).effs)
          | none => ((endBlock s dt).s, Res.ok, (endBlock s dt).effs)).1.activeI := hact
      show get (match (endBlock s dt).panic with
          | some m => (s, Res.panic m, (endBlock s dt).effs)
          | none => ((endBlock s dt).s, Res.ok, (endBlock s dt).effs)).1.expH r.ctx = some e
      simp only [hnp] at hact' ⊢
      obtain ⟨q, hq⟩ : ∃ q, get s.reqs r = some q := by
        cases hh : get s.reqs r with
        | none => have := h.x.activeReq r hwas; rw [hh] at this; simp at this
        | some q => exact ⟨q, rfl⟩
      obtain ⟨_, _, _, hqe⟩ := h.x.reqCtx r q hq
      rw [hptr] at hqe; injection hqe with hqe
      refine endBlock_ptr s dt h r.ctx e hptr (fun hh => ?_)
      exact expiry_block_clears s dt h r q hq (by rw [← hqe]; exact hh) hact'
    | _ => cases hop
  | false =>
    rcases step_msg_cases s op hop with ⟨h1, _⟩ | ⟨h1, _, _⟩
    · rw [h1]; exact hptr
    · rw [h1, exec_expH_get s op hw r.ctx ho.1 hop]; exact hptr

/-- C11: along every well-formed continuation, a request that is still pending has not passed its expiry height -/
theorem pending_bounded {cfg : Config} {p : Params} {h0 t0 : Int} (hc : CfgOK cfg p) {s s' : State}
    (hr : Reachable cfg p h0 t0 s) (hl : Leads s s') (r : ReqId) (q : Req) (hact : r ∈ s.activeI)
    (hq : get s.reqs r = some q) (hact' : r ∈ s'.activeI) : s'.height ≤ q.expH := by
  have hinv := reachable_inv hc hr
  obtain ⟨x, hx, hb, hptr⟩ := hinv.x.reqCtx r q hq
  have hold : Old s r := ⟨hinv.x.used r.ctx (by rw [hx]; rfl), fun y hy => by rw [hx] at hy; injection hy with hy; subst hy; omega⟩
  have key : ∀ {s s' : State}, Reachable cfg p h0 t0 s → Leads s s' → Old s r →
      (r ∈ s.activeI → get s.expH r.ctx = some q.expH) →
      Reachable cfg p h0 t0 s' ∧ (r ∈ s'.activeI → get s'.expH r.ctx = some q.expH) := by
    intro s s' hr hl
    induction hl with
    | refl s => intro _ hk; exact ⟨hr, hk⟩
    | step op hw _ ih =>
      intro ho hk
      have hi := reachable_inv hc hr
      exact ih (Reachable.step op hr hw) (old_step hi op hw r ho)
        (fun ha => pending_ptr_step hi op hw r q.expH ho hk ha)
  obtain ⟨hr', hk'⟩ := key hr hl hold (fun _ => hptr)
  exact ((reachable_inv hc hr').x.expFuture r.ctx q.expH (hk' hact')).1

/-- every block raises the height by one (the end blocker does not panic in reachable states) -/
theorem endblock_advances {s : State} (h : Inv s) (dt : Int) : (step s (.endblock dt)).1.height = s.height + 1 := by
  rw [step_endblock]
  have hnp := endBlock_nopanic h dt
  show (match (endBlock s dt).panic with
      | some m => (s, Res.panic m, (endBlock s dt).effs)
      | none => ((endBlock s dt).s, Res.ok, (endBlock s dt).effs)).1.height = _
  simp only [hnp]
  have hp1 := foldH_nopanic_of expireBatch Inv
    (fun s a hs => ⟨expireBatch_nopanic hs a, expireBatch_inv s a hs (expireBatch_nopanic hs a)⟩) (queuedAt s.expQ s.height) s h
  have hp2 := foldH_nopanic_of newBatch Inv (fun s a hs => ⟨newBatch_nopanic s a, newBatch_inv s a hs⟩)
    (queuedAt (foldH expireBatch s (queuedAt s.expQ s.height)).s.newQ (foldH expireBatch s (queuedAt s.expQ s.height)).s.height)
    _ hp1.2
  obtain ⟨_, i2, _⟩ := expirePhase s.height _ s h rfl
    (fun c hc => (mem_queuedAt _ _ _).mpr ((h.x.expMirror s.height c).mpr hc)) hp1.1
  obtain ⟨_, j2, _, _⟩ := newPhase s.height _ _ hp1.2 i2
    (fun c hc => (mem_queuedAt _ _ _).mpr (by rw [i2]; exact (hp1.2.x.newMirror s.height c).mpr hc))
    (by
      obtain ⟨_, _, i3⟩ := expirePhase s.height _ s h rfl
        (fun c hc => (mem_queuedAt _ _ _).mpr ((h.x.expMirror s.height c).mpr hc)) hp1.1
      exact i3) hp2.1
  unfold endBlock
  simp only [hp1.1, hp2.1]
  show (foldH newBatch _ _).s.height + 1 = _
  rw [j2]

end SM
