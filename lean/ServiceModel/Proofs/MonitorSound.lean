import ServiceModel.Inv.Monitors
import ServiceModel.Proofs.Reachable
import ServiceModel.Proofs.Restart
/-!
# The backing monitors are implied by the invariants

The executable monitors that the driver evaluates on states decoded from the implementation's trace are decidable
readings of the invariants. For the two backing equations (C01, C03) this is proved here: in a state satisfying the
invariants the monitor reports nothing, so an alarm of these monitors on an implementation state means that the
state is not one the model can reach.
-/
namespace SM
open Mon Map

theorem escrowBacked_sound {s : State} (h : Inv s) : escrowBacked s = [] := by
  unfold escrowBacked chk
  have : s.bal s.cfg.escrow = activeFees s + earnedSum s := by
    rw [activeFees_eq]; exact h.m.escrow
  simp [this]

theorem depositBacked_sound {s : State} (h : Inv s) : depositBacked s = [] := by
  unfold depositBacked chk
  have : s.bal s.cfg.deposit = depositSum s := h.b.backed
  simp [this]

theorem backing_monitors_quiet_on_reachable {cfg : Config} {p : Params} {h0 t0 : Int} (hc : CfgOK cfg p) {s : State}
    (hr : Reachable cfg p h0 t0 s) : escrowBacked s = [] ∧ depositBacked s = [] :=
  ⟨escrowBacked_sound (reachable_inv hc hr), depositBacked_sound (reachable_inv hc hr)⟩

/-! ### the minimum-deposit monitor (C14) is implied by the invariants -/
theorem get_of_mem_nodupKeys {κ ν} [DecidableEq κ] {m : Map κ ν} (h : Map.NodupKeys m) {p : κ × ν} (hp : p ∈ m) :
    Map.get m p.1 = some p.2 := by
  have : (p.1, p.2) ∈ entries m := by rw [entries_of_nodupKeys m h]; exact hp
  exact (mem_entries m p.1 p.2).mp this

/-- in a state satisfying the invariants (with one record per binding key) the monitor `minDep` reports nothing -/
theorem minDep_sound {s : State} (h : InvAll s) : minDep s = [] := by
  unfold minDep
  rw [List.flatMap_eq_nil_iff]
  intro p hp
  have hg := get_of_mem_nodupKeys h.nodup hp
  by_cases hav : p.2.avail = true
  · rw [if_pos hav]
    obtain ⟨pr, md, hpr, hmd, hle⟩ := h.inv.b.minDep p.1 p.2 hg hav
    obtain ⟨pr2, hpr2, hparse, _⟩ := h.inv.b.priced p.1 p.2 hg
    rw [hpr] at hpr2; injection hpr2 with hpr2; subst hpr2
    rw [hparse]
    dsimp only
    rw [hmd]
    dsimp only
    unfold chk
    rw [if_pos (by simpa using hle)]
  · rw [if_neg hav]

theorem minDep_monitor_quiet_on_chains_with_restarts {cfg : Config} {p : Params} {h0 t0 : Int} (hc : CfgOK cfg p) {s : State}
    (hr : ReachableR cfg p h0 t0 s) : minDep s = [] := minDep_sound (reachableR_invAll hc hr)

/-! ### the earnings monitor (C13) is implied by the invariants -/
theorem ownerEarnings_sound {s : State} (h : Inv s) : ownerEarnings s = [] := by
  unfold ownerEarnings
  rw [List.append_eq_nil_iff]
  constructor
  · rw [List.flatMap_eq_nil_iff]
    intro o _
    unfold chk
    rw [if_pos]
    have := h.m.ownerSum o
    unfold ownedEarned
    simpa using this
  · rw [List.flatMap_eq_nil_iff]
    intro p hp
    unfold chk
    rw [if_pos]
    apply h.m.earnedOwned p.1
    rw [get_isSome_iff_mem_keys]
    exact List.mem_map_of_mem hp

end SM
