import ServiceModel.Inv.Monitors
import ServiceModel.Proofs.Reachable
/-!
# The backing monitors are implied by the invariants

The executable monitors that the driver evaluates on states decoded from the implementation's trace are decidable
readings of the invariants. For the two backing equations (C01, C03) this is proved here: in a state satisfying the
invariants the monitor reports nothing, so an alarm of these monitors on an implementation state means that the
state is not one the model can reach.
-/
namespace SM
open Mon

theorem escrowBacked_sound {s : State} (h : Inv s) : escrowBacked s = [] := by
  unfold escrowBacked chk
  have : s.bal s.cfg.escrow = activeFees s + earnedSum s := by
    rw [activeFees_eq]; exact h.m.escrow
  simp [this]

theorem depositBacked_sound {s : State} (h : Inv s) : depositBacked s = [] := by
  unfold depositBacked chk
  have : s.bal s.cfg.deposit = depositSum s := h.b.backed
  simp [this]

theorem backing_monitors_quiet_on_reachable {cfg : Config} {p : Params} {h0 t0 : Int} (hc : CfgOK cfg p) {s : State}
    (hr : Reachable cfg p h0 t0 s) : escrowBacked s = [] ∧ depositBacked s = [] :=
  ⟨escrowBacked_sound (reachable_inv hc hr), depositBacked_sound (reachable_inv hc hr)⟩

end SM
