import ServiceModel.Proofs.XWorld
/-!
# `BoundInv`: request records name bound providers
-/
namespace SM
open Map

variable {ctxs : Map CtxId Ctx} {reqs : Map ReqId Req} {bindings : Map (SvcName × Addr) Binding}

/-- bindings only grow or are replaced -/
theorem BoundInv.bindingsGrow (h : BoundInv ctxs reqs bindings) {bindings' : Map (SvcName × Addr) Binding}
    (hb : ∀ k, (Map.get bindings k).isSome → (Map.get bindings' k).isSome) : BoundInv ctxs reqs bindings' := by
  intro r q hq
  obtain ⟨x, hx, hbb, hsup⟩ := h r q hq
  exact ⟨x, hx, hb _ hbb, hsup⟩

theorem isSome_set {κ ν} [DecidableEq κ] (m : Map κ ν) (k k2 : κ) (v : ν) (h : (Map.get m k2).isSome) :
    (Map.get (Map.set m k v) k2).isSome := by
  rw [Map.get_set]; split
  · rfl
  · exact h

/-- a context replaced by one with the same service -/
theorem BoundInv.setCtx (h : BoundInv ctxs reqs bindings) {c : CtxId} {x x' : Ctx}
    (hx : Map.get ctxs c = some x) (hs : x'.svc = x.svc ∧ x'.super = x.super) : BoundInv (Map.set ctxs c x') reqs bindings := by
  intro r q hq
  obtain ⟨y, hy, hb, hsup⟩ := h r q hq
  by_cases hc : c = r.ctx
  · subst hc; rw [hx] at hy; injection hy with hy; subst hy
    exact ⟨x', by simp, by rw [hs.1]; exact hb, by rw [hs.2]; exact hsup⟩
  · exact ⟨y, by rw [Map.get_set_other _ _ _ _ hc]; exact hy, hb, hsup⟩

/-- request records removed -/
theorem BoundInv.reqsSub (h : BoundInv ctxs reqs bindings) {reqs' : Map ReqId Req}
    (hr : ∀ r q, Map.get reqs' r = some q → Map.get reqs r = some q) : BoundInv ctxs reqs' bindings :=
  fun r q hq => h r q (hr r q hq)

/-- a context without request records is added or removed -/
theorem BoundInv.ctxsOther (h : BoundInv ctxs reqs bindings) {ctxs' : Map CtxId Ctx} {c : CtxId}
    (hno : ∀ r q, Map.get reqs r = some q → r.ctx ≠ c)
    (hsame : ∀ c2, c2 ≠ c → Map.get ctxs' c2 = Map.get ctxs c2) : BoundInv ctxs' reqs bindings := by
  intro r q hq
  obtain ⟨y, hy, hb⟩ := h r q hq
  exact ⟨y, by rw [hsame _ (hno r q hq)]; exact hy, hb⟩

end SM
