import ServiceModel.Proofs.Eventually
/-!
# C16: what the expiry of a batch does to its context

A context that has finished — killed (state `completed`), or running but one-shot, or running with its total reached —
is removed by the expiry handler of its batch; any other context (paused, or running and repeated with batches to
come) stays, with its batch marked completed.
-/
namespace SM
open Map

/-- the context has nothing more to do once its batch in flight has expired -/
def Ctx.finished (x : Ctx) : Prop :=
  x.state = .completed ∨ (x.state = .running ∧ ¬ (x.rep = true ∧ (x.total < 0 ∨ (x.batch : Int) < x.total)))

instance (x : Ctx) : Decidable x.finished := by unfold Ctx.finished; infer_instance

theorem expireTail_ctx_fate (s : State) (c : CtxId) (x1 : Ctx) :
    get (expireTail s c x1).1.ctxs c = if x1.finished then none else some x1 := by
  unfold expireTail
  dsimp only
  split
  · rename_i hst
    rw [if_pos (show x1.finished from Or.inl hst)]
    show get (Map.del (Map.set s.ctxs c x1) c) c = none
    exact Map.get_del_same _ _
  · rename_i hst
    by_cases hcont : x1.rep = true ∧ (x1.total < 0 ∨ (x1.batch : Int) < x1.total)
    · rw [if_pos hcont, if_neg (show ¬ x1.finished by unfold Ctx.finished; rw [hst]; simp [hcont])]
      show get (Map.set s.ctxs c x1) c = some x1
      exact Map.get_set_same _ _ _
    · rw [if_neg hcont, if_pos (show x1.finished from Or.inr ⟨hst, hcont⟩)]
      show get (Map.del (Map.set s.ctxs c x1) c) c = none
      exact Map.get_del_same _ _
  · rename_i hst
    rw [if_neg (show ¬ x1.finished by unfold Ctx.finished; rw [hst]; simp)]
    show get (Map.set s.ctxs c x1) c = some x1
    exact Map.get_set_same _ _ _

/-- C16: the expiry handler of a due batch removes its context iff the context has finished; otherwise the context
    stays, with the same state, counter and parameters and its batch marked completed -/
theorem expireBatch_ctx_fate (s : State) (c : CtxId) (x : Ctx) (h : Inv s) (hq : (s.height, c) ∈ s.expQ)
    (hx : get s.ctxs c = some x) (hnp : (expireBatch s c).panic = none) :
    (x.finished → get (expireBatch s c).s.ctxs c = none) ∧
    (¬ x.finished → ∃ y, get (expireBatch s c).s.ctxs c = some y ∧ y.bstate = .completed ∧ y.state = x.state ∧
      y.batch = x.batch) := by
  unfold expireBatch at hnp ⊢
  rw [if_neg (by simpa using hq)] at hnp ⊢
  rw [hx] at hnp ⊢
  dsimp only at hnp ⊢
  rcases Option.eq_none_or_eq_some (expirePending s c x).1.panic with hp | ⟨m, hp⟩
  · simp only [hp]
    obtain ⟨_, _, _, i4, i5, i6, _⟩ := expirePending_spec s c x h hx hp
    have hfate := expireTail_ctx_fate (expirePending s c x).1.s c (expirePending s c x).2
    have hfin : (expirePending s c x).2.finished ↔ x.finished := by
      unfold Ctx.finished
      rw [i5, i6, i4.rep, i4.batch]
    constructor
    · intro hf
      show get (expireTail (expirePending s c x).1.s c (expirePending s c x).2).1.ctxs c = none
      rw [hfate, if_pos (hfin.mpr hf)]
    · intro hf
      refine ⟨(expirePending s c x).2, ?_, i4.bstate, i5, i4.batch⟩
      show get (expireTail (expirePending s c x).1.s c (expirePending s c x).2).1.ctxs c = _
      rw [hfate, if_neg (fun hh => hf (hfin.mp hh))]
  · simp only [hp] at hnp; cases hnp

end SM
