import ServiceModel.Proofs.SlashOnce
/-!
# C09: what the consumer (or the owning module) set on a context changes only by an update of that context

Providers, fee cap, timeout, frequency, total and response threshold of a stored context are the same after a step
as before it, unless the step is an accepted update aimed at that very context.
-/
namespace SM
open Map

/-- the consumer-set fields agree -/
def PSame (x y : Ctx) : Prop :=
  y.provs = x.provs ∧ y.cap = x.cap ∧ y.timeout = x.timeout ∧ y.freq = x.freq ∧ y.total = x.total ∧ y.thr = x.thr

theorem PSame.refl (x : Ctx) : PSame x x := ⟨rfl, rfl, rfl, rfl, rfl, rfl⟩
theorem PSame.trans {x y z : Ctx} (h1 : PSame x y) (h2 : PSame y z) : PSame x z := by
  obtain ⟨a1, a2, a3, a4, a5, a6⟩ := h1
  obtain ⟨b1, b2, b3, b4, b5, b6⟩ := h2
  exact ⟨b1.trans a1, b2.trans a2, b3.trans a3, b4.trans a4, b5.trans a5, b6.trans a6⟩

/-- every context afterwards is a context before with the same consumer-set fields, or a new one (unused id),
    or — only when `upd` names it — the context an accepted update was aimed at -/
def PKeep (upd : Option CtxId) (s s' : State) : Prop :=
  ∀ c y, get s'.ctxs c = some y →
    (∃ x, get s.ctxs c = some x ∧ PSame x y) ∨ c ∉ s.usedIds ∨ upd = some c

theorem PKeep.refl (u : Option CtxId) (s : State) : PKeep u s s := fun _ y hy => Or.inl ⟨y, hy, PSame.refl y⟩

theorem pkeep_of_eq {u : Option CtxId} {s s' : State} (h : s'.ctxs = s.ctxs) : PKeep u s s' :=
  fun _ y hy => Or.inl ⟨y, by rw [← h]; exact hy, PSame.refl y⟩

theorem pkeep_set {u : Option CtxId} {s s' : State} {c0 : CtxId} {x x' : Ctx} (hx : get s.ctxs c0 = some x)
    (h : s'.ctxs = Map.set s.ctxs c0 x') (hp : PSame x x') : PKeep u s s' := by
  intro c y hy
  rw [h, Map.get_set] at hy
  by_cases hc : c0 = c
  · subst hc; simp at hy; subst hy; exact Or.inl ⟨x, hx, hp⟩
  · simp [hc] at hy; exact Or.inl ⟨y, hy, PSame.refl y⟩

theorem pkeep_del {u : Option CtxId} {s s' : State} {c0 : CtxId} (h : s'.ctxs = Map.del s.ctxs c0) : PKeep u s s' := by
  intro c y hy
  rw [h] at hy
  exact Or.inl ⟨y, (Map.get_del_some hy).2, PSame.refl y⟩

theorem PKeep.trans {a b c : State} (h1 : PKeep none a b) (hu : ∀ k, k ∈ a.usedIds → k ∈ b.usedIds) (h2 : PKeep none b c) :
    PKeep none a c := by
  intro k z hz
  rcases h2 k z hz with ⟨y, hy, hyz⟩ | hf | hn
  · rcases h1 k y hy with ⟨x, hx, hxy⟩ | hf | hn
    · exact Or.inl ⟨x, hx, hxy.trans hyz⟩
    · exact Or.inr (Or.inl hf)
    · cases hn
  · exact Or.inr (Or.inl (fun hin => hf (hu k hin)))
  · cases hn

/-! ### messages -/
theorem pauseK_pkeep (u : Option CtxId) (s : State) (c : CtxId) (cons : Addr) : PKeep u s (pauseK s c cons).1 := by
  unfold pauseK
  cases hx : get s.ctxs c with
  | none => exact PKeep.refl u s
  | some x =>
    dsimp only
    repeat' split
    all_goals first
      | exact PKeep.refl u s
      | exact pkeep_set hx rfl ⟨rfl, rfl, rfl, rfl, rfl, rfl⟩

theorem killK_pkeep (u : Option CtxId) (s : State) (c : CtxId) (cons : Addr) : PKeep u s (killK s c cons).1 := by
  unfold killK
  cases hx : get s.ctxs c with
  | none => exact PKeep.refl u s
  | some x =>
    dsimp only
    repeat' split
    all_goals first
      | exact PKeep.refl u s
      | exact pkeep_set hx rfl ⟨rfl, rfl, rfl, rfl, rfl, rfl⟩

theorem startK_pkeep (u : Option CtxId) (s : State) (c : CtxId) (cons : Addr) : PKeep u s (startK s c cons).1 := by
  unfold startK
  cases hx : get s.ctxs c with
  | none => exact PKeep.refl u s
  | some x =>
    dsimp only
    repeat' split
    all_goals first
      | exact PKeep.refl u s
      | exact pkeep_set hx rfl ⟨rfl, rfl, rfl, rfl, rfl, rfl⟩

/-- an update changes at most the context it is aimed at -/
theorem updateK_pkeep (s : State) (c : CtxId) (cons : Addr) (provs : List Addr) (thr : Nat) (cap : Option Nat)
    (timeout : Int) (freq : Nat) (total : Int) : PKeep (some c) s (updateK s c cons provs thr cap timeout freq total).1 := by
  unfold updateK
  repeat' split
  all_goals first
    | exact PKeep.refl _ s
    | (intro k y hy
       simp only [setCtx] at hy
       rw [Map.get_set] at hy
       by_cases hc : c = k
       · subst hc; exact Or.inr (Or.inr rfl)
       · simp [hc] at hy; exact Or.inl ⟨y, hy, PSame.refl y⟩)

theorem ctxMsg_pkeep (u : Option CtxId) (s : State) (c : CtxId) (cons : Addr) (k : State → Out) (hk : PKeep u s (k s).1) :
    PKeep u s (ctxMsg s c cons k).1 := by
  unfold ctxMsg; split
  · exact PKeep.refl u s
  · exact hk

theorem createCtx_pkeep (u : Option CtxId) (s : State) (id : CtxId) (mod : ModName) (svc : SvcName) (provs : List Addr) (cons : Addr)
    (cap : Option Nat) (timeout : Int) (super rep : Bool) (freq : Nat) (total : Int) (inputOk running : Bool) (thr : Nat)
    (hfresh : id ∉ s.usedIds) :
    PKeep u s (createCtx s id mod svc provs cons cap timeout super rep freq total inputOk running thr).1 := by
  unfold createCtx; dsimp only
  repeat' split
  all_goals first
    | exact PKeep.refl u s
    | (intro c y hy
       simp only [setCtx, addNewQ] at hy
       rw [Map.get_set] at hy
       by_cases hc : id = c
       · subst hc; exact Or.inr (Or.inl hfresh)
       · simp [hc] at hy; exact Or.inl ⟨y, hy, PSame.refl y⟩)

theorem respond_pkeep (u : Option CtxId) (s : State) (r : ReqId) (pv : Addr) (code : Nat) (out : OutKind) :
    PKeep u s (respond s r pv code out).1 := by
  unfold respond
  cases hq : get s.reqs r with
  | none => exact PKeep.refl u s
  | some q =>
    dsimp only
    cases hx : get s.ctxs r.ctx with
    | none => exact PKeep.refl u s
    | some x =>
      dsimp only
      split; · exact PKeep.refl u s
      split; · exact PKeep.refl u s
      cases hs : settle s r x.svc x.cons q pv out with
      | error res => exact PKeep.refl u s
      | ok res =>
        obtain ⟨s1, e1⟩ := res
        dsimp only
        obtain ⟨bank', bs, ea, oe, hshape, _⟩ := settle_shape hs
        subst hshape
        split
        · exact pkeep_set hx rfl ⟨rfl, rfl, rfl, rfl, rfl, rfl⟩
        · exact pkeep_set hx rfl ⟨rfl, rfl, rfl, rfl, rfl, rfl⟩

/-! ### end of block -/
theorem expirePending_psame (s : State) (c : CtxId) (x : Ctx) : PSame x (expirePending s c x).2 := by
  unfold expirePending
  split
  · exact ⟨rfl, rfl, rfl, rfl, rfl, rfl⟩
  · exact PSame.refl x

theorem expireBatch_pkeep (s : State) (c : CtxId) (h : Inv s) (hnp : (expireBatch s c).panic = none) :
    PKeep none s (expireBatch s c).s := by
  unfold expireBatch at hnp ⊢
  split
  · exact PKeep.refl _ s
  · rename_i hq
    rw [if_neg hq] at hnp
    have hmem : (s.height, c) ∈ s.expQ := by simpa using hq
    have hexp := (h.x.expMirror s.height c).mp hmem
    cases hx : get s.ctxs c with
    | none => have := (h.x.expFuture c s.height hexp).2; rw [hx] at this; simp at this
    | some x =>
      rw [hx] at hnp
      dsimp only at hnp ⊢
      rcases Option.eq_none_or_eq_some (expirePending s c x).1.panic with hp | ⟨m, hp⟩
      · simp only [hp]
        obtain ⟨_, i2, _⟩ := expirePending_spec s c x h hx hp
        obtain ⟨_, t2, t3⟩ := expireTail_ctxs_active (expirePending s c x).1.s c (expirePending s c x).2
        intro k y hy
        by_cases hk : k = c
        · subst hk
          have := t3 y hy
          subst this
          exact Or.inl ⟨x, hx, expirePending_psame s k x⟩
        · have hy' : get s.ctxs k = some y := by
            have := t2 k hk
            rw [i2.2.2.2.2.1] at this
            rw [← this]; exact hy
          exact Or.inl ⟨y, hy', PSame.refl y⟩
      · simp only [hp] at hnp; cases hnp

theorem newBatch_pkeep (s : State) (c : CtxId) : PKeep none s (newBatch s c).s := by
  unfold newBatch
  split
  · exact PKeep.refl _ s
  · cases hx : get s.ctxs c with
    | none => exact pkeep_of_eq rfl
    | some x =>
      dsimp only
      split
      · exact pkeep_del (c0 := c) rfl
      · split
        · exact pkeep_of_eq rfl
        · have hissue : ∀ (bank' : Bank) (el : List (Addr × Nat)) (ep : List Effect),
              PKeep none s (delNewQ (issueBatch s bank' c x el ep).1 c s.height) := by
            intro bank' el ep
            exact pkeep_set hx (issueBatch_ctxs s bank' c x el ep) ⟨rfl, rfl, rfl, rfl, rfl, rfl⟩
          show PKeep none s (delNewQ (startOrSkip s c x).1 c s.height)
          unfold startOrSkip
          split
          · split
            · exact hissue _ _ _
            · cases hb : bankSend s.bank x.cons s.cfg.escrow (sumPrices (eligible s x)) with
              | some bk => exact hissue _ _ _
              | none => exact pkeep_set hx rfl ⟨rfl, rfl, rfl, rfl, rfl, rfl⟩
          · exact pkeep_set hx rfl ⟨rfl, rfl, rfl, rfl, rfl, rfl⟩

theorem foldH_pkeep {α : Type} (hd : State → α → HRes)
    (hP : ∀ s a, Inv s → (hd s a).panic = none ∧ Inv (hd s a).s)
    (hK : ∀ s a, Inv s → PKeep none s (hd s a).s)
    (hU : ∀ s a, Inv s → ∀ k, k ∈ s.usedIds → k ∈ (hd s a).s.usedIds) :
    ∀ (l : List α) (s : State), Inv s → PKeep none s (foldH hd s l).s ∧ (∀ k, k ∈ s.usedIds → k ∈ (foldH hd s l).s.usedIds) := by
  intro l
  induction l with
  | nil => intro s _; exact ⟨PKeep.refl _ s, fun _ hk => hk⟩
  | cons a rest ih =>
    intro s h
    obtain ⟨hp, hi⟩ := hP s a h
    rw [foldH_cons]
    simp only [hp]
    obtain ⟨i1, i2⟩ := ih _ hi
    exact ⟨(hK s a h).trans (hU s a h) i1, fun k hk => i2 k (hU s a h k hk)⟩

theorem endBlock_pkeep (s : State) (dt : Int) (h : Inv s) : PKeep none s (endBlock s dt).s := by
  obtain ⟨k1, u1⟩ := foldH_pkeep expireBatch
    (fun s a hs => ⟨expireBatch_nopanic hs a, expireBatch_inv s a hs (expireBatch_nopanic hs a)⟩)
    (fun s a hs => expireBatch_pkeep s a hs (expireBatch_nopanic hs a))
    (fun s a hs => (expireBatch_aorig s a hs (expireBatch_nopanic hs a)).1) (queuedAt s.expQ s.height) s h
  have p1 := foldH_nopanic_of expireBatch Inv
    (fun s a hs => ⟨expireBatch_nopanic hs a, expireBatch_inv s a hs (expireBatch_nopanic hs a)⟩) (queuedAt s.expQ s.height) s h
  obtain ⟨k2, _⟩ := foldH_pkeep newBatch (fun s a hs => ⟨newBatch_nopanic s a, newBatch_inv s a hs⟩)
    (fun s a _ => newBatch_pkeep s a) (fun s a hs => (newBatch_aorig s a hs).1)
    (queuedAt (foldH expireBatch s (queuedAt s.expQ s.height)).s.newQ (foldH expireBatch s (queuedAt s.expQ s.height)).s.height)
    _ p1.2
  have p2 := foldH_nopanic_of newBatch Inv (fun s a hs => ⟨newBatch_nopanic s a, newBatch_inv s a hs⟩)
    (queuedAt (foldH expireBatch s (queuedAt s.expQ s.height)).s.newQ (foldH expireBatch s (queuedAt s.expQ s.height)).s.height)
    _ p1.2
  unfold endBlock
  simp only [p1.1, p2.1]
  exact (k1.trans u1 k2).trans (fun k hk => (foldH_pkeep newBatch (fun s a hs => ⟨newBatch_nopanic s a, newBatch_inv s a hs⟩)
    (fun s a _ => newBatch_pkeep s a) (fun s a hs => (newBatch_aorig s a hs).1) _ _ p1.2).2 k (u1 k hk)) (pkeep_of_eq rfl)

/-! ### every step -/
/-- the context an update operation is aimed at -/
def Op.updTarget : Op → Option CtxId
  | .updatectx c _ _ _ _ _ _ => some c
  | .modupdate c _ _ _ _ _ _ _ => some c
  | _ => none

theorem exec_pkeep (s : State) (op : Op) (h : Inv s) (hw : WF s op) : PKeep op.updTarget s (exec s op).1 := by
  cases op with
  | fund a n => exact pkeep_of_eq rfl
  | xfer a b n =>
    show PKeep _ s (match bankSend s.bank a b n with
      | none => fail s Err.insufficientFunds
      | some bank' => ({ s with bank := bank' }, Res.ok, [])).1
    split
    · exact PKeep.refl _ s
    · exact pkeep_of_eq rfl
  | define n a ok => show PKeep _ s (define s n a).1; unfold define; split <;> exact pkeep_of_eq rfl
  | bind svc p o dep text qos =>
    cases text with
    | none => exact PKeep.refl _ s
    | some t => exact pkeep_of_eq (bind_frame s svc p o dep t qos).2.2.2.1
  | update svc p o dep text qos => exact pkeep_of_eq (update_frame s svc p o dep text qos).2.2.2.1
  | setwd o a => exact pkeep_of_eq rfl
  | disable svc p o => exact pkeep_of_eq (disable_frame s svc p o).2.2.2.1
  | enable svc p o dep => exact pkeep_of_eq (enable_frame s svc p o dep).2.2.2.1
  | refund svc p o => exact pkeep_of_eq (refund_frame s svc p o).2.2.2.1
  | call id svc provs cons cap timeout super rep freq total inputOk =>
    show PKeep _ s (if s.cfg.modsvc = some svc then panicOut s "module-service call: outside the model"
      else createCtx s id "" svc provs cons cap timeout super rep freq total inputOk true 0).1
    obtain ⟨_, hfresh, _⟩ : ¬ s.modAcct cons ∧ id ∉ s.usedIds ∧ s.cfg.modsvc ≠ some svc := hw
    split
    · exact PKeep.refl _ s
    · exact createCtx_pkeep _ s id "" svc provs cons cap timeout super rep freq total inputOk true 0 hfresh
  | modcreate id mod svc provs cons cap timeout super rep freq total inputOk running thr =>
    obtain ⟨_, hfresh, _, _⟩ : ¬ s.modAcct cons ∧ id ∉ s.usedIds ∧ mod ≠ "" ∧ cons ≠ "" := hw
    exact createCtx_pkeep _ s id mod svc provs cons cap timeout super rep freq total inputOk running thr hfresh
  | respond r p code out => exact respond_pkeep _ s r p code out
  | pause c cons => exact ctxMsg_pkeep _ s c cons _ (pauseK_pkeep _ s c cons)
  | start c cons => exact ctxMsg_pkeep _ s c cons _ (startK_pkeep _ s c cons)
  | kill c cons => exact ctxMsg_pkeep _ s c cons _ (killK_pkeep _ s c cons)
  | updatectx c cons provs cap timeout freq total =>
    exact ctxMsg_pkeep _ s c cons _ (updateK_pkeep s c cons provs 0 cap timeout freq total)
  | modpause c cons => exact pauseK_pkeep _ s c cons
  | modstart c cons => exact startK_pkeep _ s c cons
  | modkill c cons => exact killK_pkeep _ s c cons
  | modupdate c cons provs thr cap timeout freq total => exact updateK_pkeep s c cons provs thr cap timeout freq total
  | withdraw o p => exact pkeep_of_eq (withdraw_ctxs s o p)
  | endblock dt =>
    show PKeep none s (match (endBlock s dt).panic with
        | some m => (s, Res.panic m, (endBlock s dt).effs)
        | none => ((endBlock s dt).s, Res.ok, (endBlock s dt).effs)).1
    split
    · exact PKeep.refl _ s
    · exact endBlock_pkeep s dt h

/-- C09: over every step, a context that existed before keeps its providers, fee cap, timeout, frequency, total and
    threshold unless the step is an update aimed at it -/
theorem step_params_stable {s : State} (h : Inv s) (op : Op) (hw : WF s op) (c : CtxId) (x y : Ctx)
    (hx : get s.ctxs c = some x) (hy : get (step s op).1.ctxs c = some y) (hnu : op.updTarget ≠ some c) : PSame x y := by
  have hk : PKeep op.updTarget s (step s op).1 := by
    rcases step_state s op with h1 | ⟨h1, _, _⟩
    · rw [h1]; exact PKeep.refl _ s
    · rw [h1]; exact exec_pkeep s op h hw
  rcases hk c y hy with ⟨x', hx', hp⟩ | hf | hu
  · rw [hx] at hx'; injection hx' with hx'; subst hx'; exact hp
  · exact absurd (h.x.used c (by rw [hx]; rfl)) hf
  · exact absurd hu hnu

end SM
