import ServiceModel.Proofs.Reachable
import ServiceModel.Proofs.ModSvc
import ServiceModel.Proofs.RestartStable
import ServiceModel.Proofs.MonitorSound
/-!
# C14 — An available binding always holds the minimum deposit for its price
-/
namespace SM.C14
open SM

variable {cfg : Config} {p : Params} {h0 t0 : Int}

/-- the minimum deposit for a base price: the larger of the global minimum and price × multiple -/
theorem minDeposit_eq_max (params : Params) (pr : Pricing) (md : Nat) (h : minDeposit params pr = some md) :
    md = max params.minDep (pr.base * params.mult) := by
  unfold minDeposit at h
  dsimp only at h
  split at h
  · simp at h
  · injection h with h; subst h
    split <;> omega

/-- Whenever a binding is available its deposit is at least the larger of the global minimum deposit and
    its base price times the multiple (computed from the price terms stored for it, which are the parse of its
    published pricing text). -/
theorem available_holds_minimum (hc : CfgOK cfg p) {s : State} (hr : Reachable cfg p h0 t0 s)
    (k : SvcName × Addr) (b : Binding) (hb : Map.get s.bindings k = some b) (hav : b.avail = true) :
    ∃ pr, Map.get s.pricing k = some pr ∧ parsePricing b.text = .ok pr ∧
      max s.params.minDep (pr.base * s.params.mult) ≤ b.deposit := by
  have hB := (reachable_inv hc hr).b
  obtain ⟨pr, md, hpr, hmd, hle⟩ := hB.minDep k b hb hav
  obtain ⟨pr2, hpr2, hparse, _⟩ := hB.priced k b hb
  rw [hpr] at hpr2; injection hpr2 with hpr2; subst hpr2
  exact ⟨pr, hpr, hparse, by rw [← minDeposit_eq_max _ _ _ hmd]; exact hle⟩

/-- An accepted bind has a deposit of at least the minimum for its price. -/
theorem bind_ok_has_minimum (s : State) (svc : SvcName) (pv o : Addr) (dep : Option Nat) (text : PricingText) (qos : Nat)
    (h : (bind s svc pv o dep text qos).2.1 = .ok) :
    ∃ d pr md, dep = some d ∧ parsePricing text = .ok pr ∧ minDeposit s.params pr = some md ∧ md ≤ d := by
  unfold bind at h
  split at h; · simp [fail] at h
  split at h; · simp [fail] at h
  split at h; · simp [fail] at h
  dsimp only at h
  split at h; · simp [fail] at h
  cases dep with
  | none => simp [fail] at h
  | some d =>
    dsimp only at h
    split at h; · simp [fail] at h
    cases hpp : parsePricing text with
    | bad => rw [hpp] at h; simp [fail] at h
    | overflow => rw [hpp] at h; simp [panicOut] at h
    | ok pr =>
      rw [hpp] at h; dsimp only at h
      split at h; · simp [fail] at h
      cases hmd : minDeposit s.params pr with
      | none => rw [hmd] at h; simp [panicOut] at h
      | some md =>
        rw [hmd] at h; dsimp only at h
        split at h; · simp [fail] at h
        rename_i hge
        exact ⟨d, pr, md, rfl, rfl, hmd, by omega⟩

/-- Binding is rejected when the deposit is below the minimum for the price. -/
theorem bind_rejected_below_minimum (s : State) (svc : SvcName) (pv o : Addr) (d : Nat) (text : PricingText) (qos : Nat)
    (pr : Pricing) (md : Nat) (hp : parsePricing text = .ok pr) (hmd : minDeposit s.params pr = some md) (hlt : d < md) :
    (bind s svc pv o (some d) text qos).2.1 ≠ .ok := by
  intro h
  obtain ⟨d2, pr2, md2, h1, h2, h3, h4⟩ := bind_ok_has_minimum s svc pv o (some d) text qos h
  injection h1 with h1; subst h1
  rw [hp] at h2; injection h2 with h2; subst h2
  rw [hmd] at h3; injection h3 with h3; subst h3
  omega

/-- A slash that takes the deposit below the minimum makes the binding unavailable, with the block time as
    its disabling time; otherwise availability is unchanged. -/
theorem slash_disables_below_minimum {s s1 : State} {r : ReqId} {svc : SvcName} {pv : Addr} {e : List Effect} {b : Binding}
    (hb : Map.get s.bindings (svc, pv) = some b) (hav : b.avail = true) (h : slash s r svc pv = .done s1 e) :
    ∃ md b1, minDeposit s.params (storedPricing s svc pv) = some md ∧ Map.get s1.bindings (svc, pv) = some b1 ∧
      (b1.deposit < md → b1.avail = false ∧ b1.disabledAt = s.time) ∧ (md ≤ b1.deposit → b1.avail = true ∧ b1.disabledAt = b.disabledAt) := by
  unfold slash at h
  rw [hb] at h; dsimp only at h
  split at h; · simp at h
  cases hburn : bankBurn s.bank s.cfg.deposit (b.deposit * s.params.slash / decUnit) with
  | none => rw [hburn] at h; simp at h
  | some bank' =>
    rw [hburn] at h; dsimp only at h
    cases hmd : minDeposit s.params (storedPricing s svc pv) with
    | none => rw [hmd] at h; simp at h
    | some md =>
      rw [hmd] at h; dsimp only at h
      injection h with h1 _; subst h1
      by_cases hlt : b.deposit - b.deposit * s.params.slash / decUnit < md
      · refine ⟨md, _, rfl, Map.get_set_same _ _ _, ?_, ?_⟩
        · intro _; rw [if_pos hlt]; exact ⟨rfl, rfl⟩
        · intro hge; rw [if_pos hlt] at hge; simp only at hge; omega
      · refine ⟨md, _, rfl, Map.get_set_same _ _ _, ?_, ?_⟩
        · intro hl; rw [if_neg hlt] at hl; simp only at hl; omega
        · intro _; rw [if_neg hlt]; exact ⟨hav, rfl⟩

/-- The same after a module-service call (`callMod`, outside `step`; one step from every reachable state): a malformed
    answer of the module slashes the module's own provider, and a binding left below its minimum is no longer
    available. -/
theorem available_holds_minimum_after_module_service_call (hc : CfgOK cfg p) {s : State} (hr : Reachable cfg p h0 t0 s)
    (id : CtxId) (svc : SvcName) (prov cons : Addr) (cap : Option Nat) (inputOk : Bool) (code : Nat) (out : OutKind)
    (hcons : ¬ s.modAcct cons)
    (k : SvcName × Addr) (b : Binding)
    (hb : Map.get (callMod s id svc prov cons cap inputOk code out).1.bindings k = some b) (hav : b.avail = true) :
    ∃ pr, Map.get (callMod s id svc prov cons cap inputOk code out).1.pricing k = some pr ∧ parsePricing b.text = .ok pr ∧
      max (callMod s id svc prov cons cap inputOk code out).1.params.minDep
        (pr.base * (callMod s id svc prov cons cap inputOk code out).1.params.mult) ≤ b.deposit := by
  have hB := callMod_invB s id svc prov cons cap inputOk code out (reachable_inv hc hr) hcons
  obtain ⟨pr, md, hpr, hmd, hle⟩ := hB.minDep k b hb hav
  obtain ⟨pr2, hpr2, hparse, _⟩ := hB.priced k b hb
  rw [hpr] at hpr2; injection hpr2 with hpr2; subst hpr2
  exact ⟨pr, hpr, hparse, by rw [← minDeposit_eq_max _ _ _ hmd]; exact hle⟩

/-- The same in every state of a chain that goes through any number of zero-height restarts: the import rebuilds the
    price terms of every binding, available or not, so the minimum on the restarted chain is the minimum for the
    published price. -/
theorem available_holds_minimum_across_restarts (hc : CfgOK cfg p) {s : State} (hr : ReachableR cfg p h0 t0 s)
    (k : SvcName × Addr) (b : Binding) (hb : Map.get s.bindings k = some b) :
    (∃ pr, Map.get s.pricing k = some pr ∧ parsePricing b.text = .ok pr) ∧
    (b.avail = true → ∃ pr, Map.get s.pricing k = some pr ∧ parsePricing b.text = .ok pr ∧
      max s.params.minDep (pr.base * s.params.mult) ≤ b.deposit) := by
  have hB := (reachableR_invAll hc hr).inv.b
  obtain ⟨pr2, hpr2, hparse, _⟩ := hB.priced k b hb
  refine ⟨⟨pr2, hpr2, hparse⟩, ?_⟩
  intro hav
  obtain ⟨pr, md, hpr, hmd, hle⟩ := hB.minDep k b hb hav
  rw [hpr] at hpr2; injection hpr2 with hpr2; subst hpr2
  exact ⟨pr, hpr, hparse, by rw [← minDeposit_eq_max _ _ _ hmd]; exact hle⟩

/-- The executable monitor `minDep`, which the check evaluates on every state decoded from the implementation's trace
    (it recomputes the minimum from the *published text* of every available binding), reports nothing on any state of a
    chain of the model, restarts included. -/
theorem minimum_monitor_implied (hc : CfgOK cfg p) {s : State} (hr : ReachableR cfg p h0 t0 s) :
    Mon.minDep s = [] := minDep_sound (reachableR_invAll hc hr)

end SM.C14
