import ServiceModel.Proofs.Reachable
import ServiceModel.Proofs.Deposit
import ServiceModel.Proofs.MonitorSound
import ServiceModel.Proofs.ModSvc
import ServiceModel.Proofs.RestartStable
/-!
# C03 — Binding deposits stay in custody and leave only by the rules
-/
namespace SM.C03
open SM

/-- The deposit account always holds exactly the sum of the recorded deposits. -/
theorem deposit_backed {cfg : Config} {p : Params} {h0 t0 : Int} (hc : CfgOK cfg p) {s : State}
    (hr : Reachable cfg p h0 t0 s) :
    s.bal s.cfg.deposit = depositSum s := (reachable_inv hc hr).b.backed

/-- A refund is accepted exactly when the signer owns the binding, the binding is unavailable, its deposit
    is non-zero and the block time has reached disabling time + arbitration + complaint periods
    (the bank transfer cannot fail, because the deposit account is backed). -/
theorem refund_ok_iff {cfg : Config} {p : Params} {h0 t0 : Int} (hc : CfgOK cfg p) {s : State}
    (hr : Reachable cfg p h0 t0 s) (svc : SvcName) (prov o : Addr) :
    (refund s svc prov o).2.1 = .ok ↔
      ∃ b, Map.get s.bindings (svc, prov) = some b ∧ o = b.owner ∧ b.avail = false ∧ b.deposit ≠ 0 ∧
        s.time ≥ b.disabledAt + s.params.arbitration + s.params.complaint := by
  have hB := (reachable_inv hc hr).b
  constructor
  · intro h
    unfold refund at h
    cases hb : Map.get s.bindings (svc, prov) with
    | none => rw [hb] at h; simp [fail] at h
    | some b =>
      rw [hb] at h; dsimp only at h
      split at h; · simp [fail] at h
      split at h; · simp [fail] at h
      split at h; · simp [fail] at h
      split at h; · simp [fail] at h
      rename_i h1 h2 h3 h4
      refine ⟨b, rfl, by simpa using h1, by simpa using h2, h3, by omega⟩
  · rintro ⟨b, hb, h1, h2, h3, h4⟩
    have hle : b.deposit ≤ balOf s.bank.bal s.cfg.deposit := by
      have hv := Map.valAt_le_total (fun b : Binding => b.deposit) s.bindings (svc, prov)
      rw [valAt_eq_of_get _ _ _ _ hb] at hv
      rw [hB.backed]; exact hv
    unfold refund
    rw [hb]; dsimp only
    rw [if_neg (by simp [h1]), if_neg (by simp [h2]), if_neg h3, if_neg (by omega)]
    cases hs : bankSend s.bank s.cfg.deposit b.owner b.deposit with
    | none =>
      have := (bankSend_some_iff s.bank s.cfg.deposit b.owner b.deposit).mpr hle
      rw [hs] at this; simp at this
    | some bank' => rfl

/-- How a binding's deposit can change in one message: it grows only in a bind/update/enable signed by
    its owner (who is debited the same amount), and shrinks only by a refund of the whole deposit to the
    owner — shown here for `refund`: the whole deposit goes to the owner and the record is zeroed. -/
theorem refund_effect (s : State) (svc : SvcName) (prov o : Addr) (h : (refund s svc prov o).2.1 = .ok) :
    ∃ b, Map.get s.bindings (svc, prov) = some b ∧
      (refund s svc prov o).2.2 = [.transfer s.cfg.deposit b.owner b.deposit] ∧
      Map.get (refund s svc prov o).1.bindings (svc, prov) = some { b with deposit := 0 } := by
  unfold refund at h ⊢
  cases hb : Map.get s.bindings (svc, prov) with
  | none => rw [hb] at h; simp [fail] at h
  | some b =>
    rw [hb] at h; dsimp only at h ⊢
    split at h; · simp [fail] at h
    split at h; · simp [fail] at h
    split at h; · simp [fail] at h
    split at h; · simp [fail] at h
    rename_i h1 h2 h3 h4
    rw [if_neg h1, if_neg h2, if_neg h3, if_neg h4]
    cases hs : bankSend s.bank s.cfg.deposit b.owner b.deposit with
    | none => rw [hs] at h; simp [fail] at h
    | some bank' => exact ⟨b, rfl, rfl, Map.get_set_same _ _ _⟩

/-- A slash destroys exactly what it takes from the recorded deposit: the deposit account, the recorded
    deposit and the total supply fall by the same amount `⌊deposit × fraction⌋`. -/
theorem slash_burns {s s1 : State} {r : ReqId} {svc : SvcName} {p : Addr} {e : List Effect} {b : Binding}
    (hb : Map.get s.bindings (svc, p) = some b) (h : slash s r svc p = .done s1 e) :
    e = [.slash r p (b.deposit * s.params.slash / decUnit)] ∧
    s1.bank.supply = s.bank.supply - (b.deposit * s.params.slash / decUnit : Nat) ∧
    (∃ b1, Map.get s1.bindings (svc, p) = some b1 ∧ b1.deposit = b.deposit - b.deposit * s.params.slash / decUnit) := by
  unfold slash at h
  rw [hb] at h; dsimp only at h
  split at h; · simp at h
  cases hburn : bankBurn s.bank s.cfg.deposit (b.deposit * s.params.slash / decUnit) with
  | none => rw [hburn] at h; simp at h
  | some bank' =>
    rw [hburn] at h; dsimp only at h
    have hsup := bankBurn_supply hburn
    split at h
    · cases hmd : minDeposit s.params (storedPricing s svc p) with
      | none => rw [hmd] at h; simp at h
      | some md =>
        rw [hmd] at h; dsimp only at h
        injection h with h1 h2; subst h1; subst h2
        refine ⟨rfl, hsup, ?_⟩
        split <;> exact ⟨_, Map.get_set_same _ _ _, rfl⟩
    · injection h with h1 h2; subst h1; subst h2
      exact ⟨rfl, hsup, _, Map.get_set_same _ _ _, rfl⟩

/-- A binding's deposit shrinks only by a refund, by a slash at a response, or at the end of a block (slashes of
    expired requests): every other operation keeps every existing binding with a deposit at least as large. -/
theorem deposit_lowered_only_by_refund_or_slash (s : State) (op : Op) (h : op.mayLowerDeposit = false)
    (k : SvcName × Addr) (b : Binding) (hb : Map.get s.bindings k = some b) :
    ∃ b', Map.get (step s op).1.bindings k = some b' ∧ b.deposit ≤ b'.deposit :=
  step_dep le_refl' s op (exec_dep_not_lowered s op h) k b hb

/-- A binding's deposit grows only in an update or enable message (a bind creates the binding): every other
    operation, the end of a block included, keeps every existing binding with a deposit at most as large. The
    amount added is the one the owner is debited (`C05.update_debits_only_signer`, `enable_debits_only_signer`). -/
theorem deposit_raised_only_by_update_or_enable (s : State) (op : Op) (h : op.mayRaiseDeposit = false)
    (k : SvcName × Addr) (b : Binding) (hb : Map.get s.bindings k = some b) :
    ∃ b', Map.get (step s op).1.bindings k = some b' ∧ b'.deposit ≤ b.deposit :=
  step_dep ge_refl' s op (exec_dep_not_raised s op h) k b hb

/-- The executable monitor `depositBacked`, which the check evaluates on every state decoded from the implementation's
    trace, is a decidable reading of this equation: it reports nothing on any reachable state of the model, so an
    alarm of it on an implementation state shows a state the model cannot reach. -/
theorem deposit_monitor_implied {cfg : Config} {p : Params} {h0 t0 : Int} (hc : CfgOK cfg p) {s : State}
    (hr : Reachable cfg p h0 t0 s) : Mon.depositBacked s = [] := depositBacked_sound (reachable_inv hc hr)

/-- The module-service branch (`keeper/module_service.go`; model `callMod`, outside `step`): from every reachable state,
    a module-service call by an ordinary account — accepted or rejected, whatever the module answers, including a
    malformed output that slashes the module's own provider — leaves the deposit account holding exactly the recorded
    deposits. One step, like `C01.escrow_backed_after_module_service_call` (DESIGN.md §10.10). -/
theorem deposit_backed_after_module_service_call {cfg : Config} {p : Params} {h0 t0 : Int} (hc : CfgOK cfg p) {s : State}
    (hr : Reachable cfg p h0 t0 s) (id : CtxId) (svc : SvcName) (prov cons : Addr) (cap : Option Nat) (inputOk : Bool)
    (code : Nat) (out : OutKind) (hcons : ¬ s.modAcct cons) :
    (callMod s id svc prov cons cap inputOk code out).1.bal (callMod s id svc prov cons cap inputOk code out).1.cfg.deposit =
      depositSum (callMod s id svc prov cons cap inputOk code out).1 :=
  (callMod_invB s id svc prov cons cap inputOk code out (reachable_inv hc hr) hcons).backed

/-- The same on chains that go through any number of zero-height restarts: the deposit account holds exactly the
    recorded deposits in every state, and a restart itself leaves every recorded deposit — and the deposit account —
    as it was (the preparation moves coins of the request escrow only). -/
theorem deposit_backed_across_restarts {cfg : Config} {p : Params} {h0 t0 : Int} (hc : CfgOK cfg p) {s : State}
    (hr : ReachableR cfg p h0 t0 s) :
    s.bal s.cfg.deposit = depositSum s ∧
    ∀ height time s', restart s height time = some s' →
      (∀ k, Map.get s'.bindings k = Map.get s.bindings k) ∧ s'.bal s'.cfg.deposit = depositSum s' := by
  refine ⟨(reachableR_invAll hc hr).inv.b.backed, ?_⟩
  intro height time s' hre
  obtain ⟨h1, h2⟩ := restart_sameRecords (reachableR_invAll hc hr) hre
  exact ⟨h1.bindings, h2.inv.b.backed⟩

end SM.C03
