import ServiceModel.Proofs.Reachable
import ServiceModel.Proofs.MonitorSound
import ServiceModel.Proofs.ModSvc
/-!
# C01 — Escrowed service fees are always exactly backed

Property theorems only (helper lemmas live under `Proofs/`).
-/
namespace SM.C01
open SM

/-- In every reachable state the escrow account holds exactly the fees of the pending requests plus
    the earnings not yet withdrawn. -/
theorem escrow_backed {cfg : Config} {p : Params} {h0 t0 : Int} (hc : CfgOK cfg p) {s : State}
    (hr : Reachable cfg p h0 t0 s) :
    s.bal s.cfg.escrow = activeFees s + earnedSum s := by
  have := (reachable_inv hc hr).m.escrow
  rw [activeFees_eq]; exact this

/-- The per-step form: whatever a well-formed operation does to the escrow balance, it does to the
    obligations (pending fees + earnings): "never records an obligation without custody, never releases
    coins without extinguishing the obligation". -/
theorem escrow_delta {cfg : Config} {p : Params} {h0 t0 : Int} (hc : CfgOK cfg p) {s : State}
    (hr : Reachable cfg p h0 t0 s) (op : Op) (hw : WF s op) :
    ((step s op).1.bal (step s op).1.cfg.escrow : Int) - s.bal s.cfg.escrow =
      ((activeFees (step s op).1 + earnedSum (step s op).1 : Nat) : Int) - ((activeFees s + earnedSum s : Nat) : Int) := by
  have h1 := escrow_backed hc hr
  have h2 := escrow_backed hc (Reachable.step op hr hw)
  rw [h1, h2]

/-- The same at the granularity of the handlers inside the end of a block: each expired batch and each
    new batch leaves the escrow exactly backed. -/
theorem escrow_backed_after_expiry_handler (s : State) (c : CtxId) (h : Inv s) (hnp : (expireBatch s c).panic = none) :
    (expireBatch s c).s.bal (expireBatch s c).s.cfg.escrow =
      activeFees (expireBatch s c).s + earnedSum (expireBatch s c).s := by
  have := (expireBatch_inv s c h hnp).m.escrow
  rw [activeFees_eq]; exact this

theorem escrow_backed_after_new_batch_handler (s : State) (c : CtxId) (h : Inv s) :
    (newBatch s c).s.bal (newBatch s c).s.cfg.escrow = activeFees (newBatch s c).s + earnedSum (newBatch s c).s := by
  have := (newBatch_inv s c h).m.escrow
  rw [activeFees_eq]; exact this

/-- The executable monitor `escrowBacked`, which the check evaluates on every state decoded from the implementation's
    trace, is a decidable reading of this equation: it reports nothing on any reachable state of the model, so an
    alarm of it on an implementation state shows a state the model cannot reach. -/
theorem escrow_monitor_implied {cfg : Config} {p : Params} {h0 t0 : Int} (hc : CfgOK cfg p) {s : State}
    (hr : Reachable cfg p h0 t0 s) : Mon.escrowBacked s = [] := escrowBacked_sound (reachable_inv hc hr)

/-- The module-service branch (`handler.go`, `keeper/module_service.go`; model `callMod`, outside `step`): from every
    reachable state, a module-service call by an ordinary account — accepted or rejected, whatever the module
    answers — leaves the escrow exactly backed. One step only: the records this branch leaves behind break the
    invocation-world invariants (DESIGN.md §10.10), so histories that continue after such a call are covered by the
    correspondence run and the monitors, not by `escrow_backed`. -/
theorem escrow_backed_after_module_service_call {cfg : Config} {p : Params} {h0 t0 : Int} (hc : CfgOK cfg p) {s : State}
    (hr : Reachable cfg p h0 t0 s) (id : CtxId) (svc : SvcName) (prov cons : Addr) (cap : Option Nat) (inputOk : Bool)
    (code : Nat) (out : OutKind) (hcons : ¬ s.modAcct cons) (hfresh : id ∉ s.usedIds) :
    (callMod s id svc prov cons cap inputOk code out).1.bal (callMod s id svc prov cons cap inputOk code out).1.cfg.escrow =
      activeFees (callMod s id svc prov cons cap inputOk code out).1 + earnedSum (callMod s id svc prov cons cap inputOk code out).1 := by
  have := (callMod_invM s id svc prov cons cap inputOk code out (reachable_inv hc hr) hcons hfresh).escrow
  rw [activeFees_eq]; exact this

/-- … and the keeper-level binding by which the application gives its module service a provider (`modBind`:
    `Keeper.AddServiceBinding` without the handler's reservation check) keeps **every** invariant, the backing
    equation among them: from every reachable state, accepted or rejected. -/
theorem escrow_backed_after_module_binding {cfg : Config} {p : Params} {h0 t0 : Int} (hc : CfgOK cfg p) {s : State}
    (hr : Reachable cfg p h0 t0 s) (svc : SvcName) (pv o : Addr) (dep : Option Nat) (text : PricingText) (qos : Nat)
    (ho : ¬ s.modAcct o) :
    Inv (modBind s svc pv o dep text qos).1 ∧
    (modBind s svc pv o dep text qos).1.bal (modBind s svc pv o dep text qos).1.cfg.escrow =
      activeFees (modBind s svc pv o dep text qos).1 + earnedSum (modBind s svc pv o dep text qos).1 := by
  have h := modBind_inv s svc pv o dep text qos (reachable_inv hc hr) ho
  refine ⟨h, ?_⟩
  rw [activeFees_eq]; exact h.m.escrow

end SM.C01
