import ServiceModel.Proofs.Genesis
import ServiceModel.Proofs.EarnKeys
import ServiceModel.Proofs.Valid
import ServiceModel.Proofs.Restart
import ServiceModel.Proofs.RestartStable
/-!
# C19 — State survives export and re-import; zero-height export returns all escrow

`prep`, `exportG`, `validateG`, `importG` (Model/Genesis.lean) mirror `PrepForZeroHeightGenesis`,
`ExportGenesis`, `ValidateGenesis`, `InitGenesis`. They are tied to the code by the ops `prep`, `export`,
`validate`, `reimport` of the correspondence run (monitor `genesisLaw`: one model step from the
implementation's own state must give the implementation's next state, effects and exported genesis).
The JSON round trip is outside the model (checked on the code alone, op `jsonrt`).
-/
namespace SM.C19
open SM Map

variable {cfg : Config} {p : Params} {h0 t0 : Int}

/-- no account with unwithdrawn earnings is the escrow account: only the signer of an accepted response earns, and a
    module account has no key (`WF`, assumption E1) — an invariant (`earnOK`), not a hypothesis -/
theorem earners_are_not_escrow {s : State} (hr : Reachable cfg p h0 t0 s) :
    ∀ a, (get s.earned a).isSome → a ≠ s.cfg.escrow :=
  fun a ha e => earnOK hr a ha (Or.inl e)

/-- The preparation cannot fail in a reachable state and leaves the request escrow empty. -/
theorem prep_succeeds_and_empties_escrow (hc : CfgOK cfg p) {s : State} (hr : Reachable cfg p h0 t0 s) :
    (prep s).panic = none ∧ balOf (prep s).s.bank.bal s.cfg.escrow = 0 := by
  obtain ⟨hp, b', hs, hb, _, _⟩ := prep_spec (reachable_inv hc hr) (earners_are_not_escrow hr)
  refine ⟨hp, ?_⟩
  rw [hs]; exact hb

/-- Every pending request's fee goes back to the consumer of its context. -/
theorem prep_refunds_every_pending_fee (hc : CfgOK cfg p) {s : State} (hr : Reachable cfg p h0 t0 s)
    (r : ReqId) (hact : r ∈ s.activeI) :
    ∃ q x, get s.reqs r = some q ∧ get s.ctxs r.ctx = some x ∧
      (q.fee ≠ 0 → Effect.transfer s.cfg.escrow x.cons q.fee ∈ (prep s).effs) := by
  have h := reachable_inv hc hr
  obtain ⟨_, _, _, _, hfee, _⟩ := prep_spec h (earners_are_not_escrow hr)
  obtain ⟨q, hq⟩ := Option.isSome_iff_exists.mp (h.x.activeReq r hact)
  obtain ⟨x, hx, _, _⟩ := h.x.reqCtx r q hq
  refine ⟨q, x, hq, hx, fun hne => ?_⟩
  have hm : (x.svc, q.prov, q.expH, r) ∈ s.activeB :=
    (h.x.activeMirror _ _ _ _).mpr ⟨hact, q, x, hq, hx, rfl, rfl, rfl⟩
  have hv : reqView s r = some { id := r, svc := x.svc, prov := q.prov, cons := x.cons, fee := q.fee, super := x.super,
                                 reqH := q.reqH, expH := q.expH } := by
    simp only [reqView, hq, hx]
  exact hfee _ hm _ hv hne

/-- Every unwithdrawn earning goes to its provider. -/
theorem prep_refunds_every_earning (hc : CfgOK cfg p) {s : State} (hr : Reachable cfg p h0 t0 s) (pv : Addr) (n : Nat)
    (he : get s.earned pv = some n) (hn : n ≠ 0) :
    Effect.transfer s.cfg.escrow pv n ∈ (prep s).effs := by
  obtain ⟨_, _, _, _, _, hearn⟩ := prep_spec (reachable_inv hc hr) (earners_are_not_escrow hr)
  exact hearn pv n he hn

/-- After the preparation every context is paused with no batch in flight, and is otherwise unchanged. -/
theorem prep_pauses_every_context (s : State) (hnp : (prep s).panic = none) (c : CtxId) (x : Ctx)
    (hx : get (prep s).s.ctxs c = some x) :
    x.state = .paused ∧ x.bstate = .completed ∧ x.reqN = 0 ∧ x.respN = 0 ∧
    ∃ x0, get s.ctxs c = some x0 ∧ x = resetCtx x0 := prep_ctxs s hnp c x hx

/-- The preparation changes nothing else that is exported. -/
theorem prep_keeps_other_records (hc : CfgOK cfg p) {s : State} (hr : Reachable cfg p h0 t0 s) :
    (prep s).s.params = s.params ∧ (prep s).s.defs = s.defs ∧ (prep s).s.bindings = s.bindings ∧
    (prep s).s.withdraw = s.withdraw ∧ (prep s).s.pricing = s.pricing ∧ (prep s).s.ownerBind = s.ownerBind ∧
    (prep s).s.owner = s.owner ∧ (prep s).s.ownerProv = s.ownerProv := by
  obtain ⟨_, b', hs, _⟩ := prep_spec (reachable_inv hc hr) (earners_are_not_escrow hr)
  rw [hs]; exact ⟨rfl, rfl, rfl, rfl, rfl, rfl, rfl, rfl⟩

/-- The genesis exported after the preparation always passes validation (on the fields the model carries): the
    parameters are legal, every definition, binding, withdraw-address key and context is valid on its own
    (invariants `recOK`, `ctxsFieldsOK`: records are only written by messages that passed stateless validation, or by
    another module passing valid arguments — assumptions E1/E8 carried by `WF`), and the preparation has paused every
    context with its batch completed. -/
theorem validate_after_prep (hc : CfgOK cfg p) {s : State} (hr : Reachable cfg p h0 t0 s) :
    validateG (exportG (prep s).s) = true := by
  have hinv := reachable_inv hc hr
  obtain ⟨hnp, _⟩ := prep_succeeds_and_empties_escrow hc hr
  obtain ⟨e1, e2, e3, e4, _⟩ := prep_keeps_other_records hc hr
  have hrec := recOK hr
  have hctx := ctxsFieldsOK hc hr
  unfold validateG exportG
  simp only [Bool.and_eq_true, e1, e2, e3, e4]
  refine ⟨⟨⟨⟨?_, ?_⟩, ?_⟩, ?_⟩, ?_⟩
  · unfold paramsValid
    simp only [Bool.and_eq_true, decide_eq_true_eq]
    have hs := hinv.static
    exact ⟨⟨⟨⟨⟨by have := hs.maxT_pos; omega, by have := hs.mult_pos; omega⟩, hs.tax_lt⟩, hs.slash_le⟩,
      hs.complaint_pos⟩, hs.arbitration_pos⟩
  · rw [List.all_eq_true]
    rintro ⟨n, d⟩ hm
    exact hrec.defs n d ((mem_entries _ _ _).mp hm)
  · rw [List.all_eq_true]
    rintro ⟨k, b⟩ hm
    exact hrec.binds k b ((mem_entries _ _ _).mp hm)
  · rw [List.all_eq_true]
    rintro ⟨o, a⟩ hm
    exact hrec.wd o a ((mem_entries _ _ _).mp hm)
  · rw [List.all_eq_true]
    rintro ⟨c, x⟩ hm
    obtain ⟨_, _, _, _, x0, hx0, rfl⟩ := prep_ctxs s hnp c x ((mem_entries _ _ _).mp hm)
    have := hctx c x0 hx0
    unfold ctxValid
    simp only [Bool.and_eq_true, decide_eq_true_eq]
    exact ⟨⟨this, rfl⟩, rfl⟩

/-! ### export → import → export -/
theorem importBindings_some (L : List ((SvcName × Addr) × Binding)) :
    ∀ s1, (∀ e ∈ L, ∃ pr, parsePricing e.2.text = .ok pr) → ∃ s2, importBindings s1 L = some s2 := by
  induction L with
  | nil => intro s1 _; exact ⟨s1, rfl⟩
  | cons e t ih =>
    intro s1 h
    obtain ⟨pr, hpr⟩ := h e (List.mem_cons_self ..)
    unfold importBindings importBinding
    simp only [hpr]
    exact ih _ (fun e' he' => h e' (List.mem_cons_of_mem _ he'))

theorem entries_entries {κ ν} [DecidableEq κ] (m : Map κ ν) : entries (entries m) = entries m :=
  entries_of_nodupKeys _ (nodupKeys_entries m)

/-- A reachable state whose exported genesis is valid can be imported into a fresh chain (any configuration of module
    accounts, any height), and exporting from there gives the identical genesis; the three ownership indexes and the
    price terms of the imported bindings are rebuilt consistently with the imported bindings. -/
theorem export_import_export (hc : CfgOK cfg p) {s : State} (hr : Reachable cfg p h0 t0 s)
    (hv : validateG (exportG s) = true) (cfg' : Config) (height time : Int) :
    ∃ s', importG cfg' (exportG s) height time = some s' ∧
      exportG s' = exportG s ∧
      (∀ o svc pv, (o, svc, pv) ∈ s'.ownerBind ↔ ∃ b, get s'.bindings (svc, pv) = some b ∧ b.owner = o) ∧
      (∀ svc pv b, get s'.bindings (svc, pv) = some b → get s'.owner pv = some b.owner) ∧
      (∀ o pv, (o, pv) ∈ s'.ownerProv ↔ get s'.owner pv = some o) ∧
      (∀ k b, get s'.bindings k = some b → ∃ pr, get s'.pricing k = some pr ∧ parsePricing b.text = .ok pr) ∧
      (∀ k, (get s'.pricing k).isSome → (get s'.bindings k).isSome) := by
  have hB := (reachable_inv hc hr).b
  let L := entries s.bindings
  have hLn : NodupKeys L := nodupKeys_entries _
  have hLget : ∀ k b, (k, b) ∈ L ↔ get s.bindings k = some b := fun k b => mem_entries _ _ _
  have hparse : ∀ e ∈ L, ∃ pr, parsePricing e.2.text = .ok pr := by
    rintro ⟨k, b⟩ he
    obtain ⟨pr, _, hpr, _⟩ := hB.priced k b ((hLget k b).mp he)
    exact ⟨pr, hpr⟩
  let s1 : State := { genesis cfg' s.params height time with defs := (entries s.defs).foldl (fun m e => set m e.1 e.2) [] }
  obtain ⟨s2, hs2⟩ := importBindings_some L s1 hparse
  obtain ⟨hf, hb, hob, hop, hpr, how1, how2⟩ := importBindings_spec L s1 s2 hLn hs2
  obtain ⟨f1, f2, f3, f4, f5, f6, f7, f8, f9, f10, f11, f12, f13⟩ := hf
  have hbind : s2.bindings = L := by rw [hb]; exact foldl_set_nil L hLn
  have hget2 : ∀ k b, get s2.bindings k = some b ↔ (k, b) ∈ L := by
    intro k b; rw [hbind, ← mem_entries, entries_of_nodupKeys _ hLn]
  -- all bindings of one provider share an owner
  have hshare : ∀ k b k' b', (k, b) ∈ L → (k', b') ∈ L → k'.2 = k.2 → b'.owner = b.owner := by
    rintro ⟨sv, pv⟩ b ⟨sv', pv'⟩ b' hm hm' he
    dsimp only at he; subst he
    have h1 := hB.ownerOf sv pv' b ((hLget _ _).mp hm)
    have h2 := hB.ownerOf sv' pv' b' ((hLget _ _).mp hm')
    rw [h1] at h2; injection h2 with h2; exact h2.symm
  let s' : State := { s2 with
    withdraw := (entries s.withdraw).foldl (fun m e => set m e.1 e.2) []
    ctxs := (entries s.ctxs).foldl (fun m e => set m e.1 e.2) []
    usedIds := (entries s.ctxs).map (·.1) }
  have himp : importG cfg' (exportG s) height time = some s' := by
    unfold importG
    rw [hv]
    simp only [Bool.not_true, Bool.false_eq_true, if_false, exportG]
    show (match importBindings s1 L with | none => none | some s2 => some _) = some s'
    rw [hs2]
  refine ⟨s', himp, ?_, ?_, ?_, ?_, ?_, ?_⟩
  · -- the second export is the first
    show ({ params := s2.params, defs := entries s2.defs, bindings := entries s2.bindings,
            withdraw := entries ((entries s.withdraw).foldl (fun m e => set m e.1 e.2) []),
            ctxs := entries ((entries s.ctxs).foldl (fun m e => set m e.1 e.2) []) } : GenesisState) = exportG s
    rw [f2, f5, hbind, foldl_set_nil _ (nodupKeys_entries _), foldl_set_nil _ (nodupKeys_entries _)]
    show ({ params := s.params, defs := entries ((entries s.defs).foldl (fun m e => set m e.1 e.2) []),
            bindings := entries (entries s.bindings), withdraw := entries (entries s.withdraw),
            ctxs := entries (entries s.ctxs) } : GenesisState) = exportG s
    rw [foldl_set_nil _ (nodupKeys_entries _), entries_entries, entries_entries, entries_entries, entries_entries]
    rfl
  · intro o svc pv
    show (o, svc, pv) ∈ s2.ownerBind ↔ ∃ b, get s2.bindings (svc, pv) = some b ∧ b.owner = o
    rw [hob]
    constructor
    · rintro (h1 | ⟨k, b, hm, hx⟩)
      · cases h1
      · injection hx with e1 hx; injection hx with e2 e3
        obtain ⟨ksv, kpv⟩ := k
        dsimp only at e2 e3; subst e2; subst e3
        exact ⟨b, (hget2 _ _).mpr hm, e1.symm⟩
    · rintro ⟨b, hg, ho⟩
      exact Or.inr ⟨(svc, pv), b, (hget2 _ _).mp hg, by rw [ho]⟩
  · intro svc pv b hg
    show get s2.owner pv = some b.owner
    have hm := (hget2 _ _).mp hg
    exact how2 (svc, pv) b hm (fun k' b' hm' he => hshare (svc, pv) b k' b' hm hm' he)
  · intro o pv
    show (o, pv) ∈ s2.ownerProv ↔ get s2.owner pv = some o
    rw [hop]
    constructor
    · rintro (h1 | ⟨k, b, hm, hx⟩)
      · cases h1
      · injection hx with e1 e2
        have := how2 k b hm (fun k' b' hm' he => hshare k b k' b' hm hm' he)
        rw [e2, e1]; exact this
    · intro hg
      by_cases hex : ∃ k b, (k, b) ∈ L ∧ k.2 = pv
      · obtain ⟨k, b, hm, hk⟩ := hex
        have := how2 k b hm (fun k' b' hm' he => hshare k b k' b' hm hm' he)
        rw [hk, hg] at this; injection this with this
        exact Or.inr ⟨k, b, hm, by rw [this, hk]⟩
      · have := how1 pv (fun k b hm e => hex ⟨k, b, hm, e⟩)
        rw [hg] at this
        cases this
  · intro k b hg
    show ∃ pr, get s2.pricing k = some pr ∧ parsePricing b.text = .ok pr
    have hm := (hget2 _ _).mp hg
    obtain ⟨pr, hpr0⟩ := hparse (k, b) hm
    exact ⟨pr, (hpr k pr).mpr (Or.inl ⟨b, hm, hpr0⟩), hpr0⟩
  · intro k hsome
    show (get s2.bindings k).isSome
    obtain ⟨pr, hg⟩ := Option.isSome_iff_exists.mp hsome
    rcases (hpr k pr).mp hg with ⟨b, hm, _⟩ | ⟨_, h2⟩
    · rw [(hget2 k b).mpr hm]; rfl
    · cases h2

/-! ### the chain after the restart

`restart` (Model/Restart.lean) is what a zero-height restart does to the module: preparation, export, `InitGenesis`
into a fresh store, balances carried by the bank module. "State survives export and re-import" is read as: the
restarted chain starts from a state that has the same exportable content and satisfies every state invariant the
property theorems C01, C03, C10–C16 rest on — and therefore so does every state it reaches afterwards. -/

/-- For every reachable export point the restart succeeds; the state it produces exports the same genesis and
    satisfies every invariant, under the same configuration and parameters. -/
theorem restart_succeeds_and_keeps_invariants (hc : CfgOK cfg p) {s : State} (hr : Reachable cfg p h0 t0 s)
    (height time : Int) :
    ∃ s0, restart s height time = some s0 ∧ exportG s0 = exportG (prep s).s ∧ Inv s0 ∧
      s0.cfg = s.cfg ∧ s0.params = s.params := by
  obtain ⟨s0, h1, h2, h3, h4, _, _, h7⟩ := restart_inv hc hr height time
  exact ⟨s0, h1, h7, h2, h3, h4⟩

/-- Every state of the restarted chain — any number of further well-formed operations and blocks — satisfies the
    invariants: in particular the request escrow holds exactly the pending fees plus the unwithdrawn earnings (C01)
    and the deposit account exactly the recorded deposits (C03). -/
theorem restarted_chain_stays_backed (hc : CfgOK cfg p) {s : State} (hr : Reachable cfg p h0 t0 s)
    (height time : Int) {s0 s1 : State} (h0' : restart s height time = some s0) (hr1 : ReachableFrom s0 s1) :
    Inv s1 ∧
    balOf s1.bank.bal s1.cfg.escrow = activeFees s1 + earnedSum s1 ∧
    balOf s1.bank.bal s1.cfg.deposit = depositSum s1 := by
  obtain ⟨s0', h1, h2, _⟩ := restart_inv hc hr height time
  rw [h0'] at h1; injection h1 with h1; subst h1
  have hi := inv_reachableFrom h2 hr1
  refine ⟨hi, ?_, hi.b.backed⟩
  rw [activeFees_eq]; exact hi.m.escrow

/-- The restarted chain starts with nothing in flight: no queue entry, request, response, pending marker or
    earning, every context paused with its batch completed, and an empty request escrow. -/
theorem restarted_chain_starts_quiescent (hc : CfgOK cfg p) {s : State} (hr : Reachable cfg p h0 t0 s)
    (height time : Int) {s0 : State} (h0' : restart s height time = some s0) :
    balOf s0.bank.bal s0.cfg.escrow = 0 ∧
    ∀ c x, get s0.ctxs c = some x → x.state = .paused ∧ x.bstate = .completed := by
  obtain ⟨s0', h1, h2, h3, _, _, _, h7⟩ := restart_inv hc hr height time
  rw [h0'] at h1; injection h1 with h1; subst h1
  obtain ⟨hnp, _⟩ := prep_succeeds_and_empties_escrow hc hr
  constructor
  · -- the bank is the one the preparation left; the configuration is unchanged
    unfold restart at h0'
    rw [hnp] at h0'; dsimp only at h0'
    split at h0'
    · cases h0'
    · injection h0' with h0'; subst h0'
      have := (prep_succeeds_and_empties_escrow hc hr).2
      rw [h3] at *
      exact this
  · intro c x hx
    have hex : entries s0.ctxs = entries (prep s).s.ctxs := by
      have := congrArg GenesisState.ctxs h7
      exact this
    have hm : (c, x) ∈ entries (prep s).s.ctxs := by rw [← hex]; exact (mem_entries _ _ _).mpr hx
    obtain ⟨a1, a2, _⟩ := prep_ctxs s hnp c x ((mem_entries _ _ _).mp hm)
    exact ⟨a1, a2⟩

/-- **Any number of restarts.** On a chain that has gone through any number of zero-height restarts, at arbitrary
    heights and times and with any well-formed operations in between (`ReachableR`), every state satisfies every state
    invariant — in particular the backing equations of C01 and C03 —, every further restart succeeds, and the genesis
    exported after a preparation is always valid. -/
theorem chain_with_restarts_keeps_invariants (hc : CfgOK cfg p) {s : State} (hr : ReachableR cfg p h0 t0 s) :
    Inv s ∧
    balOf s.bank.bal s.cfg.escrow = activeFees s + earnedSum s ∧
    balOf s.bank.bal s.cfg.deposit = depositSum s ∧
    validateG (exportG (prep s).s) = true ∧
    ∀ height time, (restart s height time).isSome := by
  have hall := reachableR_invAll hc hr
  refine ⟨hall.inv, ?_, hall.inv.b.backed, validate_after_prep_of hall.inv hall.earn hall.recs hall.ctxf,
    fun height time => reachableR_restart_succeeds hc hr height time⟩
  rw [activeFees_eq]; exact hall.inv.m.escrow

/-- What the restarted chain reads back, as point lookups: every definition, every binding (the whole record —
    deposit, price text, availability, disabling time, owner), every withdrawal address and every provider's owner are
    those of the old chain, the parameters and the module accounts too. -/
theorem restart_gives_back_the_same_records (hc : CfgOK cfg p) {s s' : State} (hr : ReachableR cfg p h0 t0 s)
    {height time : Int} (hre : restart s height time = some s') :
    (∀ n, get s'.defs n = get s.defs n) ∧ (∀ k, get s'.bindings k = get s.bindings k) ∧
    (∀ o, get s'.withdraw o = get s.withdraw o) ∧ (∀ pv, get s'.owner pv = get s.owner pv) ∧
    s'.params = s.params ∧ s'.cfg = s.cfg :=
  let h := (restart_sameRecords (reachableR_invAll hc hr) hre).1
  ⟨h.defs, h.bindings, h.withdraw, h.owner, h.params, h.cfg⟩

end SM.C19
