import ServiceModel.Proofs.Reachable
import ServiceModel.Properties.C08
import ServiceModel.Proofs.NoSlash
import ServiceModel.Proofs.CountEq
import ServiceModel.Proofs.CbCount
import ServiceModel.Proofs.OnceRestart
import ServiceModel.Proofs.GhostRestart
/-!
# C12 — Batch bookkeeping and module callbacks are exact (state part)
-/
namespace SM.C12
open SM

variable {cfg : Config} {p : Params} {h0 t0 : Int}

/-- A batch is marked running only while its expiry is pending (so it is completed at the latest when its
    expiry block ends, and a context without a batch in flight has its batch marked completed). -/
theorem running_batch_has_pending_expiry (hc : CfgOK cfg p) {s : State} (hr : Reachable cfg p h0 t0 s)
    (c : CtxId) (x : Ctx) (hx : Map.get s.ctxs c = some x) (hb : x.bstate = .running) : (Map.get s.expH c).isSome :=
  (reachable_inv hc hr).x.bRunExp c x hx hb

/-- Pending requests belong to a batch that is still running: a batch is never marked completed while one of its
    requests is still pending ("never earlier"). -/
theorem pending_implies_batch_running (hc : CfgOK cfg p) {s : State} (hr : Reachable cfg p h0 t0 s) (r : ReqId) (ha : r ∈ s.activeI) :
    ∃ x, Map.get s.ctxs r.ctx = some x ∧ x.bstate = .running := (reachable_inv hc hr).x.activeRunning r ha

/-- For the batch in flight, pending + answered never exceeds issued; hence the response that makes the
    response count reach the request count answers the last pending request. -/
theorem pending_plus_answered_le_issued (hc : CfgOK cfg p) {s : State} (hr : Reachable cfg p h0 t0 s)
    (c : CtxId) (x : Ctx) (hx : Map.get s.ctxs c = some x) (hb : x.bstate = .running) :
    (s.activeI.filter (fun r => r.ctx = c)).length + x.respN ≤ x.reqN := (reachable_inv hc hr).x.counts c x hx hb

/-- Between operations the counters of the batch in flight are exact: pending + answered = issued. Every request of
    the batch is either still pending or has been answered (and counted) — none is lost or counted twice —
    so the batch is completed by responses exactly when the last pending request is answered. -/
theorem pending_plus_answered_eq_issued (hc : CfgOK cfg p) {s : State} (hr : Reachable cfg p h0 t0 s)
    (c : CtxId) (x : Ctx) (hx : Map.get s.ctxs c = some x) (hb : x.bstate = .running) :
    (s.activeI.filter (fun r => r.ctx = c)).length + x.respN = x.reqN := ceq_reachable hc hr c x hx hb

/-- Hence a batch that is still marked running has a pending request unless nothing at all was issued for it
    (a skipped batch): "marked completed as soon as all of its (one or more) requests have been answered". -/
theorem running_batch_with_requests_has_pending (hc : CfgOK cfg p) {s : State} (hr : Reachable cfg p h0 t0 s)
    (c : CtxId) (x : Ctx) (hx : Map.get s.ctxs c = some x) (hb : x.bstate = .running) (hlt : x.respN < x.reqN) :
    ∃ r, r ∈ s.activeI ∧ r.ctx = c := by
  have h : (s.activeI.filter (fun r => r.ctx = c)).length + x.respN = x.reqN := ceq_reachable hc hr c x hx hb
  have hpos : 0 < (s.activeI.filter (fun r => r.ctx = c)).length := by omega
  obtain ⟨r, hr⟩ := List.exists_mem_of_length_pos hpos
  have := List.mem_filter.mp hr
  exact ⟨r, this.1, by simpa using this.2⟩

/-- The response callback of a module context gets exactly the non-empty outputs of the batch's responses and an
    error flag iff fewer outputs than the batch threshold arrived (definition of `completeBatch`, the only place
    that emits the callback). -/
theorem callback_args (s : State) (c : CtxId) (x st : Ctx) (hm : x.mod ≠ "") (hst : Map.get s.ctxs c = some st) :
    (completeBatch s c x).2 =
      [.respcb c (batchOutputs s c st.batch) (decide ((batchOutputs s c st.batch).length < st.bthr)), .ev "complete_batch" c] := by
  unfold completeBatch
  simp [hm, hst]

/-- Contexts created by a message get no callback. -/
theorem no_callback_for_message_contexts (s : State) (c : CtxId) (x : Ctx) (hm : x.mod = "") :
    (completeBatch s c x).2 = [.ev "complete_batch" c] := by
  unfold completeBatch
  simp [hm]

/-- Completion marks the batch completed (whatever the context) and emits the completion event; for a module
    context exactly one callback precedes it, for a message context none. -/
theorem completion_marks_completed (s : State) (c : CtxId) (x : Ctx) :
    (completeBatch s c x).1.bstate = .completed ∧
    (∃ cb, (completeBatch s c x).2 = cb ++ [.ev "complete_batch" c] ∧
      ((x.mod ≠ "" → ∃ outs f, cb = [.respcb c outs f]) ∧ (x.mod = "" → cb = []))) := by
  unfold completeBatch
  dsimp only
  refine ⟨rfl, _, rfl, ?_, ?_⟩
  · intro hm
    rw [if_pos hm]
    cases Map.get s.ctxs c with
    | none => exact ⟨_, _, rfl⟩
    | some st => exact ⟨_, _, rfl⟩
  · intro hm
    rw [if_neg (by simp [hm])]

/-- An accepted response completes the batch exactly when it brings the response count to the request count
    ("as soon as all of its requests have been answered"), and otherwise leaves the batch state alone; in both
    cases the response count goes up by exactly one and the request count is unchanged. -/
theorem accepted_response_counts (s : State) (r : ReqId) (pv : Addr) (code : Nat) (out : OutKind) (x : Ctx)
    (hx : Map.get s.ctxs r.ctx = some x) (hok : (respond s r pv code out).2.1 = .ok) :
    ∃ x', Map.get (respond s r pv code out).1.ctxs r.ctx = some x' ∧ x'.respN = x.respN + 1 ∧ x'.reqN = x.reqN ∧
      x'.batch = x.batch ∧
      (x.respN + 1 = x.reqN → x'.bstate = .completed ∧ .ev "complete_batch" r.ctx ∈ (respond s r pv code out).2.2) ∧
      (x.respN + 1 ≠ x.reqN → x'.bstate = x.bstate ∧ .ev "complete_batch" r.ctx ∉ (respond s r pv code out).2.2) := by
  unfold respond at hok ⊢
  cases hq : Map.get s.reqs r with
  | none => rw [hq] at hok; simp [fail] at hok
  | some q =>
    rw [hq] at hok; dsimp only at hok ⊢
    rw [hx] at hok ⊢; dsimp only at hok ⊢
    split at hok; · simp [fail] at hok
    split at hok; · simp [fail] at hok
    rename_i h1 h2
    rw [if_neg h1, if_neg h2]
    cases hs : settle s r x.svc x.cons q pv out with
    | error res =>
      rw [hs] at hok; dsimp only at hok
      exact absurd hok (C08.settle_error_not_ok hs)
    | ok res =>
      obtain ⟨s1, e1⟩ := res
      dsimp only
      have he1 : .ev "complete_batch" r.ctx ∉ e1 := by
        intro hm
        rcases settle_effects hs _ hm with ⟨_, _, _, he⟩ | ⟨_, _, _, he⟩ <;> cases he
      by_cases hc : x.respN + 1 = x.reqN
      · rw [if_pos hc]
        refine ⟨{ x with respN := x.respN + 1, bstate := .completed }, ?_, rfl, rfl, rfl, fun _ => ⟨rfl, ?_⟩,
          fun hne => absurd hc hne⟩
        · simp [setCtx, completeBatch]
        · simp [completeBatch]
      · rw [if_neg hc]
        refine ⟨{ x with respN := x.respN + 1 }, ?_, rfl, rfl, rfl, fun h => absurd h hc, fun _ => ⟨rfl, he1⟩⟩
        simp [setCtx]

/-- At expiry a batch is completed (event, and callback for a module context) exactly when it was not completed
    before — i.e. when its responses had not already completed it: "otherwise when its expiry block ends", and
    never a second time. -/
theorem expiry_completes_iff_not_yet_completed (s : State) (c : CtxId) (x : Ctx) :
    (.ev "complete_batch" c ∈ (expirePending s c x).1.effs ↔ x.bstate ≠ .completed) ∧
    (expirePending s c x).2.bstate = .completed := by
  by_cases hb : x.bstate ≠ .completed
  · unfold expirePending
    rw [if_pos hb]
    dsimp only
    refine ⟨⟨fun _ => hb, fun _ => ?_⟩, rfl⟩
    apply List.mem_append_right
    unfold completeBatch
    simp
  · have hc : x.bstate = .completed := by
      cases hh : x.bstate with
      | completed => rfl
      | running => rw [hh] at hb; simp at hb
    unfold expirePending
    rw [if_neg hb]
    refine ⟨⟨(fun h => by cases h), (fun h => absurd hc h)⟩, hc⟩

/-- … and when the batch had been completed by its responses, the expiry handler emits nothing for it. -/
theorem expiry_of_completed_batch_is_silent (s : State) (c : CtxId) (x : Ctx) (hb : x.bstate = .completed) :
    (expirePending s c x).1.effs = [] ∧ (expirePending s c x).1.s = s := by
  unfold expirePending
  rw [if_neg (by simp [hb])]
  exact ⟨rfl, rfl⟩

/-- The settlement of the expired requests themselves only moves or burns coins: the completion event and callback
    of the handler are the ones of `completeBatch`, emitted once. -/
theorem expiry_settlements_emit_no_events (s : State) (x : Ctx) (ids : List ReqId) :
    ∀ e ∈ (foldH (expireReq x) s ids).effs, e.isMoney = true :=
  foldH_effects (expireReq x) (fun e => e.isMoney = true) (expireReq_effects x) ids s

/-! ### the response callback, over whole histories

`CReach` runs the machine together with a counter per context of the response callbacks (`respcb` effects) invoked
for it so far (`Proofs/CbCount.lean`); the counter is an observer (`CReach.state_reachable`, `reachable_has_count`). -/

/-- Exactly once per batch, over every history: for a context created by a module, the number of response callbacks
    invoked so far, plus one if a batch is in flight, equals the number of batches started (issued or skipped).
    So every batch that has been completed got exactly one callback, a batch in flight has not had its callback
    yet, and no callback is ever invoked without a batch. -/
theorem callbacks_match_batches (hc : CfgOK cfg p) {s : State} {n : CtxId → Nat} (hr : CReach cfg p h0 t0 s n)
    (c : CtxId) (x : Ctx) (hx : Map.get s.ctxs c = some x) (hm : x.mod ≠ "") :
    n c + (if x.bstate = .running then 1 else 0) = x.batch := (cbok_reachable hc hr).2 c x hx hm

/-- No callback is ever invoked for a context id that was never created. -/
theorem no_callback_without_context (hc : CfgOK cfg p) {s : State} {n : CtxId → Nat} (hr : CReach cfg p h0 t0 s n)
    (c : CtxId) (hu : c ∉ s.usedIds) : n c = 0 := (cbok_reachable hc hr).1 c hu

/-- The counters are exact in every state of a chain that goes through any number of zero-height restarts as well (a
    restart leaves no batch running; the batches issued afterwards are counted like any other): pending + answered =
    issued for the batch in flight, a running batch has its expiry pending, and a pending request's batch is running. -/
theorem counters_exact_across_restarts (hc : CfgOK cfg p) {s : State} (hr : ReachableR cfg p h0 t0 s)
    (c : CtxId) (x : Ctx) (hx : Map.get s.ctxs c = some x) (hb : x.bstate = .running) :
    (s.activeI.filter (fun r => r.ctx = c)).length + x.respN = x.reqN ∧ (Map.get s.expH c).isSome :=
  ⟨ceq_reachableR hc hr c x hx hb, (reachableR_invAll hc hr).inv.x.bRunExp c x hx hb⟩

/-- "One callback per batch" over chains with any number of zero-height restarts. The chain is run with two observers:
    `n c`, the response callbacks invoked so far for context `c`, and `k c`, the batches of `c` that were in flight at a
    restart (`cancelled`: the preparation refunds their requests and marks the batch completed without a callback).
    For every context created by a module: callbacks + batches cancelled by a restart + (1 if a batch is in flight) =
    batches started. So on a chain with restarts too every completed batch got exactly one callback, except those a
    restart cancelled, which got none, and no callback is invoked without a batch. -/
theorem callbacks_match_batches_across_restarts (hc : CfgOK cfg p) {s : State} {n k : CtxId → Nat}
    (hr : CReachR cfg p h0 t0 s n k) (c : CtxId) (x : Ctx) (hx : Map.get s.ctxs c = some x) (hm : x.mod ≠ "") :
    n c + k c + (if x.bstate = .running then 1 else 0) = x.batch := (cbokR_reachableR hc hr).2 c x hx hm

/-- … no callback and no cancellation for a context id that was never created. -/
theorem no_callback_without_context_across_restarts (hc : CfgOK cfg p) {s : State} {n k : CtxId → Nat}
    (hr : CReachR cfg p h0 t0 s n k) (c : CtxId) (hu : c ∉ s.usedIds) : n c = 0 ∧ k c = 0 :=
  (cbokR_reachableR hc hr).1 c hu

/-- Every state of a chain with restarts is observed; without a restart nothing is ever counted as cancelled. -/
theorem every_chain_with_restarts_is_counted {s : State} (hr : ReachableR cfg p h0 t0 s) :
    ∃ n k, CReachR cfg p h0 t0 s n k := reachableR_has_count hr

end SM.C12
