import ServiceModel.Proofs.Reachable
/-!
# C12 — Batch bookkeeping and module callbacks are exact (state part)
-/
namespace SM.C12
open SM

variable {cfg : Config} {p : Params} {h0 t0 : Int}

/-- A batch is marked running only while its expiry is pending (so it is completed at the latest when its
    expiry block ends, and a context without a batch in flight has its batch marked completed). -/
theorem running_batch_has_pending_expiry (hc : CfgOK cfg p) {s : State} (hr : Reachable cfg p h0 t0 s)
    (c : CtxId) (x : Ctx) (hx : Map.get s.ctxs c = some x) (hb : x.bstate = .running) : (Map.get s.expH c).isSome :=
  (reachable_inv hc hr).x.bRunExp c x hx hb

/-- Pending requests belong to a batch that is still running: a batch is never marked completed while one of its
    requests is still pending ("never earlier"). -/
theorem pending_implies_batch_running (hc : CfgOK cfg p) {s : State} (hr : Reachable cfg p h0 t0 s) (r : ReqId) (ha : r ∈ s.activeI) :
    ∃ x, Map.get s.ctxs r.ctx = some x ∧ x.bstate = .running := (reachable_inv hc hr).x.activeRunning r ha

/-- For the batch in flight, pending + answered never exceeds issued; hence the response that makes the
    response count reach the request count answers the last pending request. -/
theorem pending_plus_answered_le_issued (hc : CfgOK cfg p) {s : State} (hr : Reachable cfg p h0 t0 s)
    (c : CtxId) (x : Ctx) (hx : Map.get s.ctxs c = some x) (hb : x.bstate = .running) :
    (s.activeI.filter (fun r => r.ctx = c)).length + x.respN ≤ x.reqN := (reachable_inv hc hr).x.counts c x hx hb

/-- The response callback of a module context gets exactly the non-empty outputs of the batch's responses and an
    error flag iff fewer outputs than the batch threshold arrived (definition of `completeBatch`, the only place
    that emits the callback). -/
theorem callback_args (s : State) (c : CtxId) (x st : Ctx) (hm : x.mod ≠ "") (hst : Map.get s.ctxs c = some st) :
    (completeBatch s c x).2 =
      [.respcb c (batchOutputs s c st.batch) (decide ((batchOutputs s c st.batch).length < st.bthr)), .ev "complete_batch" c] := by
  unfold completeBatch
  simp [hm, hst]

/-- Contexts created by a message get no callback. -/
theorem no_callback_for_message_contexts (s : State) (c : CtxId) (x : Ctx) (hm : x.mod = "") :
    (completeBatch s c x).2 = [.ev "complete_batch" c] := by
  unfold completeBatch
  simp [hm]

end SM.C12
