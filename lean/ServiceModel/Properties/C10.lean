import ServiceModel.Proofs.Reachable
import ServiceModel.Proofs.CtxOrigin
import ServiceModel.Proofs.OneShot
import ServiceModel.Proofs.Cadence
import ServiceModel.Proofs.GhostRestart
/-!
# C10 — Repeated invocations keep their cadence and respect their total (state part)
-/
namespace SM.C10
open SM

variable {cfg : Config} {p : Params} {h0 t0 : Int}

/-- A context never has two batches in flight: it never has a new-batch event and an expiry event at once. -/
theorem single_flight (hc : CfgOK cfg p) {s : State} (hr : Reachable cfg p h0 t0 s) (c : CtxId) :
    Map.get s.newH c = none ∨ Map.get s.expH c = none := (reachable_inv hc hr).x.single c

/-- A repeated context's frequency is never below its timeout, so the next batch
    (queued at expiry − timeout + frequency) never starts before the previous one has expired. -/
theorem frequency_not_below_timeout (hc : CfgOK cfg p) {s : State} (hr : Reachable cfg p h0 t0 s)
    (c : CtxId) (x : Ctx) (hx : Map.get s.ctxs c = some x) : 1 ≤ x.timeout ∧ (x.rep = true → x.timeout ≤ (x.freq : Int)) :=
  (reachable_inv hc hr).x.ctxWF c x hx

/-- The first batch is queued for the block that contains the call: an accepted call leaves a new-batch event
    at the current height. -/
theorem first_batch_queued_at_call_height (s : State) (id : CtxId) (svc : SvcName) (provs : List Addr) (cons : Addr)
    (cap : Option Nat) (timeout : Int) (super rep : Bool) (freq : Nat) (total : Int) (inputOk : Bool)
    (h : (createCtx s id "" svc provs cons cap timeout super rep freq total inputOk true 0).2.1 = .ok) :
    Map.get (createCtx s id "" svc provs cons cap timeout super rep freq total inputOk true 0).1.newH id = some s.height := by
  unfold createCtx at h ⊢
  cases hp : createPre s "" svc provs cap timeout rep freq total 0 with
  | some e => rw [hp] at h; simp [fail] at h
  | none =>
    rw [hp] at h; dsimp only at h ⊢
    split at h; · simp [fail] at h
    split at h; · simp [fail] at h
    rename_i h1 h2
    rw [if_neg h1, if_neg h2]
    cases cap with
    | none => simp [fail] at h
    | some capv =>
      dsimp only at h ⊢
      split at h; · simp [fail] at h
      split at h; · simp [fail] at h
      rename_i h3 h4
      rw [if_neg h3, if_neg h4]
      simp [addNewQ]

/-- When a batch expires while the context is running, the next batch is queued exactly `frequency` blocks after
    the start of the expired one (expiry height − timeout + frequency), or the context is finished. -/
theorem next_batch_height (s : State) (c : CtxId) (x1 : Ctx) (hrun : x1.state = .running)
    (hmore : x1.rep = true ∧ (x1.total < 0 ∨ (x1.batch : Int) < x1.total)) :
    Map.get (expireTail s c x1).1.newH c = some (s.height - x1.timeout + x1.freq) := by
  unfold expireTail
  dsimp only
  rw [hrun]
  dsimp only
  rw [if_pos hmore]
  show Map.get (Map.set _ c _) c = _
  exact Map.get_set_same _ _ _

/-- Cadence: a batch that started at height `H` expires at `H + timeout` (`issueBatch` queues the expiry there,
    `C06.batch_issued`); when that expiry is handled for a context that is still running with more batches to
    come, the next batch is queued for `H + frequency` — consecutive batches start exactly `frequency` blocks apart. -/
theorem next_batch_is_frequency_after_start (s : State) (c : CtxId) (x1 : Ctx) (H : Int) (hH : s.height = H + x1.timeout)
    (hrun : x1.state = .running) (hmore : x1.rep = true ∧ (x1.total < 0 ∨ (x1.batch : Int) < x1.total)) :
    Map.get (expireTail s c x1).1.newH c = some (H + x1.freq) := by
  rw [next_batch_height s c x1 hrun hmore, hH]
  congr 1; omega

/-- A running repeated context whose total is reached is finished when its batch expires: no further batch is queued. -/
theorem total_reached_finishes (s : State) (c : CtxId) (x1 : Ctx) (hrun : x1.state = .running)
    (hdone : ¬ (x1.rep = true ∧ (x1.total < 0 ∨ (x1.batch : Int) < x1.total))) :
    Map.get (expireTail s c x1).1.ctxs c = none ∧ (expireTail s c x1).1.newH = s.newH := by
  unfold expireTail
  dsimp only
  rw [hrun]
  dsimp only
  rw [if_neg hdone]
  refine ⟨?_, rfl⟩
  show Map.get (Map.del _ c) c = none
  exact Map.get_del_same _ _

/-- The new-batch handler never issues a batch beyond the total: a running repeated context whose counter has
    reached a non-negative total is completed instead (this is the repaired behaviour, defect D3). -/
theorem no_batch_beyond_total (s : State) (c : CtxId) (x : Ctx) (hq : (s.height, c) ∈ s.newQ) (hx : Map.get s.ctxs c = some x)
    (hrun : x.state = .running) (hrep : x.rep = true) (htot : x.total ≥ 0) (hreached : (x.batch : Int) ≥ x.total) :
    Map.get (newBatch s c).s.ctxs c = none ∧ (newBatch s c).s.reqs = s.reqs := by
  unfold newBatch
  rw [if_neg (by simpa using hq), hx]
  dsimp only
  rw [if_pos ⟨hrun, hrep, htot, hreached⟩]
  refine ⟨?_, rfl⟩
  show Map.get (Map.del s.ctxs c) c = none
  exact Map.get_del_same _ _

/-- Over every history: a repeated context with a positive total never has had more batches (issued or skipped) than
    that total — an invariant of all reachable states. An update can lower the total only down to the number of
    batches already had (`updateK` rejects a positive total below the counter), so this is the bound "by the largest
    total ever in force" at every moment. -/
theorem batches_never_exceed_total (hc : CfgOK cfg p) {s : State} (hr : Reachable cfg p h0 t0 s)
    (c : CtxId) (x : Ctx) (hx : Map.get s.ctxs c = some x) (hrep : x.rep = true) (hpos : 0 < x.total) :
    (x.batch : Int) ≤ x.total := totBounded hc hr c x hx hrep hpos

/-- Over every history: a one-shot (non-repeated) context never gets more than one batch — an invariant of all
    reachable states; its counter is still 0 while it waits for its batch or is paused for lack of funds. -/
theorem one_shot_at_most_one_batch (hc : CfgOK cfg p) {s : State} (hr : Reachable cfg p h0 t0 s)
    (c : CtxId) (x : Ctx) (hx : Map.get s.ctxs c = some x) (hrep : x.rep = false) :
    x.batch ≤ 1 ∧ (((Map.get s.newH c).isSome ∨ x.state = .paused) → x.batch = 0) :=
  kinv_reachable hc hr c x hx hrep

/-! ### cadence over whole histories

`GReach` runs the machine together with a ghost observer (`Proofs/Cadence.lean`, `gstep`): whenever the new-batch
handler advances a context's batch counter (a batch is issued or skipped) at height `h`, the observer records
`last c := h`; the record is dropped by an accepted pause / start / kill / update aimed at `c` and when the
handler does not start a batch for its due entry (the context is paused for lack of funds, is not running, or is
finished) — i.e. it is kept exactly while the context stayed running with unchanged timeout and frequency.
When a batch starts for a context with a record `L` at a height other than `L + frequency`, the observer raises
`bad`. The observer never influences the state (`GReach.state_reachable`, `reachable_has_ghost`). -/

/-- Cadence, over every history: a batch of a context that stayed running with unchanged timeout and frequency
    since its previous batch never starts anywhere but exactly `frequency` blocks after that previous batch. -/
theorem cadence_never_broken (hc : CfgOK cfg p) {s : State} {g : Ghost} (hr : GReach cfg p h0 t0 s g) :
    g.bad = false := (cad_reachable hc hr).1

/-- … and in between, such a context is running and on schedule: its batch started at `L` expires at `L + timeout`,
    or (after that expiry) its next batch is queued for `L + frequency`. -/
theorem tracked_context_on_schedule (hc : CfgOK cfg p) {s : State} {g : Ghost} (hr : GReach cfg p h0 t0 s g)
    (c : CtxId) (L : Int) (x : Ctx) (hL : Map.get g.last c = some L) (hx : Map.get s.ctxs c = some x) :
    x.state = .running ∧
      (Map.get s.expH c = some (L + x.timeout) ∨ Map.get s.newH c = some (L + (x.freq : Int))) :=
  ((cad_reachable hc hr).2 c L hL).2 x hx

/-- The handler-level fact behind it: in a state satisfying the invariants, with every tracked context on schedule,
    the new-batch handler of any queue entry leaves the flag down. -/
theorem new_batch_handler_keeps_cadence (s : State) (c : CtxId) (h : Inv s) (g : Ghost) (hk : CadOK s g) :
    (gNew g s c).bad = false := (newBatch_cad s c h g hk).1

/-! ### cadence over chains that go through zero-height restarts

`GReachR` is `GReach` with one more constructor: a restart, at which the observer forgets every recorded start (the
restart pauses every context and cancels the batch in flight; the consumer has to start the context again, and the
batch it then gets is not bound to the schedule of the old chain) and keeps its flag. -/

/-- Cadence over every chain with any number of restarts: the flag is never raised. -/
theorem cadence_never_broken_across_restarts (hc : CfgOK cfg p) {s : State} {g : Ghost}
    (hr : GReachR cfg p h0 t0 s g) : g.bad = false := (cad_reachableR hc hr).1

/-- … and a tracked context of such a chain is running and on schedule. -/
theorem tracked_context_on_schedule_across_restarts (hc : CfgOK cfg p) {s : State} {g : Ghost}
    (hr : GReachR cfg p h0 t0 s g) (c : CtxId) (L : Int) (x : Ctx) (hL : Map.get g.last c = some L)
    (hx : Map.get s.ctxs c = some x) :
    x.state = .running ∧
      (Map.get s.expH c = some (L + x.timeout) ∨ Map.get s.newH c = some (L + (x.freq : Int))) :=
  ((cad_reachableR hc hr).2 c L hL).2 x hx

/-- Every state of a chain with restarts is observed (the observer does not restrict the chain). -/
theorem every_chain_with_restarts_is_observed {s : State} (hr : ReachableR cfg p h0 t0 s) :
    ∃ g, GReachR cfg p h0 t0 s g := reachableR_has_ghost hr

/-- The state clauses over chains with restarts: never two batches in flight … -/
theorem single_flight_across_restarts (hc : CfgOK cfg p) {s : State} (hr : ReachableR cfg p h0 t0 s) (c : CtxId) :
    Map.get s.newH c = none ∨ Map.get s.expH c = none := (reachableR_invAll hc hr).inv.x.single c

/-- … and a repeated context with a positive total never has had more batches (issued or skipped) than that total:
    a restart gives the context back with the counter it had — the batch it cancels stays counted. (The *one-shot*
    clause `one_shot_at_most_one_batch` is not restated: a one-shot context whose only batch a restart cancelled can be
    started again on the new chain and is then served — and charged — once; DESIGN.md §10.9.) -/
theorem batches_never_exceed_total_across_restarts (hc : CfgOK cfg p) {s : State} (hr : ReachableR cfg p h0 t0 s)
    (c : CtxId) (x : Ctx) (hx : Map.get s.ctxs c = some x) (hrep : x.rep = true) (hpos : 0 < x.total) :
    (x.batch : Int) ≤ x.total := totBoundedR hc hr c x hx hrep hpos

end SM.C10
